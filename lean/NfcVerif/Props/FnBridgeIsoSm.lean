import NfcVerif.Lemmas.FnBridgeIsoSm
import NfcVerif.Props.C12
import NfcVerif.Props.C08
/-!
# Bridge theorems, group IsoSm (`nfc/tag/tt4.py`: the decisions of the ISO-DEP initiator and of the Type 4 Tag NDEF
procedures -> `Gen/FnIsoSm.lean` -> `Model/IsoDep.lean`, `Model/Retry.lean`, `Model/AdvT34.lean`, `Model/T4.lean`,
`Model/FnIsoSmRef.lean`)

Properties C12 (ISO-DEP: every command is executed once and answered, or the failure is reported), C16 (which errors are
retried and how they are reported), C08 (octets of an arbitrary card raise nothing unhandled, the procedures end), C01
(NDEF write / read plan of Type 4 Tags).  The cuts are listed in `harness/fnspecs/isosm.py` and in the doc comments of
`Gen/FnIsoSm.lean`; APDU build / status and the READ / UPDATE BINARY arguments are group T4, whose regenerated
definitions and bridge theorems are used here.

* `wtx_test_bridge` .. `chain_acc_bridge`: the single pieces (S(WTX) test, empty-answer test, retransmit test, every
  `except` handler, I-block, block number check, R(ACK) / I-block step, chaining test, accumulation) against the
  expressions of `Model/IsoDep.lean`, for block numbers 0 / 1;
* `xchgW_bridge`, `cmd_loop_bridge`, `rsp_loop_bridge`, `send_offsets_aux`, `recv_chain_bridge`, `exchange_cmd_bridge`,
  `exchange_bridge`, `presence_bridge`, `send_apdu_bridge`: the functions of the C12 model equal the `..Gen` functions of
  `Lemmas/FnBridgeIsoSm.lean` built from regenerated pieces only (the hand-written skeleton is listed there);
  `offsets_bridge` / `send_offsets_aux` connect the source's loop over OFFSETS with the model's loop over CHUNKS;
* `dep_fail_bridge`: the `except` clauses are `Retry.depFail` (C16); `latch_bridge`: the error latch;
* `read_bin_bridge` .. `read_file4_bridge`: the NDEF read of `Model/AdvT34.lean` (C08) on regenerated pieces;
  `chunk_cmds_bridge`, `plan_write_bridge`: the UPDATE BINARY plan of `Model/T4.lean` (C01 part t34);
* `gen_*`: statements of C12 / C08 restated for the regenerated functions.
-/
/-! VARIANT for a tree with fixes/C08/0010-0012 applied (see `harness/fnspecs/_alt_isosm_c08fix/README`). -/
namespace NfcVerif.FnBridge.IsoSm
open NfcVerif NfcVerif.PyFn NfcVerif.IsoDep NfcVerif.IsoSmRef

/-! ## the pieces -/

theorem wtx_test_bridge (d : Bytes) : Gen.Fn.iso_wtx_test d = .ok (isWtx d) := by
  unfold Gen.Fn.iso_wtx_test isWtx
  match d with
  | [] => simp [len_eq]
  | [a] => simp [len_eq]
  | a :: b :: t =>
    have h : ((((a :: b :: t).length : Nat) : Int) > 1) := by simp; omega
    simp only [len_eq, h, if_true, getB_zero, Py.bind_ok]
    py_bits
    congr 1
    rw [Bool.eq_iff_iff]
    simp

theorem empty_chk_bridge (d : Bytes) :
    Gen.Fn.iso_empty_chk d = (if d = [] then .error .transmission else .ok ())
    ∧ Gen.Fn.iso_empty_chk_r d = (if d = [] then .error .transmission else .ok ()) := by
  unfold Gen.Fn.iso_empty_chk Gen.Fn.iso_empty_chk_r
  cases d with
  | nil => simp [len_eq]
  | cons a t =>
    have : ¬ ((t.length : Int) + 1 = 0) := by omega
    simp [len_eq, this]

theorem pni_cases {pni : Nat} (h : pni < 2) : pni = 0 ∨ pni = 1 := by omega

theorem mk1 (v : Nat) (h : v < 256) : mkBytes [(v : Int)] = .ok [v] := by
  have h1 : ¬ ((v : Int) < 0 ∨ (v : Int) > 255) := by omega
  simp [mkBytes, h1]

theorem resend_test_bridge (a : Nat) (t : Bytes) (pni : Nat) (h : pni < 2) :
    Gen.Fn.iso_resend_test (a :: t) (pni : Int) = .ok (decide (a = 0xA2 ||| ((pni + 1) % 2))) := by
  unfold Gen.Fn.iso_resend_test
  rw [getB_zero]
  simp only [Py.bind_ok]
  congr 1
  rcases pni_cases h with rfl | rfl
  · have e : bor 162 (band (bnot ((0 : Nat) : Int)) 1) = 163 := by decide +kernel
    rw [e, Bool.eq_iff_iff]; simp only [decide_eq_true_eq]
    show (a : Int) = 163 ↔ a = 163
    omega
  · have e : bor 162 (band (bnot ((1 : Nat) : Int)) 1) = 162 := by decide +kernel
    rw [e, Bool.eq_iff_iff]; simp only [decide_eq_true_eq]
    show (a : Int) = 162 ↔ a = 162
    omega

/-- the handlers of the command phase: R(NAK) while the budget lasts -/
theorem nak_handlers_bridge (i n pni : Nat) (h : pni < 2) :
    Gen.Fn.iso_nak_on_transmission (i : Int) (n : Int) (pni : Int)
      = (if i ≤ n then .ok [0xB2 ||| pni] else .error (.tagCmd RECEIVE_ERROR))
    ∧ Gen.Fn.iso_nak_on_timeout (i : Int) (n : Int) (pni : Int)
      = (if i ≤ n then .ok [0xB2 ||| pni] else .error (.tagCmd TIMEOUT_ERROR)) := by
  unfold Gen.Fn.iso_nak_on_transmission Gen.Fn.iso_nak_on_timeout RECEIVE_ERROR TIMEOUT_ERROR
  have e : ((i : Int) ≤ (n : Int)) ↔ i ≤ n := by omega
  simp only [e]
  rcases pni_cases h with rfl | rfl <;> (constructor <;> split <;> rfl)

/-- the handlers of the response phase: R(ACK) again while the budget lasts -/
theorem ack_handlers_bridge (i n pni : Nat) (h : pni < 2) :
    Gen.Fn.iso_ack_on_transmission (i : Int) (n : Int) (pni : Int)
      = (if i ≤ n then .ok [0xA2 ||| pni] else .error (.tagCmd RECEIVE_ERROR))
    ∧ Gen.Fn.iso_ack_on_timeout (i : Int) (n : Int) (pni : Int)
      = (if i ≤ n then .ok [0xA2 ||| pni] else .error (.tagCmd TIMEOUT_ERROR)) := by
  unfold Gen.Fn.iso_ack_on_transmission Gen.Fn.iso_ack_on_timeout RECEIVE_ERROR TIMEOUT_ERROR
  have e : ((i : Int) ≤ (n : Int)) ↔ i ≤ n := by omega
  simp only [e]
  rcases pni_cases h with rfl | rfl <;> (constructor <;> split <;> rfl)

theorem protocol_handlers_bridge :
    (raised Gen.Fn.iso_cmd_on_protocol : Py Bytes) = .error (.tagCmd PROTOCOL_ERROR)
    ∧ (raised Gen.Fn.iso_rsp_on_protocol : Py Bytes) = .error (.tagCmd PROTOCOL_ERROR)
    ∧ (raised Gen.Fn.iso_cmd_on_other : Py Bytes) = .error (.tagCmd RECEIVE_ERROR)
    ∧ (raised Gen.Fn.iso_rsp_on_other : Py Bytes) = .error (.tagCmd RECEIVE_ERROR) := ⟨rfl, rfl, rfl, rfl⟩

variable {σ : Type} (P : Peer σ)

/-- the body of the S(WTX) loop on a block that passed the S(WTX) test: WTXM range, sum, limit (`IsoDepR.xchgW`) -/
theorem wtx_step_bridge (a b : Nat) (t : Bytes) (sum lim : Nat) :
    Gen.Fn.iso_wtx_step (a :: b :: t) (sum : Int) (lim : Int)
      = if b &&& 0x3F = 0 ∨ b &&& 0x3F > 59 then .error .protocol
        else if sum + (b &&& 0x3F) > lim then .error (.tagCmd TIMEOUT_ERROR)
        else .ok (((b &&& 0x3F : Nat) : Int), ((sum + (b &&& 0x3F) : Nat) : Int)) := by
  unfold Gen.Fn.iso_wtx_step TIMEOUT_ERROR
  rw [getB_one, getB_zero]
  simp only [Py.bind_ok]
  rw [show (63 : Int) = ((63 : Nat) : Int) from rfl, band_ofNat]
  have e1 : ((((b &&& 63 : Nat) : Int) = 0) ∨ (((b &&& 63 : Nat) : Int) > 59)) ↔ (b &&& 63 = 0 ∨ b &&& 63 > 59) := by omega
  have e2 : (((sum : Int) + ((b &&& 63 : Nat) : Int)) > (lim : Int)) ↔ (sum + (b &&& 63) > lim) := by omega
  simp only [e1, e2]
  split
  · rfl
  · split <;> rfl

theorem wtxmOf_eq (d : Bytes) :
    IsoDepR.wtxmOf d = if isWtx d = true then (match d with | _ :: b :: _ => some (b &&& 0x3F) | _ => none) else none := by
  unfold IsoDepR.wtxmOf isWtx
  match d with
  | [] => rfl
  | [a] => rfl
  | a :: b :: t =>
    simp only [beq_iff_eq]

theorem xchgW_bridge (lim : Nat) : ∀ (f sum : Nat) (w : World σ) (out : Bytes),
    IsoDepR.xchgW P (some lim) f sum w out = xchgWGen P lim f sum w out := by
  intro f
  induction f with
  | zero => intro sum w out; rfl
  | succ f ih =>
    intro sum w out
    simp only [IsoDepR.xchgW, xchgWGen]
    rcases w.xchg P out with ⟨w', r⟩
    cases r with
    | data d =>
      simp only [wtx_test_bridge, wtxmOf_eq]
      cases hw : isWtx d
      · rfl
      · match d, hw with
        | a :: b :: t, _ =>
          simp only [if_true, wtx_step_bridge]
          by_cases h1 : b &&& 0x3F = 0 ∨ b &&& 0x3F > 59
          · simp only [h1, if_true]
          · rw [if_neg h1, if_neg h1]
            by_cases h2 : sum + (b &&& 0x3F) > lim
            · simp only [h2, if_true, TIMEOUT_ERROR]
            · rw [if_neg h2, if_neg h2]
              simp only [Int.toNat_natCast, ih]
    | timeout => rfl
    | transmission => rfl
    | protocol => rfl
    | fuel => rfl

/-- a retransmission after R(ACK) counts against the retry limit: it is made while `i <= n_retry_nak + 1` -/
theorem resend_budget_bridge (i n : Nat) :
    Gen.Fn.iso_resend_budget (i : Int) (n : Int) = if i > n + 1 then .error (.tagCmd PROTOCOL_ERROR) else .ok () := by
  unfold Gen.Fn.iso_resend_budget PROTOCOL_ERROR
  have e : ((i : Int) > (n : Int) + 1) ↔ i > n + 1 := by omega
  simp only [e]

theorem cmd_loop_bridge (c : IsoDepR.Cfg) (hw : c.fx.wtx = true) (ha : c.fx.ack = true) (n pni : Nat) (hp : pni < 2)
    (pfb cmd : Bytes) (offset miu : Int) (req : Bytes)
    (hreq : req = Gen.Fn.iso_resend_blk pfb cmd offset miu) :
    ∀ (f i : Nat) (out : Bytes) (w : World σ),
      IsoDepR.blockLoop P c n (some (0xA2 ||| ((pni + 1) % 2))) req [0xB2 ||| pni] f i out w
        = cmdLoopGen P c.lim c.F n pni pfb cmd offset miu f i out w := by
  subst hreq
  have hl : c.wlim = some c.lim := by simp [IsoDepR.Cfg.wlim, hw]
  intro f
  induction f with
  | zero => intro i out w; rfl
  | succ f ih =>
    intro i out w
    simp only [IsoDepR.blockLoop, cmdLoopGen, hl, ← xchgW_bridge]
    rcases IsoDepR.xchgW P (some c.lim) c.F 0 w out with ⟨w', r⟩
    cases r with
    | data d =>
      cases d with
      | nil =>
        simp only [rxTry, Py.bind_ok, (empty_chk_bridge []).1, if_true, Py.bind_error, (nak_handlers_bridge i n pni hp).1]
        by_cases hi : i ≤ n
        · simp only [hi, if_true, ih]
        · simp only [hi, if_false]
      | cons a t =>
        simp only [rxTry, Py.bind_ok, (empty_chk_bridge (a :: t)).1, reduceCtorEq, if_false, resend_test_bridge a t pni hp,
          resend_budget_bridge, ha, true_and]
        by_cases hx : a = 0xA2 ||| ((pni + 1) % 2)
        · simp only [hx, decide_true, if_true]
          by_cases hi : i > n + 1
          · simp only [hi, if_true, Py.bind_error]
          · simp only [hi, if_false, Py.bind_ok, ih]
        · have : ¬ (some (0xA2 ||| ((pni + 1) % 2)) = some a) := by
            intro x; injection x with x; exact hx x.symm
          simp only [this, hx, decide_false, if_false, Bool.false_eq_true]
    | timeout =>
      simp only [rxTry, Py.bind_error, (nak_handlers_bridge i n pni hp).2]
      by_cases hi : i ≤ n
      · simp only [hi, if_true, ih]
      · simp only [hi, if_false]
    | transmission =>
      simp only [rxTry, Py.bind_error, (nak_handlers_bridge i n pni hp).1]
      by_cases hi : i ≤ n
      · simp only [hi, if_true, ih]
      · simp only [hi, if_false]
    | protocol => simp only [rxTry, Py.bind_error, protocol_handlers_bridge.1]
    | fuel => rfl
    | waited => rfl

theorem rsp_loop_bridge (c : IsoDepR.Cfg) (hw : c.fx.wtx = true) (n pni : Nat) (hp : pni < 2) :
    ∀ (f i : Nat) (out : Bytes) (w : World σ),
      IsoDepR.blockLoop P c n none [0xA2 ||| pni] [0xA2 ||| pni] f i out w = rspLoopGen P c.lim c.F n pni f i out w := by
  have hl : c.wlim = some c.lim := by simp [IsoDepR.Cfg.wlim, hw]
  intro f
  induction f with
  | zero => intro i out w; rfl
  | succ f ih =>
    intro i out w
    simp only [IsoDepR.blockLoop, rspLoopGen, hl, ← xchgW_bridge]
    rcases IsoDepR.xchgW P (some c.lim) c.F 0 w out with ⟨w', r⟩
    cases r with
    | data d =>
      cases d with
      | nil =>
        simp only [rxTry, Py.bind_ok, (empty_chk_bridge []).2, if_true, Py.bind_error, (ack_handlers_bridge i n pni hp).1]
        by_cases hi : i ≤ n
        · simp only [hi, if_true, ih]
        · simp only [hi, if_false]
      | cons a t =>
        simp only [rxTry, Py.bind_ok, (empty_chk_bridge (a :: t)).2, reduceCtorEq, if_false]
    | timeout =>
      simp only [rxTry, Py.bind_error, (ack_handlers_bridge i n pni hp).2]
      by_cases hi : i ≤ n
      · simp only [hi, if_true, ih]
      · simp only [hi, if_false]
    | transmission =>
      simp only [rxTry, Py.bind_error, (ack_handlers_bridge i n pni hp).1]
      by_cases hi : i ≤ n
      · simp only [hi, if_true, ih]
      · simp only [hi, if_false]
    | protocol => simp only [rxTry, Py.bind_error, protocol_handlers_bridge.2.1]
    | fuel => rfl
    | waited => rfl

/-! ### the pieces between the retry loops -/

theorem pack1 (v : Nat) (h : v < 256) : PyFn.pack [.B] [(v : Int)] = .ok [v] := by
  rw [pack_B, if_neg (by omega)]

theorem or_bn_lt (base pni : Nat) (hb : base < 255) (hp : pni < 2) : base ||| pni < 256 := by
  have h1 : base < 2 ^ 8 := by omega
  have h2 : pni < 2 ^ 8 := by omega
  exact Nat.or_lt_two_pow h1 h2

/-- `pack('B', base | self.pni)` / `bytearray([base | self.pni])` for a block number -/
theorem pack_bn (base pni : Nat) (hb : base < 255) (hp : pni < 2) :
    PyFn.pack [.B] [bor (base : Int) (pni : Int)] = .ok [base ||| pni]
    ∧ mkBytes [bor (base : Int) (pni : Int)] = .ok [base ||| pni] := by
  rw [bor_ofNat]
  exact ⟨pack1 _ (or_bn_lt base pni hb hp), mk1 _ (or_bn_lt base pni hb hp)⟩

/-- the I-block at offset `o`: `more` iff more than `miu` octets remain, PCB 02h / 12h with the block number -/
theorem iblock_bridge (cmd : Bytes) (o miu pni : Nat) (hp : pni < 2) :
    Gen.Fn.iso_iblock cmd (o : Int) (miu : Int) (pni : Int)
      = .ok (decide (cmd.length - o > miu ∧ o ≤ cmd.length), [(if cmd.length - o > miu ∧ o ≤ cmd.length then 0x12 else 0x02) ||| pni],
             ((if cmd.length - o > miu ∧ o ≤ cmd.length then 0x12 else 0x02) ||| pni) :: (cmd.drop o).take miu) := by
  unfold Gen.Fn.iso_iblock
  have em : ((PyFn.len cmd - (o : Int)) > (miu : Int)) ↔ (cmd.length - o > miu ∧ o ≤ cmd.length) := by
    rw [len_eq]; omega
  have es : slice cmd (o : Int) ((o : Int) + (miu : Int)) = (cmd.drop o).take miu := by
    rw [← Int.natCast_add, FnBridge.Pdu.slice_nat]; unfold sliceN; congr 1; omega
  simp only [em, es]
  by_cases h : cmd.length - o > miu ∧ o ≤ cmd.length
  · simp only [h, and_self, decide_true, if_true]
    rw [show (18 : Int) = ((18 : Nat) : Int) from rfl, (pack_bn 18 pni (by omega) hp).1]
    rfl
  · simp only [h, decide_false, if_false, Bool.false_eq_true]
    rw [show (2 : Int) = ((2 : Nat) : Int) from rfl, (pack_bn 2 pni (by omega) hp).1]
    rfl

theorem bn_chk_bridge (d : Bytes) (pni : Nat) :
    Gen.Fn.iso_bn_chk_cmd d (pni : Int)
      = (match d with | [] => .error .index | a :: _ => if a &&& 0x01 ≠ pni then .error (.tagCmd PROTOCOL_ERROR) else .ok ())
    ∧ Gen.Fn.iso_bn_chk_rsp d (pni : Int)
      = (match d with | [] => .error .index | a :: _ => if a &&& 0x01 ≠ pni then .error (.tagCmd PROTOCOL_ERROR) else .ok ()) := by
  unfold Gen.Fn.iso_bn_chk_cmd Gen.Fn.iso_bn_chk_rsp PROTOCOL_ERROR
  cases d with
  | nil => simp [getB_nil]
  | cons a t =>
    simp only [getB_zero, Py.bind_ok]
    rw [show (1 : Int) = ((1 : Nat) : Int) from rfl, band_ofNat]
    have e : ((((a &&& 1 : Nat) : Int)) ≠ (pni : Int)) ↔ (a &&& 1 ≠ pni) := by omega
    simp only [e, and_self]

theorem ack_step_bridge (a : Nat) (t : Bytes) (pni : Nat) :
    Gen.Fn.iso_ack_step (a :: t) (pni : Int)
      = if a &&& 0xFE = 0xA2 then .ok (((pni + 1) % 2 : Nat) : Int) else .error (.tagCmd PROTOCOL_ERROR) := by
  unfold Gen.Fn.iso_ack_step PROTOCOL_ERROR
  simp only [getB_zero, Py.bind_ok]
  rw [show (254 : Int) = ((254 : Nat) : Int) from rfl, band_ofNat]
  have e : ((((a &&& 254 : Nat) : Int)) = 162) ↔ (a &&& 254 = 162) := by omega
  simp only [e]
  split
  · congr 1
  · rfl

theorem inf_step_bridge (a : Nat) (t : Bytes) (pni : Nat) :
    Gen.Fn.iso_inf_step (a :: t) (pni : Int)
      = if a &&& 0xEE = 0x02 then .ok ((((pni + 1) % 2 : Nat) : Int), t) else .error (.tagCmd PROTOCOL_ERROR) := by
  unfold Gen.Fn.iso_inf_step PROTOCOL_ERROR
  simp only [getB_zero, Py.bind_ok]
  rw [show (238 : Int) = ((238 : Nat) : Int) from rfl, band_ofNat]
  have e : ((((a &&& 238 : Nat) : Int)) = 2) ↔ (a &&& 238 = 2) := by omega
  have es : PyFn.sliceFrom (a :: t) 1 = t := sliceFrom_ofNat (a :: t) 1
  simp only [e, es]
  split
  · congr 1
  · rfl

theorem chain_test_bridge (d : Bytes) :
    Gen.Fn.iso_chain_test d = match d with | [] => .error .index | a :: _ => .ok (decide (a &&& 0x10 ≠ 0)) := by
  unfold Gen.Fn.iso_chain_test
  cases d with
  | nil => simp [getB_nil]
  | cons a t =>
    simp only [getB_zero, Py.bind_ok]
    rw [show (16 : Int) = ((16 : Nat) : Int) from rfl, band_ofNat]
    congr 1
    rw [Bool.eq_iff_iff]
    simp only [decide_eq_true_eq, ne_eq]
    omega

theorem ack_blk_bridge (pni : Nat) (hp : pni < 2) :
    Gen.Fn.iso_ack_blk (pni : Int) = .ok [0xA2 ||| pni] ∧ Gen.Fn.iso_presence_blk (pni : Int) = .ok [0xB2 ||| pni] := by
  unfold Gen.Fn.iso_ack_blk Gen.Fn.iso_presence_blk
  rw [show (162 : Int) = ((162 : Nat) : Int) from rfl, (pack_bn 162 pni (by omega) hp).1,
    show (178 : Int) = ((178 : Nat) : Int) from rfl, (pack_bn 178 pni (by omega) hp).2]
  exact ⟨rfl, rfl⟩

theorem chain_acc_bridge (resp : Bytes) (b : Nat) (t : Bytes) (pni : Nat) :
    Gen.Fn.iso_chain_acc resp (b :: t) (pni : Int) = (resp ++ t, (((pni + 1) % 2 : Nat) : Int)) := by
  unfold Gen.Fn.iso_chain_acc
  have es : PyFn.sliceFrom (b :: t) 1 = t := sliceFrom_ofNat (b :: t) 1
  simp only [es]
  congr 1


/-! ### offsets of the command blocks against `chunks` -/

/-- the offsets `o, o + miu, ..` below `len` -/
def offsFrom (miu len : Nat) : Nat → Nat → List Nat
  | 0, _ => []
  | f+1, o => if len ≤ o then [] else o :: offsFrom miu len f (o + miu)

theorem range_offs (miu len : Nat) (hm : 0 < miu) :
    ∀ (f o : Nat), len - o ≤ f →
      (List.range ((len - o + miu - 1) / miu)).map (fun (i : Nat) => ((o : Int) + (i : Int) * (miu : Int)))
        = (offsFrom miu len f o).map (fun (n : Nat) => (n : Int)) := by
  intro f
  induction f with
  | zero =>
    intro o h
    have : len - o = 0 := by omega
    rw [this]
    have : (0 + miu - 1) / miu = 0 := by
      rw [Nat.div_eq_zero_iff_lt hm]; omega
    rw [this]; rfl
  | succ f ih =>
    intro o h
    by_cases hl : len ≤ o
    · have : len - o = 0 := by omega
      rw [this]
      have : (0 + miu - 1) / miu = 0 := by
        rw [Nat.div_eq_zero_iff_lt hm]; omega
      rw [this]; simp [offsFrom, hl]
    · have e1 : len - o + miu - 1 = (len - o - 1) + miu := by omega
      have e2 : (len - o - 1) / miu = (len - (o + miu) + miu - 1) / miu := by
        by_cases hb : miu ≤ len - o
        · congr 1; omega
        · have h1 : (len - o - 1) / miu = 0 := by rw [Nat.div_eq_zero_iff_lt hm]; omega
          have h2 : (len - (o + miu) + miu - 1) / miu = 0 := by rw [Nat.div_eq_zero_iff_lt hm]; omega
          rw [h1, h2]
      rw [e1, Nat.add_div_right _ hm, e2, List.range_succ_eq_map]
      simp only [offsFrom, hl, if_false, List.map_cons, List.map_map]
      congr 1
      · simp
      · rw [← ih (o + miu) (by omega)]
        apply List.map_congr_left
        intro i _
        simp only [Function.comp, Nat.succ_eq_add_one]
        push_cast
        rw [Int.add_mul]
        omega

theorem offsets_bridge (cmd : Bytes) (miu : Nat) (hm : 0 < miu) :
    Gen.Fn.iso_offsets cmd (miu : Int) = .ok ((offsFrom miu cmd.length cmd.length 0).map (fun (n : Nat) => (n : Int))) := by
  unfold Gen.Fn.iso_offsets PyFn.rangeStep
  have h0 : ¬ ((miu : Int) = 0) := by omega
  have h1 : (miu : Int) > 0 := by omega
  rw [if_neg h0, if_pos h1, len_eq]
  have e : (((cmd.length : Int) - 0 + (miu : Int) - 1) / (miu : Int)).toNat = (cmd.length - 0 + miu - 1) / miu := by
    have : (cmd.length : Int) - 0 + (miu : Int) - 1 = ((cmd.length - 0 + miu - 1 : Nat) : Int) := by omega
    rw [this]
    exact Int.toNat_natCast _ ▸ congrArg Int.toNat (Int.natCast_ediv _ _).symm
  rw [e]
  congr 1
  have := range_offs miu cmd.length hm cmd.length 0 (by omega)
  simpa using this


theorem resend_blk_bridge (pcb : Nat) (cmd : Bytes) (o miu : Nat) :
    Gen.Fn.iso_resend_blk [pcb] cmd (o : Int) (miu : Int) = pcb :: (cmd.drop o).take miu := by
  unfold Gen.Fn.iso_resend_blk
  have es : slice cmd (o : Int) ((o : Int) + (miu : Int)) = (cmd.drop o).take miu := by
    rw [← Int.natCast_add, FnBridge.Pdu.slice_nat]; unfold sliceN; congr 1; omega
  rw [es]; rfl

/-- what `sendOffsetsGen` returns for the answer `d` the model returns: the block and `response = data[1:]` -/
def withResponse {σ} (r : World σ × Nat × Py Bytes) : World σ × Nat × Py (Bytes × Bytes) :=
  (r.1, r.2.1, r.2.2 >>= fun d => .ok (d, d.drop 1))

theorem chunksAux_ne_nil (miu f : Nat) (l : Bytes) : chunksAux miu (f + 1) l ≠ [] := by
  unfold chunksAux; split <;> simp

theorem send_offsets_aux (c : IsoDepR.Cfg) (hw : c.fx.wtx = true) (ha : c.fx.ack = true) (nNak : Nat) (cmd : Bytes) (miu : Nat)
    (hm : 0 < miu) :
    ∀ (f o pni : Nat) (w : World σ), o < cmd.length → cmd.length - o ≤ f → pni < 2 →
      sendOffsetsGen P c.lim c.F nNak cmd (miu : Int) ((offsFrom miu cmd.length f o).map (fun (n : Nat) => (n : Int))) pni w
        = withResponse (IsoDepR.sendChunks P c nNak (chunksAux miu f (cmd.drop o)) pni w) := by
  intro f
  induction f with
  | zero => intro o pni w h1 h2; omega
  | succ f ih =>
    intro o pni w ho hf hp
    have hl : ¬ cmd.length ≤ o := by omega
    simp only [offsFrom, hl, if_false, List.map_cons, sendOffsetsGen, iblock_bridge cmd o miu pni hp]
    by_cases hmore : cmd.length - o > miu ∧ o ≤ cmd.length
    · -- a further block follows
      have hlen : ¬ (cmd.drop o).length ≤ miu := by rw [List.length_drop]; omega
      have hf1 : ∃ f', f = f' + 1 := ⟨f - 1, by omega⟩
      obtain ⟨f', rfl⟩ := hf1
      have hrest : chunksAux miu (f' + 1) ((cmd.drop o).drop miu) ≠ [] := chunksAux_ne_nil miu f' _
      have hemp : (chunksAux miu (f' + 1) ((cmd.drop o).drop miu)).isEmpty = false := by
        cases hc : chunksAux miu (f' + 1) ((cmd.drop o).drop miu) with
        | nil => exact absurd hc hrest
        | cons _ _ => rfl
      rw [show chunksAux miu (f' + 1 + 1) (cmd.drop o) = (cmd.drop o).take miu :: chunksAux miu (f' + 1) ((cmd.drop o).drop miu) by
        rw [chunksAux, if_neg hlen]]
      simp only [hmore, and_self, decide_true, if_true, IsoDepR.sendChunks, hemp, Bool.not_false]
      rw [← cmd_loop_bridge P c hw ha nNak pni hp [18 ||| pni] cmd o miu _ (resend_blk_bridge _ cmd o miu).symm]
      rcases IsoDepR.blockLoop P c nNak (some (162 ||| (pni + 1) % 2)) ((18 ||| pni) :: List.take miu (List.drop o cmd)) [178 ||| pni] c.F 1
        ((18 ||| pni) :: List.take miu (List.drop o cmd)) w with ⟨w', r⟩
      cases r with
      | error e => rfl
      | ok d =>
        cases d with
        | nil => simp [(bn_chk_bridge [] pni).1, withResponse]
        | cons a t =>
          simp only [(bn_chk_bridge (a :: t) pni).1]
          by_cases hb : a &&& 0x01 ≠ pni
          · simp only [hb, if_true, withResponse, Py.bind_error, ne_eq, not_false_eq_true]
          · rw [if_neg hb, if_neg hb]
            simp only [ack_step_bridge]
            by_cases ha : a &&& 0xFE = 0xA2
            · simp only [ha, if_true, Int.toNat_natCast, List.drop_drop]
              have := ih (o + miu) ((pni + 1) % 2) w' (by omega) (by omega) (by omega)
              exact this
            · simp only [ha, if_false, withResponse, Py.bind_error]
    · -- the last block
      have hlen : (cmd.drop o).length ≤ miu := by rw [List.length_drop]; omega
      rw [show chunksAux miu (f + 1) (cmd.drop o) = [cmd.drop o] by rw [chunksAux, if_pos hlen]]
      have htake : (cmd.drop o).take miu = cmd.drop o := List.take_of_length_le hlen
      simp only [hmore, decide_false, if_false, Bool.false_eq_true, IsoDepR.sendChunks, List.isEmpty_nil, Bool.not_true, htake]
      rw [← cmd_loop_bridge P c hw ha nNak pni hp [2 ||| pni] cmd o miu _ (by rw [resend_blk_bridge, htake])]
      rcases IsoDepR.blockLoop P c nNak (some (162 ||| (pni + 1) % 2)) ((2 ||| pni) :: List.drop o cmd) [178 ||| pni] c.F 1
        ((2 ||| pni) :: List.drop o cmd) w with ⟨w', r⟩
      cases r with
      | error e => rfl
      | ok d =>
        cases d with
        | nil => simp [(bn_chk_bridge [] pni).1, withResponse]
        | cons a t =>
          simp only [(bn_chk_bridge (a :: t) pni).1]
          by_cases hb : a &&& 0x01 ≠ pni
          · simp only [hb, if_true, withResponse, Py.bind_error, ne_eq, not_false_eq_true]
          · rw [if_neg hb, if_neg hb]
            simp only [inf_step_bridge]
            by_cases ha : a &&& 0xEE = 0x02
            · simp [ha, withResponse]; omega
            · simp [ha, withResponse]


/-- the chaining check in front of every R(ACK) (`IsoDepR.recvChain`: `inf = [] ∨ resp.length > 65538`) -/
theorem chain_chk_bridge (a : Nat) (inf resp : Bytes) :
    Gen.Fn.iso_chain_chk (a :: inf) resp = if inf = [] ∨ resp.length > 65538 then .error (.tagCmd PROTOCOL_ERROR) else .ok () := by
  unfold Gen.Fn.iso_chain_chk PROTOCOL_ERROR
  have e1 : (PyFn.len (a :: inf) = 1) ↔ inf = [] := by
    rw [len_eq]; cases inf <;> simp <;> omega
  have e2 : (PyFn.len resp > 65538) ↔ resp.length > 65538 := by rw [len_eq]; omega
  simp only [e1, e2]

theorem recv_chain_bridge (c : IsoDepR.Cfg) (hw : c.fx.wtx = true) (hc : c.fx.chain = true) (nAck : Nat) :
    ∀ (f pni : Nat) (data resp : Bytes) (w : World σ), pni < 2 →
      IsoDepR.recvChain P c nAck f pni data resp w = recvChainGen P c.lim c.F nAck f pni data resp w := by
  intro f
  induction f with
  | zero => intro pni data resp w hp; rfl
  | succ f ih =>
    intro pni data resp w hp
    simp only [IsoDepR.recvChain, recvChainGen, chain_test_bridge]
    cases data with
    | nil => rfl
    | cons a t =>
      simp only
      by_cases hcb : a &&& 0x10 = 0
      · simp [hcb]
      · simp only [hcb, if_false, ne_eq, not_false_eq_true, decide_true, chain_chk_bridge, hc, true_and]
        by_cases hx : t = [] ∨ resp.length > 65538
        · simp only [hx, if_true]
        · rw [if_neg hx, if_neg hx]
          simp only [(ack_blk_bridge pni hp).1, ← rsp_loop_bridge P c hw nAck pni hp]
          rcases IsoDepR.blockLoop P c nAck none [162 ||| pni] [162 ||| pni] c.F 1 [162 ||| pni] w with ⟨w', r⟩
          cases r with
          | error e => rfl
          | ok d =>
            cases d with
            | nil => simp [(bn_chk_bridge [] pni).2]
            | cons b t' =>
              simp only [(bn_chk_bridge (b :: t') pni).2]
              by_cases hb : b &&& 0x01 ≠ pni
              · simp only [hb, if_true, ne_eq, not_false_eq_true]
              · rw [if_neg hb, if_neg hb]
                simp only [chain_acc_bridge, Int.toNat_natCast]
                exact ih _ _ _ _ (by omega)

theorem sendChunks_pni_lt (c : IsoDepR.Cfg) (nNak : Nat) :
    ∀ (cs : List Bytes) (pni : Nat) (w : World σ), pni < 2 → (IsoDepR.sendChunks P c nNak cs pni w).2.1 < 2 := by
  intro cs
  induction cs with
  | nil => intro pni w hp; exact hp
  | cons ch rest ih =>
    intro pni w hp
    simp only [IsoDepR.sendChunks]
    rcases IsoDepR.blockLoop P c nNak (some (162 ||| (pni + 1) % 2)) (((if (!rest.isEmpty) = true then 18 else 2) ||| pni) :: ch) [178 ||| pni] c.F 1
      (((if (!rest.isEmpty) = true then 18 else 2) ||| pni) :: ch) w with ⟨w', r⟩
    cases r with
    | error e => exact hp
    | ok d =>
      cases d with
      | nil => exact hp
      | cons a t =>
        simp only
        split
        · exact hp
        · split
          · split
            · exact ih _ _ (by omega)
            · exact hp
          · split
            · show (pni + 1) % 2 < 2; omega
            · exact hp

theorem chunks_eq_aux (miu : Nat) (cmd : Bytes) (h : cmd ≠ []) : chunks miu cmd = chunksAux miu cmd.length cmd := by
  unfold chunks; rw [if_neg h]

/-- `_exchange_command(command)`; `pcd.pni` is a block number -/
theorem exchange_cmd_bridge (c : IsoDepR.Cfg) (hx : c.fx = IsoDepR.Fix.all) (pcd : Pcd) (hp : pcd.pni < 2) (cmd : Bytes) (w : World σ) :
    IsoDepR.exchangeCmd P c pcd cmd w = exchangeCmdGen P c.lim c.F pcd cmd w := by
  have hw : c.fx.wtx = true := by rw [hx]; rfl
  have ha : c.fx.ack = true := by rw [hx]; rfl
  have hch : c.fx.chain = true := by rw [hx]; rfl
  unfold IsoDepR.exchangeCmd exchangeCmdGen
  by_cases h0 : pcd.miu = 0
  · simp [h0, Gen.Fn.iso_offsets, PyFn.rangeStep]
  · rw [if_neg h0]
    by_cases hneg : pcd.miu < 0
    · have hn : ¬ pcd.miu > 0 := by omega
      have : Gen.Fn.iso_offsets cmd pcd.miu = .ok [] := by
        unfold Gen.Fn.iso_offsets PyFn.rangeStep
        rw [if_neg h0, if_neg hn]
        have : ((0 - PyFn.len cmd - pcd.miu - 1) / (-pcd.miu)).toNat = 0 := by
          rw [len_eq]
          have h1 : (0 - (cmd.length : Int) - pcd.miu - 1) / (-pcd.miu) ≤ 0 := by
            by_cases hc : 0 - (cmd.length : Int) - pcd.miu - 1 < 0
            · have := Int.ediv_neg_of_neg_of_pos hc (by omega : 0 < -pcd.miu)
              omega
            · have h2 : (0 - (cmd.length : Int) - pcd.miu - 1) < -pcd.miu := by omega
              rw [Int.ediv_eq_zero_of_lt (by omega) h2]
              exact Int.le_refl 0
          omega
        rw [this]; rfl
      simp [hneg, this]
    · obtain ⟨m, hm⟩ : ∃ m : Nat, pcd.miu = (m : Int) := ⟨pcd.miu.toNat, by omega⟩
      have hm0 : 0 < m := by omega
      rw [hm, offsets_bridge cmd m hm0]
      cases cmd with
      | nil => simp [offsFrom]
      | cons c0 cs =>
        have hne : (c0 :: cs) ≠ [] := by simp
        have hnot : ¬ ((m : Int) < 0 ∨ (c0 :: cs) = []) := by simp
        rw [if_neg hnot]
        have hoffs : (offsFrom m (c0 :: cs).length (c0 :: cs).length 0).map (fun (n : Nat) => (n : Int))
            = ((0 : Nat) : Int) :: (offsFrom m (c0 :: cs).length cs.length (0 + m)).map (fun (n : Nat) => (n : Int)) := by
          simp [offsFrom]
        have haux := send_offsets_aux P c hw ha pcd.nNak (c0 :: cs) m hm0 (c0 :: cs).length 0 pcd.pni w (by simp) (by simp) hp
        rw [List.drop_zero, ← chunks_eq_aux m (c0 :: cs) hne] at haux
        rw [hoffs] at haux ⊢
        simp only [Int.toNat_natCast]
        rw [haux]
        rcases hs : IsoDepR.sendChunks P c pcd.nNak (chunks m (c0 :: cs)) pcd.pni w with ⟨w1, pni1, r⟩
        cases r with
        | error e => rfl
        | ok d =>
          have hp1 : pni1 < 2 := by
            have := sendChunks_pni_lt P c pcd.nNak (chunks m (c0 :: cs)) pcd.pni w hp
            rw [hs] at this; exact this
          simp only [withResponse, Py.bind_ok, recv_chain_bridge P c hw hch pcd.nAck c.F pni1 d (d.drop 1) w1 hp1]


/-- `IsoDepInitiator.exchange(command)`: the latch test, the command, the latch store; `pcd.pni` is a block number as long
as no error is latched (`C12.SessInv`) -/
theorem exchange_bridge (c : IsoDepR.Cfg) (hx : c.fx = IsoDepR.Fix.all) (pcd : Pcd) (hp : pcd.failed = none → pcd.pni < 2) (cmd : Bytes)
    (w : World σ) : IsoDepR.exchange P c pcd cmd w = exchangeGen P c.lim c.F pcd cmd w := by
  unfold IsoDepR.exchange exchangeGen Gen.Fn.iso_latch_chk Gen.Fn.iso_latch_set
  cases hf : pcd.failed with
  | some e => simp
  | none =>
    simp only [Option.isSome_none, Bool.false_eq_true, decide_false, if_false, ← exchange_cmd_bridge P c hx pcd (hp hf)]
    rcases IsoDepR.exchangeCmd P c pcd cmd w with ⟨w', pcd', r⟩
    cases r with
    | ok d => rfl
    | error e => cases e <;> rfl

theorem presence_bridge (pcd : Pcd) (hp : pcd.pni < 2) (w : World σ) : presence P pcd w = presenceGen P pcd w := by
  unfold presence presenceGen
  rw [(ack_blk_bridge pcd.pni hp).2]
  simp only
  cases (w.xchg P [0xB2 ||| pcd.pni]).2 <;> rfl

/-! ## the `except` clauses against `Model/Retry.lean` (C16), the error latch -/

/-- C16: the handlers of both retry loops are `Retry.depFail` (repaired: an unknown CommunicationError is RECEIVE_ERROR):
`none` = the loop goes on with an R(NAK) / R(ACK), `some e` = the exception that leaves the loop -/
theorem dep_fail_bridge (cfg : Retry.Cfg) (h : cfg.fixT4 = true) (budget i pni : Nat) (hp : pni < 2) (f : Retry.Fault) :
    Retry.depFail cfg budget i f = (match cmdHandlerGen i budget pni f with | .ok _ => none | .error e => some e)
    ∧ Retry.depFail cfg budget i f = (match rspHandlerGen i budget pni f with | .ok _ => none | .error e => some e) := by
  have hs := nak_handlers_bridge i budget pni hp
  have ha := ack_handlers_bridge i budget pni hp
  have hq := protocol_handlers_bridge
  cases f with
  | timeout =>
    simp only [Retry.depFail, cmdHandlerGen, rspHandlerGen, hs.2, ha.2, TIMEOUT_ERROR]
    by_cases hi : i ≤ budget <;> simp [hi]
  | transmission =>
    simp only [Retry.depFail, cmdHandlerGen, rspHandlerGen, hs.1, ha.1, RECEIVE_ERROR]
    by_cases hi : i ≤ budget <;> simp [hi]
  | protocol =>
    simp only [Retry.depFail, cmdHandlerGen, rspHandlerGen, hq.1, hq.2.1, PROTOCOL_ERROR]
    exact ⟨trivial, trivial⟩
  | brokenLink =>
    simp only [Retry.depFail, cmdHandlerGen, rspHandlerGen, hq.2.2.1, hq.2.2.2, RECEIVE_ERROR, h, if_true]
    exact ⟨trivial, trivial⟩
  | base =>
    simp only [Retry.depFail, cmdHandlerGen, rspHandlerGen, hq.2.2.1, hq.2.2.2, RECEIVE_ERROR, h, if_true]
    exact ⟨trivial, trivial⟩

/-- the error latch: a latched reason code is raised again for every further command (`IsoDep.exchange`: `pcd.failed`),
the presence check (`command is None`) passes; the latch stores the reason code (`Retry.World.stick`) -/
theorem latch_bridge (cmd : Option Bytes) (failed : Option Int) (e : Int) :
    Gen.Fn.iso_latch_chk cmd failed.isSome (failed.getD 0)
      = (match cmd, failed with | some _, some n => .error (.tagCmd n) | _, _ => .ok ())
    ∧ Gen.Fn.iso_latch_set e = e := by
  refine ⟨?_, rfl⟩
  unfold Gen.Fn.iso_latch_chk
  cases cmd <;> cases failed <;> simp

/-- the waiting time granted with an S(WTX) response is the reference `wtxTime` of the accepted multiplier -/
theorem wtx_time_bridge (b : Nat) (fwt : Int) :
    Gen.Fn.iso_wtx_time ((b &&& 0x3F : Nat) : Int) fwt = wtxTime b fwt ∧ Gen.Fn.iso_wtx_sum0 = 0 := by
  refine ⟨?_, rfl⟩
  unfold Gen.Fn.iso_wtx_time wtxTime
  rw [and63]

/-- `IsoDepInitiator.__init__`: block number 0, MIU = FSC - 3, no latched error (`IsoDep.mkPcd`) -/
theorem init_bridge (fsci fwi maxSend : Nat) :
    let r := Gen.Fn.iso_init (deriveFsc fsci maxSend : Int)
    ((mkPcd fsci fwi maxSend).pni : Int) = r.1 ∧ (mkPcd fsci fwi maxSend).miu = r.2.1 ∧ (mkPcd fsci fwi maxSend).failed = none := by
  simp [Gen.Fn.iso_init, mkPcd]


/-! ## Type 4 Tag NDEF read on regenerated pieces (`Model/AdvT34.lean`, C08) -/

open NfcVerif.Adv in
/-- the argument slices of `_read_binary` / `_update_binary` (group T4): `struct.error` beyond a 16 bit offset, else
P1, P2 and the length limited by MLe / MLc -/
theorem binary_args (off : Nat) (size : Int) (lim : Nat) (data : Bytes) :
    Gen.Fn.t4_read_binary_args (off : Int) size (lim : Int)
      = (if off > 65535 then .error .struct else .ok (((off / 256 : Nat) : Int), ((off % 256 : Nat) : Int), min (lim : Int) size))
    ∧ Gen.Fn.t4_update_binary_args (off : Int) data (lim : Int)
      = (if off > 65535 then .error .struct
         else .ok (((off / 256 : Nat) : Int), ((off % 256 : Nat) : Int), ((min lim data.length : Nat) : Int))) := by
  unfold Gen.Fn.t4_read_binary_args Gen.Fn.t4_update_binary_args
  rw [FnBridge.Pdu.pack_Hbe]
  by_cases h : off > 65535
  · simp [h]
  · simp only [h, if_false, Py.bind_ok, len_eq, List.length_cons, List.length_nil]
    rw [getB_zero, getB_one, getB_zero]
    simp only [Py.bind_ok, Nat.zero_add, Nat.reduceAdd, ne_eq]
    have e1 : PyFn.imin (lim : Int) size = min (lim : Int) size := by unfold PyFn.imin; split <;> omega
    have e2 : PyFn.imin (lim : Int) ((data.length : Nat) : Int) = ((min lim data.length : Nat) : Int) := by
      unfold PyFn.imin; split <;> omega
    rw [e1, e2]
    exact ⟨rfl, rfl⟩

section ndef
open NfcVerif.Adv
variable {σ : Type} (X : Xp σ)

theorem read_bin_bridge (maxLe off : Nat) (size : Int) (s : σ) : readBin X maxLe off size s = readBinGen X maxLe off size s := by
  unfold readBin readBinGen
  rw [(binary_args off size maxLe []).1]
  by_cases h : off > 65535
  · rw [if_pos h, if_pos h]
  · rw [if_neg h, if_neg h]
    simp only [Int.toNat_natCast, surplus, Gen.Fn.iso_read_surplus]
    congr 1
    cases (apdu4 X 0xB0 (off / 256) (off % 256) [] (min (maxLe : Int) size) s).2 with
    | error e => rfl
    | ok d =>
      simp only [Py.bind_ok, len_eq]
      have e : PyFn.imax (min (maxLe : Int) size) 0 = max (min (maxLe : Int) size) 0 := by unfold PyFn.imax; split <;> omega
      rw [e]
      by_cases hs : (d.length : Int) > max (min (maxLe : Int) size) 0 <;> simp [hs]

theorem select_fid_bridge (v1 : Bool) (fid : Bytes) (s : σ) : selectFid X v1 fid s = selectFidGen X v1 fid s := by
  unfold selectFid selectFidGen Gen.Fn.iso_sel_fid_p2
  cases v1 <;> rfl

theorem select_app_bridge (s : σ) : selectApp X s = selectAppGen X s := by
  unfold selectApp selectAppGen Gen.Fn.iso_sel_app_table Gen.Fn.iso_sel_app_stop
  simp only [aidV2, aidV1]
  rcases apdu4 X 0xA4 0x04 0x00 [0xD2, 0x76, 0x00, 0x00, 0x85, 0x01, 0x01] 256 s with ⟨s1, r⟩
  cases r with
  | ok d => rfl
  | error e =>
    cases e <;> try rfl
    rename_i n
    simp only [decide_eq_true_eq]
    split
    · rfl
    · rcases apdu4 X 0xA4 0x04 0x00 [0xD2, 0x76, 0x00, 0x00, 0x85, 0x01, 0x00] 0 s1 with ⟨s2, r2⟩
      cases r2 with
      | ok d => rfl
      | error e2 => cases e2 <;> rfl

theorem cclen_bridge (cclen : Bytes) :
    Gen.Fn.iso_disc_cclen_bad cclen = decide (cclen.length ≠ 2)
    ∧ (cclen.length = 2 → Gen.Fn.iso_disc_cclen cclen = .ok ((beNat cclen : Nat) : Int))
    ∧ ∀ n : Int, Gen.Fn.iso_disc_cc_size n = min (n - 2) 15 := by
  refine ⟨?_, ?_, ?_⟩
  · unfold Gen.Fn.iso_disc_cclen_bad
    rw [Bool.eq_iff_iff]
    cases cclen <;> simp [len_eq] <;> omega
  · intro h
    match cclen, h with
    | [a, b], _ =>
      unfold Gen.Fn.iso_disc_cclen
      have hx : needExact [a, b] 2 = if [a, b].length = 2 then .ok () else .error .struct := needExact_nat _ 2
      have e2 : ube [a, b] 0 2 = ((at0 [a, b] 0 * 256 + at0 [a, b] (0 + 1) : Nat) : Int) := ube_two [a, b] 0 (by simp)
      rw [hx, e2]
      simp [at0, beNat]
  · intro n
    unfold Gen.Fn.iso_disc_cc_size PyFn.imin
    split <;> omega

theorem discover4_bridge (s : σ) : discover4 X s = discover4Gen X s := by
  unfold discover4 discover4Gen
  rw [← select_app_bridge]
  rcases selectApp X s with ⟨s1, r⟩
  cases r with
  | error e => rfl
  | ok o =>
    cases o with
    | none => rfl
    | some v1 =>
      simp only [← select_fid_bridge]
      rcases selectFid X v1 [0xE1, 0x03] s1 with ⟨s2, r2⟩
      cases r2 with
      | error e => rfl
      | ok b =>
        cases b with
        | false => rfl
        | true =>
          have e15 : (15 : Int).toNat = 15 := rfl
          simp only [← read_bin_bridge, Gen.Fn.iso_disc_init, e15]
          rcases readBin X 15 0 2 s2 with ⟨s3, r3⟩
          cases r3 with
          | error e => rfl
          | ok cclen =>
            simp only [(cclen_bridge cclen).1, decide_eq_true_eq]
            by_cases hl : cclen.length ≠ 2
            · rw [if_pos hl, if_pos hl]
            · rw [if_neg hl, if_neg hl, (cclen_bridge cclen).2.1 (by omega)]
              simp only [(cclen_bridge cclen).2.2]
              rcases readBin X 15 2 (min (((beNat cclen : Nat) : Int) - 2) 15) s3 with ⟨s4, r4⟩
              cases r4 <;> rfl

theorem read_loop4_bridge (i : Info) (nlen : Nat) :
    ∀ (f : Nat) (acc : Bytes) (s : σ), readLoop4 X i nlen f acc s = readLoop4Gen X i nlen f acc s := by
  intro f
  induction f with
  | zero => intro acc s; rfl
  | succ f ih =>
    intro acc s
    simp only [readLoop4, readLoop4Gen, Gen.Fn.iso_read_more, Gen.Fn.iso_read_args, Gen.Fn.iso_read_stuck, Gen.Fn.iso_read_acc,
      len_eq, ← read_bin_bridge]
    by_cases hd : acc.length ≥ nlen
    · have : ¬ ((acc.length : Int) < (nlen : Int)) := by omega
      simp [hd, this]
    · have h1 : ((acc.length : Int) < (nlen : Int)) := by omega
      have e1 : ((i.nlenSize : Int) + (acc.length : Int)).toNat = i.nlenSize + acc.length := by omega
      simp only [hd, h1, if_false, decide_true, Bool.true_eq_false, e1]
      rcases readBin X i.maxLe (i.nlenSize + acc.length) ((nlen : Int) - (acc.length : Int)) s with ⟨s1, r⟩
      cases r with
      | error e => rfl
      | ok more =>
        by_cases hm : more.length = 0
        · have : ((more.length : Int) = 0) := by omega
          simp [hm]
        · have : ¬ ((more.length : Int) = 0) := by omega
          simp [hm, ih]

theorem nlen_bridge (nl : Bytes) (n : Nat) (hn : n = 2 ∨ n = 4) :
    Gen.Fn.iso_nlen_len_bad nl (n : Int) = decide (nl.length ≠ n)
    ∧ (nl.length = n → Gen.Fn.iso_nlen_parse nl (n : Int) = .ok ((beNat nl : Nat) : Int)) := by
  constructor
  · unfold Gen.Fn.iso_nlen_len_bad
    rw [Bool.eq_iff_iff, len_eq]
    simp only [decide_eq_true_eq, ne_eq]
    omega
  · intro h
    unfold Gen.Fn.iso_nlen_parse
    rcases hn with rfl | rfl
    · match nl, h with
      | [a, b], _ =>
        have hx : needExact [a, b] 2 = if [a, b].length = 2 then .ok () else .error .struct := needExact_nat _ 2
        have e2 : ube [a, b] 0 2 = ((at0 [a, b] 0 * 256 + at0 [a, b] (0 + 1) : Nat) : Int) := ube_two [a, b] 0 (by simp)
        have h4 : ¬ (((2 : Nat) : Int) = 4) := by omega
        simp only [h4, if_false, hx, e2]
        simp [at0, beNat]
    · match nl, h with
      | [a, b, c, d], _ =>
        have hx : needExact [a, b, c, d] 4 = if [a, b, c, d].length = 4 then .ok () else .error .struct := needExact_nat _ 4
        have h4 : (((4 : Nat) : Int) = 4) := rfl
        simp only [h4, if_true, hx]
        simp [ube, beNat]


theorem read_file4_bridge (i : Info) (hn : i.nlenSize = 2 ∨ i.nlenSize = 4) (s1 : σ) :
    readFile4 X i s1 = readFile4Gen X i s1 := by
  unfold readFile4 readFile4Gen
  rw [← select_fid_bridge]
  rcases selectFid X i.v1 i.fid s1 with ⟨s2, r2⟩
  cases r2 with
  | error e => rfl
  | ok b =>
    cases b with
    | false => rfl
    | true =>
      simp only [← read_bin_bridge]
      rcases readBin X i.maxLe 0 (i.nlenSize : Int) s2 with ⟨s3, r3⟩
      cases r3 with
      | error e => rfl
      | ok nl =>
        simp only [(nlen_bridge nl i.nlenSize hn).1, decide_eq_true_eq]
        by_cases hl : nl.length ≠ i.nlenSize
        · rw [if_pos hl, if_pos hl]
        · rw [if_neg hl, if_neg hl, (nlen_bridge nl i.nlenSize hn).2 (by omega)]
          simp only [Gen.Fn.iso_nlen_limit, Gen.Fn.iso_read_init, Int.toNat_natCast, ← read_loop4_bridge, decide_eq_true_eq]
          have e : (((i.nlenSize : Int) + ((beNat nl : Nat) : Int)) > 65536) ↔ (i.nlenSize + beNat nl > 0x10000) := by omega
          simp only [e]
          by_cases hc : ((beNat nl : Nat) : Int) > i.capacity ∨ i.nlenSize + beNat nl > 0x10000
          · rw [if_pos hc, if_pos hc]
          · rw [if_neg hc, if_neg hc]
            rcases readLoop4 X i (beNat nl) (beNat nl + 1) [] s3 with ⟨s4, r4⟩
            cases r4 with
            | error e => rfl
            | ok o => cases o <;> rfl

theorem parseCC_nlen (v1 : Bool) (caps : Bytes) (i : Info) (h : parseCC v1 caps = .ok (some i)) :
    i.nlenSize = 2 ∨ i.nlenSize = 4 := by
  unfold parseCC at h
  split at h
  · cases h
  · split at h
    · rename_i ver e1 e0 c1 c0 tag plen v0 v1' v2 v3 v4 v5 v6 v7 _
      simp only at h
      split at h
      · cases h
      · split at h
        · cases h
        · rename_i hc
          injection h with h; injection h with h; subst h
          simp only
          have hc := Classical.not_not.mp hc
          rcases hc with ⟨rfl, _⟩ | ⟨rfl, _⟩
          · exact Or.inl rfl
          · exact Or.inr rfl
    · cases h

theorem discover4_nlen (s : σ) (i : Info) (s' : σ) (h : discover4 X s = (s', .ok (some i))) : i.nlenSize = 2 ∨ i.nlenSize = 4 := by
  unfold discover4 at h
  split at h
  · cases h
  · cases h
  · split at h
    · cases h
    · cases h
    · split at h
      · cases h
      · split at h
        · cases h
        · split at h
          · cases h
          · injection h with _ h
            exact parseCC_nlen _ _ i h



/-- `_read_ndef_data` as a whole (`Adv.readNdef4`, C08) on regenerated pieces; `known`: the attributes kept from an earlier
`_discover_ndef` (an NLEN field of 2 or 4 octets, as every discovery leaves it: `discover4_nlen`) -/
theorem read_ndef4_bridge (known : Option Info) (hk : ∀ i, known = some i → i.nlenSize = 2 ∨ i.nlenSize = 4) (s : σ) :
    readNdef4 X known s = readNdef4Gen X known s := by
  unfold readNdef4 readNdef4Body readNdef4Gen readNdef4BodyGen
  cases known with
  | some i => simp only [read_file4_bridge X i (hk i rfl)]
  | none =>
    simp only [← discover4_bridge]
    rcases hd : discover4 X s with ⟨s1, r⟩
    cases r with
    | error e => rfl
    | ok o =>
      cases o with
      | none => rfl
      | some i => simp only [read_file4_bridge X i (discover4_nlen X s i s1 hd)]

end ndef


/-! ## the UPDATE BINARY plan of `_write_ndef_data` (`Model/T4.lean`, C01 part t34) -/

section write
open NfcVerif.T4

/-- what the pieces of one update loop compute -/
structure WriteCut.Sound (q : WriteCut) : Prop where
  more : ∀ (o : Nat) (b : Bytes), q.more (o : Int) b = decide (o < b.length)
  step : ∀ (o : Int) (b : Bytes) (ub : Int → Bytes → Int), q.step o b ub = o + ub o (PyFn.sliceFrom b o)

theorem cutData_sound : cutData.Sound where
  more o b := by
    show decide ((o : Int) < PyFn.len b) = _
    rw [len_eq, Bool.eq_iff_iff]; simp
  step _ _ _ := rfl

theorem cutNlen_sound : cutNlen.Sound where
  more o b := by
    show decide ((o : Int) < PyFn.len b) = _
    rw [len_eq, Bool.eq_iff_iff]; simp
  step _ _ _ := rfl

theorem ubGen_eq (lc off : Nat) (d : Bytes) (h : off ≤ 65535) : ubGen lc (off : Int) d = ((min lc d.length : Nat) : Int) := by
  unfold ubGen
  rw [(binary_args off 0 lc d).2, if_neg (by omega)]

/-- both update loops send the commands of `T4.chunkCmds` (a buffer that a 16 bit offset can address) -/
theorem chunk_cmds_bridge (q : WriteCut) (hq : q.Sound) (lc : Nat) (buf : Bytes) (hb : buf.length ≤ 65536) :
    ∀ (fuel off : Nat), chunkCmds lc buf fuel off = chunkCmdsGen q lc buf fuel off := by
  intro fuel
  induction fuel with
  | zero => intro off; rfl
  | succ fuel ih =>
    intro off
    simp only [chunkCmds, chunkCmdsGen, hq.more, hq.step]
    by_cases ho : off ≥ buf.length
    · have : ¬ off < buf.length := by omega
      simp [ho, this]
    · have h1 : off < buf.length := by omega
      have hd : PyFn.sliceFrom buf (off : Int) = buf.drop off := sliceFrom_ofNat buf off
      have hu := ubGen_eq lc off (buf.drop off) (by omega)
      simp only [ho, h1, if_false, decide_true, Bool.true_eq_false, hd, hu, List.length_drop]
      have e1 : ((off : Int) + ((min lc (buf.length - off) : Nat) : Int)).toNat = off + min lc (buf.length - off) := by omega
      rw [e1, ← ih]
      congr 2
      unfold Gen.Fn.iso_update_chunk sliceN
      rw [sliceTo_ofNat, show off + lc - off = lc by omega]
      by_cases hl : lc ≤ buf.length - off
      · rw [Nat.min_eq_left hl]
      · rw [Nat.min_eq_right (by omega), List.take_of_length_le (by rw [List.length_drop]; omega),
          List.take_of_length_le (by rw [List.length_drop]; omega)]

theorem toBE_length (k n : Nat) : (toBE k n).length = k := by
  induction k generalizing n with
  | zero => rfl
  | succ k ih => simp [toBE, ih]

/-- the NLEN field `pack(lfmt, len(data))` -/
theorem pack_nlen (n : Nat) (k : Nat) (hk : k = 2 ∨ k = 4) :
    (if (k : Int) = 4 then PyFn.pack [.Ibe] [(n : Int)] else PyFn.pack [.Hbe] [(n : Int)])
      = if n ≥ 256 ^ k then .error .struct else .ok (toBE k n) := by
  rcases hk with rfl | rfl
  · have h4 : ¬ (((2 : Nat) : Int) = 4) := by omega
    rw [if_neg h4]
    unfold PyFn.pack PyFn.packField
    by_cases h : n ≥ 256 ^ 2
    · have : ((n : Int) < 0 ∨ (n : Int) ≥ 256 ^ Fmt.Hbe.size) := by simp [Fmt.size]; omega
      simp [this, h]
    · have : ¬ ((n : Int) < 0 ∨ (n : Int) ≥ 256 ^ Fmt.Hbe.size) := by simp [Fmt.size]; omega
      simp [this, h, PyFn.pack]
  · have h4 : (((4 : Nat) : Int) = 4) := rfl
    rw [if_pos h4]
    unfold PyFn.pack PyFn.packField
    by_cases h : n ≥ 256 ^ 4
    · have : ((n : Int) < 0 ∨ (n : Int) ≥ 256 ^ Fmt.Ibe.size) := by simp [Fmt.size]; omega
      simp [this, h]
    · have : ¬ ((n : Int) < 0 ∨ (n : Int) ≥ 256 ^ Fmt.Ibe.size) := by simp [Fmt.size]; omega
      simp [this, h, PyFn.pack]

/-- `_write_ndef_data`: `struct.error` when the length does not fit the NLEN field (`T4.writeNdef`), else the UPDATE BINARY
sequence of `T4.planWrite` with the final NLEN update looped (the repaired variant: the source HAS the loop) -/
theorem plan_write_bridge (v : Variant) (hv : v.nlenLoop = true) (i : Info) (hn : i.nlenSize = 2 ∨ i.nlenSize = 4) (data : Bytes)
    (hb : i.nlenSize + data.length ≤ 65536) :
    planWriteGen i data = if data.length ≥ 256 ^ i.nlenSize then .error .struct else .ok (planWrite v i data) := by
  unfold planWriteGen Gen.Fn.iso_write_plan
  simp only [len_eq]
  rw [pack_nlen data.length i.nlenSize hn]
  by_cases hfit : data.length ≥ 256 ^ i.nlenSize
  · simp [hfit]
  · simp only [hfit, if_false, Py.bind_ok, toBE_length]
    have e1 : (((i.nlenSize : Nat) : Int) + ((data.length : Nat) : Int) ≤ ((i.maxLc : Nat) : Int))
        ↔ (i.nlenSize + data.length ≤ i.maxLc) := by omega
    simp only [e1]
    unfold planWrite
    by_cases hone : i.nlenSize + data.length ≤ i.maxLc
    · simp only [hone, if_true, Py.bind_ok, Gen.Fn.iso_write_nlen_test]
      have hl : (toBE i.nlenSize data.length ++ data).length ≤ 65536 := by rw [List.length_append, toBE_length]; exact hb
      rw [← chunk_cmds_bridge cutData cutData_sound i.maxLc _ hl]
      simp [List.length_append, toBE_length]
    · have hz : PyFn.zeros ((i.nlenSize : Nat) : Int) = .ok (T34.zeros i.nlenSize) := by
        unfold PyFn.zeros T34.zeros
        have : ¬ ((i.nlenSize : Int) < 0) := by omega
        simp [this]
      have hne : toBE i.nlenSize data.length ≠ [] := by
        intro h; have := toBE_length i.nlenSize data.length; rw [h] at this; simp at this; omega
      have hl : (T34.zeros i.nlenSize ++ data).length ≤ 65536 := by simp [T34.zeros]; exact hb
      have hl2 : (toBE i.nlenSize data.length).length ≤ 65536 := by rw [toBE_length]; omega
      have ht : Gen.Fn.iso_write_nlen_test (some (toBE i.nlenSize data.length)) = true := by
        simp [Gen.Fn.iso_write_nlen_test, hne]
      simp only [hone, if_false, hz, Py.bind_ok, ht, hv, if_true, Option.getD_some,
        ← chunk_cmds_bridge cutData cutData_sound i.maxLc _ hl, ← chunk_cmds_bridge cutNlen cutNlen_sound i.maxLc _ hl2]
      simp [List.length_append, toBE_length, T34.zeros]

end write


/-! ## statements of C12 / C08 for the regenerated functions -/

/-- C08 `isodep_exchange_safe` for `exchangeGen`: one repaired `IsoDepInitiator.exchange` against EVERY card gives a response
or a `Type4TagCommandError`, uses up no loop fuel and sends at most `exchFrames` frames -/
theorem gen_exchange_safe {σ} (P : Peer σ) (c : IsoDepR.Cfg) (pcd : Pcd) (hR : c.Repaired pcd.nNak pcd.nAck)
    (hp : pcd.failed = none → pcd.pni < 2) (hm : 0 < pcd.miu) (cmd : Bytes) (hc : cmd ≠ []) (w : World σ) :
    IsoDepR.CmdRes (exchangeGen P c.lim c.F pcd cmd w).2.2 ∧
    IsoDepR.frames (exchangeGen P c.lim c.F pcd cmd w).1 ≤ IsoDepR.frames w + IsoDepR.exchFrames c pcd cmd.length := by
  have hx : c.fx = IsoDepR.Fix.all := by
    have h1 := hR.wtx; have h2 := hR.ack; have h3 := hR.chain
    cases hfx : c.fx with
    | mk a b d => rw [hfx] at h1 h2 h3; simp only at h1 h2 h3; subst h1 h2 h3; rfl
  rw [← exchange_bridge P c hx pcd hp]
  exact ⟨(C08.isodep_exchange_safe P c pcd hR hm cmd hc w).1, (C08.isodep_exchange_safe P c pcd hR hm cmd hc w).2.2⟩

/-- C08 `t4_read_safe` for the regenerated `_read_ndef_data`: against EVERY card (APDU level) at most `7 + 65536` commands,
never an exception, `None` or an object with `length <= capacity` and octets from the file -/
theorem gen_t4_read_safe {σ} (X : Adv.Xp σ) (hX : Adv.XOk X) (known : Option Adv.Info)
    (hk : ∀ i, known = some i → Adv.InfoOk i) (hn : ∀ i, known = some i → i.nlenSize = 2 ∨ i.nlenSize = 4) (s : σ) (n : Nat) :
    (readNdef4Gen (Adv.countX X) known (s, n)).1.2 ≤ n + 7 + 65536 ∧
    ((readNdef4Gen (Adv.countX X) known (s, n)).2 = .ok none ∨
     ∃ d j, (readNdef4Gen (Adv.countX X) known (s, n)).2 = .ok (some (d, j)) ∧ Adv.SafeNdef d ∧ Adv.InfoOk j) := by
  rw [← read_ndef4_bridge (Adv.countX X) known hn]
  exact C08.t4_read_safe X hX known hk s n

/-- the source leaves the loop over the offsets when they are used up, the twin when `more` is false: `more` is false
exactly at the last offset -/
theorem gen_more_false_last (cmd : Bytes) (o miu pni : Nat) (hp : pni < 2) (ho : o < cmd.length) (r : Bool × Bytes × Bytes)
    (h : Gen.Fn.iso_iblock cmd (o : Int) (miu : Int) (pni : Int) = .ok r) :
    r.1 = false ↔ cmd.length ≤ o + miu := by
  rw [iblock_bridge cmd o miu pni hp] at h
  injection h with h
  subst h
  simp only [decide_eq_false_iff_not]
  omega

/-! ## non-vacuity -/

example : Gen.Fn.iso_wtx_test [0xF2, 3] = .ok true ∧ Gen.Fn.iso_wtx_test [0xF2] = .ok false := by decide +kernel
example : Gen.Fn.iso_wtx_step [0xF2, 60] 0 1000 = .error .protocol ∧ Gen.Fn.iso_wtx_step [0xF2, 59] 950 1000 = .error (.tagCmd 0)
    ∧ Gen.Fn.iso_wtx_step [0xF2, 3] 10 1000 = .ok (3, 13) := by decide +kernel
example : Gen.Fn.iso_iblock [1, 2, 3, 4, 5] 2 2 1 = .ok (true, [0x13], [0x13, 3, 4]) := by decide +kernel
example : Gen.Fn.iso_iblock [1, 2, 3, 4, 5] 4 2 0 = .ok (false, [0x02], [0x02, 5]) := by decide +kernel
example : Gen.Fn.iso_offsets [1, 2, 3, 4, 5] 2 = .ok [0, 2, 4] ∧ Gen.Fn.iso_offsets [1] 0 = .error .value := by decide +kernel
example : Gen.Fn.iso_nak_on_timeout 3 2 1 = .error (.tagCmd 0) ∧ Gen.Fn.iso_nak_on_timeout 2 2 1 = .ok [0xB3] := by decide +kernel
example : Gen.Fn.iso_latch_chk (some [1]) true (-2) = .error (.tagCmd (-2)) ∧ Gen.Fn.iso_latch_chk none true (-2) = .ok () := by
  decide +kernel
example : planWriteGen ⟨15, 4, 100, true, true, 2, [0xE1, 4]⟩ [7, 8, 9]
    = .ok [⟨0, [0, 0, 7, 8]⟩, ⟨4, [9]⟩, ⟨0, [0, 3]⟩] := by decide +kernel
example : planWriteGen ⟨15, 8, 100, true, true, 2, [0xE1, 4]⟩ [7, 8, 9] = .ok [⟨0, [0, 3, 7, 8, 9]⟩] := by decide +kernel


/-! ## statements of C12 for the regenerated functions

`exchange_bridge` (regenerated decision logic = `IsoDepR.exchange` with all repairs) and `IsoDep2.exchange_c08`
(`IsoDepR.exchange` with all repairs = `IsoDep2.exchange`, the model of C12) -/

section c12
variable {σ : Type} (P : Peer σ)

/-- the `exchange` built from the regenerated pieces is the `exchange` of the C12 model (`Model/IsoDepV2.lean`) -/
theorem gen_exchange_is_c12 (F : Nat) (pcd : IsoDep2.Pcd) (hp : pcd.failed = none → pcd.pni < 2) (cmd : Bytes) (w : World σ) :
    ((exchangeGen P pcd.wlim F pcd.toBase cmd w).1,
     IsoDep2.Pcd.withBase (exchangeGen P pcd.wlim F pcd.toBase cmd w).2.1 pcd.wlim,
     (exchangeGen P pcd.wlim F pcd.toBase cmd w).2.2) = IsoDep2.exchange P F pcd cmd w := by
  have hb : IsoDepR.exchange P (IsoDep2.c08Cfg pcd.wlim F) pcd.toBase cmd w = exchangeGen P pcd.wlim F pcd.toBase cmd w :=
    exchange_bridge P (IsoDep2.c08Cfg pcd.wlim F) rfl pcd.toBase hp cmd w
  rw [← hb]
  exact IsoDep2.exchange_c08 P F pcd cmd w

/-- C12 `isodep_terminates` / `isodep_error_kind` for the regenerated `exchange`: against EVERY card no loop runs out of
fuel, at most `exchFrames` blocks are sent, and the only exceptions for a command APDU are Type4TagCommandError with the
reasons TIMEOUT / RECEIVE / PROTOCOL_ERROR -/
theorem gen_terminates (F : Nat) (pcd : IsoDep2.Pcd) (cmd : Bytes) (w : World σ) (hF : IsoDep2.fuelNeed pcd ≤ F)
    (hp : pcd.pni < 2) :
    (exchangeGen P pcd.wlim F pcd.toBase cmd w).2.2 ≠ .error .outOfFuel ∧
    (exchangeGen P pcd.wlim F pcd.toBase cmd w).1.trace.length ≤ w.trace.length + IsoDep2.exchFrames pcd cmd.length ∧
    (0 < pcd.miu → cmd ≠ [] → C12.FlagOk pcd → ∀ e, (exchangeGen P pcd.wlim F pcd.toBase cmd w).2.2 = .error e →
      e = .tagCmd TIMEOUT_ERROR ∨ e = .tagCmd RECEIVE_ERROR ∨ e = .tagCmd PROTOCOL_ERROR) := by
  have h := gen_exchange_is_c12 P F pcd (fun _ => hp) cmd w
  have h1 : (exchangeGen P pcd.wlim F pcd.toBase cmd w).1 = (IsoDep2.exchange P F pcd cmd w).1 := congrArg (·.1) h
  have h2 : (exchangeGen P pcd.wlim F pcd.toBase cmd w).2.2 = (IsoDep2.exchange P F pcd cmd w).2.2 := congrArg (·.2.2) h
  rw [h1, h2]
  have ht := C12.isodep_terminates P F pcd cmd w hF hp
  exact ⟨ht.1, ht.2, fun hm hc hfl => (C12.isodep_error_kind P F pcd cmd w hF hp hm hc hfl).1⟩

/-- C12 `isodep_at_most_once` and `isodep_response_exact` for the regenerated `exchange` against the ISO/IEC 14443-4
card: in every session state, under every fault script, the card executes the command at most once and a returned
response is the card's response to exactly this execution -/
theorem gen_at_most_once_exact (cfg : CardCfg) (F : Nat) (pcd : IsoDep2.Pcd) (cmd : Bytes) (w : World Card)
    (hs : C12.SessInv pcd w.card) :
    ((exchangeGen (isoPeer cfg) pcd.wlim F pcd.toBase cmd w).1.card.log = w.card.log ∨
     (exchangeGen (isoPeer cfg) pcd.wlim F pcd.toBase cmd w).1.card.log = w.card.log ++ [cmd]) ∧
    (∀ x, (exchangeGen (isoPeer cfg) pcd.wlim F pcd.toBase cmd w).2.2 = .ok x →
      x = cfg.app w.card.log.length cmd ∧
      (exchangeGen (isoPeer cfg) pcd.wlim F pcd.toBase cmd w).1.card.log = w.card.log ++ [cmd]) := by
  have h := gen_exchange_is_c12 (isoPeer cfg) F pcd (fun _ => hs.1) cmd w
  have h1 : (exchangeGen (isoPeer cfg) pcd.wlim F pcd.toBase cmd w).1 = (IsoDep2.exchange (isoPeer cfg) F pcd cmd w).1 :=
    congrArg (·.1) h
  have h2 : (exchangeGen (isoPeer cfg) pcd.wlim F pcd.toBase cmd w).2.2 = (IsoDep2.exchange (isoPeer cfg) F pcd cmd w).2.2 :=
    congrArg (·.2.2) h
  rw [h1, h2]
  exact ⟨C12.isodep_at_most_once cfg F pcd cmd w hs, fun x hx => C12.isodep_response_exact cfg F pcd cmd w hs x hx⟩

end c12

end NfcVerif.FnBridge.IsoSm
