import NfcVerif.Lemmas.FnBridgeTlv
import NfcVerif.Lemmas.Tlv
/-!
# Bridge theorems, group Tlv (`nfc/tag/tt2.py`, `nfc/tag/tt1.py` -> `Gen/FnTlv.lean` -> `Model/Tlv.lean`)

Properties C01, C02, C03 (the reserved ranges and the capacity decide where a message is placed) and
C08 (the reader walks the same ranges).  Encodings, stated in the theorems:

* the source returns a `slice(start, stop)` object; the callers take `range(*x.indices(limit))`,
  which is `clip limit (start, stop)`; the model's `ctlRange lock limit v` returns that clipped pair;
* the Python set `skip_bytes` is a duplicate-free `List Int`, the model's skip set a list of
  half-open ranges; `SameSkip s sk` says they have the same members.
-/
namespace NfcVerif.FnBridge.Tlv
open NfcVerif NfcVerif.PyFn NfcVerif.Tlv

/-- `tt2.get_lock_byte_range(data)` for every value field (short ones raise `IndexError`) -/
theorem tt2_lock_range_bridge (limit : Nat) (v : Bytes) :
    (Gen.Fn.tt2_get_lock_byte_range v >>= fun r => .ok (clip limit r)) = ctlRange true limit v := by
  unfold Gen.Fn.tt2_get_lock_byte_range ctlRange
  match v with
  | [] => simp [getB_nil]
  | [a] => simp [getB_zero, getB_one, getB_nil]
  | [a, b] => simp [getB_zero, getB_one, getB_two, getB_nil]; split <;> rfl
  | a :: b :: c :: rest =>
    simp only [getB_zero, getB_one, getB_two, Py.bind_ok, idxN_cons_zero, idxN_cons_succ, if_true]
    by_cases hb : b > 0
    · have hb' : (b : Int) > 0 := by omega
      simp only [hb, hb', if_true, Py.bind_ok]
      rw [range_arith limit a b c _ ((b + 7) / 8) (by omega)]
    · have hb' : ¬ (b : Int) > 0 := by omega
      simp only [hb, hb', if_false, Py.bind_ok]
      rw [range_arith limit a b c _ ((256 + 7) / 8) (by omega)]

example : (Gen.Fn.tt2_get_lock_byte_range [0x82, 0x20, 0x33] >>= fun r => .ok (clip 0x100000 r))
    = .ok (66, 70) := by decide +kernel
example : Gen.Fn.tt2_get_lock_byte_range [0x82, 0x20] = .error .index := by decide +kernel

/-- `tt2.get_rsvd_byte_range(data)` -/
theorem tt2_rsvd_range_bridge (limit : Nat) (v : Bytes) :
    (Gen.Fn.tt2_get_rsvd_byte_range v >>= fun r => .ok (clip limit r)) = ctlRange false limit v := by
  unfold Gen.Fn.tt2_get_rsvd_byte_range ctlRange
  match v with
  | [] => simp [getB_nil]
  | [a] => simp [getB_zero, getB_one, getB_nil]
  | [a, b] => simp [getB_zero, getB_one, getB_two, getB_nil]; split <;> rfl
  | a :: b :: c :: rest =>
    simp only [getB_zero, getB_one, getB_two, Py.bind_ok, idxN_cons_zero, idxN_cons_succ]
    by_cases hb : b > 0
    · have hb' : (b : Int) > 0 := by omega
      simp only [hb, hb', if_true, Py.bind_ok]
      rw [range_arith limit a b c _ b rfl]; simp
    · have hb' : ¬ (b : Int) > 0 := by omega
      simp only [hb, hb', if_false, Py.bind_ok]
      rw [range_arith limit a b c (256 : Int) 256 rfl]; simp

example : (Gen.Fn.tt2_get_rsvd_byte_range [0xA5, 0x00, 0x04] >>= fun r => .ok (clip 0x100000 r))
    = .ok (165, 421) := by decide +kernel

/-- the Type 1 module carries textually identical helpers -/
theorem tt1_lock_range_bridge (limit : Nat) (v : Bytes) :
    (Gen.Fn.tt1_get_lock_byte_range v >>= fun r => .ok (clip limit r)) = ctlRange true limit v :=
  tt2_lock_range_bridge limit v
theorem tt1_rsvd_range_bridge (limit : Nat) (v : Bytes) :
    (Gen.Fn.tt1_get_rsvd_byte_range v >>= fun r => .ok (clip limit r)) = ctlRange false limit v :=
  tt2_rsvd_range_bridge limit v

example : (Gen.Fn.tt1_get_lock_byte_range [0xE0, 0x30, 0x03] >>= fun r => .ok (clip 0x800 r))
    = .ok (112, 118) := by decide +kernel

/-- `tt2.get_capacity(capacity, offset, skip_bytes)`; the data area ends at `capacity + 16` -/
theorem tt2_capacity_bridge (s : Skip) (sk : List Int) (h : SameSkip s sk) (cap off : Nat) :
    Gen.Fn.tt2_get_capacity cap off sk = Tlv.capacity s off (cap + 16) := by
  unfold Gen.Fn.tt2_get_capacity Tlv.capacity countFree
  have e : ((cap : Int) + 16) = ((cap + 16 : Nat) : Int) := by omega
  rw [e, range_ofNat, len_eq, count_free s sk h]
  generalize cfree s off (cap + 16 - off) = n
  by_cases hn : n > 256
  · have : (n : Int) > 256 := by omega
    simp [hn, this]
  · have : ¬ (n : Int) > 256 := by omega
    simp [hn, this]

/-- `tt1.get_capacity(tag_memory_size, offset, skip_bytes)` -/
theorem tt1_capacity_bridge (s : Skip) (sk : List Int) (h : SameSkip s sk) (size off : Nat) :
    Gen.Fn.tt1_get_capacity size off sk = Tlv.capacity s off size := by
  unfold Gen.Fn.tt1_get_capacity Tlv.capacity countFree
  rw [range_ofNat, len_eq, count_free s sk h]
  generalize cfree s off (size - off) = n
  by_cases hn : n > 256
  · have : (n : Int) > 256 := by omega
    simp [hn, this]
  · have : ¬ (n : Int) > 256 := by omega
    simp [hn, this]

example : SameSkip [(104, 120)] (PyFn.range 104 120) := by
  intro a
  simp only [PyFn.range, inSkip, List.any_cons, List.any_nil, Bool.or_false, Bool.and_eq_true, decide_eq_true_eq,
    List.mem_map, List.mem_range]
  constructor
  · rintro ⟨i, hi, h⟩; omega
  · intro h; exact ⟨a - 104, by omega, by omega⟩
example : Gen.Fn.tt1_get_capacity 120 14 (PyFn.range 104 120) = 88 := by decide +kernel

/-- `C01.t12_capacity_sound`, first part, for the regenerated `get_capacity`: a message that does not
exceed the reported capacity fits, with its TLV header, into the non-reserved bytes of the data area -/
theorem gen_capacity_sound (s : Skip) (sk : List Int) (h : SameSkip s sk) (cap off n : Nat)
    (hn : (n : Int) ≤ Gen.Fn.tt2_get_capacity cap off sk) :
    n + hdrLen n ≤ countFree s off (cap + 16) := by
  rw [tt2_capacity_bridge s sk h] at hn
  exact cap_fits s off (cap + 16) n hn

end NfcVerif.FnBridge.Tlv
