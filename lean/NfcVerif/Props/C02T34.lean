import NfcVerif.Props.C01T34
/-!
# C02, part t34 - an interrupted NDEF write never leaves a corrupt message (Type 3, Type 4)

A power cut after the k-th state-changing command = the tag executed `cmds.take k` (`applyW` / `applyU`).
`T34.Outcome old new r`: a fresh reader sees no NDEF, the old message, an empty message, a not-readable
area, or the new message.
-/
namespace NfcVerif.C02T34
open NfcVerif NfcVerif.T34

/-- Type 3: for every well-formed layout, every old and new message and every cut point the fresh reader
sees the old message (k = 0), `WriteF = 0Fh` i.e. explicitly not readable (0 < k < n), or the new message. -/
theorem t3_cut_safe (m data : Bytes) (a : T3.Attr) (wf : T3.WF m a) (hlen : data.length ≤ 16 * a.nmaxb)
    (sOld : Seen) (hold : T3.see m = .ok (some sOld)) (k : Nat) (hk : k ≤ (T3.planWrite a data).length) :
    ∃ r, T3.see (T3.applyW m ((T3.planWrite a data).take k)) = .ok r ∧ Outcome sOld.data data r :=
  T3.cut_safe m data a wf hlen sOld hold k hk

/-- Type 4, under the hypothesis `NLEN size ≤ MLc` (see the counter-example below): NLEN is zero from the first
chunk to the last command, or the single UPDATE BINARY is atomic. Both code variants. -/
theorem t4_cut_safe (v : T4.Variant) (c : T4.Card) (i : T4.Info) (data : Bytes) (wf : T4.WF v c i)
    (hlen : (data.length : Int) ≤ i.capacity) (hmlc : i.nlenSize ≤ i.maxLc)
    (sOld : Seen) (hold : T4.see v c = .ok (some sOld)) (k : Nat) (hk : k ≤ (T4.planWrite v i data).length) :
    ∃ r, T4.see v { c with file := T4.applyU c.file ((T4.planWrite v i data).take k) } = .ok r ∧
      Outcome sOld.data data r :=
  T4.cut_safe v c i data wf hlen hmlc sOld hold k hk

def tornCard : T4.Card := ⟨T4.cc4 0x20 0 59 0 1 0xE1 4 1 4 0 0, [1, 2] ++ List.replicate 258 7, [0xE1, 4], 59, 1⟩
def tornInfo : T4.Info := ⟨59, 1, 258, true, true, 2, [0xE1, 4]⟩

/-- F36 (open, not repairable at that MLc): `MLc = 1` with a 2-octet NLEN, old message of 0102h octets, new
message of one octet, cut after the first UPDATE BINARY: NLEN reads 0002h, the reader sees two octets of the
old message - neither old, empty, not readable nor new. -/
theorem t4_cut_counterexample_small_mlc :
    T4.discover .repaired tornCard = .ok (some tornInfo) ∧
    T4.see .repaired tornCard = .ok (some ⟨258, true, true, List.replicate 258 7⟩) ∧
    T4.see .repaired { tornCard with file := T4.applyU tornCard.file ((T4.planWrite .repaired tornInfo [9]).take 1) }
      = .ok (some ⟨258, true, true, [7, 7]⟩) ∧
    ¬ Outcome (List.replicate 258 7) [9] (some ⟨258, true, true, [7, 7]⟩) := by
  refine ⟨by decide, by decide +kernel, by decide +kernel, by decide +kernel⟩

/-! Non-vacuity: the hypotheses are met by `C01T34.exWF3` / `C01T34.exWF4` -/
example : ∃ r, T3.see (T3.applyW C01T34.exM ((T3.planWrite C01T34.exA [5, 6]).take 2)) = .ok r ∧
    Outcome [1, 2, 3, 4, 5] [5, 6] r :=
  t3_cut_safe _ _ _ C01T34.exWF3 (by decide) ⟨32, true, true, [1, 2, 3, 4, 5]⟩ (by decide) 2 (by decide)
example : T3.see (T3.applyW C01T34.exM ((T3.planWrite C01T34.exA [5, 6]).take 2))
    = .ok (some ⟨32, false, true, [5, 6, 0, 0, 0]⟩) := by decide
def exInfo : T4.Info := ⟨59, 52, 18, true, true, 2, [0xE1, 4]⟩
example : ∃ r, T4.see .repaired { C01T34.exCard with
      file := T4.applyU C01T34.exCard.file ((T4.planWrite .repaired exInfo [5]).take 1) } = .ok r ∧ Outcome [7, 8] [5] r :=
  t4_cut_safe _ _ _ _ C01T34.exWF4 (by decide) (by decide) ⟨18, true, true, [7, 8]⟩ (by decide) 1 (by decide)

end NfcVerif.C02T34
