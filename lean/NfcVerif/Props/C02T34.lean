import NfcVerif.Props.C01T34
import NfcVerif.Lemmas.HistC02T34
/-!
# C02, part t34 - an interrupted NDEF write never leaves a corrupt message (Type 3, Type 4)

A power cut after the k-th state-changing command = the tag executed `cmds.take k` (`applyW` / `applyU`).
`T34.Outcome old new r`: a fresh reader sees no NDEF, the old message, an empty message, a not-readable
area, or the new message.
-/
namespace NfcVerif.C02T34
open NfcVerif NfcVerif.T34 NfcVerif.Hist

/-- Type 3: for every well-formed layout, every old and new message and every cut point the fresh reader
sees the old message (k = 0), `WriteF = 0Fh` i.e. explicitly not readable (0 < k < n), or the new message. -/
theorem t3_cut_safe (m data : Bytes) (a : T3.Attr) (wf : T3.WF m a) (hlen : data.length ≤ 16 * a.nmaxb)
    (sOld : Seen) (hold : T3.see m = .ok (some sOld)) (k : Nat) (hk : k ≤ (T3.planWrite a data).length) :
    ∃ r, T3.see (T3.applyW m ((T3.planWrite a data).take k)) = .ok r ∧ Outcome sOld.data data r :=
  T3.cut_safe m data a wf hlen sOld hold k hk

/-- Type 4, under the hypothesis `NLEN size ≤ MLc` (see the counter-example below): NLEN is zero from the first
chunk to the last command, or the single UPDATE BINARY is atomic. Both code variants. -/
theorem t4_cut_safe (v : T4.Variant) (c : T4.Card) (i : T4.Info) (data : Bytes) (wf : T4.WF v c i)
    (hlen : (data.length : Int) ≤ i.capacity) (hmlc : i.nlenSize ≤ i.maxLc)
    (sOld : Seen) (hold : T4.see v c = .ok (some sOld)) (k : Nat) (hk : k ≤ (T4.planWrite v i data).length) :
    ∃ r, T4.see v { c with file := T4.applyU c.file ((T4.planWrite v i data).take k) } = .ok r ∧
      Outcome sOld.data data r :=
  T4.cut_safe v c i data wf hlen hmlc sOld hold k hk

def tornCard : T4.Card := ⟨T4.cc4 0x20 0 59 0 1 0xE1 4 1 4 0 0, [1, 2] ++ List.replicate 258 7, [0xE1, 4], 59, 1⟩
def tornInfo : T4.Info := ⟨59, 1, 258, true, true, 2, [0xE1, 4]⟩

/-- F36 (open, not repairable at that MLc): `MLc = 1` with a 2-octet NLEN, old message of 0102h octets, new
message of one octet, cut after the first UPDATE BINARY: NLEN reads 0002h, the reader sees two octets of the
old message - neither old, empty, not readable nor new. -/
theorem t4_cut_counterexample_small_mlc :
    T4.discover .repaired tornCard = .ok (some tornInfo) ∧
    T4.see .repaired tornCard = .ok (some ⟨258, true, true, List.replicate 258 7⟩) ∧
    T4.see .repaired { tornCard with file := T4.applyU tornCard.file ((T4.planWrite .repaired tornInfo [9]).take 1) }
      = .ok (some ⟨258, true, true, [7, 7]⟩) ∧
    ¬ Outcome (List.replicate 258 7) [9] (some ⟨258, true, true, [7, 7]⟩) := by
  refine ⟨by decide, by decide +kernel, by decide +kernel, by decide +kernel⟩

/-! Non-vacuity: the hypotheses are met by `C01T34.exWF3` / `C01T34.exWF4` -/
example : ∃ r, T3.see (T3.applyW C01T34.exM ((T3.planWrite C01T34.exA [5, 6]).take 2)) = .ok r ∧
    Outcome [1, 2, 3, 4, 5] [5, 6] r :=
  t3_cut_safe _ _ _ C01T34.exWF3 (by decide) ⟨32, true, true, [1, 2, 3, 4, 5]⟩ (by decide) 2 (by decide)
example : T3.see (T3.applyW C01T34.exM ((T3.planWrite C01T34.exA [5, 6]).take 2))
    = .ok (some ⟨32, false, true, [5, 6, 0, 0, 0]⟩) := by decide
def exInfo : T4.Info := ⟨59, 52, 18, true, true, 2, [0xE1, 4]⟩
example : ∃ r, T4.see .repaired { C01T34.exCard with
      file := T4.applyU C01T34.exCard.file ((T4.planWrite .repaired exInfo [5]).take 1) } = .ok r ∧ Outcome [7, 8] [5] r :=
  t4_cut_safe _ _ _ _ C01T34.exWF4 (by decide) (by decide) ⟨18, true, true, [7, 8]⟩ (by decide) 1 (by decide)

/-! ## Histories: faults of both kinds, re-assignment through the same object

`Hist.t3History` / `Hist.t4History` (`Model/HistC01.lean`): attempts `(message, fault?)` through ONE tag object; a
`Fault ⟨k, late⟩` makes state-changing command `k` of the attempt fail - not executed (`late = false`: lost, refused,
or the power cut after `k` commands) or executed without an answer reaching the reader (`late = true`).  The Type 3
writer re-reads the attribute block at every attempt, the Type 4 writer uses the capability values of the activation. -/

/-- **Type 3, retry after any history with any further fault.**  After ANY history through one object the application
assigns `d2`; this attempt is disturbed at any Write command in either way, or not at all.  Afterwards the memory is
what it was before the attempt, or block 0 carries `WriteF ≠ 0` (a fresh reader reports the area as not readable), or
a fresh reader sees exactly `d2`. -/
theorem t3_retry_cut_safe (m : Bytes) (a : T3.Attr) (wf : T3.WF m a) (seen : Seen)
    (hseen : T3.see m = .ok (some seen)) (hs : List (Bytes × Option Fault)) (d2 : Bytes) (f : Option Fault) :
    (t3Attempt seen (t3History seen m hs).1 d2 f).mem = (t3History seen m hs).1
    ∨ (∃ s, T3.see (t3Attempt seen (t3History seen m hs).1 d2 f).mem = .ok (some s) ∧ s.readable = false)
    ∨ ((d2.length : Int) ≤ seen.capacity ∧
        T3.see (t3Attempt seen (t3History seen m hs).1 d2 f).mem = .ok (some ⟨seen.capacity, true, true, d2⟩)) := by
  have hs0 : seen.capacity = (a.nmaxb * 16 : Nat) := by
    unfold T3.see at hseen
    rw [T3.readNdef_old m a wf] at hseen
    simp only [Py.bind_ok, Option.map, Except.ok.injEq, Option.some.injEq] at hseen
    subst hseen; rfl
  have hi := t3History_inv seen a hs0 hs m ⟨a, wf, rfl, rfl, rfl, rfl, rfl⟩
  rcases t3Attempt_view seen a hs0 _ d2 f hi with h | h | ⟨h1, h2⟩
  · exact Or.inl h
  · exact Or.inr (Or.inl h)
  · exact Or.inr (Or.inr ⟨h1, by rw [hs0]; exact h2⟩)

/-- **Type 3, cut safety over histories (full).**  For every well-formed layout and EVERY history of assignments
through one object - any number of attempts, any messages, each completed or aborted at any Write command, executed
by the tag or not - a fresh reader sees what the activation saw (nothing was executed), or a not-readable area
(`WriteF = 0Fh`), or the COMPLETE message of one of the attempts with the same capacity. -/
theorem t3_history_cut_safe (m : Bytes) (a : T3.Attr) (wf : T3.WF m a) (seen : Seen)
    (hseen : T3.see m = .ok (some seen)) (hs : List (Bytes × Option Fault)) :
    ∃ s, T3.see (t3History seen m hs).1 = .ok (some s) ∧
      (s = seen ∨ s.readable = false ∨
        (s.data ∈ sentMsgs34 seen.capacity hs ∧ s.readable = true ∧ s.capacity = seen.capacity)) := by
  have hs0 : seen.capacity = (a.nmaxb * 16 : Nat) := by
    unfold T3.see at hseen
    rw [T3.readNdef_old m a wf] at hseen
    simp only [Py.bind_ok, Option.map, Except.ok.injEq, Option.some.injEq] at hseen
    subst hseen; rfl
  rcases t3History_view seen a hs0 hs m ⟨a, wf, rfl, rfl, rfl, rfl, rfl⟩ with h | ⟨s, h1, h2⟩
  · exact ⟨seen, by rw [h]; exact hseen, Or.inl rfl⟩
  · exact ⟨s, h1, Or.inr h2⟩

/-- **Type 4, retry after any history with any further fault** (`NLEN size ≤ MLc`, both code variants): the file is
what it was before the attempt, or a fresh reader sees an empty message (`NLEN = 0`), or exactly `d2`. -/
theorem t4_retry_cut_safe (v : T4.Variant) (c : T4.Card) (i : T4.Info) (wf : T4.WF v c i) (hmlc : i.nlenSize ≤ i.maxLc)
    (nd : T4.Ndef) (hnd : T4.readNdef v c = .ok (some nd)) (hs : List (Bytes × Option Fault)) (d2 : Bytes)
    (f : Option Fault) :
    (t4Attempt v c nd (t4History v c nd c.file hs).1 d2 f).file = (t4History v c nd c.file hs).1
    ∨ T4.see v { c with file := (t4Attempt v c nd (t4History v c nd c.file hs).1 d2 f).file }
        = .ok (some ⟨i.capacity, i.readable, true, []⟩)
    ∨ ((d2.length : Int) ≤ i.capacity ∧
        T4.see v { c with file := (t4Attempt v c nd (t4History v c nd c.file hs).1 d2 f).file }
          = .ok (some ⟨i.capacity, i.readable, true, d2⟩)) := by
  have hnd' : nd.info = i ∧ nd.seen.capacity = i.capacity := by
    rw [T4.readNdef_spec v c i wf.disc wf.fid wf.lim (by have := wf.old; omega) (by have := wf.old; omega)] at hnd
    cases hnd; exact ⟨rfl, rfl⟩
  have hinv : ∀ (hs : List (Bytes × Option Fault)) g, T4Inv c i g → T4Inv c i (t4History v c nd g hs).1 := by
    intro hs
    induction hs with
    | nil => intro g hg; exact hg
    | cons x rest ih =>
      intro g hg
      obtain ⟨d, f'⟩ := x
      simp only [t4History]
      exact ih _ (t4Attempt_view v c i wf hmlc nd hnd' g d f' hg).1
  exact (t4Attempt_view v c i wf hmlc nd hnd' _ d2 f (hinv hs c.file ⟨rfl, wf.old⟩)).2

/-- **Type 4, cut safety over histories (full, `NLEN size ≤ MLc`).**  After EVERY history of assignments through one
object - each completed or aborted at any UPDATE BINARY, executed or not - a fresh reader sees what the activation
saw, an empty message, or the COMPLETE message of one of the attempts (same capacity and access flags). -/
theorem t4_history_cut_safe (v : T4.Variant) (c : T4.Card) (i : T4.Info) (wf : T4.WF v c i) (hmlc : i.nlenSize ≤ i.maxLc)
    (nd : T4.Ndef) (hnd : T4.readNdef v c = .ok (some nd)) (hs : List (Bytes × Option Fault)) :
    T4.see v { c with file := (t4History v c nd c.file hs).1 } = T4.see v c
    ∨ ∃ x, (x = [] ∨ x ∈ sentMsgs34 i.capacity hs) ∧
        T4.see v { c with file := (t4History v c nd c.file hs).1 } = .ok (some ⟨i.capacity, i.readable, true, x⟩) := by
  have hnd' : nd.info = i ∧ nd.seen.capacity = i.capacity := by
    rw [T4.readNdef_spec v c i wf.disc wf.fid wf.lim (by have := wf.old; omega) (by have := wf.old; omega)] at hnd
    cases hnd; exact ⟨rfl, rfl⟩
  rcases t4History_view v c i wf hmlc nd hnd' hs c.file ⟨rfl, wf.old⟩ with h | h
  · exact Or.inl (by rw [h])
  · exact Or.inr h

/-! Non-vacuity: on `C01T34.exM` (Type 3, old message `01..05`) the second of the four commands of a 20-octet write
is executed but unacknowledged - not readable; the application then assigns `05 06`, the power is cut after its
first command - still not readable; a third, undisturbed attempt is read back. -/
example : (T3.see (t3History ⟨32, true, true, [1, 2, 3, 4, 5]⟩ C01T34.exM
      [(List.replicate 20 9, some ⟨1, true⟩), ([5, 6], some ⟨1, false⟩)]).1).map (Option.map (·.readable)) = .ok (some false)
    ∧ T3.see (t3History ⟨32, true, true, [1, 2, 3, 4, 5]⟩ C01T34.exM
      [(List.replicate 20 9, some ⟨1, true⟩), ([5, 6], some ⟨1, false⟩), ([5, 6], none)]).1
      = .ok (some ⟨32, true, true, [5, 6]⟩) := by
  constructor <;> decide +kernel
example : ∃ s, T3.see (t3History ⟨32, true, true, [1, 2, 3, 4, 5]⟩ C01T34.exM
      [(List.replicate 20 9, some ⟨1, true⟩), ([5, 6], some ⟨1, false⟩)]).1 = .ok (some s) ∧
      (s = ⟨32, true, true, [1, 2, 3, 4, 5]⟩ ∨ s.readable = false ∨
        (s.data ∈ sentMsgs34 32 [(List.replicate 20 9, some ⟨1, true⟩), ([5, 6], some ⟨1, false⟩)] ∧ s.readable = true
          ∧ s.capacity = 32)) :=
  t3_history_cut_safe _ _ C01T34.exWF3 ⟨32, true, true, [1, 2, 3, 4, 5]⟩ (by decide) _

end NfcVerif.C02T34
