import NfcVerif.Lemmas.FnBridgeTagBase
import NfcVerif.Props.C20
import NfcVerif.Model.Connect
/-!
# Bridge theorems, group TagBase (`nfc/tag/__init__.py` and the overrides in `tt1.py`, `tt1_broadcom.py`, `tt2.py`,
`tt2_nxp.py`, `tt3.py`, `tt3_sony.py`, `tt4.py` -> `Gen/FnTagBase.lean` -> `Model/FnTagBaseRef.lean`,
`Model/AuthNdef.lean` `TagCache`, `Model/Tlv.lean` / `T3.lean` / `T4.lean` `setOctets`, `Model/AdvOps.lean`)

Properties C01 (`Tag.NDEF.octets` setter: rejected before any command, otherwise always written), C03 / C20 (the
cached NDEF object is dropped by a successful `format` / `protect` / `authenticate`, and EVERY vendor override reaches
the wrapper that does it), C08 / C16 (`tag.ndef`, `has_changed`, `is_present` as session operations), C18
(`nfc.tag.activate` dispatch).

Encodings, stated in the theorems: the tag type specific private methods are function parameters (`Py` valued: an
exception of the callee is the exception of the caller); the NDEF cache `Tag._ndef` is `Option Bytes` (the data of the
cached object, as in `TagCache`) or an `Option Int` token where only its identity matters; the value of
`_format` / `_protect` / `_authenticate` is `Option Bool` (`True` / `False` / `None`), `asBool` maps it to the `Bool` of
`TagCache` (`True` iff `True`).  The cuts are listed in `harness/fnspecs/tagbase.py`.
-/
namespace NfcVerif.FnBridge.TagBase
open NfcVerif NfcVerif.PyFn NfcVerif.TagBaseRef NfcVerif.Gen.Fn

/-! ## `Tag.NDEF` -/

/-- `ndef.length` -/
theorem ndef_length_bridge (d : Option Bytes) : tb_ndef_length d = TagBaseRef.length d := by
  unfold tb_ndef_length TagBaseRef.length
  cases d with
  | none => rfl
  | some l => cases l <;> simp [PyFn.len]

example : tb_ndef_length (some [1, 2, 3]) = 3 ∧ tb_ndef_length none = 0 ∧ tb_ndef_length (some []) = 0 := by decide

/-- the plain getters hand out the stored attribute (`Tlv.Layout.cap`, `.readable`, `.writeable`, `.ndef`;
`T34Base.Seen`) -/
theorem ndef_getters_bridge (c : Int) (r w : Bool) (d : Bytes) :
    tb_ndef_capacity c = c ∧ tb_ndef_is_readable r = r ∧ tb_ndef_is_writeable w = w ∧ tb_ndef_octets_get d = d :=
  ⟨rfl, rfl, rfl, rfl⟩

/-- `ndef.has_changed`, the generated text itself: read, compare, drop `tag._ndef` when nothing was read, store -/
theorem ndef_has_changed_bridge (data cached : Option Bytes) (rd : Py (Option Bytes)) :
    tb_ndef_has_changed data cached rd =
      (rd >>= fun nd => .ok (decide (data ≠ nd), (if nd = none then none else cached), nd)) := by
  unfold tb_ndef_has_changed
  cases rd with
  | error e => rfl
  | ok nd => cases nd <;> rfl

/-- the NDEF cache as the models see it: the data of the object `tag._ndef`, if there is one -/
def absCache (tok data : Option Bytes) : Option Bytes := tok.bind fun _ => data

/-- `ndef.has_changed` on the cached object is the reference `hasChanged` (`AuthNdef.hasChanged`, `Adv.readStep`):
the answer, and the cache afterwards = what the read gave -/
theorem ndef_has_changed_ref (old tok : Bytes) (rd : Py (Option Bytes)) :
    (tb_ndef_has_changed (some old) (some tok) rd).map (fun r => (r.1, absCache r.2.1 r.2.2))
      = hasChanged (some old) rd := by
  rw [ndef_has_changed_bridge]; unfold hasChanged
  cases rd with
  | error e => rfl
  | ok nd => cases nd <;> rfl

/-- the first `has_changed` of a NEW object (`_data = None`, nothing cached): true iff the read found data -/
theorem ndef_has_changed_fresh (rd : Py (Option Bytes)) :
    tb_ndef_has_changed none none rd = (rd >>= fun nd => .ok (nd.isSome, none, nd)) := by
  rw [ndef_has_changed_bridge]
  cases rd with
  | error e => rfl
  | ok nd => cases nd <;> rfl

example : tb_ndef_has_changed (some [1]) (some [1]) (.ok (some [2])) = .ok (true, some [1], some [2]) := by decide
example : tb_ndef_has_changed (some [1]) (some [1]) (.ok none) = .ok (true, none, none) := by decide
example : tb_ndef_has_changed (some [1]) (some [1]) (.error (.tagCmd 0)) = .error (.tagCmd 0) := by decide

/-- `ndef.octets = data` is the reference setter: writeable check, capacity check, THEN the type specific write -/
theorem ndef_octets_set_bridge (data : Bytes) (writeable : Bool) (capacity : Int) (wr : Bytes → Py Int) :
    tb_ndef_octets_set data writeable capacity wr
      = setOctets writeable capacity data (fun d => (wr d).map fun _ => ()) := by
  unfold tb_ndef_octets_set setOctets
  cases writeable with
  | false => simp
  | true =>
    simp only [PyFn.len, not_true_eq_false, if_false, Bool.true_eq_false]
    by_cases h : (data.length : Int) > capacity
    · simp [h]
    · simp only [h, if_false]
      cases wr data <;> rfl

/-- C01 restated for the regenerated setter: a write that can not succeed raises without calling
`_write_ndef_data` (the result does not depend on `wr`) ... -/
theorem gen_setter_rejects_before_command (data : Bytes) (writeable : Bool) (capacity : Int) (wr : Bytes → Py Int)
    (h : writeable = false ∨ (data.length : Int) > capacity) :
    tb_ndef_octets_set data writeable capacity wr = .error (if writeable = false then .attr else .value) := by
  rw [ndef_octets_set_bridge]; exact setter_rejects_before_command _ _ _ _ h

/-- ... and a write that can succeed ALWAYS calls `_write_ndef_data(data)` - also for data equal to what is cached
(seeded/C01-r3m4: there is no such shortcut; the function does not even read `self._data`) - and fails when it fails -/
theorem gen_setter_always_writes (data : Bytes) (capacity : Int) (wr : Bytes → Py Int)
    (h : (data.length : Int) ≤ capacity) :
    tb_ndef_octets_set data true capacity wr = (wr data >>= fun _ => .ok data) := by
  rw [ndef_octets_set_bridge, setter_always_writes _ _ _ h]
  cases wr data <;> rfl

example : tb_ndef_octets_set [1, 2, 3] true 2 (fun _ => .error .index) = .error .value := by decide
example : tb_ndef_octets_set [1, 2] false 2 (fun _ => .error .index) = .error .attr := by decide
example : tb_ndef_octets_set [1, 2] true 2 (fun _ => .error (.tagCmd 0)) = .error (.tagCmd 0) := by decide
example : tb_ndef_octets_set [1, 2] true 2 (fun _ => .ok 0) = .ok [1, 2] := by decide

/-- `Tlv.setOctets` (Type 1 / Type 2, C01 `t12_roundtrip`, `HistC01.attempt`) is the regenerated setter around
`writeCmds`: the result ... -/
theorem setOctets_tlv_bridge (c : Tlv.Cfg) (m : Bytes) (L : Tlv.Layout) (data : Bytes) :
    (Tlv.setOctets c m L data).res =
      (tb_ndef_octets_set data L.writeable L.cap (fun d => (Tlv.writeCmds c m L d).res.map fun _ => 0)).map (fun _ => ()) := by
  rw [tlv_setOctets_res, ndef_octets_set_bridge]
  congr 2
  funext d
  cases (Tlv.writeCmds c m L d).res <;> rfl

/-- ... and no command at all when the regenerated setter rejects (it fails although the write itself would succeed) -/
theorem setOctets_tlv_no_command (c : Tlv.Cfg) (m : Bytes) (L : Tlv.Layout) (data : Bytes)
    (h : tb_ndef_octets_set data L.writeable L.cap (fun _ => .ok 0) ≠ .ok data) :
    (Tlv.setOctets c m L data).cmds = [] := by
  rw [tlv_setOctets_cmds]
  by_cases hw : L.writeable = false
  · simp [hw]
  · have hw' : L.writeable = true := by simpa using hw
    by_cases hc : (data.length : Int) > L.cap
    · simp [hc]
    · exfalso; apply h
      rw [hw', gen_setter_always_writes data L.cap _ (by omega)]; rfl

/-- `T3.setOctets` (C01 part t34): the regenerated setter decides between rejecting and `writeNdef` -/
theorem setOctets_t3_bridge (m data : Bytes) :
    T3.setOctets m data = (T3.readNdef m >>= fun o => .ok (o.map fun nd =>
      match tb_ndef_octets_set data nd.seen.writeable nd.seen.capacity (fun _ => .ok 0) with
      | .error e => ⟨[], m, .error e⟩
      | .ok _ => T3.writeNdef m data)) := by
  unfold T3.setOctets
  congr 1; funext o
  cases o with
  | none => rfl
  | some nd =>
    simp only [Option.map, ndef_octets_set_bridge, setOctets]
    by_cases hw : nd.seen.writeable = false
    · simp [hw]
    · by_cases hc : (data.length : Int) > nd.seen.capacity
      · simp [hw, hc]
      · simp [hw, hc, Except.map]

/-- `T4.setOctets` (C01 part t34) -/
theorem setOctets_t4_bridge (v : T4.Variant) (c : T4.Card) (data : Bytes) :
    T4.setOctets v c data = (T4.readNdef v c >>= fun o => .ok (o.map fun nd =>
      match tb_ndef_octets_set data nd.seen.writeable nd.seen.capacity (fun _ => .ok 0) with
      | .error e => ⟨[], c.file, .error e⟩
      | .ok _ => T4.writeNdef v c nd.info data)) := by
  unfold T4.setOctets
  congr 1; funext o
  cases o with
  | none => rfl
  | some nd =>
    simp only [Option.map, ndef_octets_set_bridge, setOctets]
    by_cases hw : nd.seen.writeable = false
    · simp [hw]
    · by_cases hc : (data.length : Int) > nd.seen.capacity
      · simp [hw, hc]
      · simp [hw, hc, Except.map]

/-- `ndef.records`: decoded from / encoded into the `octets` PROPERTY - the setter assigns to `self.octets`, so a list of
records is written through the checked setter above (the ndeflib encoder / decoder is a parameter) -/
theorem ndef_records_bridge (o e : Bytes) (v : Int) : tb_ndef_records_get o = o ∧ tb_ndef_records_set v e = e := ⟨rfl, rfl⟩

/-! ## `Tag`: the NDEF cache and its wrappers -/

/-- `Tag.ndef`, the generated text: a cached object is handed out as it is; otherwise a new `NDEF` object is kept
iff its `has_changed` is true -/
theorem tag_ndef_bridge (cached : Option Int) (changed : Bool) (mk : Unit → Int) :
    tb_tag_ndef cached changed mk =
      match cached with
      | some x => some x
      | none => if changed then some (mk ()) else none := by
  unfold tb_tag_ndef
  cases cached with
  | some x => rfl
  | none => cases changed <;> rfl

/-- `Tag.ndef` with the translated `has_changed` of the new object is the reference `ndefAccess` (`TagCache.cstep
(.ndef f)`, `Adv.step .ndef`, `AuthNdef.ndefProp`): with an empty cache the tag is read and exactly what the read
gave is cached and handed out -/
theorem tag_ndef_ref (rd : Py (Option Bytes)) (mk : Unit → Int) :
    (tb_ndef_has_changed none none rd >>= fun r => .ok ((tb_tag_ndef none r.1 mk).bind fun _ => r.2.2))
      = (ndefAccess none rd).1 := by
  rw [ndef_has_changed_fresh]
  cases rd with
  | error e => rfl
  | ok nd => cases nd <;> rfl

/-- ... and with a cached object nothing is read (`changed`, the effectful property, is not looked at) -/
theorem tag_ndef_cached (x : Int) (changed : Bool) (mk : Unit → Int) : tb_tag_ndef (some x) changed mk = some x := rfl

example : tb_tag_ndef none true (fun _ => 7) = some 7 ∧ tb_tag_ndef none false (fun _ => 7) = none ∧
    tb_tag_ndef (some 3) true (fun _ => 7) = some 3 := by decide

/-- `Tag.is_present` is `_is_present()` (`Adv.step .present`) -/
theorem tag_is_present_bridge (p : Py Bool) : tb_tag_is_present p = isPresent p := rfl

/-- `Tag.format`: the value of `_format` is handed on, the cache is the reference wrapper's -/
theorem tag_format_bridge (version wipe : Option Int) (cache : Option Bytes) (fmt : Option Int → Option Int → Py (Option Bool)) :
    tb_tag_format version wipe cache fmt
      = (fmt version wipe >>= fun st => .ok (st, (wrapper cache (.ok st)).2)) := by
  unfold tb_tag_format wrapper
  cases fmt version wipe with
  | error e => rfl
  | ok st => simp

/-- `Tag.protect` -/
theorem tag_protect_bridge (pw : Option Bytes) (rp : Bool) (pf : Int) (cache : Option Bytes)
    (prot : Option Bytes → Bool → Int → Py (Option Bool)) :
    tb_tag_protect pw rp pf cache prot = (prot pw rp pf >>= fun st => .ok (st, (wrapper cache (.ok st)).2)) := by
  unfold tb_tag_protect wrapper
  cases prot pw rp pf with
  | error e => rfl
  | ok st => simp

/-- `Tag.authenticate` -/
theorem tag_authenticate_bridge (pw : Bytes) (cache : Option Bytes) (auth : Bytes → Py (Option Bool)) :
    tb_tag_authenticate pw cache auth = (auth pw >>= fun st => .ok (st, (wrapper cache (.ok st)).2)) := by
  unfold tb_tag_authenticate wrapper
  cases auth pw with
  | error e => rfl
  | ok st => simp

/-- the wrappers against `TagCache.cstep` (Model/AuthNdef.lean), the model C20 `ndef_read_again_after_authenticate`
is about: the cache after the regenerated wrapper is the cache after the model step (an exception leaves it alone) -/
theorem tag_wrappers_cstep (cache : Option Bytes) (priv : Py (Option Bool)) (v w : Option Int) (pw : Option Bytes)
    (rp : Bool) (pf : Int) (key : Bytes) :
    (match tb_tag_format v w cache (fun _ _ => priv) with | .ok r => r.2 | .error _ => cache)
      = (TagCache.cstep cache (.format (asBool priv))).2 ∧
    (match tb_tag_protect pw rp pf cache (fun _ _ _ => priv) with | .ok r => r.2 | .error _ => cache)
      = (TagCache.cstep cache (.protect (asBool priv))).2 ∧
    (match tb_tag_authenticate key cache (fun _ => priv) with | .ok r => r.2 | .error _ => cache)
      = (TagCache.cstep cache (.auth (asBool priv))).2 := by
  rw [tag_format_bridge, tag_protect_bridge, tag_authenticate_bridge, cstep_format, cstep_protect, cstep_auth]
  cases priv with
  | error e => simp [wrapper]
  | ok st => simp [wrapper]

/-- C03 / C20 restated for the regenerated wrappers: a call that returns True leaves the cache EMPTY ... -/
theorem gen_cache_dropped_after_format (version wipe : Option Int) (cache c' : Option Bytes)
    (fmt : Option Int → Option Int → Py (Option Bool)) (h : tb_tag_format version wipe cache fmt = .ok (some true, c')) :
    c' = none := by
  rw [tag_format_bridge] at h
  cases hf : fmt version wipe with
  | error e => rw [hf] at h; cases h
  | ok st =>
    rw [hf] at h
    simp only [Py.bind_ok, Except.ok.injEq, Prod.mk.injEq] at h
    obtain ⟨h1, h2⟩ := h
    subst h1; rw [← h2]; exact wrapper_drops cache

theorem gen_cache_dropped_after_protect (pw : Option Bytes) (rp : Bool) (pf : Int) (cache c' : Option Bytes)
    (prot : Option Bytes → Bool → Int → Py (Option Bool)) (h : tb_tag_protect pw rp pf cache prot = .ok (some true, c')) :
    c' = none := by
  rw [tag_protect_bridge] at h
  cases hf : prot pw rp pf with
  | error e => rw [hf] at h; cases h
  | ok st =>
    rw [hf] at h
    simp only [Py.bind_ok, Except.ok.injEq, Prod.mk.injEq] at h
    obtain ⟨h1, h2⟩ := h
    subst h1; rw [← h2]; exact wrapper_drops cache

theorem gen_cache_dropped_after_authenticate (pw : Bytes) (cache c' : Option Bytes)
    (auth : Bytes → Py (Option Bool)) (h : tb_tag_authenticate pw cache auth = .ok (some true, c')) :
    c' = none := by
  rw [tag_authenticate_bridge] at h
  cases hf : auth pw with
  | error e => rw [hf] at h; cases h
  | ok st =>
    rw [hf] at h
    simp only [Py.bind_ok, Except.ok.injEq, Prod.mk.injEq] at h
    obtain ⟨h1, h2⟩ := h
    subst h1; rw [← h2]; exact wrapper_drops cache

/-- ... and the next `tag.ndef` therefore reads the tag (reference law `cache_dropped_after_format`) -/
theorem gen_ndef_rereads_after_success (version wipe : Option Int) (cache c' : Option Bytes)
    (fmt : Option Int → Option Int → Py (Option Bool)) (read : Py (Option Bytes))
    (h : tb_tag_format version wipe cache fmt = .ok (some true, c')) :
    ndefAccess c' read = (read, true) := by
  rw [gen_cache_dropped_after_format version wipe cache c' fmt h]; rfl

/-- C20 `ndef_read_again_after_authenticate` with the operation given by the regenerated `Tag.authenticate`: in any
history, when `tb_tag_authenticate` on the cache of that moment returns True, the next `tag.ndef` reads the tag and
hands out exactly what that read gave -/
theorem gen_ndef_read_again_after_authenticate (pre post : List TagCache.COp) (c f : Option Bytes) (pw : Bytes)
    (auth : Bytes → Py (Option Bool)) (c' : Option Bytes)
    (h : tb_tag_authenticate pw (TagCache.crun pre c).2 auth = .ok (some true, c')) :
    (TagCache.crun (pre ++ .auth (asBool (auth pw)) :: .ndef f :: post) c).1[pre.length + 1]? = some ⟨.ok f, true⟩ := by
  apply C20.ndef_read_again_after_authenticate
  left
  have : auth pw = .ok (some true) := by
    rw [tag_authenticate_bridge] at h
    cases hf : auth pw with
    | error e => rw [hf] at h; cases h
    | ok st =>
      rw [hf] at h
      simp only [Py.bind_ok, Except.ok.injEq, Prod.mk.injEq] at h
      rw [h.1]
  rw [(asBool_true (auth pw)).mpr this]

example : tb_tag_format none none (some [1]) (fun _ _ => .ok (some true)) = .ok (some true, none) := by decide
example : tb_tag_format none none (some [1]) (fun _ _ => .ok (some false)) = .ok (some false, some [1]) := by decide
example : tb_tag_protect none false 0 (some [1]) (fun _ _ _ => .ok none) = .ok (none, some [1]) := by decide
example : tb_tag_authenticate [] (some [1]) (fun _ => .error (.tagCmd 0)) = .error (.tagCmd 0) := by decide

/-! ## the overrides: every public `format` / `protect` / `authenticate` of a tag class reaches the wrapper -/

/-- the delegating overrides call their callee with the arguments unchanged and hand its result on.  The callee
text (`super(Topaz, self).format` ...) is part of the cut: a class that calls `self._format(..)` directly has no
such text and its definition is refused (seeded/C03-r3m4, seeded/C20-r3m3). -/
theorem format_overrides_bridge (v w : Option Int) (f : Option Int → Option Int → Py (Option Bool)) :
    tb_topaz_format v w f = f v w ∧ tb_topaz512_format v w f = f v w ∧ tb_t2_format v w f = f v w ∧
    tb_t3_format v w f = f v w ∧ tb_t4_format v w f = f v w := ⟨rfl, rfl, rfl, rfl, rfl⟩

theorem lite_format_bridge (v : Int) (w : Option Int) (f : Int → Option Int → Py (Option Bool)) :
    tb_lite_format v w f = f v w := rfl

theorem protect_overrides_bridge (pw : Option Bytes) (rp : Bool) (pf : Int) (f : Option Bytes → Bool → Int → Py (Option Bool)) :
    tb_t1_protect pw rp pf f = f pw rp pf ∧ tb_topaz_protect pw rp pf f = f pw rp pf ∧
    tb_topaz512_protect pw rp pf f = f pw rp pf ∧ tb_t2_protect pw rp pf f = f pw rp pf ∧
    tb_ntag203_protect pw rp pf f = f pw rp pf ∧ tb_lite_protect pw rp pf f = f pw rp pf ∧
    tb_lites_protect pw rp pf f = f pw rp pf := ⟨rfl, rfl, rfl, rfl, rfl, rfl, rfl⟩

/-- `MifareUltralightC.protect` / `NTAG21x.protect` pass the three arguments on as a tuple (`f(*args)`) -/
theorem protect_star_overrides_bridge (pw : Option Bytes) (rp : Bool) (pf : Int) (f : Option Bytes → Bool → Int → Py (Option Bool)) :
    tb_ulc_protect pw rp pf f = f pw rp pf ∧ tb_ntag21x_protect pw rp pf f = f pw rp pf := ⟨rfl, rfl⟩

/-- `MifareUltralightC._protect` / `NTAG21x._protect`: the lock bits without a password, the password protection
(same three arguments) with one -/
theorem nxp_protect_priv_bridge (pw : Option Bytes) (rp : Bool) (pf : Int) (lock : Py Bool) (withpw : Bytes → Bool → Int → Py Bool) :
    tb_ulc_protect_priv pw rp pf lock withpw = (match pw with | none => lock | some p => withpw p rp pf) ∧
    tb_ntag21x_protect_priv pw rp pf lock withpw = (match pw with | none => lock | some p => withpw p rp pf) := by
  constructor <;> (cases pw <;> rfl)

theorem authenticate_overrides_bridge (pw : Bytes) (f : Bytes → Py (Option Bool)) (g : Bytes → Py Bool) :
    tb_ulc_authenticate pw f = f pw ∧ tb_ntag21x_authenticate pw f = f pw ∧ tb_lite_authenticate pw f = f pw ∧
    tb_lites_authenticate pw g = g pw := ⟨rfl, rfl, rfl, rfl⟩

theorem dump_overrides_bridge (f0 : Unit → Py Int) (f1 : Int → Py Int) (p : Py Int) (stop : Int) :
    tb_t1_dump f0 = f0 () ∧ tb_t2_dump f0 = f0 () ∧ tb_topaz_dump f1 = f1 15 ∧ tb_topaz512_dump f1 = f1 64 ∧
    tb_ul_dump f1 = f1 16 ∧ tb_ulc_dump f1 = f1 40 ∧ tb_ntag203_dump f1 = f1 40 ∧ tb_ntag21x_dump stop f1 = f1 stop ∧
    tb_lites_dump p = p ∧ tb_t4_dump p = p := ⟨rfl, rfl, rfl, rfl, rfl, rfl, rfl, rfl, rfl, rfl⟩

/-- C03 for the vendor classes: `Topaz.format()` (and every other override) composed with the regenerated
`Tag.format` drops the cache when the class's `_format` returns True -/
theorem gen_override_format_drops (v w : Option Int) (cache c' : Option Bytes) (priv : Option Int → Option Int → Py (Option Bool))
    (over : Option Int → Option Int → (Option Int → Option Int → Py (Option Bool × Option Bytes)) → Py (Option Bool × Option Bytes))
    (hover : over = (fun v w f => f v w))
    (h : over v w (fun v w => tb_tag_format v w cache priv) = .ok (some true, c')) : c' = none := by
  subst hover
  exact gen_cache_dropped_after_format v w cache c' priv h

/-- instance: `Topaz.format` and `Topaz512.format` (seeded/C03-r3m4), with the wrapper's result type -/
theorem gen_topaz_format_drops (v w : Option Int) (cache : Option Bytes) (priv : Option Int → Option Int → Py (Option Bool))
    (h : priv v w = .ok (some true)) :
    (tb_tag_format v w cache priv).map (·.2) = .ok none ∧
    tb_topaz_format v w priv = priv v w ∧ tb_topaz512_format v w priv = priv v w := by
  refine ⟨?_, rfl, rfl⟩
  rw [tag_format_bridge, h]; simp [wrapper, Except.map]

/-- `FelicaLiteS.authenticate` (seeded/C20-r3m3): the internal authentication is the wrapper, so its success has
dropped the cache before the external authentication starts -/
theorem gen_lites_authenticate_drops (pw : Bytes) (cache : Option Bytes) (priv : Bytes → Py (Option Bool))
    (h : priv pw = .ok (some true)) :
    tb_lites_authenticate pw (fun p => (tb_tag_authenticate p cache priv).map fun r => r.1 == some true) = .ok true ∧
    (tb_tag_authenticate pw cache priv).map (·.2) = .ok none := by
  refine ⟨?_, ?_⟩
  · show Except.map _ (tb_tag_authenticate pw cache priv) = _
    rw [tag_authenticate_bridge, h]; rfl
  · rw [tag_authenticate_bridge, h]; simp [wrapper, Except.map]

/-! ## private methods of the Type 1 / NTAG classes -/

/-- `Type1Tag._protect`: only without password and only for an NDEF formatted tag, one WRITE-NE of 0Fh to byte 11
(the CC read/write access byte) -/
theorem t1_protect_priv_bridge (pw : Option Bytes) (rp : Bool) (pf : Int) (ndef : Option Bytes) (wb : Int → Int → Bool → Py Int) :
    tb_t1_protect_priv pw rp pf ndef wb =
      if pw.isNone ∧ ndef.isSome then (wb 11 15 false >>= fun _ => .ok true) else .ok false := by
  unfold tb_t1_protect_priv
  cases pw <;> cases ndef <;> rfl

/-- `Topaz._protect`, `Topaz512._protect`: the generic protection first, then the lock bytes -/
theorem topaz_protect_priv_bridge (pw : Option Bytes) (rp : Bool) (pf : Int) (wb : Int → Int → Bool → Py Int)
    (g : Option Bytes → Bool → Int → Py Bool) :
    tb_topaz_protect_priv pw rp pf wb g = (g pw rp pf >>= fun ok =>
      if ok then wb 112 255 false >>= fun _ => wb 113 255 false >>= fun _ => .ok true else .ok false) ∧
    tb_topaz512_protect_priv pw rp pf wb g = (g pw rp pf >>= fun ok =>
      if ok then wb 112 255 false >>= fun _ => wb 113 255 false >>= fun _ => wb 120 255 false >>= fun _ =>
        wb 121 255 false >>= fun _ => .ok true else .ok false) := by
  unfold tb_topaz_protect_priv tb_topaz512_protect_priv
  constructor <;> (cases g pw rp pf with | error e => rfl | ok b => cases b <;> rfl)

/-- `_format` of NTAG203 / NTAG210 / 212 / 213 / 215 / 216 (`CtlC03.formatNxp f`, C03 `nxp_format_confined`): without NDEF
management data pages 4 and 5 get the factory content `f`, then the generic `Type2Tag._format` runs -/
def formatNxpRef (f : Bytes) (ndef : Option Bytes) (wr : Int → Bytes → Py Int) (generic : Py (Option Bool)) : Py (Option Bool) :=
  (match ndef with
   | none => wr 4 (f.take 4) >>= fun _ => wr 5 ((f.drop 4).take 4) >>= fun _ => .ok ()
   | some _ => .ok ()) >>= fun _ => generic

theorem ntag_format_priv_bridge (v w : Option Int) (ndef : Option Bytes) (wr : Int → Bytes → Py Int)
    (g : Option Int → Option Int → Py (Option Bool)) :
    tb_ntag203_format_priv v w ndef wr g = formatNxpRef [0x01, 0x03, 0xA0, 0x10, 0x44, 0x03, 0x00, 0xFE] ndef wr (g v w) ∧
    tb_ntag210_format_priv v w ndef wr g = formatNxpRef [0x03, 0x00, 0xFE, 0x00, 0x00, 0x00, 0x00, 0x00] ndef wr (g v w) ∧
    tb_ntag212_format_priv v w ndef wr g = formatNxpRef [0x01, 0x03, 0x90, 0x0A, 0x34, 0x03, 0x00, 0xFE] ndef wr (g v w) ∧
    tb_ntag213_format_priv v w ndef wr g = formatNxpRef [0x01, 0x03, 0xA0, 0x0C, 0x34, 0x03, 0x00, 0xFE] ndef wr (g v w) ∧
    tb_ntag215_format_priv v w ndef wr g = formatNxpRef [0x03, 0x00, 0xFE, 0x00, 0x00, 0x00, 0x00, 0x00] ndef wr (g v w) ∧
    tb_ntag216_format_priv v w ndef wr g = formatNxpRef [0x03, 0x00, 0xFE, 0x00, 0x00, 0x00, 0x00, 0x00] ndef wr (g v w) := by
  refine ⟨?_, ?_, ?_, ?_, ?_, ?_⟩ <;> (cases ndef <;> rfl)

/-- with NDEF data present the NTAG `_format` is the generic one; an exception of a factory write ends it -/
theorem ntag_format_priv_present (v w : Option Int) (x : Bytes) (wr : Int → Bytes → Py Int)
    (g : Option Int → Option Int → Py (Option Bool)) : tb_ntag213_format_priv v w (some x) wr g = g v w := by
  cases h : g v w <;> simp [tb_ntag213_format_priv, h]

/-! ## presence checks (C08) -/

/-- `Type1Tag._is_present` (`Adv.isPresent1`): `read_byte(0) == uid[0]`, the byte read first -/
theorem t1_is_present_bridge (uid : Bytes) (rb : Int → Py Int) :
    tb_t1_is_present uid rb = (rb 0 >>= fun b => (idxN uid 0).map (fun (u : Nat) => (u : Int)) >>= fun u => .ok (decide (b = u))) := by
  unfold tb_t1_is_present
  have : getB uid 0 = getB uid ((0 : Nat) : Int) := rfl
  rw [this, getB_nat_idxN]

/-- the answer branch of `Adv.isPresent1` is the regenerated comparison -/
theorem t1_is_present_adv (t : Adv.Tag) (uid : Bytes) (w w' : Adv.W) (b : Nat) (h : Adv.readByte1 t uid 0 w = (.ok b, w')) :
    Adv.isPresent1 t uid w = (tb_t1_is_present uid (fun _ => .ok (b : Int)), w') := by
  unfold Adv.isPresent1
  rw [h, t1_is_present_bridge]
  cases idxN uid 0 with
  | error e => rfl
  | ok u =>
    simp only [Py.bind_ok, Except.map]
    congr 2
    by_cases hb : b = u
    · subst hb; simp
    · have : ¬ ((b : Int) = (u : Int)) := by omega
      simp [hb, this]

/-- `Type2Tag._is_present` (`Adv.isPresent2`): READ of page 0, present iff 16 octets arrive -/
theorem t2_is_present_bridge (trx : Bytes → Py Bytes) (data : Bytes) :
    tb_t2_is_present_cmd trx = trx [0x30, 0x00] ∧ tb_t2_is_present_val data = decide (data.length = 16) := by
  refine ⟨rfl, ?_⟩
  unfold tb_t2_is_present_val
  cases data with
  | nil => simp [PyFn.len]
  | cons a l => simp [PyFn.len]; omega

/-- `Type3Tag._is_present` (`Adv.isPresent3`): polling for the acquired system code, the IDm must match -/
theorem t3_is_present_bridge (sys : Int) (ident : Bytes) (poll : Int → Py (Bytes × Bytes)) :
    tb_t3_is_present sys ident poll = (poll sys >>= fun r => .ok (decide (r.1 = ident))) := by
  unfold tb_t3_is_present
  cases poll sys with
  | error e => rfl
  | ok r => obtain ⟨a, b⟩ := r; rfl

/-- `FelicaStandard._is_present` (`Adv.isPresent3rr`): Request Response mode 0..3, the generic check as fall-back -/
theorem felica_is_present_bridge (rr : Py Int) (fb : Py Bool) :
    tb_felica_is_present rr = (rr >>= fun m => .ok (decide (0 ≤ m ∧ m ≤ 3))) ∧ tb_felica_is_present_fallback fb = fb := by
  refine ⟨?_, rfl⟩
  unfold tb_felica_is_present
  cases rr with
  | error e => rfl
  | ok m =>
    simp only [Py.bind_ok, Except.ok.injEq, decide_eq_decide]
    omega

/-! ## guards of the generic `_format` / `_dump` (the token of an NDEF object is not empty) -/

theorem ndef_guards_bridge (c : Option Bytes) (flag : Bool) (h : c ≠ some []) :
    tb_t2_format_cond c flag = (c.isSome && flag) ∧ tb_t4_format_cond c flag = !(c.isSome && flag) ∧
    tb_t4_dump_cond c flag = (c.isSome && flag) := by
  unfold tb_t2_format_cond tb_t4_format_cond tb_t4_dump_cond
  cases c with
  | none => simp
  | some x => cases flag <;> simp [h]

/-! ## `TagCommandError` -/

/-- the reason code given to the constructor is what `errno` and `int()` give back (`Exc.tagCmd errno`) -/
theorem tce_bridge (e : Int) : tb_tce_errno (tb_tce_init e) = e ∧ tb_tce_int (tb_tce_init e) = e ∧
    tb_tce_table e = decide (e > 0) := ⟨rfl, rfl, rfl⟩

/-! ## `nfc.tag.activate` / `emulate` -/

/-- the target as `TagBaseRef.tagType` sees it -/
def targetOf (brty : String) (sens : Option Bytes) (sel : Bytes) (sensb sensf : Option Bytes) : Target :=
  ⟨techOf brty, sens, sel, sensb, sensf⟩

/-- `nfc.tag.activate`: the tag type is chosen by `TagBaseRef.tagType` (NFC Forum Digital: SENS_RES / SEL_RES
platform bits; no discovery response = not a tag), then the type specific activation runs -/
theorem activate_bridge (clf target : Int) (brty : String) (sens : Option Bytes) (sel : Bytes) (sensb sensf : Option Bytes)
    (a1 a2 a3 a4 : Int → Int → Py (Option Int)) :
    tb_activate clf target brty sens sel sensb sensf a1 a2 a3 a4 =
      (tagType (targetOf brty sens sel sensb sensf) >>= fun k =>
        match k with
        | some 1 => a1 clf target
        | some 2 => a2 clf target
        | some 3 => a3 clf target
        | some 4 => a4 clf target
        | _ => .ok none) := by
  unfold tb_activate tagType targetOf
  by_cases hA : techOf brty = 'A'
  · simp only [(endsWith_A brty).mpr hA, hA, if_true]
    cases sens with
    | none => rfl
    | some s =>
      have e1 : getB s 1 = getB s ((1 : Nat) : Int) := rfl
      have e0 : getB sel 0 = getB sel ((0 : Nat) : Int) := rfl
      simp only [e1, e0, getB_nat_idxN]
      cases idxN s 1 with
      | error e => rfl
      | ok s1 =>
        simp only [Except.map, Py.bind_ok, band15]
        by_cases h1 : s1 % 16 = 12
        · simp [h1]
        · simp only [h1, if_false]
          cases idxN sel 0 with
          | error e => rfl
          | ok sl =>
            simp only [Py.bind_ok, shr5_band3, shr5_band1]
            by_cases h2 : sl / 32 % 4 = 0
            · simp [h2]
            · by_cases h4 : sl / 32 % 2 = 1 <;> simp [h2, h4]
  · have nA : ¬ (strEndsWith brty "A" = true) := fun h => hA ((endsWith_A brty).mp h)
    simp only [nA, hA, if_false]
    by_cases hB : techOf brty = 'B'
    · simp only [(endsWith_B brty).mpr hB, hB, if_true]
      cases sensb <;> rfl
    · have nB : ¬ (strEndsWith brty "B" = true) := fun h => hB ((endsWith_B brty).mp h)
      simp only [nB, hB, if_false]
      by_cases hF : techOf brty = 'F'
      · simp only [(endsWith_F brty).mpr hF, hF, if_true]
        cases sensf <;> rfl
      · have nF : ¬ (strEndsWith brty "F" = true) := fun h => hF ((endsWith_F brty).mp h)
        simp [nF, hF]

/-- C18: a target without discovery response (found by `sense_dep`: no SENS_RES) is not a tag - no activation
function is called, whatever SEL_RES says -/
theorem gen_activate_no_sens_res (clf target : Int) (brty : String) (sel : Bytes) (sensb sensf : Option Bytes)
    (a1 a2 a3 a4 : Int → Int → Py (Option Int)) (h : techOf brty = 'A') :
    tb_activate clf target brty none sel sensb sensf a1 a2 a3 a4 = .ok none := by
  rw [activate_bridge]; simp [tagType, targetOf, h]

/-- `Adv.activate` (C08 `session`) for a Type A target dispatches on the same bits: the tag type of the object it
builds is the reference tag type -/
theorem adv_activate_tagType (g : Adv.Target) :
    tagType ⟨'A', some g.sens, g.sel, none, none⟩ =
      (idxN g.sens 1 >>= fun s1 => if s1 &&& 0x0F = 0x0C then .ok (some 1) else
        idxN g.sel 0 >>= fun sl => if (sl >>> 5) &&& 3 = 0 then .ok (some 2)
          else if (sl >>> 5) &&& 1 = 1 then .ok (some 4) else .ok none) := by
  unfold tagType
  simp only [if_true]
  cases idxN g.sens 1 with
  | error e => rfl
  | ok s1 =>
    have h15 : s1 &&& 0x0F = s1 % 16 := Nat.and_two_pow_sub_one_eq_mod s1 4
    simp only [Py.bind_ok, h15]
    by_cases h1 : s1 % 16 = 12
    · simp [h1]
    · simp only [h1, if_false]
      cases idxN g.sel 0 with
      | error e => rfl
      | ok sl =>
        have h3 : (sl >>> 5) &&& 3 = sl / 32 % 4 := by
          rw [Nat.and_two_pow_sub_one_eq_mod _ 2, Nat.shiftRight_eq_div_pow]
        have h1' : (sl >>> 5) &&& 1 = sl / 32 % 2 := by
          rw [Nat.and_two_pow_sub_one_eq_mod _ 1, Nat.shiftRight_eq_div_pow]
        simp only [Py.bind_ok, h3, h1']

/-- tag type of a tag object of `Model/AdvT34.lean` -/
def kindOf : Adv.TagObj → Nat
  | .t1 .. => 1 | .t2 .. => 2 | .t3 .. => 3 | .t4 .. => 4

theorem adv_activate_kind (t : Adv.Tag) (ms mr : Nat) (g : Adv.Target) (w w' : Adv.W) (obj : Adv.TagObj)
    (h : g.tech = 0) (hres : Adv.activate t ms mr g w = (.ok (some obj), w')) :
    tagType ⟨'A', some g.sens, g.sel, none, none⟩ = .ok (some (kindOf obj)) := by
  rw [adv_activate_tagType g]
  unfold Adv.activate at hres
  simp only [h, if_true] at hres
  cases h1 : idxN g.sens 1 with
  | error e => rw [h1] at hres; cases hres
  | ok s1 =>
    rw [h1] at hres
    simp only [Py.bind_ok] at hres ⊢
    by_cases c1 : s1 &&& 0x0F = 0x0C
    · simp only [c1, if_true] at hres ⊢
      cases hres; rfl
    · simp only [c1, if_false] at hres ⊢
      cases h2 : idxN g.sel 0 with
      | error e => rw [h2] at hres; cases hres
      | ok sl =>
        rw [h2] at hres
        simp only [Py.bind_ok] at hres ⊢
        by_cases c2 : (sl >>> 5) &&& 3 = 0
        · simp only [c2, if_true] at hres ⊢
          cases h3 : idxN g.sdd 0 with
          | error e => rw [h3] at hres; cases hres
          | ok mfr =>
            rw [h3] at hres
            simp only at hres
            split at hres
            · split at hres
              · cases hres; rfl
              · split at hres <;> cases hres; rfl
            · cases hres; rfl
        · simp only [c2, if_false] at hres ⊢
          by_cases c4 : (sl >>> 5) &&& 1 = 1
          · simp only [c4, if_true] at hres ⊢
            split at hres <;> cases hres; rfl
          · simp only [c4, if_false] at hres
            cases hres
/-- `Clf.activateBody` (C18 `tagActivate`): a Type A target with a complete SENS_RES is dispatched by the reference
tag type (SEL_RES is the one octet `f.selRes`) -/
theorem connect_activateBody_tagType (f : Clf.Found) (s : Clf.St) (h1 : f.tech = 1) (hl : 2 ≤ f.sens.length) :
    Clf.activateBody f s =
      match tagType ⟨'A', some f.sens, [f.selRes], none, none⟩ with
      | .ok (some 1) => (if f.rid.isEmpty then (.ok none, s) else (.ok (some .tt1), s))
      | .ok (some 2) => Clf.tt2Activate f s
      | .ok (some 4) => Clf.tt4Activate .tt4a s
      | _ => (.ok none, s) := by
  unfold Clf.activateBody tagType
  simp only [h1, if_true]
  obtain ⟨a, b, rest, hs⟩ : ∃ a b rest, f.sens = a :: b :: rest := by
    match hh : f.sens, hl with
    | a :: b :: rest, _ => exact ⟨a, b, rest, rfl⟩
  simp only [hs, idxN, List.getElem?_cons_succ, List.getElem?_cons_zero, Py.bind_ok, List.getD_cons_succ, List.getD_cons_zero]
  by_cases c1 : b % 16 = 12
  · simp [c1]
  · by_cases c2 : f.selRes / 32 % 4 = 0
    · simp [c1, c2]
    · by_cases c4 : f.selRes / 32 % 2 = 1 <;> simp [c1, c2, c4]

/-- ... and a target without SENS_RES (found by `sense_dep`, `tech = 4`) is not a tag in both -/
theorem connect_activateBody_no_sens (f : Clf.Found) (s : Clf.St) (h : f.tech = 4) :
    Clf.activateBody f s = (.ok none, s) ∧ tagType ⟨'A', none, [f.selRes], none, none⟩ = .ok none := by
  refine ⟨?_, rfl⟩
  unfold Clf.activateBody
  simp [h]
example : tb_activate 0 0 "106A" (some [0x00, 0x0C]) [0x00] none none (fun _ _ => .ok (some 1)) (fun _ _ => .ok (some 2))
    (fun _ _ => .ok (some 3)) (fun _ _ => .ok (some 4)) = .ok (some 1) := by decide +kernel
example : tb_activate 0 0 "106A" (some [0x44, 0x00]) [0x20] none none (fun _ _ => .ok (some 1)) (fun _ _ => .ok (some 2))
    (fun _ _ => .ok (some 3)) (fun _ _ => .ok (some 4)) = .ok (some 4) := by decide +kernel
example : tb_activate 0 0 "212F" none [] none (some [1]) (fun _ _ => .ok (some 1)) (fun _ _ => .ok (some 2))
    (fun _ _ => .ok (some 3)) (fun _ _ => .ok (some 4)) = .ok (some 3) := by decide +kernel
example : tb_activate 0 0 "106A" (some [0x44]) [0x20] none none (fun _ _ => .ok (some 1)) (fun _ _ => .ok (some 2))
    (fun _ _ => .ok (some 3)) (fun _ _ => .ok (some 4)) = .error .index := by decide +kernel

/-- `nfc.tag.emulate`: Type 3 Tag emulation iff the local target has a (non-empty) `tt3_cmd` -/
theorem emulate_cond_bridge (c : Option Bytes) : tb_emulate_cond c = (match c with | some (_ :: _) => true | _ => false) := by
  unfold tb_emulate_cond
  cases c with
  | none => simp
  | some l => cases l <;> simp

end NfcVerif.FnBridge.TagBase
