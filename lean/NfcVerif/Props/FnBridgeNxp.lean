import NfcVerif.Lemmas.FnBridgeNxp
/-!
# Bridge theorems, group Nxp (`nfc/tag/tt2_nxp.py` -> `Gen/FnNxp.lean`)

Properties C20 (`NTAG21x._authenticate`, `MifareUltralightC._authenticate`, `_protect_with_password`), C03 (`_protect`,
`_protect_with_lockbits`, `_format`: which pages are written), C16 / C02 (the NDEF capability overrides after an
authentication), C01 (`_format` factory defaults), C08 (`activate`: class selection behind GET_VERSION).

The regenerated definitions have every tag command and the cipher objects as function parameters; the theorems hold for
ALL such functions (all tags, channels, ciphers).  Model counterparts: `Auth.ntagKey`, `Auth.ntagAuthCmd`,
`Auth.ntagAuthenticate` (existing), `VendorRef.ulcKey`, `ulcAuth0`, `ulcAuth1` (existing) and the reference semantics
`Model/FnNxpRef.lean` (new).
-/
set_option linter.unusedSimpArgs false
namespace NfcVerif.FnBridge.Nxp
open NfcVerif NfcVerif.PyFn NfcVerif.FnBridge.TagCmd NfcVerif.FnBridge.Vendor NfcVerif.VendorRef NfcVerif.NxpRef

/-! ## `NTAG21x._authenticate` -/

/-- body of the `try`: PWD_AUTH(key[0:4]), answer compared with key[4:6] -/
theorem ntag_auth_try_bridge (key : Bytes) (tx : Tx) : Gen.Fn.nxp_ntag_auth_try key tx = ntagAuthTry key tx := rfl

theorem ntag_auth_fail_bridge : Gen.Fn.nxp_ntag_auth_fail = false := rfl

/-- the method assembled from the regenerated pieces (key selection: group Vendor) is the reference -/
theorem ntag_authenticate_assembled (pw : Bytes) (tx : Tx) :
    (Gen.Fn.ntag_auth_key pw >>= fun key =>
      catchTagCmd (Gen.Fn.nxp_ntag_auth_try key tx) Gen.Fn.nxp_ntag_auth_fail) = ntagAuthenticate pw tx := by
  rw [ntag_auth_key_bridge]; rfl

/-- the C20 model function `Auth.ntagAuthenticate` applied to what the channel gives for the PWD_AUTH command of
`Auth.ntagAuthCmd` IS the reference (and so the assembled regenerated method) -/
theorem ntag_authenticate_model (pw : Bytes) (tx : Tx) :
    ntagAuthenticate pw tx =
      Auth.ntagAuthenticate pw (match Auth.ntagKey pw with | .ok key => tx (Auth.ntagAuthCmd key) | .error e => .error e) := by
  unfold ntagAuthenticate Auth.ntagAuthenticate ntagAuthTry catchTagCmd Auth.ntagAuthCmd
  cases hk : Auth.ntagKey pw with
  | error e => rfl
  | ok key =>
    simp only [Py.bind_ok]
    have e1 : slice key 0 4 = key.take 4 := by rw [show (4 : Int) = ((4 : Nat) : Int) from rfl, slice0]
    have e2 : slice key 4 6 = (key.drop 4).take 2 := slice_nat key 4 6
    rw [e1, e2]
    cases tx ([0x1B] ++ key.take 4) with
    | error e => cases e <;> rfl
    | ok r => rfl

/-- C20 for the regenerated method, all tags and channels: True iff the answer to PWD_AUTH(key[0:4]) is exactly the
two PACK octets key[4:6] (seed C20-r5m4 compares fewer octets) -/
theorem gen_ntag_authenticate_true_iff (pw : Bytes) (tx : Tx) :
    (Gen.Fn.ntag_auth_key pw >>= fun key =>
      catchTagCmd (Gen.Fn.nxp_ntag_auth_try key tx) Gen.Fn.nxp_ntag_auth_fail) = .ok true ↔
      ∃ key, Auth.ntagKey pw = .ok key ∧ tx ([0x1B] ++ slice key 0 4) = .ok (slice key 4 6) := by
  rw [ntag_authenticate_assembled]; exact ntagAuthenticate_true_iff pw tx

example : (Gen.Fn.ntag_auth_key [1, 2, 3, 4, 5, 6] >>= fun key =>
    catchTagCmd (Gen.Fn.nxp_ntag_auth_try key (fun c => if c = [0x1B, 1, 2, 3, 4] then .ok [5, 6] else .error (.tagCmd 1)))
      Gen.Fn.nxp_ntag_auth_fail) = .ok true := by decide +kernel
example : (Gen.Fn.ntag_auth_key [1, 2, 3, 4, 5, 6] >>= fun key =>
    catchTagCmd (Gen.Fn.nxp_ntag_auth_try key (fun _ => .ok [5, 7])) Gen.Fn.nxp_ntag_auth_fail) = .ok false := by decide +kernel

/-! ## `MifareUltralightC._authenticate` -/

theorem ulc_auth_iv0_bridge : Gen.Fn.nxp_ulc_auth_iv0 = zeros8 := rfl
theorem ulc_auth_tail_iv_bridge (m2 : Bytes) : Gen.Fn.nxp_ulc_auth_tail_iv m2 = slice m2 8 16 := rfl
theorem ulc_rb0_bridge (rb : Bytes) : Gen.Fn.nxp_ulc_rb0 rb = firstOctet rb := rfl
theorem ulc_ra0_bridge (ra : Bytes) : Gen.Fn.nxp_ulc_ra0 ra = firstOctet ra := rfl
theorem ulc_auth_step2_fail_bridge : Gen.Fn.nxp_ulc_auth_step2_fail = false := rfl

/-- the second command is AF | m2 -/
theorem ulc_auth_step2_bridge (m2 : Bytes) (tx : Tx) : Gen.Fn.nxp_ulc_auth_step2 m2 tx = tx ([0xAF] ++ m2) := by
  unfold Gen.Fn.nxp_ulc_auth_step2
  cases tx ([175] ++ m2) <;> rfl

/-- up to the second command: key of the password, AUTHENTICATE 1A 00, m1 = answer[1:9], the start value for the
answer is answer[1:9]; RndA, RndB and m2 are handed through -/
theorem ulc_auth_head_bridge (pw ra rb m2 : Bytes) (tx : Tx) :
    Gen.Fn.nxp_ulc_auth_head pw ra rb m2 tx =
      (ulcKey pw >>= fun key => tx [0x1A, 0] >>= fun r1 => .ok (key, slice r1 1 9, ra, slice r1 1 9, m2)) := by
  unfold Gen.Fn.nxp_ulc_auth_head
  rw [← ulc_auth_key_gen pw]
  dsimp only
  by_cases hc : len (if pw ≠ [] then slice pw 0 16 else [73, 69, 77, 75, 65, 69, 82, 66, 33, 78, 65, 67, 85, 79, 89, 70]) ≠ 16
  · rw [if_pos hc, if_pos hc]; rfl
  · rw [if_neg hc, if_neg hc]
    simp only [Py.bind_ok]

/-- the plaintext of the second command: RndA | RndB[1:8] | rb0 -/
theorem ulc_auth_plain_bridge (ra rb rb0 : Bytes) : Gen.Fn.nxp_ulc_auth_plain ra rb rb0 = ra ++ slice rb 1 8 ++ rb0 := rfl

theorem ulc_auth_m3_bridge (rsp : Bytes) : Gen.Fn.nxp_ulc_auth_m3 rsp = slice rsp 1 9 := rfl

/-- the decision: the decrypted answer = RndA[1:9] | ra0 -/
theorem ulc_auth_tail_bridge (rsp m2 ra pt ra0 : Bytes) :
    Gen.Fn.nxp_ulc_auth_tail rsp m2 ra pt ra0 = decide (pt = slice ra 1 9 ++ ra0) := rfl

/-- the method assembled from the regenerated pieces, with the cipher calls evaluated as the bound source texts say:
RndB = D key iv0 m1, m2 = E key iv (plaintext) with the `iv` the head reports, RndA' = D key (tail iv) m3 -/
def ulcAssembled (D E : Cipher) (pw ra : Bytes) (tx : Tx) : Py Bool :=
  Gen.Fn.ulc_auth_key pw >>= fun key =>
  tx [0x1A, 0] >>= fun r1 =>
  Gen.Fn.nxp_ulc_rb0 (D key Gen.Fn.nxp_ulc_auth_iv0 (slice r1 1 9)) >>= fun rb0 =>
  Gen.Fn.nxp_ulc_auth_head pw ra (D key Gen.Fn.nxp_ulc_auth_iv0 (slice r1 1 9))
      (E key (slice r1 1 9) (Gen.Fn.nxp_ulc_auth_plain ra (D key Gen.Fn.nxp_ulc_auth_iv0 (slice r1 1 9)) rb0)) tx
    >>= fun (key', _m1, ra', _iv, m2) =>
  match Gen.Fn.nxp_ulc_auth_step2 m2 tx with
  | .error (.tagCmd _) => .ok Gen.Fn.nxp_ulc_auth_step2_fail
  | .error e => .error e
  | .ok r2 =>
    Gen.Fn.nxp_ulc_ra0 ra' >>= fun ra0 =>
    .ok (Gen.Fn.nxp_ulc_auth_tail r2 m2 ra' (D key' (Gen.Fn.nxp_ulc_auth_tail_iv m2) (Gen.Fn.nxp_ulc_auth_m3 r2)) ra0)

/-- what the head reports: m1 and the start value of the `encrypt` object are answer[1:9] - the values `ulcAssembled`
hands to the cipher -/
theorem ulc_auth_head_iv (pw ra rb m2v : Bytes) (tx : Tx) (key m1 ra' iv m2 r1 : Bytes)
    (h1 : tx [0x1A, 0] = .ok r1) (h : Gen.Fn.nxp_ulc_auth_head pw ra rb m2v tx = .ok (key, m1, ra', iv, m2)) :
    m1 = slice r1 1 9 ∧ iv = slice r1 1 9 ∧ ra' = ra ∧ m2 = m2v ∧ ulcKey pw = .ok key := by
  rw [ulc_auth_head_bridge] at h
  cases hk : ulcKey pw with
  | error e => rw [hk] at h; cases h
  | ok k =>
    rw [hk, h1] at h
    simp only [Py.bind_ok] at h
    have := Except.ok.inj h
    simp only [Prod.mk.injEq] at this
    exact ⟨this.2.1.symm, this.2.2.2.1.symm, this.2.2.1.symm, this.2.2.2.2.symm, by rw [this.1]⟩

theorem ulc_authenticate_bridge (D E : Cipher) (pw ra : Bytes) (tx : Tx) :
    ulcAssembled D E pw ra tx = ulcAuthenticate D E pw ra tx := by
  unfold ulcAssembled ulcAuthenticate
  rw [ulc_auth_key_bridge]
  cases hk : ulcKey pw with
  | error e => rfl
  | ok key =>
    simp only [Py.bind_ok]
    cases h1 : tx [0x1A, 0] with
    | error e => rfl
    | ok r1 =>
      simp only [Py.bind_ok, ulc_rb0_bridge, ulc_auth_iv0_bridge]
      cases hb : firstOctet (D key zeros8 (slice r1 1 9)) with
      | error e => rfl
      | ok b0 =>
        simp only [Py.bind_ok]
        rw [ulc_auth_head_bridge, hk, h1]
        simp only [Py.bind_ok, ulc_auth_step2_bridge, ulc_ra0_bridge, ulc_auth_tail_bridge, ulc_auth_tail_iv_bridge,
          ulc_auth_step2_fail_bridge, ulcM2, ulc_auth_plain_bridge, ulc_auth_m3_bridge]
        rfl

/-- C20 for the regenerated method with DES uninterpreted: True iff the second answer decrypts to RndA rotated left -/
theorem gen_ulc_authenticate_true_iff (D E : Cipher) (pw ra : Bytes) (tx : Tx) :
    ulcAssembled D E pw ra tx = .ok true ↔
      ∃ key r1 b0 r2 a0, ulcKey pw = .ok key ∧ tx [0x1A, 0] = .ok r1
        ∧ firstOctet (D key zeros8 (slice r1 1 9)) = .ok b0
        ∧ tx ([0xAF] ++ ulcM2 E key ra (slice r1 1 9) (D key zeros8 (slice r1 1 9)) b0) = .ok r2
        ∧ firstOctet ra = .ok a0
        ∧ D key (slice (ulcM2 E key ra (slice r1 1 9) (D key zeros8 (slice r1 1 9)) b0) 8 16) (slice r2 1 9)
            = slice ra 1 9 ++ a0 := by
  rw [ulc_authenticate_bridge]; exact ulcAuthenticate_true_iff D E pw ra tx

/-! ## `_protect` -/

/-- without a password the lock bits, else the password protection with the same three arguments -/
theorem ulc_protect_bridge (pw : Option Bytes) (rp : Bool) (pf : Int) (lockbits : Py Bool) (withpw : Bytes → Bool → Int → Py Bool) :
    Gen.Fn.nxp_ulc_protect pw rp pf lockbits withpw = (match pw with | none => lockbits | some p => withpw p rp pf) := by
  cases pw <;> rfl

theorem ntag_protect_bridge (pw : Option Bytes) (rp : Bool) (pf : Int) (lockbits : Py Bool) (withpw : Bytes → Bool → Int → Py Bool) :
    Gen.Fn.nxp_ntag_protect pw rp pf lockbits withpw = (match pw with | none => lockbits | some p => withpw p rp pf) := by
  cases pw <;> rfl

/-- the NTAG203 has no password: False whatever was done before -/
theorem n203_protect_else_bridge (pw : Option Bytes) (rp : Bool) (pf : Int) : Gen.Fn.nxp_n203_protect_else pw rp pf = false := rfl

/-- the capability container update of the password protection, as the generated text has it -/
theorem ccAccess_gen (rd : Rd) (wr : Wr) (rp : Bool) (pf : Int) :
    ((if (pf ≤ 3) then
       (rd 3 >>= fun t8 =>
        let ndef_cc := (slice t8 0 4)
        PyFn.getB ndef_cc 0 >>= fun t9 =>
        (if (t9 = 225) then
           (PyFn.getB ndef_cc 1 >>= fun t11 =>
            Except.ok (decide ((PyFn.band t11 240) = 16)))
         else Except.ok false) >>= fun t12 =>
        (if (t12 = true) then
           (PyFn.getB ndef_cc 3 >>= fun t13 =>
            PyFn.setB ndef_cc 3 (PyFn.bor t13 (if (rp = true) then 136 else 8)) >>= fun ndef_cc_1 =>
            wr 3 ndef_cc_1 >>= fun t14 =>
            Except.ok ndef_cc_1)
         else
         Except.ok ndef_cc) >>= fun ndef_cc_2 =>
        Except.ok ())
     else
     Except.ok ()) : Py Unit) = ccAccess rd wr rp pf := by
  unfold ccAccess ccValidPw runWrites runWrites
  by_cases hp : pf ≤ 3
  · rw [if_pos hp, if_pos hp]
    cases rd 3 with
    | error e => rfl
    | ok t =>
      simp only [Py.bind_ok]
      cases getB (slice t 0 4) 0 with
      | error e => rfl
      | ok a =>
        simp only [Py.bind_ok]
        by_cases ha : a = 225
        · simp only [if_pos ha]
          cases getB (slice t 0 4) 1 with
          | error e => rfl
          | ok b =>
            simp only [Py.bind_ok]
            by_cases hv : decide (band b 240 = 16) = true
            · simp only [if_pos hv]
              cases getB (slice t 0 4) 3 with
              | error e => rfl
              | ok c =>
                simp only [Py.bind_ok]
                cases setB (slice t 0 4) 3 (bor c (if rp = true then 136 else 8)) with
                | error e => rfl
                | ok cc' =>
                  simp only [Py.bind_ok]
                  cases wr 3 cc' <;> rfl
            · simp only [if_neg hv]; rfl
        · simp only [if_neg ha]; rfl
  · rw [if_neg hp, if_neg hp]

/-- Ultralight C `protect(password)`: key pages, AUTH0, AUTH1 as the WRITE list `ulcProtectWrites`, then the capability
container, then the authentication with the SAME key -/
theorem ulc_protect_pw_bridge (pw : Bytes) (rp : Bool) (pf : Int) (target : Option Int) (auth : Bytes → Py Bool) (rd : Rd) (wr : Wr) :
    Gen.Fn.nxp_ulc_protect_pw pw rp pf target auth rd wr = ulcProtectPw pw rp pf target auth rd wr := by
  unfold Gen.Fn.nxp_ulc_protect_pw ulcProtectPw
  rw [← ulc_protect_key_gen pw]
  by_cases hc : (pw ≠ [] ∧ len pw < 16)
  · rw [if_pos hc, if_pos hc]; rfl
  · rw [if_neg hc, if_neg hc]
    simp only [Py.bind_ok, ccAccess_gen, ulcProtectWrites, ulcKeyWrites, List.cons_append, List.nil_append, runWrites_cons,
      runWrites_nil, (ulc_auth0_gen pf).1, ulcAuth1]
    rw [(ulc_auth0_gen pf).2]
    rfl

/-- C03 / C20 for the regenerated method: whatever the tag answers, the pages written in front of the capability
container update are the key / AUTH0 / AUTH1 pages 42..47 (`ulcProtectWrites_pages`) - never user memory -/
theorem gen_ulc_protect_pages (key : Bytes) (rp : Bool) (pf : Int) :
    ∀ w ∈ ulcProtectWrites key rp pf, 42 ≤ w.1 ∧ w.1 ≤ 47 := ulcProtectWrites_pages key rp pf

/-- NTAG21x `protect(password)` -/
theorem ntag_protect_pw_bridge (pw : Bytes) (rp : Bool) (pf cfgpage : Int) (target : Option Int) (auth : Bytes → Py Bool) (rd : Rd) (wr : Wr) :
    Gen.Fn.nxp_ntag_protect_pw pw rp pf cfgpage target auth rd wr = ntagProtectPw pw rp pf cfgpage target auth rd wr := by
  unfold Gen.Fn.nxp_ntag_protect_pw ntagProtectPw
  rw [← ntag_protect_key_gen pw]
  by_cases hc : (pw ≠ [] ∧ len pw < 6)
  · rw [if_pos hc, if_pos hc]; rfl
  · rw [if_neg hc, if_neg hc]
    simp only [Py.bind_ok, ccAccess_gen]
    cases rd cfgpage with
    | error e => rfl
    | ok cfg =>
      simp only [Py.bind_ok]
      unfold ntagCfg
      cases setB (setSlice cfg 8 14 (if pw ≠ [] then slice pw 0 6 else [255, 255, 255, 255, 0, 0])) 3 (imax 3 (imin pf 255)) with
      | error e => rfl
      | ok c =>
        simp only [Py.bind_ok]
        cases (if rp = true then getB c 4 >>= fun a => (.ok (bor a 128) : Py Int) else getB c 4 >>= fun a => .ok (band a 127)) with
        | error e => rfl
        | ok v =>
          simp only [Py.bind_ok]
          cases setB c 4 v with
          | error e => rfl
          | ok c3 =>
            simp only [Py.bind_ok, ntagCfgWrites, runWrites_cons, runWrites_nil]
            have hr : PyFn.range 0 4 = [0, 1, 2, 3] := by decide
            rw [hr]
            simp only [PyFn.forM]
            cases wr (cfgpage + 0) (slice c3 (0 * 4) ((0 + 1) * 4)) with
            | error e => rfl
            | ok _ =>
              simp only [Py.bind_ok]
              cases wr (cfgpage + 1) (slice c3 (1 * 4) ((1 + 1) * 4)) with
              | error e => rfl
              | ok _ =>
                simp only [Py.bind_ok]
                cases wr (cfgpage + 2) (slice c3 (2 * 4) ((2 + 1) * 4)) with
                | error e => rfl
                | ok _ =>
                  simp only [Py.bind_ok]
                  cases wr (cfgpage + 3) (slice c3 (3 * 4) ((3 + 1) * 4)) with
                  | error e => rfl
                  | ok _ => rfl

/-- the configuration update of the reference is Vendor's regenerated `ntag_protect_cfg` (bridged there to
`Auth.ntagProtectPages`) -/
theorem ntagCfg_vendor (cfg key : Bytes) (rp : Bool) (pf : Int) : ntagCfg cfg key rp pf = Gen.Fn.ntag_protect_cfg cfg key rp pf := rfl

/-! ## `_protect_with_lockbits`, `NTAG203._protect` -/

theorem ccReadOnly_gen {β} (rd : Rd) (wr : Wr) (k : Py β) :
    (rd 3 >>= fun t1 =>
      let ndef_cc := (slice t1 0 4)
      PyFn.getB ndef_cc 0 >>= fun t2 =>
      (if (t2 = 225) then
         (PyFn.getB ndef_cc 1 >>= fun t4 =>
          Except.ok (decide ((PyFn.shr t4 4) = 1)))
       else Except.ok false) >>= fun t5 =>
      (if (t5 = true) then
         (PyFn.setB ndef_cc 3 15 >>= fun ndef_cc_1 =>
          wr 3 ndef_cc_1 >>= fun t6 =>
          Except.ok ndef_cc_1)
       else
       Except.ok ndef_cc) >>= fun ndef_cc_2 => k) = (ccReadOnly rd wr >>= fun _ => k) := by
  unfold ccReadOnly ccValid runWrites runWrites
  cases rd 3 with
  | error e => rfl
  | ok t =>
    simp only [Py.bind_ok]
    cases getB (slice t 0 4) 0 with
    | error e => rfl
    | ok a =>
      simp only [Py.bind_ok]
      by_cases ha : a = 225
      · simp only [if_pos ha]
        cases getB (slice t 0 4) 1 with
        | error e => rfl
        | ok b =>
          simp only [Py.bind_ok]
          by_cases hv : decide (shr b 4 = 1) = true
          · simp only [if_pos hv]
            cases setB (slice t 0 4) 3 15 with
            | error e => rfl
            | ok cc' =>
              simp only [Py.bind_ok]
              cases wr 3 cc' <;> rfl
          · simp only [if_neg hv]; rfl
      · simp only [if_neg ha]; rfl

/-- Ultralight C: CC read-only, page 2 := 00 00 FF FF, page 40 := FF FF 00 00 -/
theorem ulc_lockbits_bridge (rd : Rd) (wr : Wr) : Gen.Fn.nxp_ulc_lockbits rd wr = lockbits40 [255, 255, 0, 0] rd wr := by
  unfold Gen.Fn.nxp_ulc_lockbits lockbits40
  rw [ccReadOnly_gen]
  simp only [runWrites_cons, runWrites_nil]

/-- NTAG203: CC read-only, page 2 := 00 00 FF FF, page 40 := FF 01 00 00 (the counter page 41 is not locked) -/
theorem n203_protect_bridge (pw : Option Bytes) (rp : Bool) (pf : Int) (rd : Rd) (wr : Wr) :
    Gen.Fn.nxp_n203_protect pw rp pf rd wr = lockbits40 [255, 1, 0, 0] rd wr := by
  unfold Gen.Fn.nxp_n203_protect lockbits40
  rw [ccReadOnly_gen]
  simp only [runWrites_cons, runWrites_nil]

/-- NTAG21x: dynamic lock bytes at cfgpage - 1 only for products with more than 16 pages, CFGLCK at cfgpage + 1 -/
theorem ntag_lockbits_bridge (cfgpage : Int) (rd : Rd) (wr : Wr) : Gen.Fn.nxp_ntag_lockbits cfgpage rd wr = ntagLockbits cfgpage rd wr := by
  unfold Gen.Fn.nxp_ntag_lockbits ntagLockbits
  rw [ccReadOnly_gen]
  cases ccReadOnly rd wr with
  | error e => rfl
  | ok _ =>
    simp only [Py.bind_ok, List.cons_append, List.nil_append, runWrites_cons]
    cases wr 2 [0, 0, 255, 255] with
    | error e => rfl
    | ok _ =>
      simp only [Py.bind_ok]
      by_cases hc : cfgpage > 16
      · rw [if_pos hc, if_pos hc]
        simp only [runWrites_cons, runWrites_nil]
        cases wr (cfgpage - 1) [255, 255, 255, 0] with
        | error e => rfl
        | ok _ =>
          simp only [Py.bind_ok]
          cases rd cfgpage with
          | error e => rfl
          | ok cfg =>
            simp only [Py.bind_ok]
            cases getB cfg 4 with
            | error e => rfl
            | ok a =>
              simp only [Py.bind_ok]
              split
              · cases setB cfg 4 (bor a 64) with
                | error e => rfl
                | ok c' => simp only [Py.bind_ok]; cases wr (cfgpage + 1) (slice c' 4 8) <;> rfl
              · rfl
      · rw [if_neg hc, if_neg hc]
        simp only [runWrites_nil, Py.bind_ok]
        cases rd cfgpage with
        | error e => rfl
        | ok cfg =>
          simp only [Py.bind_ok]
          cases getB cfg 4 with
          | error e => rfl
          | ok a =>
            simp only [Py.bind_ok]
            split
            · cases setB cfg 4 (bor a 64) with
              | error e => rfl
              | ok c' => simp only [Py.bind_ok]; cases wr (cfgpage + 1) (slice c' 4 8) <;> rfl
            · rfl

/-! ## `NDEF._read_capability_data` -/

theorem ulc_capdata_flags_bridge (mem : Bytes) (r w a : Bool) : Gen.Fn.nxp_ulc_capdata_flags mem r w a = capFlags mem r w a := by
  unfold Gen.Fn.nxp_ulc_capdata_flags capFlags
  cases a <;> cases r <;> cases w <;> simp <;> (try cases getB mem 15 <;> rfl)

theorem ntag_capdata_flags_bridge (mem : Bytes) (r w a : Bool) : Gen.Fn.nxp_ntag_capdata_flags mem r w a = capFlags mem r w a := by
  unfold Gen.Fn.nxp_ntag_capdata_flags capFlags
  cases a <;> cases r <;> cases w <;> simp <;> (try cases getB mem 15 <;> rfl)

/-- the value returned: what the generic code returned, unless the flag update raises -/
theorem ulc_capdata_ret_bridge (mem : Bytes) (r w a base : Bool) :
    Gen.Fn.nxp_ulc_capdata_ret mem r w a base = (if base = true then capFlags mem r w a >>= fun _ => .ok true else .ok false) := by
  unfold Gen.Fn.nxp_ulc_capdata_ret capFlags
  cases base <;> cases a <;> cases r <;> cases w <;> simp <;> (try cases getB mem 15 <;> rfl)

theorem ntag_capdata_ret_bridge (mem : Bytes) (r w a base : Bool) :
    Gen.Fn.nxp_ntag_capdata_ret mem r w a base = (if base = true then capFlags mem r w a >>= fun _ => .ok true else .ok false) := by
  unfold Gen.Fn.nxp_ntag_capdata_ret capFlags
  cases base <;> cases a <;> cases r <;> cases w <;> simp <;> (try cases getB mem 15 <;> rfl)

/-- C16 / C02 for the regenerated override: without authentication nothing changes, and no flag is ever cleared -/
theorem gen_capdata_unauthenticated (mem : Bytes) (r w : Bool) : Gen.Fn.nxp_ntag_capdata_flags mem r w false = .ok (r, w) := by
  rw [ntag_capdata_flags_bridge]; rfl

theorem gen_capdata_monotone (mem : Bytes) (r w a r' w' : Bool) (h : Gen.Fn.nxp_ntag_capdata_flags mem r w a = .ok (r', w')) :
    (r = true → r' = true) ∧ (w = true → w' = true) := by
  rw [ntag_capdata_flags_bridge] at h; exact capFlags_monotone mem r w a r' w' h

/-! ## `signature`, `_format`, configuration pages, NTAG I2C, `activate` -/

theorem signature_try_bridge (tx : Tx) : Gen.Fn.nxp_signature_try tx = tx [0x3C, 0] := rfl
theorem signature_fail_bridge : Gen.Fn.nxp_signature_fail = List.replicate 32 0 := by decide

theorem format_gen (p4 p5 : Bytes) (v : Int) (wipe : Option Int) (ndef : Option Bytes) (wr : Wr) (base : Int → Option Int → Py Bool) :
    ((match ndef with
      | none => (wr 4 p4 >>= fun _ => wr 5 p5 >>= fun _ => (Except.ok () : Py Unit))
      | some _ => (Except.ok ())) >>= fun () => base v wipe) = formatNxp p4 p5 v wipe ndef wr base := by
  unfold formatNxp
  cases ndef with
  | some n => rfl
  | none =>
    simp only [runWrites_cons, runWrites_nil]
    cases wr 4 p4 with
    | error e => rfl
    | ok _ =>
      simp only [Py.bind_ok]
      cases wr 5 p5 <;> rfl

theorem ntag203_format_bridge (v : Int) (wipe : Option Int) (ndef : Option Bytes) (wr : Wr) (base : Int → Option Int → Py Bool) :
    Gen.Fn.nxp_ntag203_format v wipe ndef wr base = formatNxp [0x01, 0x03, 0xA0, 0x10] [0x44, 0x03, 0x00, 0xFE] v wipe ndef wr base := by
  exact format_gen _ _ v wipe ndef wr base
theorem ntag210_format_bridge (v : Int) (wipe : Option Int) (ndef : Option Bytes) (wr : Wr) (base : Int → Option Int → Py Bool) :
    Gen.Fn.nxp_ntag210_format v wipe ndef wr base = formatNxp [0x03, 0x00, 0xFE, 0x00] [0, 0, 0, 0] v wipe ndef wr base := by
  exact format_gen _ _ v wipe ndef wr base
theorem ntag212_format_bridge (v : Int) (wipe : Option Int) (ndef : Option Bytes) (wr : Wr) (base : Int → Option Int → Py Bool) :
    Gen.Fn.nxp_ntag212_format v wipe ndef wr base = formatNxp [0x01, 0x03, 0x90, 0x0A] [0x34, 0x03, 0x00, 0xFE] v wipe ndef wr base := by
  exact format_gen _ _ v wipe ndef wr base
theorem ntag213_format_bridge (v : Int) (wipe : Option Int) (ndef : Option Bytes) (wr : Wr) (base : Int → Option Int → Py Bool) :
    Gen.Fn.nxp_ntag213_format v wipe ndef wr base = formatNxp [0x01, 0x03, 0xA0, 0x0C] [0x34, 0x03, 0x00, 0xFE] v wipe ndef wr base := by
  exact format_gen _ _ v wipe ndef wr base
theorem ntag215_format_bridge (v : Int) (wipe : Option Int) (ndef : Option Bytes) (wr : Wr) (base : Int → Option Int → Py Bool) :
    Gen.Fn.nxp_ntag215_format v wipe ndef wr base = formatNxp [0x03, 0x00, 0xFE, 0x00] [0, 0, 0, 0] v wipe ndef wr base := by
  exact format_gen _ _ v wipe ndef wr base
theorem ntag216_format_bridge (v : Int) (wipe : Option Int) (ndef : Option Bytes) (wr : Wr) (base : Int → Option Int → Py Bool) :
    Gen.Fn.nxp_ntag216_format v wipe ndef wr base = formatNxp [0x03, 0x00, 0xFE, 0x00] [0, 0, 0, 0] v wipe ndef wr base := by
  exact format_gen _ _ v wipe ndef wr base

/-- C01 for the regenerated `_format`: a tag that has NDEF management data is not touched before the generic format -/
theorem gen_format_some (v : Int) (wipe : Option Int) (n : Bytes) (wr : Wr) (base : Int → Option Int → Py Bool) :
    Gen.Fn.nxp_ntag213_format v wipe (some n) wr base = base v wipe := by
  rw [ntag213_format_bridge]; rfl

/-- the configuration page of every product (data sheets: first page behind user memory and dynamic lock bytes); the
four Ultralight EV1 classes have one since fix cb2a170 -/
theorem cfgpage_table (clf target : Int) :
    Gen.Fn.nxp_ntag210_cfgpage clf target = 16 ∧ Gen.Fn.nxp_ntag212_cfgpage clf target = 37
    ∧ Gen.Fn.nxp_ntag213_cfgpage clf target = 41 ∧ Gen.Fn.nxp_ntag215_cfgpage clf target = 131
    ∧ Gen.Fn.nxp_ntag216_cfgpage clf target = 227 ∧ Gen.Fn.nxp_mf0ul11_cfgpage clf target = 16
    ∧ Gen.Fn.nxp_mf0ulh11_cfgpage clf target = 16 ∧ Gen.Fn.nxp_mf0ul21_cfgpage clf target = 37
    ∧ Gen.Fn.nxp_mf0ulh21_cfgpage clf target = 37 := ⟨rfl, rfl, rfl, rfl, rfl, rfl, rfl, rfl, rfl⟩

/-- C03 for the regenerated constants: with the configuration page of any product, the pages the password protection
writes (`ntagCfgWrites`) start at 16 or above - behind the capability container and the first user pages 4..15 -/
theorem gen_ntag_cfg_writes_beyond (clf target : Int) (c : Bytes) :
    ∀ p ∈ [Gen.Fn.nxp_ntag210_cfgpage clf target, Gen.Fn.nxp_ntag212_cfgpage clf target, Gen.Fn.nxp_ntag213_cfgpage clf target,
           Gen.Fn.nxp_ntag215_cfgpage clf target, Gen.Fn.nxp_ntag216_cfgpage clf target, Gen.Fn.nxp_mf0ul11_cfgpage clf target,
           Gen.Fn.nxp_mf0ulh11_cfgpage clf target, Gen.Fn.nxp_mf0ul21_cfgpage clf target, Gen.Fn.nxp_mf0ulh21_cfgpage clf target],
      ∀ w ∈ ntagCfgWrites p c, 16 ≤ w.1 ∧ p ≤ w.1 ∧ w.1 ≤ p + 3 := by
  intro p hp w hw
  have hw' := ntagCfgWrites_pages p c w hw
  have h16 : 16 ≤ p := by
    simp only [List.mem_cons, List.not_mem_nil, or_false] at hp
    rcases hp with h | h | h | h | h | h | h | h | h <;> subst h <;>
      simp [Gen.Fn.nxp_ntag210_cfgpage, Gen.Fn.nxp_ntag212_cfgpage, Gen.Fn.nxp_ntag213_cfgpage, Gen.Fn.nxp_ntag215_cfgpage,
        Gen.Fn.nxp_ntag216_cfgpage, Gen.Fn.nxp_mf0ul11_cfgpage, Gen.Fn.nxp_mf0ulh11_cfgpage, Gen.Fn.nxp_mf0ul21_cfgpage,
        Gen.Fn.nxp_mf0ulh21_cfgpage]
  omega

theorem i2c_cfg0_page_bridge (stop : Nat) : Gen.Fn.nxp_i2c_cfg0_page stop = (((stop &&& 256) ||| 232 : Nat) : Int) := rfl
theorem i2c_cfg1_page_bridge (stop : Nat) : Gen.Fn.nxp_i2c_cfg1_page stop = (((stop &&& 256) ||| 233 : Nat) : Int) := rfl
theorem nt3h1101_dump_bridge (dump : Int → Py Int) : Gen.Fn.nxp_nt3h1101_dump dump = dump 226 := rfl
theorem nt3h1201_dump_bridge (dump : Int → Py Int) : Gen.Fn.nxp_nt3h1201_dump dump = dump 480 := rfl
example : Gen.Fn.nxp_i2c_cfg0_page 226 = 232 ∧ Gen.Fn.nxp_i2c_cfg0_page 480 = 488 ∧ Gen.Fn.nxp_i2c_cfg1_page 480 = 489 := by decide

theorem activate_ulc_bridge (clf target : Int) (rsp : Bytes) (mk : Int → Int → Int) :
    Gen.Fn.nxp_activate_ulc clf target rsp mk = (if List.isPrefixOf [0xAF] rsp = true then some (mk clf target) else none) := rfl

theorem activate_gone_bridge (target : Int) (sense : Int → Py (Option Int)) :
    Gen.Fn.nxp_activate_gone target sense = (sense target >>= fun t => .ok (decide (t = none))) := by
  unfold Gen.Fn.nxp_activate_gone
  cases sense target with
  | error e => rfl
  | ok t => cases t <;> rfl

/-- the NAK answer to GET_VERSION is exactly the one octet 00 -/
theorem activate_nak_bridge (rsp : Bytes) : Gen.Fn.nxp_activate_nak rsp = decide (rsp = [0]) := rfl

theorem activate_plain_bridge (clf target : Int) (mk : Int → Int → Int) : Gen.Fn.nxp_activate_plain clf target mk = mk clf target := rfl


end NfcVerif.FnBridge.Nxp
