import NfcVerif.Props.ExcFlow
/-!
# Exception flow, instance theorems: C08 / C16: activation and `tag.ndef` turn command errors into `None`

Re-checked on the regenerated `Gen/ExcFlow.lean` (see `Props/ExcFlow.lean` for what `Only` / `Can` mean).
-/
namespace NfcVerif.ExcFlowProps
open NfcVerif.ExcFlow NfcVerif.Gen.ClassTree NfcVerif.Gen.ExcFlow

/-! ## C08 / C16: activation and `tag.ndef` turn command errors into `None` -/

/-- every `Only` statement of this section, checked with one evaluation of the summary table -/
def ndefOnly : List (Site × List Cls) := [
  (Site.fn_tag_activate, []),
  (Site.fn_tt1_ndef_read, [Cls.ValueError, Cls.RuntimeError, Cls.AssertionError]),
  (Site.fn_tt2_ndef_read, [Cls.RuntimeError]),
  (Site.fn_tt3_ndef_read, [Cls.ValueError]),
  (Site.fn_tt4_ndef_read, [Cls.ValueError]),
  (Site.fn_tag_ndef, [Cls.ValueError, Cls.RuntimeError, Cls.AssertionError]),
  (Site.fn_tag_NDEF_has_changed, [Cls.ValueError, Cls.RuntimeError, Cls.AssertionError])]
def ndefCan : List (Site × Cls) := [
  (Site.fn_tt4_activate, Cls.clf_TimeoutError),
  (Site.fn_tt2_read_tlv, Cls.tag_tt2_Type2TagCommandError),
  (Site.fn_tt4_ndef_read_binary, Cls.tag_tt4_Type4TagCommandError),
  (Site.fn_tt3_read_from_ndef_service, Cls.tag_tt3_Type3TagCommandError),
  (Site.fn_tt1_mem_getitem, Cls.tag_tt1_Type1TagCommandError)]
/-- both lists, checked with one evaluation of the summary table -/
theorem ndefAll_ok : checkAll world table prog ndefOnly [] ndefCan = true := by decide +kernel
theorem ndefOnly_ok : checkOnly world table prog ndefOnly = true := (checkAll_split ndefAll_ok).1
theorem ndefCan_ok : checkCan world table prog ndefCan = true := (checkAll_split ndefAll_ok).2.2


/-- `nfc.tag.activate`: nothing escapes - the `CommunicationError` of the activation commands (RATS,
ATTRIB, GET_VERSION, authenticate probe) ends as `None` -/
theorem tag_activate_escapes : Only Site.fn_tag_activate [] :=
  escapesOnly_of_checkOnly tree_ordered ndefOnly_ok (by decide)
/-- non-vacuity: the Type 4A constructor does raise (RATS), `nfc.tag.activate` catches it -/
theorem tt4_activate_raises : Can Site.fn_tt4_activate Cls.clf_TimeoutError :=
  canEscape_of_checkCan tree_ordered ndefCan_ok (by decide)

/-- `_read_ndef_data` of the four tag types: no `TagCommandError`, no `CommunicationError`; what remains
are argument checks of the command layer (`ValueError`), the `assert isinstance` of the Type 1 memory reader
and the `RuntimeError` of `transceive` (open finding) -/
theorem ndef_read_escapes : Only Site.fn_tt1_ndef_read [Cls.ValueError, Cls.RuntimeError, Cls.AssertionError] ∧
    Only Site.fn_tt2_ndef_read [Cls.RuntimeError] ∧ Only Site.fn_tt3_ndef_read [Cls.ValueError] ∧
    Only Site.fn_tt4_ndef_read [Cls.ValueError] :=
  ⟨escapesOnly_of_checkOnly tree_ordered ndefOnly_ok (by decide),
   escapesOnly_of_checkOnly tree_ordered ndefOnly_ok (by decide),
   escapesOnly_of_checkOnly tree_ordered ndefOnly_ok (by decide),
   escapesOnly_of_checkOnly tree_ordered ndefOnly_ok (by decide)⟩
/-- non-vacuity: the commands underneath do fail with `TagCommandError` -/
theorem ndef_read_inner_raises : Can Site.fn_tt2_read_tlv Cls.tag_tt2_Type2TagCommandError ∧
    Can Site.fn_tt4_ndef_read_binary Cls.tag_tt4_Type4TagCommandError ∧
    Can Site.fn_tt3_read_from_ndef_service Cls.tag_tt3_Type3TagCommandError ∧
    Can Site.fn_tt1_mem_getitem Cls.tag_tt1_Type1TagCommandError :=
  ⟨canEscape_of_checkCan tree_ordered ndefCan_ok (by decide),
   canEscape_of_checkCan tree_ordered ndefCan_ok (by decide),
   canEscape_of_checkCan tree_ordered ndefCan_ok (by decide),
   canEscape_of_checkCan tree_ordered ndefCan_ok (by decide)⟩

/-- `Tag.ndef` and `NDEF.has_changed` (dispatching to any of the four types) -/
theorem tag_ndef_escapes : Only Site.fn_tag_ndef [Cls.ValueError, Cls.RuntimeError, Cls.AssertionError] ∧
    Only Site.fn_tag_NDEF_has_changed [Cls.ValueError, Cls.RuntimeError, Cls.AssertionError] :=
  ⟨escapesOnly_of_checkOnly tree_ordered ndefOnly_ok (by decide),
   escapesOnly_of_checkOnly tree_ordered ndefOnly_ok (by decide)⟩

end NfcVerif.ExcFlowProps
