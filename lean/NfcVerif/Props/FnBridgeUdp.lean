import NfcVerif.Gen.FnUdp
import NfcVerif.Model.FnUdpRef
import NfcVerif.Lemmas.ErrMap
import NfcVerif.Lemmas.FnBridgePn53xCommon
import NfcVerif.Lemmas.FnBridgeTagCmdPrelude
import NfcVerif.Props.FnBridgePn53xRf
/-!
# Bridge theorems, group Udp (`nfc/clf/udp.py` -> `Gen/FnUdp.lean` -> `Model/FnUdpRef.lean`, `Model/ErrMap.lean`)

Properties C13 (what a datagram / a `sendto` result becomes: `datagram_bridge`, `datagram_model` = `udpParse` of the
C13 model, `rfoff_always_broken_link`, `datagram_never_value`, `exchange_model` = `udpExchange`, `exchange_documented`),
C18 / C19 (what `sense_*` / `listen_*` of the UDP driver send and accept).  Every regenerated definition is a pure
slice of a driver method between two socket calls (or the method with the socket calls as function parameters);
`Gen/FnUdp.lean` is regenerated from the source on every run.
-/
namespace NfcVerif.FnBridge.Udp
open NfcVerif NfcVerif.PyFn NfcVerif.FnUdpRef NfcVerif.ErrMap NfcVerif.HostFrame NfcVerif.FnBridge.HostLink

theorem getB0 (a : Nat) (l : Bytes) : getB (a :: l) ((0 : Nat) : Int) = .ok (a : Int) := getB_zero a l
theorem getB1 (a b : Nat) (l : Bytes) : getB (a :: b :: l) ((1 : Nat) : Int) = .ok (b : Int) := by
  rw [getB_succ a (b :: l) 0]; exact getB_zero b l


/-! ## `_recv_data` / `_send_data` -/
theorem datagram_bridge (dg : Bytes) (rcvd : Int) (dec : String → Py String) (split : Py (Bytes × Bytes))
    (unhex : Bytes → Py Bytes) :
    Gen.Fn.udp_datagram dg rcvd dec split unhex = datagramG dg rcvd split (dec "ascii") unhex := by
  unfold Gen.Fn.udp_datagram datagramG startsWith rfoff wrapExc
  by_cases h : List.isPrefixOf [82, 70, 79, 70, 70] dg = true
  · simp only [h, if_true]
  · simp only [h]
    cases split with
    | error e => cases e <;> rfl
    | ok bh =>
      obtain ⟨b, hx⟩ := bh
      simp only [Py.bind_ok]
      cases dec "ascii" with
      | error e => cases e <;> rfl
      | ok s =>
        simp only [Py.bind_ok]
        cases unhex hx with
        | error e => cases e <;> rfl
        | ok d => rfl

theorem rfoff_always_broken_link (t : Bytes) (rcvd : Int) (dec : String → Py String) (split : Py (Bytes × Bytes))
    (unhex : Bytes → Py Bytes) :
    Gen.Fn.udp_datagram (rfoff ++ t) rcvd dec split unhex = .error .brokenLink := by
  rw [datagram_bridge]; unfold datagramG startsWith rfoff; simp

/-- with the library calls of the model (`splitWs`, ASCII test, `unhex` of Model/ErrMap.lean) the regenerated datagram
evaluation is `udpParse` of the C13 model (repaired variant), asked for the datagram's own type token -/
theorem datagram_model (dg : Bytes) (rcvd : Int) :
    datagramG dg rcvd (split2 dg) (decTok dg) unhexPy =
      (udpParse .repaired (tokOf dg) dg >>= fun o =>
        .ok (strOf (tokOf dg), o.getD [], rcvd + ((o.getD []).length : Int))) := by
  unfold datagramG udpParse split2 decTok tokOf unhexPy
  by_cases h : startsWith dg rfoff = true
  · simp only [h, if_true]; rfl
  · simp only [h]
    rcases hs : splitWs dg with _ | ⟨b, _ | ⟨hex, _ | ⟨c, r⟩⟩⟩
    · rfl
    · rfl
    · simp only [Py.bind_ok, List.headD_cons]
      by_cases ha : (b.any fun x => decide (x ≥ 128)) = true
      · simp only [ha, if_true]; rfl
      · simp only [ha]
        cases hu : unhex hex with
        | none => rfl
        | some d => simp [Option.getD]
    · rfl

theorem send_io_bridge (d : Bytes) (addr sent : Int) (sendto : Bytes → Int → Py Int) :
    Gen.Fn.udp_send_io d addr sent sendto = sendIo d sent (sendto d addr) := by
  unfold Gen.Fn.udp_send_io sendIo
  cases sendto d addr with
  | error e => rfl
  | ok r =>
    simp only [Py.bind_ok, len_eq]
    by_cases h : r = (d.length : Int) <;> simp [h]

theorem send_io_wr (d : Bytes) (sent : Int) (w : Wr) :
    (sendIo d sent (wrOut d w) >>= fun _ => .ok 0) = sendOut w := by
  cases w <;> simp [sendIo, wrOut, sendOut]
  have h : ¬ ((d.length : Int) - 1 = (d.length : Int)) := by omega
  simp [h]

theorem bind_error_bridge (n : Nat) : Gen.Fn.udp_bind_error (n : Int) = bindError n := by
  unfold Gen.Fn.udp_bind_error bindError
  by_cases h : n = 98
  · subst h; rfl
  · have : ¬ ((n : Int) = 98) := by omega
    simp [h, this]

theorem mute_rfoff_bridge (p l r : Int) : Gen.Fn.udp_mute_rfoff p l r = muteSendsRfoff p l r := rfl

theorem deadline_bridge (t : Option Int) (now : Int) : Gen.Fn.udp_deadline t now = deadline t now := by
  cases t <;> rfl
theorem wait_bridge (t : Option Int) (ttr now : Int) : Gen.Fn.udp_wait t ttr now = selectWait t ttr now := by
  cases t <;> rfl
theorem ready_bridge (l : Bytes) : Gen.Fn.udp_ready l = decide (l.length = 1) := by
  unfold Gen.Fn.udp_ready; simp only [len_eq, lit_cast]; congr 1; simp; omega

theorem send_cmd_recv_rsp_bridge (tg : Int) (data : Option Bytes) (timeout brty addr : Int)
    (recv : Int → Int → Py (Int × Bytes × Int)) (send : Int → Bytes → Int → Py Int) :
    Gen.Fn.udp_send_cmd_recv_rsp tg data timeout brty addr recv send =
      exchangeG data (decide (timeout > 0)) (fun d => send brty d addr) (recv timeout brty) := by
  unfold Gen.Fn.udp_send_cmd_recv_rsp exchangeG
  cases data with
  | none =>
    simp only [Py.bind_ok]
    by_cases h : timeout > 0 <;> simp [h]
  | some d =>
    simp only []
    cases send brty d addr with
    | error e => rfl
    | ok r =>
      simp only [Py.bind_ok]
      by_cases h : timeout > 0 <;> simp [h]

theorem send_rsp_recv_cmd_bridge (tg : Int) (data : Option Bytes) (timeout : Option Int) (brty addr : Int)
    (recv : Option Int → Int → Py (Int × Bytes × Int)) (send : Int → Bytes → Int → Py Int) :
    Gen.Fn.udp_send_rsp_recv_cmd tg data timeout brty addr recv send =
      exchangeG data (match timeout with | none => true | some t => decide (t > 0)) (fun d => send brty d addr)
        (recv timeout brty) := by
  unfold Gen.Fn.udp_send_rsp_recv_cmd exchangeG
  cases data with
  | none =>
    simp only [Py.bind_ok]
    cases timeout with
    | none => simp
    | some t => by_cases h : t > 0 <;> simp [h]
  | some d =>
    simp only []
    cases send brty d addr with
    | error e => rfl
    | ok r =>
      simp only [Py.bind_ok]
      cases timeout with
      | none => simp
      | some t => by_cases h : t > 0 <;> simp [h]

/-- the regenerated exchange functions on the host behaviours of the C13 model are `udpExchange` -/
theorem exchange_model (v : Variant) (brty : Bytes) (hasData : Bool) (d : Bytes) (s r : Host) (tg b a t : Int) (ht : t > 0) :
    Gen.Fn.udp_send_cmd_recv_rsp tg (if hasData then some d else none) t b a
        (fun _ _ => udpRecv v brty r.reads >>= fun p => .ok (b, p, a)) (fun _ _ _ => sendOut s.wr) =
      (udpExchange v brty hasData s r >>= fun p => .ok (some p)) := by
  rw [send_cmd_recv_rsp_bridge]
  unfold exchangeG udpExchange sendOut
  cases hasData with
  | false => simp [ht]
  | true =>
    cases hw : s.wr with
    | ok => simp [ht]
    | raise e => simp
    | short => simp

theorem max_send_bridge (t : Int) : Gen.Fn.udp_max_send t = maxData := rfl
theorem max_recv_bridge (t : Int) : Gen.Fn.udp_max_recv t = maxData := rfl

/-! ## sense -/
theorem tta_brty_bridge (b : String) : Gen.Fn.udp_tta_brty b = brtyOk ["106A", "212A", "424A"] b := by
  unfold Gen.Fn.udp_tta_brty brtyOk
  by_cases h : b = "106A" ∨ b = "212A" ∨ b = "424A" <;> simp [h]
theorem ttb_brty_bridge (b : String) : Gen.Fn.udp_ttb_brty b = brtyOk ["106B", "212B", "424B"] b := by
  unfold Gen.Fn.udp_ttb_brty brtyOk
  by_cases h : b = "106B" ∨ b = "212B" ∨ b = "424B" <;> simp [h]
theorem ttf_brty_bridge (b : String) : Gen.Fn.udp_ttf_brty b = brtyOk ["212F", "424F"] b := by
  unfold Gen.Fn.udp_ttf_brty brtyOk
  by_cases h : b = "212F" ∨ b = "424F" <;> simp [h]

theorem tta_sens_req_bridge (o : Option Bytes) : Gen.Fn.udp_tta_sens_req o = reqOr sensReqDefault o := by
  unfold Gen.Fn.udp_tta_sens_req reqOr sensReqDefault
  cases o with
  | none => rfl
  | some s => cases s <;> simp
theorem ttb_req_bridge (o : Option Bytes) : Gen.Fn.udp_ttb_req o = reqOr sensbReqDefault o := by
  unfold Gen.Fn.udp_ttb_req reqOr sensbReqDefault
  cases o with
  | none => rfl
  | some s => cases s <;> simp

theorem tta_is_tt1_bridge (s : Bytes) : Gen.Fn.udp_tta_is_tt1 s = isTt1 s := by
  unfold Gen.Fn.udp_tta_is_tt1 isTt1
  simp only [lit_cast, getB_idxN]
  cases idxN s 0 <;> simp only [Py.bind_ok, Py.bind_error, band_ofNat, Int.natCast_inj, and31]
theorem tta_has_rid_bridge (s : Bytes) : Gen.Fn.udp_tta_has_rid s = hasRid s := by
  unfold Gen.Fn.udp_tta_has_rid hasRid
  simp only [lit_cast, getB_idxN]
  cases idxN s 1 <;> simp only [Py.bind_ok, Py.bind_error, band_ofNat, Int.natCast_inj, and15]

theorem tta_rid_cmd_bridge : Gen.Fn.udp_tta_rid_cmd = FnPn53xRfRef.ridCmd := rfl

theorem tta_uid_bridge (u : Bytes) : Gen.Fn.udp_tta_uid u = FnPn53xRfRef.ttaUid u := by
  unfold Gen.Fn.udp_tta_uid; exact Pn53xRf.tta_uid_aux u

theorem tta_sel_req_bridge (i cmd : Nat) (uid : Bytes) (bcc : Nat) :
    Gen.Fn.udp_tta_sel_req i cmd uid bcc = selReq i cmd uid bcc := by
  unfold Gen.Fn.udp_tta_sel_req selReq
  simp only [lit_cast, mkBytes_cons, mkBytes_nil, ← Int.natCast_add, slice_ofNat]
  by_cases h1 : cmd < 256 <;> by_cases h2 : bcc < 256 <;> simp [h1, h2]

theorem tta_sdd_req_bridge (cmd : Nat) : Gen.Fn.udp_tta_sdd_req cmd = sddReq cmd := by
  unfold Gen.Fn.udp_tta_sdd_req sddReq
  simp only [lit_cast, mkBytes_cons, mkBytes_nil]
  by_cases h1 : cmd < 256 <;> simp [h1]
theorem tta_sel_req2_bridge (cmd : Nat) (sdd : Bytes) : Gen.Fn.udp_tta_sel_req2 cmd sdd = selReqEcho cmd sdd := by
  unfold Gen.Fn.udp_tta_sel_req2 selReqEcho
  simp only [lit_cast, mkBytes_cons, mkBytes_nil]
  by_cases h1 : cmd < 256 <;> simp [h1]

theorem and4_zero (b : Nat) : b &&& 4 = 0 ↔ b / 4 % 2 = 0 := TagCmd.and_bit b 2

theorem tta_cascade_bridge (s : Bytes) : Gen.Fn.udp_tta_cascade s = cascadeBit s := by
  unfold Gen.Fn.udp_tta_cascade cascadeBit
  simp only [lit_cast, getB_idxN]
  cases idxN s 0 with
  | error e => rfl
  | ok b =>
    simp only [Py.bind_ok, band_ofNat, Int.natCast_inj, ne_eq, and4_zero]
    congr 1; apply decide_eq_decide.mpr; omega
theorem tta_complete_bridge (s : Bytes) : Gen.Fn.udp_tta_complete s = uidComplete s := by
  unfold Gen.Fn.udp_tta_complete uidComplete
  simp only [lit_cast, getB_idxN]
  cases idxN s 0 <;> simp only [Py.bind_ok, Py.bind_error, band_ofNat, Int.natCast_inj, and4_zero]
theorem tta_uid_part_bridge (u s : Bytes) : Gen.Fn.udp_tta_uid_part u s = uidPart u s := by
  unfold Gen.Fn.udp_tta_uid_part uidPart
  simp only [lit_cast, slice_ofNat, sliceN]
theorem tta_uid_last_bridge (u s : Bytes) : Gen.Fn.udp_tta_uid_last u s = uidLast u s := by
  unfold Gen.Fn.udp_tta_uid_last uidLast
  simp only [lit_cast, slice_ofNat, sliceN]; simp

theorem ttb_res_ok_bridge (r : Bytes) : Gen.Fn.udp_ttb_res_ok r = .ok (sensbResOk r) := by
  unfold Gen.Fn.udp_ttb_res_ok sensbResOk
  cases r with
  | nil => simp [len_eq]
  | cons a l =>
    simp only [lit_cast, len_eq, ge_iff_le, Int.ofNat_le, getB0, Py.bind_ok, List.head?_cons, Int.natCast_inj, Option.some.injEq]
    by_cases h : 11 ≤ l.length <;> by_cases h2 : a = 80 <;> simp [h, h2]

theorem ttf_req_bridge (r : Bytes) : Gen.Fn.udp_ttf_req r = sensfReqFrame r := by
  unfold Gen.Fn.udp_ttf_req sensfReqFrame FnPn53xRfRef.defaultSensfReq
  by_cases h : r = []
  · subst h; rfl
  · simp only [ne_eq, h, not_false_eq_true, not_true_eq_false, if_false, len_eq, lit_cast, ← Int.natCast_add, mkBytes_cons, mkBytes_nil]
    by_cases h2 : r.length + 1 < 256 <;> simp [h2]

theorem ttf_res_ok_bridge (d : Bytes) : Gen.Fn.udp_ttf_res_ok d = .ok (sensfResOk d) := by
  unfold Gen.Fn.udp_ttf_res_ok sensfResOk
  rcases d with _ | ⟨a, _ | ⟨b, l⟩⟩
  · simp [len_eq]
  · simp [len_eq]
  · simp only [lit_cast, len_eq, ge_iff_le, Int.ofNat_le, getB0, getB1, Py.bind_ok, Int.natCast_inj]
    by_cases h : 16 ≤ l.length <;> by_cases h1 : a = l.length + 1 + 1 <;> by_cases h2 : b = 1 <;> simp [h, h1, h2]

theorem ttf_res_bridge (d : Bytes) : Gen.Fn.udp_ttf_res d = FnPn53xRfRef.ttfRes d := by
  unfold Gen.Fn.udp_ttf_res FnPn53xRfRef.ttfRes
  simp only [lit_cast, sliceFrom_ofNat]

/-! ## property facts (C13) -/

/-- A datagram that is not `<brty> <hex>` ends as TransmissionError (or BrokenLinkError for RFOFF), never as
ValueError: whatever the three library calls do, as long as they fail with ValueError only (`bytes.split` unpacking,
`UnicodeDecodeError`, `binascii.Error` are ValueErrors). -/
theorem datagram_never_value (dg : Bytes) (rcvd : Int) (split : Py (Bytes × Bytes)) (dec : Py String)
    (unhex : Bytes → Py Bytes) (hs : Safe (· = .value) split) (hd : Safe (· = .value) dec)
    (hu : ∀ h, Safe (· = .value) (unhex h)) :
    Safe (fun e => e = .brokenLink ∨ e = .transmission) (datagramG dg rcvd split dec unhex) := by
  intro e he
  unfold datagramG at he
  by_cases h : startsWith dg rfoff = true
  · simp only [h, if_true] at he; cases he; exact Or.inl rfl
  · simp only [h] at he
    cases hsp : split with
    | error e1 =>
      have := hs e1 hsp; subst this
      rw [hsp] at he; simp at he; exact Or.inr he.symm
    | ok bh =>
      rw [hsp] at he; simp only [Py.bind_ok] at he
      cases hdc : dec with
      | error e1 =>
        have := hd e1 hdc; subst this
        rw [hdc] at he; simp at he; exact Or.inr he.symm
      | ok s =>
        rw [hdc] at he; simp only [Py.bind_ok] at he
        cases hux : unhex bh.2 with
        | error e1 =>
          have := hu _ e1 hux; subst this
          rw [hux] at he; simp at he; exact Or.inr he.symm
        | ok d => rw [hux] at he; simp at he

theorem datagram_documented (dg : Bytes) (rcvd : Int) :
    Safe Documented (Gen.Fn.udp_datagram dg rcvd (fun _ => decTok dg) (split2 dg) unhexPy) := by
  intro e he
  rw [datagram_bridge] at he
  have hv : Safe (fun e => e = .brokenLink ∨ e = .transmission) (datagramG dg rcvd (split2 dg) (decTok dg) unhexPy) := by
    apply datagram_never_value
    · intro e h; unfold split2 at h; split at h <;> cases h; rfl
    · intro e h; unfold decTok at h; split at h <;> cases h; rfl
    · intro x e h; unfold unhexPy at h; split at h <;> cases h; rfl
  rcases hv e he with rfl | rfl
  · exact doc_brokenLink
  · exact doc_transmission

/-- only what `_send_data` / `_recv_data` raise leaves the exchange functions -/
theorem exchange_safe {α} (S : Exc → Prop) (data : Option Bytes) (w : Bool) (send : Bytes → Py Int) (recv : Py (α × Bytes × α))
    (hs : ∀ d, Safe S (send d)) (hr : Safe S recv) : Safe S (exchangeG data w send recv) := by
  intro e he
  unfold exchangeG at he
  cases data with
  | none =>
    simp only [Py.bind_ok] at he
    cases w with
    | false => simp at he
    | true =>
      simp only [if_true] at he
      cases hrc : recv with
      | error e1 => rw [hrc] at he; cases he; exact hr _ hrc
      | ok r => rw [hrc] at he; cases he
  | some d =>
    simp only [] at he
    cases hsd : send d with
    | error e1 => rw [hsd] at he; cases he; exact hs d _ hsd
    | ok r =>
      rw [hsd] at he; simp only [Py.bind_ok] at he
      cases w with
      | false => simp at he
      | true =>
        simp only [if_true] at he
        cases hrc : recv with
        | error e1 => rw [hrc] at he; cases he; exact hr _ hrc
        | ok r => rw [hrc] at he; cases he

/-- `sendto` raising OSError only: `_send_data` behind the formatting raises IOError or TransmissionError -/
theorem send_io_documented (d : Bytes) (sent : Int) (ret : Py Int) (h : Safe (fun e => ∃ n, e = .io n) ret) :
    Safe Documented (sendIo d sent ret) := by
  intro e he
  unfold sendIo at he
  cases hr : ret with
  | error e1 =>
    rw [hr] at he; cases he
    obtain ⟨n, rfl⟩ := h _ hr; exact doc_io n
  | ok r =>
    rw [hr] at he; simp only [Py.bind_ok] at he
    split at he <;> cases he
    exact doc_transmission

/-! ## listen -/
theorem lta_sel0_bridge (t : Bytes) : Gen.Fn.udp_lta_sel0 t = selRes0 t := by
  unfold Gen.Fn.udp_lta_sel0 selRes0
  simp only [lit_cast, getB_idxN]
  cases idxN t 0 with
  | error e => rfl
  | ok b =>
    simp only [Py.bind_ok, band_ofNat, mkBytes_cons, mkBytes_nil]
    have h : b &&& 251 < 256 := Nat.lt_of_le_of_lt Nat.and_le_right (by decide)
    simp [h]

theorem lta_sel_aux (s sdd : Bytes) (n : Nat) :
    (getB s ((0 : Nat) : Int) >>= fun t1 =>
      (Except.ok (PyFn.bor (PyFn.band t1 ((251 : Nat) : Int))
        (PyFn.shl (if (decide (PyFn.len sdd > ((n : Nat) : Int))) = true then 1 else 0) ((2 : Nat) : Int))) : Py Int)) =
    (selResFor s sdd n >>= fun v => .ok (v : Int)) := by
  unfold selResFor
  simp only [getB_idxN]
  cases idxN s 0 with
  | error e => rfl
  | ok b =>
    simp only [Py.bind_ok, band_ofNat, len_eq, gt_iff_lt, Int.ofNat_lt, decide_eq_true_eq]
    by_cases h : n < sdd.length
    · simp only [h, if_true]; exact congrArg _ (bor_ofNat (b &&& 251) 4)
    · simp only [h, if_false]; exact congrArg _ (bor_ofNat (b &&& 251) 0)

theorem lta_sel1_bridge (s sdd : Bytes) : Gen.Fn.udp_lta_sel1 s sdd = (selResFor s sdd 5 >>= fun v => .ok (v : Int)) := by
  unfold Gen.Fn.udp_lta_sel1; simp only [lit_cast]; exact lta_sel_aux s sdd 5
theorem lta_sel2_bridge (s sdd : Bytes) : Gen.Fn.udp_lta_sel2 s sdd = (selResFor s sdd 10 >>= fun v => .ok (v : Int)) := by
  unfold Gen.Fn.udp_lta_sel2; simp only [lit_cast]; exact lta_sel_aux s sdd 10
theorem lta_sel3_bridge (s sdd : Bytes) : Gen.Fn.udp_lta_sel3 s sdd = (selResFor s sdd 15 >>= fun v => .ok (v : Int)) := by
  unfold Gen.Fn.udp_lta_sel3; simp only [lit_cast]; exact lta_sel_aux s sdd 15

/-- the request tests of `_listen_tta`: SENS_REQ, SDD_REQ of the three cascade levels, SEL_REQ echoing our SDD_RES -/
theorem lta_requests_bridge (d sdd : Bytes) :
    Gen.Fn.udp_lta_is_sens d = decide (d = [0x26]) ∧ Gen.Fn.udp_lta_is_sdd1 d = decide (d = [0x93, 0x20]) ∧
    Gen.Fn.udp_lta_is_sdd2 d sdd = decide (d = [0x95, 0x20] ∧ 5 < sdd.length) ∧
    Gen.Fn.udp_lta_is_sdd3 d sdd = decide (d = [0x97, 0x20] ∧ 10 < sdd.length) ∧
    Gen.Fn.udp_lta_is_sel1 d sdd = decide (d = 0x93 :: 0x70 :: sdd.take 5) ∧
    Gen.Fn.udp_lta_is_sel2 d sdd = decide (d = 0x95 :: 0x70 :: (sdd.drop 5).take 5) ∧
    Gen.Fn.udp_ldep_is_sens d = decide (d = [0x26]) := by
  refine ⟨rfl, rfl, ?_, ?_, ?_, ?_, rfl⟩
  · unfold Gen.Fn.udp_lta_is_sdd2; simp only [lit_cast, len_eq, gt_iff_lt, Int.ofNat_lt]
  · unfold Gen.Fn.udp_lta_is_sdd3; simp only [lit_cast, len_eq, gt_iff_lt, Int.ofNat_lt]
  · unfold Gen.Fn.udp_lta_is_sel1; simp only [lit_cast, slice_ofNat, sliceN]; simp
  · unfold Gen.Fn.udp_lta_is_sel2; simp only [lit_cast, slice_ofNat, sliceN]; simp

/-- AS FOUND: the SEL_REQ test of cascade level 3 compares with `95 70 ..` (the level 2 code) instead of `97 70 ..` -/
theorem lta_is_sel3_asfound (d sdd : Bytes) :
    Gen.Fn.udp_lta_is_sel3 d sdd = decide (d = 0x95 :: 0x70 :: (sdd.drop 10).take 5) := by
  unfold Gen.Fn.udp_lta_is_sel3; simp only [lit_cast, slice_ofNat, sliceN]; simp

theorem lta_selected_bridge (s : Bytes) : Gen.Fn.udp_lta_selected s = uidComplete s := by
  unfold Gen.Fn.udp_lta_selected uidComplete
  simp only [lit_cast, getB_idxN]
  cases idxN s 0 <;> simp only [Py.bind_ok, Py.bind_error, band_ofNat, Int.natCast_inj, and4_zero]

theorem lta_is_rats_bridge (d : Bytes) : Gen.Fn.udp_lta_is_rats d = firstIs d 0xE0 := by
  unfold Gen.Fn.udp_lta_is_rats firstIs
  cases d with
  | nil => rfl
  | cons a l => simp only [lit_cast, getB0, Py.bind_ok, Int.natCast_inj]

theorem ltb_check_bridge (r : Bytes) : Gen.Fn.udp_ltb_check r = ltbCheck r := by
  unfold Gen.Fn.udp_ltb_check ltbCheck
  simp only [lit_cast, len_eq, ge_iff_le, Int.ofNat_le]
  by_cases h : 12 ≤ r.length
  · have : r ≠ [] := by intro e; subst e; simp at h
    simp [h, this]
  · simp [h]

theorem ltb_is_req_bridge (d : Bytes) : Gen.Fn.udp_ltb_is_req d = isSensbReq d := by
  unfold Gen.Fn.udp_ltb_is_req isSensbReq
  rcases d with _ | ⟨a, _ | ⟨b, _ | ⟨c, _ | ⟨e, r⟩⟩⟩⟩ <;> simp [len_eq]
  · exact eq_comm
  · intro h; omega

theorem listen_fail_bridge : Gen.Fn.udp_ltb_recv_fail = none ∧ Gen.Fn.udp_ldep_recv_fail = none ∧
    Gen.Fn.udp_ldep_unframe_fail = none := ⟨rfl, rfl, rfl⟩

theorem ltf_frame_ok_bridge (d : Bytes) : Gen.Fn.udp_ltf_frame_ok d = .ok (frameOk d) := by
  unfold Gen.Fn.udp_ltf_frame_ok frameOk
  cases d with
  | nil => simp
  | cons a l =>
    simp only [lit_cast, getB0, len_eq, Py.bind_ok, Int.natCast_inj, ne_eq, reduceCtorEq, not_false_eq_true, if_true, List.head?_cons, Option.some.injEq]
    by_cases h : (a :: l).length = a <;> simp [h] <;> omega

theorem ltf_tests_bridge (d res : Bytes) :
    Gen.Fn.udp_ltf_is_poll d = List.isPrefixOf [6, 0] d ∧ Gen.Fn.udp_ldep_is_poll d = List.isPrefixOf [6, 0] d ∧
    Gen.Fn.udp_ltf_tt3_for_us d res = forUs d res ∧ Gen.Fn.udp_ltf_atr_for_us d res = atrForUs d res ∧
    Gen.Fn.udp_ltf_cmd d = d.drop 1 := by
  refine ⟨Bool.decide_eq_true, Bool.decide_eq_true, ?_, ?_, ?_⟩
  · unfold Gen.Fn.udp_ltf_tt3_for_us forUs; simp only [lit_cast, slice_ofNat, sliceN]
  · unfold Gen.Fn.udp_ltf_atr_for_us atrForUs; simp only [lit_cast, slice_ofNat, sliceN]; simp
  · unfold Gen.Fn.udp_ltf_cmd; simp only [lit_cast, sliceFrom_ofNat]

theorem ltf_armed_bridge (a b : Option Bytes) : Gen.Fn.udp_ltf_armed a b = armed a b := by
  unfold Gen.Fn.udp_ltf_armed armed
  cases a <;> cases b <;> simp

/-! ## listen_dep -/
theorem ldep_checks_bridge (f s d l a : Bytes) : Gen.Fn.udp_ldep_checks f s d l a = ldepChecks f s d l a := by
  unfold Gen.Fn.udp_ldep_checks ldepChecks
  simp only [lit_cast, len_eq, Int.natCast_inj, ge_iff_le, Int.ofNat_le]
  by_cases h1 : f.length = 19 <;> by_cases h2 : s.length = 2 <;> by_cases h3 : d.length = 4 <;>
    by_cases h4 : l.length = 1 <;> by_cases h5 : 17 ≤ a.length <;> by_cases h6 : a.length ≤ 64 <;> simp [h1, h2, h3, h4, h5, h6]

theorem ldep_time_bridge (t now ttr : Int) :
    Gen.Fn.udp_ldep_deadline t now = ldepDeadline t now ∧ Gen.Fn.udp_ldep_more ttr now = ldepMore ttr now ∧
    Gen.Fn.udp_ldep_wait ttr now = ldepWait ttr now := ⟨rfl, rfl, rfl⟩

/-- the receive timeout is never negative and, while the deadline lies ahead, the time left -/
theorem gen_ldep_wait_range (ttr now : Int) :
    0 ≤ Gen.Fn.udp_ldep_wait ttr now ∧ (Gen.Fn.udp_ldep_more ttr now = true → Gen.Fn.udp_ldep_wait ttr now = ttr - now) := by
  rw [(ldep_time_bridge 0 now ttr).2.2, (ldep_time_bridge 0 now ttr).2.1]
  unfold ldepWait ldepMore
  constructor
  · split <;> omega
  · intro h; simp at h; split <;> omega

theorem ldep_frames_bridge (x : Bytes) :
    Gen.Fn.udp_ldep_atr_frame x = lenFrame x ∧ Gen.Fn.udp_ldep_psl_frame x = lenFrame x ∧
    Gen.Fn.udp_ldep_dsl_res x = lenFrame (resOf 9 x) ∧ Gen.Fn.udp_ldep_rls_res x = lenFrame (resOf 11 x) ∧
    Gen.Fn.udp_ldep_psl_res x = resOf 5 x := by
  have aux : ∀ y : Bytes, (PyFn.mkBytes [PyFn.len y + ((1 : Nat) : Int)] >>= fun t1 => (Except.ok (t1 ++ y) : Py Bytes)) = lenFrame y := by
    intro y
    unfold lenFrame
    simp only [len_eq, ← Int.natCast_add, mkBytes_cons, mkBytes_nil]
    by_cases h : y.length + 1 < 256 <;> simp [h]
  refine ⟨?_, ?_, ?_, ?_, ?_⟩
  · unfold Gen.Fn.udp_ldep_atr_frame; simp only [lit_cast]; exact aux x
  · unfold Gen.Fn.udp_ldep_psl_frame; simp only [lit_cast]; exact aux x
  · unfold Gen.Fn.udp_ldep_dsl_res resOf; simp only [lit_cast, slice_ofNat, sliceN]; exact aux _
  · unfold Gen.Fn.udp_ldep_rls_res resOf; simp only [lit_cast, slice_ofNat, sliceN]; exact aux _
  · unfold Gen.Fn.udp_ldep_psl_res resOf; simp only [lit_cast, slice_ofNat, sliceN]

theorem ldep_unframe_bridge (b : String) (d : Bytes) : Gen.Fn.udp_ldep_unframe b d = unframe (decide (b = "106A")) d := by
  unfold Gen.Fn.udp_ldep_unframe unframe
  by_cases hb : b = "106A"
  · simp only [hb, if_true, decide_true]
    rcases d with _ | ⟨x, _ | ⟨n, r⟩⟩
    · rfl
    · simp only [pop0, Py.bind_ok, lit_cast, Int.natCast_inj]
      by_cases hx : x = 240 <;> simp [hx]
    · simp only [pop0, Py.bind_ok, lit_cast, Int.natCast_inj, len_eq]
      by_cases hx : x = 240 <;> simp [hx]
      by_cases hn : r.length + 1 = n
      · have e : ((r.length : Int) + 1 = (n : Int)) := by omega
        simp [hn, e]
      · have e : ¬ ((r.length : Int) + 1 = (n : Int)) := by omega
        simp [hn, e]
  · simp only [hb, if_false, decide_false, Py.bind_ok]
    rcases d with _ | ⟨n, r⟩
    · rfl
    · simp only [pop0, Py.bind_ok, len_eq, Int.natCast_inj]
      by_cases hn : (n :: r).length = n <;> simp [hn] <;> omega

/-- a frame built by the peer's `lenFrame` (with `F0` at 106A) is unframed to its payload -/
theorem unframe_lenFrame (x : Bytes) (a : Bool) :
    unframe a ((if a then [0xF0] else []) ++ (x.length + 1) :: x) = .ok x := by
  cases a <;> simp [unframe]

theorem ldep_codes_bridge (d : Bytes) :
    Gen.Fn.udp_ldep_is_psl d = hasCode d 4 ∧ Gen.Fn.udp_ldep_is_dsl d = hasCode d 8 ∧ Gen.Fn.udp_ldep_is_rls d = hasCode d 10 ∧
    Gen.Fn.udp_ldep_is_dep d = hasCode d 6 ∧ Gen.Fn.udp_ldep_atr_req_a d = d.drop 2 ∧ Gen.Fn.udp_ldep_atr_req_f d = d.drop 1 ∧
    Gen.Fn.udp_lta_atr_req d = d.drop 2 ∧ Gen.Fn.udp_ldep_is_atr_f d = isAtrF d := by
  refine ⟨Bool.decide_eq_true, Bool.decide_eq_true, Bool.decide_eq_true, Bool.decide_eq_true, ?_, ?_, ?_, ?_⟩
  · unfold Gen.Fn.udp_ldep_atr_req_a; simp only [lit_cast, sliceFrom_ofNat]
  · unfold Gen.Fn.udp_ldep_atr_req_f; simp only [lit_cast, sliceFrom_ofNat]
  · unfold Gen.Fn.udp_lta_atr_req; simp only [lit_cast, sliceFrom_ofNat]
  · unfold Gen.Fn.udp_ldep_is_atr_f isAtrF; simp only [lit_cast, len_eq, ge_iff_le, Int.ofNat_le, slice_ofNat, sliceN]

theorem ldep_f0_bridge (b : String) : Gen.Fn.udp_ldep_f0 b = decide (b = "106A") := rfl

theorem ldep_psl_brty_bridge (r : Bytes) : Gen.Fn.udp_ldep_psl_brty r = (pslBrty r >>= fun v => .ok (v : Int)) := by
  unfold Gen.Fn.udp_ldep_psl_brty pslBrty
  simp only [lit_cast, getB_idxN]
  cases idxN r 3 with
  | error e => rfl
  | ok b =>
    simp only [Py.bind_ok, shr_ofNat, band_ofNat, and7, Nat.shiftRight_eq_div_pow]

/-- the bit rate index taken from PSL_REQ is an index into (106A, 212F, 424F, ..): below 8 -/
theorem gen_psl_brty_range (r : Bytes) (v : Int) (h : Gen.Fn.udp_ldep_psl_brty r = .ok v) : 0 ≤ v ∧ v < 8 := by
  rw [ldep_psl_brty_bridge] at h
  unfold pslBrty at h
  cases hi : idxN r 3 with
  | error e => rw [hi] at h; cases h
  | ok b => rw [hi] at h; simp only [Py.bind_ok] at h; cases h; omega

/-! ## non-vacuity -/
example : Gen.Fn.udp_datagram (rfoff ++ [32, 48, 48]) 7 (fun _ => .ok "106A") (.ok ([49], [48, 48])) (fun h => .ok h) = .error .brokenLink :=
  rfoff_always_broken_link _ _ _ _ _
example : udpParse .repaired [49, 48, 54, 65] [49, 48, 54, 65, 32, 122, 122] = .error .transmission := by decide
example : udpParse .repaired [49, 48, 54, 65] [49, 48, 54, 65, 32, 50, 54] = .ok (some [0x26]) := by decide
example : Gen.Fn.udp_send_io [1, 2, 3] 0 10 (fun _ _ => .ok 3) = .ok 13 := by decide
example : Gen.Fn.udp_send_io [1, 2, 3] 0 10 (fun _ _ => .ok 2) = .error .transmission := by decide
example : Gen.Fn.udp_send_cmd_recv_rsp 0 (some [1]) 1 0 0 (fun _ _ => .error .timeout) (fun _ _ _ => .ok 0) = .error .timeout := by decide
example : Gen.Fn.udp_send_cmd_recv_rsp 0 (some [1]) 0 0 0 (fun _ _ => .error .timeout) (fun _ _ _ => .ok 0) = .ok none := by decide
example : Gen.Fn.udp_ttf_req [0, 0x12, 0xFC, 1, 3] = .ok [6, 0, 0x12, 0xFC, 1, 3] := by decide
example : sensbResOk (0x50 :: List.replicate 11 0) = true := by decide
example : Gen.Fn.udp_tta_uid [1, 2, 3, 4, 5, 6, 7] = [0x88, 1, 2, 3, 4, 5, 6, 7] := by decide
example : Gen.Fn.udp_ldep_unframe "106A" [0xF0, 3, 0xD4, 4] = .ok [0xD4, 4] := by decide
example : Gen.Fn.udp_ldep_unframe "212F" [4, 0xD4, 4] = .error .assertion := by decide
example : Gen.Fn.udp_ldep_wait 10 3 = 7 ∧ Gen.Fn.udp_ldep_wait 3 10 = 0 := by decide
/-- the level 3 SEL_REQ `97 70 ..` of an initiator is not recognised (see `lta_is_sel3_asfound`) -/
example : Gen.Fn.udp_lta_is_sel3 [0x97, 0x70, 1, 2, 3, 4, 4] (List.replicate 10 0 ++ [1, 2, 3, 4, 4]) = false := by decide

end NfcVerif.FnBridge.Udp
