import NfcVerif.Lemmas.FnBridgeRcs380
/-!
# Bridge theorems, group Rcs380 (`nfc/clf/rcs380.py` -> `Gen/FnRcs380.lean` -> `Model/HostFrame.lean`, `Model/ErrMap.lean`)

Properties C14 (`rcs380_build_valid` is about `rcsBuild`) and C13 (`rcsMapI`, `rcsMapT` decide on bits of
the status word that `CommunicationError.__init__` unpacks and `__eq__` tests).  `Gen/FnRcs380.lean` is
regenerated from the source on every run.

Encodings: a status word is the Python int `(st : Nat)`; the table lookup `str2err[strerr]` of `__eq__` is a
parameter (`mask`) - the theorems instantiate it with the two values the drivers' handlers ask for.
-/
namespace NfcVerif.FnBridge.Rcs380
open NfcVerif NfcVerif.PyFn NfcVerif.HostFrame NfcVerif.ErrMap NfcVerif.FnBridge.HostLink

/-- `Frame.__init__`, command frame construction: `rcsBuild d` for every payload whose length fits the
16-bit length field, `struct.error` otherwise -/
theorem frame_build_bridge (d : Bytes) :
    Gen.Fn.rcs380_frame_build d = if d.length < 65536 then .ok (rcsBuild d) else .error .struct := by
  unfold Gen.Fn.rcs380_frame_build rcsBuild
  simp only [lit_cast, len_eq, mkBytes_cons, mkBytes_nil, Nat.reduceLT, if_true, Py.bind_ok, pack_cons, pack_nil,
    packField_Hle]
  by_cases h : d.length < 65536
  · simp only [h, if_true, Py.bind_ok, List.append_nil]
    have e1 : slice ([0, 0, 255, 255, 255] ++ [d.length % 256, d.length / 256 % 256]) ((5 : Nat) : Int) ((7 : Nat) : Int)
        = [d.length % 256, d.length / 256 % 256] := by rw [slice_ofNat]; rfl
    rw [e1]
    simp only [sum_ints, sub_mod_256, packField_B]
    have h5 : (256 - HostFrame.sum [d.length % 256, d.length / 256 % 256] % 256) % 256 < 256 := Nat.mod_lt _ (by decide)
    simp only [h5, if_true, Py.bind_ok, List.append_nil, sliceFrom_ofNat]
    have e2 : List.drop 8 ([0, 0, 255, 255, 255] ++ [d.length % 256, d.length / 256 % 256]
        ++ [(256 - HostFrame.sum [d.length % 256, d.length / 256 % 256] % 256) % 256] ++ d) = d := rfl
    rw [e2]
    have h6 : (256 - HostFrame.sum d % 256) % 256 < 256 := Nat.mod_lt _ (by decide)
    simp only [mkBytes_cons, mkBytes_nil, Nat.reduceLT, h6, if_true, Py.bind_ok]
    have h7 : d.length / 256 % 256 = d.length / 256 := Nat.mod_eq_of_lt (by omega)
    have h8 : HostFrame.sum [d.length % 256, d.length / 256] = d.length % 256 + d.length / 256 := by simp [HostFrame.sum]
    rw [h7, h8]
    have h9 : (256 - (d.length % 256 + d.length / 256) % 256) % 256 = (512 - (d.length % 256 + d.length / 256)) % 256 := by
      omega
    rw [h9]
  · simp only [h, if_false, Py.bind_error]

example : Gen.Fn.rcs380_frame_build [0xD6, 0x2A, 1] = .ok [0, 0, 0xFF, 0xFF, 0xFF, 3, 0, 0xFD, 0xD6, 0x2A, 1, 0xFF, 0] := by
  decide +kernel

/-- `C14.rcs380_build_valid` for the regenerated construction -/
theorem gen_build_valid (d w : Bytes) (h : Gen.Fn.rcs380_frame_build d = .ok w) : Spec.rcsParse w = some d := by
  rw [frame_build_bridge] at h
  by_cases hl : d.length < 65536
  · rw [if_pos hl] at h; cases h; exact rcs_build_valid d hl
  · rw [if_neg hl] at h; cases h

/-- `CommunicationError.__init__`: the status word is `ErrMap.unpackLeL` of the four status octets
(`struct.error` unless exactly four are given) -/
theorem comm_err_init_bridge (b : Bytes) :
    Gen.Fn.rcs380_comm_err_init b = (unpackLeL b >>= fun st => .ok (st : Int)) := by
  unfold Gen.Fn.rcs380_comm_err_init unpackLeL
  simp only [lit_cast, needExact_nat]
  match b with
  | [] => rfl
  | [_] => rfl
  | [_, _] => rfl
  | [_, _, _] => rfl
  | [a, b, c, d] =>
    simp only [List.length_cons, List.length_nil, Nat.reduceAdd, if_true, Py.bind_ok, Py.pure_eq, ule_four]
  | _ :: _ :: _ :: _ :: _ :: _ =>
    simp only [List.length_cons]
    rw [if_neg (by omega)]
    rfl

example : Gen.Fn.rcs380_comm_err_init [0x80, 0, 0, 0] = .ok 128 := by decide +kernel
example : Gen.Fn.rcs380_comm_err_init [0x80, 0, 0] = .error .struct := by decide +kernel

/-- `CommunicationError.__eq__` with the table value `mask = str2err[strerr]`: for a non-zero mask the
comparison is the bit test `errno & mask != 0` -/
theorem comm_err_eq_bridge (s : String) (st mask : Nat) (hm : mask ≠ 0) :
    Gen.Fn.rcs380_comm_err_eq s st mask = decide (st &&& mask ≠ 0) := by
  unfold Gen.Fn.rcs380_comm_err_eq
  have h1 : ((st : Int) ≠ 0 ∨ (mask : Int) ≠ 0) := Or.inr (by omega)
  simp only [h1, if_true, band_ofNat]
  apply decide_eq_decide.mpr
  constructor <;> intro h <;> omega

/-- `error == "RECEIVE_TIMEOUT_ERROR"` (mask 0x80) is the condition of `ErrMap.rcsMapI` / `rcsMapT` -/
theorem comm_err_eq_timeout (s : String) (st : Nat) :
    Gen.Fn.rcs380_comm_err_eq s st 0x80 = decide ((st / 128) % 2 = 1) := by
  have := comm_err_eq_bridge s st 0x80 (by decide)
  rw [show ((0x80 : Nat) : Int) = (0x80 : Int) from rfl] at this
  rw [this]
  apply decide_eq_decide.mpr
  exact and_pow_ne_zero st 7

/-- `error == "RF_OFF_ERROR"` (mask 0x400) is the first condition of `ErrMap.rcsMapT` -/
theorem comm_err_eq_rfoff (s : String) (st : Nat) :
    Gen.Fn.rcs380_comm_err_eq s st 0x400 = decide ((st / 1024) % 2 = 1) := by
  have := comm_err_eq_bridge s st 0x400 (by decide)
  rw [show ((0x400 : Nat) : Int) = (0x400 : Int) from rfl] at this
  rw [this]
  apply decide_eq_decide.mpr
  exact and_pow_ne_zero st 10

example : Gen.Fn.rcs380_comm_err_eq "RECEIVE_TIMEOUT_ERROR" 0x84 0x80 = true := by decide +kernel
/-- a zero status word "equals" only the zero mask (NO_ERROR) -/
example : Gen.Fn.rcs380_comm_err_eq "NO_ERROR" 0 0 = true := by decide +kernel

/-- `if data and data[0] != 0: raise StatusError(data[0])` (InSetRF): `ErrMap.statusCheck` on a response
payload, for every byte string -/
theorem status_check_bridge (d : Bytes) :
    Gen.Fn.rcs380_in_set_rf_status d = statusCheck (.ok (some d)) := by
  unfold Gen.Fn.rcs380_in_set_rf_status statusCheck
  match d with
  | [] => rfl
  | s :: rest =>
    simp only [lit_cast, getB_idxN, idxN_cons_zero, Py.bind_ok, Int.natCast_inj, ne_eq, reduceCtorEq, not_false_eq_true,
      if_true, decide_eq_true_eq, Py.pure_eq, Py.throw_eq]

example : Gen.Fn.rcs380_in_set_rf_status [1] = .error .rcsStatus := by decide
example : Gen.Fn.rcs380_in_set_rf_status [0, 7] = .ok () := by decide
example : Gen.Fn.rcs380_in_set_rf_status [] = .ok () := by decide

/-- the six other copies of the statement (InSetProtocol, SwitchRF, TgSetRF, TgSetProtocol, TgSetAuto,
SetCommandType) are the same function -/
theorem status_check_all (d : Bytes) :
    Gen.Fn.rcs380_in_set_protocol_status d = statusCheck (.ok (some d)) ∧
    Gen.Fn.rcs380_switch_rf_status d = statusCheck (.ok (some d)) ∧
    Gen.Fn.rcs380_tg_set_rf_status d = statusCheck (.ok (some d)) ∧
    Gen.Fn.rcs380_tg_set_protocol_status d = statusCheck (.ok (some d)) ∧
    Gen.Fn.rcs380_tg_set_auto_status d = statusCheck (.ok (some d)) ∧
    Gen.Fn.rcs380_set_command_type_status d = statusCheck (.ok (some d)) :=
  ⟨status_check_bridge d, status_check_bridge d, status_check_bridge d, status_check_bridge d,
   status_check_bridge d, status_check_bridge d⟩

/-! ## received frames (`Frame.__init__`, first arm) and `send_command` -/

/-- the four tests of the received-frame arm of `Frame.__init__` are the tests of `ErrMap.rcsFrame` -/
theorem frame_conditions_bridge (f : Bytes) :
    Gen.Fn.rcs380_frame_is_rsp f = decide (sliceN f 0 3 = [0, 0, 0xFF]) ∧
    Gen.Fn.rcs380_frame_is_ack f = decide (f = ErrMap.ack) ∧
    Gen.Fn.rcs380_frame_is_err f = decide (f = [0, 0, 0xFF, 0xFF, 0xFF]) ∧
    Gen.Fn.rcs380_frame_is_data f = decide (sliceN f 3 5 = [0xFF, 0xFF]) := by
  refine ⟨?_, rfl, rfl, ?_⟩
  · unfold Gen.Fn.rcs380_frame_is_rsp; simp only [lit_cast, slice_ofNat]
  · unfold Gen.Fn.rcs380_frame_is_data; simp only [lit_cast, slice_ofNat]

/-- payload extraction of a data frame: little-endian length at octets 5..6, payload from octet 8
(`struct.error` when fewer than 7 octets are there) -/
theorem frame_data_bridge (f : Bytes) :
    Gen.Fn.rcs380_frame_data f = (unpackLeH (sliceN f 5 7) >>= fun len => .ok (sliceN f 8 (8 + len))) := by
  unfold Gen.Fn.rcs380_frame_data unpackLeH
  simp only [lit_cast, slice_ofNat, needExact_nat]
  by_cases h : (sliceN f 5 7).length = 2
  · obtain ⟨a, b, hab⟩ := len2 h
    rw [hab]
    simp only [List.length_cons, List.length_nil, Nat.reduceAdd, if_true, Py.bind_ok, ule_two_le, ← Int.natCast_add,
      slice_ofNat, Py.pure_eq]
  · simp only [h, if_false, Py.bind_error]
    match hs : sliceN f 5 7 with
    | [] => rfl
    | [_] => rfl
    | [a, b] => rw [hs] at h; exact absurd rfl h
    | _ :: _ :: _ :: _ => rfl

/-- `ErrMap.rcsFrame` is the if/elif chain of the source over the regenerated tests and the regenerated
extraction (the chain itself is read from the source: the arm stores `self._type` and reads it back through the
property `self.type`, which the translator cannot follow) -/
theorem frame_parse_bridge (f : Bytes) :
    rcsFrame f =
      if Gen.Fn.rcs380_frame_is_rsp f = true then
        if Gen.Fn.rcs380_frame_is_ack f = true then .ok (.ack, [])
        else if Gen.Fn.rcs380_frame_is_err f = true then .ok (.err, [])
        else if Gen.Fn.rcs380_frame_is_data f = true then (Gen.Fn.rcs380_frame_data f >>= fun d => .ok (.data, d))
        else .ok (.none, [])
      else .ok (.none, []) := by
  obtain ⟨h1, h2, h3, h4⟩ := frame_conditions_bridge f
  rw [h1, h2, h3, h4, frame_data_bridge]
  unfold rcsFrame
  simp only [decide_eq_true_eq, Py.pure_eq]
  by_cases c1 : sliceN f 0 3 = [0, 0, 0xFF]
  · simp only [c1, if_true]
    by_cases c2 : f = ErrMap.ack
    · simp only [c2, if_true]
    · simp only [c2, if_false]
      by_cases c3 : f = [0, 0, 0xFF, 0xFF, 0xFF]
      · simp only [c3, if_true]
      · simp only [c3, if_false]
        by_cases c4 : sliceN f 3 5 = [0xFF, 0xFF]
        · simp only [c4, if_true]
          cases unpackLeH (sliceN f 5 7) <;> rfl
        · simp only [c4, if_false]
  · simp only [c1, if_false]

example : Gen.Fn.rcs380_frame_data [0, 0, 0xFF, 0xFF, 0xFF, 3, 0, 0xFD, 0xD7, 0x2B, 0, 0x28, 0] = .ok [0xD7, 0x2B, 0] := by
  decide +kernel
example : Gen.Fn.rcs380_frame_data [0, 0, 0xFF, 0xFF, 0xFF, 3] = .error .struct := by decide +kernel

/-- `send_command`: response code test and returned payload are those of `ErrMap.rcsRsp`; the remaining arm of
`rcsRsp` (IndexError of the log call for a one-octet payload) has no regenerated counterpart -/
theorem rsp_bridge (cmd : Nat) (d : Bytes) :
    rcsRsp cmd d = (Gen.Fn.rcs380_rsp_code_ok cmd d >>= fun c =>
      if c = true then .ok (some (Gen.Fn.rcs380_rsp_payload d))
      else if d.length < 2 then .error .index else .ok none) := by
  unfold rcsRsp Gen.Fn.rcs380_rsp_code_ok Gen.Fn.rcs380_rsp_payload
  simp only [lit_cast, getB_idxN, sliceFrom_ofNat, ← Int.natCast_add, Int.natCast_inj]
  match d with
  | [] => rfl
  | [a] =>
    simp only [idxN_cons_zero, idxN_cons_succ, idxN_nil, Py.bind_ok, Py.bind_error, Int.natCast_inj]
    by_cases h : a = 215 <;> simp [h]
  | a :: b :: rest =>
    simp only [idxN_cons_zero, idxN_cons_succ, Py.bind_ok, Int.natCast_inj, List.drop_succ_cons, List.drop_zero]
    by_cases h : a = 215 <;> by_cases h2 : b = cmd + 1 <;> simp [h, h2]

example : Gen.Fn.rcs380_rsp_code_ok 0x2A [0xD7, 0x2B, 0] = .ok true := by decide
example : Gen.Fn.rcs380_rsp_code_ok 0x2A [0xD7] = .error .index := by decide

/-! ## InCommRF / TgCommRF status words -/

theorem comm_raise (b : Bytes) :
    withStatus ((Gen.Fn.rcs380_comm_err_init b >>= fun _ => (.error .rcsComm : Py (Option Bytes)))) (unpackLeL b)
      = (liftR (unpackLeL b) >>= fun st => throw (.comm st)) := by
  rw [comm_err_init_bridge]
  cases h : unpackLeL b with
  | ok st => simp only [Py.bind_ok, withStatus, h]
  | error e =>
    simp only [Py.bind_error, withStatus, liftR]
    -- `unpackLeL` raises only struct.error
    unfold unpackLeL at h
    split at h <;> cases h
    rfl

/-- `in_comm_rf` behind `send_command`: `ErrMap.inCommRf` on a response payload, for every byte string (the
status word of the raised `CommunicationError` is the one its constructor unpacks) -/
theorem in_comm_rf_bridge (d : Bytes) :
    inCommRf (.ok (some d)) = withStatus (Gen.Fn.rcs380_in_comm_rf_check d) (unpackLeL (sliceN d 0 4)) := by
  unfold inCommRf Gen.Fn.rcs380_in_comm_rf_check
  simp only [lit_cast, slice_ofNat, sliceFrom_ofNat, ints_ne_zero4]
  match d with
  | [] => rfl
  | a :: t =>
    have hne : (a :: t) ≠ [] := by simp
    simp only [hne, ne_eq, not_false_eq_true, true_and, if_true]
    show (if ¬ sliceN (a :: t) 0 4 = [0, 0, 0, 0] then _ else _) = _
    by_cases h : sliceN (a :: t) 0 4 = [0, 0, 0, 0]
    · simp only [h, not_true_eq_false, if_false]; rfl
    · simp only [h, not_false_eq_true, if_true]
      exact (comm_raise _).symm

example : Gen.Fn.rcs380_in_comm_rf_check [0, 0, 0, 0, 8, 0xAA] = .ok (some [0xAA]) := by decide +kernel
example : Gen.Fn.rcs380_in_comm_rf_check [0x80, 0, 0, 0, 8] = .error .rcsComm := by decide +kernel
example : Gen.Fn.rcs380_in_comm_rf_check [0x80] = .error .struct := by decide +kernel

/-- `tg_comm_rf` behind `send_command`, followed by `return data[7:] if data else None` of
`send_rsp_recv_cmd`: `ErrMap.tgCommRf` -/
theorem tg_comm_rf_bridge (d : Bytes) :
    tgCommRf (.ok (some d))
      = withStatus (Gen.Fn.rcs380_tg_comm_rf_check d >>= fun x => .ok (Gen.Fn.rcs380_tgt_result x))
          (unpackLeL (sliceN d 3 7)) := by
  unfold tgCommRf Gen.Fn.rcs380_tg_comm_rf_check Gen.Fn.rcs380_tgt_result
  simp only [lit_cast, slice_ofNat, sliceFrom_ofNat, ints_ne_zero4]
  match d with
  | [] => rfl
  | a :: t =>
    have hne : (a :: t) ≠ [] := by simp
    simp only [hne, ne_eq, not_false_eq_true, true_and, if_true]
    show (if ¬ sliceN (a :: t) 3 7 = [0, 0, 0, 0] then _ else _) = _
    by_cases h : sliceN (a :: t) 3 7 = [0, 0, 0, 0]
    · simp only [h, not_true_eq_false, if_false, Py.bind_ok, hne, not_false_eq_true, if_true]; rfl
    · simp only [h, not_false_eq_true, if_true]
      have := comm_raise (sliceN (a :: t) 3 7)
      rw [← this]
      cases Gen.Fn.rcs380_comm_err_init (sliceN (a :: t) 3 7) <;> rfl

end NfcVerif.FnBridge.Rcs380
