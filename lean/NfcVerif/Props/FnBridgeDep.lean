import NfcVerif.Lemmas.FnBridgeDep
/-!
# Bridge theorems, group Dep (`nfc/dep.py` framing -> `Gen/FnDep.lean` -> `Model/NfcDep.lean`, `Model/PeerDep.lean`)

Properties C04 (every frame is decoded by `NfcDep.decodeFrame`), C07 (`Peer.decodeFrameV`), C19.
The translated slices (see the doc comments in `Gen/FnDep.lean`):

* `encode_frame`: everything after `frame = packet.encode()`; the parameter is the encoded PDU;
* `decode_frame`: the checks in front of the dispatch `eval(name + "_RES").decode(frame)`; the result is
  the frame as handed to that dispatch.  The bridge continues with `tail req` (`Lemmas/FnBridgeDep.lean`):
  the table lookup of the real dispatch (`KeyError` for an unknown code, `frame[0]` not inspected) followed
  by the model's PDU decoders - so a weakened code check in the source is not masked.

`brty` is the string `self.target.brty`; the models' `b106` is `brty = "106A"`.
-/
namespace NfcVerif.FnBridge.Dep
open NfcVerif NfcVerif.PyFn NfcVerif.NfcDep

theorem initiator_encode_frame_bridge (brty : String) (p : Pdu) :
    Gen.Fn.initiator_encode_frame (encodePdu false p) brty = encodeFrame (decide (brty = "106A")) false p := by
  unfold Gen.Fn.initiator_encode_frame encodeFrame
  have e : PyFn.len (encodePdu false p) + 1 = (((encodePdu false p).length + 1 : Nat) : Int) := by
    rw [len_eq]; omega
  rw [e, pack_B]
  by_cases h : (encodePdu false p).length + 1 > 255
  · simp [h]
  · by_cases hb : brty = "106A" <;> simp [h, hb]

theorem target_encode_frame_bridge (brty : String) (p : Pdu) :
    Gen.Fn.target_encode_frame (encodePdu true p) brty = encodeFrame (decide (brty = "106A")) true p := by
  unfold Gen.Fn.target_encode_frame encodeFrame
  have e : PyFn.len (encodePdu true p) + 1 = (((encodePdu true p).length + 1 : Nat) : Int) := by
    rw [len_eq]; omega
  rw [e, pack_B]
  by_cases h : (encodePdu true p).length + 1 > 255
  · simp [h]
  · by_cases hb : brty = "106A" <;> simp [h, hb]

example : Gen.Fn.initiator_encode_frame (encodePdu false (.dsl none)) "106A" = .ok [0xF0, 3, 0xD5, 9] := by decide +kernel
example : Gen.Fn.target_encode_frame (encodePdu true (.rls (some 1))) "212F" = .ok [4, 0xD4, 10, 1] := by decide +kernel

/-- `Initiator.decode_frame` up to the dispatch, for every frame and both framings -/
theorem initiator_decode_frame_bridge (brty : String) (frame : Bytes) :
    decodeFrame (decide (brty = "106A")) false frame = Gen.Fn.initiator_decode_frame frame brty >>= tail false := by
  unfold Gen.Fn.initiator_decode_frame decodeFrame decodeFrameAux
  by_cases hb : brty = "106A"
  · simp only [hb, decide_true, if_true]
    match frame with
    | [] => simp [len_eq]
    | [a] => simp [len_eq]
    | [a, l] =>
      by_cases ha : a = 240 <;> simp [ha, pop0, len_eq, cast_eq_lit] <;> py_fin
    | [a, l, c0] =>
      by_cases ha : a = 240 <;> simp [ha, pop0, len_eq, cast_eq_lit] <;> py_fin
    | a :: l :: c0 :: c1 :: d =>
      by_cases ha : a = 240 <;> by_cases h0 : c0 = 213 <;>
        simp [ha, h0, pop0, len_eq, getB_zero, getB_one, cast_eq_lit] <;> py_fin [tail]
  · simp only [hb, decide_false, if_false]
    match frame with
    | [] => simp [len_eq]
    | [l] => simp [pop0, len_eq, cast_eq_lit] <;> py_fin
    | [l, c0] => simp [pop0, len_eq, cast_eq_lit] <;> py_fin
    | l :: c0 :: c1 :: d =>
      by_cases h0 : c0 = 213 <;> simp [h0, pop0, len_eq, getB_zero, getB_one, cast_eq_lit] <;> py_fin [tail]

/-- `Target.decode_frame` up to the dispatch -/
theorem target_decode_frame_bridge (brty : String) (frame : Bytes) :
    decodeFrame (decide (brty = "106A")) true frame = Gen.Fn.target_decode_frame frame brty >>= tail true := by
  unfold Gen.Fn.target_decode_frame decodeFrame decodeFrameAux
  by_cases hb : brty = "106A"
  · simp only [hb, decide_true, if_true]
    match frame with
    | [] => simp [len_eq]
    | [a] => simp [len_eq]
    | [a, l] =>
      by_cases ha : a = 240 <;> simp [ha, pop0, len_eq, cast_eq_lit] <;> py_fin
    | [a, l, c0] =>
      by_cases ha : a = 240 <;> simp [ha, pop0, len_eq, cast_eq_lit] <;> py_fin
    | a :: l :: c0 :: c1 :: d =>
      by_cases ha : a = 240 <;> by_cases h0 : c0 = 212 <;>
        simp [ha, h0, pop0, len_eq, getB_zero, getB_one, cast_eq_lit] <;> py_fin [tail]
  · simp only [hb, decide_false, if_false]
    match frame with
    | [] => simp [len_eq]
    | [l] => simp [pop0, len_eq, cast_eq_lit] <;> py_fin
    | [l, c0] => simp [pop0, len_eq, cast_eq_lit] <;> py_fin
    | l :: c0 :: c1 :: d =>
      by_cases h0 : c0 = 212 <;> simp [h0, pop0, len_eq, getB_zero, getB_one, cast_eq_lit] <;> py_fin [tail]

example : Gen.Fn.initiator_decode_frame [0xF0, 4, 0xD5, 9, 7] "106A" = .ok [0xD5, 9, 7] := by decide +kernel
example : Gen.Fn.target_decode_frame [3, 0xD4, 5] "424F" = .error .protocol := by decide +kernel
example : Gen.Fn.target_decode_frame [] "424F" = .error .transmission := by decide +kernel

/-! ## the C07 / C04 statements for the regenerated functions -/

/-- the C07 frame model (`Peer.decodeFrameV`, repaired code) is the regenerated framing followed by the dispatch -/
theorem initiator_decode_frame_peer (brty : String) (frame : Bytes) :
    Peer.decodeFrameV true (decide (brty = "106A")) false frame
      = Gen.Fn.initiator_decode_frame frame brty >>= tail false := by
  rw [Peer.decodeFrameV_repaired, initiator_decode_frame_bridge]
theorem target_decode_frame_peer (brty : String) (frame : Bytes) :
    Peer.decodeFrameV true (decide (brty = "106A")) true frame
      = Gen.Fn.target_decode_frame frame brty >>= tail true := by
  rw [Peer.decodeFrameV_repaired, target_decode_frame_bridge]

/-- `C07.dep_decode_total` for the source: whatever octets the peer sends, the regenerated framing checks
of both roles raise nothing but `ProtocolError` / `TransmissionError` -/
theorem gen_decode_frame_total (brty : String) (frame : Bytes) :
    Safe Peer.FrameErr (Gen.Fn.initiator_decode_frame frame brty)
    ∧ Safe Peer.FrameErr (Gen.Fn.target_decode_frame frame brty) := by
  constructor
  · intro e he
    have h := Peer.dep_decode_total (decide (brty = "106A")) false frame
    rw [initiator_decode_frame_peer, he] at h
    exact h e rfl
  · intro e he
    have h := Peer.dep_decode_total (decide (brty = "106A")) true frame
    rw [target_decode_frame_peer, he] at h
    exact h e rfl

end NfcVerif.FnBridge.Dep
