import NfcVerif.Props.ExcFlow
/-!
# Exception flow, instance theorems: C07 / C09: link loop and service threads

Re-checked on the regenerated `Gen/ExcFlow.lean` (see `Props/ExcFlow.lean` for what `Only` / `Can` mean).
-/
namespace NfcVerif.ExcFlowProps
open NfcVerif.ExcFlow NfcVerif.Gen.ClassTree NfcVerif.Gen.ExcFlow

/-! ## C07 / C09: link loop and service threads -/

/-- every `Only` statement of this section, checked with one evaluation of the summary table -/
def llcOnly : List (Site × List Cls) := [
  (Site.fn_llc_exchange, [Cls.OSError]),
  (Site.fn_snep_server_listen, []),
  (Site.fn_snep_server_serve, [Cls.AssertionError]),
  (Site.fn_handover_server_listen, []),
  (Site.fn_handover_server_serve, [Cls.ndef_EncodeError]),
  (Site.fn_llc_run_as_initiator, [Cls.KeyboardInterrupt, Cls.SystemExit, Cls.OSError]),
  (Site.fn_llc_run_as_target, [Cls.KeyboardInterrupt, Cls.SystemExit, Cls.OSError])]
def llcCan : List (Site × Cls) := [
  (Site.fn_llc_run_as_initiator, Cls.SystemExit),
  (Site.fn_llc_run_as_target, Cls.SystemExit),
  (Site.fn_handover_server_serve, Cls.ndef_EncodeError)]
/-- both lists, checked with one evaluation of the summary table -/
theorem llcAll_ok : checkAll world table prog llcOnly [] llcCan = true := by decide +kernel
theorem llcOnly_ok : checkOnly world table prog llcOnly = true := (checkAll_split llcAll_ok).1
theorem llcCan_ok : checkCan world table prog llcCan = true := (checkAll_split llcAll_ok).2.2


/-- `llc.exchange`: `CommunicationError` and `pdu.Error` (undecodable PDU) are absorbed (link disruption);
`IOError` passes -/
theorem llc_exchange_escapes : Only Site.fn_llc_exchange [Cls.OSError] :=
  escapesOnly_of_checkOnly tree_ordered llcOnly_ok (by decide)

/-- the run loops end with `KeyboardInterrupt`, `SystemExit` (open finding F21) or the `IOError` of a
`terminate()` that could not deactivate the device - nothing else -/
theorem llc_run_escapes : ∀ f ∈ [Site.fn_llc_run_as_initiator, Site.fn_llc_run_as_target],
    Only f [Cls.KeyboardInterrupt, Cls.SystemExit, Cls.OSError] := by
  intro f hf
  simp only [List.mem_cons, List.not_mem_nil, or_false] at hf
  rcases hf with h | h <;> subst h <;> exact escapesOnly_of_checkOnly tree_ordered llcOnly_ok (by decide)
theorem llc_run_systemexit : Can Site.fn_llc_run_as_initiator Cls.SystemExit ∧ Can Site.fn_llc_run_as_target Cls.SystemExit :=
  ⟨canEscape_of_checkCan tree_ordered llcCan_ok (by decide),
   canEscape_of_checkCan tree_ordered llcCan_ok (by decide)⟩

/-- SNEP server: nothing kills the listen thread; the serve thread only by the `assert isinstance` of
`process_snep_request` (its argument is the `bytearray` built by `_serve`).  Assumption: the socket API
raises `nfc.llcp.Error` only (C09), ndeflib raises `DecodeError`/`ValueError`/`EncodeError`. -/
theorem snep_server_threads_escape : Only Site.fn_snep_server_listen [] ∧ Only Site.fn_snep_server_serve [Cls.AssertionError] :=
  ⟨escapesOnly_of_checkOnly tree_ordered llcOnly_ok (by decide),
   escapesOnly_of_checkOnly tree_ordered llcOnly_ok (by decide)⟩
/-- handover server: nothing kills the listen thread; the serve thread can be left by `ndef.EncodeError`
(the response of `process_handover_request_message` is encoded outside every handler) -/
theorem handover_server_threads_escape : Only Site.fn_handover_server_listen [] ∧
    Only Site.fn_handover_server_serve [Cls.ndef_EncodeError] :=
  ⟨escapesOnly_of_checkOnly tree_ordered llcOnly_ok (by decide),
   escapesOnly_of_checkOnly tree_ordered llcOnly_ok (by decide)⟩
theorem handover_serve_encodeerror : Can Site.fn_handover_server_serve Cls.ndef_EncodeError :=
  canEscape_of_checkCan tree_ordered llcCan_ok (by decide)

end NfcVerif.ExcFlowProps
