import NfcVerif.Lemmas.FnBridgeClf
import NfcVerif.Props.C18
/-!
# Bridge theorems, group Clf (`nfc/clf/__init__.py` decision logic -> `Gen/FnClf.lean` -> `Model/Sense.lean`,
`Model/Connect.lean`, `Model/FnClfRef.lean`)

Properties C18 (connect() / sense() honour their documented contract) and C19 (option pass-through of the
peer-to-peer activation).  The cuts are listed in `harness/fnspecs/clf.py` and in the doc comments of
`Gen/FnClf.lean`; the compositions `<f>Gen` are in `Lemmas/FnBridgeClf.lean`.  Kinds of statements:

* `<cut>_bridge`: a regenerated decision equals the condition / check the model uses (on the stated encoding of
  the model's abstract values: `encV`, `encRet`, `mark`, `markers`, `RT.spec`, `ltOf`);
* `sense_dispatch_table`, `listen_dispatch_table`: the regenerated dispatch chains for ANY nested functions;
* `sense_bridge`, `listen_bridge`, `exchange_bridge`, `rdwr_step_bridge`, `llcp_step_bridge`, `card_step_bridge`,
  `main_loop_bridge`, `startup_phase_bridge`, `connect_bridge`: the model functions equal the skeletons in which
  every decision is regenerated code;
* `dep_cfg_bridge`, `default_discover_bridge`, `nodev_bridge`: regenerated code against the reference definitions of
  `Model/FnClfRef.lean`;
* `gen_*`: statements of C18 / C19 restated for the regenerated code.
-/
set_option linter.unusedSimpArgs false
namespace NfcVerif.FnBridge.Clf
open NfcVerif NfcVerif.PyFn NfcVerif.Clf NfcVerif.FnClfRef


/-! ## the device must be open -/
theorem nodev_bridge (d : Option Int) :
    Gen.Fn.clf_connect_nodev d = requireDevice d ∧ Gen.Fn.clf_sense_nodev d = requireDevice d
    ∧ Gen.Fn.clf_listen_nodev d = requireDevice d ∧ Gen.Fn.clf_exchange_nodev d = requireDevice d := by
  cases d <;> exact ⟨rfl, rfl, rfl, rfl⟩

/-! ## truth values of callback results -/
theorem truth_bridge (v : Clf.Val) :
    Gen.Fn.clf_rdwr_discover (encV v) = v.truthy ∧ Gen.Fn.clf_rdwr_connect (encV v) = v.truthy
    ∧ Gen.Fn.clf_llcp_connect (encV v) = v.truthy ∧ Gen.Fn.clf_card_connect (encV v) = v.truthy
    ∧ Gen.Fn.clf_card_discover true (encV v) = v.truthy := by
  cases v <;> decide

theorem done_bridge (v : RetVal) :
    Gen.Fn.clf_connect_rdwr_done (encRet v) = v.truthy ∧ Gen.Fn.clf_connect_llcp_done (encRet v) = v.truthy
    ∧ Gen.Fn.clf_connect_card_done (encRet v) = v.truthy := by
  cases v with
  | none => exact ⟨rfl, rfl, rfl⟩
  | obj r => exact ⟨rfl, rfl, rfl⟩
  | val r v => cases v <;> exact ⟨rfl, rfl, rfl⟩

theorem has_bridge {α} (o : Option α) :
    Gen.Fn.clf_connect_has_rdwr (mark o) = o.isSome ∧ Gen.Fn.clf_connect_has_llcp (mark o) = o.isSome
    ∧ Gen.Fn.clf_connect_has_card (mark o) = o.isSome := by
  cases o <;> exact ⟨rfl, rfl, rfl⟩

theorem no_options_bridge (l : Live) :
    Gen.Fn.clf_connect_no_options (mark l.rdwr) (mark l.llcp) (mark l.card) = l.isEmpty := by
  obtain ⟨a, b, c⟩ := l
  cases a <;> cases b <;> cases c <;> rfl


/-! ## sense(): argument checks of the nested functions -/

theorem tta_sel_req_bridge (sel : Bytes) :
    Gen.Fn.clf_tta_sel_req sel
      = if sel.length ≠ 0 ∧ sel.length ≠ 4 ∧ sel.length ≠ 7 ∧ sel.length ≠ 10 then .error .value else .ok () := by
  unfold Gen.Fn.clf_tta_sel_req
  have h0 : sel ≠ [] ↔ sel.length ≠ 0 := by
    cases sel <;> simp
  simp only [h0]
  py_cast
  by_cases h : sel.length ≠ 0 ∧ sel.length ≠ 4 ∧ sel.length ≠ 7 ∧ sel.length ≠ 10
  · rw [if_pos h, if_pos (by omega)]
  · rw [if_neg h, if_neg (by omega)]

theorem dep_checks_bridge (atr : Bytes) :
    Gen.Fn.clf_dep_checks atr
      = if atr.length < 16 then .error .value else if atr.length > 64 then .error .value else .ok () := by
  unfold Gen.Fn.clf_dep_checks
  py_cast

/-- the checks of a Type A answer: the model's `checkTta` is the composition of the regenerated pieces -/
theorem check_tta_bridge (f : Found) : checkTta f = checkTtaGen f.sens f.rid := by
  unfold checkTta checkTtaGen Gen.Fn.clf_tta_sens_len_bad Gen.Fn.clf_tta_is_t1t Gen.Fn.clf_tta_t1t_checks
  match hs : f.sens with
  | [] => simp [len_eq]
  | [a] => simp [len_eq]
  | a :: b :: c :: r =>
    have h3 : ¬ ((r.length : Int) + 1 + 1 + 1 = 2) := by omega
    simp [len_eq, h3]
  | [a, b] =>
    simp only [len_eq, List.length_cons, List.length_nil, getB_zero, getB_one, Py.bind_ok, List.getD_cons_zero,
      List.getD_cons_succ]
    cases hr : f.rid with
    | nil => py_bits; simp
    | cons x xs =>
      simp only [getB_zero, Py.bind_ok, List.getD_cons_zero, List.isEmpty_cons, List.length_cons]
      py_bits
      simp


theorem bind_ok_id {α} (x : Py α) : (x >>= fun t => Except.ok t) = x := by cases x <;> rfl

/-- the dispatch chain of the inner loop for ANY four nested functions: `atr_req` first, then the technology
letters A, B, F, else UnsupportedTargetError -/
theorem sense_dispatch_table (tg : Int) (t : RT) (d a b f : Int → Py (Option Int)) :
    Gen.Fn.clf_sense_dispatch tg t.atr t.brty d a b f
      = match t.spec with
        | .dep _ => d tg
        | .a _ => a tg
        | .b => b tg
        | .f => f tg
        | _ => .error .unsupportedTarget := by
  obtain ⟨atr, sel, brty⟩ := t
  unfold Gen.Fn.clf_sense_dispatch RT.spec
  have e : ∀ x, PyFn.strEndsWith brty x = endsWith brty x := fun _ => rfl
  simp only [e]
  cases atr with
  | some x => simp [bind_ok_id]
  | none =>
    cases endsWith brty "A" <;> cases endsWith brty "B" <;> cases endsWith brty "F" <;> simp [bind_ok_id]

theorem sense_choice (t : RT) :
    senseChoice t = match t.spec with
      | .dep _ => .ok (some 4) | .a _ => .ok (some 1) | .b => .ok (some 2) | .f => .ok (some 3)
      | _ => .error .unsupportedTarget := by
  unfold senseChoice
  rw [sense_dispatch_table]
  cases t.spec <;> rfl


theorem sense_tta_bridge (sel : Bytes) (s : St) : senseOne (.a sel.length) s = senseTtaGen sel s := by
  unfold senseTtaGen
  simp only [senseOne]
  rw [tta_sel_req_bridge]
  by_cases h : sel.length ≠ 0 ∧ sel.length ≠ 4 ∧ sel.length ≠ 7 ∧ sel.length ≠ 10
  · rw [if_pos h, if_pos h]
  · rw [if_neg h, if_neg h]
    rcases hd : drvSense .senseA s with ⟨r, s1⟩
    match r with
    | .ok (some (id, f)) => simp only [check_tta_bridge]; rfl
    | .ok none => rfl
    | .error e => rfl

theorem sense_dep_bridge (atr : Bytes) (s : St) : senseOne (.dep atr.length) s = senseDepGen atr s := by
  unfold senseDepGen
  simp only [senseOne]
  rw [dep_checks_bridge]
  by_cases h1 : atr.length < 16
  · simp [h1]
  · by_cases h2 : atr.length > 64
    · simp [h1, h2]
    · simp [h1, h2]

/-- one target of the inner loop: the model's `senseOne` on the abstraction of the target is the regenerated
dispatch chain over the regenerated checks -/
theorem sense_one_bridge (t : RT) (s : St) : senseOne t.spec s = senseOneGen t s := by
  unfold senseOneGen
  rw [sense_choice]
  obtain ⟨atr, sel, brty⟩ := t
  unfold RT.spec
  cases atr with
  | some a => simp [sense_dep_bridge]
  | none =>
    cases endsWith brty "A" <;> cases endsWith brty "B" <;> cases endsWith brty "F" <;>
      simp only [if_true, Bool.false_eq_true, if_false] <;>
      first | exact sense_tta_bridge sel s | simp [senseOne]

theorem sense_found_bridge (r : Option (Nat × Found)) :
    (if Gen.Fn.clf_sense_found (r.map (fun x => (x.1 : Int))) = true then r else none) = r := by
  cases r <;> simp [Gen.Fn.clf_sense_found]

theorem sense_targets_bridge (single : Bool) (tl : List RT) (s : St) :
    senseTargets single (tl.map RT.spec) s = senseTargetsGen single tl s := by
  induction tl generalizing s with
  | nil => rfl
  | cons t rest ih =>
    simp only [List.map_cons, senseTargets, senseTargetsGen, sense_one_bridge]
    rcases senseOneGen t s with ⟨r, s1⟩
    match r with
    | .ok (some x) => simp [Gen.Fn.clf_sense_found]
    | .ok none => simp [Gen.Fn.clf_sense_found, ih]
    | .error e => simp only [ih]

theorem markers_length {α} (l : List α) : (markers l).length = l.length := by simp [markers]

theorem sense_single_bridge {α} (tl : List α) : Gen.Fn.clf_sense_single (markers tl) = (tl.length == 1) := by
  unfold Gen.Fn.clf_sense_single
  rw [len_eq, markers_length]
  by_cases h : tl.length = 1
  · have : ((tl.length : Int) = 1) := by omega
    simp [h]
  · have : ¬ ((tl.length : Int) = 1) := by omega
    simp [h, this]

theorem sense_mute_bridge {α} (tl : List α) : Gen.Fn.clf_sense_mute (markers tl) = !tl.isEmpty := by
  unfold Gen.Fn.clf_sense_mute
  rw [len_eq, markers_length]
  cases tl with
  | nil => simp
  | cons a l => simp

/-- `range(max(1, iterations))` -/
theorem sense_iters_bridge (iters : Int) :
    Gen.Fn.clf_sense_iters iters = (List.range (max 1 iters).toNat).map (fun (i : Nat) => (i : Int)) := by
  unfold Gen.Fn.clf_sense_iters PyFn.range PyFn.imax
  have : (if iters > 1 then iters else 1) = max 1 iters := by
    rw [Int.max_def]; split <;> split <;> omega
  rw [this]
  simp

/-- sleep between two iterations, not behind the last one: `k` iterations remain behind iteration `j` -/
theorem sense_sleep_bridge (iters : Int) (j k : Nat) (h : j + (k + 1) = (max 1 iters).toNat) :
    Gen.Fn.clf_sense_sleep (j : Int) iters = decide (k ≠ 0) := by
  unfold Gen.Fn.clf_sense_sleep
  rw [Int.max_def] at h
  congr 1
  apply propext
  split at h <;> omega

theorem sense_iters_loop (tl : List RT) (iters : Int) (k : Nat) :
    ∀ (j : Nat) (s : St), j + k = (max 1 iters).toNat →
      senseIters (tl.map RT.spec) (tl.length == 1) k s
        = senseItersGen tl iters ((List.range' j k).map (fun (i : Nat) => (i : Int))) s := by
  induction k with
  | zero => intro j s _; rfl
  | succ k ih =>
    intro j s h
    simp only [List.range'_succ, List.map_cons, senseIters, senseItersGen, sense_targets_bridge, sense_single_bridge,
      sense_mute_bridge, sense_sleep_bridge iters j k h]
    rcases senseTargetsGen (tl.length == 1) tl s with ⟨r, s1⟩
    match r with
    | .ok (some x) => rfl
    | .error e => rfl
    | .ok none =>
      simp only [List.isEmpty_map]
      cases hte : tl.isEmpty
      · simp only [Bool.not_false, if_true, Bool.false_eq_true, if_false]
        rcases simpleCall .mute s1 with ⟨q, s2⟩
        match q with
        | .error e => rfl
        | .ok _ =>
          simp only []
          rw [ih (j + 1) _ (by omega)]
          by_cases hk : k = 0 <;> simp [hk]
      · simp only [Bool.not_true, Bool.false_eq_true, if_false, if_true]
        rw [ih (j + 1) _ (by omega)]
        by_cases hk : k = 0 <;> simp [hk]


theorem rt_spec_ne (t : RT) : (t.spec == TgtSpec.notTarget) = false := by
  obtain ⟨atr, sel, brty⟩ := t
  unfold RT.spec
  cases atr <;> cases endsWith brty "A" <;> cases endsWith brty "B" <;> cases endsWith brty "F" <;> rfl

theorem arg_check_bridge (tl : List (Option RT)) :
    argCheckGen (tl.map Option.isSome) = if (tl.map argSpec).any (· == .notTarget) then .error .value else .ok () := by
  induction tl with
  | nil => rfl
  | cons a l ih =>
    cases a with
    | none => simp [argCheckGen, Gen.Fn.clf_sense_arg_check, argSpec]
    | some t =>
      simp only [List.map_cons, Option.isSome_some, argCheckGen, Gen.Fn.clf_sense_arg_check, List.any_cons, argSpec,
        rt_spec_ne, Bool.false_or]
      simpa using ih

theorem all_some {α} (tl : List (Option α)) (f : Option α → TgtSpec)
    (h : (tl.map f).any (· == .notTarget) = false) (hf : f none = .notTarget) :
    tl = (tl.filterMap id).map some := by
  induction tl with
  | nil => rfl
  | cons a l ih =>
    cases a with
    | none => simp [hf] at h
    | some x =>
      simp only [List.map_cons, List.any_cons, Bool.or_eq_false_iff] at h
      simp only [List.filterMap_cons, id, List.map_cons]
      rw [← ih h.2]

/-- `ContactlessFrontend.sense` of the model on the abstraction of the argument list is the regenerated code:
argument check, ENODEV check, iteration range, per-target dispatch and checks, single-target rule, mute and sleep
decisions -/
theorem sense_bridge (device : Int) (tl : List (Option RT)) (iters : Int) (s : St) :
    sense (tl.map argSpec) iters s = senseGen (some device) tl iters s := by
  unfold sense senseGen
  have hforget : tgtOfNone Gen.Fn.clf_sense_forget = Tgt.none := rfl
  rw [arg_check_bridge, hforget]
  cases hany : (tl.map argSpec).any (· == .notTarget)
  · simp only [Bool.false_eq_true, if_false, Gen.Fn.clf_sense_nodev]
    rcases simpleCall .mute { s with target := .none } with ⟨q, s1⟩
    match q with
    | .error e => rfl
    | .ok _ =>
      simp only []
      have hl := all_some tl argSpec hany rfl
      have hm : tl.map argSpec = (tl.filterMap id).map RT.spec := by
        conv => lhs; rw [hl]
        simp [argSpec, Function.comp_def]
      rw [hm, sense_iters_bridge, List.length_map]
      have := sense_iters_loop (tl.filterMap id) iters (max 1 iters).toNat 0 s1 (by omega)
      rw [this, List.range_eq_range']
  · simp

/-- the dispatch chain of `listen()` for ANY four nested functions: `atr_res` first, then the `brty` tables,
else ValueError -/
theorem listen_dispatch_table (tg tmo : Int) (atrRes : Option Bytes) (brty : String)
    (d a b f : Int → Int → Py (Option Int)) :
    Gen.Fn.clf_listen_dispatch tg tmo atrRes brty d a b f
      = match ltOf atrRes brty with
        | .dep => d tg tmo
        | .a => a tg tmo
        | .b => b tg tmo
        | .f => f tg tmo
        | .other => .error .value := by
  unfold Gen.Fn.clf_listen_dispatch ltOf
  cases atrRes with
  | some x => simp [bind_ok_id]
  | none =>
    simp only []
    by_cases h1 : brty = "106A" ∨ brty = "212A" ∨ brty = "424A"
    · simp [h1, bind_ok_id]
    · by_cases h2 : brty = "106B" ∨ brty = "212B" ∨ brty = "424B" ∨ brty = "848B"
      · simp [h1, h2, bind_ok_id]
      · by_cases h3 : brty = "212F" ∨ brty = "424F"
        · simp [h1, h2, h3, bind_ok_id]
        · simp [h1, h2, h3, bind_ok_id]

theorem listen_choice (atrRes : Option Bytes) (brty : String) :
    listenChoice atrRes brty = match ltOf atrRes brty with
      | .dep => .ok (some 4) | .a => .ok (some 1) | .b => .ok (some 2) | .f => .ok (some 3)
      | .other => .error .value := by
  unfold listenChoice
  rw [listen_dispatch_table]
  cases ltOf atrRes brty <;> rfl

theorem listen_dep_len_bridge (n : Nat) :
    (Gen.Fn.clf_listen_dep_min (List.replicate n 0) = true ∧ Gen.Fn.clf_listen_dep_max (List.replicate n 0) = true)
      ↔ (16 ≤ n ∧ n ≤ 64) := by
  unfold Gen.Fn.clf_listen_dep_min Gen.Fn.clf_listen_dep_max
  simp [len_eq]
  omega

/-- `ContactlessFrontend.listen` of the model on the abstraction of the `LocalTarget` is the regenerated code -/
theorem listen_bridge (device : Int) (atrRes : Option Bytes) (brty : String) (s : St) :
    listen (ltOf atrRes brty) s = listenGen (some device) atrRes brty s := by
  unfold listen listenGen
  have hforget : tgtOfNone Gen.Fn.clf_listen_forget = Tgt.none := rfl
  simp only [Gen.Fn.clf_listen_nodev, listen_choice, hforget]
  rcases simpleCall .mute { s with target := .none } with ⟨q, s1⟩
  match q with
  | .error e => rfl
  | .ok _ =>
    simp only []
    cases ltOf atrRes brty with
    | other => rfl
    | dep =>
      simp only [if_true]
      rcases drvListen .listenDep s1 with ⟨r, s2⟩
      match r with
      | .ok (some (id, f)) => simp only [listen_dep_len_bridge]
      | .ok none => rfl
      | .error e => rfl
    | a => simp; rcases drvListen .listenA s1 with ⟨r, s2⟩; rfl
    | b => simp; rcases drvListen .listenB s1 with ⟨r, s2⟩; rfl
    | f => simp; rcases drvListen .listenF s1 with ⟨r, s2⟩; rfl

theorem exchange_select_bridge (t : Tgt) :
    Gen.Fn.clf_exchange_select (isRemote t) (isLocal t) 1 2
      = match t with | .none => none | .remote _ => some 1 | .loc _ => some 2 := by
  cases t <;> rfl

/-- `ContactlessFrontend.exchange` of the model is the regenerated selection of the driver method -/
theorem exchange_bridge (device : Int) (s : St) : exchange s = exchangeGen (some device) s := by
  unfold exchange exchangeGen
  simp only [Gen.Fn.clf_exchange_nodev, exchange_select_bridge]
  cases s.target <;> simp [tgtId]


theorem and64 (b : Nat) : b &&& 64 = 64 * (b / 64 % 2) := by
  have h1 : (b &&& 64) / 2 ^ 6 = b / 2 ^ 6 &&& 64 / 2 ^ 6 := Nat.and_div_two_pow
  have h2 : (b &&& 64) % 2 ^ 6 = (b % 2 ^ 6) &&& (64 % 2 ^ 6) := Nat.and_mod_two_pow
  rw [show (64 : Nat) / 2 ^ 6 = 1 from rfl, and1] at h1
  rw [show (64 : Nat) % 2 ^ 6 = 0 from rfl, Nat.and_zero] at h2
  omega

theorem slice13 {α} (l : List α) : slice l 1 3 = (l.drop 1).take 2 := by
  unfold slice
  have h1 : clampBound l.length 1 = min 1 l.length := clampBound_ofNat l.length 1
  have h3 : clampBound l.length 3 = min 3 l.length := clampBound_ofNat l.length 3
  rw [h1, h3]
  match l with
  | [] => rfl
  | [a] => rfl
  | [a, b] => rfl
  | a :: b :: c :: r =>
    have e1 : min 1 (a :: b :: c :: r).length = 1 := by simp
    have e3 : min 3 (a :: b :: c :: r).length = 3 := by simp
    rw [e1, e3]

/-- the default on-discover of the rdwr option answers True exactly for targets without peer-to-peer support -/
theorem default_discover_bridge (sel sensf : Bytes) :
    Gen.Fn.clf_connect_default_discover sel sensf = .ok (defaultDiscoverRef sel sensf) := by
  unfold Gen.Fn.clf_connect_default_discover defaultDiscoverRef p2pCapable
  rw [slice13]
  cases sel with
  | nil =>
    simp only [ne_eq, not_true_eq_false, if_false, Py.bind_ok, Bool.false_eq_true, Bool.false_or]
    cases sensf with
    | nil => simp
    | cons a l => by_cases h : (l.take 2) = [1, 254] <;> simp [h]
  | cons b r =>
    simp only [ne_eq, reduceCtorEq, not_false_eq_true, if_true, getB_zero, Py.bind_ok]
    rw [show (64 : Int) = ((64 : Nat) : Int) from rfl, band_ofNat, and64]
    by_cases hb : b / 64 % 2 = 1
    · simp [hb]
    · have : b / 64 % 2 = 0 := by omega
      simp only [this, hb]
      cases sensf with
      | nil => simp
      | cons a l => by_cases h : (l.take 2) = [1, 254] <;> simp [h]

/-- the model's default on-discover (`Connect.defaultDiscover`) on the discovery responses of the target found -/
theorem default_discover_model (f : Found) : defaultDiscover f = defaultDiscoverGen f := by
  unfold defaultDiscover defaultDiscoverGen
  rw [default_discover_bridge]
  unfold discoverBytes defaultDiscoverRef p2pCapable Found.selRes
  by_cases h1 : f.tech = 1
  · cases hp : f.p2p <;> by_cases hv : f.var % 2 = 1 <;> simp [h1, hp, hv]
  · by_cases h3 : f.tech = 3
    · cases hp : f.p2p <;> simp [h1, h3, hp]
    · cases hp : f.p2p <;> simp [h1, h3, hp]


/-- the presence loop: `tag.is_present` is asked only while `terminate()` says False -/
theorem presence_loop_bridge (ts : List Bool) (s : St) : presenceLoop ts s = presenceLoopGen ts s := by
  induction ts generalizing s with
  | nil => rfl
  | cons t r ih =>
    cases t with
    | true => simp [presenceLoop, presenceLoopGen, Gen.Fn.clf_rdwr_present]
    | false =>
      simp only [presenceLoop, presenceLoopGen, presentNow, Bool.false_eq_true, if_false]
      rcases exchange (s.emit (.term false)) with ⟨q, s1⟩
      match q with
      | .ok (some d) => simp [Gen.Fn.clf_rdwr_present, ih]
      | .ok none => simp [Gen.Fn.clf_rdwr_present]
      | .error e => by_cases hc : isCommErr e = true <;> simp [hc, Gen.Fn.clf_rdwr_present]

theorem rdwr_step_bridge (o : RdwrOpts) (ts : List Bool) (s : St) : rdwrStep o ts s = rdwrStepGen o ts s := by
  unfold rdwrStep rdwrStepGen
  rcases sense o.targets o.iters s with ⟨q, s1⟩
  match q with
  | .error e => rfl
  | .ok none => simp [Gen.Fn.clf_rdwr_found]
  | .ok (some (id, f)) =>
    simp only [Option.map_some, Gen.Fn.clf_rdwr_found, ne_eq, reduceCtorEq, not_false_eq_true, decide_true, if_true,
      default_discover_model, (truth_bridge _).1, (truth_bridge _).2.1, presence_loop_bridge]
    rcases o.discover.run (defaultDiscoverGen f) .rdwr .discover s1 with ⟨dv, s2⟩
    simp only []
    cases dv.truthy with
    | false => rfl
    | true =>
      simp only [Bool.not_true, Bool.false_eq_true, if_false]
      rcases tagActivate f s2 with ⟨qa, s3⟩
      match qa with
      | .error e => rfl
      | .ok none => simp [Gen.Fn.clf_rdwr_activated]
      | .ok (some tt) =>
        simp only [Option.map_some, Gen.Fn.clf_rdwr_activated, ne_eq, reduceCtorEq, not_false_eq_true, decide_true,
          Bool.not_true, Bool.false_eq_true, if_false]
        rcases o.connect.run .true_ .rdwr .connect s3 with ⟨cv, s4⟩
        simp only []
        cases cv.truthy with
        | false => rfl
        | true =>
          simp only [Bool.not_true, Bool.false_eq_true, if_false]
          cases o.beep <;> simp [Gen.Fn.clf_rdwr_beep] <;> rfl


theorem llcp_role_bridge (o : LlcpOpts) (ini : Bool) (ts : List Bool) (s : St) :
    llcpRole o ini ts s = llcpRoleGen o ini ts s := by
  unfold llcpRole llcpRoleGen
  rcases s.ask (.llcActivate ini) with ⟨a, s1⟩
  simp only [(truth_bridge _).2.2.1]
  cases a <;> simp [Gen.Fn.clf_llcp_activated] <;> rfl

/-- which roles are tried: the regenerated role test on the regenerated role tuple -/
theorem role_match_bridge (r : RoleOpt) :
    Gen.Fn.clf_llcp_role_match "target" (roleNone r) (roleName r) = decide (r = .both ∨ r = .target)
    ∧ Gen.Fn.clf_llcp_role_match "initiator" (roleNone r) (roleName r) = decide (r = .both ∨ r = .initiator) := by
  cases r <;> exact ⟨by decide, by decide⟩

theorem llcp_step_bridge (o : LlcpOpts) (ts : List Bool) (s : St) : llcpStep o ts s = llcpStepGen o ts s := by
  unfold llcpStep llcpStepGen
  have hr : [Gen.Fn.clf_llcp_roles.1, Gen.Fn.clf_llcp_roles.2] = ["target", "initiator"] := rfl
  rw [hr]
  simp only [llcpRolesGen, (role_match_bridge o.role).1, (role_match_bridge o.role).2, decide_eq_true_eq,
    ← llcp_role_bridge]
  have e1 : ("target" == "initiator") = false := by decide
  have e2 : ("initiator" == "initiator") = true := by decide
  rw [e1, e2]
  by_cases h1 : o.role = .both ∨ o.role = .target
  · simp only [h1, if_true]
    rcases llcpRole o false ts s with ⟨r1, s1, ts1⟩
    cases r1 with
    | some r => rfl
    | none =>
      simp only []
      by_cases h2 : o.role = .both ∨ o.role = .initiator
      · simp only [h2, if_true]
        rcases llcpRole o true ts1 s1 with ⟨r2, s2, ts2⟩
        cases r2 <;> rfl
      · simp only [h2, if_false]
  · simp only [h1, if_false]
    by_cases h2 : o.role = .both ∨ o.role = .initiator
    · simp only [h2, if_true]
      rcases llcpRole o true ts s with ⟨r2, s2, ts2⟩
      cases r2 <;> rfl
    · simp only [h2, if_false]

theorem card_loop_bridge (ts : List Bool) (s : St) : cardLoop ts s = cardLoopGen ts s := by
  induction ts generalizing s with
  | nil => rfl
  | cons t r ih =>
    cases t with
    | true => simp [cardLoop, cardLoopGen, Gen.Fn.clf_card_go_on]
    | false =>
      simp only [cardLoop, cardLoopGen, Gen.Fn.clf_card_go_on, Bool.false_eq_true, not_false_eq_true, decide_true, if_true]
      rcases exchange (s.emit (.term false)) with ⟨q, s1⟩
      match q with
      | .ok d => simp [ih]
      | .error e => simp [ih]

theorem card_step_bridge (o : CardOpts) (ts : List Bool) (s : St) : cardStep o ts s = cardStepGen o ts s := by
  unfold cardStep cardStepGen
  rcases listen o.target s with ⟨q, s1⟩
  match q with
  | .error e => rfl
  | .ok none => rfl
  | .ok (some (id, f)) =>
    simp only [(truth_bridge _).2.2.2.1, (truth_bridge _).2.2.2.2, card_loop_bridge]
    rfl


/-- one step of the main loop: taken iff the option survived, `connect()` returns its result iff
`bool(result) is True` -/
theorem try_step_bridge (has done : Option Int → Bool)
    (hh : ∀ (o : Option (List Bool → St → StepOut)), has (mark o) = o.isSome) (hd : ∀ v, done (encRet v) = v.truthy)
    (f : Option (List Bool → St → StepOut)) (ts : List Bool) (s : St) :
    tryStep f ts s = tryStepGen has done f ts s := by
  unfold tryStep tryStepGen
  rw [hh]
  cases f with
  | none => rfl
  | some g =>
    simp only [Option.isSome_some, if_true, hd]
    rfl

theorem main_loop_bridge (l : Live) (k : Nat) (ts : List Bool) (s : St) : mainLoop l k ts s = mainLoopGen l k ts s := by
  have er : l.rdwr.map rdwrStep = l.rdwr.map rdwrStepGen := by
    congr 1; funext o ts s; exact rdwr_step_bridge o ts s
  have el : l.llcp.map llcpStep = l.llcp.map llcpStepGen := by
    congr 1; funext o ts s; exact llcp_step_bridge o ts s
  have ec : l.card.map cardStep = l.card.map cardStepGen := by
    congr 1; funext o ts s; exact card_step_bridge o ts s
  induction k generalizing ts s with
  | zero => rfl
  | succ k ih =>
    have t1 := fun f ts s => try_step_bridge Gen.Fn.clf_connect_has_rdwr Gen.Fn.clf_connect_rdwr_done
      (fun o => (has_bridge o).1) (fun v => (done_bridge v).1) f ts s
    have t2 := fun f ts s => try_step_bridge Gen.Fn.clf_connect_has_llcp Gen.Fn.clf_connect_llcp_done
      (fun o => (has_bridge o).2.1) (fun v => (done_bridge v).2.1) f ts s
    have t3 := fun f ts s => try_step_bridge Gen.Fn.clf_connect_has_card Gen.Fn.clf_connect_card_done
      (fun o => (has_bridge o).2.2) (fun v => (done_bridge v).2.2) f ts s
    simp only [mainLoop, mainLoopGen, er, el, ec, ← t1, ← t2, ← t3, ih]
    rcases askTerm ts s with ⟨t, s0, ts0⟩
    cases t <;> simp [Gen.Fn.clf_connect_go_on] <;> rfl

/-- which options survive their on-startup -/
theorem startup_bridge :
    (∀ (l : LlcpOpts), keepIf (Gen.Fn.clf_connect_llcp_startup (some 1) (keeps .llcp l.startup)) l
        = if keeps .llcp l.startup then some l else none)
    ∧ (∀ (c : CardOpts), keepIf (Gen.Fn.clf_connect_card_startup (some 1) (keeps .card c.startup)) c
        = if keeps .card c.startup then some c else none)
    ∧ (∀ (r : RdwrOpts), (match r.startup with | some (.nonIterable, _) => False | _ => True) →
        keepIf (Gen.Fn.clf_connect_rdwr_startup (some 1) (rdwrReturned r).1 (rdwrReturned r).2) r
          = if keeps .rdwr r.startup && !r.targets.isEmpty then some r else none) := by
  refine ⟨?_, ?_, ?_⟩
  · intro l; cases keeps .llcp l.startup <;> rfl
  · intro c; cases keeps .card c.startup <;> rfl
  · intro r h
    unfold Gen.Fn.clf_connect_rdwr_startup rdwrReturned keepIf keeps
    have hm : (markers r.targets ≠ []) ↔ r.targets.isEmpty = false := by
      cases r.targets <;> simp [markers]
    match hs : r.startup with
    | none => cases hte : r.targets.isEmpty <;> simp [hm, hte]
    | some (.proper, n) => cases hte : r.targets.isEmpty <;> simp [hm, hte]
    | some (.falsy, n) => simp
    | some (.wrongType, n) => simp
    | some (.nonIterable, n) => rw [hs] at h; exact absurd h (by simp)

theorem startup_rest_bridge (o : Opts) (ll : Option LlcpOpts) (s : St) :
    startupRest o ll s = startupRestGen o ll s := by
  unfold startupRest startupRestGen
  simp only [startup_bridge.2.1]
  cases o.rdwr with
  | none => rfl
  | some r =>
    simp only []
    match hs : r.startup with
    | some (.nonIterable, n) => simp
    | none => simp [startup_bridge.2.2 r (by rw [hs]; trivial), hs] <;> rfl
    | some (.proper, n) => simp [startup_bridge.2.2 r (by rw [hs]; trivial), hs] <;> rfl
    | some (.falsy, n) => simp [startup_bridge.2.2 r (by rw [hs]; trivial), hs] <;> rfl
    | some (.wrongType, n) => simp [startup_bridge.2.2 r (by rw [hs]; trivial), hs] <;> rfl

theorem startup_phase_bridge (o : Opts) (s : St) : startupPhase o s = startupPhaseGen o s := by
  unfold startupPhase startupPhaseGen
  simp only [startup_rest_bridge, startup_bridge.1]
  rfl

/-- `ContactlessFrontend.connect` of the model (open device) is the regenerated decision code around the scripted
world -/
theorem connect_bridge (device : Int) (o : Opts) (env : List Ans) (ts : List Bool) :
    connect o env ts = connectGen (some device) o env ts := by
  unfold connect connectGen
  simp only [Gen.Fn.clf_connect_nodev, startup_phase_bridge, no_options_bridge, main_loop_bridge]
  rfl


/-- `LocalTarget.brty` -/
theorem local_brty_bridge (send recv : String) : Gen.Fn.clf_local_brty send recv = localBrty send recv := rfl

example : Gen.Fn.clf_local_brty "106A" "106A" = "106A" ∧ Gen.Fn.clf_local_brty "212F" "424F" = "212F/424F" := by decide

/-! ## NFC-DEP option pass-through (C19) -/

/-- the pass-through of `_llcp_connect` is the reference definition: the regenerated key tuple, every key that is
present forwarded with its value -/
theorem dep_cfg_bridge (options : String → Option Int) : depCfgGen options = depCfg options := by
  unfold depCfgGen depCfg depKeys Gen.Fn.clf_llcp_dep_keys Gen.Fn.clf_llcp_dep_key_fwd
  show List.filterMap _ ["brs", "acm", "rwt", "lrt", "lri"] = _
  congr 1
  funext k
  cases options k <;> rfl

/-- C19 ("option pass-through from connect()"): an NFC-DEP option reaches `llc.activate` iff it is one of the five
keys and present in the llcp option dictionary - with whatever value, also `brs = 0`, `lri = 0`, `acm = False` -/
theorem gen_dep_cfg_mem (options : String → Option Int) (k : String) (v : Int) :
    (k, v) ∈ depCfgGen options ↔ k ∈ depKeys ∧ options k = some v := by
  rw [dep_cfg_bridge]
  unfold depCfg
  simp only [List.mem_filterMap, Option.map_eq_some_iff, Prod.mk.injEq]
  constructor
  · rintro ⟨a, ha, w, hw, rfl, rfl⟩; exact ⟨ha, hw⟩
  · rintro ⟨hk, hv⟩; exact ⟨k, hk, v, hv, rfl, rfl⟩

/-- a bit rate selector 0 (106 kbps) given in the options is forwarded, not replaced by the default 2 -/
example : ("brs", 0) ∈ depCfgGen (fun k => if k = "brs" then some 0 else none) := by decide
example : depCfgGen (fun k => if k = "lri" then some 0 else if k = "miu" then some 1024 else none) = [("lri", 0)] := by
  decide

/-- the roles `_llcp_connect` tries are the documented ones, Target first -/
theorem gen_roles_tried (r : RoleOpt) :
    (["target", "initiator"].filter (fun role => Gen.Fn.clf_llcp_role_match role (roleNone r) (roleName r))).map
        (fun role => role == "initiator") = rolesTried r := by
  cases r <;> decide

/-! ## statements of C18 for the regenerated code -/

/-- C18 `connect_callback_order` for `connectGen`: the callbacks of every run of the regenerated decision code
come in the documented order -/
theorem gen_connect_callback_order (device : Int) (o : Opts) (env : List Ans) (ts : List Bool) :
    (mon (connectGen (some device) o env ts).2.log).isSome = true := by
  rw [← connect_bridge]; exact C18.connect_callback_order o env ts

/-- C18 `release_iff_connect_true` (the part for runs that return) for `connectGen` -/
theorem gen_release_iff_connect_true (device : Int) (o : Opts) (env : List Ans) (ts : List Bool) (r : Role) (v : RetVal)
    (hv : (connectGen (some device) o env ts).1 = .ret v) :
    (connectGen (some device) o env ts).2.log.countP (isRelease r)
      = (connectGen (some device) o env ts).2.log.countP (isConnTrue r) := by
  rw [← connect_bridge] at hv ⊢
  exact (C18.release_iff_connect_true o env ts r).2.2 v hv

theorem arg_specs_ok (tl : List RT) : ((tl.map some).map argSpec).any (· == TgtSpec.notTarget) = false := by
  induction tl with
  | nil => rfl
  | cons t l ih => simp only [List.map_cons, List.any_cons, argSpec, rt_spec_ne, Bool.false_or]; exact ih

/-- C18 `sense_no_raise_unsupported` for `senseGen`: with two or more RemoteTargets the regenerated `sense()` raises
only what the device raises -/
theorem gen_sense_no_raise_unsupported (device : Int) (tl : List RT) (iters : Int) (s : St) (h2 : 2 ≤ tl.length) (e : Exc)
    (he : (senseGen (some device) (tl.map some) iters s).1 = .error e) : e = .io 5 ∨ e = .keyboardInterrupt := by
  rw [← sense_bridge] at he
  exact C18.sense_no_raise_unsupported _ iters s (arg_specs_ok tl) (by simpa using h2) e he

/-- C18 `sense_field_off_when_none` for `senseGen` -/
theorem gen_sense_field_off_when_none (device : Int) (tl : List RT) (iters : Int) (s : St)
    (hn : (senseGen (some device) (tl.map some) iters s).1 = .ok none) :
    ∃ seg, (senseGen (some device) (tl.map some) iters s).2.log = s.log ++ seg ∧ (sitesOf seg).getLast? = some .mute := by
  rw [← sense_bridge] at hn ⊢
  exact C18.sense_field_off_when_none _ iters s (arg_specs_ok tl) hn
/-! ## non-vacuity: the regenerated decisions on concrete inputs -/
example : Gen.Fn.clf_tta_sel_req [1, 2, 3] = .error .value := by decide
example : Gen.Fn.clf_tta_sel_req [1, 2, 3, 4] = .ok () := by decide
example : Gen.Fn.clf_tta_sel_req [] = .ok () := by decide
example : checkTtaGen [0x00, 0x0C] [0x11, 0x48, 1, 2, 3, 4] = .ok () := by decide
example : checkTtaGen [0x00, 0x0C] [] = .error .protocol := by decide
example : checkTtaGen [0x44, 0x00] [] = .ok () := by decide
example : checkTtaGen [0x44] [] = .error .protocol := by decide
example : Gen.Fn.clf_dep_checks (List.replicate 15 0) = .error .value := by decide
example : Gen.Fn.clf_dep_checks (List.replicate 16 0) = .ok () := by decide
example : Gen.Fn.clf_dep_checks (List.replicate 65 0) = .error .value := by decide
example : senseChoice ⟨none, [], "106A"⟩ = .ok (some 1) := by decide
example : senseChoice ⟨some [1], [], "106A"⟩ = .ok (some 4) := by decide
example : senseChoice ⟨none, [], "424F"⟩ = .ok (some 3) := by decide
example : senseChoice ⟨none, [], "106"⟩ = .error .unsupportedTarget := by decide
example : Gen.Fn.clf_sense_iters 3 = [0, 1, 2] := by decide
example : Gen.Fn.clf_sense_iters (-4) = [0] := by decide
example : Gen.Fn.clf_sense_sleep 1 3 = true ∧ Gen.Fn.clf_sense_sleep 2 3 = false := by decide
example : listenChoice none "212F" = .ok (some 3) := by decide
example : listenChoice (some []) "212F" = .ok (some 4) := by decide
example : listenChoice none "106C" = .error .value := by decide
example : Gen.Fn.clf_exchange_select false false 1 2 = none := by decide
example : Gen.Fn.clf_connect_default_discover [0x60] [] = .ok false := by decide
example : Gen.Fn.clf_connect_default_discover [0x20] [] = .ok true := by decide
example : Gen.Fn.clf_connect_default_discover [] [1, 1, 254, 0] = .ok false := by decide
example : Gen.Fn.clf_connect_default_discover [] [1, 2, 254, 0] = .ok true := by decide
example : Gen.Fn.clf_connect_rdwr_startup (some 8) [] true = none := by decide
example : Gen.Fn.clf_connect_rdwr_startup (some 8) [0] true = some 8 := by decide
example : Gen.Fn.clf_connect_rdwr_done (some 0) = false ∧ Gen.Fn.clf_connect_rdwr_done (some 1) = true
    ∧ Gen.Fn.clf_connect_rdwr_done none = false := by decide
/-- without any option connect() returns None; without a device it raises IOError(ENODEV) -/
example : (connectGen (some 1) ⟨none, none, none⟩ [] []).1 = .ret .none := by decide
example : (connectGen none ⟨none, none, none⟩ [] []).1 = .raised (.io 19) := by decide

end NfcVerif.FnBridge.Clf
