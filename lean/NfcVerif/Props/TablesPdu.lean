import NfcVerif.Gen.Tables
/-!
Bridge theorems (constants of the source = constants of the models). `Gen/Tables.lean` is
regenerated from `/repo/src/nfc` by `harness/translate_tables.py` on every run of a check that
depends on it; each theorem is closed by kernel evaluation, so an edit of a constant in the
source breaks it.  One small module per model so that the checks stay independent.
-/
namespace NfcVerif.Tables
open NfcVerif

/-- the defined LLCP PDU types (C11, C07): exactly these fourteen type codes carry a PDU class,
1011 and 1111 are unknown -/
theorem pdu_type_map_bridge :
    Gen.Tables.pduTypeMap = [(0, "Symmetry"), (1, "ParameterExchange"), (2, "AggregatedFrame"),
      (3, "UnnumberedInformation"), (4, "Connect"), (5, "Disconnect"), (6, "ConnectionComplete"),
      (7, "DisconnectedMode"), (8, "FrameReject"), (9, "ServiceNameLookup"), (10, "DataProtectionSetup"),
      (12, "Information"), (13, "ReceiveReady"), (14, "ReceiveNotReady")] := by decide

/-- PDU names that a data link connection accepts (C05, C07, C17) -/
theorem dlc_pdu_names_bridge :
    Gen.Tables.dlcPduNames = ["CONNECT", "DISC", "CC", "DM", "FRMR", "I", "RR", "RNR"] := by decide

end NfcVerif.Tables
