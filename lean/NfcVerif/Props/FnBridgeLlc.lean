import NfcVerif.Lemmas.FnBridgeLlc
import NfcVerif.Model.Sap
import NfcVerif.Model.SapLink
import NfcVerif.Model.Collect
import NfcVerif.Model.DlcSap
/-!
# Bridge theorems, group Llc (`nfc/llcp/llc.py`, PAX evaluation of `nfc/llcp/pdu.py` -> `Gen/FnLlc.lean` ->
`Model/Activate.lean`, `Model/Collect.lean`, `Model/Sap.lean`)

Properties C19 (parameter take-over at activation), C10, C17.  Encodings, stated in the theorems: the raw
TLV values of a received PAX PDU are the fields of `Activate.Pax` (`Option Nat`), passed to the regenerated
getters as `int | None` by `oi`.
-/
namespace NfcVerif.FnBridge.Llc
open NfcVerif NfcVerif.PyFn NfcVerif.Activate

/-! ## the getters of `ParameterExchange` that `activate()` stores into `cfg` (llc.py:366-371) -/

/-- `rcvd_pax.version` = `cfg['rcvd-ver']`; `_version is None` is passed as 0 -/
theorem pax_version_bridge (o : LlcOpts) (r : Pax) :
    Gen.Fn.llc_pax_version ((r.version.getD 0 : Nat) : Int) = pi (takeover o r).ver := by
  unfold Gen.Fn.llc_pax_version takeover pi
  cases hv : r.version with
  | none => simp
  | some v =>
    by_cases h0 : v = 0
    · subst h0; simp
    · have : ((v : Int) ≠ 0) := by omega
      simp only [Option.getD_some, this, h0, ne_eq, not_false_eq_true, if_true, if_false]
      py_bits

/-- `rcvd_pax.miu` = `cfg['send-miu']`: MIUX + 128, 128 without a MIUX TLV -/
theorem pax_miu_bridge (o : LlcOpts) (r : Pax) :
    Gen.Fn.llc_pax_miu (oi r.miux) = ((takeover o r).sendMiu : Nat) := by
  unfold Gen.Fn.llc_pax_miu takeover
  cases r.miux <;> simp

/-- `rcvd_pax.wks` = `cfg['send-wks']` -/
theorem pax_wks_bridge (o : LlcOpts) (r : Pax) :
    Gen.Fn.llc_pax_wks (oi r.wks) = ((takeover o r).sendWks : Nat) := by
  unfold Gen.Fn.llc_pax_wks takeover
  cases r.wks <;> simp

/-- `rcvd_pax.lto` = `cfg['recv-lto']` in milliseconds: LTO * 10, 100 ms without an LTO TLV -/
theorem pax_lto_bridge (o : LlcOpts) (r : Pax) :
    Gen.Fn.llc_pax_lto (oi r.lto) = ((takeover o r).recvLto : Nat) := by
  unfold Gen.Fn.llc_pax_lto takeover
  cases r.lto <;> simp

/-- `rcvd_pax.lsc` = `cfg['send-lsc']` -/
theorem pax_lsc_bridge (o : LlcOpts) (r : Pax) :
    Gen.Fn.llc_pax_lsc (oi r.opt) = ((takeover o r).sendLsc : Nat) := by
  unfold Gen.Fn.llc_pax_lsc takeover
  cases r.opt with
  | none => simp
  | some x => simp only [oi_some]; py_bits

/-- `rcvd_pax.dpc if self.cfg['llcp-sec'] else 0` = `cfg['llcp-dpc']` -/
theorem pax_dpc_bridge (o : LlcOpts) (r : Pax) :
    (if o.sec then Gen.Fn.llc_pax_dpc (oi r.opt) else 0) = ((takeover o r).dpc : Nat) := by
  unfold Gen.Fn.llc_pax_dpc takeover
  cases o.sec with
  | false => simp
  | true =>
    cases r.opt with
    | none => simp
    | some x => simp only [oi_some, if_true]; py_bits

/-- all of it: what the model says a controller holds after `activate()` is what the regenerated getters
return for the received PAX (the dictionary stores `self.cfg[..] = ..` themselves are not translated) -/
theorem pax_takeover_bridge (o : LlcOpts) (r : Pax) :
    let h := takeover o r
    pi h.ver = Gen.Fn.llc_pax_version ((r.version.getD 0 : Nat) : Int) ∧
    (h.sendMiu : Int) = Gen.Fn.llc_pax_miu (oi r.miux) ∧
    (h.recvLto : Int) = Gen.Fn.llc_pax_lto (oi r.lto) ∧
    (h.sendWks : Int) = Gen.Fn.llc_pax_wks (oi r.wks) ∧
    (h.sendLsc : Int) = Gen.Fn.llc_pax_lsc (oi r.opt) ∧
    (h.dpc : Int) = (if o.sec then Gen.Fn.llc_pax_dpc (oi r.opt) else 0) ∧
    h.recvMiu = o.miu ∧ h.sendLto = o.lto ∧ h.agf = o.agf ∧ h.sec = o.sec :=
  ⟨(pax_version_bridge o r).symm, (pax_miu_bridge o r).symm, (pax_lto_bridge o r).symm,
   (pax_wks_bridge o r).symm, (pax_lsc_bridge o r).symm, (pax_dpc_bridge o r).symm, rfl, rfl, rfl, rfl⟩

example : Gen.Fn.llc_pax_version 0x13 = (1, 3) := by decide
example : Gen.Fn.llc_pax_miu (some 120) = 248 := by decide
example : Gen.Fn.llc_pax_miu none = 128 := by decide
example : Gen.Fn.llc_pax_lto (some 50) = 500 := by decide
example : Gen.Fn.llc_pax_lsc (some 7) = 3 := by decide
example : Gen.Fn.llc_pax_dpc (some 7) = 1 := by decide

/-- `C19.negotiated_llc` for the regenerated getters: device A, evaluating the general bytes that B built
from any valid options, reads B's MIU, link timeout, service list and link service class - whatever A's
own options are -/
theorem gen_negotiated_llc (A B : LlcOpts) (hB : ValidLlc B) :
    ∃ gb r, encodeGb (sendPax B) = .ok gb ∧ decodeTlvs (gb.drop 3) = .ok r ∧
      Gen.Fn.llc_pax_miu (oi r.miux) = B.miu ∧
      Gen.Fn.llc_pax_lto (oi r.lto) = B.lto ∧
      Gen.Fn.llc_pax_wks (oi r.wks) = (wksOf B.saps : Nat) ∧
      Gen.Fn.llc_pax_lsc (oi r.opt) = B.lsc ∧
      Gen.Fn.llc_pax_version ((r.version.getD 0 : Nat) : Int) = (1, 3) := by
  obtain ⟨t, ht, _, _, hd⟩ := pax_roundtrip (sendPax B) (sendPax_wf B hB)
  refine ⟨magic ++ t, sendPax B, ?_, ?_, ?_⟩
  · simp [encodeGb, ht]
  · simpa [magic] using hd
  · have e := takeover_sendPax A B hB
    obtain ⟨h1, h2, h3, h4, h5, h6, h7⟩ := hB
    rw [pax_miu_bridge A, pax_lto_bridge A, pax_wks_bridge A, pax_lsc_bridge A, pax_version_bridge A, e]
    simp only [agreed, pi]
    and_intros <;> first | rfl | trivial | omega

/-! ## the setters of `ParameterExchange` that `activate()` uses to build the PAX it sends (llc.py:329-339) -/

/-- `send_pax.version = (a, b)`: the stored octet is major nibble, minor nibble (both masked) -/
theorem pax_set_version_bridge (a b : Nat) :
    Gen.Fn.llc_pax_set_version ((a : Int), (b : Int)) = (((a % 16) * 16 + b % 16 : Nat) : Int) := by
  unfold Gen.Fn.llc_pax_set_version
  py_bits
  rw [and240, or_nibble _ _ (Nat.mod_lt b (by omega))]
  omega

/-- `send_pax.miu = cfg['recv-miu']` when it is not 128: the MIUX the model's `sendPax` announces -/
theorem pax_set_miu_bridge (o : LlcOpts) :
    (sendPax o).miux = if o.miu ≠ 128 then some (Gen.Fn.llc_pax_set_miu o.miu).toNat else none := by
  unfold sendPax Gen.Fn.llc_pax_set_miu imax
  simp only
  split
  · congr 2
    split <;> omega
  · rfl

/-- `send_pax.wks = wks`: the service list of `sendPax`, masked to 16 bit -/
theorem pax_set_wks_bridge (o : LlcOpts) :
    (sendPax o).wks = some (Gen.Fn.llc_pax_set_wks ((1 + ((o.saps.filter (· < 15)).map (fun s => 2 ^ s)).sum : Nat) : Int)).toNat := by
  unfold sendPax Gen.Fn.llc_pax_set_wks wksOf
  simp only [band_65535]
  congr 1

/-- `send_pax.lto = cfg['send-lto']` when it is not 100: units of 10 ms (floor), one octet, for ANY int option value -/
theorem pax_set_lto_bridge (o : LlcOpts) :
    (sendPax o).lto = if o.lto ≠ 100 then some (Gen.Fn.llc_pax_set_lto o.lto).toNat else none := by
  unfold sendPax Gen.Fn.llc_pax_set_lto
  simp only [band_255, Int.fdiv_eq_ediv_of_nonneg o.lto (show (0 : Int) ≤ 10 by omega)]


example : Gen.Fn.llc_pax_set_version (1, 3) = 0x13 := by decide
example : Gen.Fn.llc_pax_set_miu 248 = 120 := by decide
example : Gen.Fn.llc_pax_set_miu 100 = 0 := by decide
example : Gen.Fn.llc_pax_set_lto 500 = 50 := by decide
example : Gen.Fn.llc_pax_set_wks 0x10013 = 0x13 := by decide

/-- the version octet `activate()` sends is 1.3 (`sendPax.version`) -/
theorem gen_sendPax_version (o : LlcOpts) :
    (sendPax o).version = some (Gen.Fn.llc_pax_set_version (((1 : Nat) : Int), ((3 : Nat) : Int))).toNat := by
  rw [pax_set_version_bridge]; rfl

/-- setter then getter: a MIU option in 128..2175 comes back unchanged (`C19.negotiated_llc` rests on it),
one below 128 is announced as 128 (`C19.miu_below_128_counterexample`) -/
theorem gen_miu_set_get (v : Int) (h : v ≤ 2175) :
    Gen.Fn.llc_pax_miu (some (Gen.Fn.llc_pax_set_miu v)) = max v 128 := by
  unfold Gen.Fn.llc_pax_miu Gen.Fn.llc_pax_set_miu imax
  simp only
  split <;> omega

/-- setter then getter: a link timeout that is a multiple of 10 ms in 0..2550 comes back unchanged -/
theorem gen_lto_set_get (v : Int) (h0 : 0 ≤ v) (h1 : v ≤ 2550) (h10 : v % 10 = 0) :
    Gen.Fn.llc_pax_lto (some (Gen.Fn.llc_pax_set_lto v)) = v := by
  unfold Gen.Fn.llc_pax_lto Gen.Fn.llc_pax_set_lto
  simp only [band_255]
  omega

/-! ## `ParameterExchange.__len__` -/

/-- `len(pax)` is the length of the encoded PDU: header plus the TLVs `encode()` writes -/
theorem pax_len_bridge (p : Pax) (t : Bytes) (h : encodeTlvs p = .ok t) :
    Gen.Fn.llc_pax_len (oi p.version) (oi p.miux) (oi p.wks) (oi p.lto) (oi p.opt) = ((2 + t.length : Nat) : Int) := by
  obtain ⟨ver, miux, wks, lto, opt⟩ := p
  unfold encodeTlvs at h
  unfold Gen.Fn.llc_pax_len
  cases ver <;> cases miux <;> cases wks <;> cases lto <;> cases opt <;>
    simp only [tlv1, tlv2, Py.bind_ok] at h <;>
    (repeat' split at h) <;>
    first
    | (simp only [Py.bind_error] at h; exact absurd h (by simp))
    | (simp only [Py.bind_ok, Except.ok.injEq] at h; subst h; simp)

example : Gen.Fn.llc_pax_len (some 0x13) none (some 1) none none = 9 := by decide

/-! ## `listen(socket, backlog)` -/

/-- the backlog of a listening socket: negative -> `ValueError`, otherwise at most 16 -/
theorem listen_backlog_bridge (b : Int) :
    Gen.Fn.llc_listen_backlog b = if b < 0 then .error .value else .ok (min b 16) := by
  unfold Gen.Fn.llc_listen_backlog imin
  by_cases h : b < 0
  · simp [h]
  · simp only [h, if_false]
    congr 1
    by_cases h2 : (16 : Int) < b
    · simp [h2]; omega
    · simp [h2]; omega

/-- the backlog handed to `socket.listen` is in `0..16` -/
theorem gen_listen_backlog_range (b r : Int) (h : Gen.Fn.llc_listen_backlog b = .ok r) : 0 ≤ r ∧ r ≤ 16 := by
  rw [listen_backlog_bridge] at h
  split at h
  · cases h
  · cases h; omega

example : Gen.Fn.llc_listen_backlog 40 = .ok 16 := by decide
example : Gen.Fn.llc_listen_backlog (-1) = .error .value := by decide

/-! ## service discovery, connect-by-name, bind (C17) -/

/-- the address a received SDRES value `v` is cached under (`ServiceDiscovery.enqueue`): SAP 1 when the
compatibility bit 6 is set, else the low six bits - the `a` of the model's `Sap.sdResponses` -/
theorem sd_enqueue_sap_bridge (v : Nat) :
    Gen.Fn.llc_sd_enqueue_sap v = ((if (v / 64) % 2 = 1 then 1 else v % 64 : Nat) : Int) := by
  unfold Gen.Fn.llc_sd_enqueue_sap
  py_bits
  have e : (2 : Nat) ^ 6 = 64 := rfl
  rw [e]
  by_cases h : v / 64 % 2 = 1
  · simp [h]
  · simp [h]

/-- a resolved address is a valid SAP (0..63) whatever the peer sent -/
theorem gen_sd_enqueue_sap_range (v : Nat) :
    0 ≤ Gen.Fn.llc_sd_enqueue_sap v ∧ Gen.Fn.llc_sd_enqueue_sap v ≤ 63 := by
  rw [sd_enqueue_sap_bridge]; split <;> omega

/-- one step of the model's `sdResponses` written with the regenerated function -/
theorem gen_sdResponses_step (sd : Sap.Sd) (tid v : Nat) (t : List (Nat × Nat)) (nm : Bytes)
    (h : sd.sent.lookup tid = some nm) :
    Sap.sdResponses sd ((tid, v) :: t) =
      Sap.sdResponses { sd with cache := Sap.dictSet nm (Gen.Fn.llc_sd_enqueue_sap v).toNat sd.cache,
                                tids := sd.tids ++ [tid] } t := by
  rw [sd_enqueue_sap_bridge, Int.toNat_natCast]
  simp only [Sap.sdResponses, h]

example : Gen.Fn.llc_sd_enqueue_sap 0x50 = 1 := by decide
example : Gen.Fn.llc_sd_enqueue_sap 0x21 = 33 := by decide

/-- connect-by-name to an unknown service: DM reason 0x10 when the CONNECT carried no service name, 0x02
otherwise - as in the model's `Sap.dispatch` -/
theorem dispatch_dm_reason_bridge (sn : Option Bytes) :
    Gen.Fn.llc_dispatch_dm_reason sn = ((if sn.isNone then 0x10 else 2 : Nat) : Int) := by
  unfold Gen.Fn.llc_dispatch_dm_reason
  cases sn <;> rfl

example : Gen.Fn.llc_dispatch_dm_reason none = 16 := by decide

/-- `_bind_by_addr(socket, addr)`: an address outside 0..63 is refused with EFAULT, exactly when the
model's `Sap.bind` refuses it -/
theorem bind_addr_range_bridge (a : Int) :
    Gen.Fn.llc_bind_addr_range a = if a < 0 ∨ a > 63 then .error (.llcp Sap.EFAULT) else .ok () := rfl

/-- the model's `bind` of an unbound socket to an explicit address starts with the regenerated check -/
theorem gen_bind_addr (c : Sap.Llc) (id : Nat) (a : Int) (hu : (c.sock id).addr = none) :
    (∀ e, Gen.Fn.llc_bind_addr_range a = .error e → Sap.bind c id (.addr a) = .error e) ∧
    (Gen.Fn.llc_bind_addr_range a = .ok () → 0 ≤ a ∧ a ≤ 63 ∧
      Sap.bind c id (.addr a) =
        (if 32 ≤ a ∨ (c.sock id).kind = .raw then
           if (c.sap a.toNat).isNone then pure (Sap.bindAt c id a.toNat) else throw (.llcp Sap.EADDRINUSE)
         else throw (.llcp Sap.EACCES))) := by
  rw [bind_addr_range_bridge]
  unfold Sap.bind
  by_cases h : a < 0 ∨ a > 63
  · simp [h, hu]
  · simp only [h, if_false, hu, Option.isSome_none, Bool.false_eq_true]
    refine ⟨?_, ?_⟩
    · intro e he; cases he
    · intro _; exact ⟨by omega, by omega, trivial⟩

example : Gen.Fn.llc_bind_addr_range 64 = .error (.llcp 14) := by decide
example : Gen.Fn.llc_bind_addr_range 63 = .ok () := by decide

/-! ## batch 2: construction of the PAX that is sent, acceptance of the received general bytes -/

/-- the OPT octet `activate()` sends: LSC in bits 0-1 (only when the option is not 0), the DPC bit 2 when
security is enabled - `sendPax.opt` through the two setters, for ANY int `lsc` option -/
theorem pax_set_opt_bridge (o : LlcOpts) :
    (sendPax o).opt =
      (let o0 : Option Nat := if o.lsc ≠ 0 then some (Gen.Fn.llc_pax_set_lsc o.lsc none).toNat else none
       if o.sec then some (Gen.Fn.llc_pax_set_dpc 1 (oi o0)).toNat else o0) := by
  have h1 : Gen.Fn.llc_pax_set_lsc o.lsc none = o.lsc % 4 := by
    unfold Gen.Fn.llc_pax_set_lsc
    simp only [band_3]
    have : band 0 252 = 0 := by decide
    rw [this]
    have h : 0 ≤ o.lsc % 4 := by omega
    obtain ⟨n, hn⟩ := Int.eq_ofNat_of_zero_le h
    rw [hn]
    show bor ((0 : Nat) : Int) (n : Int) = _
    rw [bor_ofNat]; simp
  have h2 : ∀ x : Option Nat, Gen.Fn.llc_pax_set_dpc 1 (oi x) = (((x.getD 0 &&& 0xFB) ||| 4 : Nat) : Int) := by
    intro x
    unfold Gen.Fn.llc_pax_set_dpc
    have e4 : shl (if (decide ((1 : Int) ≠ 0)) = true then 1 else 0) 2 = ((4 : Nat) : Int) := by decide
    rw [e4]
    cases x with
    | none =>
      simp only [oi_none, Option.getD_none]
      show bor (band ((0 : Nat) : Int) ((251 : Nat) : Int)) _ = _
      rw [band_ofNat, bor_ofNat]
    | some v =>
      simp only [oi_some, Option.getD_some]
      by_cases hv : v = 0
      · subst hv
        show bor (band ((0 : Nat) : Int) ((251 : Nat) : Int)) _ = _
        rw [band_ofNat, bor_ofNat]
      · have : (v : Int) ≠ 0 := by omega
        simp only [this, ne_eq, not_false_eq_true, if_true]
        show bor (band (v : Int) ((251 : Nat) : Int)) _ = _
        rw [band_ofNat, bor_ofNat]
  unfold sendPax
  simp only [h1, h2]
  by_cases hl : o.lsc = 0 <;> cases o.sec <;> simp [hl]


/-- which setters `activate()` calls with which option value (statements 4-9): version (1, 3) and the
service list always, MIU unless 128, LTO unless 100, LSC unless 0, DPC := 1 with security enabled -/
theorem activate_pax_bridge (wks miu lto lsc : Int) (sec : Bool) :
    Gen.Fn.llc_activate_pax wks miu lto lsc sec none none none none =
      ((1, 3), wks, (if miu ≠ 128 then some miu else none), (if lto ≠ 100 then some lto else none),
       (if lsc ≠ 0 then some lsc else none), (if sec then some 1 else none)) := by
  unfold Gen.Fn.llc_activate_pax
  cases sec <;> rfl

/-- the general bytes are taken for LLCP parameters iff they start with the magic number and have at least
six octets - the model's `gbAccepted` -/
theorem activate_gb_ok_bridge (gb : Bytes) :
    Gen.Fn.llc_activate_gb_ok gb = gbAccepted gb := by
  unfold Gen.Fn.llc_activate_gb_ok gbAccepted magic
  match gb with
  | [] => simp [len_eq]
  | [a] => simp [len_eq]
  | [a, b] => simp [len_eq]
  | a :: b :: c :: rest =>
    have hp : (List.isPrefixOf [70, 102, 109] (a :: b :: c :: rest) = true) ↔ (a = 70 ∧ b = 102 ∧ c = 109) := by
      simp only [List.isPrefixOf, Bool.and_eq_true, beq_iff_eq, and_true]
      constructor
      · rintro ⟨h1, h2, h3⟩; exact ⟨h1.symm, h2.symm, h3.symm⟩
      · rintro ⟨h1, h2, h3⟩; exact ⟨h1.symm, h2.symm, h3.symm⟩
    have ht : ((a :: b :: c :: rest).take 3 == [0x46, 0x66, 0x6D]) = decide (a = 70 ∧ b = 102 ∧ c = 109) := by
      simp only [List.take_succ_cons, List.take_zero]
      by_cases ha : a = 70 <;> by_cases hb : b = 102 <;> by_cases hc : c = 109 <;> simp [ha, hb, hc]
    rw [ht]
    simp only [hp, len_eq, ne_eq, reduceCtorEq, not_false_eq_true, true_and, ge_iff_le, Bool.decide_and]
    congr 2
    apply propext
    simp only [List.length_cons]
    omega

/-- what is handed to `pdu.decode`: the PAX header `00 40` in front of the TLVs behind the magic number -/
theorem activate_pax_bytes_bridge (gb : Bytes) :
    Gen.Fn.llc_activate_pax_bytes gb = [0, 64] ++ gb.drop 3 := by
  unfold Gen.Fn.llc_activate_pax_bytes
  rw [show (3 : Int) = ((3 : Nat) : Int) from rfl, sliceFrom_ofNat]

/-- `cfg['llcp-dpc']`: the peer's DPC bit, 0 when the local option `sec` is off -/
theorem activate_dpc_bridge (o : LlcOpts) (r : Pax) :
    Gen.Fn.llc_activate_dpc (Gen.Fn.llc_pax_dpc (oi r.opt)) o.sec = ((takeover o r).dpc : Nat) := by
  unfold Gen.Fn.llc_activate_dpc Gen.Fn.llc_pax_dpc takeover
  cases o.sec with
  | false => simp
  | true =>
    cases r.opt with
    | none => simp
    | some x => simp only [oi_some, if_true]; py_bits

/-- the second half of `activate()` in the model (`llcLink`) with the regenerated acceptance test and the
regenerated argument of the decoder -/
theorem gen_llcLink (o : LlcOpts) (gb : Bytes) :
    llcLink o gb =
      if Gen.Fn.llc_activate_gb_ok gb then
        match decodeTlvs ((Gen.Fn.llc_activate_pax_bytes gb).drop 2) with
        | .ok r => .ok (some (takeover o r))
        | .error e => if e = .decodeError then .ok none else .error e
      else .ok none := by
  rw [activate_gb_ok_bridge, activate_pax_bytes_bridge]
  rfl

/-- `secure_data_transfer`: exactly when the agreed DPC value is 1 -/
theorem secure_data_transfer_bridge (dpc : Nat) :
    Gen.Fn.llc_secure_data_transfer dpc = decide (dpc = 1) := by
  unfold Gen.Fn.llc_secure_data_transfer
  by_cases h : dpc = 1
  · subst h; rfl
  · have : ¬ (dpc : Int) = 1 := by omega
    simp [h, this]

/-! ## `collect()` -/

/-- `icv_size` of `collect()` is the model's `icvOf` -/
theorem collect_icv_bridge (sec : Option Nat) :
    Gen.Fn.llc_collect_icv sec.isSome ((sec.getD 0 : Nat) : Int) = (Collect.icvOf sec : Nat) := by
  unfold Gen.Fn.llc_collect_icv Collect.icvOf
  cases sec <;> simp

/-- the first PDU is sent alone when its information field fills the link MIU (`Collect.collect`) -/
theorem collect_first_full_bridge (p : Collect.QPdu) (sendMiu : Nat) (h : p.hdr ≤ p.len) :
    Gen.Fn.llc_collect_first_full sendMiu p.len p.hdr = decide ((p.info : Int) ≥ sendMiu) := by
  unfold Gen.Fn.llc_collect_first_full Collect.QPdu.info
  congr 1
  apply propext
  omega

/-- all three computations of the aggregation budget are the model's `Collect.budget` -/
theorem collect_budget_bridge (sendMiu : Nat) (subs : List Collect.QPdu) :
    Gen.Fn.llc_collect_budget0 sendMiu (Collect.agfLen subs) = Collect.budget sendMiu subs ∧
    Gen.Fn.llc_collect_budget1 sendMiu (Collect.agfLen subs) = Collect.budget sendMiu subs ∧
    Gen.Fn.llc_collect_budget2 sendMiu (Collect.agfLen subs) = Collect.budget sendMiu subs :=
  ⟨rfl, rfl, rfl⟩


/-! ## `ServiceDiscovery.dequeue` batching (C10) -/

/-- one turn of the `while miu_size >= 4` loop is one step of the model's `takeSdres` -/
theorem sd_res_bridge (x : Nat) (rest : List Nat) (m : Int) (n : Nat) :
    Collect.takeSdres (x :: rest) m n =
      if Gen.Fn.llc_sd_res_cond m then Collect.takeSdres rest (Gen.Fn.llc_sd_res_take m) (n + 1)
      else (n, x :: rest, m) := by
  unfold Gen.Fn.llc_sd_res_cond Gen.Fn.llc_sd_res_take
  simp only [Collect.takeSdres, decide_eq_true_eq]

/-- one turn of the `for i in range(len(self.sdreq))` loop is one step of the model's `takeSdreq`: a request
of `3 + len(name)` octets that does not fit is rotated to the end, otherwise the budget shrinks by its size -/
theorem sd_req_bridge (k tid : Nat) (name : Bytes) (rest : List (Nat × Nat)) (m : Int) (acc : Nat) :
    Collect.takeSdreq (k + 1) ((tid, name.length) :: rest) m acc =
      if Gen.Fn.llc_sd_req_skip m name then Collect.takeSdreq k (rest ++ [(tid, name.length)]) m acc
      else Collect.takeSdreq k rest (Gen.Fn.llc_sd_req_take m name) (acc + (3 + name.length)) := by
  unfold Gen.Fn.llc_sd_req_skip Gen.Fn.llc_sd_req_take
  simp only [Collect.takeSdreq, len_eq]
  by_cases h : 3 + (name.length : Int) > m <;> simp [h]

/-- a pending DM PDU of the service discovery component is sent only with a positive budget (`Sd.dequeue`) -/
theorem sd_dm_cond_bridge (s : Collect.Sd) (miu : Int) (h : ¬ (s.sdres ≠ [] ∨ s.sdreq ≠ [])) :
    s.dequeue miu =
      if Gen.Fn.llc_sd_dm_cond miu s.dmpdu.length then
        (match s.dmpdu with | p :: rest => (some p, { s with dmpdu := rest }) | [] => (none, s))
      else (none, s) := by
  unfold Gen.Fn.llc_sd_dm_cond Collect.Sd.dequeue
  simp only [h, if_false]
  cases hd : s.dmpdu with
  | nil => simp
  | cons p rest =>
    by_cases hm : miu > 0
    · simp [hm]
    · simp [hm]

/-! ## socket API (C17, C10) -/

/-- `_bind_by_addr` as a decision: EFAULT outside 0..63, EACCES below 32 unless the socket is a raw access
point, EADDRINUSE when the table entry is taken - the model's `Sap.bind` with an explicit address -/
theorem bind_by_addr_bridge (c : Sap.Llc) (id : Nat) (a : Int) (hu : (c.sock id).addr = none) :
    Sap.bind c id (.addr a) =
      match Gen.Fn.llc_bind_by_addr a (decide ((c.sock id).kind = .raw))
              (if (c.sap a.toNat).isSome then some 1 else none) with
      | .error e => .error e
      | .ok () => .ok (Sap.bindAt c id a.toNat) := by
  unfold Gen.Fn.llc_bind_by_addr Sap.bind
  simp only [hu, Option.isSome_none, Bool.false_eq_true, if_false, mem_range]
  by_cases h : a < 0 ∨ a > 63
  · simp [h]; rfl
  · simp only [h, if_false]
    by_cases h32 : 32 ≤ a
    · have : (32 ≤ a ∧ a < 64) := by omega
      cases hs : (c.sap a.toNat) <;> simp [h32, this] <;> rfl
    · have : ¬ (32 ≤ a ∧ a < 64) := by omega
      by_cases hr : (c.sock id).kind = .raw
      · cases hs : (c.sap a.toNat) <;> simp [h32, hr] <;> rfl
      · simp [h32, hr]; rfl

/-- `llc.setsockopt(SO_RCVMIU)` never sets a connection receive MIU above the link's (`DlcSap.Ctl.newSock`) -/
theorem setsockopt_clamp_bridge (option value recvMiu : Int) :
    Gen.Fn.llc_setsockopt_clamp option value recvMiu = if option = 2 then min value recvMiu else value := by
  have hm : ∀ a b : Int, imin a b = min a b := by
    intro a b; unfold imin; split <;> omega
  unfold Gen.Fn.llc_setsockopt_clamp
  simp only [hm]

/-- `llc.connect`: the connection send MIU is the model's `clampSendMiu` (C10 `ui_i_payload_bound`) -/
theorem connect_clamp_bridge (peerMiu linkMiu : Nat) :
    Gen.Fn.llc_connect_clamp peerMiu linkMiu = (Collect.clampSendMiu peerMiu linkMiu : Nat) := by
  unfold Gen.Fn.llc_connect_clamp Collect.clampSendMiu
  by_cases h : peerMiu > linkMiu
  · have : (peerMiu : Int) > linkMiu := by omega
    simp [h, this]
  · have : ¬ (peerMiu : Int) > linkMiu := by omega
    simp [h, this]

/-- `llc.accept`: the same clamp -/
theorem accept_clamp_bridge (peerMiu linkMiu : Nat) :
    Gen.Fn.llc_accept_clamp peerMiu linkMiu = (Collect.clampSendMiu peerMiu linkMiu : Nat) := by
  unfold Gen.Fn.llc_accept_clamp Collect.clampSendMiu
  by_cases h : peerMiu > linkMiu
  · have : (peerMiu : Int) > linkMiu := by omega
    simp [h, this]
  · have : ¬ (peerMiu : Int) > linkMiu := by omega
    simp [h, this]

/-- `llc.poll` / `recvfrom`: EBADF exactly when the model's `badFd` holds -/
theorem poll_badf_bridge (c : Sap.Llc) (addr : Option Nat) :
    Gen.Fn.llc_poll_badf ((addr.getD 0 : Nat) : Int) (match addr with | some a => (c.sap a).isSome | none => false)
      = if Sap.badFd c addr then .error (.llcp Sap.EBADF) else .ok () := by
  unfold Gen.Fn.llc_poll_badf Sap.badFd
  cases addr with
  | none => simp; rfl
  | some a =>
    by_cases h0 : a = 0
    · subst h0; simp; rfl
    · cases hs : c.sap a <;> simp [h0] <;> rfl


example : Gen.Fn.llc_pax_set_lsc 3 none = 3 := by decide
example : Gen.Fn.llc_pax_set_dpc 1 (some 3) = 7 := by decide
example : Gen.Fn.llc_activate_gb_ok [70, 102, 109, 1, 1, 0x13] = true := by decide
example : Gen.Fn.llc_activate_gb_ok [70, 102, 109, 1, 1] = false := by decide
example : Gen.Fn.llc_collect_budget0 128 7 = 118 := by decide
example : Gen.Fn.llc_sd_req_skip 10 [1, 2, 3, 4, 5, 6, 7, 8] = true := by decide
example : Gen.Fn.llc_bind_by_addr 16 false none = .error (.llcp 13) := by decide
example : Gen.Fn.llc_bind_by_addr 16 true none = .ok () := by decide
example : Gen.Fn.llc_bind_by_addr 40 false (some 1) = .error (.llcp 98) := by decide
example : Gen.Fn.llc_connect_clamp 2175 128 = 128 := by decide
example : Gen.Fn.llc_poll_badf 0 true = .error (.llcp 9) := by decide

/-- `gb = b'Ffm' + pdu.encode(send_pax)[2:]`: the magic number and the encoded PDU without its two header
octets; with the model's TLV encoder this is `Activate.encodeGb` -/
theorem activate_gb_bridge (enc : Bytes) : Gen.Fn.llc_activate_gb enc = magic ++ enc.drop 2 := by
  unfold Gen.Fn.llc_activate_gb magic
  rw [show (2 : Int) = ((2 : Nat) : Int) from rfl, sliceFrom_ofNat]

theorem gen_encodeGb (p : Pax) :
    encodeGb p = encodeTlvs p >>= fun t => .ok (Gen.Fn.llc_activate_gb ([0, 64] ++ t)) := by
  simp only [activate_gb_bridge]
  rfl

example : Gen.Fn.llc_activate_gb [0, 64, 1, 1, 0x13] = [70, 102, 109, 1, 1, 0x13] := by decide

/-! ## bind preconditions, EBADF, connect-by-name -/

/-- `bind(socket, ..)` before the address search: EINVAL (22) for a socket that has an address - the first
test of the model's `Sap.bind` -, ESHUTDOWN (108) once `terminate()` has run -/
theorem bind_pre_bridge (addr : Option Nat) (terminated : Bool) :
    Gen.Fn.llc_bind_pre (oi addr) terminated =
      if addr.isSome then .error (.llcp Sap.EINVAL) else if terminated then .error (.llcp Sap.ESHUTDOWN) else .ok () := by
  unfold Gen.Fn.llc_bind_pre
  cases addr <;> cases terminated <;> rfl

theorem gen_bind_einval (c : Sap.Llc) (id : Nat) (arg : Sap.BindArg) (x : Exc)
    (h : Gen.Fn.llc_bind_pre (oi (c.sock id).addr) false = .error x) : Sap.bind c id arg = .error x := by
  rw [bind_pre_bridge] at h
  unfold Sap.bind
  cases ha : (c.sock id).addr with
  | none => simp [ha] at h
  | some a => simp [ha] at h ⊢; rw [← h]

/-- `recvfrom`: the same EBADF test as `poll` -/
theorem recvfrom_badf_bridge (c : Sap.Llc) (addr : Option Nat) :
    Gen.Fn.llc_recvfrom_badf ((addr.getD 0 : Nat) : Int) (match addr with | some a => (c.sap a).isSome | none => false)
      = if Sap.badFd c addr then .error (.llcp Sap.EBADF) else .ok () :=
  poll_badf_bridge c addr

/-- connect-by-name (`dispatch`): "no such service" when the name is unknown, maps to address 0, or the
address has no service access point - the two `none` branches of the model's `Sap.dispatch` -/
theorem dispatch_unknown_bridge (c : Sap.Llc) (addr : Option Nat) :
    Gen.Fn.llc_dispatch_unknown (oi addr) (match addr with | some a => (if (c.sap a).isSome then some 1 else none) | none => none)
      = match addr with
        | none => true
        | some a => (match (if a = 0 then none else c.sap a) with | none => true | some _ => false) := by
  unfold Gen.Fn.llc_dispatch_unknown
  cases addr with
  | none => simp
  | some a =>
    by_cases h0 : a = 0
    · subst h0; simp
    · cases hs : c.sap a <;> simp [h0, hs]


example : Gen.Fn.llc_bind_pre (some 32) false = .error (.llcp 22) := by decide
example : Gen.Fn.llc_bind_pre none true = .error (.llcp 108) := by decide
example : Gen.Fn.llc_dispatch_unknown (some 4) none = true := by decide
example : Gen.Fn.llc_dispatch_unknown (some 4) (some 1) = false := by decide

/-- **the PAX PDU `activate()` sends is the model's `sendPax`**: the regenerated statements 4-9 of `activate`
decide which setter is called with which option, the regenerated setters compute the stored TLV values
(`wks` is the value of the comprehension in statement 2, the model's sum over the registered SAPs below 15) -/
theorem gen_sendPax (o : LlcOpts) :
    let wks : Nat := 1 + ((o.saps.filter (· < 15)).map (fun s => 2 ^ s)).sum
    let r := Gen.Fn.llc_activate_pax (wks : Int) o.miu o.lto o.lsc o.sec none none none none
    (sendPax o).version = some (Gen.Fn.llc_pax_set_version r.1).toNat ∧
    (sendPax o).wks = some (Gen.Fn.llc_pax_set_wks r.2.1).toNat ∧
    (sendPax o).miux = r.2.2.1.map (fun v => (Gen.Fn.llc_pax_set_miu v).toNat) ∧
    (sendPax o).lto = r.2.2.2.1.map (fun v => (Gen.Fn.llc_pax_set_lto v).toNat) ∧
    (sendPax o).opt =
      (let o0 : Option Nat := r.2.2.2.2.1.map (fun v => (Gen.Fn.llc_pax_set_lsc v none).toNat)
       match r.2.2.2.2.2 with
       | some d => some (Gen.Fn.llc_pax_set_dpc d (oi o0)).toNat
       | none => o0) := by
  intro wks r
  have hr : r = ((1, 3), (wks : Int), (if o.miu ≠ 128 then some o.miu else none),
      (if o.lto ≠ 100 then some o.lto else none), (if o.lsc ≠ 0 then some o.lsc else none),
      (if o.sec then some 1 else none)) := activate_pax_bridge _ _ _ _ _
  rw [hr]
  refine ⟨gen_sendPax_version o, pax_set_wks_bridge o, ?_, ?_, ?_⟩
  · rw [pax_set_miu_bridge]; split <;> rfl
  · rw [pax_set_lto_bridge]; split <;> rfl
  · rw [pax_set_opt_bridge]
    by_cases hl : o.lsc = 0 <;> cases o.sec <;> simp [hl]


/-! ## bind without an address / by service name (C17) -/

/-- the first free address of a range found by the model lies in that range -/
theorem freeIn_range (c : Sap.Llc) (lo cnt a : Nat) (h : Sap.freeIn c lo cnt = some a) :
    lo ≤ a ∧ a < lo + cnt ∧ (c.sap a).isNone = true := by
  unfold Sap.freeIn at h
  have hm := List.mem_of_find?_eq_some h
  have hp := List.find?_some h
  rw [List.mem_range'_1] at hm
  exact ⟨hm.1, hm.2, hp⟩

/-- `_bind_by_none`: with a free entry at `sap[32 + i]` the socket gets address `32 + i`, with none EAGAIN -
the model's `Sap.bind` without an address -/
theorem bind_by_none_bridge (c : Sap.Llc) (id : Nat) (hu : (c.sock id).addr = none) :
    Sap.bind c id .none =
      match Sap.freeIn c 32 32 with
      | none => Gen.Fn.llc_bind_none_full >>= fun _ => .ok c
      | some a => .ok (Sap.bindAt c id (Gen.Fn.llc_bind_none_addr ((a - 32 : Nat) : Int)).toNat) := by
  unfold Sap.bind Gen.Fn.llc_bind_none_full Gen.Fn.llc_bind_none_addr
  simp only [hu, Option.isSome_none, Bool.false_eq_true, if_false]
  cases hf : Sap.freeIn c 32 32 with
  | none => rfl
  | some a =>
    have := (freeIn_range c 32 32 a hf).1
    have e : ((32 : Int) + ((a - 32 : Nat) : Int)).toNat = a := by omega
    simp only [e]; rfl

/-- `_bind_by_name` as a decision, against the model's `Sap.bind` with a service name: `fi` is the index of the
first free entry of `sap[16:32]` (only read when the name is not a well-known one; the hypothesis says the
model finds that address - the exhausted range is the `except ValueError` branch, cut away) -/
theorem bind_by_name_bridge (c : Sap.Llc) (id : Nat) (nm : Bytes) (fi : Nat) (hu : (c.sock id).addr = none)
    (hf : Sap.wks nm = none → Sap.freeIn c 16 16 = some (16 + fi)) :
    Sap.bind c id (.name nm) =
      match Gen.Fn.llc_bind_by_name nm (Sap.validName nm) (oi (c.snl.lookup nm)) (oi (Sap.wks nm)) fi
              (match Sap.wks nm with | some w => (if (c.sap w).isSome then some 1 else none) | none => none) with
      | .error e => .error e
      | .ok a => .ok { Sap.bindAt c id a.toNat with snl := c.snl ++ [(nm, a.toNat)] } := by
  unfold Sap.bind Gen.Fn.llc_bind_by_name
  simp only [hu, Option.isSome_none, Bool.false_eq_true, if_false]
  cases hv : Sap.validName nm with
  | false => simp; rfl
  | true =>
    simp only [Bool.true_eq_false, if_false, not_true_eq_false]
    cases hk : c.snl.lookup nm with
    | some k => simp; rfl
    | none =>
      simp only [Option.isSome_none, Bool.false_eq_true, if_false, oi_none, ne_eq, not_true_eq_false]
      cases hw : Sap.wks nm with
      | none =>
        rw [hf hw]
        simp only [oi_none, wrapExc, Py.bind_ok]
        have e : ((16 : Int) + (fi : Int)).toNat = 16 + fi := by omega
        simp only [e]
        rfl
      | some w =>
        simp only [oi_some]
        by_cases hs : (c.sap w).isSome = true
        · simp [hs]; rfl
        · simp [hs]

/-- the address ranges of property C17: an anonymous bind hands out 32..63, a named (not well-known) service
16..31 - for every index the search over a 32- resp. 16-element slice can return -/
theorem gen_bind_ranges (i : Nat) :
    (i < 32 → 32 ≤ Gen.Fn.llc_bind_none_addr i ∧ Gen.Fn.llc_bind_none_addr i ≤ 63) ∧
    (i < 16 → ∀ nm ok a, Gen.Fn.llc_bind_by_name nm ok none none i none = .ok a → 16 ≤ a ∧ a ≤ 31) := by
  constructor
  · intro h; unfold Gen.Fn.llc_bind_none_addr; simp only; omega
  · intro h nm ok a ha
    unfold Gen.Fn.llc_bind_by_name at ha
    cases ok with
    | false => simp at ha
    | true =>
      simp [wrapExc] at ha
      omega

example : Gen.Fn.llc_bind_by_name [] true none (some 4) 0 (some 1) = .error (.llcp 98) := by decide
example : Gen.Fn.llc_bind_by_name [] true none (some 4) 0 none = .ok 4 := by decide
example : Gen.Fn.llc_bind_by_name [] true none none 3 none = .ok 19 := by decide
example : Gen.Fn.llc_bind_by_name [] true (some 16) none 3 none = .error (.llcp 98) := by decide
example : Gen.Fn.llc_bind_none_full = .error (.llcp 11) := rfl


end NfcVerif.FnBridge.Llc
