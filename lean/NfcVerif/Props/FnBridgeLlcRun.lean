import NfcVerif.Lemmas.FnBridgeLlcRun
import NfcVerif.Lemmas.PeerDispatch
import NfcVerif.Props.C09
import NfcVerif.Props.C10
/-!
# Bridge theorems, group LlcRun (`nfc/llcp/llc.py` run-loop decisions -> `Gen/FnLlcRun.lean` -> `Model/PeerDispatch.lean`,
`Model/Sap.lean`, `Model/Collect.lean`, `Model/Term.lean`, `Model/FnLlcRunRef.lean`)

Properties C07 (octets of the peer neither crash nor hang the link loop), C09 (the end of the link), C10 (nothing
sent exceeds the peer's MIU; aggregation is transparent).  The cuts are listed in `harness/fnspecs/llcrun.py` and in
the doc comments of `Gen/FnLlcRun.lean`; the compositions `<f>Gen` are in `Lemmas/FnBridgeLlcRun.lean`.  Kinds of
statements:

* `<cut>_bridge`: a regenerated decision equals the condition the model uses (PDU objects through the class constant
  `nameOf`, modes through `modeCode`, table entries as None / marker);
* `sap_enqueue_bridge`, `deliver_bridge`, `dispatch_s_bridge`, `dispatch_all_bridge`, `dispatch_bridge` (C07 model),
  `sap_target_bridge` (C17 model), `raw_first_bridge`, `first_sendack_bridge`, `encrypt_bridge`, `agg_pass_bridge`,
  `agg_loop_bridge`, `agg_acks_bridge`, `aggregate_bridge`, `collect_bridge` (C10 model): the model functions equal the
  skeletons in which every decision is regenerated code;
* `run_*_bridge`, `crypto_bridge`, `terminate_*_bridge`: regenerated run-loop decisions against `Model/Term.lean` and
  the reference definitions of `Model/FnLlcRunRef.lean`;
* `gen_*`: statements of C07 / C09 / C10 restated for the regenerated code.
-/
set_option linter.unusedSimpArgs false
namespace NfcVerif.FnBridge.LlcRun
open NfcVerif NfcVerif.PyFn NfcVerif.Pdu NfcVerif.FnLlcRunRef NfcVerif.Collect

/-! ## received PDUs (C07) -/

/-- `l[i]` for a natural index -/
theorem idx_nat {α} (l : List α) (i : Nat) : idx l (i : Int) = idxN l i := by
  unfold idx idxN
  have h0 : ¬ ((i : Int) < 0) := by omega
  simp only [h0, if_false, false_or]
  by_cases h : i < l.length
  · have h1 : ¬ ((i : Int) ≥ (l.length : Int)) := by omega
    rw [if_neg h1, Int.toNat_natCast]
  · have h1 : ((i : Int) ≥ (l.length : Int)) := by omega
    rw [if_pos h1, List.getElem?_eq_none (by omega)]

/-- the socket of a service access point selected for a PDU that is not a CONNECT: its peer is the sender, or it is
not connected -/
theorem peer_sel_bridge (p : SPdu) (s : Peer.Sock) :
    peerSel p s = decide (s.peer = some p.ssap ∨ s.peer = none) := by
  unfold peerSel Gen.Fn.lr_enqueue_peer_sel
  cases hp : s.peer with
  | none => simp
  | some v =>
    simp only [Option.isNone_some, Option.getD_some, Bool.false_eq_true, or_false, reduceCtorEq, Option.some.injEq]
    congr 1
    apply propext
    constructor <;> intro h <;> omega

theorem dm_args_bridge (p : SPdu) :
    dmOf (Gen.Fn.lr_enqueue_dm_no_listener p.ssap p.dsap) = .dm p.ssap p.dsap 2
    ∧ dmOf (Gen.Fn.lr_enqueue_dm_no_peer p.ssap p.dsap) = .dm p.ssap p.dsap 1 := by
  unfold dmOf Gen.Fn.lr_enqueue_dm_no_listener Gen.Fn.lr_enqueue_dm_no_peer
  simp

/-- `ServiceAccessPoint.enqueue` of the C07 model is the regenerated selection and DM arguments around the socket
loop -/
theorem sap_enqueue_bridge (f : Peer.Fix) (sap : Peer.Sap) (p : SPdu) :
    Peer.sapEnqueue f sap p = sapEnqueueGen f sap p := by
  have hs : (fun s => decide (s.peer = some p.ssap ∨ s.peer = none)) = peerSel p := by
    funext s; exact (peer_sel_bridge p s).symm
  unfold Peer.sapEnqueue sapEnqueueGen
  cases p <;> simp only [(dm_args_bridge _).1, (dm_args_bridge _).2, ← hs] <;> rfl

theorem enc_tab_get (tab : List Peer.Entry) (i : Nat) :
    idxN (encTab tab) i = (idxN tab i >>= fun e => .ok (match e with | .empty => none | _ => some 1)) := by
  unfold idxN encTab
  rw [List.getElem?_map]
  cases tab[i]? <;> rfl

/-- the routing at the end of `dispatch`: table lookup, truth test of the entry, enqueue -/
theorem deliver_bridge (f : Peer.Fix) (w : Peer.Llc) (p : SPdu) : Peer.deliver f w p = deliverGen f w p := by
  unfold Peer.deliver deliverGen Gen.Fn.lr_dispatch_sap_at Gen.Fn.lr_dispatch_sap_ok
  rw [idx_nat, enc_tab_get]
  unfold idxN
  cases h : w.tab[p.dsap]? with
  | none => rfl
  | some e =>
    cases e with
    | empty => simp
    | sdp dm n => simp <;> rfl
    | sap s => simp [sap_enqueue_bridge]

theorem reject_by_name_bridge (w : Peer.Llc) (ssap : Nat) (sn : Option Bytes) :
    Peer.rejectByName w ssap sn = rejectByNameGen w ssap sn := by
  unfold Peer.rejectByName rejectByNameGen Gen.Fn.llc_dispatch_dm_reason
  cases sn <;> rfl

theorem bin4_not_name (t : Nat) :
    bin4 t ≠ "SYMM" ∧ bin4 t ≠ "AGF" ∧ bin4 t ≠ "CONNECT" ∧ bin4 t ≠ "UI" ∧ bin4 t ≠ "I" := by
  unfold bin4
  split <;> decide

/-- which PDUs `dispatch` ignores, unpacks, treats as connect-by-name: the regenerated name tests on the class
constant `name` select exactly the constructors the model matches on -/
theorem name_tests_bridge (p : SPdu) :
    (Gen.Fn.lr_dispatch_ignore false (nameOf p) = match p with | .symm .. => true | _ => false)
    ∧ Gen.Fn.lr_dispatch_is_agf (nameOf p) = false
    ∧ (Gen.Fn.lr_dispatch_by_name (nameOf p) (p.dsap : Int)
        = match p with | .connect d .. => decide (d = 1) | _ => false) := by
  have hb := bin4_not_name
  cases p <;> simp [Gen.Fn.lr_dispatch_ignore, Gen.Fn.lr_dispatch_is_agf, Gen.Fn.lr_dispatch_by_name, nameOf, SPdu.dsap, hb]
  constructor <;> intro h <;> omega

theorem dispatch_s_bridge (f : Peer.Fix) (w : Peer.Llc) (p : SPdu) : Peer.dispatchS f w p = dispatchSGen f w p := by
  unfold dispatchSGen
  rw [(name_tests_bridge p).1, (name_tests_bridge p).2.2]
  cases p with
  | symm d s => rfl
  | connect d ssap miu rwv sn =>
    by_cases hd : d = 1
    · subst hd
      simp only [Peer.dispatchS, Bool.false_eq_true, if_false, decide_true, if_true, ← deliver_bridge,
        ← reject_by_name_bridge, enc_tab_get, Gen.Fn.llc_dispatch_unknown]
      cases hl : Peer.lookupName w.snl sn with
      | none => simp
      | some a =>
        by_cases ha : a = 0
        · subst ha; simp
        · cases a with
          | zero => exact absurd rfl ha
          | succ k =>
            simp only [Nat.succ_ne_zero, if_false, Option.map_some, Option.getD_some]
            cases hi : idxN w.tab (k + 1) with
            | error e => rfl
            | ok e =>
              have hk : ¬ ((k : Int) + 1 = 0) := by omega
              cases e <;> simp [hk]
    · simp only [hd, decide_false, Bool.false_eq_true, if_false, ← deliver_bridge]
      unfold Peer.dispatchS
      split
      · rename_i h; cases h
      · rename_i h; injection h with h1; exact absurd h1 hd
      · rfl
  | _ => simp only [Bool.false_eq_true, if_false, ← deliver_bridge]; rfl

theorem dispatch_all_bridge (f : Peer.Fix) (w : Peer.Llc) (ps : List SPdu) :
    Peer.dispatchAll f w ps = dispatchAllGen f w ps := by
  induction ps generalizing w with
  | nil => rfl
  | cons p ps ih =>
    simp only [Peer.dispatchAll, dispatchAllGen, dispatch_s_bridge]
    cases dispatchSGen f w p with
    | error e => rfl
    | ok r => cases r <;> simp [ih]

/-- `LogicalLinkController.dispatch` of the C07 model is the regenerated decision code -/
theorem dispatch_bridge (f : Peer.Fix) (w : Peer.Llc) (p : Pdu) : Peer.dispatch f w p = dispatchGen f w p := by
  unfold Peer.dispatch dispatchGen
  cases p with
  | simple q =>
    simp only [nameOfPdu, (name_tests_bridge q).2.1, Bool.false_eq_true, if_false, ← dispatch_s_bridge]
    rw [(name_tests_bridge q).1]
    cases q <;> simp [Peer.dispatchS]
  | agf d s items =>
    simp only [nameOfPdu, Gen.Fn.lr_dispatch_ignore, Gen.Fn.lr_dispatch_is_agf, Gen.Fn.lr_dispatch_agf_ok,
      ← dispatch_all_bridge]
    by_cases h : d = 0 ∧ s = 0
    · have h' : ((d : Int) = 0 ∧ (s : Int) = 0) := by omega
      simp [h, h']
    · have h' : ¬ ((d : Int) = 0 ∧ (s : Int) = 0) := by omega
      simp [h, h']

/-- C07 `dispatch_total` for the regenerated decision code: any PDU whose DSAP fields are SAP numbers, any well
formed table - no exception, never waits, the table stays well formed -/
theorem gen_dispatch_total (f : Peer.Fix) (hf : f.f39 = true) (w : Peer.Llc) (hw : Peer.LlcOk w) (p : Pdu)
    (hp : Peer.PduOk p) : ∃ w', dispatchGen f w p = .ok (some w') ∧ Peer.LlcOk w' := by
  rw [← dispatch_bridge]; exact Peer.dispatch_total f hf w hw p hp

/-- C07 `linkloop_never_waits` for the regenerated decision code -/
theorem gen_dispatch_never_waits (f : Peer.Fix) (hf : f.f39 = true) (w : Peer.Llc) (p : Pdu) :
    dispatchGen f w p ≠ .ok none := by
  rw [← dispatch_bridge]; exact Peer.dispatch_never_waits f hf w p

/-! ## the address table model of C17 (`Model/Sap.lean`) reads the same decisions -/

theorem sap_target_bridge (c : Sap.Llc) (e : Sap.SapEntry) (p : Sap.Pdu) : Sap.target c e p = sapTargetGen c e p := by
  unfold Sap.target sapTargetGen
  have hs : (fun id => decide ((c.sock id).peer = some p.ssap ∨ (c.sock id).peer = none)) = sapPeerSel c p := by
    funext id
    unfold sapPeerSel Gen.Fn.lr_enqueue_peer_sel
    cases hp : (c.sock id).peer with
    | none => simp
    | some v =>
      simp only [Option.isNone_some, Option.getD_some, Bool.false_eq_true, or_false, reduceCtorEq, Option.some.injEq]
      congr 1
      apply propext
      constructor <;> intro h <;> omega
  rw [hs]

/-- `insert_socket`: the new socket is the FIRST of `sock_list` - the one `enqueue` / `dequeue` ask first
(`Sap.SapEntry.socks`: "front = most recently inserted") -/
theorem insert_socket_bridge (sock : Nat) (socks : List Nat) :
    Gen.Fn.lr_insert_socket (sock : Int) (socks.map (fun (i : Nat) => (i : Int))) = (sock :: socks).map (fun (i : Nat) => (i : Int)) := by
  rfl

/-- `remove_socket`: the socket is erased from `sock_list` (`Sap.removeSocket`: `e.socks.erase id`); ValueError (ignored
by the handler) when it is not there -/
theorem remove_socket_bridge (sock : Int) (socks : List Int) :
    Gen.Fn.lr_remove_socket sock socks = if sock ∈ socks then .ok (socks.erase sock) else .error .value := by
  unfold Gen.Fn.lr_remove_socket PyFn.removeFirst
  by_cases h : sock ∈ socks <;> simp [h]

/-- the service access point disappears with its last socket, and with it exactly the service names bound to its
address (`Sap.removeSocket`: `rest = []`, `snl.filter (q.2 != a)`) -/
theorem remove_last_bridge (rest : List Nat) (a b : Nat) :
    Gen.Fn.lr_remove_last (rest.map (fun (i : Nat) => (i : Int))) = decide (rest = [])
    ∧ Gen.Fn.lr_remove_name (b : Int) (a : Int) = !(b != a) := by
  unfold Gen.Fn.lr_remove_last Gen.Fn.lr_remove_name
  constructor
  · cases rest <;> simp [len_eq]; omega
  · by_cases h : b = a
    · simp [h]
    · have : ¬ ((b : Int) = (a : Int)) := by omega
      simp [h, this]

/-! ## `ServiceAccessPoint.mode` and its uses in `collect` (C10) -/

/-- the `mode` property: the regenerated `try` body on the class of the first socket, the regenerated handler for an
empty list -/
theorem sap_mode_bridge (s : Collect.Sap) :
    (match s.socks with
     | [] => Gen.Fn.lr_sap_mode_empty
     | k :: _ => (Gen.Fn.lr_sap_mode (match k with | .raw _ => true | _ => false)
                    (match k with | .ldl .. => true | _ => false) (match k with | .dlc .. => true | _ => false)).getD 0)
      = modeCode s.mode := by
  unfold Collect.Sap.mode
  cases s.socks with
  | nil => rfl
  | cons k r => cases k <;> rfl

theorem mode_tests_bridge (m : Collect.Mode) :
    Gen.Fn.lr_collect_raw_key (modeCode m) = decide (m = .raw ∨ m = .none)
    ∧ Gen.Fn.lr_collect_dlc_mode0 (modeCode m) = decide (m = .dlc)
    ∧ Gen.Fn.lr_collect_dlc_mode1 (modeCode m) = decide (m = .dlc) := by
  cases m <;> exact ⟨by decide, by decide, by decide⟩

/-! ## run loops and `terminate()` (C07, C09) -/

theorem run_timeout_bridge (lto : Int) :
    Gen.Fn.lr_run_timeout_ms lto = recvTimeoutMs lto ∧ Gen.Fn.lr_run_timeout_ms_t lto = recvTimeoutMs lto := ⟨rfl, rfl⟩

/-- the local receive timeout is strictly longer than the link timeout the peer announced: a peer that answers
within its LTO is never taken for a broken link -/
theorem gen_timeout_exceeds_lto (lto : Int) : Gen.Fn.lr_run_timeout_ms lto > lto ∧ Gen.Fn.lr_run_timeout_ms_t lto > lto := by
  unfold Gen.Fn.lr_run_timeout_ms Gen.Fn.lr_run_timeout_ms_t; omega

/-- the key agreement goes on iff neither DPS check fails iff the DPS PDU is well formed (both roles) -/
theorem run_dps_bridge (ecpk rn : Bytes) :
    (!Gen.Fn.lr_run_ecpk_bad ecpk && !Gen.Fn.lr_run_rn_bad rn) = dpsAcceptable ecpk rn
    ∧ (!Gen.Fn.lr_run_ecpk_bad_t ecpk && !Gen.Fn.lr_run_rn_bad_t rn) = dpsAcceptable ecpk rn := by
  unfold Gen.Fn.lr_run_ecpk_bad Gen.Fn.lr_run_rn_bad Gen.Fn.lr_run_ecpk_bad_t Gen.Fn.lr_run_rn_bad_t dpsAcceptable
  have h1 : (ecpk ≠ [] ∧ PyFn.len ecpk = 64) ↔ ecpk.length = 64 := by
    rw [len_eq]; cases ecpk <;> simp; omega
  have h2 : (rn ≠ [] ∧ PyFn.len rn = 8) ↔ rn.length = 8 := by
    rw [len_eq]; cases rn <;> simp; omega
  simp only [h1, h2]
  by_cases a : ecpk.length = 64 <;> by_cases b : rn.length = 8 <;> simp [a, b]

/-- C07: a DPS PDU with an ECPK or RN of the wrong size never reaches `calculate_session_key`: one of the two checks
that end the run loop with `terminate()` fires -/
theorem gen_bad_dps_terminates (ecpk rn : Bytes) (h : ecpk.length ≠ 64 ∨ rn.length ≠ 8) :
    Gen.Fn.lr_run_ecpk_bad ecpk = true ∨ Gen.Fn.lr_run_rn_bad rn = true := by
  rcases h with h | h
  · left; unfold Gen.Fn.lr_run_ecpk_bad; simp [len_eq]; right; omega
  · right; unfold Gen.Fn.lr_run_rn_bad; simp [len_eq]; right; omega

theorem run_symm_bridge (symm : Int) (p : SPdu) :
    Gen.Fn.lr_run_symm_count symm (nameOf p) = symmCount symm (match p with | .symm .. => true | _ => false)
    ∧ ∀ b, Gen.Fn.lr_run_symm_count_t symm b = symmCount symm b := by
  constructor
  · unfold Gen.Fn.lr_run_symm_count symmCount
    have hb := fun t => (show bin4 t ≠ "SYMM" by unfold bin4; split <;> decide)
    cases p <;> simp [nameOf, hb]
  · intro b; unfold Gen.Fn.lr_run_symm_count_t symmCount; cases b <;> simp

theorem run_idle_bridge (symm : Int) (nothing : Bool) :
    Gen.Fn.lr_run_idle symm nothing = idleBackoff nothing symm ∧ Gen.Fn.lr_run_idle_t symm nothing = idleBackoff nothing symm := by
  unfold Gen.Fn.lr_run_idle Gen.Fn.lr_run_idle_t idleBackoff
  cases nothing <;> simp

theorem crypto_bridge (sec : Bool) (name : String) :
    Gen.Fn.lr_dispatch_decrypt sec name = needsCrypto sec name ∧ Gen.Fn.lr_collect_encrypt0 sec name = needsCrypto sec name
    ∧ Gen.Fn.lr_collect_encrypt1 sec name = needsCrypto sec name := by
  unfold Gen.Fn.lr_dispatch_decrypt Gen.Fn.lr_collect_encrypt0 Gen.Fn.lr_collect_encrypt1 needsCrypto
  cases sec <;> simp

/-- C10 (aggregation transparent under secure data transfer): the receiver decrypts exactly the PDUs the sender
encrypted - the three regenerated conditions agree -/
theorem gen_decrypt_iff_encrypt (sec : Bool) (name : String) :
    Gen.Fn.lr_dispatch_decrypt sec name = Gen.Fn.lr_collect_encrypt0 sec name
    ∧ Gen.Fn.lr_dispatch_decrypt sec name = Gen.Fn.lr_collect_encrypt1 sec name := ⟨rfl, rfl⟩

/-- the `finally` clause of both run loops is `Term.finallyTerminates` -/
theorem run_finally_bridge (l : Term.Link) :
    Gen.Fn.lr_run_finally (l == .shutdown) = Term.finallyTerminates l
    ∧ Gen.Fn.lr_run_finally_t (l == .shutdown) = Term.finallyTerminates l := by
  cases l <;> exact ⟨by decide, by decide⟩

theorem run_go_on_bridge (t : Bool) : Gen.Fn.lr_run_go_on t = !t ∧ Gen.Fn.lr_run_go_on_t t = !t := by
  cases t <;> exact ⟨rfl, rfl⟩

/-- `terminate()` visits the address table from 63 down to 0 -/
theorem terminate_order_bridge :
    Gen.Fn.lr_terminate_order = .ok (shutdownOrder.map (fun (i : Nat) => (i : Int))) := by
  decide +kernel

/-- C09 (`late_bind_never_leaks`): the steps of `Term.termSteps` behind the flag are the regenerated order -/
theorem gen_term_steps : Term.termSteps = .setFlag :: (shutdownOrder.map Term.TStep.shut) := rfl


/-- only live entries of the address table are shut down -/
theorem terminate_live_bridge (tab : List (Option Int)) (i : Nat) :
    Gen.Fn.lr_terminate_live (i : Int) tab
      = match tab[i]? with | some e => .ok e.isSome | none => .error .index := by
  unfold Gen.Fn.lr_terminate_live
  rw [idx_nat]
  unfold idxN
  cases tab[i]? with
  | none => rfl
  | some e => cases e <;> rfl

/-! ## `collect()` (C10) -/

theorem raw_first_bridge (es : List Ent) : rawFirst es = rawFirstGen es := by
  unfold rawFirst rawFirstGen
  simp only [(mode_tests_bridge _).1, decide_not]
  rfl

theorem first_sendack_bridge (es : List Ent) : firstSendack es = firstSendackGen es := by
  induction es with
  | nil => rfl
  | cons e rest ih =>
    simp only [firstSendack, firstSendackGen, (mode_tests_bridge _).2.1, decide_eq_true_eq, ih]
    rfl

theorem icv_bridge (sec : Option Nat) :
    (Gen.Fn.llc_collect_icv sec.isSome ((sec.getD 0 : Nat) : Int)).toNat = icvOf sec := by
  unfold Gen.Fn.llc_collect_icv icvOf
  cases sec <;> simp

theorem kind_name_data (k : Kind) : (kindName k = "UI" ∨ kindName k = "I") ↔ (k = .ui ∨ k = .i) := by
  cases k <;> simp [kindName]

/-- `encrypt()` is applied to exactly the PDUs the regenerated condition selects, and grows them by the regenerated
ICV size -/
theorem encrypt_bridge (sec : Option Nat) (p : QPdu) :
    p.encrypt sec = encryptGen Gen.Fn.lr_collect_encrypt0 sec p ∧ p.encrypt sec = encryptGen Gen.Fn.lr_collect_encrypt1 sec p := by
  unfold QPdu.encrypt encryptGen Gen.Fn.lr_collect_encrypt0 Gen.Fn.lr_collect_encrypt1
  rw [icv_bridge]
  cases sec with
  | none => simp
  | some n =>
    simp only [Option.isSome_some, true_and, kind_name_data, decide_eq_true_eq, icvOf]

theorem agg_pass_bridge (sendMiu : Nat) (sec : Option Nat) (es : List Ent) (subs : List QPdu) (b : Bool) :
    aggPass sendMiu sec es subs b = aggPassGen sendMiu sec es subs b := by
  induction es generalizing subs b with
  | nil => rfl
  | cons e rest ih =>
    simp only [aggPass, aggPassGen, icv_bridge, ← (encrypt_bridge sec _).2, Gen.Fn.lr_collect_pass_stop, budgetGen,
      Gen.Fn.llc_collect_budget1, decide_eq_true_eq, ih]
    rfl

theorem agg_loop_bridge (sendMiu : Nat) (sec : Option Nat) (fuel : Nat) (es : List Ent) (subs : List QPdu) :
    aggLoop sendMiu sec fuel es subs = aggLoopGen sendMiu sec fuel es subs := by
  induction fuel generalizing es subs with
  | zero => rfl
  | succ k ih =>
    simp only [aggLoop, aggLoopGen, agg_pass_bridge, Gen.Fn.lr_collect_loop_go, Gen.Fn.lr_collect_loop_stop,
      decide_eq_true_eq, ih]
    by_cases h : budget sendMiu subs < 0
    · have : ¬ (budget sendMiu subs ≥ 0) := by omega
      simp [h, this]
    · have : budget sendMiu subs ≥ 0 := by omega
      simp [h, this]

theorem agg_acks_bridge (sendMiu : Nat) (es : List Ent) (subs : List QPdu) :
    aggAcks sendMiu es subs = aggAcksGen sendMiu es subs := by
  induction es generalizing subs with
  | nil => rfl
  | cons e rest ih =>
    simp only [aggAcks, aggAcksGen, (mode_tests_bridge _).2.2, Gen.Fn.lr_collect_acks_stop, budgetGen,
      Gen.Fn.llc_collect_budget2, decide_eq_true_eq, ih]
    rfl

theorem aggregate_bridge (es : List Ent) (sendMiu : Nat) (sec : Option Nat) (p : QPdu) :
    aggregate es sendMiu sec p = aggregateGen es sendMiu sec p := by
  unfold aggregate aggregateGen resultGen Gen.Fn.lr_collect_acks_go Gen.Fn.lr_collect_result
  have hc : ∀ n : Nat, ((n : Int) > 1) ↔ n > 1 := by intro n; omega
  simp only [agg_loop_bridge, agg_acks_bridge, decide_eq_true_eq, hc]

/-- `LogicalLinkController.collect()` of the C10 model is the regenerated decision code around the socket level
(`Sock.dequeue` / `sendack`: group Tco).  Hypothesis: the first PDU's length includes its header (the model subtracts
in `Nat`, Python in `int`) - true of every PDU the models queue. -/
theorem collect_bridge (es : List Ent) (sendMiu : Nat) (sec : Option Nat) (agf : Bool)
    (hlen : ∀ p0, (firstDequeue sendMiu (rawFirst es) es).1 = some p0 → p0.hdr ≤ p0.len) :
    collect es sendMiu sec agf = collectGen es sendMiu sec agf := by
  unfold collect collectGen
  rw [← raw_first_bridge]
  rcases hfd : firstDequeue (sendMiu : Int) (rawFirst es) es with ⟨r, es1⟩
  rw [hfd] at hlen
  simp only []
  cases r with
  | some p0 =>
    have h0 := hlen p0 rfl
    simp only [← (encrypt_bridge sec p0).1, ← aggregate_bridge, Gen.Fn.llc_collect_first_full, Gen.Fn.lr_collect_no_agf,
      decide_eq_true_eq]
    have hh : (p0.encrypt sec).hdr ≤ (p0.encrypt sec).len := by
      unfold QPdu.encrypt; cases sec with
      | none => exact h0
      | some n => simp only []; split <;> (try simp only []) <;> omega
    have e : (((p0.encrypt sec).info : Nat) : Int) = ((p0.encrypt sec).len : Int) - ((p0.encrypt sec).hdr : Int) := by
      unfold QPdu.info; omega
    rw [e]
    cases agf <;> simp
  | none =>
    simp only [← first_sendack_bridge, ← aggregate_bridge, Gen.Fn.lr_collect_no_agf]
    cases hk : (firstSendack es1).1 with
    | none => simp
    | some p => cases agf <;> simp

/-- the remaining one-line decisions: a PDU is decoded only when the MAC returned data; the key agreement runs iff
secure data transfer was negotiated (`secure_data_transfer`, group Llc: the same reading of `cfg['llcp-dpc']` in
both run loops); the DISC PDU of `terminate()` only after a local decision -/
theorem misc_bridge (data : Option Bytes) (dpc : Int) (b : Bool) :
    Gen.Fn.lr_exchange_has_data data = data.isSome
    ∧ Gen.Fn.lr_run_secure dpc = Gen.Fn.llc_secure_data_transfer dpc
    ∧ Gen.Fn.lr_run_secure_t dpc = Gen.Fn.llc_secure_data_transfer dpc
    ∧ Gen.Fn.lr_terminate_disc b = b := by
  refine ⟨?_, rfl, rfl, ?_⟩
  · cases data <;> rfl
  · cases b <;> rfl

/-! ## statements of C09 / C10 for the regenerated code -/

/-- C09 `late_bind_never_leaks` for the regenerated shutdown order: a socket bound by an application thread while
`terminate()` runs (flag first, then the table in the regenerated order) is refused or shut down, never leaked -/
theorem gen_late_bind_never_leaks (k a : Nat) (ha : a < 64) (order : List Int)
    (h : Gen.Fn.lr_terminate_order = .ok order) :
    Term.lateBind (.setFlag :: order.map (fun i => Term.TStep.shut i.toNat)) k a ≠ .leaked := by
  rw [terminate_order_bridge] at h
  injection h with h
  subst h
  have e : (shutdownOrder.map (fun (i : Nat) => (i : Int))).map (fun i => Term.TStep.shut i.toNat)
      = shutdownOrder.map Term.TStep.shut := by
    rw [List.map_map]; congr 1
  rw [e, ← gen_term_steps]
  exact C09.late_bind_never_leaks k a ha

/-- C10 `collect_frame_bound` for `collectGen`: the frame the regenerated decision code returns has an information
field of at most the MIU (plus the ICV of a single encrypted UI / I PDU) -/
theorem gen_collect_frame_bound (es : List Ent) (M : Nat) (sec : Option Nat) (agf : Bool) (hes : EntsOk es) (hM : 3 ≤ M)
    (hlen : ∀ p0, (firstDequeue M (rawFirst es) es).1 = some p0 → p0.hdr ≤ p0.len)
    (f : Frame) (es' : List Ent) (h : collectGen es M sec agf = (some f, es')) : f.info ≤ M + f.slack sec := by
  rw [← collect_bridge es M sec agf hlen] at h
  exact C10.collect_frame_bound es M sec agf hes hM f es' h

/-! ## non-vacuity: the regenerated decisions on concrete inputs -/
example : Gen.Fn.lr_dispatch_ignore false "SYMM" = true ∧ Gen.Fn.lr_dispatch_ignore false "UI" = false := by decide
example : Gen.Fn.lr_dispatch_by_name "CONNECT" 1 = true ∧ Gen.Fn.lr_dispatch_by_name "CONNECT" 4 = false := by decide
example : Gen.Fn.lr_dispatch_agf_ok 0 0 = true ∧ Gen.Fn.lr_dispatch_agf_ok 0 1 = false := by decide
example : Gen.Fn.lr_dispatch_sap_at [some 1, none] 1 = .ok none ∧ Gen.Fn.lr_dispatch_sap_at [some 1, none] 2 = .error .index := by
  decide
example : Gen.Fn.lr_enqueue_peer_sel 32 false 32 = true ∧ Gen.Fn.lr_enqueue_peer_sel 32 false 33 = false
    ∧ Gen.Fn.lr_enqueue_peer_sel 32 true 0 = true := by decide
example : Gen.Fn.lr_enqueue_dm_no_listener 32 16 = (32, 16, 2) ∧ Gen.Fn.lr_enqueue_dm_no_peer 32 16 = (32, 16, 1) := by decide
example : Gen.Fn.lr_insert_socket 7 [3, 5] = [7, 3, 5] := by decide
example : Gen.Fn.lr_remove_socket 3 [3, 5] = .ok [5] ∧ Gen.Fn.lr_remove_socket 4 [3, 5] = .error .value := by decide
example : Gen.Fn.lr_sap_mode false false true = some 2 ∧ Gen.Fn.lr_sap_mode_empty = 0 := by decide
example : Gen.Fn.lr_run_timeout_ms 500 = 510 := by decide
example : Gen.Fn.lr_run_ecpk_bad (List.replicate 64 1) = false ∧ Gen.Fn.lr_run_ecpk_bad (List.replicate 63 1) = true
    ∧ Gen.Fn.lr_run_ecpk_bad [] = true := by decide
example : Gen.Fn.lr_run_symm_count 3 "SYMM" = 4 ∧ Gen.Fn.lr_run_symm_count 3 "I" = 3 := by decide
example : Gen.Fn.lr_run_idle 10 true = true ∧ Gen.Fn.lr_run_idle 9 true = false ∧ Gen.Fn.lr_run_idle 10 false = false := by decide
example : Gen.Fn.lr_collect_encrypt0 true "UI" = true ∧ Gen.Fn.lr_collect_encrypt0 true "RR" = false
    ∧ Gen.Fn.lr_collect_encrypt0 false "I" = false := by decide
example : Gen.Fn.lr_collect_no_agf false false = true ∧ Gen.Fn.lr_collect_no_agf false true = false := by decide
/-- a CONNECT to an address without a listening socket is answered with DM(02h) by the regenerated code -/
example : sapEnqueueGen Peer.Fix.repaired ⟨[], []⟩ (.connect 16 32 128 1 none) = some ⟨[], [.dm 32 16 2]⟩ := by decide
example : (collectGen [] 128 none true).1 = none := by decide

end NfcVerif.FnBridge.LlcRun
