import NfcVerif.Lemmas.ErrMap
/-!
# C13 - Drivers report RF and host-link failures only as documented errors

Statements only; proofs by reference to `Lemmas/ErrMap.lean`.  Model:
`Model/ErrMap.lean` (transcription of `pn53x.Chipset.command`,
`acr122.Chipset.command`, `rcs380.Chipset.send_command`, the chipset functions
of an RF exchange, `send_cmd_recv_rsp` / `send_rsp_recv_cmd` of pn53x, rcs380,
udp and `ContactlessFrontend.exchange`).

The host link is universally quantified: `w i : Host` is what
`transport.write` does and what the successive `transport.read` calls deliver
during the `i`-th host command (any errno, any octets: short, garbled, foreign
frames), `polls` the same for the register polls of the Type 3 Tag target
loop.  A chip status is the first payload octet of a well-formed response
(`Ev.good p`), quantified over all values.

`Variant.repaired` is the tree with the three `fix:` commits of `fixes/C13`
(pn53x, rcs380 `StatusError`, udp); `Variant.asFound` the tree before them.
-/
namespace NfcVerif.C13
open NfcVerif NfcVerif.ErrMap NfcVerif.HostFrame

/-- `Chipset.command` of the PN53x family and of the ACR122 raises, for every
behaviour of the host link (any write result, any sequence of read results
with arbitrary octets), only `IOError` or the error-frame `Chipset.Error(0x7F)`. -/
theorem host_command_documented (cmd : Nat) (h : Host) :
    Safe (fun e => (∃ n, e = .io n) ∨ e = .chipsetError 0x7F) (pnCommand cmd h) ∧
    Safe (fun e => (∃ n, e = .io n) ∨ e = .chipsetError 0x7F) (acrCommand cmd h) :=
  ⟨pnCommand_doc cmd h, acrCommand_doc cmd h⟩

example : pnCommand 0x42 ⟨.ok, [.frame ack, .raise 110]⟩ = .error (.io 110) := by decide
example : pnCommand 0x42 ⟨.ok, [.frame ack, .frame [0, 0, 0xFF, 1, 0xFF, 0x7F, 0x81, 0]]⟩ = .error (.chipsetError 0x7F) := by
  decide

/-- PARTIAL (hypothesis `PayloadOK`) for pn531, pn532, pn533, rcs956, acr122, arygon
(A and B); full for udp.  Both directions, every target kind: whatever the host link
does at EVERY host command of the exchange and whatever status the chip reports,
the caller of `ContactlessFrontend.exchange` gets data or TimeoutError /
TransmissionError / BrokenLinkError / ProtocolError / IOError - never
`Chipset.Error`, IndexError, struct.error, ValueError...
Missing part: `PayloadOK` - responses that pass the frame validation carry the number
of octets the chip manual specifies (a status octet, one value per register read, at
least two FIFO octets).  Without it the statement is false on the current code, see
`short_payload_counterexample` and `fifo_single_register_counterexample` (open findings
`pn53x-short-payload-internal-error`, `pn53x-fifo-level-internal-error`). -/
theorem driver_outcome_documented_partial (c : Cfg) (brty : Bytes) (w : Nat → Host) (polls : List Host)
    (h380 : c.drv ≠ .rcs380) (hp : c.drv ≠ .udp → PayloadOK c w polls) :
    Safe Documented (exchange .repaired c brty w polls) := by
  rw [exchange_eq]
  by_cases hu : c.drv = .udp
  · exact udp_exchange_doc c brty w polls hu
  · exact pn_exchange_doc c brty w polls h380 hu (hp hu)

/-- the full statement for the PN53x family and udp (no hypothesis on payload lengths) -/
def PnFullStatement : Prop :=
  ∀ (c : Cfg) (brty : Bytes) (w : Nat → Host) (polls : List Host), c.drv ≠ .rcs380 →
    Safe Documented (exchange .repaired c brty w polls)

/-- nominal world: every host command is acknowledged and answered with `p i` -/
def nominalWorld (p : Nat → Bytes) : Nat → Host := fun i => ⟨.ok, [.frame ack, .good (p i)]⟩

/-- non-vacuity: the nominal PN533 Type 2 Tag exchange satisfies `PayloadOK` and returns data;
a status 0x01 at the RF command satisfies it too and gives TimeoutError -/
example : PayloadOK ⟨.pn533, .initiator, .thru, true, false, true⟩
    (nominalWorld fun i => if i = 0 then [0, 1, 2, 3] else if i = 3 then [0, 0xAA] else [0]) [] := by
  refine ⟨?_, ?_, ?_⟩ <;> intro p hp <;> cases hp <;> simp [RegShape, WrShape, famOf]
example : exchange .repaired ⟨.pn533, .initiator, .thru, true, false, true⟩ []
    (nominalWorld fun i => if i = 0 then [0, 1, 2, 3] else if i = 3 then [0, 0xAA] else [0]) [] = .ok (some [0xAA]) := by
  decide
example : exchange .repaired ⟨.pn533, .initiator, .thru, true, false, true⟩ []
    (nominalWorld fun i => if i = 0 then [0, 1, 2, 3] else if i = 3 then [1] else [0]) [] = .error .timeout := by
  decide

/-- The full statement is false on the current code: a well-formed InCommunicateThru
response without status octet (`D5 43`) reaches `chipset_error(bytearray())`, whose
`cause[0]` raises IndexError out of `exchange()`. -/
theorem short_payload_counterexample : ¬ PnFullStatement := by
  intro h
  have hs := h ⟨.pn531, .initiator, .thru, true, false, true⟩ []
    (nominalWorld fun i => if i = 0 then [1, 2, 3] else []) [] (by decide) .index (by decide)
  rcases hs with h | h | h | h | ⟨n, h⟩ <;> cases h

/-- As coded `read_register` returns an int for one register: in the Type 3 Tag target
loop a FIFO level of 1 makes `bytearray(int)`; with the octet 0 the frame is empty and
`fifo_data[0]` raises IndexError out of `exchange()`. -/
theorem fifo_single_register_counterexample :
    exchange .repaired ⟨.pn531, .target, .thru, false, true, true⟩ []
      (nominalWorld fun i => if i = 3 then [1] else if i = 4 then [0] else [])
      [⟨.ok, [.frame ack, .good [0x20, 0]]⟩] = .error .index := by decide

/-- RC-S380, PARTIAL: holds when every host command of the exchange either
fails with a transport IOError or completes with a response of the specified
minimum length (`RcsHostOk`).  Missing part: short, garbled or unexpected
frames - `send_command` does not validate them, see
`rcs380_short_frame_counterexample` (open findings
`rcs380-host-frame-internal-error`, `rcs380-host-garbage-returns-none`).
All 2^32 communication status words and all status octets are covered. -/
theorem driver_outcome_documented_rcs380_partial (c : Cfg) (brty : Bytes) (w : Nat → Host) (polls : List Host)
    (h380 : c.drv = .rcs380) (hh : RcsHostOk c w) :
    Safe Documented (exchange .repaired c brty w polls) := by
  rw [exchange_eq]
  exact rcs_exchange_doc c brty w polls h380 hh

/-- the full statement for the RC-S380 (no hypothesis on the host link) -/
def Rcs380FullStatement : Prop :=
  ∀ (c : Cfg) (brty : Bytes) (w : Nat → Host) (polls : List Host), c.drv = .rcs380 →
    Safe Documented (exchange .repaired c brty w polls)

def rcsNominal : Nat → Host :=
  nominalWorld fun i => if i = 3 then [0, 0, 0, 0, 8, 0xAA] else [0]

example : RcsHostOk ⟨.rcs380, .initiator, .thru, true, false, true⟩ rcsNominal := by
  refine ⟨Or.inr ⟨[0], rfl, by simp⟩, Or.inr ⟨[0], rfl, by simp⟩, Or.inr ⟨[0], rfl, by simp⟩,
    Or.inr ⟨[0, 0, 0, 0, 8, 0xAA], rfl, by simp⟩⟩
example : exchange .repaired ⟨.rcs380, .initiator, .thru, true, false, true⟩ [] rcsNominal [] = .ok (some [0xAA]) := by
  decide

/-- The full RC-S380 statement is false on the current code: the response
`00 00 FF FF FF 03` (a data frame cut after six octets) to InSetRF makes
`exchange()` raise `struct.error`. -/
theorem rcs380_short_frame_counterexample : ¬ Rcs380FullStatement := by
  intro h
  have hs := h ⟨.rcs380, .initiator, .thru, true, false, true⟩ []
    (fun i => if i = 0 then ⟨.ok, [.frame ack, .frame [0, 0, 0xFF, 0xFF, 0xFF, 3]]⟩ else rcsNominal i) [] rfl
    .struct (by decide)
  rcases hs with h | h | h | h | ⟨n, h⟩ <;> cases h

/-- As found (F19): the error frame `00 00 FF 01 FF 7F 81 00` in response to the
first ReadRegister of `send_cmd_recv_rsp` reaches the caller as `Chipset.Error`. -/
theorem asfound_chipset_error_counterexample :
    exchange .asFound ⟨.pn531, .initiator, .thru, true, false, true⟩ []
      (fun i => if i = 0 then ⟨.ok, [.frame ack, .frame [0, 0, 0xFF, 1, 0xFF, 0x7F, 0x81, 0]]⟩
                else nominalWorld (fun i => if i = 0 then [1, 2, 3] else [0, 0xAA]) i) []
      = .error (.chipsetError 0x7F) := by decide

/-- As found (F19): status 1 of InSetRF reaches the caller as rcs380 `StatusError`. -/
theorem asfound_status_error_counterexample :
    exchange .asFound ⟨.rcs380, .initiator, .thru, true, false, true⟩ []
      (fun i => if i = 0 then ⟨.ok, [.frame ack, .good [1]]⟩ else rcsNominal i) []
      = .error .rcsStatus := by decide

/-- As found: the datagram `106A zz` makes the UDP driver raise `binascii.Error` (a ValueError). -/
theorem asfound_udp_counterexample :
    exchange .asFound ⟨.udp, .initiator, .t2, true, false, true⟩ [49, 48, 54, 65]
      (fun i => if i = 1 then ⟨.ok, [.frame [49, 48, 54, 65, 32, 122, 122]]⟩ else ⟨.ok, []⟩) []
      = .error .value := by decide

/-! ## specific clauses -/

/-- Initiator, PN53x family: after the preparatory commands the status octet `s` of
InCommunicateThru decides: 0 → the data, 0x01 → TimeoutError, every other value →
TransmissionError (both variants). -/
theorem initiator_status_clauses (v : Variant) (fam : Fam) (r : Nat → Py Bytes) (s : Nat) (rest : Bytes)
    (hprep : pnPrep fam r = .ok ()) (h3 : r 3 = .ok (s :: rest)) :
    pnSendCmdRecvRsp v fam .thru r =
      if s = 0 then .ok rest else if s = 1 then .error .timeout else .error .transmission := by
  unfold pnSendCmdRecvRsp pnBodyI
  rw [hprep, h3]
  simp only [Py.bind_ok]
  by_cases h0 : s = 0
  · subst h0; cases v <;> rfl
  · rw [inCommunicateThru_status s rest h0]
    simp only [h0, if_false]
    by_cases h1 : s = 1
    · subst h1; cases v <;> rfl
    · simp only [pnMapI, h1, if_false]; cases v <;> rfl

example : pnPrep .pn531 (fun i => if i = 0 then .ok [1, 2, 3] else .ok []) = .ok () := by decide

/-- Initiator, PN53x family: a host error at the RF command: ETIMEDOUT → TimeoutError,
every other errno → the IOError itself; and what `Chipset.command` makes of a
transport error: write or ACK read failing → IOError(EIO), response read failing
with errno `e` → IOError(e). -/
theorem initiator_host_fault_clauses (v : Variant) (fam : Fam) (path : IPath) (r : Nat → Py Bytes) (e : Nat)
    (hprep : pnPrep fam r = .ok ()) (h3 : r 3 = .error (.io e)) :
    pnSendCmdRecvRsp v fam path r = (if e = ETIMEDOUT then .error .timeout else .error (.io e)) ∧
    (∀ cmd n evs, pnCommand cmd ⟨.raise n, evs⟩ = .error (.io 5)) ∧
    (∀ cmd n evs, pnCommand cmd ⟨.ok, .raise n :: evs⟩ = .error (.io 5)) ∧
    (∀ cmd n evs, pnCommand cmd ⟨.ok, .frame ack :: .raise n :: evs⟩ = .error (.io n)) := by
  refine ⟨?_, fun _ _ _ => rfl, fun _ _ _ => rfl, fun _ _ _ => by simp [pnCommand, pnAwait, ack, startsWith, sof]⟩
  unfold pnSendCmdRecvRsp pnBodyI inCommunicateThru inDataExchange
  rw [hprep, h3]
  by_cases he : e = ETIMEDOUT
  · subst he; cases v <;> cases path <;> rfl
  · cases v <;> cases path <;> simp [pnMapI, he, guardChip]

/-- Target, PN53x family (TgGetInitiatorCommand without data to send): status 0 → the
command data; 0x0A, 0x29, 0x31 (RF field off / released / deselected) → BrokenLinkError;
every other status → TransmissionError. -/
theorem target_status_clauses (r : Nat → Py Bytes) (s : Nat) (rest : Bytes) (h0 : r 0 = .ok (s :: rest)) :
    pnTgOther false r =
      if s = 0 then .ok rest
      else if s = 0x0A ∨ s = 0x29 ∨ s = 0x31 then .error .brokenLink else .error .transmission := by
  unfold pnTgOther tgGetInitiatorCommand
  simp only [Bool.false_eq_true, if_false, Py.pure_eq, Py.bind_ok, h0]
  by_cases hz : s = 0
  · subst hz; rfl
  · rw [inCommunicateThru_status s rest hz]
    simp only [hz, if_false]
    rfl

/-- Target activated as Type 3 Tag: when the first poll of CIU_CommIRq/CIU_DivIRq shows
the external field switched off (DivIRq bit 0) the caller gets BrokenLinkError;
no poll within the timeout → TimeoutError. -/
theorem target_rf_off_tt3 (v : Variant) (r : Nat → Py Bytes) (later : List (Py Bytes)) (commirq divirq : Nat)
    (h0 : r 0 = .ok []) (hd : divirq % 2 = 1) :
    pnTgTt3 v .pn532 r (.ok [commirq, divirq] :: later) = .error .brokenLink ∧
    pnTgTt3 v .pn532 r [] = .error .timeout := by
  unfold pnTgTt3
  simp [h0, writeRegister, tt3Poll, readRegister, regResult, unpack2, hd]
  cases v <;> exact ⟨rfl, rfl⟩

/-- RC-S380 target: for EVERY non-zero 32-bit communication status word: RF_OFF_ERROR
(bit 10) → BrokenLinkError, else RECEIVE_TIMEOUT_ERROR (bit 7) → TimeoutError, else
TransmissionError; initiator: bit 7 → TimeoutError, else TransmissionError. -/
theorem rcs380_status_clauses (st : Nat) :
    (rcsMapT (.error (.comm st) : RPy (Option Bytes)) =
      if (st / 1024) % 2 = 1 then .error .brokenLink
      else if (st / 128) % 2 = 1 then .error .timeout else .error .transmission) ∧
    (rcsMapI (.error (.comm st) : RPy (Option Bytes)) =
      if (st / 128) % 2 = 1 then .error .timeout else .error .transmission) ∧
    (∀ x0 x1 x2 a b c d t, [a, b, c, d] ≠ [0, 0, 0, 0] →
      tgCommRf (.ok (some (x0 :: x1 :: x2 :: a :: b :: c :: d :: t))) =
        .error (.comm (a + 256 * b + 65536 * c + 16777216 * d))) := by
  refine ⟨rfl, rfl, ?_⟩
  intro x0 x1 x2 a b c d t hz
  have hs : sliceN (x0 :: x1 :: x2 :: a :: b :: c :: d :: t) 3 7 = [a, b, c, d] := by simp [sliceN]
  simp only [tgCommRf, liftR, bind, Except.bind, hs, ne_eq, hz, not_false_eq_true, if_true, unpackLeL,
    pure, Except.pure, throw, throwThe, MonadExceptOf.throw]

/-- UDP: `RFOFF…` → BrokenLinkError, silence → TimeoutError, short `sendto` →
TransmissionError, socket error → IOError (both variants). -/
theorem udp_clauses (v : Variant) (brty t : Bytes) (recv : Host) (n : Nat) :
    udpParse v brty (rfoff ++ t) = .error .brokenLink ∧
    udpRecv v brty [] = .error .timeout ∧
    udpExchange v brty true ⟨.short, []⟩ recv = .error .transmission ∧
    udpExchange v brty true ⟨.raise n, []⟩ recv = .error (.io n) := by
  refine ⟨?_, rfl, rfl, rfl⟩
  unfold udpParse
  have : startsWith (rfoff ++ t) rfoff = true := by simp [startsWith, rfoff]
  simp [this]

/-- `ContactlessFrontend.exchange` hands the result of the driver's exchange
function (data or exception) to its caller unchanged; without a device it
raises IOError(ENODEV), without a target it returns None. -/
theorem frontend_exchange_passthrough {α} (a b : Py (Option α)) (t : TargetSel)
    (v : Variant) (c : Cfg) (brty : Bytes) (w : Nat → Host) (polls : List Host) :
    frontendExchange true .remote a b = a ∧ frontendExchange true .local a b = b ∧
    frontendExchange true .none a b = .ok none ∧ frontendExchange false t a b = .error (.io 19) ∧
    exchange v c brty w polls = driverExchange v c brty w polls :=
  ⟨rfl, rfl, rfl, rfl, exchange_eq v c brty w polls⟩

end NfcVerif.C13
