import NfcVerif.Lemmas.PduRound
import NfcVerif.Lemmas.PduSpec
import NfcVerif.Lemmas.PduReenc
/-!
# C11 - LLCP PDU encoding and decoding are mutually consistent

Statements only; proofs are in `Lemmas/Pdu.lean` (length), `Lemmas/PduSafe.lean`
(totality, locality) and `Lemmas/PduRound.lean` (round trip).  The model
`Model/Pdu.lean` transcribes `nfc/llcp/pdu.py` with the repairs of `fixes/C11`
(RW = 0 is encoded; `decode` restricts the buffer to the PDU; AGF inside AGF is
refused).  `Impl.decode b = Impl.decodeAt b 0 b.length`.
-/
namespace NfcVerif.C11
open NfcVerif NfcVerif.Pdu

/-- Round trip with *field* equality (not the library's encoding-based `__eq__`), for
all 14 PDU classes and the unknown types 1011/1111: SAPs 0..63, N(S)/N(R) 0..15,
MIU 128..128+0x7FF, RW 0..15 (including 0), VERSION/LTO 0..255, WKS 0..0xFFFF,
OPT 0..7, DM reason 0..255, FRMR nibbles, service names/ECPK/RN of 1..255 octets
(absent = `none`), any number of SDREQ (name 0..254 octets) and SDRES entries,
payloads of any length, aggregates of any number of valid non-aggregate PDUs
of at most 65535 octets each. -/
theorem pdu_roundtrip (p : Pdu) (h : Valid p) :
    ∃ b, Impl.encode p = .ok b ∧ Impl.decode b = .ok p :=
  Impl.roundtrip p h

/-- `len(pdu)` is the length of the encoding - whenever the PDU can be encoded at
all (valid or not). -/
theorem pdu_len (p : Pdu) (b : Bytes) (h : Impl.encode p = .ok b) : Impl.len p = b.length :=
  Impl.len_eq h

/-- every valid PDU can be encoded, so `pdu_len` is not vacuous on valid PDUs -/
theorem pdu_len_valid (p : Pdu) (h : Valid p) : ∃ b, Impl.encode p = .ok b ∧ Impl.len p = b.length := by
  obtain ⟨b, he, _⟩ := Impl.roundtrip p h
  exact ⟨b, he, Impl.len_eq he⟩

/-- Decoding ANY list of numbers (in particular any octet string of any length)
yields a PDU or `DecodeError`: no `struct.error`, `IndexError`, recursion or
exhausted loop, also for aggregates and their elements. -/
theorem pdu_decode_total (b : Bytes) : Safe OnlyDecodeError (Impl.decode b) :=
  Impl.decodeAt_safe b 0 b.length

/-- the same for `decode(data, offset, size)` with arbitrary offset and size -/
theorem pdu_decode_at_total (data : Bytes) (off size : Nat) : Safe OnlyDecodeError (Impl.decodeAt data off size) :=
  Impl.decodeAt_safe data off size

/-- A PDU inside an aggregate (`decode(data, offset+2, pdu_size, nested=True)` in
`AggregatedFrame.decode`) is decoded from its own octets only: what precedes
and what follows in the buffer has no influence. -/
theorem agf_locality (pre e post : Bytes) :
    Impl.decodeNested (pre ++ e ++ post) pre.length e.length = Impl.decodeNested e 0 e.length :=
  Impl.decodeNested_local pre e post

/-- the same for the public `decode(data, offset, size)` -/
theorem decode_at_locality (pre e post : Bytes) :
    Impl.decodeAt (pre ++ e ++ post) pre.length e.length = Impl.decode e :=
  Impl.decodeAt_local pre e post

/-- an aggregated PDU decodes like the same octets received on their own -/
theorem nested_eq_decode (e : Bytes) (p : SPdu) (h : Impl.decodeNested e 0 e.length = .ok p) :
    Impl.decode e = .ok (.simple p) :=
  Impl.decodeAt_of_nested h

/-- For EVERY octet string (all 14 PDU types, unassigned types, aggregates, too short strings) the
decoder returns exactly what the independent reading `Spec.decode` of the LLCP 1.3 frame formats
returns (`toOpt` forgets which exception was raised). -/
theorem pdu_impl_refines_spec (b : Bytes) (hb : IsBytes b) : toOpt (Impl.decode b) = Spec.decode b :=
  Impl.decode_refines b hb

/-- the same in the two directions of the design: same PDU, and `DecodeError` exactly when the
format reading rejects the octets -/
theorem pdu_impl_refines_spec_iff (b : Bytes) (hb : IsBytes b) :
    (∀ p, Impl.decode b = .ok p ↔ Spec.decode b = some p) ∧
    (Impl.decode b = .error .decodeError ↔ Spec.decode b = none) := by
  have h := Impl.decode_refines b hb
  have ht := Impl.decodeAt_safe b 0 b.length
  cases hd : Impl.decode b with
  | ok q =>
    rw [hd] at h
    simp only [toOpt_ok] at h
    constructor
    · intro p
      constructor
      · intro e; cases e; exact h.symm
      · intro e; rw [← h] at e; cases e; rfl
    · constructor
      · intro e; cases e
      · intro e; rw [← h] at e; cases e
  | error e =>
    have he : e = .decodeError := ht e hd
    subst he
    rw [hd] at h
    simp only [toOpt_error] at h
    constructor
    · intro p
      constructor
      · intro e; cases e
      · intro e; rw [← h] at e; cases e
    · exact ⟨fun _ => h.symm, fun _ => rfl⟩

/-- Whatever `decode` returns for an octet string can be encoded again, and decoding that
encoding returns the same PDU in normal form.  Normal form (`norm`): an optional octet string
parameter that is present but EMPTY - CONNECT service name, DPS ECPK, DPS RN decoded from a TLV
with L = 0 - becomes absent; every other field, SDREQ names (also empty ones), payloads and the
list of aggregated PDUs (each in normal form) are unchanged.  `norm` is idempotent, so a second
re-encoding changes nothing (`pdu_norm_idem`). -/
theorem pdu_decode_reencode (b : Bytes) (hb : IsBytes b) (p : Pdu) (h : Impl.decode b = .ok p) :
    ∃ b', Impl.encode p = .ok b' ∧ Impl.decode b' = .ok (norm p) :=
  Impl.reencode b hb p h

theorem pdu_norm_idem (p : Pdu) : norm (norm p) = norm p := Impl.norm_idem p

/-- a valid PDU is in normal form, so `pdu_decode_reencode` and `pdu_roundtrip` agree on valid PDUs -/
theorem pdu_norm_valid (p : Pdu) (h : Valid p) : norm p = p := Impl.norm_of_valid p h

/-! Non-vacuity and the three repaired defects on concrete inputs. -/
example : Valid (.simple (.connect 4 32 130 0 (some [0x41, 0x42]))) := by simp [Valid, ValidS]
example : Valid (.agf 0 0 [.disc 1 2, .snl 1 1 [(1, [0x61])] [(2, 16)], .pax 0 0 (some 0x13) none (some 3) none (some 3)]) := by
  simp [Valid, ValidS, Impl.lenS, Impl.optLen, Impl.sumMap]
/-- F4: RW = 0 gets its TLV (the unrepaired code produced `11 20` and the peer assumed RW = 1) -/
example : Impl.encode (.simple (.connect 4 32 128 0 none)) = .ok [0x11, 0x20, 5, 1, 0] := by decide
example : Impl.decode [0x11, 0x20, 5, 1, 0] = .ok (.simple (.connect 4 32 128 0 none)) := by decide
example : Impl.len (.simple (.connect 4 32 128 0 none)) = 5 := by decide
/-- F5: CONNECT with a cut MIUX TLV inside an aggregate; the unrepaired code read the value `00 02`
from the length field of the next element -/
example : Impl.decode [0, 0x80, 0, 4, 0x11, 0x20, 2, 2, 0, 2, 0x05, 0x40] = .error .decodeError := by decide
example : Impl.decodeAt [0x11, 0x20, 6, 4, 0x41, 0x42, 0x43, 0x44] 0 4 = .error .decodeError := by decide
/-- F6: an aggregate inside an aggregate is refused, whatever the depth -/
example : Impl.decode [0, 0x80, 0, 6, 0, 0x80, 0, 2, 0, 0x80] = .error .decodeError := by decide
example : Impl.decode [0, 0x80, 0, 2, 0x05, 0x41, 0, 3, 0x0F, 0x44, 0x05] =
    .ok (.agf 0 0 [.disc 1 1, .rr 3 4 5]) := by decide
example : Impl.decode [0x03] = .error .decodeError := by decide
example : Spec.decode [0x43, 0x20, 0x35, 1, 2] = some (.simple (.info 16 32 3 5 [1, 2])) := by decide
example : IsBytes [0x11, 0x20, 6, 0, 2, 2, 0, 5] := by decide
/-- an empty service name is decoded as `some []` and re-encodes as absent (normal form) -/
example : Impl.decode [0x11, 0x20, 6, 0, 2, 2, 0, 5] = .ok (.simple (.connect 4 32 133 1 (some []))) := by decide
example : norm (.simple (.connect 4 32 133 1 (some []))) = .simple (.connect 4 32 133 1 none) := by decide
example : Impl.encode (.simple (.connect 4 32 133 1 (some []))) = .ok [0x11, 0x20, 2, 2, 0, 5] := by decide
example : Spec.decode [0, 0x80, 0, 4, 0x11, 0x20, 6, 0] = some (.agf 0 0 [.connect 4 32 128 1 (some [])]) := by decide

end NfcVerif.C11
