import NfcVerif.Model.Pdu
namespace NfcVerif.C11
end NfcVerif.C11
