import NfcVerif.Lemmas.PduRound
import NfcVerif.Lemmas.PduSpec
import NfcVerif.Lemmas.PduReenc
import NfcVerif.Lemmas.PduObj
import NfcVerif.Lemmas.PduOctets
/-!
# C11 - LLCP PDU encoding and decoding are mutually consistent

Statements only; proofs are in `Lemmas/Pdu.lean` (length), `Lemmas/PduSafe.lean`
(totality, locality) and `Lemmas/PduRound.lean` (round trip).  The model
`Model/Pdu.lean` transcribes `nfc/llcp/pdu.py` with the repairs of `fixes/C11`
(RW = 0 is encoded; `decode` restricts the buffer to the PDU; AGF inside AGF is
refused).  `Impl.decode b = Impl.decodeAt b 0 b.length`.

PDU objects are mutable and re-encoded by the stack (`tco` assigns `ns`/`nr`, `llc` fills the PAX PDU through its
properties and appends to the SNL lists, `==` compares encodings): `Model/PduObj.lean` adds assignments, the PAX
property setters/getters and histories of operations on one object; the `obj_*` / `pax_*` theorems below
(`Lemmas/PduObj.lean`) state the property for the fields an object has when it is observed, after any history.
-/
namespace NfcVerif.C11
open NfcVerif NfcVerif.Pdu

/-- Round trip with *field* equality (not the library's encoding-based `__eq__`), for
all 14 PDU classes and the unknown types 1011/1111: SAPs 0..63, N(S)/N(R) 0..15,
MIU 128..128+0x7FF, RW 0..15 (including 0), VERSION/LTO 0..255, WKS 0..0xFFFF,
OPT 0..7, DM reason 0..255, FRMR nibbles, service names/ECPK/RN of 1..255 octets
(absent = `none`), any number of SDREQ (name 0..254 octets) and SDRES entries,
payloads of any length, aggregates of any number of valid non-aggregate PDUs
of at most 65535 octets each. -/
theorem pdu_roundtrip (p : Pdu) (h : Valid p) :
    ∃ b, Impl.encode p = .ok b ∧ Impl.decode b = .ok p :=
  Impl.roundtrip p h

/-- `len(pdu)` is the length of the encoding - whenever the PDU can be encoded at
all (valid or not). -/
theorem pdu_len (p : Pdu) (b : Bytes) (h : Impl.encode p = .ok b) : Impl.len p = b.length :=
  Impl.len_eq h

/-- every valid PDU can be encoded, so `pdu_len` is not vacuous on valid PDUs -/
theorem pdu_len_valid (p : Pdu) (h : Valid p) : ∃ b, Impl.encode p = .ok b ∧ Impl.len p = b.length := by
  obtain ⟨b, he, _⟩ := Impl.roundtrip p h
  exact ⟨b, he, Impl.len_eq he⟩

/-- Decoding ANY list of numbers (in particular any octet string of any length)
yields a PDU or `DecodeError`: no `struct.error`, `IndexError`, recursion or
exhausted loop, also for aggregates and their elements. -/
theorem pdu_decode_total (b : Bytes) : Safe OnlyDecodeError (Impl.decode b) :=
  Impl.decodeAt_safe b 0 b.length

/-- the same for `decode(data, offset, size)` with arbitrary offset and size -/
theorem pdu_decode_at_total (data : Bytes) (off size : Nat) : Safe OnlyDecodeError (Impl.decodeAt data off size) :=
  Impl.decodeAt_safe data off size

/-- A PDU inside an aggregate (`decode(data, offset+2, pdu_size, nested=True)` in
`AggregatedFrame.decode`) is decoded from its own octets only: what precedes
and what follows in the buffer has no influence. -/
theorem agf_locality (pre e post : Bytes) :
    Impl.decodeNested (pre ++ e ++ post) pre.length e.length = Impl.decodeNested e 0 e.length :=
  Impl.decodeNested_local pre e post

/-- the same for the public `decode(data, offset, size)` -/
theorem decode_at_locality (pre e post : Bytes) :
    Impl.decodeAt (pre ++ e ++ post) pre.length e.length = Impl.decode e :=
  Impl.decodeAt_local pre e post

/-- an aggregated PDU decodes like the same octets received on their own -/
theorem nested_eq_decode (e : Bytes) (p : SPdu) (h : Impl.decodeNested e 0 e.length = .ok p) :
    Impl.decode e = .ok (.simple p) :=
  Impl.decodeAt_of_nested h

/-- For EVERY octet string (all 14 PDU types, unassigned types, aggregates, too short strings) the
decoder returns exactly what the independent reading `Spec.decode` of the LLCP 1.3 frame formats
returns (`toOpt` forgets which exception was raised). -/
theorem pdu_impl_refines_spec (b : Bytes) (hb : IsBytes b) : toOpt (Impl.decode b) = Spec.decode b :=
  Impl.decode_refines b hb

/-- the same in the two directions of the design: same PDU, and `DecodeError` exactly when the
format reading rejects the octets -/
theorem pdu_impl_refines_spec_iff (b : Bytes) (hb : IsBytes b) :
    (∀ p, Impl.decode b = .ok p ↔ Spec.decode b = some p) ∧
    (Impl.decode b = .error .decodeError ↔ Spec.decode b = none) := by
  have h := Impl.decode_refines b hb
  have ht := Impl.decodeAt_safe b 0 b.length
  cases hd : Impl.decode b with
  | ok q =>
    rw [hd] at h
    simp only [toOpt_ok] at h
    constructor
    · intro p
      constructor
      · intro e; cases e; exact h.symm
      · intro e; rw [← h] at e; cases e; rfl
    · constructor
      · intro e; cases e
      · intro e; rw [← h] at e; cases e
  | error e =>
    have he : e = .decodeError := ht e hd
    subst he
    rw [hd] at h
    simp only [toOpt_error] at h
    constructor
    · intro p
      constructor
      · intro e; cases e
      · intro e; rw [← h] at e; cases e
    · exact ⟨fun _ => h.symm, fun _ => rfl⟩

/-- Whatever `decode` returns for an octet string can be encoded again, and decoding that
encoding returns the same PDU in normal form.  Normal form (`norm`): an optional octet string
parameter that is present but EMPTY - CONNECT service name, DPS ECPK, DPS RN decoded from a TLV
with L = 0 - becomes absent; every other field, SDREQ names (also empty ones), payloads and the
list of aggregated PDUs (each in normal form) are unchanged.  `norm` is idempotent, so a second
re-encoding changes nothing (`pdu_norm_idem`). -/
theorem pdu_decode_reencode (b : Bytes) (hb : IsBytes b) (p : Pdu) (h : Impl.decode b = .ok p) :
    ∃ b', Impl.encode p = .ok b' ∧ Impl.decode b' = .ok (norm p) :=
  Impl.reencode b hb p h

theorem pdu_norm_idem (p : Pdu) : norm (norm p) = norm p := Impl.norm_idem p

/-- a valid PDU is in normal form, so `pdu_decode_reencode` and `pdu_roundtrip` agree on valid PDUs -/
theorem pdu_norm_valid (p : Pdu) (h : Valid p) : norm p = p := Impl.norm_of_valid p h


/-- The encoding of ANY PDU (valid or not) whose payloads and names are octet strings is an octet string
whenever `encode` succeeds: the range checks of the encoder cover every numeric field. -/
theorem pdu_encoding_is_octets (p : Pdu) (ho : Octets p) (b : Bytes) (he : Impl.encode p = .ok b) : IsBytes b :=
  Impl.encode_isBytes p ho b he

/-- Encoder against the independent reading, without going through the decoder: for every valid PDU with octet
payloads the encoding is an octet string that `Spec.decode` (LLCP 1.3 frame formats) reads back as that PDU. -/
theorem pdu_encoding_read_by_spec (p : Pdu) (hv : Valid p) (ho : Octets p) :
    ∃ b, Impl.encode p = .ok b ∧ IsBytes b ∧ Spec.decode b = some p :=
  Impl.encode_read_by_spec p hv ho

/-! ## PDU objects: the property after any history of assignments and observations -/

open Obj in
/-- Observations (`encode`, `len`, `encode_header`, `==`, `str`, property and field reads) never change the
fields: the fields after a history are those after its assignments / appends alone. -/
theorem obj_observers_pure (p : Pdu) (ops : List Op) : final p ops = final p (ops.filter Op.mutates) :=
  final_filter p ops

open Obj in
/-- What an operation returns after ANY history `pre` is a function (`reply`) of the fields the object has then;
in particular `encode` after a history is `Impl.encode` of the current fields - no stale value. -/
theorem obj_reply_at (p : Pdu) (pre : List Op) (o : Op) (post : List Op) :
    (run p (pre ++ o :: post))[pre.length]? = some (reply (final p pre) o) :=
  run_at p pre o post

open Obj in
/-- Round trip and length at any point of any history: whenever the fields reached are valid, `encode` succeeds,
decoding the encoding returns exactly those fields, and `len` is the length of the encoding. -/
theorem obj_history_roundtrip (p : Pdu) (pre post : List Op) (hv : Valid (final p pre)) :
    ∃ b, (run p (pre ++ .enc :: .len :: post))[pre.length]? = some (.bytes (.ok b)) ∧
      (run p (pre ++ .enc :: .len :: post))[pre.length + 1]? = some (.nat b.length) ∧
      Impl.decode b = .ok (final p pre) ∧
      final p pre = final p (pre.filter Op.mutates) :=
  history_roundtrip p pre post hv

open Obj in
/-- An in-range assignment keeps a non-aggregate PDU valid: for every attribute of every class (values in the
range of the attribute; the fixed SAPs of SYMM/PAX/SNL/DPS kept), the five private PAX attributes, the PAX
property setters with ANY number (they mask), whole SDREQ/SDRES lists and appends to them. -/
theorem obj_assign_valid (a : Asg) (p : SPdu) (hv : ValidS p) (ha : AsgOk a) (hs : SapOk a p) :
    ValidS (assignS a p) :=
  assignS_valid a p hv ha hs

open Obj in
/-- the same for every operation on an object, including `agf.append` and assignments to an aggregated PDU -/
theorem obj_apply_valid (p : Pdu) (o : Op) (hv : Valid p) (ho : OpOk p o) : Valid (apply p o) :=
  apply_valid p o hv ho

open Obj in
/-- A valid object under a history of in-range operations (any observations in between): at the end - hence at
every point, `pre` being any prefix - `encode` succeeds, decoding returns the current fields, `len` is the
length of the encoding. -/
theorem obj_valid_history_roundtrip (p : Pdu) (pre post : List Op) (hv : Valid p) (hh : HistOk p pre) :
    ∃ b, (run p (pre ++ .enc :: .len :: post))[pre.length]? = some (.bytes (.ok b)) ∧
      (run p (pre ++ .enc :: .len :: post))[pre.length + 1]? = some (.nat b.length) ∧
      Impl.decode b = .ok (final p pre) ∧ Valid (final p pre) :=
  valid_history_roundtrip p pre post hv hh

/-- The library's `==` compares encodings.  On valid PDUs it never raises and it is equality of the field
values (so comparing PDUs in a queue, as `tco` does, compares fields). -/
theorem pdu_eq_iff_fields (p q : Pdu) (hp : Valid p) (hq : Valid q) :
    ∃ r, Obj.pduEq p q = .ok r ∧ (r = true ↔ p = q) :=
  Obj.pduEq_iff p q hp hq

/-- the encoder is injective on valid PDUs -/
theorem pdu_encode_injective (p q : Pdu) (hp : Valid p) (hq : Valid q) (h : Impl.encode p = Impl.encode q) : p = q :=
  Obj.encode_injective p q hp hq h

open Obj in
/-- The PAX properties as `llc.activate` uses them: what the getters return after the setters, for every PAX PDU
and every number assigned. -/
theorem pax_property_set_get (d s : Nat) (a b c e f : Option Nat) (v x y : Nat) :
    paxGet .lsc (assignS (.n .lsc v) (.pax d s a b c e f)) = some (v % 4, 0) ∧
    paxGet .dpc (assignS (.n .lsc v) (.pax d s a b c e f)) = paxGet .dpc (.pax d s a b c e f) ∧
    paxGet .dpc (assignS (.n .dpc v) (.pax d s a b c e f)) = some (if v ≠ 0 then 1 else 0, 0) ∧
    paxGet .lsc (assignS (.n .dpc v) (.pax d s a b c e f)) = paxGet .lsc (.pax d s a b c e f) ∧
    paxGet .lto (assignS (.n .lto v) (.pax d s a b c e f)) = some (v / 10 % 256 * 10, 0) ∧
    paxGet .wks (assignS (.n .wks v) (.pax d s a b c e f)) = some (v % 65536, 0) ∧
    paxGet .miu (assignS (.n .miu v) (.pax d s a b c e f)) = some (max v 128, 0) ∧
    paxGet .version (assignS (.version x y) (.pax d s a b c e f)) = some (x % 16, y % 16) :=
  pax_set_get d s a b c e f v x y

open Obj in
theorem pax_lto_exact (d s : Nat) (a b c e f : Option Nat) (k : Nat) (hk : k ≤ 255) :
    paxGet .lto (assignS (.n .lto (10 * k)) (.pax d s a b c e f)) = some (10 * k, 0) :=
  Obj.pax_lto_exact d s a b c e f k hk

open Obj in
/-- the property setters produce valid parameters whatever number is assigned -/
theorem pax_setters_valid (p : SPdu) (hv : ValidS p) (v x y : Nat) :
    ValidS (assignS (.n .lsc v) p) ∧ ValidS (assignS (.n .dpc v) p) ∧ ValidS (assignS (.n .lto v) p) ∧
    ValidS (assignS (.n .wks v) p) ∧ ValidS (assignS (.version x y) p) :=
  Obj.pax_setters_valid p hv v x y

open Obj in
/-- `FrameReject.from_pdu`: the FRMR PDU built from a valid PDU, any subset of the flags "SRIW" and counters
0..15 has valid field values - hence `pdu_roundtrip` applies to it. -/
theorem frmr_from_pdu_valid (p : SPdu) (hv : ValidS p) (s r i w : Bool) (vs vsa vr vra : Nat)
    (h1 : vs ≤ 15) (h2 : vsa ≤ 15) (h3 : vr ≤ 15) (h4 : vra ≤ 15) :
    ValidS (frmrFromPdu p (flagList s r i w) vs vsa vr vra) :=
  frmrFromPdu_valid p hv s r i w vs vsa vr vra h1 h2 h3 h4

/-! Non-vacuity and the three repaired defects on concrete inputs. -/
example : Valid (.simple (.connect 4 32 130 0 (some [0x41, 0x42]))) := by simp [Valid, ValidS]
example : Valid (.agf 0 0 [.disc 1 2, .snl 1 1 [(1, [0x61])] [(2, 16)], .pax 0 0 (some 0x13) none (some 3) none (some 3)]) := by
  simp [Valid, ValidS, Impl.lenS, Impl.optLen, Impl.sumMap]
/-- F4: RW = 0 gets its TLV (the unrepaired code produced `11 20` and the peer assumed RW = 1) -/
example : Impl.encode (.simple (.connect 4 32 128 0 none)) = .ok [0x11, 0x20, 5, 1, 0] := by decide
example : Impl.decode [0x11, 0x20, 5, 1, 0] = .ok (.simple (.connect 4 32 128 0 none)) := by decide
example : Impl.len (.simple (.connect 4 32 128 0 none)) = 5 := by decide
/-- F5: CONNECT with a cut MIUX TLV inside an aggregate; the unrepaired code read the value `00 02`
from the length field of the next element -/
example : Impl.decode [0, 0x80, 0, 4, 0x11, 0x20, 2, 2, 0, 2, 0x05, 0x40] = .error .decodeError := by decide
example : Impl.decodeAt [0x11, 0x20, 6, 4, 0x41, 0x42, 0x43, 0x44] 0 4 = .error .decodeError := by decide
/-- F6: an aggregate inside an aggregate is refused, whatever the depth -/
example : Impl.decode [0, 0x80, 0, 6, 0, 0x80, 0, 2, 0, 0x80] = .error .decodeError := by decide
example : Impl.decode [0, 0x80, 0, 2, 0x05, 0x41, 0, 3, 0x0F, 0x44, 0x05] =
    .ok (.agf 0 0 [.disc 1 1, .rr 3 4 5]) := by decide
example : Impl.decode [0x03] = .error .decodeError := by decide
example : Spec.decode [0x43, 0x20, 0x35, 1, 2] = some (.simple (.info 16 32 3 5 [1, 2])) := by decide
example : IsBytes [0x11, 0x20, 6, 0, 2, 2, 0, 5] := by decide
example : Octets (.agf 0 0 [.ui 1 2 [0xFF, 0], .connect 4 32 130 0 (some [0x41, 0x42]), .snl 1 1 [(1, [0x61])] []]) := by
  simp [Octets, OctetsS, IsBytes]
/-- an empty service name is decoded as `some []` and re-encodes as absent (normal form) -/
example : Impl.decode [0x11, 0x20, 6, 0, 2, 2, 0, 5] = .ok (.simple (.connect 4 32 133 1 (some []))) := by decide
example : norm (.simple (.connect 4 32 133 1 (some []))) = .simple (.connect 4 32 133 1 none) := by decide
example : Impl.encode (.simple (.connect 4 32 133 1 (some []))) = .ok [0x11, 0x20, 2, 2, 0, 5] := by decide
example : Spec.decode [0, 0x80, 0, 4, 0x11, 0x20, 6, 0] = some (.agf 0 0 [.connect 4 32 128 1 (some [])]) := by decide

/-! objects: the send path of a data link connection (N(S) at `send()`, `==` in the queue, N(R) at dequeue) -/
section
open Obj
example : run (.simple (.info 32 16 0 0 [0x68, 0x69]))
    [.enc, .set (.n .ns 3), .eq (.simple (.info 32 16 3 0 [0x68, 0x69])), .set (.n .nr 7), .enc, .len, .state] =
    [.bytes (.ok [0x83, 0x10, 0x00, 0x68, 0x69]), .none, .bool (.ok true), .none,
     .bytes (.ok [0x83, 0x10, 0x37, 0x68, 0x69]), .nat 5, .pdu (.simple (.info 32 16 3 7 [0x68, 0x69]))] := by decide
example : HistOk (.simple (.info 32 16 0 0 [0x68, 0x69]))
    [.enc, .set (.n .ns 3), .eq (.simple (.info 32 16 3 0 [0x68, 0x69])), .set (.n .nr 7)] := by
  simp [HistOk, OpOk, AsgOk, SapOk, freeSap, apply, assignS, assignN]
example : Valid (final (.simple (.info 32 16 0 0 [0x68, 0x69])) [.enc, .set (.n .ns 3), .len, .set (.n .nr 7)]) := by
  simp [final, apply, assignS, assignN, Valid, ValidS]
/-- the PAX PDU as `llc.activate` fills it -/
example : final (.simple (.pax 0 0 none none none none none))
    [.set (.version 1 3), .set (.n .wks 0x13), .set (.n .miu 2175), .set (.n .lto 500), .set (.n .lsc 3), .set (.n .dpc 1)] =
    .simple (.pax 0 0 (some 0x13) (some 0x7FF) (some 0x13) (some 50) (some 7)) := by decide
example : HistOk (.agf 0 0 [.disc 1 2]) [.append (.rr 1 2 3), .enc, .setItem 1 (.n .nr 5)] := by
  simp [HistOk, OpOk, AsgOk, SapOk, ValidS, Impl.lenS, apply, assignS, assignN]
example : run (.agf 0 0 [.disc 1 2]) [.append (.rr 1 2 3), .setItem 1 (.n .nr 5), .enc, .len] =
    [.none, .none, .bytes (.ok [0, 0x80, 0, 2, 5, 0x42, 0, 3, 7, 0x42, 5]), .nat 11] := by decide
/-- a PAX parameter that holds its default value is still encoded and counted (LTO = 10, i.e. 100 ms) -/
example : Impl.encode (.simple (.pax 0 0 none none none (some 10) none)) = .ok [0, 0x40, 4, 1, 10] := by decide
example : Impl.len (.simple (.pax 0 0 none none none (some 10) none)) = 5 := by decide
example : Obj.pduEq (.simple (.rr 1 2 3)) (.simple (.rr 1 2 4)) = .ok false := by decide
example : frmrFromPdu (.info 32 16 5 9 [1]) (flagList false false false true) 1 2 3 4 = .frmr 16 32 8 12 5 9 1 3 2 4 := by decide
end

end NfcVerif.C11
