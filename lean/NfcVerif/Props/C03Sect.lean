import NfcVerif.Lemmas.SectC03
/-!
# C03 - Type 2 Tags with more than one sector: every page command lands where the memory reader means it

Model: `NfcVerif.Model.SectC03` - `Type2Tag.sector_select / read / write / transceive` and the
`Type2TagMemoryReader` (`reader[a]`, `reader[a] = v`, `synchronize()`) against a Type 2 Tag state machine
with 1 KiB sectors, through an air interface that can damage every single `exchange()` (`Air`: frame
dropped, frame damaged on the way to the tag, answer lost or damaged; `transceive` retries as the code
does).  A history (`run`) is any sequence of calls on ONE tag object and ONE memory reader; an exception
reaches the application, which simply makes the next call (retry).

The confinement theorems of `Props/C03*.lean` speak about LINEAR byte addresses.  On a tag with several
sectors a WRITE frame carries `page % 256`; where it lands is decided by the sector the tag is really in.
The theorems below close that gap for all histories and all fault scripts, up to the first event that no
reader can handle (`Ev.clean`; see `Model/SectC03`): an unfaithful passive acknowledgement of SECTOR
SELECT packet 2.  The model is the repaired code: a re-activation of the tag (NAK answer to READ) sets the
belief to sector 0, a packet 2 answered by anything but silence makes the belief unknown (`none`), so that
the next page access selects its sector again.
-/
namespace NfcVerif.C03Sect
open NfcVerif NfcVerif.SectC03

/-- **The tag object's belief about the selected sector is never wrong when a command is executed.**  For
every memory, every fault script (any fault on any exchange, any number of them) and every history of
`reader[a]`, `reader[a] = v`, `synchronize()`, `sector_select`, `read`, `write` calls with retries after
errors: every READ / WRITE / SECTOR SELECT the tag executed before the first unfaithful passive
acknowledgement was sent while `_current_sector` was either unknown (`None`) or the sector the tag really
was in; and at the end the belief is still unknown or right.  Re-activations and damaged answers to
packet 2 are covered (not excluded). -/
theorem sector_belief_sound (mem : Bytes) (script : List Air) (ops : List Op) :
    (∀ e ∈ (run (fresh mem script) ops).1.1.trace, e.clean = true → e.bel = none ∨ e.bel = some e.real)
    ∧ ((run (fresh mem script) ops).1.1.amb = false →
        (run (fresh mem script) ops).1.1.cur = none ∨
        (run (fresh mem script) ops).1.1.cur = some (run (fresh mem script) ops).1.1.tag.sector) := by
  have h := run_inv ops (fresh mem script) ⟨fun _ => Or.inr rfl, fun e he => by simp [fresh] at he⟩
  exact ⟨fun e he hc => (h.2 e he).1 hc, h.1⟩

/-- the same from any state of object and reader in which the belief is unknown or right -/
theorem sector_belief_sound_from (s : W × MR) (ops : List Op) (hi : Inv s.1) :
    ∀ e ∈ (run s ops).1.1.trace, e.clean = true → e.bel = none ∨ e.bel = some e.real :=
  fun e he hc => ((run_inv ops s hi).2 e he).1 hc

/-- **Every page command of the memory reader lands on the linear address it is meant for**: a READ or
WRITE issued by `_read_from_tag` / `_write_to_tag` for linear page `p` (byte address `4 p`, any sector)
and executed by the tag before the first unfaithful passive acknowledgement touched exactly the bytes
`4 p ..` of the flat memory - whatever faults hit earlier exchanges (both SECTOR SELECT packets, NAK answers
with re-activation, damaged answers) and however often the application retried. -/
theorem reader_commands_land (mem : Bytes) (script : List Air) (ops : List Op) :
    ∀ e ∈ (run (fresh mem script) ops).1.1.trace, e.mr = true → e.kind ≠ .select → e.clean = true →
      e.addr = e.page * 4 := by
  intro e he hm hk hc
  have h := run_inv ops (fresh mem script) ⟨fun _ => Or.inr rfl, fun e he => by simp [fresh] at he⟩
  have h1 := (h.2 e he).1 hc
  have h2 := (h.2 e he).2 hm hk
  rw [h2] at h1
  simp at h1
  unfold Ev.addr
  omega

/-- **Independent of faults the memory reader selects the sector of the page it is about to address**:
every page command it sends is sent while the object believes - knows - sector `page / 256` (never while
the belief is unknown). -/
theorem reader_selects_sector (mem : Bytes) (script : List Air) (ops : List Op) :
    ∀ e ∈ (run (fresh mem script) ops).1.1.trace, e.mr = true → e.kind ≠ .select →
      e.bel = some (e.page / 256) := by
  intro e he hm hk
  have h := run_inv ops (fresh mem script) ⟨fun _ => Or.inr rfl, fun e he => by simp [fresh] at he⟩
  exact (h.2 e he).2 hm hk

/-- a failed `sector_select` (any fault on packet 1, a damaged packet 2 or a damaged answer to it) leaves the
belief unknown or right; a successful one ends with belief = requested sector -/
theorem sector_select_keeps_belief (w : W) (mr : Bool) (s : Nat) (hi : Inv w) :
    Inv (sectorSelect w mr s).1 ∧
    (∀ v, (sectorSelect w mr s).2 = .ok v → (sectorSelect w mr s).1.cur = some s) :=
  sectorSelect_spec w mr s hi

/-- **Re-activation is handled**: after a READ answered with NAK (the tag is sensed again and returns to
sector 0) the object believes sector 0 - from any state in which the belief was unknown or right. -/
theorem reactivation_sound (w : W) (mr : Bool) (p : Nat) (hi : Inv w) (hp : mr = true → w.cur = some (p / 256)) :
    Inv (read w mr p).1 :=
  read_spec w mr p hi hp

/-! ### non-vacuity and necessity of the `clean` hypothesis -/

def mem2 : Bytes := List.replicate 1040 0

/-- non-vacuity: packet 2 of the first select is damaged (error reaches the application, tag stays in sector
0, belief unknown), the retry selects again, a WRITE answer is lost and the WRITE repeated: two clean WRITEs
executed in sector 1 -/
example :
    ((run (fresh mem2 [.ok, .corrupt .transmission, .ok, .ok, .lost .transmission]) [.sel 1, .sel 1, .wr 257 [1, 2, 3, 4]]).1.1.trace.map
      fun e => (e.kind, e.real, e.bel, e.addr, e.clean))
      = [(.write, 1, some 1, 1028, true), (.write, 1, some 1, 1028, true), (.select, 0, none, 4, true)] := by
  decide +kernel

/-- the same through the memory reader: reading byte 1030 walks 65 READs over the sector boundary -/
example :
    (((run (fresh mem2 [.drop, .lost .protocol]) [.get 1030]).1.1.trace.filter fun e => e.real = 1).map
      fun e => (e.kind, e.bel, e.addr, e.mr, e.clean)) = [(.read, some 1, 1024, true, true)] := by
  decide +kernel

/-- re-activation (formerly finding `t2-sector-stale-after-reactivation`): the READ in sector 1 is answered with
NAK, the tag is sensed again and returns to sector 0, the object believes sector 0, so `sector_select(1)` sends
the command again and the WRITE for linear page 256 lands on byte 1024 -/
example :
    ((run (fresh mem2 [.ok, .ok, .corrupt .nak]) [.sel 1, .rd 256, .sel 1, .wr 256 [1, 2, 3, 4]]).1.1.trace.map
      fun e => (e.kind, e.real, e.bel, e.addr, e.clean))
      = [(.write, 1, some 1, 1024, true), (.select, 0, some 0, 4, true), (.select, 0, some 0, 4, true)] := by
  decide +kernel

/-- damaged answer to packet 2 while the tag DID switch: not ambiguous any more - the belief becomes unknown; a
direct `write` then runs with an unknown belief (the memory reader would select first, `reader_selects_sector`) -/
example :
    ((run (fresh mem2 [.ok, .lost .transmission]) [.sel 1, .wr 0 [1, 2, 3, 4]]).1.1.trace.map
      fun e => (e.kind, e.real, e.bel, e.addr, e.clean))
      = [(.write, 1, none, 1024, true), (.select, 0, some 0, 4, true)] := by
  decide +kernel

/-- **Why `clean` cannot be dropped: the passive acknowledgement.**  Packet 2 never reaches the tag, the
reader sees the silence it expects: the object believes sector 1, the tag is in sector 0 and the second WRITE
to linear page 256 lands on page 0 (the identifier). No reader can tell this from a successful select. -/
theorem unfaithful_ack_counterexample :
    ((run (fresh mem2 [.ok, .drop]) [.sel 1, .wr 256 [1, 2, 3, 4], .wr 256 [1, 2, 3, 4]]).1.1.trace.map
      fun e => (e.kind, e.real, e.bel, e.addr, e.clean)) = [(.write, 0, some 1, 0, false)] := by
  decide +kernel

end NfcVerif.C03Sect
