import NfcVerif.Lemmas.T3LinkC01
/-!
# C01, emulated Type 3 Tag - the library's reader against the library's emulation, end to end

`Model/T3LinkC01.lean` runs the reader code of `Type3Tag.NDEF` (`Model/T3.lean`: attribute block, `Nbr`/`Nbw`
batching, command plan) against `Type3TagEmulation.process_command` (`Model/T3Emu.lean`) frame by frame: command
encoding with 2- and 3-octet block list elements, the checks of `send_cmd_recv_rsp`, the retransmission loop.
The theorems say that on a well-formed block store this composition behaves exactly like the reader on a plain
memory, so the Type 3 theorems of `Props/C01T34.lean` and `Props/C01Hist.lean` hold for the emulated tag.
-/
namespace NfcVerif.C01Emu
open NfcVerif NfcVerif.T34 NfcVerif.T3Emu

/-- **Write then read through `process_command` returns the message, for every block list element format.**
Emulated tag with IDm/PMm of 8 octets and system code 12FCh, a block store whose block 0 holds valid attributes `a`
(`T3.WF`: mapping version 1.x, `1 ≤ Nbr`, `1 ≤ Nbw` with a write command of `Nbw` blocks fitting the 255 octet frame,
`Nmaxb ≤ 65535` data blocks present - below 256 the block list elements have 2 octets, from 256 on 3 octets), any
message up to `16·Nmaxb` octets: `tag.ndef.octets = data` succeeds, sends exactly the planned commands (one
exchange each), leaves the store the plain-memory model predicts, and a fresh reader talking to the emulation
sees exactly `data`, readable and writeable. -/
theorem t3emu_link_roundtrip (e : Emu) (id : T3Link.Ident e) (a : T3.Attr) (wf : T3.WF e.store a) (data : Bytes)
    (hlen : data.length ≤ 16 * a.nmaxb) :
    ∃ t, T3Link.setOctets e data = .ok (some t) ∧ t.res = .ok () ∧ t.frames = (T3.planWrite a data).length ∧
      t.emu = { e with store := T3.finalMem e.store a data } ∧
      T3Link.see t.emu = .ok (some ⟨(a.nmaxb * 16 : Nat), true, true, data⟩) :=
  T3Link.link_roundtrip e id a wf data hlen

/-- one write command of the reader (consecutive blocks `blk .. blk+n-1`, `16·n` data octets, frame within 255
octets, block numbers up to 65535) is executed by the emulation in one exchange and stores the data like a plain
memory does -/
theorem t3emu_write_is_plain_memory (e : Emu) (id : T3Link.Ident e) (c : T3.WCmd)
    (hs : 16 * (c.blk + c.n) ≤ e.store.length) (h65 : c.blk + c.n ≤ 65536) (hd : c.data.length = 16 * c.n)
    (hfit : 14 + T3.elemSum c.blk c.n + c.data.length ≤ 255) :
    T3Link.wrBlocks e e.idm c = (.ok (), { e with store := splice e.store (16 * c.blk) c.data }, 1) :=
  T3Link.wrBlocks_ok e id c hs h65 hd hfit

/-- one read command of the reader (up to 15 consecutive blocks) returns the octets of the store -/
theorem t3emu_read_is_plain_memory (e : Emu) (id : T3Link.Ident e) (first n : Nat) (hn : 1 ≤ n ∧ n ≤ 15)
    (hs : 16 * (first + n) ≤ e.store.length) (h65 : first + n ≤ 65536) :
    T3Link.rdBlocks e e.idm first n = .ok (sliceN e.store (16 * first) (16 * (first + n))) :=
  T3Link.rdBlocks_ok e id first n hn hs h65

/-! ## Non-vacuity: a store of 301 blocks (block numbers above 255 = 3-octet block list elements) -/
def exE : Emu := ⟨[1, 2, 3, 4, 5, 6, 7, 8], [0, 0xF0, 255, 255, 255, 255, 255, 255], [0x12, 0xFC],
  T3.encodeAttr ⟨0x10, 15, 12, 300, 0, 1, 0⟩ ++ List.replicate 4800 7⟩
def exA : T3.Attr := ⟨0x10, 15, 12, 300, 0, 1, 0⟩
theorem exId : T3Link.Ident exE := ⟨rfl, rfl, rfl⟩
theorem exWF : T3.WF exE.store exA :=
  ⟨by decide, ⟨by decide, by decide, by decide, by decide, by decide, by decide, by decide⟩, by decide, by decide, by decide,
   by simp [T3.WriteFits, exA], by decide,
   by show 16 * (300 + 1) ≤ (T3.encodeAttr _ ++ List.replicate 4800 7).length
      rw [List.length_append, List.length_replicate, T3.encodeAttr_length]; omega, by decide⟩
/-- 4790 octets reach block 300; the write needs 2 + ⌈300/12⌉ = 27 commands -/
example : ∃ t, T3Link.setOctets exE (List.replicate 4790 9) = .ok (some t) ∧ t.res = .ok () ∧
    T3Link.see t.emu = .ok (some ⟨4800, true, true, List.replicate 4790 9⟩) := by
  obtain ⟨t, h1, h2, _, _, h5⟩ := t3emu_link_roundtrip exE exId exA exWF (List.replicate 4790 9)
    (by rw [List.length_replicate]; show 4790 ≤ 16 * 300; omega)
  exact ⟨t, h1, h2, h5⟩
/-- a 12 block write reaching block 300: the frame has 14 + 36 + 192 = 242 octets -/
example : 14 + T3.elemSum 289 12 + 192 = 242 := by decide

end NfcVerif.C01Emu
