import NfcVerif.Lemmas.Retry
/-!
# C16 - Tag commands retry transient errors and fail only as TagCommandError

Statements only; proofs are in `Lemmas/Retry.lean`, the model in `Model/Retry.lean`.
`tlv` (whether tt1.read_tlv swallows the command error for the whole TLV: repair of C08) is universally
quantified.  All theorems about operations are for the repaired code (`Cfg.repaired`: fixes/C16/0001-0005);
the as-found behaviour is kept in the model (`Cfg.asFound`) and shown by the examples at the end.
-/
namespace NfcVerif.C16
open NfcVerif NfcVerif.Retry

/-- start state of an operation: fault script, empty logs -/
def start (script : List Att) : World := ⟨script, [], []⟩

/-- **bounded repetition, stops at the first answer** (Type 1/2 `transceive`, Type 3
`send_cmd_recv_rsp`, any budget, any script, as found and repaired): one call of the primitive
adds one invocation to the log whose attempts are unanswered ones followed by at most one more
attempt, never more than the budget; hence an answered command is never sent again. -/
theorem transceive_bounded (cfg : Cfg) (p : Prim) (c : Cmd) (a : Ans) (w : World) (hk : LoopKind p.kind) :
    ∃ fails tail, (prim cfg p c a w).2.log = w.log ++ [⟨c, fails ++ tail⟩]
      ∧ (∀ x ∈ fails, isAnswered x = false) ∧ tail.length ≤ 1 ∧ fails.length + tail.length ≤ p.budget := by
  have key : ∀ k, ∃ fails tail, (loop cfg k p.idm c a p.budget none [] w).2.log = w.log ++ [⟨c, fails ++ tail⟩]
      ∧ (∀ x ∈ fails, isAnswered x = false) ∧ tail.length ≤ 1 ∧ fails.length + tail.length ≤ p.budget := by
    intro k
    obtain ⟨f, t, h1, h2, h3, h4⟩ := loop_log cfg k p.idm c a p.budget none [] w
    exact ⟨f, t, by simpa using h1, h2, h3, h4⟩
  unfold prim
  rcases hk with h | h <;> rw [h] <;> exact key _

/-- **matching reason code**: when every attempt of the budget fails with the same class
(timeout / transmission / protocol error; command lost or answer lost) the primitive raises
TagCommandError with TIMEOUT_ERROR / RECEIVE_ERROR / PROTOCOL_ERROR. -/
theorem transceive_errno (cfg : Cfg) (p : Prim) (c : Cmd) (a : Ans) (w : World) (f : Fault) (e : Int)
    (hk : LoopKind p.kind) (hb : 0 < p.budget) (hf : f.errno = some e) (hs : startsWith f p.budget w.script) :
    (prim cfg p c a w).1 = .error (.tagCmd e) := by
  have key : ∀ k, (loop cfg k p.idm c a p.budget none [] w).1 = .error (.tagCmd e) := by
    intro k
    rw [loop_exhausted cfg k p.idm c a f p.budget none [] w hs (by omega)]
    simp [exhausted, hf]
  unfold prim
  rcases hk with h | h <;> rw [h] <;> exact key _

/-- **ISO-DEP exchange is bounded** (coarse model of `IsoDepInitiator.exchange` for one unchained
command, as found and repaired, any retry budget, any script): the loop terminates (the fuel of the
model is never used up), logs one invocation and sends at most `n_retry + 2` frames. -/
theorem isodep_bounded (cfg : Cfg) (p : Prim) (c : Cmd) (a : Ans) (w : World) (hk : p.kind = .t4) :
    (prim cfg p c a w).1 ≠ .error .outOfFuel
    ∧ ∃ atts, (prim cfg p c a w).2.log = w.log ++ [⟨c, atts⟩] ∧ atts.length ≤ p.budget + 2 := by
  unfold prim; rw [hk]; simp only []
  obtain ⟨h1, _, more, h3, h4⟩ := dep_spec cfg p.budget c a (p.budget + 3) 1 false false [] w
    (by omega) (by intro h; cases h) (by omega) (by simp)
  refine ⟨?_, more, by simpa using h3, by simpa using h4⟩
  intro he
  rcases h1 _ he with ⟨m, hm⟩ | ⟨_, f, hf⟩
  · cases hm
  · cases f <;> cases hf

/-- **ISO-DEP matching reason code**: `n_retry + 1` timeouts (transmission errors) in a row end the
exchange with TagCommandError TIMEOUT_ERROR (RECEIVE_ERROR); a protocol error is final at once. -/
theorem isodep_errno (cfg : Cfg) (p : Prim) (c : Cmd) (a : Ans) (w : World) (f : Fault) (e : Int)
    (hk : p.kind = .t4) (hf : (f = .timeout ∧ e = 0) ∨ (f = .transmission ∧ e = -1))
    (hs : startsWith f (p.budget + 1) w.script) :
    (prim cfg p c a w).1 = .error (.tagCmd e) := by
  unfold prim; rw [hk]; simp only []
  exact dep_exhausted cfg p.budget c a f e hf (p.budget + 3) 1 false false [] w (by omega) (by omega)
    (by simpa using hs)

/-- **documented outcome, every fault script** (Type 3 and Type 4 families: generic Type 3, FeliCa
Standard, FeliCa Lite, Type 4A/B over ISO-DEP with any retry budget): every operation, for any
command sequence `l` and EVERY fault script of any length - timeouts, transmission and protocol
errors, unknown CommunicationError classes, lost commands and lost answers, cut Type 3 answers -
ends with a value or a TagCommandError. -/
theorem op_outcome_documented (tlv : Bool) (fam op : String) (l : Phases) (v : Val) (nret : Nat) (P : Prog)
    (script : List Att) (h : prog Cfg.repaired tlv fam op l v nret = some P)
    (hf : fam = "t3" ∨ fam = "t3std" ∨ fam = "lite" ∨ fam = "t4") :
    Documented (run Cfg.repaired P 0 (start script)).1 :=
  run_documented Robust True (fun _ _ h => h) P 0 (start script)
    (prog_clean_robust tlv fam op l v nret P h hf) (Or.inl trivial)

/-- **documented outcome, all families** (partial): every operation of every modelled family
(Type 1, 2, 3, 4, generic and vendor classes) ends with a value or a TagCommandError for every
fault script made of timeout / transmission / protocol errors and cut answers.  What remains
excluded (only relevant for the Type 1 and Type 2 families, see `op_outcome_documented`): scripts in
which `exchange` raises another CommunicationError class three times in a row; there Type 1/2
raise RuntimeError (`unknown_commerror_counterexample`, open finding pinned by the test-suite). -/
theorem op_outcome_documented_partial (tlv : Bool) (fam op : String) (l : Phases) (v : Val) (nret : Nat) (P : Prog)
    (script : List Att) (h : prog Cfg.repaired tlv fam op l v nret = some P)
    (hb : Benign (start script)) :
    Documented (run Cfg.repaired P 0 (start script)).1 :=
  run_documented (fun _ => True) False (fun h => h.elim) P 0 (start script)
    (prog_clean_all tlv fam op l v nret P h) (Or.inr hb)

/-- Type 3 `format` (the probing loops take their decisions from errors): for every tag, with and
without wipe, for every fault script. -/
theorem t3_format_documented (t : T3Tag) (wipe : Bool) (script : List Att) :
    Documented (run Cfg.repaired (t3Format Cfg.repaired t wipe) 0 (start script)).1 :=
  run_documented Robust True (fun _ _ h => h) _ 0 (start script)
    (t3Format_clean Robust (Or.inl rfl) Cfg.repaired t wipe) (Or.inl trivial)

/-- **an answered command is never repeated** in any operation of the Type 1/2/3 families: in the
exchange log of every run every primitive call consists of unanswered attempts followed by at most
one more attempt, three at most.  (A retried *unanswered* write may have been executed by the tag
before its answer was lost and is then executed again - inherent, see `lost_answer_write_twice`.) -/
theorem write_not_duplicated (tlv : Bool) (fam op : String) (l : Phases) (v : Val) (nret : Nat) (P : Prog)
    (script : List Att) (h : prog Cfg.repaired tlv fam op l v nret = some P) (h4 : fam ≠ "t4") :
    LogOK (run Cfg.repaired P 0 (start script)).2.log :=
  run_log Cfg.repaired LoopKind (fun _ h => h) P 0 (start script) (prog_clean tlv fam op l v nret P h h4)
    (by intro inv hm; cases hm)

/-! ## counter-examples (open findings) and as-found behaviour -/

def rd0 : Step := ⟨⟨"r0", false⟩, .ok⟩
def wr4 : Step := ⟨⟨"w4", true⟩, .ok⟩
def bl : Att := .flt .brokenLink false

/-- open finding `t1t2-unknown-commerror-runtimeerror` (F31, pinned by the test-suite): three
BrokenLinkError in a row end the Type 2 presence check with RuntimeError. -/
theorem unknown_commerror_counterexample :
    (prog Cfg.repaired true "t2" "present" [[rd0]] .true_ 0).map (fun P => (run Cfg.repaired P 0 (start [bl, bl, bl])).1)
      = some (.exc .runtime) := by decide +kernel

/-- open finding `t4-presence-check-not-retried` (pinned by the test-suite): one timeout on the
R(NAK) presence check of a Type 4 tag gives False. -/
theorem presence_check_not_retried :
    (prog Cfg.repaired true "t4" "present" [[⟨⟨"nak", false⟩, .ok⟩]] .true_ 5).map
      (fun P => (run Cfg.repaired P 0 (start [.flt .timeout false])).1) = some (.ok .false_) := by decide +kernel

/-- a write whose answer is lost is executed again by the retry (inherent) -/
theorem lost_answer_write_twice :
    (prog Cfg.repaired true "t2" "write" [[wr4]] .unit 0).map
      (fun P => (run Cfg.repaired P 0 (start [.flt .timeout true])).2.applied.map (·.tok)) = some ["w4", "w4"] := by
  decide +kernel

/-! as found (before fixes/C16): F17, F31 (Type 3), F32, sector select assert, ISO-DEP unknown CommunicationError -/
example : (prog Cfg.asFound false "t3" "write" [[rd0], [wr4]] .unit 0).map
    (fun P => (run Cfg.asFound P 0 (start [.flt .timeout false, .flt .timeout false, .flt .timeout false])).1)
    = some (.exc .type_) := by decide +kernel
example : (prog Cfg.asFound false "t3" "ndef" [[], [rd0]] .ndef 0).map (fun P => (run Cfg.asFound P 0 (start [bl, bl, bl])).1)
    = some (.exc .unbound) := by decide +kernel
example : (prog Cfg.asFound false "t3" "ndef" [[], [rd0]] .ndef 0).map (fun P => (run Cfg.asFound P 0 (start [.short 0])).1)
    = some (.exc .index) := by decide +kernel
example : (prog Cfg.asFound false "t2" "write" [[⟨⟨"s2", false⟩, .mute⟩, wr4]] .unit 0).map
    (fun P => (run Cfg.asFound P 0 (start [.flt .transmission false])).1) = some (.exc .assertion) := by decide +kernel
example : (prog Cfg.asFound false "t4" "write" [[⟨⟨"up0", true⟩, .ok⟩]] .unit 5).map (fun P => (run Cfg.asFound P 0 (start [bl])).1)
    = some (.exc .brokenLink) := by decide +kernel
/-- repaired: the same scripts end in TagCommandError -/
example : (prog Cfg.repaired true "t4" "write" [[⟨⟨"up0", true⟩, .ok⟩]] .unit 5).map (fun P => (run Cfg.repaired P 0 (start [bl])).1)
    = some (.exc (.tagCmd (-1))) := by decide +kernel
example : (prog Cfg.repaired true "t3" "write" [[rd0], [wr4]] .unit 0).map
    (fun P => (run Cfg.repaired P 0 (start [.flt .timeout false, .flt .timeout false, .flt .timeout false])).1)
    = some (.exc (.tagCmd 0)) := by decide +kernel
example : (prog Cfg.repaired true "t2" "write" [[⟨⟨"s2", false⟩, .mute⟩, wr4]] .unit 0).map
    (fun P => (run Cfg.repaired P 0 (start [.flt .transmission false])).1) = some (.exc (.tagCmd (-1))) := by decide +kernel

/-! non-vacuity of the hypotheses -/
example : startsWith .timeout (5 + 1) (List.replicate 6 (.flt .timeout true)) := by simp [startsWith, List.replicate]
/-- ISO-DEP: the I-block is lost, R(NAK) is answered with R(ACK), the retransmitted I-block is
executed once -/
example : (prog Cfg.repaired true "t4" "write" [[⟨⟨"up0", true⟩, .ok⟩]] .unit 5).map
    (fun P => let r := run Cfg.repaired P 0 (start [.flt .timeout false]); (r.1, r.2.applied.map (·.tok)))
    = some (.ok .unit, ["up0"]) := by decide +kernel
example : LoopKind t12.kind ∧ 0 < t12.budget := ⟨Or.inl rfl, by decide⟩
example : startsWith .transmission 3 [.flt .transmission true, .flt .transmission false, .flt .transmission true, .ans] := by
  simp [startsWith]
example : Benign (start [.flt .timeout true, .ans, .short 2, .flt .protocol false]) := by
  intro f r h; simp [start] at h; rcases h with ⟨h, _⟩ | ⟨h, _⟩ <;> subst h <;> simp [Fault.errno]
/-- two timeouts are absorbed, the third answer ends the presence check with True -/
example : (prog Cfg.repaired true "t2" "present" [[rd0]] .true_ 0).map
    (fun P => (run Cfg.repaired P 0 (start [.flt .timeout false, .flt .timeout true])).1) = some (.ok .true_) := by
  decide +kernel

end NfcVerif.C16
