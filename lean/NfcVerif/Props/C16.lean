import NfcVerif.Lemmas.Retry
import NfcVerif.Lemmas.RetryObj
/-!
# C16 - Tag commands retry transient errors and fail only as TagCommandError

Statements only; proofs are in `Lemmas/Retry.lean`, the model in `Model/Retry.lean`.
`tlv` (whether tt1.read_tlv swallows the command error for the whole TLV: repair of C08) is universally
quantified.  All theorems about operations are for the repaired code (`Cfg.repaired`: fixes/C16/0001-0005);
the as-found behaviour is kept in the model (`Cfg.asFound`) and shown by the examples at the end.

The state `w : World` an operation starts in is arbitrary: any fault script, any script of `clf.sense`
results, any exchange log, and whatever earlier operations on the same tag object have left behind
(`gone`: Type 2 target lost, `sticky`: ISO-DEP error memory).  The only assumption about it is `Sound w`
(the tag object knows when the frontend has dropped its target); `Sound` holds for a new tag object and is
preserved by every operation (`tag_object_stays_sound`).
-/
namespace NfcVerif.C16
open NfcVerif NfcVerif.Retry

/-- start state of a new tag object: fault script, sense script, empty logs -/
def start (script : List Att) (senses : List Bool := []) : World := { script := script, senses := senses }

theorem start_sound (script : List Att) (senses : List Bool) : Sound (start script senses) := by
  intro h; cases h

/-- the link of the tag object is usable: Type 2 target not lost (nothing to say for the other kinds) -/
def Alive (p : Prim) (w : World) : Prop := p.kind = .t12 → w.gone = false ∧ w.lost = false

/-- **bounded repetition, stops at the first answer** (Type 1/2 `transceive`, Type 3
`send_cmd_recv_rsp`, any budget, any script, as found and repaired): one call of the primitive
adds one invocation to the log whose attempts are unanswered ones followed by at most one more
attempt, never more than the budget; hence an answered command is never sent again. -/
theorem transceive_bounded (cfg : Cfg) (p : Prim) (c : Cmd) (a : Ans) (w : World) (hk : LoopKind p.kind)
    (hw : Alive p w) :
    ∃ fails tail, (prim cfg p c a w).2.log = w.log ++ [⟨c, fails ++ tail⟩]
      ∧ (∀ x ∈ fails, isAnswered x = false) ∧ tail.length ≤ 1 ∧ fails.length + tail.length ≤ p.budget := by
  have key : ∀ k, ∃ fails tail, (loop cfg k p.idm c a p.budget none [] w).2.log = w.log ++ [⟨c, fails ++ tail⟩]
      ∧ (∀ x ∈ fails, isAnswered x = false) ∧ tail.length ≤ 1 ∧ fails.length + tail.length ≤ p.budget := by
    intro k
    obtain ⟨f, t, h1, h2, h3, h4⟩ := loop_log cfg k p.idm c a p.budget none [] w
    exact ⟨f, t, by simpa using h1, h2, h3, h4⟩
  unfold prim
  rcases hk with h | h
  · rw [h]; simp only [(hw h).1, (hw h).2]; exact key _
  · rw [h]; exact key _

/-- **matching reason code**: when every attempt of the budget fails with the same class
(timeout / transmission / protocol error; command lost or answer lost) the primitive raises
TagCommandError with TIMEOUT_ERROR / RECEIVE_ERROR / PROTOCOL_ERROR. -/
theorem transceive_errno (cfg : Cfg) (p : Prim) (c : Cmd) (a : Ans) (w : World) (f : Fault) (e : Int)
    (hk : LoopKind p.kind) (hw : Alive p w) (hb : 0 < p.budget) (hf : f.errno = some e)
    (hs : startsWith f p.budget w.script) :
    (prim cfg p c a w).1 = .error (.tagCmd e) := by
  have key : ∀ k, (loop cfg k p.idm c a p.budget none [] w).1 = .error (.tagCmd e) := by
    intro k
    rw [loop_exhausted cfg k p.idm c a f p.budget none [] w hs (by omega)]
    simp [exhausted, hf]
  unfold prim
  rcases hk with h | h
  · rw [h]; simp only [(hw h).1, (hw h).2]; exact key _
  · rw [h]; exact key _

/-- **ISO-DEP exchange is bounded** (coarse model of `IsoDepInitiator.exchange` for one unchained
command, as found and repaired, any retry budget, any script, no error remembered): the loop
terminates (the fuel of the model is never used up), logs one invocation and sends at most
`n_retry + 2` frames. -/
theorem isodep_bounded (cfg : Cfg) (p : Prim) (c : Cmd) (a : Ans) (w : World) (hk : p.kind = .t4)
    (hw : w.sticky = none) :
    (prim cfg p c a w).1 ≠ .error .outOfFuel
    ∧ ∃ atts, (prim cfg p c a w).2.log = w.log ++ [⟨c, atts⟩] ∧ atts.length ≤ p.budget + 2 := by
  unfold prim; rw [hk]; simp only [hw]
  obtain ⟨h1, _, more, h3, h4⟩ := dep_spec cfg p.budget c (a.eff false) (p.budget + 3) 1 false false [] w
    (by omega) (by intro h; cases h) (by omega) (by simp)
  refine ⟨?_, more, by simpa using h3, by simpa using h4⟩
  intro he
  rcases h1 _ he with ⟨m, hm⟩ | ⟨_, f, hf⟩
  · cases hm
  · cases f <;> cases hf

/-- **ISO-DEP matching reason code**: `n_retry + 1` timeouts (transmission errors) in a row end the
exchange with TagCommandError TIMEOUT_ERROR (RECEIVE_ERROR); a protocol error is final at once. -/
theorem isodep_errno (cfg : Cfg) (p : Prim) (c : Cmd) (a : Ans) (w : World) (f : Fault) (e : Int)
    (hk : p.kind = .t4) (hw : w.sticky = none) (hf : (f = .timeout ∧ e = 0) ∨ (f = .transmission ∧ e = -1))
    (hs : startsWith f (p.budget + 1) w.script) :
    (prim cfg p c a w).1 = .error (.tagCmd e) := by
  unfold prim; rw [hk]; simp only [hw]
  exact dep_exhausted cfg p.budget c (a.eff false) f e hf (p.budget + 3) 1 false false [] w (by omega) (by omega)
    (by simpa using hs)

/-- **documented outcome, every fault script** (Type 3 and Type 4 families: generic Type 3, FeliCa
Standard, FeliCa Lite / Lite-S, Type 4A/B over ISO-DEP with any retry budget): every operation,
for any command sequence `l`, EVERY fault script of any length - timeouts, transmission and protocol
errors, unknown CommunicationError classes, lost commands and lost answers, cut Type 3 answers -
and every state left by earlier operations ends with a value or a TagCommandError. -/
theorem op_outcome_documented (tlv : Bool) (fam op : String) (l : Phases) (v : Val) (nret : Nat) (P : Prog)
    (w : World) (h : prog Cfg.repaired tlv fam op l v nret = some P)
    (hf : fam = "t3" ∨ fam = "t3p" ∨ fam = "t3std" ∨ fam = "lite" ∨ fam = "lites" ∨ fam = "t4") (hs : Sound w) :
    Documented (run Cfg.repaired P 0 w).1 :=
  run_documented Robust True (fun _ _ h => h) P 0 w
    (prog_clean_robust tlv fam op l v nret P h hf) (Or.inl trivial) hs

/-- **documented outcome, all families** (partial): every operation of every modelled family
(Type 1, 2, 3, 4, generic and vendor classes) ends with a value or a TagCommandError for every
fault script made of timeout / transmission / protocol errors and cut answers, every sense script
and every state left by earlier operations.  What remains excluded (only relevant for the Type 1 and
Type 2 families, see `op_outcome_documented`): scripts in which `exchange` raises another
CommunicationError class three times in a row; there Type 1/2 raise RuntimeError
(`unknown_commerror_counterexample`, open finding pinned by the test-suite). -/
theorem op_outcome_documented_partial (tlv : Bool) (fam op : String) (l : Phases) (v : Val) (nret : Nat) (P : Prog)
    (w : World) (h : prog Cfg.repaired tlv fam op l v nret = some P)
    (hb : Benign w) (hs : Sound w) :
    Documented (run Cfg.repaired P 0 w).1 :=
  run_documented (fun _ => True) False (fun h => h.elim) P 0 w
    (prog_clean_all tlv fam op l v nret P h) (Or.inr hb) hs

/-- **the tag object never calls `exchange` without a target**: `Sound` (frontend has lost its target
implies `tag.target` is None, so that `transceive` raises TIMEOUT_ERROR instead of handing `None` to
its caller) is preserved by every operation of every family - the result of every `clf.sense` is
stored in the tag object. -/
theorem tag_object_stays_sound (tlv : Bool) (fam op : String) (l : Phases) (v : Val) (nret : Nat) (P : Prog)
    (w : World) (h : prog Cfg.repaired tlv fam op l v nret = some P)
    (hb : Benign w) (hs : Sound w) : Sound (run Cfg.repaired P 0 w).2 :=
  (run_inv (fun _ => True) False (fun h => h.elim) P 0 w (prog_clean_all tlv fam op l v nret P h) (Or.inr hb) hs).2.2

/-- Type 3 `format` (the probing loops take their decisions from errors): for every tag, with and
without wipe, for every fault script. -/
theorem t3_format_documented (t : T3Tag) (wipe : Bool) (w : World) (hs : Sound w) :
    Documented (run Cfg.repaired (t3Format Cfg.repaired t wipe) 0 w).1 :=
  run_documented Robust True (fun _ _ h => h) _ 0 w
    (t3Format_clean Robust (Or.inl rfl) Cfg.repaired t wipe) (Or.inl trivial) hs

/-- **an answered command is never repeated** in any operation of the Type 1/2/3 families: in the
exchange log of every run every primitive call consists of unanswered attempts followed by at most
one more attempt, three at most.  (A retried *unanswered* write may have been executed by the tag
before its answer was lost and is then executed again - inherent, see `lost_answer_write_twice`;
a command that is not idempotent is refused by the tag the second time, see `once_refused_on_retry`.) -/
theorem write_not_duplicated (tlv : Bool) (fam op : String) (l : Phases) (v : Val) (nret : Nat) (P : Prog)
    (w : World) (h : prog Cfg.repaired tlv fam op l v nret = some P) (h4 : fam ≠ "t4") (hw : LogOK w.log) :
    LogOK (run Cfg.repaired P 0 w).2.log :=
  run_log Cfg.repaired LoopKind (fun _ h => h) P 0 w (prog_clean tlv fam op l v nret P h h4) hw

/-! ## state carried from one operation to the next -/

/-- programs of a session come from the operation table -/
def FromTable (tlv : Bool) (fams : List String) (P : Prog) : Prop :=
  ∃ fam op l v nret, fam ∈ fams ∧ prog Cfg.repaired tlv fam op l v nret = some P

/-- **sessions, every fault script** (Type 3 and Type 4 families): any number of operations on the
same tag object, each one taken from the operation table, with the NDEF cache carried along: every
single operation ends with a value or a TagCommandError, whatever the earlier ones did. -/
theorem session_outcomes_documented (tlv : Bool) (read : Prog) (ops : List SOp) (cached : Bool) (w : World)
    (hr : FromTable tlv ["t3", "t3p", "t3std", "lite", "lites", "t4"] read)
    (hops : ∀ o ∈ ops, FromTable tlv ["t3", "t3p", "t3std", "lite", "lites", "t4"] o.fresh
                      ∧ FromTable tlv ["t3", "t3p", "t3std", "lite", "lites", "t4"] o.cached)
    (hs : Sound w) :
    ∀ out ∈ (session Cfg.repaired read ops cached w).1, Documented out := by
  have key : ∀ P, FromTable tlv ["t3", "t3p", "t3std", "lite", "lites", "t4"] P → Clean Robust P := by
    intro P ⟨fam, op, l, v, nret, hm, hp⟩
    refine prog_clean_robust tlv fam op l v nret P hp ?_
    simp only [List.mem_cons, List.not_mem_nil, or_false] at hm
    exact hm
  exact session_documented Robust True (fun _ _ h => h) read (key _ hr) ops cached w
    (fun o hm => ⟨key _ (hops o hm).1, key _ (hops o hm).2⟩) (Or.inl trivial) hs

/-- **sessions, all families** (partial, same restriction on the script as
`op_outcome_documented_partial`) -/
theorem session_outcomes_documented_partial (tlv : Bool) (read : Prog) (ops : List SOp) (cached : Bool) (w : World)
    (fams : List String) (hr : FromTable tlv fams read)
    (hops : ∀ o ∈ ops, FromTable tlv fams o.fresh ∧ FromTable tlv fams o.cached)
    (hb : Benign w) (hs : Sound w) :
    ∀ out ∈ (session Cfg.repaired read ops cached w).1, Documented out := by
  have key : ∀ P, FromTable tlv fams P → Clean (fun _ => True) P := by
    intro P ⟨fam, op, l, v, nret, _, hp⟩
    exact prog_clean_all tlv fam op l v nret P hp
  exact session_documented (fun _ => True) False (fun h => h.elim) read (key _ hr) ops cached w
    (fun o hm => ⟨key _ (hops o hm).1, key _ (hops o hm).2⟩) (Or.inr hb) hs

/-- **ISO-DEP: an unrecoverable error is remembered** (as found and repaired, any budget, any
script): a command on an initiator without a stored error either ends normally or with the status
word error of the card (or, as found only, with the unknown CommunicationError itself) and stores
nothing, or it ends with TagCommandError(n) and `n` is stored - whatever `n` is, 0 (TIMEOUT_ERROR)
included. -/
theorem isodep_error_remembered (cfg : Cfg) (p : Prim) (c : Cmd) (a : Ans) (w : World)
    (hk : p.kind = .t4) (hs : w.sticky = none) :
    ((prim cfg p c a w).2.sticky = none
      ∧ ((prim cfg p c a w).1 = .ok ()
         ∨ (∃ n, (prim cfg p c a w).1 = .error (.tagCmd n) ∧ (a.eff false).refuses n)
         ∨ (cfg.fixT4 = false ∧ ∃ f, (prim cfg p c a w).1 = .error (Fault.exc f))))
    ∨ (∃ n, (prim cfg p c a w).1 = .error (.tagCmd n) ∧ (prim cfg p c a w).2.sticky = some n) :=
  prim_t4_remembers cfg p c a w hk hs

/-- **ISO-DEP: no frame after an unrecoverable error - never a stale answer, never a second execution**:
with a reason code stored, every Type 4 operation except the presence check (which sends a bare R(NAK))
leaves script, exchange log and the commands executed by the card exactly as they are and ends with a
value or a TagCommandError. -/
theorem isodep_silent_after_error (tlv : Bool) (op : String) (l : Phases) (v : Val) (nret : Nat) (P : Prog)
    (w : World) (e : Int) (h : prog Cfg.repaired tlv "t4" op l v nret = some P) (hp : op ≠ "present")
    (hst : w.sticky = some e) (hs : Sound w) :
    (run Cfg.repaired P 0 w).2 = w ∧ Documented (run Cfg.repaired P 0 w).1 :=
  ⟨run_t4_sticky Cfg.repaired P 0 w e (prog_clean_t4 tlv "t4" op l v nret P h rfl hp) hst,
   op_outcome_documented tlv "t4" op l v nret P w h (by simp) hs⟩

/-- ... and so does a whole session of such operations -/
theorem isodep_session_silent_after_error (read : Prog) (ops : List SOp) (cached : Bool) (w : World) (e : Int)
    (hr : Clean (fun k => k = .t4) read)
    (hops : ∀ o ∈ ops, Clean (fun k => k = .t4) o.fresh ∧ Clean (fun k => k = .t4) o.cached)
    (hst : w.sticky = some e) :
    (session Cfg.repaired read ops cached w).2 = w :=
  session_dead Cfg.repaired _ w (fun p c a hk => ⟨_, prim_t4_sticky Cfg.repaired p c a w e hk hst⟩) read
    ⟨hr, quiet_of_t4 _ hr⟩ ops cached
    (fun o hm => ⟨⟨(hops o hm).1, quiet_of_t4 _ (hops o hm).1⟩, ⟨(hops o hm).2, quiet_of_t4 _ (hops o hm).2⟩⟩)

/-- **Type 2: a failed re-activation is remembered**: when READ is answered with NAK the tag is activated
again; the result goes into the tag object (`gone` is the negation of what `clf.sense` returned), the
error is INVALID_PAGE_ERROR if the tag was found and RECEIVE_ERROR if not, and the tag object is sound
afterwards whatever it was before. -/
theorem read_nak_reactivation (c : Cmd) (x : Att × Bool) (acc : List (Att × Bool)) (w : World) :
    (answered c .nak x acc w).1 = .error (.tagCmd (if w.sense.1 then 2 else -1))
    ∧ (answered c .nak x acc w).2.gone = !w.sense.1
    ∧ (answered c .nak x acc w).2.lost = !w.sense.1
    ∧ Sound (answered c .nak x acc w).2 := by
  refine ⟨rfl, rfl, ?_, sound_push _ _ (sound_reactivate w)⟩
  unfold answered World.reactivate World.sense World.push
  cases w.senses <;> simp

/-- **Type 2: no exchange once the target is gone**: every operation of the Type 1 / Type 2 families
(except `protect` with a password on Ultralight C / NTAG21x, which re-activates the tag itself after its
writes) leaves script, exchange log and tag memory as they are and ends with a value or
TagCommandError - never with the TypeError that `clf.exchange` returning None would cause. -/
theorem t2_silent_when_gone (tlv : Bool) (fam op : String) (l : Phases) (v : Val) (nret : Nat) (P : Prog)
    (w : World) (h : prog Cfg.repaired tlv fam op l v nret = some P)
    (hf : fam = "t1" ∨ fam = "t2" ∨ fam = "t2nxp" ∨ fam = "t2ulc" ∨ fam = "t2ntag" ∨ fam = "t2i2c")
    (hop : op ≠ "protectpw") (hg : w.gone = true) :
    (run Cfg.repaired P 0 w).2 = w ∧ Documented (run Cfg.repaired P 0 w).1 := by
  have hc := prog_clean_t12 tlv fam op l v nret P h hf
  have hq := prog_quiet Cfg.repaired tlv fam op l v nret P h hop
  have hw := run_t12_gone Cfg.repaired P 0 w hc hq hg
  refine ⟨hw, ?_⟩
  -- every call fails with TagCommandError(0): the outcome is documented without any assumption on the script
  have hd : ∀ (P : Prog) (cur : Int), Clean (fun k => k = .t12) P → Quiet P → Documented (run Cfg.repaired P cur w).1 := by
    intro P
    induction P with
    | ret v => intro cur _ _; trivial
    | crash e => intro cur hc _; exact hc
    | reraise => intro cur _ _; exact ⟨_, rfl⟩
    | caseErr z n p ihz ihn ihp =>
      intro cur hc hq
      unfold run
      split
      · exact ihz () cur hc.1 hq.1
      · split
        · exact ihn () cur hc.2.1 hq.2.1
        · exact ihp () cur hc.2.2 hq.2.2
    | call p c a ct ok err ihok iherr =>
      intro cur hc hq
      unfold run
      rw [prim_t12_gone Cfg.repaired p c a w hc.1 hg]
      simp only []
      split
      · rename_i n _; exact iherr () n hc.2.2.2 hq
      · exact ⟨_, rfl⟩
    | sense f g ihf ihg => intro cur _ hq; exact absurd hq (by simp [Quiet])
  exact hd P 0 hc hq

/-- ... and `protect` with a password on Ultralight C / NTAG21x: its first command (a WRITE or, on NTAG21x,
the READ of the configuration pages) already fails with TIMEOUT_ERROR, the re-activation at its end is never
reached -/
theorem t2_protectpw_silent_when_gone (tlv : Bool) (fam : String) (s : Step) (rest : List Step) (more : Phases)
    (v : Val) (nret : Nat) (P : Prog) (w : World)
    (h : prog Cfg.repaired tlv fam "protectpw" ((s :: rest) :: more) v nret = some P)
    (hf : fam = "t2ulc" ∨ fam = "t2ntag") (hs2 : s.cmd.tok ≠ "s2") (hg : w.gone = true) :
    run Cfg.repaired P 0 w = (.exc (.tagCmd 0), w) := by
  rcases hf with hf | hf <;> subst hf <;>
  (simp only [prog, ph, List.getD_cons_zero] at h
   cases h
   simp only [chain, hs2, false_and, if_false]
   unfold run
   rw [prim_t12_gone Cfg.repaired _ _ _ w rfl hg]
   rfl)

/-! ## histories on one FeliCa Lite / Lite-S tag object: session key and installed accessors -/

section objects
open NfcVerif.RetryObj

/-- **histories on one FeliCa Lite / Lite-S tag object, every fault script**: any number of operations
(`tag.ndef`, `tag.ndef.has_changed`, `tag.ndef.octets = ...`, direct calls of the NDEF service accessors,
`authenticate` with a right or wrong key on Lite and Lite-S, `protect()` and any session-free operation of the
table: presence check, dump, format) in any order on one tag object, for ANY command sequences `L`, any fault
script (every position, class, burst length, cut answers, unknown error classes) and any object state
`o` that satisfies the invariant (a new tag object does): every single operation ends with a value or a
TagCommandError.  In particular the `RuntimeError` of `read_with_mac` / `write_with_mac` ("authentication
required") is never raised from NDEF access, however an earlier `authenticate` has ended.
(`WOK w`: the world is sound and its exchange log well-formed - true for a new tag object, see the example.) -/
theorem object_session_outcomes_documented (L : Cmds) (ops : List OOp) (o : Obj) (w : World)
    (hops : ∀ op ∈ ops, op.Ok) (hI : o.Inv) (hw : WOK w) :
    ∀ out ∈ (history Cfg.repaired Variant.code L ops o w).1, Documented out :=
  (history_good L ops o w hops hI hw).1

/-- **no stale session state**: after any such history an accessor with MAC is installed only together
with a session key (and the frontend / tag object stay sound), so the statement carries over to whatever
the application does next -/
theorem object_session_keeps_invariant (L : Cmds) (ops : List OOp) (o : Obj) (w : World)
    (hops : ∀ op ∈ ops, op.Ok) (hI : o.Inv) (hw : WOK w) :
    (history Cfg.repaired Variant.code L ops o w).2.1.Inv ∧ WOK (history Cfg.repaired Variant.code L ops o w).2.2 :=
  (history_good L ops o w hops hI hw).2

/-- **an answered command is never repeated in a history either**: in the exchange log after any history
every primitive call consists of unanswered attempts followed by at most one more attempt, three at most -/
theorem object_session_write_not_duplicated (L : Cmds) (ops : List OOp) (o : Obj) (w : World)
    (hops : ∀ op ∈ ops, op.Ok) (hI : o.Inv) (hw : WOK w) :
    LogOK (history Cfg.repaired Variant.code L ops o w).2.2.log :=
  (history_good L ops o w hops hI hw).2.2.2

/-- **a failed `authenticate` leaves nothing behind**: when a command error leaves the internal
authentication (burst at its first or second command), the object holds no session key, no accessor with
MAC and is not authenticated - whatever state `o` (no assumption) an earlier authentication had left -/
theorem failed_authenticate_resets_session (L : Cmds) (macOk : Bool) (o : Obj) (w : World) (e : Exc)
    (h : (liteAuth Cfg.repaired Variant.code L macOk o w).1 = .exc e) :
    (liteAuth Cfg.repaired Variant.code L macOk o w).2.1.sk = false
    ∧ (liteAuth Cfg.repaired Variant.code L macOk o w).2.1.rdMac = false
    ∧ (liteAuth Cfg.repaired Variant.code L macOk o w).2.1.wrMac = false
    ∧ (liteAuth Cfg.repaired Variant.code L macOk o w).2.1.auth = false :=
  liteAuth_exc L macOk o w e h

/-- the session-free operations of a history may be any program of the operation table of the Type 3 families -/
theorem plain_ok_of_table (tlv : Bool) (P : Prog) (clears : Bool)
    (h : FromTable tlv ["t3", "t3p", "t3std", "lite", "lites"] P) : (OOp.plain P clears).Ok := by
  obtain ⟨fam, op, l, v, nret, hm, hp⟩ := h
  refine prog_clean_t3 tlv fam op l v nret P hp ?_
  simp only [List.mem_cons, List.not_mem_nil, or_false] at hm
  exact hm

/-- command sequences of a FeliCa Lite (fault-free runs of the simulated tag) -/
def liteCmds : Cmds :=
  let s := fun (t : String) => (⟨⟨t, t.startsWith "w"⟩, .ok⟩ : Step)
  [[s "po"], [s "r0"], [], [s "r1x3"], [s "r0x2"], [], [s "r1x4"], [s "r0"], [], [s "w0", s "w1", s "w0"],
   [s "r0x2"], [], [s "w0", s "w1", s "w0"], [s "r1x3"], [s "r1x3"], [s "w1"], [s "w1"], [s "w128", s "r130x2"], []]

def tmo3 : List Att := [.flt .timeout false, .flt .timeout false, .flt .timeout false]

/-- the history of the theorem, concretely: authenticate succeeds, the second authenticate loses its
challenge write three times and ends with TIMEOUT_ERROR, the NDEF read on the healthy link polls and reads
without MAC -/
example : (history Cfg.repaired Variant.code liteCmds [.auth false true true, .auth false true true, .ndef] {}
    (start ([.ans, .ans] ++ tmo3))).1 = [.ok .true_, .exc (.tagCmd 0), .ok .ndef] := by decide +kernel

/-- **the position of the reset matters** (counter-example for the variant that puts the accessors back only
where `_authenticate` reports a failed MAC comparison - equivalent for every normal return): the same
history ends with RuntimeError from `tag.ndef` - with a burst at the first command as well as at the second -/
theorem late_reset_counterexample :
    (history Cfg.repaired Variant.late liteCmds [.auth false true true, .auth false true true, .ndef] {}
      (start ([.ans, .ans] ++ tmo3))).1 = [.ok .true_, .exc (.tagCmd 0), .exc .runtime]
    ∧ (history Cfg.repaired Variant.late liteCmds [.auth false true true, .auth false true true, .write] {}
      (start ([.ans, .ans, .ans] ++ [.flt .transmission true, .flt .transmission true, .flt .transmission true]))).1
        = [.ok .true_, .exc (.tagCmd (-1)), .exc .runtime] := by decide +kernel

example : ({} : Obj).Inv := by decide
example (script : List Att) (senses : List Bool) : WOK (start script senses) :=
  ⟨start_sound _ _, by intro inv h; simp [start] at h⟩
example : (OOp.plain (c3p Cfg.repaired (.ret .false_) liteCmds.poll (fin .true_)) false).Ok :=
  plain_ok_of_table true _ false ⟨"t3", "present", [liteCmds.poll], .true_, 0, by simp, rfl⟩

end objects

/-! ## counter-examples (open findings) and as-found behaviour -/

def rd0 : Step := ⟨⟨"r0", false⟩, .ok⟩
def wr4 : Step := ⟨⟨"w4", true⟩, .ok⟩
def bl : Att := .flt .brokenLink false

/-- open finding `t1t2-unknown-commerror-runtimeerror` (F31, pinned by the test-suite): three
BrokenLinkError in a row end the Type 2 presence check with RuntimeError. -/
theorem unknown_commerror_counterexample :
    (prog Cfg.repaired true "t2" "present" [[rd0]] .true_ 0).map (fun P => (run Cfg.repaired P 0 (start [bl, bl, bl])).1)
      = some (.exc .runtime) := by decide +kernel

/-- open finding `t4-presence-check-not-retried` (pinned by the test-suite): one timeout on the
R(NAK) presence check of a Type 4 tag gives False. -/
theorem presence_check_not_retried :
    (prog Cfg.repaired true "t4" "present" [[⟨⟨"nak", false⟩, .ok⟩]] .true_ 5).map
      (fun P => (run Cfg.repaired P 0 (start [.flt .timeout false])).1) = some (.ok .false_) := by decide +kernel

/-- a write whose answer is lost is executed again by the retry (inherent) -/
theorem lost_answer_write_twice :
    (prog Cfg.repaired true "t2" "write" [[wr4]] .unit 0).map
      (fun P => (run Cfg.repaired P 0 (start [.flt .timeout true])).2.applied.map (·.tok)) = some ["w4", "w4"] := by
  decide +kernel

/-- a command that the tag accepts only once (FeliCa Lite-S write with MAC: the write counter has moved on):
the answer is lost, the retry is refused by the tag with its status flags and the operation ends with that
TagCommandError although the tag has executed the command - once -/
theorem once_refused_on_retry :
    (prog Cfg.repaired true "t3" "seq" [[⟨⟨"w5x2", true⟩, .once 0x01B1⟩]] .unit 0).map
      (fun P => let r := run Cfg.repaired P 0 (start [.flt .timeout true]); (r.1, r.2.applied.map (·.tok)))
      = some (.exc (.tagCmd 0x01B1), ["w5x2"]) := by
  decide +kernel

/-! as found (before fixes/C16): F17, F31 (Type 3), F32, sector select assert, ISO-DEP unknown CommunicationError -/
example : (prog Cfg.asFound false "t3" "write" [[rd0], [wr4]] .unit 0).map
    (fun P => (run Cfg.asFound P 0 (start [.flt .timeout false, .flt .timeout false, .flt .timeout false])).1)
    = some (.exc .type_) := by decide +kernel
example : (prog Cfg.asFound false "t3" "ndef" [[], [rd0]] .ndef 0).map (fun P => (run Cfg.asFound P 0 (start [bl, bl, bl])).1)
    = some (.exc .unbound) := by decide +kernel
example : (prog Cfg.asFound false "t3" "ndef" [[], [rd0]] .ndef 0).map (fun P => (run Cfg.asFound P 0 (start [.short 0])).1)
    = some (.exc .index) := by decide +kernel
example : (prog Cfg.asFound false "t2" "write" [[⟨⟨"s2", false⟩, .mute⟩, wr4]] .unit 0).map
    (fun P => (run Cfg.asFound P 0 (start [.flt .transmission false])).1) = some (.exc .assertion) := by decide +kernel
example : (prog Cfg.asFound false "t4" "write" [[⟨⟨"up0", true⟩, .ok⟩]] .unit 5).map (fun P => (run Cfg.asFound P 0 (start [bl])).1)
    = some (.exc .brokenLink) := by decide +kernel
/-- repaired: the same scripts end in TagCommandError -/
example : (prog Cfg.repaired true "t4" "write" [[⟨⟨"up0", true⟩, .ok⟩]] .unit 5).map (fun P => (run Cfg.repaired P 0 (start [bl])).1)
    = some (.exc (.tagCmd (-1))) := by decide +kernel
example : (prog Cfg.repaired true "t3" "write" [[rd0], [wr4]] .unit 0).map
    (fun P => (run Cfg.repaired P 0 (start [.flt .timeout false, .flt .timeout false, .flt .timeout false])).1)
    = some (.exc (.tagCmd 0)) := by decide +kernel
example : (prog Cfg.repaired true "t2" "write" [[⟨⟨"s2", false⟩, .mute⟩, wr4]] .unit 0).map
    (fun P => (run Cfg.repaired P 0 (start [.flt .transmission false])).1) = some (.exc (.tagCmd (-1))) := by decide +kernel

/-! non-vacuity of the hypotheses -/
example : startsWith .timeout (5 + 1) (List.replicate 6 (.flt .timeout true)) := by simp [startsWith, List.replicate]
/-- ISO-DEP: the I-block is lost, R(NAK) is answered with R(ACK), the retransmitted I-block is
executed once -/
example : (prog Cfg.repaired true "t4" "write" [[⟨⟨"up0", true⟩, .ok⟩]] .unit 5).map
    (fun P => let r := run Cfg.repaired P 0 (start [.flt .timeout false]); (r.1, r.2.applied.map (·.tok)))
    = some (.ok .unit, ["up0"]) := by decide +kernel
example : LoopKind t12.kind ∧ 0 < t12.budget ∧ Alive t12 (start []) := ⟨Or.inl rfl, by decide, fun _ => ⟨rfl, rfl⟩⟩
example : startsWith .transmission 3 [.flt .transmission true, .flt .transmission false, .flt .transmission true, .ans] := by
  simp [startsWith]
example : Benign (start [.flt .timeout true, .ans, .short 2, .flt .protocol false] [false]) := by
  intro f r h; simp [start] at h; rcases h with ⟨h, _⟩ | ⟨h, _⟩ <;> subst h <;> simp [Fault.errno]
/-- two timeouts are absorbed, the third answer ends the presence check with True -/
example : (prog Cfg.repaired true "t2" "present" [[rd0]] .true_ 0).map
    (fun P => (run Cfg.repaired P 0 (start [.flt .timeout false, .flt .timeout true])).1) = some (.ok .true_) := by
  decide +kernel

/-! sessions: what is carried over -/

def upd (n : Nat) : Step := ⟨⟨s!"up{n}", true⟩, .ok⟩
def tmo : Att := .flt .timeout true
/-- the two-operation history behind `isodep_silent_after_error`: write A, every answer is lost (retry
budget 1: I-block and one R(NAK)), the operation ends with TIMEOUT_ERROR (0, a falsy number); the second
write meets one more timeout - it is refused with the same code, not a single frame is sent, the card has
executed one UPDATE BINARY -/
def wrA : SOp := ⟨true, .none, false, .ret .unit, (chain Cfg.repaired ⟨.t4, 1, true⟩ .tagErr .raise [upd 0] (fin .unit))⟩
example :
    let r := session Cfg.repaired (.ret .ndef) [wrA, wrA] true (start [tmo, tmo, .flt .timeout false])
    (r.1, r.2.log.length, r.2.applied.map (·.tok), r.2.script.length)
      = ([.exc (.tagCmd 0), .exc (.tagCmd 0)], 1, ["up0"], 1) := by decide +kernel
/-- Type 2: `dump()` runs into the NAK at the end of memory, the re-activation fails; the presence check
that follows sends nothing and gives False -/
def dumpT2 : Option Prog := prog Cfg.repaired true "t2" "dump" [[rd0], [⟨⟨"r4", false⟩, .ok⟩, ⟨⟨"r5", false⟩, .nak⟩], []] .list 0
def presT2 : Option Prog := prog Cfg.repaired true "t2" "present" [[rd0]] .true_ 0
example : (dumpT2.bind fun d => presT2.map fun p =>
    let r := session Cfg.repaired (.ret .none) [⟨false, .none, false, d, d⟩, ⟨false, .none, false, p, p⟩] false (start [] [false])
    (r.1, r.2.log.length, r.2.gone, r.2.lost)) = some ([.ok .list, .ok .false_], 3, true, true) := by decide +kernel
/-- the same history with a tag that is found again: the presence check is sent -/
example : (dumpT2.bind fun d => presT2.map fun p =>
    let r := session Cfg.repaired (.ret .none) [⟨false, .none, false, d, d⟩, ⟨false, .none, false, p, p⟩] false (start [] [true])
    (r.1, r.2.log.length, r.2.gone)) = some ([.ok .list, .ok .true_], 4, false) := by decide +kernel
/-- Ultralight C, target gone: protect with a password fails at its first WRITE, nothing is sent -/
example : (prog Cfg.repaired true "t2ulc" "protectpw" [[wr4], [rd0], []] .true_ 0).map
    (fun P => let r := run Cfg.repaired P 0 { script := [.ans], gone := true, lost := true }
              (r.1, r.2.log.length, r.2.script.length)) = some (.exc (.tagCmd 0), 0, 1) := by decide +kernel
example : FromTable true ["t4"] (chain Cfg.repaired ⟨.t4, 1, true⟩ .tagErr .raise [upd 0] (fin .unit)) :=
  ⟨"t4", "write", [[upd 0]], .unit, 1, by simp, rfl⟩
example : Sound (start [tmo] [false, true]) := start_sound _ _

end NfcVerif.C16
