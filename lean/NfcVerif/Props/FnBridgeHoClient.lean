import NfcVerif.Lemmas.FnBridgeHoClient
import NfcVerif.Props.FnBridgeSnep
import NfcVerif.Props.C06
/-!
# Bridge theorems, group HoClient (`nfc/handover/server.py`, `nfc/handover/client.py`, `nfc/snep/client.py` slices
-> `Gen/FnHoClient.lean` -> `Model/Handover.lean`, `Model/Snep.lean`, `Model/Term.lean`)

Properties C06 (messages survive fragmentation, exactly once) and C07 / C09 (the service thread ends when the
connection is gone).  The cuts are listed in `harness/fnspecs/hoclient.py`; the compositions are in
`Lemmas/FnBridgeHoClient.lean`.

* `srv_on_recv_bridge`, `cli_on_recv_bridge`: the handover state machines of the C06 model equal the compositions of
  regenerated pieces (send MIU >= 1);
* `snep_reasm_bridge`: the reassembly step of the SNEP client (`Snep.cliOnRecv (.reasm ..)`), completing
  `FnBridge.Snep.cli_on_recv_bridge` with the `+=` statement and the result;
* `response_frags_bridge`: the regenerated offsets and slices are `Chan.chunks`;
* `put_acceptable_bridge`, `default_octets_bridge`, `get_usable_bridge`, `record_type_bridge`, `send_failed_bridge`:
  constants and tests of the clients / the serve thread;
* `gen_*`: statements of C06 restated for the regenerated code.
-/
set_option linter.unusedSimpArgs false
namespace NfcVerif.FnBridge.HoClient
open NfcVerif NfcVerif.PyFn NfcVerif.Chan NfcVerif.Handover

/-- `range(0, n, miu)` for `miu >= 1`: the offsets `i * miu` of the fragments -/
theorem offsets_bridge (response : Bytes) (miu : Nat) (hm : 0 < miu) :
    Gen.Fn.hc_srv_offsets response (miu : Int)
      = .ok ((List.range (FnBridge.Snep.nfrag miu response.length)).map (fun i => (((i * miu : Nat)) : Int))) := by
  unfold Gen.Fn.hc_srv_offsets PyFn.rangeStep FnBridge.Snep.nfrag
  have h0 : ¬ ((miu : Int) = 0) := by omega
  have h1 : (miu : Int) > 0 := by omega
  rw [if_neg h0, if_pos h1, len_eq]
  have e : (((response.length : Int) - 0 + (miu : Int) - 1) / (miu : Int)).toNat = (response.length + miu - 1) / miu := by
    have : (response.length : Int) - 0 + (miu : Int) - 1 = ((response.length + miu - 1 : Nat) : Int) := by omega
    rw [this]
    exact Int.toNat_natCast _ ▸ congrArg Int.toNat (Int.natCast_ediv _ _).symm
  rw [e]
  congr 1
  apply List.map_congr_left
  intro i _
  simp

/-- the response fragments of `HandoverServer.serve` are `Chan.chunks send_miu response` -/
theorem response_frags_bridge (response : Bytes) (miu : Nat) (hm : 0 < miu) :
    responseFragsGen response miu = chunks miu response := by
  unfold responseFragsGen
  rw [offsets_bridge response miu hm]
  simp only [List.map_map]
  exact FnBridge.Snep.ho_srv_frags_bridge miu hm response

/-- a send MIU of 0 is ValueError in `range()` (LLCP guarantees MIU >= 128) -/
example : Gen.Fn.hc_srv_offsets [1, 2, 3] 0 = .error .value := by decide
example : responseFragsGen [1, 2, 3, 4, 5] 2 = [[1, 2], [3, 4], [5]] := by decide

/-- the server transition function of the C06 handover model -/
theorem srv_on_recv_bridge (cfg : HCfg) (hm : 0 < cfg.smiu) (st : HS) (m : Bytes) :
    Handover.srvOnRecv cfg st m = srvOnRecvGen cfg st m := by
  cases st with
  | closed => rfl
  | collecting request =>
    unfold Handover.srvOnRecv srvOnRecvGen Gen.Fn.hc_srv_append Gen.Fn.hc_srv_need_data Gen.Fn.hc_srv_new_request
    simp only [response_frags_bridge _ _ hm, len_eq]
    have e : (((request ++ m).length : Int) = 0) ↔ (request ++ m = []) := by
      cases (request ++ m) <;> simp; omega
    simp only [e, decide_eq_true_eq]

/-- the client transition function of the C06 handover model -/
theorem cli_on_recv_bridge (complete : Bytes → Bool) (st : HC) (m : Bytes) :
    Handover.cliOnRecv complete st m = cliOnRecvGen complete st m := by
  cases st <;> rfl

/-- the reassembly step of the SNEP client; hypothesis as in `FnBridge.Snep.cli_on_recv_bridge`: the buffer holds at
least the six header octets -/
theorem snep_reasm_bridge (op : Snep.Op) (buf : Bytes) (length : Nat) (m : Bytes) (h6 : 6 ≤ buf.length) :
    Snep.cliOnRecv (.reasm op buf length) m = snepReasmGen op buf length m := by
  rw [FnBridge.Snep.cli_on_recv_bridge (.reasm op buf length) m (by intro o b l h; injection h with _ hb _; subst hb; exact h6)]
  rfl

/-- `put_octets` accepts no response data: the acceptable length handed to `recv_response` is `Snep.respAcc _ .put` -/
theorem put_acceptable_bridge (acc : Nat) : (Gen.Fn.hc_snep_put_acceptable : Int) = (Snep.respAcc acc .put : Nat) := rfl

/-- GET without a message sends the NDEF message with one empty record -/
theorem default_octets_bridge (octets : Option Bytes) :
    Gen.Fn.hc_snep_default_octets octets = octets.getD (encMsg [emptyRecord]) := by
  cases octets <;> rfl

/-- `get_records` decodes a response of at least three octets - the size of the smallest NDEF message -/
theorem get_usable_bridge (octets : Bytes) : Gen.Fn.hc_snep_get_usable octets = decide (3 ≤ octets.length) := by
  unfold Gen.Fn.hc_snep_get_usable
  rw [len_eq]
  cases octets with
  | nil => simp
  | cons a l => simp; omega

/-- the smallest message is usable: nothing a SNEP server can put into a GET response is dropped by the length test -/
example : Gen.Fn.hc_snep_get_usable (encMsg [emptyRecord]) = true := by decide

theorem record_type_bridge (t : String) :
    Gen.Fn.hc_srv_is_hr t = decide (t = "urn:nfc:wkt:Hr")
    ∧ ∀ (records : List Int), Gen.Fn.hc_cli_is_hs records t = (!records.isEmpty && decide (t = "urn:nfc:wkt:Hs")) := by
  refine ⟨rfl, ?_⟩
  intro records
  unfold Gen.Fn.hc_cli_is_hs
  cases records <;> simp

theorem octets_default_bridge (r : Option Bytes) : Gen.Fn.hc_cli_octets_default r = r.getD [] := by
  unfold Gen.Fn.hc_cli_octets_default
  cases r with
  | none => rfl
  | some v => cases v <;> simp

/-- C09 (`Term.serviceStep`): the handover serve thread leaves through its `finally` when a fragment could not be
sent, and polls again otherwise -/
theorem send_failed_bridge (sent : Bool) :
    Term.serviceStep .handover .serveSend (.value sent)
      = if Gen.Fn.hc_srv_send_failed sent = true then .finallyClose else .servePoll := by
  cases sent <;> rfl

/-! ## statements of C06 for the regenerated code -/

/-- C06 (`frag_concat`): the fragments the regenerated serve loop sends concatenate to the response -/
theorem gen_response_frags_concat (response : Bytes) (miu : Nat) (hm : 0 < miu) :
    (responseFragsGen response miu).flatten = response := by
  rw [response_frags_bridge response miu hm]
  exact (C06.frag_concat miu hm response).1.1

/-- C06 (exactly once, finding F29 repaired): after an answered request the regenerated server starts from an empty
buffer, so the next request is not mixed with the previous one -/
theorem gen_server_buffer_reset (cfg : HCfg) (hr : cfg.reset = true) (request m : Bytes)
    (h1 : request ++ m ≠ []) (h2 : cfg.complete (request ++ m) = true) :
    (srvOnRecvGen cfg (.collecting request) m).1 = .collecting [] := by
  unfold srvOnRecvGen Gen.Fn.hc_srv_append Gen.Fn.hc_srv_need_data Gen.Fn.hc_srv_new_request
  have e : ¬ (PyFn.len (request ++ m) = 0) := by
    rw [len_eq]; cases h : (request ++ m) with
    | nil => exact absurd h h1
    | cons a l => simp; omega
  simp [e, h2, hr]

example : srvOnRecvGen { smiu := 2, complete := fun r => decide (r.length ≥ 3), handler := fun r => r.reverse } (.collecting [1]) [2, 3]
    = (.collecting [], [[3, 2], [1]], [[1, 2, 3]]) := by decide
example : cliOnRecvGen (fun r => decide (r.length ≥ 3)) (.collecting [1]) [2, 3] = (.done (some [1, 2, 3]), []) := by decide
example : Gen.Fn.hc_snep_default_octets none = [0xD0, 0, 0] := by decide
example : Gen.Fn.hc_snep_append [1, 2] [3] = [1, 2, 3] := by decide

end NfcVerif.FnBridge.HoClient
