import NfcVerif.Props.C03
import NfcVerif.Lemmas.SessC03
/-!
# C03 - sequences of operations on one tag object

Model: `NfcVerif.Model.SessC03` - the `Tag._ndef` cache next to the tag memory; `step` is one
application call (`tag.ndef`, `tag.ndef.octets = data`, `tag.format(version, wipe)`, `tag.protect()`)
of a Type 2 Tag, a generic Type 1 Tag, a Topaz or a Topaz-512; `run` a whole session.
`Coherent`: the cached NDEF object is what a new reader would compute on the tag's memory.
-/
namespace NfcVerif.C03Sess
open NfcVerif NfcVerif.Tlv

/-- **A used tag object behaves like a fresh one**: in every session whose calls are admissible
(`Adm`: the layout on the tag is well-formed when a write is made; `protect()` is not aborted by a
command error) every call sends the same commands, returns the same result and leaves the same tag
memory as the same call made on a NEW tag object activated on the memory the previous call left - for
any number and order of read / write / format / protect calls.  Cached state (`Tag._ndef`, the NDEF
object's offset, skip set, capacity and memory image) never shows, and the cache is coherent at the end. -/
theorem session_steps_fresh (k : Klass) (ops : List Op) (s : Sess) (hc : Coherent k s)
    (ha : AdmAll k s.tag ops) :
    (run k true s ops).1 = freshOuts k s.tag ops ∧ (run k true s ops).2.tag = freshTag k s.tag ops
    ∧ Coherent k (run k true s ops).2 :=
  run_fresh k ops s hc ha

/-- **A write at any point of a session is confined to the area of the layout that is on the tag at
that moment**: on a coherent session, with `L` the layout a new reader computes on the current
memory (well-formed, message within capacity, length field off reserved bytes), the write step sends
exactly `setOctets` of that memory and layout; every command covers a byte of `Area L` and every byte
outside `Area L` keeps its value. -/
theorem session_write_confined (k : Klass) (s : Sess) (data : Bytes) (hc : Coherent k s) (L : Layout)
    (hr : k.rdNdef s.tag = .ok (some L)) (hwf : WF k.cfg s.tag L) (hcap : (data.length : Int) ≤ L.cap)
    (h3 : Hdr3 L data.length) (hw : L.writeable = true) :
    (step k true s (.write data)).1.cmds = (setOctets k.cfg s.tag L data).cmds
    ∧ (∀ cmd ∈ (step k true s (.write data)).1.cmds, ∃ x, cmd.1 ≤ x ∧ x < cmd.1 + cmd.2.length ∧ Area L x)
    ∧ ∀ x, ¬ Area L x → (step k true s (.write data)).2.tag[x]? = s.tag[x]? := by
  obtain ⟨e1, e2⟩ := step_write_eq k s data hc L hr
  have hrd := rdNdef_readNdef k s.tag L hr
  refine ⟨e1, ?_, fun x hx => ?_⟩
  · rw [e1]; exact C03.t12_commands_confined k.cfg s.tag L data hrd hwf hcap h3
  · obtain ⟨ph, hph, hap⟩ := setOctets_apply k.cfg s.tag L data hrd hwf hcap hw
    obtain ⟨ph', hph', _, hconf⟩ := C03.t12_write_confined k.cfg s.tag L data hrd hwf hcap h3
    rw [hph] at hph'; injection hph' with hph'; subst hph'
    rw [e2, hap]; exact (hconf x hx).2.2.2

/-- **Write after format uses the new layout.**  After a `format()` that returned `True` the cached
NDEF object is gone (`Tag._ndef = None`); the next `tag.ndef.octets = data` on the same tag object
reads the layout that is on the tag NOW and is confined to its area: every command covers a byte of
`Area L'` and every byte outside keeps its value, `L'` being what a new reader computes on the
formatted memory. -/
theorem format_then_write_confined (k : Klass) (s : Sess) (version wipe : Option Nat) (hc : Coherent k s)
    (hok : (step k true s (.format version wipe)).1.res = .ok true) :
    (step k true s (.format version wipe)).2.ndef = none
    ∧ ∀ (data : Bytes) (L' : Layout), k.rdNdef (step k true s (.format version wipe)).2.tag = .ok (some L') →
        WF k.cfg (step k true s (.format version wipe)).2.tag L' → (data.length : Int) ≤ L'.cap →
        Hdr3 L' data.length → L'.writeable = true →
        (∀ cmd ∈ (step k true (step k true s (.format version wipe)).2 (.write data)).1.cmds,
            ∃ x, cmd.1 ≤ x ∧ x < cmd.1 + cmd.2.length ∧ Area L' x)
        ∧ ∀ x, ¬ Area L' x →
            (step k true (step k true s (.format version wipe)).2 (.write data)).2.tag[x]?
              = (step k true s (.format version wipe)).2.tag[x]? := by
  have hnone : (step k true s (.format version wipe)).2.ndef = none := by
    cases k with
    | t1 => simp [step] at hok
    | topaz =>
      simp only [step] at hok ⊢
      split at hok <;> first | rfl | (simp at hok)
    | topaz512 =>
      simp only [step] at hok ⊢
      split at hok <;> first | rfl | (simp at hok)
    | t2 =>
      rcases hg : getNdef Klass.t2 s with ⟨g, s'⟩
      simp only [step, hg] at hok ⊢
      cases g with
      | error e => simp at hok
      | ok o => cases o with
        | none => simp at hok
        | some p =>
          obtain ⟨L, C⟩ := p
          simp only at hok ⊢
          cases hf : formatT2On L C wipe with
          | error e => rw [hf] at hok; simp at hok
          | ok r => cases r with
            | none => rw [hf] at hok; simp at hok
            | some m' => rfl
  refine ⟨hnone, fun data L' hr hwf hcap h3 hw => ?_⟩
  have hc' : Coherent k (step k true s (.format version wipe)).2 := by
    intro L C h; rw [hnone] at h; cases h
  obtain ⟨_, b, c⟩ := session_write_confined k _ data hc' L' hr hwf hcap h3 hw
  exact ⟨b, c⟩

/-- **Topaz / Topaz-512: read, format, write on one object.**  Whatever layout the tag carried and
whatever the object had cached before, after `format()` returned `True` on a Topaz (memory of at
least 120 bytes) resp. Topaz-512 (512 bytes) a write of any message up to the capacity of the factory
layout (90 resp. 462 bytes) through the same object is confined to the area of the factory layout:
never the UID, the capability container, the Lock / Memory Control TLVs at 12..21 of the Topaz-512,
the NDEF TLV's tag byte or bytes 104..127. -/
theorem topaz_format_then_write_confined (s : Sess) (version wipe : Option Nat) (data : Bytes) :
    (Coherent .topaz s → 120 ≤ s.tag.length → (step .topaz true s (.format version wipe)).1.res = .ok true →
      data.length ≤ 90 →
      (∀ cmd ∈ (step .topaz true (step .topaz true s (.format version wipe)).2 (.write data)).1.cmds,
          ∃ x, cmd.1 ≤ x ∧ x < cmd.1 + cmd.2.length ∧ Area topazLayout x)
      ∧ ∀ x, ¬ Area topazLayout x →
          (step .topaz true (step .topaz true s (.format version wipe)).2 (.write data)).2.tag[x]?
            = (step .topaz true s (.format version wipe)).2.tag[x]?)
    ∧ (Coherent .topaz512 s → 512 ≤ s.tag.length → (step .topaz512 true s (.format version wipe)).1.res = .ok true →
      data.length ≤ 462 →
      (∀ cmd ∈ (step .topaz512 true (step .topaz512 true s (.format version wipe)).2 (.write data)).1.cmds,
          ∃ x, cmd.1 ≤ x ∧ x < cmd.1 + cmd.2.length ∧ Area topaz512Layout x)
      ∧ ∀ x, ¬ Area topaz512Layout x →
          (step .topaz512 true (step .topaz512 true s (.format version wipe)).2 (.write data)).2.tag[x]?
            = (step .topaz512 true s (.format version wipe)).2.tag[x]?) := by
  constructor
  · intro hc hlen hok hd
    obtain ⟨_, hgen⟩ := format_then_write_confined .topaz s version wipe hc hok
    -- the memory after the format
    have htag : ∃ m', formatTopazV s.tag version wipe = .ok (some m')
        ∧ (step .topaz true s (.format version wipe)).2.tag = m' := by
      simp only [step] at hok ⊢
      cases hf : formatTopazV s.tag version wipe with
      | error e => rw [hf] at hok; simp at hok
      | ok r => cases r with
        | none => rw [hf] at hok; simp at hok
        | some m' =>
          refine ⟨m', rfl, ?_⟩
          simp only
          have hl := (formatTopazV_hdr s.tag m' version wipe hf).1
          exact apply_diff 1 (by omega) _ _ hl.symm
    obtain ⟨m', hf, htg⟩ := htag
    obtain ⟨L', hrd, ho, hs, he, hcp, hw, _, hwf⟩ := topaz_format_layout s.tag m' version wipe hf hlen
    have hA : ∀ x, Area L' x ↔ Area topazLayout x := by
      intro x; unfold Area; rw [ho, hs, he]; rfl
    have h3 : Hdr3 L' data.length := by
      intro _; rw [hs, ho]; decide
    rw [htg] at hgen ⊢
    obtain ⟨a, b⟩ := hgen data L' hrd hwf (by rw [hcp]; omega) h3 hw
    exact ⟨fun cmd hcmd => by obtain ⟨x, h1, h2, h3'⟩ := a cmd hcmd; exact ⟨x, h1, h2, (hA x).1 h3'⟩,
      fun x hx => b x (fun h => hx ((hA x).1 h))⟩
  · intro hc hlen hok hd
    obtain ⟨_, hgen⟩ := format_then_write_confined .topaz512 s version wipe hc hok
    have htag : ∃ m', formatTopaz512V s.tag version wipe = .ok (some m')
        ∧ (step .topaz512 true s (.format version wipe)).2.tag = m' := by
      simp only [step] at hok ⊢
      cases hf : formatTopaz512V s.tag version wipe with
      | error e => rw [hf] at hok; simp at hok
      | ok r => cases r with
        | none => rw [hf] at hok; simp at hok
        | some m' =>
          refine ⟨m', rfl, ?_⟩
          simp only
          have hl := (formatTopaz512V_hdr s.tag m' version wipe hf).1
          exact apply_diff 8 (by omega) _ _ hl.symm
    obtain ⟨m', hf, htg⟩ := htag
    obtain ⟨L', hrd, ho, hs, he, hcp, hw, _, hwf⟩ := topaz512_format_layout s.tag m' version wipe hf hlen
    have hA : ∀ x, Area L' x ↔ Area topaz512Layout x := by
      intro x; unfold Area; rw [ho, hs, he]; rfl
    have h3 : Hdr3 L' data.length := by
      intro _; rw [hs, ho]; decide
    rw [htg] at hgen ⊢
    obtain ⟨a, b⟩ := hgen data L' hrd hwf (by rw [hcp]; omega) h3 hw
    exact ⟨fun cmd hcmd => by obtain ⟨x, h1, h2, h3'⟩ := a cmd hcmd; exact ⟨x, h1, h2, (hA x).1 h3'⟩,
      fun x hx => b x (fun h => hx ((hA x).1 h))⟩

/-! ## What the invalidation is needed for (seeded change C03-r3m4), and non-vacuity

A Topaz-512 whose NDEF TLV directly follows the capability container (legal).  The application reads
the message, formats, writes three bytes - all through one tag object. -/
def ceM : Bytes :=
  [1, 2, 3, 4, 5, 6, 7, 0] ++ [0xE1, 0x10, 0x3F, 0] ++ [3, 1, 0x42, 0xFE] ++ List.replicate 496 0
def ceOps : List Op := [.read, .format none none, .write [0xA1, 0xA2, 0xA3]]

/-- With a `format()` that keeps the cached NDEF object (`drop = false`) the write uses the stale
offset 12 and the stale memory image: three WRITE-E8 commands go to block 1 (bytes 8..15: capability
container and the place of the Lock Control TLV), which lies wholly outside the NDEF area of the
layout that is on the tag (`topaz512Layout`, NDEF TLV at 22).  The code as it is (`drop = true`) sends
blocks 3 and 2 (the message behind the NDEF TLV at 22, then its length byte at 23). -/
theorem format_keep_cache_counterexample :
    (run .topaz512 false ⟨ceM, none⟩ ceOps).1.map (·.cmds) =
      [[], [(8, [225, 16, 63, 0, 1, 3, 242, 48]), (16, [51, 2, 3, 240, 2, 3, 3, 0])],
       [(8, [225, 16, 63, 0, 3, 0, 66, 254]), (8, [225, 16, 63, 0, 3, 0, 161, 162]),
        (16, [163, 254, 0, 0, 0, 0, 0, 0]), (8, [225, 16, 63, 0, 3, 3, 161, 162])]]
    ∧ (∀ x, 8 ≤ x → x < 16 → ¬ Area topaz512Layout x)
    ∧ (run .topaz512 true ⟨ceM, none⟩ ceOps).1.map (·.cmds) =
      [[], [(8, [225, 16, 63, 0, 1, 3, 242, 48]), (16, [51, 2, 3, 240, 2, 3, 3, 0])],
       [(24, [161, 162, 163, 254, 0, 0, 0, 0]), (16, [51, 2, 3, 240, 2, 3, 3, 3])]] := by
  refine ⟨by decide +kernel, fun x h1 h2 hA => ?_, by decide +kernel⟩
  have := hA.1
  simp [topaz512Layout] at this
  omega

/-- the hypotheses of the session theorems hold on this session: fresh object, admissible calls -/
example : Coherent .topaz512 ⟨ceM, none⟩ := coherent_fresh _ _
example : (step .topaz512 true ⟨ceM, none⟩ (.format none (some 0))).1.res = .ok true ∧ 512 ≤ ceM.length := by
  decide +kernel

end NfcVerif.C03Sess
