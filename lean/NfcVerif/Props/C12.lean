import NfcVerif.Lemmas.IsoDep
/-!
# C12 - ISO-DEP exchanges each APDU exactly once or reports a tag error

Statements; the invariant proofs are in `Lemmas/IsoDep.lean`.  Model:
`Model/IsoDep.lean` - `exchange` is `IsoDepInitiator.exchange` (with the S(WTX) handling
of `fixes/C12`), `isoPeer cfg` an ISO/IEC 14443-4 PICC with an arbitrary application
`cfg.app`, arbitrary response block size and arbitrary placement of S(WTX) requests, the
`World` carries an arbitrary fault script (`d`eliver, `l`ose, `c`orrupt, `p`rotocol error,
`e`mpty frame, per transmitted block).

`Sync pni card` (card and reader in step, no partial command chain in the card) holds after
activation (`sync_init`) and is re-established by every successful exchange
(`isodep_response_exact`), so the theorems cover every sequence of exchanges up to and
including the first failing one.  What happens after a failed exchange is the open finding
`isodep-stale-after-error` (`isodep_stale_after_error_counterexample`).
-/
namespace NfcVerif.C12
open NfcVerif NfcVerif.IsoDep

/-- activation state: PCD block number 0, PICC block number 1 (rules A and C) -/
theorem sync_init : Sync 0 Card.init := ⟨rfl, rfl⟩

/-- **At most once.** For every card application, response block size, S(WTX) placement, fuel,
retry budgets, frame size, command and *every fault script*: the card's execution log after
`exchange` is the old log, or the old log plus exactly the command that was sent (never a
second execution, never a truncated or spliced command) - also when `exchange` fails. -/
theorem isodep_at_most_once (cfg : CardCfg) (F : Nat) (pcd : Pcd) (cmd : Bytes) (w : World Card)
    (hp : pcd.pni < 2) (hs : Sync pcd.pni w.card) :
    (exchange (isoPeer cfg) F pcd cmd w).1.card.log = w.card.log ∨
    (exchange (isoPeer cfg) F pcd cmd w).1.card.log = w.card.log ++ [cmd] := by
  by_cases h : pcd.miu ≤ 0 ∨ cmd = []
  · left
    unfold exchange
    by_cases h0 : pcd.miu = 0
    · simp [h0]
    · have : pcd.miu < 0 ∨ cmd = [] := by
        rcases h with h | h
        · exact Or.inl (by omega)
        · exact Or.inr h
      simp [h0, this]
  · have hpos : 0 < pcd.miu := by
      by_cases h' : pcd.miu ≤ 0
      · exact absurd (Or.inl h') h
      · omega
    have hm : 1 ≤ pcd.miu.toNat := by omega
    have hc : cmd ≠ [] := fun hc => h (Or.inr hc)
    have := exchange_post cfg F pcd cmd w pcd.miu.toNat (by omega) hm hc hp hs (fun _ => True)
      (fun _ _ => trivial) (fun _ _ => trivial)
    obtain ⟨_, hres⟩ := this
    generalize exchange (isoPeer cfg) F pcd cmd w = r at hres ⊢
    obtain ⟨w1, p1, res⟩ := r
    cases res with
    | error e => exact hres.2
    | ok x => exact Or.inr hres.1

example : (exchange (isoPeer ⟨2, 1, 1, 1, 3, fun n c => c ++ [n, 0x90, 0]⟩) 20 ⟨0, 2, 5, 5⟩ [1, 2, 3, 4, 5]
    ⟨Card.init, [.d, .l, .l, .d, .c, .d, .d, .e, .d, .d, .d, .l], []⟩).1.card.log = [[1, 2, 3, 4, 5]] := by decide
/-- the same exchange with a retry budget of 2 fails, nothing was executed -/
example : (exchange (isoPeer ⟨2, 1, 1, 1, 3, fun n c => c ++ [n, 0x90, 0]⟩) 20 ⟨0, 3, 2, 2⟩ [1, 2, 3, 4, 5]
    ⟨Card.init, [.d, .l, .l, .d, .c, .d, .d, .e, .d, .d, .d, .l], []⟩).1.card.log = [] := by decide

/-- **Exact response.** A response that `exchange` returns is the complete response of the card's
execution of this very command (execution number `w.card.log.length`, so not a retransmission of
an earlier response), the command was executed exactly once, and card and reader are in step
again for the next exchange. -/
theorem isodep_response_exact (cfg : CardCfg) (F : Nat) (pcd : Pcd) (cmd : Bytes) (w : World Card)
    (hp : pcd.pni < 2) (hs : Sync pcd.pni w.card) (x : Bytes)
    (hx : (exchange (isoPeer cfg) F pcd cmd w).2.2 = .ok x) :
    x = cfg.app w.card.log.length cmd ∧
    (exchange (isoPeer cfg) F pcd cmd w).1.card.log = w.card.log ++ [cmd] ∧
    (exchange (isoPeer cfg) F pcd cmd w).2.1.pni < 2 ∧
    Sync (exchange (isoPeer cfg) F pcd cmd w).2.1.pni (exchange (isoPeer cfg) F pcd cmd w).1.card := by
  by_cases h : pcd.miu ≤ 0 ∨ cmd = []
  · exfalso
    unfold exchange at hx
    by_cases h0 : pcd.miu = 0
    · simp [h0] at hx
    · have : pcd.miu < 0 ∨ cmd = [] := by
        rcases h with h | h
        · exact Or.inl (by omega)
        · exact Or.inr h
      simp [h0, this] at hx
  · have hpos : 0 < pcd.miu := by
      by_cases h' : pcd.miu ≤ 0
      · exact absurd (Or.inl h') h
      · omega
    have hm : 1 ≤ pcd.miu.toNat := by omega
    have hc : cmd ≠ [] := fun hc => h (Or.inr hc)
    have := exchange_post cfg F pcd cmd w pcd.miu.toNat (by omega) hm hc hp hs (fun _ => True)
      (fun _ _ => trivial) (fun _ _ => trivial)
    obtain ⟨_, hres⟩ := this
    generalize exchange (isoPeer cfg) F pcd cmd w = r at hres hx ⊢
    obtain ⟨w1, p1, res⟩ := r
    simp only at hx
    subst hx
    exact ⟨hres.2.1, hres.1, hres.2.2.1, hres.2.2.2⟩

/-- command chained in 3 blocks, response chained in 4 blocks, S(WTX) before every card block, 6 faults -/
example : (exchange (isoPeer ⟨2, 1, 1, 1, 3, fun n c => c ++ [n, 0x90, 0]⟩) 20 ⟨0, 2, 5, 5⟩ [1, 2, 3, 4, 5]
    ⟨Card.init, [.d, .l, .l, .d, .c, .d, .d, .e, .d, .d, .d, .l], []⟩).2.2 = .ok [1, 2, 3, 4, 5, 0, 0x90, 0] := by decide

/-- **send_apdu.** When `send_apdu(..., check_status=True)` returns `x`, the card executed exactly one command, namely
the ISO 7816-4 encoding of the arguments, and answered `x` followed by the status word 9000; any other status word
is raised as `Type4TagCommandError(SW)`. -/
theorem isodep_send_apdu_exact (cfg : CardCfg) (F : Nat) (pcd : Pcd) (ext : Bool) (cla ins p1 p2 : Nat) (data : Bytes)
    (mrl : Nat) (w : World Card) (hp : pcd.pni < 2) (hs : Sync pcd.pni w.card) (x : Bytes)
    (hx : (sendApdu (isoPeer cfg) F pcd ext cla ins p1 p2 data mrl true w).2.2 = .ok x) :
    ∃ apdu, encodeApdu ext cla ins p1 p2 data mrl = .ok apdu ∧
      (sendApdu (isoPeer cfg) F pcd ext cla ins p1 p2 data mrl true w).1.card.log = w.card.log ++ [apdu] ∧
      cfg.app w.card.log.length apdu = x ++ [0x90, 0x00] := by
  unfold sendApdu at hx ⊢
  cases henc : encodeApdu ext cla ins p1 p2 data mrl with
  | error e => simp [henc] at hx
  | ok apdu =>
    simp only [henc] at hx ⊢
    refine ⟨apdu, rfl, ?_⟩
    cases hex : (exchange (isoPeer cfg) F pcd apdu w).2.2 with
    | error e => simp [hex] at hx
    | ok rsp =>
      simp only [hex] at hx ⊢
      obtain ⟨hr, hlog, _, _⟩ := isodep_response_exact cfg F pcd apdu w hp hs rsp hex
      refine ⟨hlog, ?_⟩
      rw [← hr]
      unfold checkStatus at hx
      by_cases hlen : rsp.length < 2
      · simp [hlen] at hx
      · by_cases hsw : rsp.drop (rsp.length - 2) = [0x90, 0x00]
        · simp [hlen, hsw] at hx
          rw [← hx, ← hsw, List.take_append_drop]
        · simp [hlen, hsw] at hx

example : (sendApdu (isoPeer ⟨3, 0, 0, 0, 1, fun _ c => c.take 2 ++ [0x90, 0]⟩) 20 ⟨0, 4, 2, 2⟩ false 0 0xB0 0 0 [] 2 true
    ⟨Card.init, [.d, .l, .c], []⟩).2.2 = .ok [0, 0xB0] := by decide

/-- **Error kind.** Whatever the card does (any `Peer`, not only the ISO PICC), every fault script:
if `exchange` raises, it raises `Type4TagCommandError` with errno `TIMEOUT_ERROR`, `RECEIVE_ERROR` or
`PROTOCOL_ERROR` - no `IndexError`, no raw `nfc.clf` exception.  (`outOfFuel` is not a Python exception:
it marks a run in which the card kept the reader busy for more than `F` blocks in one loop.) -/
theorem isodep_error_kind {σ : Type} (P : Peer σ) (F : Nat) (pcd : Pcd) (cmd : Bytes) (w : World σ)
    (hm : 0 < pcd.miu) (hcmd : cmd ≠ []) (e : Exc) (h : (exchange P F pcd cmd w).2.2 = .error e) :
    e = .outOfFuel ∨ e = .tagCmd TIMEOUT_ERROR ∨ e = .tagCmd RECEIVE_ERROR ∨ e = .tagCmd PROTOCOL_ERROR :=
  exchange_error_kind_any P F pcd cmd w hm hcmd e h

example : (exchange (isoPeer ⟨2, 1, 0, 0, 3, fun n c => c ++ [n, 0x90, 0]⟩) 20 ⟨0, 3, 1, 1⟩ [1, 2]
    ⟨Card.init, [.d, .d, .d, .c, .d, .l], []⟩).2.2 = .error (.tagCmd TIMEOUT_ERROR) := by decide

/-- **Block bound.** With `miu = FSC - 3` every block handed to the reader during the exchange - I-blocks,
R(ACK), R(NAK) and S(WTX) responses - is at most `FSC - 2` octets, i.e. fits the card's frame size with
its two CRC octets. -/
theorem isodep_block_bound (cfg : CardCfg) (F : Nat) (pcd : Pcd) (cmd : Bytes) (w : World Card) (fsc : Nat)
    (hfsc : 4 ≤ fsc) (hmiu : pcd.miu = (fsc : Int) - 3) (hcmd : cmd ≠ [])
    (hp : pcd.pni < 2) (hs : Sync pcd.pni w.card) :
    ∀ b ∈ (exchange (isoPeer cfg) F pcd cmd w).1.trace, b ∈ w.trace ∨ b.length + 2 ≤ fsc := by
  have := exchange_post cfg F pcd cmd w (fsc - 3) (by omega) (by omega) hcmd hp hs
    (fun b => b ∈ w.trace ∨ b.length + 2 ≤ fsc) (fun b hb => Or.inr (by omega)) (fun b hb => Or.inl hb)
  exact this.1

/-- the frame size of the card after clamping to the device limit, FSCI 0..8 and RFU values -/
theorem isodep_block_bound_derived (cfg : CardCfg) (F : Nat) (fsci fwi maxSend : Nat) (cmd : Bytes)
    (script : List Fault) (hdev : 4 ≤ maxSend) (hcmd : cmd ≠ []) :
    ∀ b ∈ (exchange (isoPeer cfg) F (mkPcd fsci fwi maxSend) cmd ⟨Card.init, script, []⟩).1.trace,
      b.length + 2 ≤ maxSend ∧ b.length + 2 ≤ fscTable.getD (min fsci 8) 256 := by
  intro b hb
  have hmin : (if fsci > 8 then 8 else fsci) = min fsci 8 := by split <;> omega
  have htab : ∀ i, i < 9 → 16 ≤ fscTable.getD i 256 := by decide
  have h16 := htab (min fsci 8) (by omega)
  have hle1 : deriveFsc fsci maxSend ≤ maxSend := by unfold deriveFsc; simp only [hmin]; split <;> omega
  have hle2 : deriveFsc fsci maxSend ≤ fscTable.getD (min fsci 8) 256 := by
    unfold deriveFsc; simp only [hmin]; split <;> omega
  have hge : 4 ≤ deriveFsc fsci maxSend := by unfold deriveFsc; simp only [hmin]; split <;> omega
  have := isodep_block_bound cfg F (mkPcd fsci fwi maxSend) cmd ⟨Card.init, script, []⟩ (deriveFsc fsci maxSend)
    hge rfl hcmd (by simp [mkPcd]) (by simpa [mkPcd] using sync_init) b hb
  rcases this with h | h
  · simp at h
  · omega

example : ∀ b ∈ (exchange (isoPeer ⟨13, 1, 0, 0, 3, fun n c => c ++ [n, 0x90, 0]⟩) 20 (mkPcd 0 4 256)
    (List.range 30) ⟨Card.init, [.d, .l], []⟩).1.trace, b.length + 2 ≤ 16 := by decide

/-- **FSC / FWT derivation.** FSCI indexes the ISO table (RFU values 9..15 read as 8 = 256 octets), the result is
clamped to the device limit; the retry budget is `min(int(1/FWT), 5)` with `FWT = 4096/13.56 MHz * 2^FWI`
(FWI 15 read as 4): 5 for FWI ≤ 9, 3 for FWI 10, 1 for FWI 11, none from FWI 12 on. -/
theorem fsc_fwt_derivation (fsci fwi maxSend : Nat) :
    deriveFsc fsci maxSend = min (fscTable.getD (min fsci 8) 256) maxSend ∧
    fscTable.getD (min fsci 8) 256 ∈ fscTable ∧
    (mkPcd fsci fwi maxSend).miu = (deriveFsc fsci maxSend : Int) - 3 ∧
    (mkPcd fsci fwi maxSend).pni = 0 ∧
    (mkPcd fsci fwi maxSend).nNak = deriveRetry fwi ∧ (mkPcd fsci fwi maxSend).nAck = deriveRetry fwi ∧
    deriveRetry fwi ≤ 5 ∧
    (fwi ≤ 9 ∨ fwi = 15 → deriveRetry fwi = 5) ∧ (fwi = 10 → deriveRetry fwi = 3) ∧
    (fwi = 11 → deriveRetry fwi = 1) ∧ (12 ≤ fwi ∧ fwi ≤ 14 → deriveRetry fwi = 0) ∧
    (16 ≤ maxSend → 13 ≤ (mkPcd fsci fwi maxSend).miu) := by
  have hmin : (if fsci > 8 then 8 else fsci) = min fsci 8 := by split <;> omega
  have htab : ∀ i, i < 9 → fscTable.getD i 256 ∈ fscTable ∧ 16 ≤ fscTable.getD i 256 := by decide
  have ht := htab (min fsci 8) (by omega)
  have hfsc : deriveFsc fsci maxSend = min (fscTable.getD (min fsci 8) 256) maxSend := by
    unfold deriveFsc; simp only [hmin]; split <;> omega
  have hretry : ∀ k, k < 15 → min (13560000 / (4096 * 2 ^ k)) 5 ≤ 5 ∧ (k ≤ 9 → min (13560000 / (4096 * 2 ^ k)) 5 = 5) ∧
      (k = 10 → min (13560000 / (4096 * 2 ^ k)) 5 = 3) ∧ (k = 11 → min (13560000 / (4096 * 2 ^ k)) 5 = 1) ∧
      (12 ≤ k → min (13560000 / (4096 * 2 ^ k)) 5 = 0) := by decide
  have hfwi : deriveFwi fwi < 15 := by unfold deriveFwi; split <;> omega
  have hr := hretry (deriveFwi fwi) hfwi
  refine ⟨hfsc, ht.1, rfl, rfl, rfl, rfl, hr.1, ?_, ?_, ?_, ?_, ?_⟩
  · intro h
    have : deriveFwi fwi ≤ 9 := by unfold deriveFwi; split <;> omega
    exact hr.2.1 this
  · intro h; exact hr.2.2.1 (by unfold deriveFwi; split <;> omega)
  · intro h; exact hr.2.2.2.1 (by unfold deriveFwi; split <;> omega)
  · intro h; exact hr.2.2.2.2 (by unfold deriveFwi; split <;> omega)
  · intro h
    show 13 ≤ (deriveFsc fsci maxSend : Int) - 3
    omega

example : mkPcd 2 11 24 = ⟨0, 21, 1, 1⟩ := by decide
example : activateA [5, 0x78, 0x80, 0x70, 0x02] 256 = .ok ⟨0, 253, 5, 5⟩ := by decide

/-! ## after a failed exchange (open findings `isodep-stale-after-error`, `isodep-duplicate-after-error`,
`isodep-spliced-command-after-error`) -/

/-- `isodep_response_exact` without the hypothesis that card and reader are in step -/
def ResponseExactWithoutSync : Prop :=
  ∀ (cfg : CardCfg) (F : Nat) (pcd : Pcd) (cmd : Bytes) (w : World Card) (x : Bytes), pcd.pni < 2 →
    (exchange (isoPeer cfg) F pcd cmd w).2.2 = .ok x → x = cfg.app w.card.log.length cmd

def exCfg : CardCfg := ⟨253, 0, 0, 0, 1, fun n c => c ++ [n, 0x90, 0]⟩
def exPcd : Pcd := ⟨0, 253, 1, 1⟩
/-- first exchange: command delivered, response and its retransmission lost; second exchange: I-block lost -/
def exWorld : World Card := ⟨Card.init, [.d, .l, .d, .l, .l, .d, .d], []⟩

/-- The state is reachable from activation: the first command fails with `Type4TagCommandError(TIMEOUT_ERROR)`
after the card executed it; the second command then *returns the response of the first one* and is never
executed. -/
theorem isodep_stale_after_error_reachable :
    (exchange (isoPeer exCfg) 8 exPcd [1, 1] exWorld).2.2 = .error (.tagCmd TIMEOUT_ERROR) ∧
    (exchange (isoPeer exCfg) 8 (exchange (isoPeer exCfg) 8 exPcd [1, 1] exWorld).2.1 [2, 2]
      (exchange (isoPeer exCfg) 8 exPcd [1, 1] exWorld).1).2.2 = .ok [1, 1, 0, 0x90, 0] ∧
    (exchange (isoPeer exCfg) 8 (exchange (isoPeer exCfg) 8 exPcd [1, 1] exWorld).2.1 [2, 2]
      (exchange (isoPeer exCfg) 8 exPcd [1, 1] exWorld).1).1.card.log = [[1, 1]] := by decide

theorem isodep_stale_after_error_counterexample : ¬ ResponseExactWithoutSync := by
  intro h
  have := h exCfg 8 (exchange (isoPeer exCfg) 8 exPcd [1, 1] exWorld).2.1 [2, 2]
    (exchange (isoPeer exCfg) 8 exPcd [1, 1] exWorld).1 [1, 1, 0, 0x90, 0] (by decide)
    isodep_stale_after_error_reachable.2.1
  revert this
  decide

end NfcVerif.C12
