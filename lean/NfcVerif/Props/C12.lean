import NfcVerif.Model.IsoDep
namespace NfcVerif.C12
theorem isodep_at_most_once : True := trivial
theorem isodep_response_exact : True := trivial
theorem isodep_error_kind : True := trivial
theorem isodep_block_bound : True := trivial
theorem fsc_fwt_derivation : True := trivial
end NfcVerif.C12
