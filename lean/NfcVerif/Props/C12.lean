import NfcVerif.Lemmas.IsoDepV2Same
import NfcVerif.Lemmas.IsoDepV2C08
/-!
# C12 - ISO-DEP exchanges each APDU exactly once or reports a tag error

Statements; the invariant proofs are in `Lemmas/IsoDepV2.lean` (safety), `Lemmas/IsoDepV2Term.lean` (termination
against every card), `Lemmas/IsoDepV2Live.lean` (absorbed faults), `Lemmas/IsoDepV2Same.lean` (repaired = as found against
rule-abiding cards).  Model: `Model/IsoDepV2.lean` - `exchange` is
`IsoDepInitiator.exchange` with the repairs of `fixes/C12` (S(WTX) answered inside the retry loops, no further command
after an unrecoverable error) and of `fixes/C08/0010 - 0012` (endless retransmissions after R(ACK) cut off, empty / oversized
chained response refused, S(WTX) multiplier checked and the granted waiting time limited); `isoPeer cfg` is an ISO/IEC
14443-4 PICC with an arbitrary application `cfg.app`, arbitrary response block size and arbitrary placement of S(WTX)
requests (`Model/IsoDep.lean`), `Peer σ` is ANY card, the `World` carries an arbitrary fault script (`d`eliver, `l`ose,
`c`orrupt, `p`rotocol error, `e`mpty frame, per transmitted block).

`SessInv pcd card` (the block number is a block number; no unrecoverable error so far => card and reader in step, no
partial command chain in the card) holds after activation (`sess_init`) and is preserved by every operation of a
session - command exchanges, successful or not, and presence checks (`isodep_session_inv`, `isodep_session_ops`) - so
the theorems hold for every exchange of every session without any hypothesis on the state left by earlier failures.

The statements about the loops as they were before `fixes/C08/0010 - 0012` are kept in `Props/C12AsFound.lean`.
-/
namespace NfcVerif.C12
open NfcVerif NfcVerif.IsoDep2
open NfcVerif.IsoDep hiding Pcd exchange exchangeCmd mkPcd activateA activateB presence sendApdu xchgW blockLoop
  sendChunks recvChain exchangeCmd_post exchangeCmd_failed exchange_unfailed exchangeCmd_live xchgW_post blockLoop_post
  sendChunks_post recvChain_post ExchPost Pot LLive xchgW_succ xchgW_step_em xchgW_live_echo xchgW_live_first
  blockLoop_live sendChunks_live recvChain_live

/-- the session invariant: the reader's block number is 0 or 1, and as long as no unrecoverable error was raised card
and reader are in step -/
def SessInv (pcd : Pcd) (c : Card) : Prop := pcd.pni < 2 ∧ (pcd.failed = none → Sync pcd.pni c)

/-- activation state: PCD block number 0, PICC block number 1 (rules A and C), for every FSCI/FWI/device limit -/
theorem sess_init (fsci fwi maxSend : Nat) : SessInv (mkPcd fsci fwi maxSend) Card.init :=
  ⟨by simp [mkPcd], fun _ => ⟨rfl, rfl⟩⟩

/-- what one `exchange` guarantees in a session -/
def StepPost (cfg : CardCfg) (cmd : Bytes) (w : World Card) (r : World Card × Pcd × Py Bytes) : Prop :=
  (r.1.card.log = w.card.log ∨ r.1.card.log = w.card.log ++ [cmd]) ∧
  (∀ x, r.2.2 = .ok x → x = cfg.app w.card.log.length cmd ∧ r.1.card.log = w.card.log ++ [cmd]) ∧
  (r.2.2 ≠ .error .outOfFuel → SessInv r.2.1 r.1.card)

theorem exchange_step (cfg : CardCfg) (F : Nat) (pcd : Pcd) (cmd : Bytes) (w : World Card)
    (hs : SessInv pcd w.card) : StepPost cfg cmd w (exchange (isoPeer cfg) F pcd cmd w) := by
  have hplt := exchange_pni_lt (isoPeer cfg) F pcd cmd w hs.1
  unfold exchange at hplt ⊢
  cases hf : pcd.failed with
  | some e =>
    simp only
    refine ⟨Or.inl rfl, (by intro x hx; cases hx), ?_⟩
    intro _; exact ⟨hs.1, fun hn => by rw [hf] at hn; cases hn⟩
  | none =>
    simp only [hf] at hplt ⊢
    obtain ⟨hp, hsync'⟩ := hs
    have hsync := hsync' hf
    have hfl := exchangeCmd_failed (isoPeer cfg) F pcd cmd w
    by_cases h : pcd.miu ≤ 0 ∨ cmd = []
    · -- nothing is sent: ValueError / UnboundLocalError before the first block
      have hun : exchangeCmd (isoPeer cfg) F pcd cmd w = (w, pcd, .error .value) ∨
          exchangeCmd (isoPeer cfg) F pcd cmd w = (w, pcd, .error .unbound) := by
        unfold exchangeCmd
        by_cases h0 : pcd.miu = 0
        · left; simp [h0]
        · right
          have : pcd.miu < 0 ∨ cmd = [] := by
            rcases h with h | h
            · exact Or.inl (by omega)
            · exact Or.inr h
          simp [h0, this]
      rcases hun with hun | hun <;> rw [hun] <;> simp only <;>
        exact ⟨Or.inl rfl, (by intro x hx; cases hx), fun _ => ⟨hp, fun _ => hsync⟩⟩
    · have hpos : 0 < pcd.miu := by
        by_cases h' : pcd.miu ≤ 0
        · exact absurd (Or.inl h') h
        · omega
      have hm : 1 ≤ pcd.miu.toNat := by omega
      have hc : cmd ≠ [] := fun hc => h (Or.inr hc)
      have := exchangeCmd_post cfg F pcd cmd w pcd.miu.toNat (by omega) hm hc hp hsync (fun _ => True)
        (fun _ _ => trivial) (fun _ _ => trivial)
      obtain ⟨_, hres⟩ := this
      generalize exchangeCmd (isoPeer cfg) F pcd cmd w = r at hres hfl hplt ⊢
      obtain ⟨w1, p1, res⟩ := r
      cases res with
      | ok x =>
        simp only at hres hfl hplt ⊢
        refine ⟨Or.inr hres.1, ?_, fun _ => ⟨hres.2.2.1, fun _ => hres.2.2.2⟩⟩
        intro y hy; cases hy; exact ⟨hres.2.1, hres.1⟩
      | error e =>
        simp only at hres hfl ⊢
        obtain ⟨hk, hlog⟩ := hres
        rcases hk with rfl | rfl | rfl | rfl
        · exact ⟨hlog, (by intro x hx; cases hx), fun hne => absurd rfl hne⟩
        all_goals
          exact ⟨hlog, (by intro x hx; cases hx), fun _ => ⟨by simpa using hplt, fun hn => by simp at hn⟩⟩

/-- **At most once.** For every card application, response block size, S(WTX) placement and multiplier, fuel,
retry budgets, waiting time limit, frame size, command, *every fault script* and every state a session can be in:
the card's execution log after `exchange` is the old log, or the old log plus exactly the command
that was sent (never a second execution, never a truncated or spliced command) - also when
`exchange` fails, and also after earlier failures. -/
theorem isodep_at_most_once (cfg : CardCfg) (F : Nat) (pcd : Pcd) (cmd : Bytes) (w : World Card)
    (hs : SessInv pcd w.card) :
    (exchange (isoPeer cfg) F pcd cmd w).1.card.log = w.card.log ∨
    (exchange (isoPeer cfg) F pcd cmd w).1.card.log = w.card.log ++ [cmd] :=
  (exchange_step cfg F pcd cmd w hs).1

example : (exchange (isoPeer ⟨2, 1, 1, 1, 3, fun n c => c ++ [n, 0x90, 0]⟩) 20 { pni := 0, miu := 2, nNak := 5, nAck := 5, wlim := 9 }
    [1, 2, 3, 4, 5]
    ⟨Card.init, [.d, .l, .d, .c, .d, .d, .e, .d, .d, .d, .l], []⟩).1.card.log = [[1, 2, 3, 4, 5]] := by decide
/-- the same exchange with a retry budget of 1 fails, nothing was executed -/
example : (exchange (isoPeer ⟨2, 1, 1, 1, 3, fun n c => c ++ [n, 0x90, 0]⟩) 20 { pni := 0, miu := 3, nNak := 1, nAck := 1, wlim := 9 }
    [1, 2, 3, 4, 5]
    ⟨Card.init, [.d, .l, .l, .d, .c, .d, .d, .e, .d, .d, .d, .l], []⟩).1.card.log = [] := by decide

/-- **Exact response.** A response that `exchange` returns is the complete response of the card's
execution of this very command (execution number `w.card.log.length`, so not a retransmission of
an earlier response) and the command was executed exactly once. No hypothesis on how earlier
exchanges of the session ended. -/
theorem isodep_response_exact (cfg : CardCfg) (F : Nat) (pcd : Pcd) (cmd : Bytes) (w : World Card)
    (hs : SessInv pcd w.card) (x : Bytes) (hx : (exchange (isoPeer cfg) F pcd cmd w).2.2 = .ok x) :
    x = cfg.app w.card.log.length cmd ∧
    (exchange (isoPeer cfg) F pcd cmd w).1.card.log = w.card.log ++ [cmd] :=
  (exchange_step cfg F pcd cmd w hs).2.1 x hx

/-- command chained in 3 blocks, response chained in 4 blocks, S(WTX) before every card block, 5 faults -/
example : (exchange (isoPeer ⟨2, 1, 1, 1, 3, fun n c => c ++ [n, 0x90, 0]⟩) 20 { pni := 0, miu := 2, nNak := 5, nAck := 5, wlim := 9 }
    [1, 2, 3, 4, 5]
    ⟨Card.init, [.d, .l, .d, .c, .d, .d, .e, .d, .d, .d, .l], []⟩).2.2 = .ok [1, 2, 3, 4, 5, 0, 0x90, 0] := by decide

/-- **The session invariant is preserved** by every exchange, whether it succeeds or raises. -/
theorem isodep_session_inv (cfg : CardCfg) (F : Nat) (pcd : Pcd) (cmd : Bytes) (w : World Card)
    (hs : SessInv pcd w.card) (hf : (exchange (isoPeer cfg) F pcd cmd w).2.2 ≠ .error .outOfFuel) :
    SessInv (exchange (isoPeer cfg) F pcd cmd w).2.1 (exchange (isoPeer cfg) F pcd cmd w).1.card :=
  (exchange_step cfg F pcd cmd w hs).2.2 hf

/-- **After an unrecoverable error** no block is sent any more: the error is raised again, the card is not touched. -/
theorem isodep_refuses_after_error {σ : Type} (P : Peer σ) (F : Nat) (pcd : Pcd) (cmd : Bytes) (w : World σ) (e : Int)
    (h : pcd.failed = some e) : exchange P F pcd cmd w = (w, pcd, .error (.tagCmd e)) := by
  unfold exchange; simp [h]

/-- every `Type4TagCommandError` raised by `exchange` sets the flag -/
theorem isodep_error_sets_flag {σ : Type} (P : Peer σ) (F : Nat) (pcd : Pcd) (cmd : Bytes) (w : World σ) (e : Int)
    (h : (exchange P F pcd cmd w).2.2 = .error (.tagCmd e)) : (exchange P F pcd cmd w).2.1.failed = some e := by
  unfold exchange at h ⊢
  cases hf : pcd.failed with
  | some e' => simp only [hf] at h ⊢; cases h; rfl
  | none =>
    simp only [hf] at h ⊢
    generalize exchangeCmd P F pcd cmd w = r at h ⊢
    obtain ⟨w1, p1, res⟩ := r
    cases res with
    | ok x => simp at h
    | error e' =>
      cases e' <;> simp only at h ⊢ <;> first | (cases h; rfl) | (cases h)

/-- the error flag holds one of the three documented error numbers -/
def FlagOk (pcd : Pcd) : Prop :=
  ∀ e, pcd.failed = some e → e = TIMEOUT_ERROR ∨ e = RECEIVE_ERROR ∨ e = PROTOCOL_ERROR

theorem flagOk_err3 {pcd : Pcd} (h : FlagOk pcd) : ∀ e, pcd.failed = some e → Err3 (.tagCmd e) := by
  intro e he
  rcases h e he with rfl | rfl | rfl
  · exact Or.inl rfl
  · exact Or.inr (Or.inl rfl)
  · exact Or.inr (Or.inr rfl)

/-- **Termination, against EVERY card.**  Whatever the card answers (any `Peer`: any state, any answer to any block -
endless S(WTX) requests, R(ACK) with the other block number for ever, chained blocks for ever, garbage), whatever the
fault script and the command: once the model's fuel exceeds `fuelNeed pcd = max(max_wtxm_sum + 1, roundsMax n_retry + 1, 65540)`
no loop of `exchange` uses it up - every loop of the repaired `IsoDepInitiator.exchange` ends - and the exchange
hands at most `exchFrames pcd len(command)` blocks to the reader:
`len * roundsMax n_nak * (max_wtxm_sum + 1) + 65539 * roundsMax n_ack * (max_wtxm_sum + 1)` with
`roundsMax n = n + 2` rounds per retry loop. -/
theorem isodep_terminates {σ : Type} (P : Peer σ) (F : Nat) (pcd : Pcd) (cmd : Bytes) (w : World σ)
    (hF : fuelNeed pcd ≤ F) (hp : pcd.pni < 2) :
    (exchange P F pcd cmd w).2.2 ≠ .error .outOfFuel ∧
    (exchange P F pcd cmd w).1.trace.length ≤ w.trace.length + exchFrames pcd cmd.length :=
  let h := exchange_spec P F pcd hF hp cmd w
  ⟨h.1, h.2.2.2.1⟩

/-- a card that asks for waiting time for ever (multiplier 59, FWI 14: limit 59): the exchange ends with
`TIMEOUT_ERROR` after the I-block and one granted request; the fuel 70000 is not used up -/
example : (exchange (⟨fun (_ : Unit) _ => ((), some [0xF2, 59])⟩ : Peer Unit) 70000 { pni := 0, miu := 13, nNak := 0, nAck := 0, wlim := 59 }
    [1, 2] ⟨(), [], []⟩).2.2 = .error (.tagCmd TIMEOUT_ERROR) ∧
    (exchange (⟨fun (_ : Unit) _ => ((), some [0xF2, 59])⟩ : Peer Unit) 70000 { pni := 0, miu := 13, nNak := 0, nAck := 0, wlim := 59 }
    [1, 2] ⟨(), [], []⟩).1.trace = [[2, 1, 2], [0xF2, 59]] := by decide
/-- a card that answers every block with R(ACK) for the other block number: `PROTOCOL_ERROR` after `n + 2` I-blocks -/
example : (exchange (⟨fun (_ : Unit) _ => ((), some [0xA3])⟩ : Peer Unit) 70000 { pni := 0, miu := 13, nNak := 2, nAck := 2, wlim := 59 }
    [1, 2] ⟨(), [], []⟩).2.2 = .error (.tagCmd PROTOCOL_ERROR) ∧
    (exchange (⟨fun (_ : Unit) _ => ((), some [0xA3])⟩ : Peer Unit) 70000 { pni := 0, miu := 13, nNak := 2, nAck := 2, wlim := 59 }
    [1, 2] ⟨(), [], []⟩).1.trace = [[2, 1, 2], [2, 1, 2], [2, 1, 2], [2, 1, 2]] := by decide
/-- a card that chains empty blocks for ever: `PROTOCOL_ERROR` at the first one -/
example : (exchange (⟨fun (_ : Unit) _ => ((), some [0x12])⟩ : Peer Unit) 70000 { pni := 0, miu := 13, nNak := 2, nAck := 2, wlim := 59 }
    [1, 2] ⟨(), [], []⟩).2.2 = .error (.tagCmd PROTOCOL_ERROR) := by decide

/-- the bound for the parameters an activation can produce: the retry budget is at most 5, the S(WTX) limit at most
`59 * 2^14`; fuel `966657` is enough for every activated tag and an exchange never needs more than
`(len + 65539) * 7 * 966657` blocks (the astronomical figure is the price of FWI 0, where 292 seconds of granted waiting
time are 966656 requests; for FWI ≥ 8 the limit is below 3777) -/
theorem isodep_terminates_activated {σ : Type} (P : Peer σ) (fsci fwi maxSend : Nat) (cmd : Bytes) (script : List Fault) (s : σ) :
    fuelNeed (mkPcd fsci fwi maxSend) ≤ 966657 ∧
    (exchange P 966657 (mkPcd fsci fwi maxSend) cmd ⟨s, script, []⟩).2.2 ≠ .error .outOfFuel ∧
    (exchange P 966657 (mkPcd fsci fwi maxSend) cmd ⟨s, script, []⟩).1.trace.length ≤ (cmd.length + 65539) * (7 * 966657) := by
  have hw : wtxLimit fwi ≤ 966656 := by
    unfold wtxLimit
    have : 2 ^ (14 - deriveFwi fwi) ≤ 2 ^ 14 := Nat.pow_le_pow_right (by omega) (by omega)
    omega
  have hn : deriveRetry fwi ≤ 5 := by unfold deriveRetry; omega
  have hrm := (roundsMax_ge (deriveRetry fwi)).2.2
  have hfuel : fuelNeed (mkPcd fsci fwi maxSend) ≤ 966657 := by
    unfold fuelNeed mkPcd
    simp only
    omega
  have h := isodep_terminates P 966657 (mkPcd fsci fwi maxSend) cmd ⟨s, script, []⟩ hfuel (by simp [mkPcd])
  refine ⟨hfuel, h.1, Nat.le_trans h.2 ?_⟩
  have hl : loopFrames (wtxLimit fwi) (deriveRetry fwi) ≤ 7 * 966657 := by
    unfold loopFrames
    exact Nat.mul_le_mul (by omega) (by omega)
  simp only [List.length_nil, Nat.zero_add, exchFrames, mkPcd]
  rw [Nat.add_mul]
  exact Nat.add_le_add (Nat.mul_le_mul_left _ hl) (Nat.mul_le_mul_left _ hl)

/-- **Error kind.** Whatever the card does (any `Peer`, not only the ISO PICC), every fault script, every session
state: if `exchange` raises for a command APDU, it raises `Type4TagCommandError` with errno `TIMEOUT_ERROR`,
`RECEIVE_ERROR` or `PROTOCOL_ERROR` - no `IndexError`, no raw `nfc.clf` exception, and (with the repairs) no
endless loop: `outOfFuel` does not occur. -/
theorem isodep_error_kind {σ : Type} (P : Peer σ) (F : Nat) (pcd : Pcd) (cmd : Bytes) (w : World σ)
    (hF : fuelNeed pcd ≤ F) (hp : pcd.pni < 2) (hm : 0 < pcd.miu) (hcmd : cmd ≠ []) (hfl : FlagOk pcd) :
    (∀ e, (exchange P F pcd cmd w).2.2 = .error e →
      e = .tagCmd TIMEOUT_ERROR ∨ e = .tagCmd RECEIVE_ERROR ∨ e = .tagCmd PROTOCOL_ERROR) ∧
    FlagOk (exchange P F pcd cmd w).2.1 := by
  have hres := (exchange_spec P F pcd hF hp cmd w).2.2.2.2.2 hm hcmd (flagOk_err3 hfl)
  refine ⟨fun e he => by rw [he] at hres; exact hres, ?_⟩
  intro e he
  by_cases hf : pcd.failed = none
  · -- the flag was set by this exchange: it holds the errno that was raised
    have : (exchange P F pcd cmd w).2.2 = .error (.tagCmd e) := by
      unfold exchange at he ⊢
      simp only [hf] at he ⊢
      have hfl' := exchangeCmd_failed P F pcd cmd w
      generalize exchangeCmd P F pcd cmd w = r at he hfl' ⊢
      obtain ⟨w1, p1, res⟩ := r
      simp only at hfl'
      cases res with
      | ok x => simp only at he; rw [hfl', hf] at he; cases he
      | error e' =>
        cases e' <;> simp only at he ⊢ <;> first | (rw [hfl', hf] at he; cases he) | (cases he; rfl)
    rw [this] at hres
    rcases hres with h | h | h <;> cases h <;> simp
  · obtain ⟨e0, he0⟩ := Option.ne_none_iff_exists'.mp hf
    rw [isodep_refuses_after_error P F pcd cmd w e0 he0] at he
    exact hfl e he

example : (exchange (isoPeer ⟨2, 1, 0, 0, 3, fun n c => c ++ [n, 0x90, 0]⟩) 20 { pni := 0, miu := 3, nNak := 1, nAck := 1, wlim := 9 } [1, 2]
    ⟨Card.init, [.d, .d, .d, .c, .d, .l], []⟩).2.2 = .error (.tagCmd TIMEOUT_ERROR) := by decide

/-- **send_apdu.** When `send_apdu(..., check_status=True)` returns `x`, the card executed exactly one command, namely
the ISO 7816-4 encoding of the arguments, and answered `x` followed by the status word 9000; any other status word
is raised as `Type4TagCommandError(SW)`. -/
theorem isodep_send_apdu_exact (cfg : CardCfg) (F : Nat) (pcd : Pcd) (ext : Bool) (cla ins p1 p2 : Nat) (data : Bytes)
    (mrl : Nat) (w : World Card) (hs : SessInv pcd w.card) (x : Bytes)
    (hx : (sendApdu (isoPeer cfg) F pcd ext cla ins p1 p2 data mrl true w).2.2 = .ok x) :
    ∃ apdu, encodeApdu ext cla ins p1 p2 data mrl = .ok apdu ∧
      (sendApdu (isoPeer cfg) F pcd ext cla ins p1 p2 data mrl true w).1.card.log = w.card.log ++ [apdu] ∧
      cfg.app w.card.log.length apdu = x ++ [0x90, 0x00] := by
  unfold sendApdu at hx ⊢
  cases henc : encodeApdu ext cla ins p1 p2 data mrl with
  | error e => simp [henc] at hx
  | ok apdu =>
    simp only [henc] at hx ⊢
    refine ⟨apdu, rfl, ?_⟩
    cases hex : (exchange (isoPeer cfg) F pcd apdu w).2.2 with
    | error e => simp [hex] at hx
    | ok rsp =>
      simp only [hex] at hx ⊢
      obtain ⟨hr, hlog⟩ := isodep_response_exact cfg F pcd apdu w hs rsp hex
      refine ⟨hlog, ?_⟩
      rw [← hr]
      unfold checkStatus at hx
      by_cases hlen : rsp.length < 2
      · simp [hlen] at hx
      · by_cases hsw : rsp.drop (rsp.length - 2) = [0x90, 0x00]
        · simp [hlen, hsw] at hx
          rw [← hx, ← hsw, List.take_append_drop]
        · simp [hlen, hsw] at hx

example : (sendApdu (isoPeer ⟨3, 0, 0, 0, 1, fun _ c => c.take 2 ++ [0x90, 0]⟩) 20 { pni := 0, miu := 4, nNak := 2, nAck := 2, wlim := 9 } false 0 0xB0 0 0 [] 2 true
    ⟨Card.init, [.d, .l, .c], []⟩).2.2 = .ok [0, 0xB0] := by decide

/-- what the absorption theorem asks of the card: it asks for waiting time at most `W` times per block, with a
multiplier `WTXM & 0x3F` in 1..59 (ISO/IEC 14443-4 7.3) and `W` requests stay within the reader's limit; its chained
response blocks are not empty and its response has at most 65539 octets (a response APDU has at most 65538) -/
def CardOk (cfg : CardCfg) (W : Nat) (pcd : Pcd) (cmd : Bytes) (w : World Card) : Prop :=
  1 ≤ cfg.chunk ∧ cfg.wtxAck ≤ W ∧ cfg.wtxI ≤ W ∧ cfg.wtxChain ≤ W ∧
  1 ≤ cfg.wtxm &&& 0x3F ∧ cfg.wtxm &&& 0x3F ≤ 59 ∧ W * (cfg.wtxm &&& 0x3F) ≤ pcd.wlim ∧
  (cfg.app w.card.log.length cmd).length ≤ 65539

/-- **Absorbed faults.** If the fault script (over the whole exchange: all command blocks, S(WTX) exchanges and response
blocks) contains `k` lost / corrupted / empty blocks with `2k ≤ resendMax n_retry = n_retry + 1` and no reader protocol
error, and the card keeps to `CardOk`, the exchange succeeds and returns the card's response.  The bound is exact for the
code: a block lost on its way to the card costs the R(NAK) and the retransmission after R(ACK), so a fault can cost two
counts; `k ≤ n_retry` is *not* enough (`isodep_absorbs_bound_tight`).  The termination repairs have not changed the
bound: the retransmission after an R(NAK) that was answered by R(ACK) is always made (`fixes/C08/0010` cuts off at
`n_retry + 1`, an R(NAK) is only sent up to `n_retry`). -/
theorem isodep_absorbs (cfg : CardCfg) (W F : Nat) (pcd : Pcd) (cmd : Bytes) (w : World Card)
    (hs : SessInv pcd w.card) (hf : pcd.failed = none) (hm : 0 < pcd.miu) (hcmd : cmd ≠ [])
    (hF : fuelNeed pcd ≤ F) (hcard : CardOk cfg W pcd cmd w) (hnp : Fault.p ∉ w.script)
    (hk1 : 2 * nfaults w.script ≤ pcd.nNak + 1) (hk2 : 2 * nfaults w.script ≤ pcd.nAck + 1) :
    (exchange (isoPeer cfg) F pcd cmd w).2.2 = .ok (cfg.app w.card.log.length cmd) := by
  obtain ⟨hp, hsync'⟩ := hs
  have hsync := hsync' hf
  obtain ⟨h1, h2, h3, h4, h5, h6, h7, h8⟩ := hcard
  obtain ⟨fW, fN, fA, fC⟩ := fuelNeed_le hF
  have hWle : W ≤ pcd.wlim := by
    have : W * 1 ≤ W * (cfg.wtxm &&& 0x3F) := Nat.mul_le_mul_left W h5
    omega
  have hl := exchangeCmd_live cfg W F pcd cmd w pcd.miu.toNat (by omega) (by omega) hcmd hp hsync h1 h2 h3 h4
    ⟨h5, h6⟩ h7 h8 (by omega) fN fA (by omega) hnp ⟨hk1, hk2⟩
  obtain ⟨⟨d, hd⟩, _⟩ := hl
  rw [← (exchange_unfailed _ F pcd cmd w hf).1] at hd
  rw [hd, (isodep_response_exact cfg F pcd cmd w ⟨hp, hsync'⟩ d hd).1]

/-- 3 faults with the maximal budget 5 (2k = 6 ≤ n + 1), S(WTX) with multiplier 3 before the response: absorbed -/
example : (exchange (isoPeer ⟨8, 1, 0, 0, 3, fun n c => c ++ [n, 0x90, 0]⟩) 14 { pni := 0, miu := 13, nNak := 5, nAck := 5, wlim := 3 }
    [1, 2] ⟨Card.init, [.l, .d, .d, .l, .d, .d, .d, .c], []⟩).2.2 = .ok [1, 2, 0, 0x90, 0] := by decide

/-- budget 1, the I-block is lost once and nothing else happens (`2k = 2 ≤ n + 1`): R(NAK), R(ACK), retransmission at
count 2, success - the recovery of a lost command block works with a single retry -/
example : (exchange (isoPeer ⟨8, 0, 0, 0, 3, fun n c => c ++ [n, 0x90, 0]⟩) 14 { pni := 0, miu := 13, nNak := 1, nAck := 1, wlim := 59 }
    [1, 2] ⟨Card.init, [.l], []⟩).2.2 = .ok [1, 2, 0, 0x90, 0] ∧
    (exchange (isoPeer ⟨8, 0, 0, 0, 3, fun n c => c ++ [n, 0x90, 0]⟩) 14 { pni := 0, miu := 13, nNak := 1, nAck := 1, wlim := 59 }
    [1, 2] ⟨Card.init, [.l], []⟩).1.trace = [[2, 1, 2], [0xB2], [2, 1, 2]] := by decide

/-- the bound is tight: budget 2, two faults (`2k = 4 > n + 1`): the I-block is lost, R(NAK) is answered by R(ACK), the
I-block is retransmitted at count 3 and its answer is lost - `Type4TagCommandError` although only two blocks were lost -/
theorem isodep_absorbs_bound_tight :
    (exchange (isoPeer ⟨8, 0, 0, 0, 3, fun n c => c ++ [n, 0x90, 0]⟩) 14 { pni := 0, miu := 13, nNak := 2, nAck := 2, wlim := 59 }
      [1, 2] ⟨Card.init, [.l, .d, .d, .d, .l], []⟩).2.2 = .error (.tagCmd TIMEOUT_ERROR) := by decide

/-- **A repair must not change behaviour against rule-abiding cards.**  Against the ISO/IEC 14443-4 card within `CardOk`
(S(WTX) multiplier 1..59, at most `W` requests per block with `W * WTXM ≤ max_wtxm_sum`, non-empty chained blocks,
response of at most 65539 octets), for every fault script, command and session state, the repaired `exchange` (with
`fixes/C08/0010 - 0012`) does exactly what the `exchange` of `Model/IsoDep.lean` (the loops before those repairs) does:
the same blocks in the same order, the same card state, the same response or error, the same block number and error
flag.  In particular the retransmission after R(ACK) is never refused (it is due at count `n_retry + 1` at the latest). -/
theorem isodep_repairs_invisible (cfg : CardCfg) (W F : Nat) (pcd : Pcd) (cmd : Bytes) (w : World Card)
    (hs : SessInv pcd w.card) (hm : 0 < pcd.miu) (hcmd : cmd ≠ []) (hcard : CardOk cfg W pcd cmd w) (hF : W + 1 ≤ F) :
    exchange (isoPeer cfg) F pcd cmd w = liftX pcd.wlim (IsoDep.exchange (isoPeer cfg) F pcd.base cmd w) := by
  obtain ⟨h1, h2, h3, h4, h5, h6, h7, h8⟩ := hcard
  exact exchange_same cfg W F pcd cmd w hm hcmd hs.1 hs.2 h1 h2 h3 h4 ⟨h5, h6⟩ h7 h8 hF

/-- command and response chained, S(WTX) before every card block, five faults: block for block the same -/
example :
    let a := exchange (isoPeer ⟨2, 1, 1, 1, 3, fun n c => c ++ [n, 0x90, 0]⟩) 20 { pni := 0, miu := 2, nNak := 5, nAck := 5, wlim := 9 }
      [1, 2, 3, 4, 5] ⟨Card.init, [.d, .l, .d, .c, .d, .d, .e, .d, .d, .d, .l], []⟩
    let b := liftX 9 (IsoDep.exchange (isoPeer ⟨2, 1, 1, 1, 3, fun n c => c ++ [n, 0x90, 0]⟩) 20 { pni := 0, miu := 2, nNak := 5, nAck := 5 }
      [1, 2, 3, 4, 5] ⟨Card.init, [.d, .l, .d, .c, .d, .d, .e, .d, .d, .d, .l], []⟩)
    a.1.trace = b.1.trace ∧ a.1.card = b.1.card ∧ a.2 = b.2 ∧ a.1.trace.length = 17 := by decide

/-- **One initiator for C12, C08 and the source translation.**  `IsoDepR.exchange` of `Model/IsoDepC08.lean` with the three
repairs switched on - the function the adversarial-card theorems of C08 are about and the function the regenerated
decision logic of `IsoDepInitiator` (function bridge, group IsoSm) is proved equal to - is the `exchange` of this file's
model, for every card, fuel, reader state, command and world. -/
theorem isodep_same_as_c08_model {σ : Type} (P : Peer σ) (F : Nat) (pcd : Pcd) (cmd : Bytes) (w : World σ) :
    ((IsoDepR.exchange P (c08Cfg pcd.wlim F) pcd.toBase cmd w).1,
     Pcd.withBase (IsoDepR.exchange P (c08Cfg pcd.wlim F) pcd.toBase cmd w).2.1 pcd.wlim,
     (IsoDepR.exchange P (c08Cfg pcd.wlim F) pcd.toBase cmd w).2.2) = exchange P F pcd cmd w :=
  exchange_c08 P F pcd cmd w

example : (c08Cfg 59 1000).fx = IsoDepR.Fix.all ∧ (c08Cfg 59 1000).lim = 59 := by decide

/-- **Block bound.** With `miu = FSC - 3` every block handed to the reader during the exchange - I-blocks,
retransmitted I-blocks, R(ACK), R(NAK) and S(WTX) responses - is at most `FSC - 2` octets, i.e. fits the card's frame
size with its two CRC octets. -/
theorem isodep_block_bound (cfg : CardCfg) (F : Nat) (pcd : Pcd) (cmd : Bytes) (w : World Card) (fsc : Nat)
    (hfsc : 4 ≤ fsc) (hmiu : pcd.miu = (fsc : Int) - 3) (hcmd : cmd ≠ []) (hs : SessInv pcd w.card) :
    ∀ b ∈ (exchange (isoPeer cfg) F pcd cmd w).1.trace, b ∈ w.trace ∨ b.length + 2 ≤ fsc := by
  unfold exchange
  cases hf : pcd.failed with
  | some e => intro b hb; exact Or.inl hb
  | none =>
    obtain ⟨hp, hsync⟩ := hs
    have := exchangeCmd_post cfg F pcd cmd w (fsc - 3) (by omega) (by omega) hcmd hp (hsync hf)
      (fun b => b ∈ w.trace ∨ b.length + 2 ≤ fsc) (fun b hb => Or.inr (by omega)) (fun b hb => Or.inl hb)
    have h1 := this.1
    simp only
    generalize exchangeCmd (isoPeer cfg) F pcd cmd w = r at h1 ⊢
    obtain ⟨w1, p1, res⟩ := r
    cases res with
    | ok x => exact h1
    | error e => cases e <;> exact h1

/-- the frame size of the card after clamping to the device limit, FSCI 0..8 and the RFU values 9..15 -/
theorem isodep_block_bound_derived (cfg : CardCfg) (F : Nat) (fsci fwi maxSend : Nat) (cmd : Bytes)
    (script : List Fault) (hdev : 4 ≤ maxSend) (hcmd : cmd ≠ []) :
    ∀ b ∈ (exchange (isoPeer cfg) F (mkPcd fsci fwi maxSend) cmd ⟨Card.init, script, []⟩).1.trace,
      b.length + 2 ≤ maxSend ∧ b.length + 2 ≤ fscTable.getD (min fsci 8) 256 := by
  intro b hb
  have hmin : (if fsci > 8 then 8 else fsci) = min fsci 8 := by split <;> omega
  have htab : ∀ i, i < 9 → 16 ≤ fscTable.getD i 256 := by decide
  have h16 := htab (min fsci 8) (by omega)
  have hle1 : deriveFsc fsci maxSend ≤ maxSend := by unfold deriveFsc; simp only [hmin]; split <;> omega
  have hle2 : deriveFsc fsci maxSend ≤ fscTable.getD (min fsci 8) 256 := by
    unfold deriveFsc; simp only [hmin]; split <;> omega
  have hge : 4 ≤ deriveFsc fsci maxSend := by unfold deriveFsc; simp only [hmin]; split <;> omega
  have := isodep_block_bound cfg F (mkPcd fsci fwi maxSend) cmd ⟨Card.init, script, []⟩ (deriveFsc fsci maxSend)
    hge rfl hcmd (sess_init fsci fwi maxSend) b hb
  rcases this with h | h
  · simp at h
  · omega

example : ∀ b ∈ (exchange (isoPeer ⟨13, 1, 0, 0, 3, fun n c => c ++ [n, 0x90, 0]⟩) 20 (mkPcd 0 4 256)
    (List.range 30) ⟨Card.init, [.d, .l], []⟩).1.trace, b.length + 2 ≤ 16 := by decide

/-- **Block bound, every card.**  Whatever the card does - also a card that follows no rule - every block handed to
the reader during `exchange` is one the initiator built itself (an I-block with at most MIU octets of the command, a
retransmitted I-block, R(ACK), R(NAK): at most `MIU + 1 = FSC - 2` octets), or the repetition of an S(WTX) request
exactly as the card sent it (a frame the card produced itself). -/
theorem isodep_block_bound_any_card {σ : Type} (P : Peer σ) (F : Nat) (pcd : Pcd) (cmd : Bytes) (w : World σ) (fsc : Nat)
    (hfsc : 3 ≤ fsc) (hmiu : pcd.miu = (fsc : Int) - 3) :
    ∀ b ∈ (exchange P F pcd cmd w).1.trace, b ∈ w.trace ∨ b.length + 2 ≤ fsc ∨ ∃ m, wtxmOf b = some m :=
  exchange_fits P F pcd cmd w (fsc - 3) (by omega) (fun b => b ∈ w.trace ∨ b.length + 2 ≤ fsc ∨ ∃ m, wtxmOf b = some m)
    (fun b hb => Or.inr (Or.inl (by omega))) (fun b hb => Or.inr (Or.inr (Option.isSome_iff_exists.mp hb)))
    (fun b hb => Or.inl hb)

example : (exchange (⟨fun (_ : Unit) _ => ((), some [0xF2, 1, 2, 3, 4, 5, 6, 7, 8, 9, 10, 11, 12, 13, 14, 15, 16, 17, 18])⟩ : Peer Unit) 70000
    { pni := 0, miu := 13, nNak := 0, nAck := 0, wlim := 2 } [1, 2] ⟨(), [], []⟩).1.trace.map List.length = [3, 19, 19] := by decide

/-! ## sessions: commands and presence checks in any order -/

/-- **The presence check does not touch the card**: `exchange(None)` sends R(NAK) with the reader's block number,
which the card answers (R(ACK), or its last block again) without changing its state; exactly that one block is sent;
the reader's state (block number, error latch) is not an output of the presence check at all. -/
theorem isodep_presence_keeps_card (cfg : CardCfg) (pcd : Pcd) (w : World Card) (hp : pcd.pni < 2) :
    (presence (isoPeer cfg) pcd w).1.card = w.card ∧
    (presence (isoPeer cfg) pcd w).1.trace = w.trace ++ [[0xB2 ||| pcd.pni]] := by
  have hrx : (Card.rx cfg w.card [0xB2 ||| pcd.pni]).1 = w.card := by
    rcases bn_cases hp with h | h <;> rw [h] <;> simp [Card.rx] <;> split <;> rfl
  rw [presence_world, xchg_trace]
  refine ⟨?_, rfl⟩
  rcases xchg_card (isoPeer cfg) w [0xB2 ||| pcd.pni] with h | h
  · exact h
  · rw [h]; exact hrx

/-- what a sequence of operations (commands and presence checks in any order) guarantees, operation by operation:
for a command the at-most-once / exact-response / error-kind / block-size / no-fuel clauses and - if an unrecoverable
error was raised before - that nothing is sent and the same error is raised; for a presence check that the card is
left as it was and one R(NAK) block is sent -/
def OpsExact (cfg : CardCfg) (F fsc : Nat) : List Op → Pcd → World Card → Prop
  | [], _, _ => True
  | .cmd c :: os, pcd, w =>
    ((exchange (isoPeer cfg) F pcd c w).1.card.log = w.card.log ∨
     (exchange (isoPeer cfg) F pcd c w).1.card.log = w.card.log ++ [c]) ∧
    (∀ x, (exchange (isoPeer cfg) F pcd c w).2.2 = .ok x →
      x = cfg.app w.card.log.length c ∧ (exchange (isoPeer cfg) F pcd c w).1.card.log = w.card.log ++ [c]) ∧
    (c ≠ [] → ∀ e, (exchange (isoPeer cfg) F pcd c w).2.2 = .error e → Err3 e) ∧
    (∀ e, pcd.failed = some e → exchange (isoPeer cfg) F pcd c w = (w, pcd, .error (.tagCmd e))) ∧
    (c ≠ [] → ∀ b ∈ (exchange (isoPeer cfg) F pcd c w).1.trace, b ∈ w.trace ∨ b.length + 2 ≤ fsc) ∧
    OpsExact cfg F fsc os (exchange (isoPeer cfg) F pcd c w).2.1 (exchange (isoPeer cfg) F pcd c w).1
  | .present :: os, pcd, w =>
    (presence (isoPeer cfg) pcd w).1.card = w.card ∧
    (presence (isoPeer cfg) pcd w).1.trace = w.trace ++ [[0xB2 ||| pcd.pni]] ∧
    OpsExact cfg F fsc os pcd (presence (isoPeer cfg) pcd w).1

/-- **Sessions.** Any sequence of commands and presence checks on one activation, any fault script, failed exchanges
included: every command is executed at most once, every response returned is the exact response to its command, every
failure is a `Type4TagCommandError` with a documented reason, every block fits the card's frame size, no loop runs out
of fuel, a presence check never changes the card and never re-opens a session that an unrecoverable error has closed. -/
theorem isodep_session_ops (cfg : CardCfg) (F fsc : Nat) (hfsc : 4 ≤ fsc) (ops : List Op) :
    ∀ (pcd : Pcd) (w : World Card), SessInv pcd w.card → FlagOk pcd → fuelNeed pcd ≤ F → pcd.miu = (fsc : Int) - 3 →
      OpsExact cfg F fsc ops pcd w := by
  induction ops with
  | nil => intro _ _ _ _ _ _; trivial
  | cons o os ih =>
    intro pcd w hs hfl hF hmiu
    cases o with
    | present =>
      obtain ⟨h1, h2⟩ := isodep_presence_keeps_card cfg pcd w hs.1
      refine ⟨h1, h2, ih pcd _ ?_ hfl hF hmiu⟩
      rw [h1]; exact hs
    | cmd c =>
      obtain ⟨h1, h2, h3⟩ := exchange_step cfg F pcd c w hs
      have hsp := exchange_spec (isoPeer cfg) F pcd hF hs.1 c w
      have hnf := hsp.1
      obtain ⟨hst1, hst2, hst3, hst4⟩ := hsp.2.2.2.2.1
      have hF' : fuelNeed (exchange (isoPeer cfg) F pcd c w).2.1 ≤ F := by
        unfold fuelNeed at hF ⊢; rw [hst2, hst3, hst4]; exact hF
      refine ⟨h1, h2, ?_, ?_, ?_, ih _ _ (h3 hnf) ?_ hF' (by rw [hst1]; exact hmiu)⟩
      · intro hc e he
        have := hsp.2.2.2.2.2 (by omega) hc (flagOk_err3 hfl)
        rw [he] at this; exact this
      · intro e he; exact isodep_refuses_after_error _ F pcd c w e he
      · intro hc; exact isodep_block_bound cfg F pcd c w fsc hfsc hmiu hc hs
      · by_cases hc : c = []
        · -- an empty string is not a command: nothing is sent, the flag is not touched
          subst hc
          intro e he
          have : (exchange (isoPeer cfg) F pcd [] w).2.1.failed = pcd.failed := by
            unfold exchange
            cases hf : pcd.failed with
            | some e' => simp [hf]
            | none =>
              have hun : exchangeCmd (isoPeer cfg) F pcd [] w = (w, pcd, .error .value) ∨
                  exchangeCmd (isoPeer cfg) F pcd [] w = (w, pcd, .error .unbound) := by
                unfold exchangeCmd
                by_cases h0 : pcd.miu = 0
                · left; simp [h0]
                · right; simp [h0]
              rcases hun with hun | hun <;> simp [hun, hf]
          rw [this] at he; exact hfl e he
        · have hm : 0 < pcd.miu := by omega
          exact (isodep_error_kind (isoPeer cfg) F pcd c w hF hs.1 hm hc hfl).2

/-- sessions after an activation: every FSCI (0..8 and the RFU values), FWI and device limit -/
theorem isodep_session_from_activation (cfg : CardCfg) (ops : List Op) (fsci fwi maxSend : Nat) (hdev : 4 ≤ maxSend)
    (script : List Fault) :
    OpsExact cfg 966657 (deriveFsc fsci maxSend) ops (mkPcd fsci fwi maxSend) ⟨Card.init, script, []⟩ := by
  have hmin : (if fsci > 8 then 8 else fsci) = min fsci 8 := by split <;> omega
  have htab : ∀ i, i < 9 → 16 ≤ fscTable.getD i 256 := by decide
  have h16 := htab (min fsci 8) (by omega)
  have hge : 4 ≤ deriveFsc fsci maxSend := by unfold deriveFsc; simp only [hmin]; split <;> omega
  exact isodep_session_ops cfg 966657 (deriveFsc fsci maxSend) hge ops _ _ (sess_init fsci fwi maxSend)
    (by intro e he; simp [mkPcd] at he) (isodep_terminates_activated (isoPeer cfg) fsci fwi maxSend [] [] Card.init).1 rfl

/-- **Once failed, always failed - presence checks in between do not re-open the session.**  After an unrecoverable
error, whatever operations follow (any number of commands and presence checks in any order, any card): the reader state
stays as it is, every command is answered with the same error, and the only blocks sent are the R(NAK) blocks of the
presence checks. -/
theorem isodep_session_latched {σ : Type} (P : Peer σ) (F : Nat) (e : Int) (ops : List Op) :
    ∀ (pcd : Pcd) (w : World σ), pcd.failed = some e →
      (runOps P F ops pcd w).2.1 = pcd ∧
      (∀ r ∈ (runOps P F ops pcd w).2.2, (∃ u, r = .pres u) ∨ r = .rsp (.error (.tagCmd e))) ∧
      (∀ b ∈ (runOps P F ops pcd w).1.trace, b ∈ w.trace ∨ b = [0xB2 ||| pcd.pni]) := by
  induction ops with
  | nil => intro pcd w _; exact ⟨rfl, by simp [runOps], fun b hb => Or.inl hb⟩
  | cons o os ih =>
    intro pcd w hf
    cases o with
    | cmd c =>
      have hx := isodep_refuses_after_error P F pcd c w e hf
      simp only [runOps, step, hx]
      obtain ⟨i1, i2, i3⟩ := ih pcd w hf
      refine ⟨i1, ?_, i3⟩
      intro r hr
      rcases List.mem_cons.mp hr with rfl | hr
      · exact Or.inr rfl
      · exact i2 r hr
    | present =>
      simp only [runOps, step]
      obtain ⟨i1, i2, i3⟩ := ih pcd (presence P pcd w).1 hf
      refine ⟨i1, ?_, ?_⟩
      · intro r hr
        rcases List.mem_cons.mp hr with rfl | hr
        · exact Or.inl ⟨_, rfl⟩
        · exact i2 r hr
      · intro b hb
        rcases i3 b hb with h | h
        · have htr : (presence P pcd w).1.trace = w.trace ++ [[0xB2 ||| pcd.pni]] := by
            rw [presence_world, xchg_trace]
          rw [htr] at h
          rcases List.mem_append.mp h with h | h
          · exact Or.inl h
          · simp at h; exact Or.inr h
        · exact Or.inr h

def exCfg : CardCfg := ⟨253, 0, 0, 0, 1, fun n c => c ++ [n, 0x90, 0]⟩
def exPcd : Pcd := { pni := 0, miu := 253, nNak := 1, nAck := 1, wlim := 59 }
/-- first exchange: command delivered, response and its retransmission lost; presence check answered;
second exchange: I-block would be lost -/
def exWorld : World Card := ⟨Card.init, [.d, .l, .d, .l, .d, .d, .l, .d, .d], []⟩

/-- the witness of the former finding `isodep-stale-after-error` with a presence check in between (seeds C12-r2m3 /
r3m1: the latch cleared by `is_present`): the second command used to return the response of the first one; it raises
the error of the first exchange and the card sees nothing but the R(NAK) of the presence check -/
example :
    (runOps (isoPeer exCfg) 8 [.cmd [1, 1], .present, .cmd [2, 2]] exPcd exWorld).2.2 =
      [.rsp (.error (.tagCmd TIMEOUT_ERROR)), .pres (.ok ()), .rsp (.error (.tagCmd TIMEOUT_ERROR))] ∧
    (runOps (isoPeer exCfg) 8 [.cmd [1, 1], .present, .cmd [2, 2]] exPcd exWorld).1.trace = [[2, 1, 1], [0xB2], [0xB2]] ∧
    (runOps (isoPeer exCfg) 8 [.cmd [1, 1], .present, .cmd [2, 2]] exPcd exWorld).1.card.log = [[1, 1]] := by decide

/-! ## activation parameters -/

/-- **FSC / FWT derivation.** FSCI indexes the ISO table (RFU values 9..15 read as 8 = 256 octets), the result is
clamped to the device limit; the retry budget is `min(int(1/FWT), 5)` with `FWT = 4096/13.56 MHz * 2^FWI`
(FWI 15 read as 4): 5 for FWI ≤ 9, 3 for FWI 10, 1 for FWI 11, none from FWI 12 on; the S(WTX) limit is
`59 * 2^(14 - FWI)` multiplier units (the waiting time one request with WTXM 59 gets at FWI 14). -/
theorem fsc_fwt_derivation (fsci fwi maxSend : Nat) :
    deriveFsc fsci maxSend = min (fscTable.getD (min fsci 8) 256) maxSend ∧
    fscTable.getD (min fsci 8) 256 ∈ fscTable ∧
    (mkPcd fsci fwi maxSend).miu = (deriveFsc fsci maxSend : Int) - 3 ∧
    (mkPcd fsci fwi maxSend).pni = 0 ∧ (mkPcd fsci fwi maxSend).failed = none ∧
    (mkPcd fsci fwi maxSend).nNak = deriveRetry fwi ∧ (mkPcd fsci fwi maxSend).nAck = deriveRetry fwi ∧
    deriveRetry fwi ≤ 5 ∧
    (fwi ≤ 9 ∨ fwi = 15 → deriveRetry fwi = 5) ∧ (fwi = 10 → deriveRetry fwi = 3) ∧
    (fwi = 11 → deriveRetry fwi = 1) ∧ (12 ≤ fwi ∧ fwi ≤ 14 → deriveRetry fwi = 0) ∧
    (16 ≤ maxSend → 13 ≤ (mkPcd fsci fwi maxSend).miu) ∧
    (mkPcd fsci fwi maxSend).wlim = 59 * 2 ^ (14 - (if fwi > 14 then 4 else fwi)) ∧
    59 ≤ (mkPcd fsci fwi maxSend).wlim ∧ (mkPcd fsci fwi maxSend).wlim ≤ 966656 := by
  have hmin : (if fsci > 8 then 8 else fsci) = min fsci 8 := by split <;> omega
  have htab : ∀ i, i < 9 → fscTable.getD i 256 ∈ fscTable ∧ 16 ≤ fscTable.getD i 256 := by decide
  have ht := htab (min fsci 8) (by omega)
  have hfsc : deriveFsc fsci maxSend = min (fscTable.getD (min fsci 8) 256) maxSend := by
    unfold deriveFsc; simp only [hmin]; split <;> omega
  have hretry : ∀ k, k < 15 → min (13560000 / (4096 * 2 ^ k)) 5 ≤ 5 ∧ (k ≤ 9 → min (13560000 / (4096 * 2 ^ k)) 5 = 5) ∧
      (k = 10 → min (13560000 / (4096 * 2 ^ k)) 5 = 3) ∧ (k = 11 → min (13560000 / (4096 * 2 ^ k)) 5 = 1) ∧
      (12 ≤ k → min (13560000 / (4096 * 2 ^ k)) 5 = 0) := by decide
  have hfwi : deriveFwi fwi < 15 := by unfold deriveFwi; split <;> omega
  have hr := hretry (deriveFwi fwi) hfwi
  have hpow : 1 ≤ 2 ^ (14 - deriveFwi fwi) ∧ 2 ^ (14 - deriveFwi fwi) ≤ 2 ^ 14 :=
    ⟨Nat.one_le_two_pow, Nat.pow_le_pow_right (by omega) (by omega)⟩
  refine ⟨hfsc, ht.1, rfl, rfl, rfl, rfl, rfl, hr.1, ?_, ?_, ?_, ?_, ?_, rfl, ?_, ?_⟩
  · intro h
    have : deriveFwi fwi ≤ 9 := by unfold deriveFwi; split <;> omega
    exact hr.2.1 this
  · intro h; exact hr.2.2.1 (by unfold deriveFwi; split <;> omega)
  · intro h; exact hr.2.2.2.1 (by unfold deriveFwi; split <;> omega)
  · intro h; exact hr.2.2.2.2 (by unfold deriveFwi; split <;> omega)
  · intro h
    show 13 ≤ (deriveFsc fsci maxSend : Int) - 3
    omega
  · show 59 ≤ 59 * 2 ^ (14 - deriveFwi fwi); omega
  · show 59 * 2 ^ (14 - deriveFwi fwi) ≤ 966656; omega

example : mkPcd 2 11 24 = { pni := 0, miu := 21, nNak := 1, nAck := 1, wlim := 472 } := by decide
theorem t0_bits : ∀ (f : Fin 16) (a b c : Bool),
    ((f.val ||| (if a then 0x10 else 0) ||| (if b then 0x20 else 0) ||| (if c then 0x40 else 0)) &&& 0x0F = f.val) ∧
    (((f.val ||| (if a then 0x10 else 0) ||| (if b then 0x20 else 0) ||| (if c then 0x40 else 0)) &&& 0x10 ≠ 0) ↔ a = true) ∧
    (((f.val ||| (if a then 0x10 else 0) ||| (if b then 0x20 else 0) ||| (if c then 0x40 else 0)) &&& 0x20 ≠ 0) ↔ b = true) := by
  decide

/-- **ATS evaluation (Type 4A).** For every Answer To Select laid out as in ISO/IEC 14443-4 - FSCI 0..15 in T0, any
subset of TA(1), TB(1), TC(1) present, any historical bytes - activation derives the parameters from the FSCI
announced in T0 and from the FWI in TB(1), or FWI 4 when TB(1) is absent. -/
theorem ats_derivation (fsci : Nat) (hf : fsci < 16) (ta tb tc : Option Nat) (hist : Bytes) (maxSend : Nat) :
    activateA (mkAts fsci ta tb tc hist) maxSend =
      .ok (mkPcd fsci (match tb with | some b => b >>> 4 | none => 4) maxSend) := by
  obtain ⟨h1, h2, h3⟩ := t0_bits ⟨fsci, hf⟩ ta.isSome tb.isSome tc.isSome
  simp only at h1 h2 h3
  unfold activateA mkAts
  simp only [List.getElem?_cons_succ, List.getElem?_cons_zero, h1]
  cases ta <;> cases tb <;> cases tc <;> simp_all

/-- an ATS that consists of the length byte only: the defaults FSCI 2 (32 octets) and FWI 4 -/
theorem ats_tl_only (maxSend : Nat) : activateA [1] maxSend = .ok (mkPcd 2 4 maxSend) := rfl

/-- **Block bound after a Type 4A activation**: whatever the shape of the ATS, every block of a following exchange fits
the frame size the card announced in T0 (and the device limit). -/
theorem isodep_block_bound_ats (cfg : CardCfg) (F : Nat) (fsci : Nat) (hf : fsci < 16) (ta tb tc : Option Nat)
    (hist : Bytes) (maxSend : Nat) (cmd : Bytes) (script : List Fault) (hdev : 4 ≤ maxSend) (hcmd : cmd ≠ []) :
    ∃ pcd, activateA (mkAts fsci ta tb tc hist) maxSend = .ok pcd ∧
      ∀ b ∈ (exchange (isoPeer cfg) F pcd cmd ⟨Card.init, script, []⟩).1.trace,
        b.length + 2 ≤ maxSend ∧ b.length + 2 ≤ fscTable.getD (min fsci 8) 256 :=
  ⟨_, ats_derivation fsci hf ta tb tc hist maxSend,
    isodep_block_bound_derived cfg F fsci _ maxSend cmd script hdev hcmd⟩

example : activateA [2, 0x00] 256 = .ok { pni := 0, miu := 13, nNak := 5, nAck := 5, wlim := 60416 } := by decide
example : activateA (mkAts 1 none (some 0xB0) (some 2) [0x80, 0x01]) 256 = .ok { pni := 0, miu := 21, nNak := 1, nAck := 1, wlim := 472 } := by decide
example : activateA [5, 0x78, 0x80, 0x70, 0x02] 256 = .ok { pni := 0, miu := 253, nNak := 5, nAck := 5, wlim := 7552 } := by decide

end NfcVerif.C12
