import NfcVerif.Props.ExcFlow
/-!
# Exception flow, instance theorems: C13 / C14: the host transports (`nfc/clf/transport.py`)

Re-checked on the regenerated `Gen/ExcFlow.lean` (see `Props/ExcFlow.lean` for what `Only` / `Can` / `Never` mean).

The drivers group (`Props/ExcFlowDrivers.lean`) ASSUMES of the host link `"self.transport.*": ["OSError"]`.  Here the
assumption is moved one layer down: `TTY.open/read/write/close`, `USB.__init__/open/read/write/close` are translated,
and what is assumed is what pyserial and libusb1 may raise (table rows `tty.*/..`, `usb.*/..`: `serial.SerialException`
- an `IOError` subclass - with its subclass `SerialTimeoutException`; any `usb1.USBError` subclass).  The theorems
`transport_read_escapes`, `transport_write_escapes`, `transport_close_escapes`, `tty_open_escapes` PROVE the drivers'
assumption for `read`, `write`, `close` of both transports and for opening the serial port: for every pyserial /
libusb1 error only `IOError` (`OSError`) leaves them.  For `USB.open` / `USB.__init__` the assumption of
`device.connect` (`transport.USB: [OSError]`) does NOT hold of the code: `usb_open_raises_usberror`.

Outside this analysis by construction (docs/exc_flow.md section 2): implicit raises of data operations.  For `TTY.read`
that was the `IndexError` of `frame[3]` / `frame[5]` / `frame[6]` on a line that runs dry (finding
`tty-short-read-internal-error`, repaired by fixes/C13/0004; the function-translator group Transport proves of the
repaired source that the index expressions cannot fail: `FnBridge.Transport.read_errors`).
-/
namespace NfcVerif.ExcFlowProps
open NfcVerif.ExcFlow NfcVerif.Gen.ClassTree NfcVerif.Gen.ExcFlow

/-- every `Only` statement of this module, checked with one evaluation of the summary table -/
def transportOnly : List (Site × List Cls) := [
  (Site.fn_tty_read, [Cls.OSError]),
  (Site.fn_usb_read, [Cls.OSError]),
  (Site.fn_tty_write, [Cls.OSError]),
  (Site.fn_usb_write, [Cls.OSError]),
  (Site.fn_tty_close, [Cls.OSError]),
  (Site.fn_usb_close, []),
  (Site.fn_tty_open, [Cls.OSError]),
  (Site.fn_tty___init__, [Cls.OSError]),
  (Site.fn_usb_open, [Cls.OSError, Cls.usb1_USBError]),
  (Site.fn_usb___init__, [Cls.OSError, Cls.usb1_USBError])]
/-- what never leaves: a libusb1 error out of `read` / `write` -/
def transportNever : List (Site × List Cls) := [
  (Site.fn_usb_read, [Cls.usb1_USBError]),
  (Site.fn_usb_write, [Cls.usb1_USBError])]
def transportCan : List (Site × Cls) := [
  (Site.fn_tty_read, Cls.TimeoutError),
  (Site.fn_tty_read, Cls.serial_SerialException),
  (Site.fn_usb_read, Cls.TimeoutError),
  (Site.fn_usb_read, Cls.OSError),
  (Site.fn_tty_write, Cls.OSError),
  (Site.fn_usb_write, Cls.OSError),
  (Site.fn_usb_open, Cls.OSError),
  (Site.fn_usb_open, Cls.usb1_USBError),
  (Site.fn_usb_open, Cls.usb1_USBErrorIO),
  (Site.fn_usb_open, Cls.usb1_USBErrorOther),
  (Site.fn_usb___init__, Cls.usb1_USBError)]
/-- the three lists, checked with one evaluation of the summary table -/
theorem transportAll_ok : checkAll world table prog transportOnly transportNever transportCan = true := by decide +kernel
theorem transportOnly_ok : checkOnly world table prog transportOnly = true := (checkAll_split transportAll_ok).1
theorem transportNever_ok : checkNever world table prog transportNever = true := (checkAll_split transportAll_ok).2.1
theorem transportCan_ok : checkCan world table prog transportCan = true := (checkAll_split transportAll_ok).2.2

/-- **`transport.read`**: whatever pyserial (`SerialException`) or libusb1 (any `USBError` subclass: timeout, device
gone, I/O, pipe, overflow ...) raises, only `IOError` leaves `TTY.read` and `USB.read` -/
theorem transport_read_escapes : ∀ f ∈ [Site.fn_tty_read, Site.fn_usb_read], Only f [Cls.OSError] := by
  intro f hf
  simp only [List.mem_cons, List.not_mem_nil, or_false] at hf
  rcases hf with h | h <;> subst h <;> exact escapesOnly_of_checkOnly tree_ordered transportOnly_ok (by decide)

/-- **`transport.write`**: only `IOError` leaves `TTY.write` and `USB.write` -/
theorem transport_write_escapes : ∀ f ∈ [Site.fn_tty_write, Site.fn_usb_write], Only f [Cls.OSError] := by
  intro f hf
  simp only [List.mem_cons, List.not_mem_nil, or_false] at hf
  rcases hf with h | h <;> subst h <;> exact escapesOnly_of_checkOnly tree_ordered transportOnly_ok (by decide)

/-- `close`: `TTY.close` only `IOError` (`flushOutput`), `USB.close` nothing -/
theorem transport_close_escapes : Only Site.fn_tty_close [Cls.OSError] ∧ Only Site.fn_usb_close [] :=
  ⟨escapesOnly_of_checkOnly tree_ordered transportOnly_ok (by decide),
   escapesOnly_of_checkOnly tree_ordered transportOnly_ok (by decide)⟩

/-- opening the serial port (`TTY.open`, `TTY.__init__`): only `IOError` -/
theorem tty_open_escapes : ∀ f ∈ [Site.fn_tty_open, Site.fn_tty___init__], Only f [Cls.OSError] := by
  intro f hf
  simp only [List.mem_cons, List.not_mem_nil, or_false] at hf
  rcases hf with h | h <;> subst h <;> exact escapesOnly_of_checkOnly tree_ordered transportOnly_ok (by decide)

/-- the libusb1 errors are mapped, not passed on: no `USBError` (no subclass of it) leaves `USB.read` / `USB.write`.
(pyserial errors are `IOError`s already and pass `TTY.read` / `TTY.write` unchanged: `transport_can_fail`.) -/
theorem transport_maps_library_errors :
    NeverEscapes world table prog Site.fn_usb_read [Cls.usb1_USBError] ∧
    NeverEscapes world table prog Site.fn_usb_write [Cls.usb1_USBError] :=
  ⟨neverEscapes_of_checkNever tree_ordered transportNever_ok (by decide),
   neverEscapes_of_checkNever tree_ordered transportNever_ok (by decide)⟩

/-- non-vacuity: the `IOError` paths exist: `IOError(ETIMEDOUT)` (the builtin `TimeoutError`, an `OSError` subclass)
raised by the code, a `SerialException` passed through, `IOError(EIO)` / `IOError(ENODEV)` -/
theorem transport_can_fail :
    Can Site.fn_tty_read Cls.TimeoutError ∧ Can Site.fn_tty_read Cls.serial_SerialException ∧
    Can Site.fn_usb_read Cls.TimeoutError ∧ Can Site.fn_usb_read Cls.OSError ∧
    Can Site.fn_tty_write Cls.OSError ∧ Can Site.fn_usb_write Cls.OSError ∧ Can Site.fn_usb_open Cls.OSError :=
  ⟨canEscape_of_checkCan tree_ordered transportCan_ok (by decide), canEscape_of_checkCan tree_ordered transportCan_ok (by decide),
   canEscape_of_checkCan tree_ordered transportCan_ok (by decide),
   canEscape_of_checkCan tree_ordered transportCan_ok (by decide), canEscape_of_checkCan tree_ordered transportCan_ok (by decide),
   canEscape_of_checkCan tree_ordered transportCan_ok (by decide), canEscape_of_checkCan tree_ordered transportCan_ok (by decide)⟩

/-- `USB.open` / `USB.__init__`: `IOError`, or a raw libusb1 error -/
theorem usb_open_escapes : ∀ f ∈ [Site.fn_usb_open, Site.fn_usb___init__], Only f [Cls.OSError, Cls.usb1_USBError] := by
  intro f hf
  simp only [List.mem_cons, List.not_mem_nil, or_false] at hf
  rcases hf with h | h <;> subst h <;> exact escapesOnly_of_checkOnly tree_ordered transportOnly_ok (by decide)

/-- observation (recorded in the group's report, not a C13 / C14 finding: `open` is on the `connect` path): a libusb1
error DOES leave `USB.open` - `getDeviceList` is outside every `try`, the string descriptor reads are guarded for
`USBErrorIO` only, `open()` / `claimInterface(0)` for ACCESS, BUSY, NO_DEVICE only.  So "only IOError leaves `open` of
both transports" is false for `USB.open`, and the assumption `transport.USB: [OSError]` of `device.connect` does not
hold of the code. -/
theorem usb_open_raises_usberror :
    Can Site.fn_usb_open Cls.usb1_USBError ∧ Can Site.fn_usb_open Cls.usb1_USBErrorIO ∧
    Can Site.fn_usb_open Cls.usb1_USBErrorOther ∧ Can Site.fn_usb___init__ Cls.usb1_USBError :=
  ⟨canEscape_of_checkCan tree_ordered transportCan_ok (by decide), canEscape_of_checkCan tree_ordered transportCan_ok (by decide),
   canEscape_of_checkCan tree_ordered transportCan_ok (by decide), canEscape_of_checkCan tree_ordered transportCan_ok (by decide)⟩

end NfcVerif.ExcFlowProps
