import NfcVerif.Gen.FnT4
import NfcVerif.Model.IsoDep
import NfcVerif.Lemmas.FnBridgePdu
/-!
# Bridge theorems, group T4 (`nfc/tag/tt4.py` -> `Gen/FnT4.lean` -> `Model/IsoDep.lean`; C12, C08, C01)

* `apdu_build_bridge`: the command APDU `send_apdu` hands to `transceive` is `IsoDep.encodeApdu` (short and
  extended length fields, `ValueError`s), for all header values, data strings and `mrl`;
* `apdu_status_bridge`: the status word handling after `transceive` is `IsoDep.checkStatus`;
* `t4a_params_bridge` / `t4b_params_bridge`: the FSCI/FWI evaluation in `Type4ATag.__init__` /
  `Type4BTag.__init__` followed by what `IsoDepInitiator.__init__` stores (`pcdOf`, float arithmetic, not
  translated) is `IsoDep.activateA` / `activateB`.
-/
namespace NfcVerif.FnBridge.T4
open NfcVerif NfcVerif.PyFn NfcVerif.IsoDep NfcVerif.FnBridge.Pdu

theorem ite_cast (c : Prop) [Decidable c] (a b : Nat) : (if c then (a : Int) else (b : Int)) = ((if c then a else b : Nat) : Int) := by
  split <;> rfl

theorem toBE2 (n : Nat) (h : n ≤ 65535) : toBE 2 n = [n / 256, n % 256] := by
  simp [toBE]; omega

theorem mkBytes_cons (a : Nat) (l : List Int) :
    mkBytes ((a : Int) :: l) = if a ≥ 256 then .error .value else (mkBytes l >>= fun r => .ok (a :: r)) := by
  rw [mkBytes]
  by_cases h : a ≥ 256
  · have : ((a : Int) < 0 ∨ (a : Int) > 255) := by omega
    simp [this, h]
  · have : ¬ ((a : Int) < 0 ∨ (a : Int) > 255) := by omega
    simp only [this, if_false, h, Int.toNat_natCast]
    cases mkBytes l <;> rfl
theorem mkBytes_nil : mkBytes [] = .ok [] := rfl

theorem mkBytes4 (a b c d : Nat) :
    mkBytes [(a : Int), (b : Int), (c : Int), (d : Int)]
      = if a ≥ 256 ∨ b ≥ 256 ∨ c ≥ 256 ∨ d ≥ 256 then .error .value else .ok [a, b, c, d] := by
  simp only [mkBytes_cons, mkBytes_nil]
  by_cases ha : a ≥ 256 <;> by_cases hb : b ≥ 256 <;> by_cases hc : c ≥ 256 <;> by_cases hd : d ≥ 256 <;>
    simp [ha, hb, hc, hd]

theorem apdu_build_bridge (ext : Bool) (cla ins p1 p2 : Nat) (data : Bytes) (mrl : Nat) :
    Gen.Fn.t4_apdu_build cla ins p1 p2 data mrl ext = encodeApdu ext cla ins p1 p2 data mrl := by
  unfold Gen.Fn.t4_apdu_build encodeApdu
  rw [mkBytes4]
  by_cases hh : cla ≥ 256 ∨ ins ≥ 256 ∨ p1 ≥ 256 ∨ p2 ≥ 256
  · simp [hh]
  · simp only [hh, if_false, Py.bind_ok]
    cases ext
    · simp only [Bool.false_eq_true, not_false_eq_true, if_true, Bool.not_false]
      py_bits
      simp only [ite_cast, pack_B1]
      by_cases hd : data = []
      · subst hd
        simp only [List.length_nil, not_true, false_and, if_false, Py.bind_ok, List.append_nil]
        py_fin
      · have hl : 0 < data.length := List.length_pos_iff.mpr hd
        simp only [hd, not_false_eq_true, true_and, if_true, if_false]
        py_fin
    · simp only [not_true, if_false, Bool.not_true]
      py_bits
      simp only [ite_cast, pack_Hbe, Bool.false_eq_true, if_false]
      by_cases hd : data = []
      · subst hd
        simp only [List.length_nil, not_true, false_and, if_false, if_true, Py.bind_ok, List.append_nil]
        by_cases h2 : 65536 < mrl
        · have : ¬ mrl = 0 := by omega
          simp [h2, this]
        · by_cases h3 : 0 < mrl
          · by_cases h4 : mrl = 65536
            · simp [h2, h3, h4, toBE]
            · have h5 : ¬ 65535 < mrl := by omega
              simp [h2, h3, h4, h5, toBE2 mrl (by omega)]
          · simp [h2, h3]
      · have hl : 0 < data.length := List.length_pos_iff.mpr hd
        simp only [hd, not_false_eq_true, true_and, if_true, if_false]
        by_cases h1 : 65535 < data.length
        · simp [h1]
        · by_cases h2 : 65536 < mrl
          · have : ¬ mrl = 0 := by omega
            simp [h1, h2, this]
          · by_cases h3 : 0 < mrl
            · by_cases h4 : mrl = 65536
              · simp [h1, h2, h3, h4, toBE]; omega
              · have h5 : ¬ 65535 < mrl := by omega
                simp [h1, h2, h3, h4, h5, toBE2 mrl (by omega), toBE2 data.length (by omega)]
            · simp [h1, h2, h3, toBE2 data.length (by omega)]

theorem clampBound_neg (n k : Nat) (hk : 0 < k) : clampBound n (-(k : Int)) = n - k := by
  unfold clampBound
  have h0 : (-(k : Int) < 0) := by omega
  simp only [h0, if_true]
  split
  · omega
  · split <;> omega

theorem sliceFrom_neg {α} (l : List α) (k : Nat) (hk : 0 < k) : PyFn.sliceFrom l (-(k : Int)) = l.drop (l.length - k) := by
  unfold PyFn.sliceFrom; rw [clampBound_neg _ _ hk]
theorem sliceTo_neg {α} (l : List α) (k : Nat) (hk : 0 < k) : PyFn.sliceTo l (-(k : Int)) = l.take (l.length - k) := by
  unfold PyFn.sliceTo; rw [clampBound_neg _ _ hk]

theorem apdu_status_bridge (rsp : Bytes) (check : Bool) :
    Gen.Fn.t4_apdu_status rsp check = checkStatus check rsp := by
  unfold Gen.Fn.t4_apdu_status checkStatus
  have e2 : (-2 : Int) = -((2 : Nat) : Int) := rfl
  simp only [e2, sliceFrom_neg _ 2 (by omega), sliceTo_neg _ 2 (by omega), PROTOCOL_ERROR]
  py_bits
  by_cases h : rsp.length < 2
  · simp [h]
  · have hne : rsp ≠ [] := by intro h0; subst h0; simp at h
    have hl : (rsp.drop (rsp.length - 2)).length = 2 := by rw [List.length_drop]; omega
    simp only [h, hne, not_true, not_false_eq_true, false_or, if_false, hl, if_true, Py.bind_ok, ne_eq]
    obtain ⟨a, b, hab⟩ := len_two hl
    rw [hab, ube_two [a, b] 0 (by simp)]
    cases check <;> simp [beNat, at0]

/-- what `IsoDepInitiator.__init__(clf, fsc, fwt)` stores for `fwt = 4096 / 13.56E6 * 2**fwi` (not translated:
float arithmetic): `miu = fsc - 3`, `n_retry = min(int(1/fwt), 5)` -/
def pcdOf (r : Int × Int) : Pcd :=
  { pni := 0, miu := r.1 - 3, nNak := min (13560000 / (4096 * 2 ^ r.2.toNat)) 5,
    nAck := min (13560000 / (4096 * 2 ^ r.2.toNat)) 5, failed := none }

theorem fsc_lookup (L : List Int) (hL : L = [16, 24, 32, 40, 48, 64, 96, 128, 256]) (k : Nat) (hk : k ≤ 8) :
    idx L (k : Int) = .ok ((fscTable.getD k 256 : Nat) : Int) := by
  subst hL
  have : k = 0 ∨ k = 1 ∨ k = 2 ∨ k = 3 ∨ k = 4 ∨ k = 5 ∨ k = 6 ∨ k = 7 ∨ k = 8 := by omega
  rcases this with rfl | rfl | rfl | rfl | rfl | rfl | rfl | rfl | rfl <;> rfl

/-- the tail shared by both tag types (in the normal form `py_bits` + `ite_cast` produce): clamp FSCI and FWI,
table lookup, clamp to the device limit -/
theorem params_tail (L : List Int) (hL : L = [16, 24, 32, 40, 48, 64, 96, 128, 256]) (fsci fwi maxSend : Nat) :
    ((idx L (((if 8 < fsci then 8 else fsci : Nat) : Int)) >>= fun t =>
      (Except.ok ((if (maxSend : Int) < t then (maxSend : Int) else t), ((if 14 < fwi then 4 else fwi : Nat) : Int)) : Py (Int × Int)))
      >>= fun r => .ok (pcdOf r))
    = .ok (mkPcd fsci fwi maxSend) := by
  rw [fsc_lookup L hL _ (by split <;> omega)]
  simp only [Py.bind_ok, mkPcd, deriveFsc, deriveRetry, deriveFwi, pcdOf, Int.toNat_natCast, gt_iff_lt]
  generalize fscTable.getD (if 8 < fsci then 8 else fsci) 256 = f
  by_cases h : maxSend < f
  · have : (maxSend : Int) < (f : Int) := by omega
    simp [h, this]
  · have : ¬ (maxSend : Int) < (f : Int) := by omega
    simp [h, this]

theorem t4b_params_bridge (sensb : Bytes) (maxSend : Nat) :
    (Gen.Fn.t4b_params sensb maxSend >>= fun r => .ok (pcdOf r)) = activateB sensb maxSend := by
  unfold Gen.Fn.t4b_params activateB
  py_bits
  simp only [getB_nat, idxN_nat]
  by_cases h10 : 10 < sensb.length
  · by_cases h11 : 11 < sensb.length
    · simp only [h10, h11, if_true, Py.bind_ok]
      py_bits
      simp only [ite_cast]
      exact params_tail _ rfl _ _ _
    · simp [h10, h11]
  · simp [h10]

example : Gen.Fn.t4_apdu_build 0 0xA4 4 0 [0xD2, 0x76] 256 false = .ok [0, 0xA4, 4, 0, 2, 0xD2, 0x76, 0] := by decide +kernel
example : Gen.Fn.t4_apdu_build 0 0xB0 0 0 [] 65536 true = .ok [0, 0xB0, 0, 0, 0, 0, 0] := by decide +kernel
example : Gen.Fn.t4_apdu_build 0 0xB0 0 0 [] 257 false = .error .value := by decide +kernel
example : Gen.Fn.t4_apdu_status [1, 2, 0x6A, 0x82] true = .error (.tagCmd 0x6A82) := by decide +kernel
example : Gen.Fn.t4_apdu_status [1, 2, 0x90, 0x00] true = .ok [1, 2] := by decide +kernel
example : Gen.Fn.t4_apdu_status [0x90] false = .error (.tagCmd (-2)) := by decide +kernel
example : Gen.Fn.t4b_params [0x50, 1, 2, 3, 4, 0, 0, 0, 0, 0, 0x81, 0x71] 200 = .ok (200, 7) := by decide +kernel

end NfcVerif.FnBridge.T4
