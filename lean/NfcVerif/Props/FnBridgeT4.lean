import NfcVerif.Gen.FnT4
import NfcVerif.Model.IsoDep
import NfcVerif.Model.T4
import NfcVerif.Lemmas.FnBridgePdu
/-!
# Bridge theorems, group T4 (`nfc/tag/tt4.py` -> `Gen/FnT4.lean` -> `Model/IsoDep.lean`; C12, C08, C01)

* `apdu_build_bridge`: the command APDU `send_apdu` hands to `transceive` is `IsoDep.encodeApdu` (short and
  extended length fields, `ValueError`s), for all header values, data strings and `mrl`;
* `apdu_status_bridge`: the status word handling after `transceive` is `IsoDep.checkStatus`;
* `t4a_params_bridge` / `t4b_params_bridge`: the FSCI/FWI evaluation in `Type4ATag.__init__` /
  `Type4BTag.__init__` followed by what `IsoDepInitiator.__init__` stores (`pcdOf`, float arithmetic, not
  translated) is `IsoDep.activateA` / `activateB`.
-/
namespace NfcVerif.FnBridge.T4
open NfcVerif NfcVerif.PyFn NfcVerif.IsoDep NfcVerif.FnBridge.Pdu

theorem ite_cast (c : Prop) [Decidable c] (a b : Nat) : (if c then (a : Int) else (b : Int)) = ((if c then a else b : Nat) : Int) := by
  split <;> rfl

theorem toBE2 (n : Nat) (h : n ≤ 65535) : toBE 2 n = [n / 256, n % 256] := by
  simp [toBE]; omega

theorem mkBytes_cons (a : Nat) (l : List Int) :
    mkBytes ((a : Int) :: l) = if a ≥ 256 then .error .value else (mkBytes l >>= fun r => .ok (a :: r)) := by
  rw [mkBytes]
  by_cases h : a ≥ 256
  · have : ((a : Int) < 0 ∨ (a : Int) > 255) := by omega
    simp [this, h]
  · have : ¬ ((a : Int) < 0 ∨ (a : Int) > 255) := by omega
    simp only [this, if_false, h, Int.toNat_natCast]
    cases mkBytes l <;> rfl
theorem mkBytes_nil : mkBytes [] = .ok [] := rfl

theorem mkBytes4 (a b c d : Nat) :
    mkBytes [(a : Int), (b : Int), (c : Int), (d : Int)]
      = if a ≥ 256 ∨ b ≥ 256 ∨ c ≥ 256 ∨ d ≥ 256 then .error .value else .ok [a, b, c, d] := by
  simp only [mkBytes_cons, mkBytes_nil]
  by_cases ha : a ≥ 256 <;> by_cases hb : b ≥ 256 <;> by_cases hc : c ≥ 256 <;> by_cases hd : d ≥ 256 <;>
    simp [ha, hb, hc, hd]

theorem apdu_build_bridge (ext : Bool) (cla ins p1 p2 : Nat) (data : Bytes) (mrl : Nat) :
    Gen.Fn.t4_apdu_build cla ins p1 p2 data mrl ext = encodeApdu ext cla ins p1 p2 data mrl := by
  unfold Gen.Fn.t4_apdu_build encodeApdu
  rw [mkBytes4]
  by_cases hh : cla ≥ 256 ∨ ins ≥ 256 ∨ p1 ≥ 256 ∨ p2 ≥ 256
  · simp [hh]
  · simp only [hh, if_false, Py.bind_ok]
    cases ext
    · simp only [Bool.false_eq_true, not_false_eq_true, if_true, Bool.not_false]
      py_bits
      simp only [ite_cast, pack_B1]
      by_cases hd : data = []
      · subst hd
        simp only [List.length_nil, not_true, false_and, if_false, Py.bind_ok, List.append_nil]
        py_fin
      · have hl : 0 < data.length := List.length_pos_iff.mpr hd
        simp only [hd, not_false_eq_true, true_and, if_true, if_false]
        py_fin
    · simp only [not_true, if_false, Bool.not_true]
      py_bits
      simp only [ite_cast, pack_Hbe, Bool.false_eq_true, if_false]
      by_cases hd : data = []
      · subst hd
        simp only [List.length_nil, not_true, false_and, if_false, if_true, Py.bind_ok, List.append_nil]
        by_cases h2 : 65536 < mrl
        · have : ¬ mrl = 0 := by omega
          simp [h2, this]
        · by_cases h3 : 0 < mrl
          · by_cases h4 : mrl = 65536
            · simp [h2, h3, h4, toBE]
            · have h5 : ¬ 65535 < mrl := by omega
              simp [h2, h3, h4, h5, toBE2 mrl (by omega)]
          · simp [h2, h3]
      · have hl : 0 < data.length := List.length_pos_iff.mpr hd
        simp only [hd, not_false_eq_true, true_and, if_true, if_false]
        by_cases h1 : 65535 < data.length
        · simp [h1]
        · by_cases h2 : 65536 < mrl
          · have : ¬ mrl = 0 := by omega
            simp [h1, h2, this]
          · by_cases h3 : 0 < mrl
            · by_cases h4 : mrl = 65536
              · simp [h1, h2, h3, h4, toBE]; omega
              · have h5 : ¬ 65535 < mrl := by omega
                simp [h1, h2, h3, h4, h5, toBE2 mrl (by omega), toBE2 data.length (by omega)]
            · simp [h1, h2, h3, toBE2 data.length (by omega)]

theorem clampBound_neg (n k : Nat) (hk : 0 < k) : clampBound n (-(k : Int)) = n - k := by
  unfold clampBound
  have h0 : (-(k : Int) < 0) := by omega
  simp only [h0, if_true]
  split
  · omega
  · split <;> omega

theorem sliceFrom_neg {α} (l : List α) (k : Nat) (hk : 0 < k) : PyFn.sliceFrom l (-(k : Int)) = l.drop (l.length - k) := by
  unfold PyFn.sliceFrom; rw [clampBound_neg _ _ hk]
theorem sliceTo_neg {α} (l : List α) (k : Nat) (hk : 0 < k) : PyFn.sliceTo l (-(k : Int)) = l.take (l.length - k) := by
  unfold PyFn.sliceTo; rw [clampBound_neg _ _ hk]

theorem apdu_status_bridge (rsp : Bytes) (check : Bool) :
    Gen.Fn.t4_apdu_status rsp check = checkStatus check rsp := by
  unfold Gen.Fn.t4_apdu_status checkStatus
  have e2 : (-2 : Int) = -((2 : Nat) : Int) := rfl
  simp only [e2, sliceFrom_neg _ 2 (by omega), sliceTo_neg _ 2 (by omega), PROTOCOL_ERROR]
  py_bits
  by_cases h : rsp.length < 2
  · simp [h]
  · have hne : rsp ≠ [] := by intro h0; subst h0; simp at h
    have hl : (rsp.drop (rsp.length - 2)).length = 2 := by rw [List.length_drop]; omega
    simp only [h, hne, not_true, not_false_eq_true, false_or, if_false, hl, if_true, Py.bind_ok, ne_eq]
    obtain ⟨a, b, hab⟩ := len_two hl
    rw [hab, ube_two [a, b] 0 (by simp)]
    cases check <;> simp [beNat, at0]

/-- what `IsoDepInitiator.__init__(clf, fsc, fwt)` stores for `fwt = 4096 / 13.56E6 * 2**fwi` (not translated:
float arithmetic): `miu = fsc - 3`, `n_retry = min(int(1/fwt), 5)` -/
def pcdOf (r : Int × Int) : Pcd :=
  { pni := 0, miu := r.1 - 3, nNak := min (13560000 / (4096 * 2 ^ r.2.toNat)) 5,
    nAck := min (13560000 / (4096 * 2 ^ r.2.toNat)) 5, failed := none }

theorem fsc_lookup (L : List Int) (hL : L = [16, 24, 32, 40, 48, 64, 96, 128, 256]) (k : Nat) (hk : k ≤ 8) :
    idx L (k : Int) = .ok ((fscTable.getD k 256 : Nat) : Int) := by
  subst hL
  have : k = 0 ∨ k = 1 ∨ k = 2 ∨ k = 3 ∨ k = 4 ∨ k = 5 ∨ k = 6 ∨ k = 7 ∨ k = 8 := by omega
  rcases this with rfl | rfl | rfl | rfl | rfl | rfl | rfl | rfl | rfl <;> rfl

/-- the tail shared by both tag types (in the normal form `py_bits` + `ite_cast` produce): clamp FSCI and FWI,
table lookup, clamp to the device limit -/
theorem params_tail (L : List Int) (hL : L = [16, 24, 32, 40, 48, 64, 96, 128, 256]) (fsci fwi maxSend : Nat) :
    ((idx L (((if 8 < fsci then 8 else fsci : Nat) : Int)) >>= fun t =>
      (Except.ok ((if (maxSend : Int) < t then (maxSend : Int) else t), ((if 14 < fwi then 4 else fwi : Nat) : Int)) : Py (Int × Int)))
      >>= fun r => .ok (pcdOf r))
    = .ok (mkPcd fsci fwi maxSend) := by
  rw [fsc_lookup L hL _ (by split <;> omega)]
  simp only [Py.bind_ok, mkPcd, deriveFsc, deriveRetry, deriveFwi, pcdOf, Int.toNat_natCast, gt_iff_lt]
  generalize fscTable.getD (if 8 < fsci then 8 else fsci) 256 = f
  by_cases h : maxSend < f
  · have : (maxSend : Int) < (f : Int) := by omega
    simp [h, this]
  · have : ¬ (maxSend : Int) < (f : Int) := by omega
    simp [h, this]

theorem t4b_params_bridge (sensb : Bytes) (maxSend : Nat) :
    (Gen.Fn.t4b_params sensb maxSend >>= fun r => .ok (pcdOf r)) = activateB sensb maxSend := by
  unfold Gen.Fn.t4b_params activateB
  py_bits
  simp only [getB_nat, idxN_nat]
  by_cases h10 : 10 < sensb.length
  · by_cases h11 : 11 < sensb.length
    · simp only [h10, h11, if_true, Py.bind_ok]
      py_bits
      simp only [ite_cast]
      exact params_tail _ rfl _ _ _
    · simp [h10, h11]
  · simp [h10]

theorem t4a_params_bridge (rats : Bytes) (maxSend : Nat) :
    (Gen.Fn.t4a_params rats maxSend >>= fun r => .ok (pcdOf r)) = activateA rats maxSend := by
  unfold Gen.Fn.t4a_params activateA
  by_cases h1 : 1 < rats.length
  · have e1 : rats[1]? = some (at0 rats 1) := by rw [at0_lt h1]; exact List.getElem?_eq_getElem h1
    simp only [e1]
    generalize ht0 : at0 rats 1 = t0
    py_bits
    simp only [getB_nat, h1, if_true, Py.bind_ok, ht0]
    py_bits
    simp only [ite_cast, Int.ofNat_lt, getB_nat]
    generalize hk : (if ¬t0 &&& 16 = 0 then 3 else 2) = k
    by_cases h32 : t0 &&& 32 = 0
    · simp only [h32, not_true, false_and, if_false, Py.bind_ok]
      simp only [ite_cast, Int.ofNat_lt]
      exact params_tail _ rfl _ _ _
    · by_cases hkl : k < rats.length
      · have ek : rats[k]? = some (at0 rats k) := by rw [at0_lt hkl]; exact List.getElem?_eq_getElem hkl
        simp only [h32, not_false_eq_true, hkl, and_self, if_true, Py.bind_ok, ek]
        py_bits
        simp only [ite_cast, Int.ofNat_lt]
        exact params_tail _ rfl _ _ _
      · have ek : rats[k]? = none := List.getElem?_eq_none (by omega)
        simp only [h32, not_false_eq_true, hkl, and_false, if_false, if_true, Py.bind_ok, ek]
        simp only [ite_cast, Int.ofNat_lt]
        exact params_tail _ rfl _ _ _
  · have e1 : rats[1]? = none := List.getElem?_eq_none (by omega)
    simp only [e1]
    py_bits
    simp only [h1, if_false, Py.bind_ok]
    simp only [ite_cast, Int.ofNat_lt]
    exact params_tail _ rfl _ _ _

example : Gen.Fn.t4a_params [5, 0x78, 0x80, 0x70, 0x02] 256 = .ok (256, 7) := by decide +kernel
example : Gen.Fn.t4a_params [1] 100 = .ok (32, 4) := by decide +kernel

example : Gen.Fn.t4_apdu_build 0 0xA4 4 0 [0xD2, 0x76] 256 false = .ok [0, 0xA4, 4, 0, 2, 0xD2, 0x76, 0] := by decide +kernel
example : Gen.Fn.t4_apdu_build 0 0xB0 0 0 [] 65536 true = .ok [0, 0xB0, 0, 0, 0, 0, 0] := by decide +kernel
example : Gen.Fn.t4_apdu_build 0 0xB0 0 0 [] 257 false = .error .value := by decide +kernel
example : Gen.Fn.t4_apdu_status [1, 2, 0x6A, 0x82] true = .error (.tagCmd 0x6A82) := by decide +kernel
example : Gen.Fn.t4_apdu_status [1, 2, 0x90, 0x00] true = .ok [1, 2] := by decide +kernel
example : Gen.Fn.t4_apdu_status [0x90] false = .error (.tagCmd (-2)) := by decide +kernel
example : Gen.Fn.t4b_params [0x50, 1, 2, 3, 4, 0, 0, 0, 0, 0, 0x81, 0x71] 200 = .ok (200, 7) := by decide +kernel

/-! ## capability container and READ BINARY arguments (`Model/T4.lean`, C01/C08)

`discoverTail` is the text of `T4.discover` behind its second `readBinary` (`discover_eq : .. := rfl`); the cut of
`_discover_ndef` returns `False` or the tuple of the attributes it stores, `infoVal` is that encoding of the model's
`Option Info`.  `ext` of the source is `!v.shortApdu`; the 16 bit offset clamp of the repaired code is
`v.offsetClamp = true`. -/

theorem len15 {l : Bytes} (h : l.length = 15) :
    ∃ a0 a1 a2 a3 a4 a5 a6 a7 a8 a9 a10 a11 a12 a13 a14, l = [a0, a1, a2, a3, a4, a5, a6, a7, a8, a9, a10, a11, a12, a13, a14] := by
  match l, h with
  | [a0, a1, a2, a3, a4, a5, a6, a7, a8, a9, a10, a11, a12, a13, a14], _ =>
    exact ⟨a0, a1, a2, a3, a4, a5, a6, a7, a8, a9, a10, a11, a12, a13, a14, rfl⟩

/-- `_discover_ndef` behind the second `_read_binary`, as `T4.discover` has it -/
def discoverTail (v : T4.Variant) (caps : Bytes) : Py (Option T4.Info) :=
  if caps.length < 13 then .ok none else
  match caps ++ T34.zeros (15 - caps.length) with
  | [ver, e1, e0, c1, c0, tag, plen, v0, v1, v2, v3, v4, v5, v6, v7] =>
    let val := [v0, v1, v2, v3, v4, v5, v6, v7].take (min plen 8)
    if ¬ (ver / 16 = 1 ∨ ver / 16 = 2 ∨ ver / 16 = 3) then .ok none
    else if ¬ ((tag = 4 ∧ val.length = 6) ∨ (tag = 6 ∧ val.length = 8)) then .ok none
    else
      let mfs : Nat := if tag = 4 then beNat [v2, v3] else beNat [v2, v3, v4, v5]
      let rf := if tag = 4 then v4 else v6
      let wf := if tag = 4 then v5 else v7
      let mle := e1 * 256 + e0
      let mlc := c1 * 256 + c0
      .ok (some { maxLe := if v.shortApdu then min mle 256 else mle,
                  maxLc := if v.shortApdu then min mlc 255 else mlc,
                  capacity := ((if v.offsetClamp then min mfs 65536 else mfs : Nat) : Int) - tag + 2,
                  readable := decide (rf = 0), writeable := decide (wf = 0),
                  nlenSize := tag - 2, fid := [v0, v1] })
  | _ => .error .struct

theorem discover_eq (v : T4.Variant) (c : T4.Card) :
    T4.discover v c = (T4.readBinary c c.cc 15 0 2 >>= fun cclen =>
      if cclen.length ≠ 2 then .ok none else
      T4.readBinary c c.cc 15 2 (min ((beNat cclen : Int) - 2) 15) >>= fun caps => discoverTail v caps) := rfl

/-- the result of the cut: `False` or the tuple of the stored attributes -/
def infoVal : Option T4.Info → Val
  | none => .bool false
  | some i => .tuple [.int i.maxLe, .int i.maxLc, .int i.capacity, .bool i.readable, .bool i.writeable,
      .int i.nlenSize, .bytes i.fid]

theorem repeat_zero (n : Int) : PyFn.repeatL [0] n = T34.zeros n.toNat := by
  unfold PyFn.repeatL T34.zeros
  induction n.toNat with
  | zero => rfl
  | succ k ih => simp [List.replicate_succ, ih]

theorem cc_parse_bridge (v : T4.Variant) (caps : Bytes) (hv : v.offsetClamp = true) :
    Gen.Fn.t4_cc_parse caps (!v.shortApdu) = (discoverTail v caps >>= fun o => .ok (infoVal o)) := by
  unfold Gen.Fn.t4_cc_parse discoverTail
  rw [repeat_zero]
  have e15 : ((15 : Int) - PyFn.len caps).toNat = 15 - caps.length := by rw [len_eq]; omega
  rw [e15]
  py_bits
  by_cases h13 : caps.length < 13
  · simp [h13, infoVal]
  · simp only [h13, or_false, false_or, if_false]
    generalize hP : caps ++ T34.zeros (15 - caps.length) = P
    by_cases hl : P.length = 15
    · obtain ⟨ver, e1, e0, c1, c0, tag, plen, v0, v1, v2, v3, v4, v5, v6, v7, rfl⟩ := len15 hl
      simp only [List.length_cons, List.length_nil, if_true, Py.bind_ok]
      have hpas : pascal [ver, e1, e0, c1, c0, tag, plen, v0, v1, v2, v3, v4, v5, v6, v7] (((0 + 6 : Nat) : Int)) 9
          = [v0, v1, v2, v3, v4, v5, v6, v7].take (min plen 8) := by
        unfold pascal
        rw [ube_one]
        have : (((0 + 6 : Nat) : Int) + 1) = ((7 : Nat) : Int) := by omega
        rw [this, Int.toNat_natCast, sub_nat]
        simp [at0]
      rw [hpas]
      have hm : min plen 8 = 0 ∨ min plen 8 = 1 ∨ min plen 8 = 2 ∨ min plen 8 = 3 ∨ min plen 8 = 4 ∨ min plen 8 = 5
          ∨ min plen 8 = 6 ∨ min plen 8 = 7 ∨ min plen 8 = 8 := by omega
      generalize min plen 8 = m at hm
      simp only [at0, Nat.zero_add]
      rcases hm with rfl | rfl | rfl | rfl | rfl | rfl | rfl | rfl | rfl
      all_goals (
        by_cases ht4 : tag = 4 <;> by_cases ht6 : tag = 6 <;> cases hs : v.shortApdu <;>
          simp [infoVal, hv, hs, ht4, ht6, ube, beNat, PyFn.imin, Nat.min_def] <;>
          (try (split <;> simp)) <;>
          (try (repeat' constructor)) <;>
          (try (all_goals (split <;> split <;> omega))) <;>
          (try (intros; omega)))
    · -- more or fewer than 15 octets: `struct.error`
      have hne : ¬ (P.length = 15) := hl
      simp only [hne, if_false, Py.bind_error]
      have : (match P with
          | [ver, e1, e0, c1, c0, tag, plen, v0, v1, v2, v3, v4, v5, v6, v7] => (Except.ok none : Py (Option T4.Info))
          | _ => .error .struct) = .error .struct := by
        split
        · simp at hne
        · rfl
      split
      · simp at hne
      · rfl

/-- `_read_binary(offset, size)`: the regenerated argument computation, then the part of `T4.readBinary` that
follows (`send_apdu` refuses Le > 256, sends no Le field for `max_data <= 0`, the card answers) -/
theorem read_binary_bridge (c : T4.Card) (f : Bytes) (maxLe off : Nat) (size : Int) :
    T4.readBinary c f maxLe off size
      = (Gen.Fn.t4_read_binary_args off size maxLe >>= fun r =>
          if r.2.2 > 256 then .error .value
          else if r.2.2 ≤ 0 then .ok []
          else T4.cardRead c f (r.1.toNat * 256 + r.2.1.toNat) r.2.2.toNat) := by
  unfold Gen.Fn.t4_read_binary_args T4.readBinary
  rw [pack_Hbe]
  by_cases h : off > 65535
  · simp [h]
  · have h1 : off / 256 < 256 := by omega
    simp only [h, if_false, Py.bind_ok, len_eq, List.length_cons, List.length_nil]
    have e0 : (0 : Int) = ((0 : Nat) : Int) := rfl
    have e1 : (1 : Int) = ((1 : Nat) : Int) := rfl
    simp only [e0, e1, getB_nat]
    simp [at0, PyFn.imin, Int.min_def]
    have e2 : ((off : Int) / 256).toNat * 256 + ((off : Int) % 256).toNat = off := by omega
    have e3 : (if (maxLe : Int) ≤ size then (maxLe : Int) else size) = (if size < (maxLe : Int) then size else (maxLe : Int)) := by
      split <;> split <;> omega
    rw [e2, e3]

example : Gen.Fn.t4_cc_parse [0x20, 0, 0x3B, 0, 0x34, 4, 6, 0xE1, 4, 0x10, 0, 0, 0] false
    = .ok (.tuple [.int 59, .int 52, .int 4094, .bool true, .bool true, .int 2, .bytes [0xE1, 4]]) := by rfl
example : Gen.Fn.t4_cc_parse [0x40, 0, 0x3B, 0, 0x34, 4, 6, 0xE1, 4, 0x10, 0, 0, 0] false = .ok (.bool false) := by rfl

end NfcVerif.FnBridge.T4
