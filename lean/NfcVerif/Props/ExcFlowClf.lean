import NfcVerif.Props.ExcFlow
/-!
# Exception flow, instance theorems: C18: `connect()` and `sense()`

Re-checked on the regenerated `Gen/ExcFlow.lean` (see `Props/ExcFlow.lean` for what `Only` / `Can` mean).
-/
namespace NfcVerif.ExcFlowProps
open NfcVerif.ExcFlow NfcVerif.Gen.ClassTree NfcVerif.Gen.ExcFlow

/-! ## C18: `connect()` and `sense()` -/

/-- every `Only` statement of this section, checked with one evaluation of the summary table -/
def clfOnly : List (Site × List Cls) := [
  (Site.fn_clf_connect, [Cls.OSError, Cls.TypeError, Cls.ValueError, Cls.SystemExit, Cls.RuntimeError, Cls.AssertionError, Cls.clf_pn53x_Chipset_Error, Cls.clf_rcs380_StatusError, Cls.clf_TransmissionError]),
  (Site.fn_clf_sense_several, [Cls.OSError, Cls.ValueError, Cls.AssertionError, Cls.clf_pn53x_Chipset_Error, Cls.clf_rcs380_StatusError, Cls.clf_TransmissionError]),
  (Site.fn_clf_card_connect, [Cls.OSError, Cls.ValueError, Cls.AssertionError, Cls.KeyboardInterrupt, Cls.clf_UnsupportedTargetError, Cls.clf_pn53x_Chipset_Error, Cls.clf_rcs380_StatusError])]
def clfCan : List (Site × Cls) := [
  (Site.fn_clf_connect, Cls.SystemExit),
  (Site.fn_clf_llcp_connect, Cls.KeyboardInterrupt),
  (Site.fn_clf_sense, Cls.clf_UnsupportedTargetError),
  (Site.fn_clf_listen, Cls.clf_TransmissionError)]
/-- classes that never leave `connect()` -/
def clfNever : List (Site × List Cls) := [
  (Site.fn_clf_connect, [Cls.clf_TimeoutError, Cls.clf_BrokenLinkError, Cls.clf_ProtocolError, Cls.clf_UnsupportedTargetError,
    Cls.KeyboardInterrupt, Cls.llcp_pdu_Error, Cls.llcp_sec_Error, Cls.tag_TagCommandError, Cls.clf_rcs380_CommunicationError]),
  (Site.fn_clf_llcp_connect, [Cls.clf_TimeoutError, Cls.clf_BrokenLinkError, Cls.clf_ProtocolError]),
  (Site.fn_llc_activate, [Cls.clf_TimeoutError, Cls.clf_BrokenLinkError, Cls.clf_ProtocolError])]
/-- all lists, checked with one evaluation of the summary table -/
theorem clfAll_ok : checkAll world table prog clfOnly clfNever clfCan = true := by decide +kernel
theorem clfOnly_ok : checkOnly world table prog clfOnly = true := (checkAll_split clfAll_ok).1
theorem clfNever_ok : checkNever world table prog clfNever = true := (checkAll_split clfAll_ok).2.1
theorem clfCan_ok : checkCan world table prog clfCan = true := (checkAll_split clfAll_ok).2.2


/-- What can leave `connect()`: `IOError` (documented: no device), `TypeError` / `ValueError` (documented:
bad options / targets), and - outside the documented contract - `SystemExit` (open finding
`connect-systemexit-from-llc-run`), `RuntimeError` (open finding `t1t2-unknown-commerror-runtimeerror`
reached through `tag.is_present`), `AssertionError`, and what `Device.mute()` and the drivers' `sense_*` /
`listen_*` let through (`Chipset.Error`, `StatusError`, `TransmissionError`: `Props/ExcFlowDiscovery.lean`).  In
particular no `KeyboardInterrupt`, no `UnsupportedTargetError`, no `TagCommandError`, no `pdu.Error`
(`clf_connect_no_commerror`).

Nothing is assumed about NFC-DEP activation: `_llcp_connect` calls `LogicalLinkController.activate`, which calls
`nfc.dep.Initiator.activate` / `Target.activate`, which call `sense()` / `listen()`, which call `sense_*` /
`listen_dep` of every driver class - all translated from the source.  Assumed on the llcp path: `clf.exchange` raises
`CommunicationError` subclasses (`clf_exchange_escapes`), `mac.exchange` / `mac.deactivate` as in `llc.exchange` /
`llc.terminate`. -/
theorem clf_connect_escapes : Only Site.fn_clf_connect
    [Cls.OSError, Cls.TypeError, Cls.ValueError, Cls.SystemExit, Cls.RuntimeError, Cls.AssertionError,
     Cls.clf_pn53x_Chipset_Error, Cls.clf_rcs380_StatusError, Cls.clf_TransmissionError] :=
  escapesOnly_of_checkOnly tree_ordered clfOnly_ok (by decide)
/-- open finding `connect-systemexit-from-llc-run` / `connect-left-by-SystemExit-ioerror` (F21) -/
theorem clf_connect_systemexit : Can Site.fn_clf_connect Cls.SystemExit :=
  canEscape_of_checkCan tree_ordered clfCan_ok (by decide)
/-- **no `TimeoutError`, `BrokenLinkError`, `ProtocolError` leaves `connect()`** (nor `_llcp_connect`, nor
`LogicalLinkController.activate`): a driver that waits for activation returns `None` when the peer stops answering.
Proved from the source of `udp.Device.listen_dep` (repaired by fixes/C18/0005: the exchanges after the ATR_RES /
PSL_RES were outside every handler and `connect(llcp=...)` was left by `TimeoutError` / `BrokenLinkError`),
`nfc.dep.Target.activate`, `LogicalLinkController.activate`; reverting the repair breaks this theorem.  The
`TransmissionError` that remains in `clf_connect_escapes` is the short-send check of `udp.Device._send_data`
(`mute`, `sense_tta`, the discovery responses of `listen_*`). -/
theorem clf_connect_no_commerror : NeverEscapes world table prog Site.fn_clf_connect
      [Cls.clf_TimeoutError, Cls.clf_BrokenLinkError, Cls.clf_ProtocolError, Cls.clf_UnsupportedTargetError, Cls.KeyboardInterrupt,
       Cls.llcp_pdu_Error, Cls.llcp_sec_Error, Cls.tag_TagCommandError, Cls.clf_rcs380_CommunicationError] ∧
    NeverEscapes world table prog Site.fn_clf_llcp_connect [Cls.clf_TimeoutError, Cls.clf_BrokenLinkError, Cls.clf_ProtocolError] ∧
    NeverEscapes world table prog Site.fn_llc_activate [Cls.clf_TimeoutError, Cls.clf_BrokenLinkError, Cls.clf_ProtocolError] :=
  ⟨neverEscapes_of_checkNever tree_ordered clfNever_ok (by decide),
   neverEscapes_of_checkNever tree_ordered clfNever_ok (by decide),
   neverEscapes_of_checkNever tree_ordered clfNever_ok (by decide)⟩
/-- non-vacuity: the link loop does raise `KeyboardInterrupt`; `connect()` turns it into `False` -/
theorem clf_llcp_connect_keyboardinterrupt : Can Site.fn_clf_llcp_connect Cls.KeyboardInterrupt :=
  canEscape_of_checkCan tree_ordered clfCan_ok (by decide)

/-- `sense()` with several targets (the branch `if len(targets) == 1: raise error` cut): no
`UnsupportedTargetError`; `ValueError` only from the argument type check before the loop -/
theorem clf_sense_several_escapes : Only Site.fn_clf_sense_several
    [Cls.OSError, Cls.ValueError, Cls.AssertionError, Cls.clf_pn53x_Chipset_Error, Cls.clf_rcs380_StatusError,
     Cls.clf_TransmissionError] :=
  escapesOnly_of_checkOnly tree_ordered clfOnly_ok (by decide)
/-- with one target the error is raised, as documented -/
theorem clf_sense_single_unsupported : Can Site.fn_clf_sense Cls.clf_UnsupportedTargetError :=
  canEscape_of_checkCan tree_ordered clfCan_ok (by decide)

/-- `_card_connect`: the `CommunicationError` of `listen()` and of the emulation loop does not escape (F30);
non-vacuity `clf_listen_raises_commerror`: `listen()` does raise one (the `TransmissionError` of the UDP driver) -/
theorem clf_card_connect_escapes : Only Site.fn_clf_card_connect
    [Cls.OSError, Cls.ValueError, Cls.AssertionError, Cls.KeyboardInterrupt, Cls.clf_UnsupportedTargetError,
     Cls.clf_pn53x_Chipset_Error, Cls.clf_rcs380_StatusError] :=
  escapesOnly_of_checkOnly tree_ordered clfOnly_ok (by decide)
theorem clf_listen_raises_commerror : Can Site.fn_clf_listen Cls.clf_TransmissionError :=
  canEscape_of_checkCan tree_ordered clfCan_ok (by decide)

end NfcVerif.ExcFlowProps
