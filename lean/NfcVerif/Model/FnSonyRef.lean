import NfcVerif.Model.AuthHist
import NfcVerif.PyFn
/-!
# Reference semantics of the FeliCa vendor methods (`nfc/tag/tt3_sony.py`) over uninterpreted tag commands

`Model/Auth.lean` and `Model/AuthHist.lean` have these methods with the Type 3 Tag frames and an air
interface below them.  Here the SAME decisions are written once more with everything below the method
as a parameter - the tag commands (`rd`, `wr`, `rm`, `wm`: what `read_without_mac`, `write_without_mac`,
`read_with_mac`, `write_with_mac` return or raise), the MAC function (`gm`, in the code
`generate_mac`) and the cipher object (`enc`, in the code `triple_des(..).encrypt`) - so that the
regenerated definitions of group Sony (`Gen/FnSony.lean`) can be compared with them for ALL behaviours of
tag, channel and cipher, and so that the property-relevant facts can be stated without any assumption
about DES:

* a MAC-protected read is accepted iff the received MAC equals the MAC computed over exactly the received
  data with the session key (`macCheck_some_iff`);
* `authenticate` returns True iff the MAC the card sent over its ID block equals the MAC computed with the
  session key derived from the password and the challenge of THIS call (`authenticate_true_iff`), and then
  exactly that session is stored; on failure nothing of this call is stored (`authenticate_false`);
* `protect(p)` sends the key derived from `p` to the key block for EVERY byte string `p`, the empty one
  included (`liteProtect_writes_key`), never without a password (`liteProtect_none_no_key`), and locks the
  system blocks last (`liteProtect_locks`).

A command "is issued" is expressed through the only observation a pure function offers: when the command
fails, the method fails with that exception.

Integers of the regenerated definitions are `Int`; block numbers and tokens stay `Int` here.
-/
namespace NfcVerif.SonyRef
open NfcVerif NfcVerif.Mac NfcVerif.Auth

/-! ## MAC-protected read -/

/-- behind `read_without_encryption` in `read_with_mac`: `data` is the block data that arrived (requested
blocks, then the MAC block), `mac d` what `generate_mac(d, sk, iv)` gives -/
def macCheck (mac : Bytes → Py Bytes) (data : Bytes) : Py (Option Bytes) :=
  mac (slice data 0 (-16)) >>= fun m =>
  if slice data (-16) (-8) ≠ m then .ok none else .ok (some (slice data 0 (-16)))

/-- accepted iff the received MAC field equals the MAC computed over exactly the received data -/
theorem macCheck_some_iff (mac : Bytes → Py Bytes) (data d : Bytes) :
    macCheck mac data = .ok (some d) ↔ d = slice data 0 (-16) ∧ mac d = .ok (slice data (-16) (-8)) := by
  unfold macCheck
  constructor
  · intro h
    cases hm : mac (slice data 0 (-16)) with
    | error e => rw [hm] at h; cases h
    | ok m =>
      rw [hm] at h
      simp only [Py.bind_ok] at h
      by_cases hc : slice data (-16) (-8) ≠ m
      · simp [hc] at h
      · simp only [hc, if_false] at h
        have hd : slice data 0 (-16) = d := by cases h; rfl
        have hm' : slice data (-16) (-8) = m := by
          by_cases he : slice data (-16) (-8) = m
          · exact he
          · exact absurd he hc
        subst hd
        exact ⟨rfl, by rw [hm, hm']⟩
  · rintro ⟨hd, hm⟩
    subst hd
    rw [hm]
    simp

/-- a MAC that differs, or a MAC function that fails, never yields data -/
theorem macCheck_none (mac : Bytes → Py Bytes) (data m : Bytes) (hm : mac (slice data 0 (-16)) = .ok m)
    (hne : slice data (-16) (-8) ≠ m) : macCheck mac data = .ok none := by
  unfold macCheck; rw [hm]; simp [hne]

/-- `read_with_mac` refuses to run without a session -/
def sessionGuard (sk iv : Option Bytes) : Py (Option Int) :=
  if sk = none ∨ iv = none then .error .runtime else .ok none

/-! ## `FelicaLite._authenticate` -/

/-- outcome of one `_authenticate(password)` call: (_authenticated, _sk, _iv, read_from_ndef_service);
`sk0`, `iv0`, `rfs0` are the attribute values left by the reset in front of the first command, `macRd` the
token of `read_with_mac` -/
def authenticate (pw rc : Bytes) (macRd : Int) (sk0 iv0 : Option Bytes) (rfs0 : Int)
    (sk : Bytes) (gm : Bytes → Bytes → Bytes → Py Bytes) (rd : Int → Int → Py Bytes) (wr : Bytes → Int → Py Int) : Py (Bool × Option Bytes × Option Bytes × Int) :=
  liteKey pw >>= fun _ =>
  wr (revHalves rc) 128 >>= fun _ =>
  rd 130 129 >>= fun data =>
  gm (slice data 0 (-16)) sk (slice rc 0 8) >>= fun m =>
  if slice data (-16) (-8) = m then .ok (true, some sk, some (slice rc 0 8), macRd)
  else .ok (false, sk0, iv0, rfs0)

/-- True iff the card's MAC over its ID block equals the MAC under the session key of THIS call's
challenge; exactly that session is stored -/
theorem authenticate_true_iff (pw rc : Bytes) (macRd : Int) (sk0 iv0 : Option Bytes) (rfs0 : Int)
    (sk : Bytes) (gm : Bytes → Bytes → Bytes → Py Bytes) (rd : Int → Int → Py Bytes) (wr : Bytes → Int → Py Int) (s i : Option Bytes) (r : Int) :
    authenticate pw rc macRd sk0 iv0 rfs0 sk gm rd wr = .ok (true, s, i, r) ↔
      ∃ key w data, liteKey pw = .ok key ∧ wr (revHalves rc) 128 = .ok w ∧ rd 130 129 = .ok data
        ∧ gm (slice data 0 (-16)) sk (slice rc 0 8) = .ok (slice data (-16) (-8))
        ∧ s = some sk ∧ i = some (slice rc 0 8) ∧ r = macRd := by
  unfold authenticate
  constructor
  · intro h
    cases hk : liteKey pw with
    | error e => rw [hk] at h; cases h
    | ok key =>
    cases hw : wr (revHalves rc) 128 with
    | error e => rw [hk, hw] at h; cases h
    | ok w =>
    cases hr : rd 130 129 with
    | error e => rw [hk, hw, hr] at h; cases h
    | ok data =>
    cases hg : gm (slice data 0 (-16)) sk (slice rc 0 8) with
    | error e => rw [hk, hw, hr] at h; simp only [Py.bind_ok] at h; rw [hg] at h; cases h
    | ok m =>
      rw [hk, hw, hr] at h
      simp only [Py.bind_ok] at h
      rw [hg] at h
      simp only [Py.bind_ok] at h
      by_cases hc : slice data (-16) (-8) = m
      · simp only [hc, if_true] at h
        cases h
        exact ⟨key, w, data, rfl, rfl, rfl, by rw [hg, hc], rfl, rfl, rfl⟩
      · simp only [hc, if_false] at h
        cases h
  · rintro ⟨key, w, data, hk, hw, hr, hg, hs, hi, hr'⟩
    subst hs hi hr'
    rw [hk, hw, hr]
    simp only [Py.bind_ok]
    rw [hg]
    simp

/-- a call that returns False stores nothing of its own: the attributes are what the reset left -/
theorem authenticate_false (pw rc : Bytes) (macRd : Int) (sk0 iv0 : Option Bytes) (rfs0 : Int)
    (sk : Bytes) (gm : Bytes → Bytes → Bytes → Py Bytes) (rd : Int → Int → Py Bytes) (wr : Bytes → Int → Py Int) (s i : Option Bytes) (r : Int)
    (h : authenticate pw rc macRd sk0 iv0 rfs0 sk gm rd wr = .ok (false, s, i, r)) : s = sk0 ∧ i = iv0 ∧ r = rfs0 := by
  unfold authenticate at h
  cases hk : liteKey pw with
  | error e => rw [hk] at h; cases h
  | ok key =>
  cases hw : wr (revHalves rc) 128 with
  | error e => rw [hk, hw] at h; cases h
  | ok w =>
  cases hr : rd 130 129 with
  | error e => rw [hk, hw, hr] at h; cases h
  | ok data =>
  cases hg : gm (slice data 0 (-16)) sk (slice rc 0 8) with
  | error e => rw [hk, hw, hr] at h; simp only [Py.bind_ok] at h; rw [hg] at h; cases h
  | ok m =>
    rw [hk, hw, hr] at h
    simp only [Py.bind_ok] at h
    rw [hg] at h
    simp only [Py.bind_ok] at h
    by_cases hc : slice data (-16) (-8) = m
    · simp only [hc, if_true] at h; cases h
    · simp only [hc, if_false] at h; cases h; exact ⟨rfl, rfl, rfl⟩

/-- the challenge is written before anything else happens on the air: a failing write is the outcome -/
theorem authenticate_challenge_first (pw rc key : Bytes) (macRd : Int) (sk0 iv0 : Option Bytes) (rfs0 : Int)
    (sk : Bytes) (gm : Bytes → Bytes → Bytes → Py Bytes) (rd : Int → Int → Py Bytes) (wr : Bytes → Int → Py Int) (e : Exc) (hk : liteKey pw = .ok key) (hw : wr (revHalves rc) 128 = .error e) :
    authenticate pw rc macRd sk0 iv0 rfs0 sk gm rd wr = .error e := by
  unfold authenticate; rw [hk, hw]; rfl

/-! ## `FelicaLite._protect` -/

/-- `protect_from == 0 and self.ndef is not None`: the NDEF attribute block is read, RWFlag set to 00, the
checksum renewed, and written back -/
def attrReadOnly (pf : Int) (ndef : Option Bytes) (rd : Int → Py Bytes) (wr : Bytes → Int → Py Int) : Py Unit :=
  if pf = 0 ∧ ndef ≠ none then
    rd 0 >>= fun a =>
    PyFn.setB a 10 0 >>= fun a1 =>
    PyFn.pack [.Hbe] [PyFn.sum (PyFn.ints (slice a1 0 14))] >>= fun ck =>
    wr (PyFn.setSlice a1 14 16 ck) 0 >>= fun _ => .ok ()
  else .ok ()

/-- the common end of `_protect`: permission word, NDEF attribute block, lock of the system blocks -/
def liteProtectTail (pf : Int) (ndef : Option Bytes) (mc : Bytes) (rd : Int → Py Bytes) (wr : Bytes → Int → Py Int) : Py Bool :=
  (if pf < 14 then
     PyFn.pack [.Hle] [PyFn.bxor 32767 (PyFn.pow 2 14 - PyFn.pow 2 pf)] >>= fun w => .ok (PyFn.setSlice mc 0 2 w)
   else .ok mc) >>= fun mc1 =>
  attrReadOnly pf ndef rd wr >>= fun _ =>
  PyFn.setB mc1 2 0 >>= fun mc2 =>
  wr mc2 136 >>= fun _ => .ok true

/-- the end of `FelicaLiteS._protect` behind the write protection masks: system blocks locked, CK / CKV writeable with MAC -/
def litesProtectTail (pf : Int) (ndef : Option Bytes) (mc : Bytes) (rd : Int → Py Bytes) (wr : Bytes → Int → Py Int) : Py Bool :=
  attrReadOnly pf ndef rd wr >>= fun _ =>
  PyFn.setB mc 2 0 >>= fun mc1 =>
  PyFn.setB mc1 5 1 >>= fun mc2 =>
  wr mc2 136 >>= fun _ => .ok true

/-- `FelicaLite._protect(password, read_protect, protect_from)` behind the password length check -/
def liteProtect (pw : Option Bytes) (rp : Bool) (pf : Int) (ndef : Option Bytes) (rd : Int → Py Bytes)
    (wr : Bytes → Int → Py Int) : Py Bool :=
  if pf < 0 then .error .value else
  if rp then .ok false else
  rd 136 >>= fun mc =>
  match pw with
  | none => liteProtectTail pf ndef mc rd wr
  | some p =>
    PyFn.getB mc 2 >>= fun m2 =>
    if m2 ≠ 255 then .ok false else
    wr (revHalves (AuthHist.keyOf p)) 135 >>= fun _ =>
    liteProtectTail pf ndef mc rd wr

/-- EVERY byte string given as password - the empty one included - makes `protect` send the card key
derived from it (`keyOf`: factory key for the empty password) to the key block 0x87 of a card whose system
blocks are writeable: when that write fails, `protect` fails with it -/
theorem liteProtect_writes_key (p : Bytes) (pf : Int) (ndef : Option Bytes) (rd : Int → Py Bytes)
    (wr : Bytes → Int → Py Int) (mc : Bytes) (e : Exc) (hpf : 0 ≤ pf) (hmc : rd 136 = .ok mc)
    (h2 : PyFn.getB mc 2 = .ok 255) (hw : wr (revHalves (AuthHist.keyOf p)) 135 = .error e) :
    liteProtect (some p) false pf ndef rd wr = .error e := by
  unfold liteProtect
  have : ¬ pf < 0 := by omega
  simp only [this, if_false, hmc, Py.bind_ok, h2, hw]
  rfl

/-- the empty password provisions the factory key of sixteen zero octets -/
theorem liteProtect_empty_password (pf : Int) (ndef : Option Bytes) (rd : Int → Py Bytes)
    (wr : Bytes → Int → Py Int) (mc : Bytes) (e : Exc) (hpf : 0 ≤ pf) (hmc : rd 136 = .ok mc)
    (h2 : PyFn.getB mc 2 = .ok 255) (hw : wr (List.replicate 16 0) 135 = .error e) :
    liteProtect (some []) false pf ndef rd wr = .error e :=
  liteProtect_writes_key [] pf ndef rd wr mc e hpf hmc h2 (by simpa [AuthHist.keyOf, revHalves, zeros] using hw)

/-- without a password the key block is not written: the outcome does not depend on what a write to
block 0x87 would do -/
theorem liteProtect_none_no_key (rp : Bool) (pf : Int) (ndef : Option Bytes) (rd : Int → Py Bytes)
    (wr wr' : Bytes → Int → Py Int) (h : ∀ d b, b ≠ 135 → wr d b = wr' d b) :
    liteProtect none rp pf ndef rd wr = liteProtect none rp pf ndef rd wr' := by
  unfold liteProtect liteProtectTail attrReadOnly
  simp only [h _ 136 (by decide), h _ 0 (by decide)]

/-- the last command locks the system blocks: `True` is returned only after the MC block, with octet 2 set
to 00, was written to block 0x88 and that write succeeded -/
theorem liteProtectTail_locks (pf : Int) (ndef : Option Bytes) (mc : Bytes) (rd : Int → Py Bytes)
    (wr : Bytes → Int → Py Int) (h : liteProtectTail pf ndef mc rd wr = .ok true) :
    ∃ mc1 mc2 w, PyFn.setB mc1 2 0 = .ok mc2 ∧ wr mc2 136 = .ok w := by
  unfold liteProtectTail at h
  generalize hA : (if pf < 14 then
     PyFn.pack [.Hle] [PyFn.bxor 32767 (PyFn.pow 2 14 - PyFn.pow 2 pf)] >>= fun w => Except.ok (PyFn.setSlice mc 0 2 w)
   else Except.ok mc) = A at h
  cases A with
  | error e => cases h
  | ok mc1 =>
    simp only [Py.bind_ok] at h
    generalize hB : attrReadOnly pf ndef rd wr = B at h
    cases B with
    | error e => cases h
    | ok u =>
      simp only [Py.bind_ok] at h
      cases hs : PyFn.setB mc1 2 0 with
      | error e => rw [hs] at h; cases h
      | ok mc2 =>
        rw [hs] at h
        simp only [Py.bind_ok] at h
        cases hw : wr mc2 136 with
        | error e => rw [hw] at h; cases h
        | ok w => exact ⟨mc1, mc2, w, hs, hw⟩

/-! ## `FelicaLiteS._protect`: the key change; `FelicaLite._format`: the NDEF compatibility flag -/

/-- the key change once it is allowed: card key version incremented (saturating), key block written, mutual
authentication with the NEW key, read protection mask; `.bool false` = the method returned False -/
def litesKeyChange (p : Bytes) (rp : Bool) (pf : Int) (mc : Bytes) (auth : Bytes → Py Bool) (rd : Int → Py Bytes)
    (wr : Bytes → Int → Py Int) : Py PyFn.Val :=
  rd 134 >>= fun ckv =>
  PyFn.needExact (slice ckv 0 2) 2 >>= fun _ =>
  PyFn.pack [.Hle] [PyFn.imin (PyFn.ule (slice ckv 0 2) 0 2 + 1) 65535] >>= fun v =>
  wr (v ++ PyFn.repeatL [0] 14) 134 >>= fun _ =>
  wr (revHalves (AuthHist.keyOf p)) 135 >>= fun _ =>
  auth (AuthHist.keyOf p) >>= fun ok =>
  if ¬ (ok = true) then .ok (.bool false) else
  (if rp = true ∧ pf < 14 then
     PyFn.pack [.Hle] [PyFn.pow 2 14 - PyFn.pow 2 pf] >>= fun m => .ok (PyFn.setSlice mc 6 8 m)
   else .ok mc) >>= fun mc2 =>
  .ok (.bytes mc2)

/-- body of `if password is not None:`: with locked system blocks the key can only be changed when MC octet 5 bit 0
allows it and the tag object is authenticated -/
def litesProtectKey (p : Bytes) (rp : Bool) (pf : Int) (mc : Bytes) (authed : Bool) (auth : Bytes → Py Bool)
    (rd : Int → Py Bytes) (wr : Bytes → Int → Py Int) : Py PyFn.Val :=
  PyFn.getB mc 2 >>= fun m2 =>
  if m2 ≠ 255 then
    PyFn.getB mc 5 >>= fun m5 =>
    if PyFn.band m5 1 = 0 then .ok (.bool false) else
    if authed = false then .ok (.bool false) else
    litesKeyChange p rp pf mc auth rd wr
  else litesKeyChange p rp pf mc auth rd wr

/-- every byte string - the empty one included - is turned into a key that is written to block 0x87 -/
theorem litesKeyChange_writes_key (p : Bytes) (rp : Bool) (pf : Int) (mc : Bytes) (auth : Bytes → Py Bool)
    (rd : Int → Py Bytes) (wr : Bytes → Int → Py Int) (ckv v : Bytes) (x : Int) (e : Exc)
    (h1 : rd 134 = .ok ckv) (h2 : PyFn.needExact (slice ckv 0 2) 2 = .ok ())
    (h3 : PyFn.pack [.Hle] [PyFn.imin (PyFn.ule (slice ckv 0 2) 0 2 + 1) 65535] = .ok v)
    (h4 : wr (v ++ PyFn.repeatL [0] 14) 134 = .ok x) (hw : wr (revHalves (AuthHist.keyOf p)) 135 = .error e) :
    litesKeyChange p rp pf mc auth rd wr = .error e := by
  unfold litesKeyChange
  rw [h1]; simp only [Py.bind_ok]
  rw [h2]; simp only [Py.bind_ok]
  rw [h3]; simp only [Py.bind_ok]
  rw [h4]; simp only [Py.bind_ok]
  rw [hw]; rfl

/-- `FelicaLite._format`: a card without the NDEF flag gets it only while the MC block is still writeable
(`.bool false` = the method returned False, else the MC block as it is on the card afterwards) -/
def formatCompat (mc : Bytes) (wr : Bytes → Int → Py Int) : Py PyFn.Val :=
  PyFn.getB mc 3 >>= fun m3 =>
  if ¬ (PyFn.band m3 1 ≠ 0) then
    PyFn.getB mc 2 >>= fun m2 =>
    if m2 = 255 then PyFn.setB mc 3 (PyFn.bor m3 1) >>= fun mc1 => wr mc1 136 >>= fun _ => .ok (.bytes mc1)
    else .ok (.bool false)
  else .ok (.bytes mc)

/-! ## `FelicaLiteS.authenticate`: the external half -/

/-- after the internal authentication: (_authenticated, read accessor, write accessor) - the MAC'ed
accessors are installed only when the state block, read with MAC, shows EXT_AUTH = 01 -/
def extAuth (plainRd plainWr macRd macWr : Int) (rm : Int → Py (Option Bytes)) (wm : Bytes → Int → Py Int) :
    Py (Bool × Int × Int) :=
  wm ([1] ++ List.replicate 15 0) 146 >>= fun _ =>
  rm 146 >>= fun st =>
  match st with
  | none => .ok (false, plainRd, plainWr)
  | some s =>
    PyFn.getB s 0 >>= fun b =>
    if b = 1 then .ok (true, macRd, macWr) else .ok (false, plainRd, plainWr)

/-! ## `FelicaLiteS.NDEF._read_attribute_data` -/

/-- (attributes, _writeable): the override only ever changes `_writeable`, and only when the tag object is
authenticated and attribute data was read -/
def litesAttr (authenticated writeable : Bool) (a : Option Int) (rd : Int → Py Bytes) : Py (Option Int × Bool) :=
  if a ≠ none ∧ authenticated = true then
    rd 136 >>= fun mc =>
    if (slice mc 0 2).length ≠ 2 then .error .struct else
    .ok (a, decide (PyFn.band (PyFn.ule (slice mc 0 2) 0 2) 1023 = 1023))
  else .ok (a, writeable)

/-- not authenticated: nothing is read and the writeable flag of the generic Type 3 code stands -/
theorem litesAttr_unauthenticated (writeable : Bool) (rd : Int → Py Bytes) (a : Option Int) :
    litesAttr false writeable a rd = .ok (a, writeable) := by
  unfold litesAttr; simp

/-! ## FelicaStandard: response length checks; `activate` -/

/-- the response length tests (true = `DATA_SIZE_ERROR`): `request_response` exactly one octet; `request_service` one count
octet and two octets per requested service; `request_system_code` the count octet says how many two-octet codes follow -/
def requestResponseBad (data : Bytes) : Bool := decide (data.length ≠ 1)

def requestServiceBad (data : Bytes) (n : Int) : Bool := decide ((data.length : Int) ≠ 1 + n * 2)

def requestSystemCodeBad (data : Bytes) : Py Bool :=
  match data with
  | [] => .error .index
  | c :: rest => .ok (decide (rest.length ≠ c * 2))

/-- class selection by IC code (SENSF_RES octet 10): first match in the order Lite, Lite-S, Standard, Mobile, Plug -/
def activate (ic : Int) (k0 k1 k2 k3 k4 : List Int) (t0 t1 t2 t3 t4 : Int) : Option Int :=
  if ic ∈ k0 then some t0 else if ic ∈ k1 then some t1 else if ic ∈ k2 then some t2
  else if ic ∈ k3 then some t3 else if ic ∈ k4 then some t4 else none

end NfcVerif.SonyRef
