import NfcVerif.Model.Collect
/-!
# Histories of socket operations that fill the send queues (property C10)

The operations through which an application and the peer fill the queues that `collect()` empties:
* `llc.sendto(socket, message, dest, MSG_DONTWAIT)` on a logical data link socket
  (`LogicalLinkController.sendto` + `LogicalDataLink.sendto`: EMSGSIZE against the Link MIU),
* `llc.send(socket, message, MSG_DONTWAIT)` on a data link connection socket
  (`DataLinkConnection.send`: ENOTCONN / EPIPE, EMSGSIZE against the connection MIU, EWOULDBLOCK),
* `llc.connect(socket, dest)` answered by a CC PDU and `llc.accept(socket)` of a CONNECT PDU
  (`DataLinkConnection.connect` / `accept`, the connection MIU clamped to the Link MIU),
* service discovery requests and answers, DM PDUs placed by `dispatch()`,
* anything the receive side does to a data link connection (`setRecv` / `setSend`: the receive and send
  state variables take arbitrary new values - incoming I / RR / RNR PDUs, `recv()`, `SO_RCVBSY`),
* `collect()`.

Sockets are addressed by the position `a` of their service access point in the table and their
position `j` in its `sock_list`.
-/
namespace NfcVerif.Collect

inductive Op
  | sendto (a j n id : Nat)
  | send (a j n id : Nat)
  /-- `connect()` on a CLOSED socket: CONNECT PDU (`cLen` octets) queued, CC with MIU `peerMiu`, RW `sendWin` -/
  | connected (a j peerMiu sendWin cLen cId : Nat)
  /-- `accept()` on a LISTEN socket holding a CONNECT with MIU `peerMiu`, RW `sendWin`: CC PDU queued at the
  listening socket, new ESTABLISHED socket inserted in front -/
  | accepted (a j peerMiu sendWin ccLen ccId : Nat)
  | setRecv (a j rw cnt ack confs : Nat) (busy : Bool)
  | setSend (a j sendWin sendCnt sendAck : Nat)
  /-- `llc.bind(llc.socket(LOGICAL_DATA_LINK))`: a new service access point at table position `a` -/
  | bindLdl (a : Nat)
  /-- `llc.bind(llc.socket(DATA_LINK_CONNECTION))` with receive window `rw` (`SO_RCVBUF`) -/
  | bindDlc (a rw : Nat)
  /-- `llc.listen(socket, backlog)` -/
  | listen (a j : Nat)
  | sdres (a v : Nat)
  | sdreq (a tid nl : Nat)
  | sddm (a id : Nat)
  | dm (a id : Nat)
  | collect
  deriving Repr

inductive Outcome
  | ok
  | exc (e : Exc)
  | frame (f : Option Frame)
  | bad            -- the operation does not apply to the addressed object (never sent by the harness)
  deriving Repr

def getSock (es : List Ent) (a j : Nat) : Option Sock :=
  match es[a]? with
  | some (.sap s) => s.socks[j]?
  | _ => none

def setSock (es : List Ent) (a j : Nat) (k : Sock) : List Ent :=
  match es[a]? with
  | some (.sap s) => es.set a (.sap { s with socks := s.socks.set j k })
  | _ => es

/-- `send_window_slots`: (RW(R) - V(S) + V(SA)) mod 16 -/
def sendSlots (d : Dlc) : Nat := (d.sendWin + 16 - d.sendCnt % 16 + d.sendAck) % 16

def uiPdu (n id lim : Nat) : QPdu := ⟨.ui, 2, 2 + n, id, 0, lim⟩
def iPdu (n id lim : Nat) : QPdu := ⟨.i, 3, 3 + n, id, 0, lim⟩
def dmPdu (id : Nat) : QPdu := ⟨.dm, 2, 3, id, 0, 0⟩

/-- `DataLinkConnection(recv_miu, recv_win)`: CLOSED, send MIU 128 -/
def newDlc (rw : Nat) : Dlc :=
  { state := .closed, busy := false, busySent := false, rw := rw, cnt := 0, ack := 0, confs := 0,
    sendMiu := 128, sendWin := 0, sendCnt := 0, sendAck := 0 }

/-- a new entry of `llc.sap` at position `a` of the table -/
def insertAt (es : List Ent) (a : Nat) (e : Ent) : List Ent := es.take a ++ e :: es.drop a

/-- the socket `accept()` returns -/
def acceptedDlc (listener : Dlc) (peerMiu sendWin linkMiu : Nat) : Dlc :=
  { state := .established, busy := false, busySent := false, rw := listener.rw, cnt := 0, ack := 0, confs := 0,
    sendMiu := clampSendMiu peerMiu linkMiu, sendWin := sendWin, sendCnt := 0, sendAck := 0 }

def step (M : Nat) (sec : Option Nat) (agf : Bool) (es : List Ent) : Op → List Ent × Outcome
  | .sendto a j n id =>
    match getSock es a j with
    | some (.ldl _ q) =>
      -- llc.sendto: `socket.send_miu = self.cfg['send-miu']`, then LogicalDataLink.sendto
      if n > M then (setSock es a j (.ldl M q), .exc (.llcp 90))
      else (setSock es a j (.ldl M (q ++ [uiPdu n id M])), .ok)
    | _ => (es, .bad)
  | .send a j n id =>
    match getSock es a j with
    | some (.dlc d q) =>
      if d.state ≠ .established then (es, .exc (.llcp (if d.state = .closeWait then 32 else 107)))
      else if n > d.sendMiu then (es, .exc (.llcp 90))
      else if sendSlots d = 0 then (es, .exc (.llcp 11))
      else (setSock es a j (.dlc { d with sendCnt := (d.sendCnt + 1) % 16 } (q ++ [iPdu n id d.sendMiu])), .ok)
    | _ => (es, .bad)
  | .connected a j peerMiu sendWin cLen cId =>
    match getSock es a j with
    | some (.dlc d q) =>
      if d.state = .closed then
        (setSock es a j (.dlc { d with state := .established, sendMiu := clampSendMiu peerMiu M, sendWin := sendWin }
                          (q ++ [⟨.connect, 2, cLen, cId, 0, 0⟩])), .ok)
      else if d.state = .established then (es, .exc (.llcp 106))
      else if d.state = .connect then (es, .exc (.llcp 114))
      else (es, .exc (.llcp 32))
    | _ => (es, .bad)
  | .accepted a j peerMiu sendWin ccLen ccId =>
    match es[a]? with
    | some (.sap s) =>
      match s.socks[j]? with
      | some (.dlc d q) =>
        if d.state = .shutdown then (es, .exc (.llcp 108))
        else if d.state ≠ .listen then (es, .exc (.llcp 22))
        else
          (es.set a (.sap { s with socks := .dlc (acceptedDlc d peerMiu sendWin M) [] ::
                                            s.socks.set j (.dlc d (q ++ [⟨.cc, 2, ccLen, ccId, 0, 0⟩])) }), .ok)
      | _ => (es, .bad)
    | _ => (es, .bad)
  | .setRecv a j rw cnt ack confs busy =>
    match getSock es a j with
    | some (.dlc d q) =>
      (setSock es a j (.dlc { d with rw := rw, cnt := cnt, ack := ack, confs := confs, busy := busy } q), .ok)
    | _ => (es, .bad)
  | .setSend a j sendWin sendCnt sendAck =>
    match getSock es a j with
    | some (.dlc d q) =>
      (setSock es a j (.dlc { d with sendWin := sendWin, sendCnt := sendCnt, sendAck := sendAck } q), .ok)
    | _ => (es, .bad)
  | .bindLdl a => (insertAt es a (.sap ⟨[.ldl 128 []], []⟩), .ok)
  | .bindDlc a rw => (insertAt es a (.sap ⟨[.dlc (newDlc rw) []], []⟩), .ok)
  | .listen a j =>
    match getSock es a j with
    | some (.dlc d q) =>
      if d.state = .shutdown then (es, .exc (.llcp 108))
      else if d.state ≠ .closed then (es, .exc (.llcp 95))
      else (setSock es a j (.dlc { d with state := .listen } q), .ok)
    | _ => (es, .bad)
  | .sdres a v =>
    match es[a]? with
    | some (.sd s) => (es.set a (.sd { s with sdres := s.sdres ++ [v] }), .ok)
    | _ => (es, .bad)
  | .sdreq a tid nl =>
    match es[a]? with
    | some (.sd s) => (es.set a (.sd { s with sdreq := s.sdreq ++ [(tid, nl)] }), .ok)
    | _ => (es, .bad)
  | .sddm a id =>
    match es[a]? with
    | some (.sd s) => (es.set a (.sd { s with dmpdu := s.dmpdu ++ [dmPdu id] }), .ok)
    | _ => (es, .bad)
  | .dm a id =>
    match es[a]? with
    | some (.sap s) => (es.set a (.sap { s with sendList := s.sendList ++ [dmPdu id] }), .ok)
    | _ => (es, .bad)
  | .collect => let r := collect es M sec agf; (r.2, .frame r.1)

/-- a history: the outcomes of the operations and the final state -/
def run (M : Nat) (sec : Option Nat) (agf : Bool) : List Op → List Ent → List Outcome × List Ent
  | [], es => ([], es)
  | op :: ops, es =>
    let r := step M sec agf es op
    let r' := run M sec agf ops r.1
    (r.2 :: r'.1, r'.2)

/-- the frames a history transmitted -/
def frames : List Outcome → List Frame
  | [] => []
  | .frame (some f) :: rest => f :: frames rest
  | _ :: rest => frames rest

end NfcVerif.Collect
