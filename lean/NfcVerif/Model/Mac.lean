import NfcVerif.Py
/-!
# FeliCa Lite message authentication code over an abstract block cipher

Transcription of `FelicaLite.generate_mac` (tt3_sony.py:480-496) and of the
pyDes CBC loop it calls.  `C key block` is the block cipher (two-key triple
DES in the code; `Des.tdesBytes` in the driver), kept abstract so that the
theorems hold for every cipher that is injective on 8-byte blocks.
-/
namespace NfcVerif.Mac

/-- `C key16 block8 = block8'` -/
abbrev Cipher := Bytes → Bytes → Bytes

/-- an 8-octet block -/
def Block (b : Bytes) : Prop := b.length = 8 ∧ IsBytes b

instance (b : Bytes) : Decidable (Block b) := by unfold Block; infer_instance

def xorB (a b : Bytes) : Bytes := List.zipWith (· ^^^ ·) a b

def chunksAux : Nat → Bytes → List Bytes
  | 0, _ => []
  | n + 1, d => d.take 8 :: chunksAux n (d.drop 8)

/-- `zip(*[iter(data)]*8)`: the complete 8-byte groups of `data`, in order -/
def chunks8 (d : Bytes) : List Bytes := chunksAux (d.length / 8) d

/-- pyDes CBC encryption, all ciphertext blocks: `c_i = E(p_i xor c_(i-1))`, `c_0 = iv` -/
def cbcAll (E : Bytes → Bytes) : Bytes → List Bytes → List Bytes
  | _, [] => []
  | iv, b :: rest => let c := E (xorB b iv); c :: cbcAll E c rest

/-- last ciphertext block of the CBC chain (`iv` when there is no block) -/
def cbcLast (E : Bytes → Bytes) : Bytes → List Bytes → Bytes
  | iv, [] => iv
  | iv, b :: rest => cbcLast E (E (xorB b iv)) rest

/-- MAC of a list of 8-byte groups: each group byte-reversed, CBC chained from `iv`,
the last ciphertext block byte-reversed; `encrypt(b"")[:-9:-1]` is empty -/
def macBlocks (C : Cipher) (key iv : Bytes) (groups : List Bytes) : Bytes :=
  if groups = [] then [] else (cbcLast (C key) iv (groups.map List.reverse)).reverse

/-- `FelicaLite.generate_mac(data, key, iv, flip_key)` -/
def generateMac (C : Cipher) (data key iv : Bytes) (flip : Bool) : Py Bytes :=
  if data.length % 8 ≠ 0 ∨ key.length ≠ 16 ∨ iv.length ≠ 8 then .error .assertion else
  let key := if flip then key.drop 8 ++ key.take 8 else key
  .ok (macBlocks C key iv (chunks8 data))

/-- `triple_des(key, CBC, b"\0"*8).encrypt(rc)`; pyDes refuses data that is not a multiple of 8 -/
def sessionKey (C : Cipher) (key rc : Bytes) : Py Bytes :=
  if rc.length % 8 ≠ 0 then .error .value else
  .ok (cbcAll (C key) (List.replicate 8 0) (chunks8 rc)).flatten

end NfcVerif.Mac
