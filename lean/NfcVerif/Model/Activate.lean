import NfcVerif.Py
/-!
# Peer-to-peer link activation (property C19)

Executable model of what the two devices of a peer-to-peer link hold after activation:

* `nfc/llcp/llc.py`  `LogicalLinkController.__init__/activate`: building the PAX parameter
  TLVs that travel as ATR general bytes (`Ffm` magic + VERSION, MIUX, WKS, LTO, OPT), decoding
  the peer's general bytes (`pdu.ParameterExchange.decode`, `pdu.Parameter.decode`) and the
  take-over into `cfg['send-miu'] / ['recv-lto'] / ['send-wks'] / ['send-lsc'] / ['rcvd-ver'] /
  ['llcp-dpc']`;
* `nfc/dep.py` `Initiator.activate` / `Target.activate`: option clamping (`brs, lri, lrt, rwt`),
  target search order, ATR_REQ / ATR_RES / PSL_REQ / PSL_RES bytes, `miu`, `rwt`, `did`, bit rate;
* the environment (chipset driver + air) is a parameter: which technologies the listening
  device answers at, whether active mode discovery is available; the listening driver answers
  ATR_REQ with the prepared ATR_RES and follows the PSL_REQ bit rate (as `nfc/clf/udp.py`).

Python ints are `Int`; bytes are `Nat` lists.  What raises in Python raises here.
-/

namespace NfcVerif.Activate

/-- Python `min(max(lo, x), hi)` for `lo ≤ hi`, `0 ≤ lo` -/
def clampI (lo hi x : Int) : Nat := (min (max lo x) hi).toNat

/-- `ATR_REQ_RES.lr`: `(64, 128, 192, 254)[(pp >> 4) & 3]` -/
def lrTable (i : Nat) : Nat :=
  match i % 4 with
  | 0 => 64 | 1 => 128 | 2 => 192 | _ => 254

/-- PSL_REQ BRS byte `(0, 9, 18)[brs]` -/
def brsByte (brs : Nat) : Nat :=
  match brs with
  | 0 => 0 | 1 => 9 | _ => 18

/-! ## LLCP parameter exchange in the general bytes -/

/-- `pdu.ParameterExchange`: raw TLV values, `none` = TLV absent -/
structure Pax where
  version : Option Nat
  miux : Option Nat
  wks : Option Nat
  lto : Option Nat
  opt : Option Nat
  deriving DecidableEq, Repr

def Pax.empty : Pax := ⟨none, none, none, none, none⟩

/-- options of `LogicalLinkController(**options)` with the defaults filled in, plus the
service access points registered in `llc.snl` at activation time -/
structure LlcOpts where
  miu : Int
  lto : Int
  lsc : Int
  agf : Bool
  sec : Bool
  saps : List Nat
  deriving DecidableEq, Repr

/-- `wks = 1 + sum(1 << sap for sap in snl.values() if sap < 15)`, setter masks `& 0xFFFF` -/
def wksOf (saps : List Nat) : Nat :=
  (1 + ((saps.filter (· < 15)).map (fun s => 2 ^ s)).sum) % 65536

/-- `send_pax` as built by `llc.activate` -/
def sendPax (o : LlcOpts) : Pax :=
  let opt0 : Option Nat := if o.lsc ≠ 0 then some (o.lsc % 4).toNat else none
  let opt1 : Option Nat := if o.sec then some (((opt0.getD 0) &&& 0xFB) ||| 4) else opt0
  { version := some 0x13
    miux := if o.miu ≠ 128 then some (max (o.miu - 128) 0).toNat else none
    wks := some (wksOf o.saps)
    lto := if o.lto ≠ 100 then some ((o.lto.fdiv 10) % 256).toNat else none
    opt := opt1 }

/-- `struct.pack('BBB', T, 1, V)` inside `Parameter.encode` (struct.error -> EncodeError) -/
def tlv1 (t : Nat) : Option Nat → Py Bytes
  | none => .ok []
  | some v => if v > 255 then .error .encodeError else .ok [t, 1, v]

/-- `struct.pack('>BBH', T, 2, V)` -/
def tlv2 (t : Nat) : Option Nat → Py Bytes
  | none => .ok []
  | some v => if v > 65535 then .error .encodeError else .ok [t, 2, v / 256, v % 256]

/-- `pdu.encode(send_pax)[2:]` -/
def encodeTlvs (p : Pax) : Py Bytes :=
  tlv1 1 p.version >>= fun a =>
  tlv2 2 p.miux >>= fun b =>
  tlv2 3 p.wks >>= fun c =>
  tlv1 4 p.lto >>= fun d =>
  tlv1 7 p.opt >>= fun e =>
  .ok (a ++ b ++ c ++ d ++ e)

def magic : Bytes := [0x46, 0x66, 0x6D]

/-- `gb = b'Ffm' + pdu.encode(send_pax)[2:]` -/
def encodeGb (p : Pax) : Py Bytes :=
  encodeTlvs p >>= fun t => .ok (magic ++ t)

/-- effect of one TLV `(T, L, V)` on the PAX being decoded: `Parameter.decode` checks followed
by the assignment in `ParameterExchange.decode` -/
def paxTlv (p : Pax) (t l : Nat) (v : Bytes) : Py Pax :=
  if t = 1 then (if l ≠ 1 then .error .decodeError else .ok { p with version := some (beNat v) })
  else if t = 2 then (if l ≠ 2 then .error .decodeError else .ok { p with miux := some (beNat v % 2048) })
  else if t = 3 then (if l ≠ 2 then .error .decodeError else .ok { p with wks := some (beNat v) })
  else if t = 4 then (if l ≠ 1 then .error .decodeError else .ok { p with lto := some (beNat v) })
  else if t = 5 then (if l ≠ 1 then .error .decodeError else .ok p)
  else if t = 7 then (if l ≠ 1 then .error .decodeError else .ok { p with opt := some (beNat v % 8) })
  else if t = 8 then (if l = 0 then .error .decodeError else .ok p)
  else if t = 9 then (if l ≠ 2 then .error .decodeError else .ok p)
  else .ok p

/-- the `while size >= 2` loop of `ParameterExchange.decode` on the remaining octets;
every turn consumes at least two octets, `fuel` = number of octets is enough -/
def paxLoop : Nat → Bytes → Pax → Py Pax
  | 0, _, p => .ok p
  | fuel + 1, d, p =>
    match d with
    | t :: l :: rest =>
      if rest.length < l then .error .decodeError
      else paxTlv p t l (rest.take l) >>= fun p' => paxLoop fuel (rest.drop l) p'
    | _ => .ok p

/-- `pdu.decode(b"\x00\x40" + gb[3:])` -/
def decodeTlvs (d : Bytes) : Py Pax := paxLoop d.length d Pax.empty

/-- `gb and gb.startswith(b'Ffm') and len(gb) >= 6` -/
def gbAccepted (gb : Bytes) : Bool := gb.take 3 == magic && decide (gb.length ≥ 6)

/-- what one controller holds after `activate` -/
structure LlcHeld where
  recvMiu : Int          -- cfg['recv-miu'], the local option
  sendLto : Int          -- cfg['send-lto'], the local option
  agf : Bool
  sec : Bool
  ver : Nat × Nat        -- cfg['rcvd-ver']
  sendMiu : Nat          -- cfg['send-miu']
  recvLto : Nat          -- cfg['recv-lto'] in ms
  sendWks : Nat          -- cfg['send-wks']
  sendLsc : Nat          -- cfg['send-lsc'] (after activation: the peer's)
  dpc : Nat              -- cfg['llcp-dpc']
  deriving DecidableEq, Repr

/-- property getters of the received PAX and the assignments to `cfg` -/
def takeover (o : LlcOpts) (r : Pax) : LlcHeld :=
  { recvMiu := o.miu, sendLto := o.lto, agf := o.agf, sec := o.sec
    ver := match r.version with
      | none => (0, 0)
      | some v => if v = 0 then (0, 0) else (v / 16, v % 16)
    sendMiu := match r.miux with | none => 128 | some m => m + 128
    recvLto := (match r.lto with | none => 10 | some l => l) * 10
    sendWks := match r.wks with | none => 0 | some w => w
    sendLsc := match r.opt with | none => 0 | some x => x % 4
    dpc := if o.sec then (match r.opt with | none => 0 | some x => (x / 4) % 2) else 0 }

/-- second half of `llc.activate`: `none` (activate returns False, `cfg` untouched) when the general
bytes are not LLCP or when the peer's parameter list is malformed
(`except pdu.DecodeError: return False`); any other exception would propagate -/
def llcLink (o : LlcOpts) (gb : Bytes) : Py (Option LlcHeld) :=
  if gbAccepted gb then
    match decodeTlvs (gb.drop 3) with
    | .ok r => .ok (some (takeover o r))
    | .error e => if e = .decodeError then .ok none else .error e
  else .ok none

/-! ## NFC-DEP activation -/

structure DepOpts where
  brs : Int
  lri : Int
  lrt : Int
  rwt : Int
  acm : Bool
  did : Option Int
  nad : Option Int
  deriving DecidableEq, Repr

structure Side where
  dep : DepOpts
  llc : LlcOpts
  deriving DecidableEq, Repr

/-- the environment: technologies at which the listener answers passive discovery and whether
the polling driver supports active communication mode discovery -/
structure AirCfg where
  a106 : Bool
  f212 : Bool
  f424 : Bool
  active : Bool
  deriving DecidableEq, Repr

def AirCfg.has (a : AirCfg) (b : Nat) : Bool :=
  match b with
  | 0 => a.a106 | 1 => a.f212 | _ => a.f424

structure Found where
  brty : Nat          -- 0 = 106A, 1 = 212F, 2 = 424F
  activeMode : Bool   -- found by sense_dep: the ATR exchange is done by the driver
  fsearch : Bool      -- found by the Initiator's own 212F poll: NFCID3 taken from SENSF_RES
  deriving DecidableEq, Repr

/-- target search of `Initiator.activate`; returns the find and the final `_acm` flag.
`given` is a target the caller already discovered with `clf.sense` -/
def discover (air : AirCfg) (given : Option Nat) (acm : Bool) (brs : Nat) : Option Found × Bool :=
  match given with
  | some b => (if air.has b then some ⟨b, false, false⟩ else none, acm)
  | none =>
    if acm && air.active then (some ⟨0, true, false⟩, true)
    else
      if air.a106 then (some ⟨0, false, false⟩, false)
      else if brs > 0 && air.f212 then (some ⟨1, false, true⟩, false)
      else (none, false)

def boolBit (b : Bool) (v : Nat) : Nat := if b then v else 0

def optTruthy : Option Int → Bool
  | none => false
  | some v => v ≠ 0

/-- `ATR_REQ(nfcid3, did, 0, 0, ppi, gbi).encode()` -/
def atrReq (nfcid3 : Bytes) (did : Nat) (ppi : Nat) (gb : Bytes) : Bytes :=
  [0xD4, 0x00] ++ nfcid3 ++ [did, 0, 0, ppi] ++ gb

/-- `ATR_RES(nfcid3t, 0, 0, 0, rwt, pp, gbt).encode()` -/
def atrRes (nfcid3 : Bytes) (to pp : Nat) (gb : Bytes) : Bytes :=
  [0xD5, 0x01] ++ nfcid3 ++ [0, 0, 0, to, pp] ++ gb

structure AtrReqF where
  nfcid3 : Bytes
  did : Nat
  pp : Nat
  gb : Bytes
  deriving DecidableEq, Repr

structure AtrResF where
  nfcid3 : Bytes
  to : Nat
  pp : Nat
  gb : Bytes
  deriving DecidableEq, Repr

/-- `ATR_REQ.decode`: `None` (-> AttributeError at the first use) when the code is wrong,
ValueError when the fixed part is short -/
def decodeAtrReq (d : Bytes) : Py AtrReqF :=
  if d.take 2 ≠ [0xD4, 0x00] then .error .attr
  else match (d.drop 12).take 4 with
    | [did, _bs, _br, pp] =>
      .ok ⟨(d.drop 2).take 10, did, pp, if pp &&& 2 ≠ 0 then d.drop 16 else []⟩
    | _ => .error .value

/-- `ATR_RES.decode` -/
def decodeAtrRes (d : Bytes) : Py AtrResF :=
  if d.take 2 ≠ [0xD5, 0x01] then .error .attr
  else match (d.drop 12).take 5 with
    | [_did, _bs, _br, to, pp] =>
      .ok ⟨(d.drop 2).take 10, to, pp, if pp &&& 2 ≠ 0 then d.drop 17 else []⟩
    | _ => .error .value

/-- `PSL_REQ(did, (0, 9, 18)[brs], lri).encode()` -/
def pslReq (did brs lri : Nat) : Bytes := [0xD4, 0x04, did, brsByte brs, lri]
def pslRes (did : Nat) : Bytes := [0xD5, 0x05, did]

/-- bit rate the listening driver switches to after PSL_REQ (`DSI` of the BRS byte) -/
def pslBrty (psl : Bytes) : Nat :=
  match psl with
  | [_, _, _, b, _] => min ((b / 8) % 8) 2
  | _ => 0

structure IHeld where
  miu : Nat
  wt : Nat
  brty : Nat
  did : Option Int
  nad : Option Int
  acm : Bool
  brs : Nat
  lri : Nat
  deriving DecidableEq, Repr

structure THeld where
  miu : Nat
  wt : Nat
  brty : Nat
  did : Option Nat
  acm : Bool
  lrt : Nat
  deriving DecidableEq, Repr

structure Outcome where
  wire : List (Nat × Bytes)                       -- (bit rate index, NFC-DEP transport data)
  ini : Py (Option (IHeld × Option LlcHeld))
  tgt : Py (Option (THeld × Option LlcHeld))
  deriving DecidableEq, Repr

def st : Bytes := [0x53, 0x54]

/-- `nfcid3t = 01FE + os.urandom(6) + b"ST"` -/
def nfcid3tOf (rnd6 : Bytes) : Bytes := [0x01, 0xFE] ++ rnd6 ++ st

/-- the `assert`s of `Initiator.activate` -/
def didNadOk (d : DepOpts) : Bool :=
  (match d.did with | none => true | some v => decide (0 ≤ v ∧ v ≤ 255)) &&
  (match d.nad with | none => true | some v => decide (0 ≤ v ∧ v ≤ 255))

/-- second half of `Initiator.activate` (after the ATR_RES is known) followed by the second half
of `llc.activate` -/
def initiatorSide (I : Side) (acm : Bool) (brs lri brty : Nat) (atrResB : Bytes) :
    Py (Option (IHeld × Option LlcHeld)) :=
  decodeAtrRes atrResB >>= fun r =>
  let wt := r.to % 16
  let held : IHeld :=
    { miu := lrTable ((r.pp / 16) % 4) - 3 - boolBit I.dep.did.isSome 1 - boolBit I.dep.nad.isSome 1
      wt := if wt < 15 then wt else 14
      brty := brty, did := I.dep.did, nad := I.dep.nad, acm := acm, brs := brs, lri := lri }
  llcLink I.llc r.gb >>= fun l => .ok (some (held, l))

/-- second half of `Target.activate` (after `clf.listen` returned) followed by the second half
of `llc.activate` -/
def targetSide (T : Side) (rwt lrt brty : Nat) (activeMode : Bool) (atrReqB : Bytes) :
    Py (Option (THeld × Option LlcHeld)) :=
  decodeAtrReq atrReqB >>= fun q =>
  let held : THeld :=
    { miu := lrTable ((q.pp / 16) % 4) - 3 - boolBit (q.did > 0) 1
      wt := rwt, brty := brty
      did := if q.did > 0 then some q.did else none
      acm := activeMode, lrt := lrt }
  llcLink T.llc q.gb >>= fun l => .ok (some (held, l))

/-- the Initiator got a link: it will send the first DEP_REQ that completes the Target's activation -/
def linked : Py (Option (IHeld × Option LlcHeld)) → Bool
  | .ok (some (_, some _)) => true
  | _ => false

def ppiOf (lri : Nat) (gbi : Bytes) (nad : Option Int) : Nat :=
  lri * 16 + boolBit (!gbi.isEmpty) 2 + boolBit (optTruthy nad) 1

def pptOf (lrt : Nat) (gbt : Bytes) : Nat := lrt * 16 + boolBit (!gbt.isEmpty) 2

def didByte : Option Int → Nat
  | none => 0
  | some v => v.toNat

/-- the exchange once both general byte strings are built and a target was found -/
def handshake (I T : Side) (gbI gbT : Bytes) (f : Found) (acm : Bool) (nfcid3 rnd6 : Bytes) : Outcome :=
  -- Initiator.activate: options
  let gbi := gbI.take 48
  let brs := clampI 0 2 I.dep.brs
  let lri := clampI 0 3 I.dep.lri
  let ppi := ppiOf lri gbi I.dep.nad
  let didb := didByte I.dep.did
  -- Target.activate: options
  let gbt := gbT.take 47
  let lrt := clampI 0 3 T.dep.lrt
  let rwt := clampI 0 14 T.dep.rwt
  let nfcid3t := nfcid3tOf rnd6
  let atrResB := atrRes nfcid3t rwt (pptOf lrt gbt) gbt
  let id3 := if f.fsearch then nfcid3t.take 8 ++ st else nfcid3
  let atrReqB := atrReq id3 didb ppi gbi
  let psl := decide (brs > f.brty)
  let pslB := pslReq didb brs lri
  let w1 : List (Nat × Bytes) := [(f.brty, atrReqB), (f.brty, atrResB)]
  let w2 : List (Nat × Bytes) := if psl then [(f.brty, pslB), (f.brty, pslRes didb)] else []
  let ini := initiatorSide I acm brs lri (if psl then brs else f.brty) atrResB
  let tgt := if linked ini then targetSide T rwt lrt (if psl then pslBrty pslB else f.brty) f.activeMode atrReqB
             else .ok none
  ⟨w1 ++ w2, ini, tgt⟩

/-- both devices run `llc.activate(mac, **dep options)` against each other -/
def activate (air : AirCfg) (given : Option Nat) (I T : Side) (nfcid3 rnd6 : Bytes) : Outcome :=
  match encodeGb (sendPax I.llc), encodeGb (sendPax T.llc) with
  | .error e, .error e' => ⟨[], .error e, .error e'⟩
  | .error e, .ok _ => ⟨[], .error e, .ok none⟩
  | .ok _, .error e' =>
    if didNadOk I.dep then ⟨[], .ok none, .error e'⟩ else ⟨[], .error .assertion, .error e'⟩
  | .ok gbI, .ok gbT =>
    if ¬ didNadOk I.dep then ⟨[], .error .assertion, .ok none⟩ else
    match discover air given I.dep.acm (clampI 0 2 I.dep.brs) with
    | (none, _) => ⟨[], .ok none, .ok none⟩
    | (some f, acm) => handshake I T gbI gbT f acm nfcid3 rnd6

/-! ## Later traffic: size of an information frame -/

/-- transport data length of a DEP information PDU: `D4 06 | D5 07`, PFB, DID?, NAD?, payload -/
def infLen (did nad : Bool) (payload : Nat) : Nat := 3 + boolBit did 1 + boolBit nad 1 + payload

/-- payload of the first frame `exchange()` builds for `n` octets: `send_data[0:miu]` -/
def chunk (miu n : Nat) : Nat := min miu n

end NfcVerif.Activate
