import NfcVerif.Model.CtlC03
/-!
# C03: sequences of operations on ONE tag object (`Tag._ndef` cache)

`nfc/tag/__init__.py`: `Tag.ndef` creates an `NDEF` object on first access and keeps it in
`self._ndef`; the object holds the layout found by `_read_ndef_data` (`_ndef_tlv_offset`,
`_skip_bytes`, `_capacity`, flags) and its own memory reader image.  Later accesses return the cached
object WITHOUT reading the tag.  `Tag.format` / `Tag.protect` / `Tag.authenticate` set
`self._ndef = None` after a successful `_format` / `_protect` / `_authenticate`, so that the next
access reads the (possibly new) layout from the tag.

`Sess` is that state next to the tag memory; `step` is one application call.  `drop = true` is the
code as it is; `drop = false` is a `format()` / `protect()` that forgets to drop the cache (kept to
state what the invalidation is needed for - `format_keep_cache_counterexample`).

Classes: Type 2 (`_format` and `_protect` work on the cached NDEF object's memory image), Topaz and
Topaz-512 (`_format` uses a NEW memory reader and rewrites capability container and TLVs; `_protect`
sends WRITE-NE commands directly), generic Type 1 (no `_format`).
-/
namespace NfcVerif.Tlv

structure Sess where
  tag : Bytes
  /-- `Tag._ndef`: layout and memory image of the cached NDEF object -/
  ndef : Option (Layout × Bytes)
  deriving Repr, DecidableEq

inductive Op
  /-- `tag.ndef` (and `tag.ndef.octets`) -/
  | read
  /-- `tag.ndef.octets = data` -/
  | write (data : Bytes)
  /-- `tag.format(version, wipe)` -/
  | format (version wipe : Option Nat)
  /-- `tag.protect()` -/
  | protect
  deriving Repr, DecidableEq

inductive Klass
  | t2 | t1 | topaz | topaz512
  deriving Repr, DecidableEq

def Klass.cfg : Klass → Cfg
  | .t2 => t2Cfg
  | .t1 => t1Cfg 8
  | .topaz => t1Cfg 1
  | .topaz512 => t1Cfg 8

/-- `_read_ndef_data` of the class -/
def Klass.rdNdef (k : Klass) (m : Bytes) : Py (Option Layout) :=
  match k with
  | .t2 => readNdefT2 m
  | _ => readNdef k.cfg m

/-- `Tag.ndef`: the cached object, or a new one read from the tag (kept when NDEF was found) -/
def getNdef (k : Klass) (s : Sess) : Py (Option (Layout × Bytes)) × Sess :=
  match s.ndef with
  | some o => (.ok (some o), s)
  | none =>
    match k.rdNdef s.tag with
    | .ok (some L) => (.ok (some (L, s.tag)), { s with ndef := some (L, s.tag) })
    | .ok none => (.ok none, s)
    | .error e => (.error e, s)

/-- `Type2Tag._format` on the cached object `(L, C)` -/
def formatT2On (L : Layout) (C : Bytes) (wipe : Option Nat) : Py (Option Bytes) :=
  if ¬ L.writeable then .ok none else formatT2 C L wipe >>= fun m' => .ok (some m')

/-- one application call; returns what it sent / returned and the new state -/
def step (k : Klass) (drop : Bool) (s : Sess) : Op → OpOut × Sess
  | .read =>
    match getNdef k s with
    | (.ok (some _), s') => (⟨[], .ok true⟩, s')
    | (.ok none, s') => (⟨[], .ok false⟩, s')
    | (.error e, s') => (⟨[], .error e⟩, s')
  | .write data =>
    match getNdef k s with
    | (.ok (some (L, C)), s') =>
      let o := setOctets k.cfg C L data
      match o.res with
      | .ok _ => (⟨o.cmds, .ok true⟩,
          { tag := apply s'.tag o.cmds, ndef := some ({ L with ndef := data }, apply C o.cmds) })
      | .error e => (⟨o.cmds, .error e⟩, { tag := apply s'.tag o.cmds, ndef := some (L, apply C o.cmds) })
    | (.ok none, s') => (⟨[], .ok false⟩, s')
    | (.error e, s') => (⟨[], .error e⟩, s')
  | .format version wipe =>
    match k with
    | .t1 => (⟨[], .ok false⟩, s)          -- no `_format`: `format()` returns None
    | .t2 =>
      match getNdef k s with
      | (.ok (some (L, C)), s') =>
        match formatT2On L C wipe with
        | .ok (some m') =>
          let cmds := diffUnits 4 C m'
          (⟨cmds, .ok true⟩, { tag := apply s'.tag cmds, ndef := if drop then none else some (L, m') })
        | .ok none => (⟨[], .ok false⟩, s')
        | .error e => (⟨[], .error e⟩, s')
      | (.ok none, s') => (⟨[], .ok false⟩, s')
      | (.error e, s') => (⟨[], .error e⟩, s')
    | .topaz =>
      match formatTopazV s.tag version wipe with
      | .ok (some m') =>
        let cmds := diffUnits 1 s.tag m'
        (⟨cmds, .ok true⟩, { tag := apply s.tag cmds, ndef := if drop then none else s.ndef })
      | .ok none => (⟨[], .ok false⟩, s)
      | .error e => (⟨[], .error e⟩, s)
    | .topaz512 =>
      match formatTopaz512V s.tag version wipe with
      | .ok (some m') =>
        let cmds := diffUnits 8 s.tag m'
        (⟨cmds, .ok true⟩, { tag := apply s.tag cmds, ndef := if drop then none else s.ndef })
      | .ok none => (⟨[], .ok false⟩, s)
      | .error e => (⟨[], .error e⟩, s)
  | .protect =>
    match k with
    | .t2 =>
      match getNdef k s with
      | (.ok (some (L, C)), s') =>
        let o := protectT2 C
        (o, { tag := apply s'.tag o.cmds,
              ndef := if drop && decide (o.res = .ok true) then none else some (L, apply C o.cmds) })
      | (.ok none, s') => (⟨[], .ok false⟩, s')
      | (.error e, s') => (⟨[], .error e⟩, s')
    | _ =>
      -- `Type1Tag._protect`: `if self.ndef is not None: write_byte(11, 0x0F)`; Topaz classes add lock bytes
      match getNdef k s with
      | (.ok (some _), s') =>
        let tk := match k with | .topaz => T1Kind.topaz | .topaz512 => T1Kind.topaz512 | _ => T1Kind.generic
        let o := protectT1 tk k.cfg.unit s'.tag
        (o, { tag := apply s'.tag o.cmds,
              ndef := if drop && decide (o.res = .ok true) then none else s'.ndef })
      | (.ok none, s') => (⟨[], .ok false⟩, s')
      | (.error e, s') => (⟨[], .error e⟩, s')

/-- a whole session: the outputs of the steps in order and the final state -/
def run (k : Klass) (drop : Bool) : Sess → List Op → List OpOut × Sess
  | s, [] => ([], s)
  | s, op :: ops =>
    let r := step k drop s op
    let rest := run k drop r.2 ops
    (r.1 :: rest.1, rest.2)

end NfcVerif.Tlv
