import NfcVerif.Py
/-!
# Two blocking programs on a reliable ordered message channel (property C06)

The SNEP and handover programs of nfcpy are sequential code that blocks in
`socket.recv()` / `socket.poll("recv")`.  Each one is modelled as the state
machine obtained by cutting the Python code at its blocking points: the state
says where the program waits, `onRecv` is the straight-line code the program
runs from there to its next blocking point when one message arrives (the
messages it sends in between are returned as a list).

The channel is what property C05 establishes for a data link connection:
reliable, ordered, message preserving, one queue per direction.  `step`
delivers the next queued message (client-to-server first, the network is
deterministic as a Kahn network so the order of deliveries does not change
what each side sees).  Everything each side ever sent is kept in `logC` /
`logS` so that the correspondence harness can compare it with the messages
the real code puts on its sockets.
-/
namespace NfcVerif.Chan

/-- `[d[o:o+miu] for o in range(0, len(d), miu)]`; `fuel ≥ len(d)` -/
def chunksF (miu : Nat) : Nat → Bytes → List Bytes
  | 0, _ => []
  | n + 1, d => if d = [] then [] else d.take miu :: chunksF miu n (d.drop miu)

def chunks (miu : Nat) (d : Bytes) : List Bytes := chunksF miu d.length d

/-- what the fragmenting senders put on the wire: `d[0:miu]`, then
`d[o:o+miu] for o in range(miu, len(d), miu)` -/
def fragments (miu : Nat) (d : Bytes) : List Bytes := d.take miu :: chunks miu (d.drop miu)

structure Net (C S D : Type) where
  cst : C
  sst : S
  c2s : List Bytes := []
  s2c : List Bytes := []
  logC : List Bytes := []
  logS : List Bytes := []
  dl : List D := []

structure Proto (C S D : Type) where
  /-- server: one message arrives while it waits in state `S` -/
  srv : S → Bytes → S × List Bytes × List D
  /-- client: one message arrives while it waits in state `C` -/
  cli : C → Bytes → C × List Bytes
  /-- the client is blocked in a receive call -/
  cwait : C → Bool
  /-- the server is blocked in a receive call (not terminated) -/
  swait : S → Bool

variable {C S D : Type}

def step (p : Proto C S D) (n : Net C S D) : Net C S D :=
  match n.c2s with
  | m :: q =>
    if p.swait n.sst then
      let r := p.srv n.sst m
      { n with sst := r.1, c2s := q, s2c := n.s2c ++ r.2.1, logS := n.logS ++ r.2.1, dl := n.dl ++ r.2.2 }
    else { n with c2s := q }
  | [] =>
    match n.s2c with
    | m :: q =>
      if p.cwait n.cst then
        let r := p.cli n.cst m
        { n with cst := r.1, s2c := q, c2s := n.c2s ++ r.2, logC := n.logC ++ r.2 }
      else n
    | [] => n

/-- deliver at most `fuel` messages -/
def pump (p : Proto C S D) : Nat → Net C S D → Net C S D
  | 0, n => n
  | k + 1, n => pump p k (step p n)

/-- nothing can be delivered any more -/
def quiet (p : Proto C S D) (n : Net C S D) : Prop :=
  n.c2s = [] ∧ (n.s2c = [] ∨ p.cwait n.cst = false)

instance (p : Proto C S D) (n : Net C S D) : Decidable (quiet p n) := by
  unfold quiet; infer_instance

end NfcVerif.Chan
