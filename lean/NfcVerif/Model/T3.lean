import NfcVerif.Model.T34Base
/-!
# NFC Forum Type 3 Tag: NDEF read / write (`nfc/tag/tt3.py`, class `Type3Tag.NDEF`)

The tag is a plain memory of 16-octet blocks (`Bytes`, block `b` at octets
`16b .. 16b+15`, block 0 = attribute information block).  One command =
`Read/Write Without Encryption` over the consecutive block numbers
`blk .. blk+n-1` (the reader only ever builds `range(i, last_block)` lists).
Modelled reader-side failures: `struct.error` for a block number > 65535
(`pack("<H", bn)`), `ValueError` for a command frame longer than 255 octets
(`bytearray([2+len(idm)+len(cmd_data), ...])`, tt3.py:697), `ValueError` of
`range(1, last, 0)`; when the attribute block cannot be read before a write the
command error of that read is raised.  The tag answers a block number outside its memory with
status `01 A2` (-> `Type3TagCommandError`).
-/
namespace NfcVerif.T3
open NfcVerif.T34

structure Attr where
  ver : Nat
  nbr : Nat
  nbw : Nat
  nmaxb : Nat
  writef : Nat
  rwflag : Nat
  ln : Nat
  deriving DecidableEq, Repr

/-- `_read_attribute_data` on the 16 octets of block 0: checksum, then fields -/
def decodeAttr : Bytes → Py (Option Attr)
  | [b0, b1, b2, b3, b4, b5, b6, b7, b8, b9, b10, b11, b12, b13, b14, b15] =>
    if b0 + b1 + b2 + b3 + b4 + b5 + b6 + b7 + b8 + b9 + b10 + b11 + b12 + b13 ≠ b14 * 256 + b15 then .ok none
    else .ok (some { ver := b0, nbr := b1, nbw := b2, nmaxb := b3 * 256 + b4, writef := b9, rwflag := b10,
                     ln := (b11 * 256 + b12) * 256 + b13 })
  | _ => .error .struct

/-- `_write_attribute_data`: the 16 octets written to block 0 (fields are
octets / 16 bit / 24 bit because they come from `decodeAttr` and `ln ≤ capacity`) -/
def encodeAttr (a : Attr) : Bytes :=
  let l2 := a.ln / 65536 % 256
  let l1 := a.ln / 256 % 256
  let l0 := a.ln % 256
  let n1 := a.nmaxb / 256
  let n0 := a.nmaxb % 256
  let s := a.ver + a.nbr + a.nbw + n1 + n0 + a.writef + a.rwflag + l2 + l1 + l0
  [a.ver, a.nbr, a.nbw, n1, n0, 0, 0, 0, 0, a.writef, a.rwflag, l2, l1, l0, s / 256, s % 256]

/-- octets of one block list element (`BlockCode.pack`) -/
def elemSize (b : Nat) : Nat := if b < 256 then 2 else 3

/-- block list octets for blocks `first .. first+n-1` -/
def elemSum : Nat → Nat → Nat
  | _, 0 => 0
  | first, n + 1 => elemSize first + elemSum (first + 1) n

/-- reader-side construction of one command over blocks `first..first+n-1`
with `extra` data octets: exceptions raised before anything is sent -/
def cmdCheck (first n extra : Nat) : Py Unit :=
  if n > 255 then .error .value
  else if n > 0 ∧ first + n > 65536 then .error .struct
  else if 14 + elemSum first n + extra > 255 then .error .value
  else .ok ()

def tagStatusErr : Exc := .tagCmd 0x01A2

/-- `read_from_ndef_service(first, ..., first+n-1)` against the memory -/
def readBlocks (m : Bytes) (first n : Nat) : Py Bytes :=
  cmdCheck first n 0 >>= fun _ =>
  if n = 0 ∨ 16 * (first + n) > m.length then .error tagStatusErr
  else .ok (sliceN m (16 * first) (16 * (first + n)))

/-- `for i in range(1, last, nbr)` of `_read_ndef_data` (`nbr ≥ 1`, fuel = `last`) -/
def readLoop (m : Bytes) (nbr last : Nat) : Nat → Nat → Bytes → Py (Option Bytes)
  | 0, _, _ => .error .outOfFuel
  | fuel + 1, i, acc =>
    if i ≥ last then .ok (some acc) else
    match readBlocks m i (min (i + nbr) last - i) with
    | .ok d => readLoop m nbr last fuel (i + nbr) (acc ++ d)
    | .error (.tagCmd _) => .ok none
    | .error e => .error e

structure Ndef where
  attr : Attr
  seen : Seen

/-- `Type3Tag.NDEF._read_ndef_data` + the flags set by `_read_attribute_data`
(a fresh `tag.ndef`); `none` = `tag.ndef is None` -/
def readNdef (m : Bytes) : Py (Option Ndef) :=
  match readBlocks m 0 1 with
  | .error (.tagCmd _) => .ok none
  | .error e => .error e
  | .ok blk =>
    decodeAttr blk >>= fun oa =>
    match oa with
    | none => .ok none
    | some a =>
      if a.ver / 16 ≠ 1 then .ok none else
      if a.nbr = 0 then .error .value else
      let last := 1 + (a.ln + 15) / 16
      readLoop m a.nbr last last 1 [] >>= fun od =>
      match od with
      | none => .ok none
      | some d => .ok (some { attr := a,
                              seen := { capacity := (a.nmaxb * 16 : Nat),
                                        readable := decide (a.writef = 0 ∧ a.nbr > 0),
                                        writeable := decide (a.rwflag ≠ 0 ∧ a.nbw > 0),
                                        data := d.take a.ln } })

def see (m : Bytes) : Py (Option Seen) := readNdef m >>= fun o => .ok (o.map (·.seen))

/-- one Write Without Encryption over blocks `blk .. blk+n-1` -/
structure WCmd where
  blk : Nat
  n : Nat
  data : Bytes
  deriving DecidableEq, Repr

structure Trace where
  sent : List WCmd     -- commands executed by the tag, in order
  mem : Bytes          -- memory afterwards
  res : Py Unit        -- how the call ended

/-- `write_to_ndef_service(data, blk, ..)` -/
def sendW (m : Bytes) (c : WCmd) : Py Bytes :=
  cmdCheck c.blk c.n c.data.length >>= fun _ =>
  if c.n = 0 ∨ 16 * (c.blk + c.n) > m.length ∨ c.data.length ≠ 16 * c.n then .error tagStatusErr
  else .ok (splice m (16 * c.blk) c.data)

def runW (m : Bytes) : List WCmd → Trace
  | [] => ⟨[], m, .ok ()⟩
  | c :: cs =>
    match sendW m c with
    | .error e => ⟨[], m, .error e⟩
    | .ok m' => let t := runW m' cs; ⟨c :: t.sent, t.mem, t.res⟩

/-- memory after the tag executed `cmds` (power cut after the k-th: `cmds.take k`) -/
def applyW (m : Bytes) (cmds : List WCmd) : Bytes :=
  cmds.foldl (fun m c => splice m (16 * c.blk) c.data) m

/-- `for i in range(1, last, nbw)`: the data block writes -/
def dataCmds (padded : Bytes) (nbw last : Nat) : Nat → Nat → List WCmd
  | 0, _ => []
  | fuel + 1, i =>
    if i ≥ last then [] else
    let lb := min (i + nbw) last
    ⟨i, lb - i, sliceN padded ((i - 1) * 16) ((lb - 1) * 16)⟩ :: dataCmds padded nbw last fuel (i + nbw)

def padded (data : Bytes) : Bytes := data ++ zeros ((16 - data.length % 16) % 16)

/-- the command sequence of `_write_ndef_data` for attributes `a` (`nbw ≥ 1`) -/
def planWrite (a : Attr) (data : Bytes) : List WCmd :=
  let last := 1 + (data.length + 15) / 16
  [⟨0, 1, encodeAttr { a with writef := 0x0F }⟩]
    ++ dataCmds (padded data) a.nbw last last 1
    ++ [⟨0, 1, encodeAttr { a with writef := 0, ln := data.length }⟩]

/-- `Type3Tag.NDEF._write_ndef_data` -/
def writeNdef (m data : Bytes) : Trace :=
  match readBlocks m 0 1 >>= decodeAttr with
  | .ok none => ⟨[], m, .error (.tagCmd 4)⟩     -- checksum error: Type3TagCommandError(DATA_SIZE_ERROR)
  | .error e => ⟨[], m, .error e⟩               -- the command error of the attribute read is raised
  | .ok (some a) =>
    if a.nbw = 0 then
      let t := runW m [⟨0, 1, encodeAttr { a with writef := 0x0F }⟩]
      ⟨t.sent, t.mem, t.res >>= fun _ => .error .value⟩
    else runW m (planWrite a data)

/-- `tag.ndef.octets = data` on a freshly activated tag (`nfc/tag/__init__.py`
setter: writeable check, capacity check, then the type specific write).
`.ok none`: `tag.ndef is None`. -/
def setOctets (m data : Bytes) : Py (Option Trace) :=
  readNdef m >>= fun o =>
  match o with
  | none => .ok none
  | some nd =>
    if nd.seen.writeable = false then .ok (some ⟨[], m, .error .attr⟩)
    else if (data.length : Int) > nd.seen.capacity then .ok (some ⟨[], m, .error .value⟩)
    else .ok (some (writeNdef m data))

end NfcVerif.T3
