import NfcVerif.Model.DlcLlc
/-!
# The routing layer between the link controller and the connection objects

Transcription of `nfc/llcp/llc.py` class `ServiceAccessPoint` (`insert_socket`,
`remove_socket`, `enqueue`, `dequeue`, `sendack`) with SEVERAL data link connection
sockets on one service access point, of the parts of `tco.py` class
`DataLinkConnection` that run before a connection is established (`listen`, `accept`,
`connect`, `enqueue` in the states CLOSED / LISTEN / CONNECT, `dequeue` of CONNECT / CC /
DM) and of `LogicalLinkController.collect/dispatch/accept/connect/close/recv/poll` over
the table of service access points.  An established connection is the endpoint `Ep` of
`Model/Dlc.lean`; its steps are reused unchanged.

A controller `Ctl` is an open system: `Ctl.dispatch` takes an arbitrary inbound PDU,
`Ctl.collect` returns the frame to send.  `Net` joins two controllers by two FIFO wires.

Ghost data (never read by a transition): `WPdu.cid` / `Sock.cid` - the number of the
connection attempt (`connect()` call) a PDU or socket belongs to - and `Ctl.seen` /
`Ctl.out`, the logs of all PDUs dispatched to / collected from a controller.

The code is modelled as found, including finding `dlc-data-before-connect-complete`: the CC
that answers a CONNECT waits in the send queue of the LISTENING socket, the accepted
connection is inserted in front of it and is ESTABLISHED at once, so its I PDUs can leave
before the CC; and the connecting side becomes ESTABLISHED only in `connFin` (the application
thread), so PDUs that arrive between the CC and that step are dropped by `Sock.enqueue`.
-/
namespace NfcVerif.DlcSap
open NfcVerif NfcVerif.Dlc

inductive Body
  | conn (miu rw : Nat) (sn : Option Nat)      -- CONNECT, `sn` = number of a service name
  | cc (miu rw : Nat)                          -- CC
  | dlc (p : Pdu)                              -- I RR RNR DISC DM FRMR
  deriving DecidableEq, Repr, Inhabited

structure WPdu where
  dsap : Nat
  ssap : Nat
  cid : Nat            -- ghost
  body : Body
  deriving DecidableEq, Repr, Inhabited

def WPdu.isConn (w : WPdu) : Bool := match w.body with | .conn .. => true | _ => false

/-- I, RR, RNR: the PDUs of an established connection that carry sequence numbers -/
def WPdu.isData (w : WPdu) : Bool :=
  match w.body with
  | .dlc (.i ..) | .dlc (.iNone ..) | .dlc (.rr _) | .dlc (.rnr _) => true
  | _ => false

/-- octets of the service name `urn:nfc:sn:s<d>` -/
def snLen : Nat := 13

/-- `len(pdu)` -/
def Body.len : Body → Nat
  | .conn miu rw sn => 2 + (if miu > 128 then 4 else 0) + (if rw ≠ 1 then 3 else 0) +
      (match sn with | some _ => 2 + snLen | none => 0)
  | .cc miu rw => 2 + (if miu > 128 then 4 else 0) + (if rw ≠ 1 then 3 else 0)
  | .dlc p => p.len

def Body.headerSize : Body → Nat
  | .dlc p => p.headerSize
  | _ => 2

def WPdu.infoSize (w : WPdu) : Nat := w.body.len - w.body.headerSize

/-- `len(AggregatedFrame(0, 0, frame))` -/
def agfLenW (frame : List WPdu) : Nat := 2 + (frame.map fun w => 2 + w.body.len).sum

/-- `DisconnectedMode(rcvd_pdu.ssap, rcvd_pdu.dsap, reason)` -/
def dmReply (w : WPdu) (reason : Nat) : WPdu := ⟨w.ssap, w.dsap, w.cid, .dlc (.dm reason)⟩

inductive CSt | closed | listen | connect | run
  deriving DecidableEq, Repr, Inhabited

/-- a `DataLinkConnection` object; `cs = run` means that `ep.st` is the state -/
structure Sock where
  sid : Nat              -- position in the order of creation (the harness' handle)
  cid : Nat              -- ghost: the connection attempt this socket belongs to
  acc : Bool             -- ghost: the socket was created by accept()
  addr : Option Nat
  peer : Option Nat
  cs : CSt
  rmiu : Nat             -- recv_miu
  rwin : Nat             -- recv_win
  buf : Nat              -- recv_buf (backlog of a listening socket)
  cq : List WPdu         -- recv_queue of a listening socket: CONNECT PDUs
  lq : List WPdu         -- send_queue outside an established connection: CONNECT, CC, DM
  ans : Option WPdu      -- recv_queue of a connecting socket: the first CC / DM
  ep : Ep
  deriving DecidableEq, Repr, Inhabited

def blankEp : Ep := (Ep.init 128 128 0 1).shut

def Sock.new (sid rwin rmiu : Nat) : Sock :=
  { sid, cid := 0, acc := false, addr := none, peer := none, cs := .closed, rmiu := min rmiu 2175, rwin := min rwin 15,
    buf := min rwin 15, cq := [], lq := [], ans := none, ep := blankEp }

/-- SHUTDOWN of a socket that was never connected -/
def Sock.dead (s : Sock) : Sock :=
  { s with cs := .run, cq := [], lq := [], ans := none, ep := { s.ep.shut with bound := false, closing := false } }

/-- (in run state `peer` and `addr` are set: `accept()` / `connect()` assign them before ESTABLISHED) -/
def Sock.wrap (s : Sock) (p : Pdu) : WPdu := ⟨s.peer.getD 0, s.addr.getD 0, s.cid, .dlc p⟩

/-- `DataLinkConnection.enqueue` -/
def Sock.enqueue (s : Sock) (w : WPdu) : Sock :=
  match s.cs with
  | .closed => { s with lq := s.lq ++ [dmReply w 1] }
  | .listen =>
    if w.isConn then
      if s.cq.length < s.buf then { s with cq := s.cq ++ [w] }
      else { s with lq := s.lq ++ [dmReply w 0x20] }
    else s
  | .connect =>
    match w.body with
    | .cc .. => if s.ans.isNone then { s with ans := some w } else s
    | .dlc (.dm _) => if s.ans.isNone then { s with ans := some w } else s
    | _ => s
  | .run =>
    match w.body with
    | .dlc p => { s with ep := s.ep.enq p }
    | _ => s

/-- `DataLinkConnection.dequeue(miu_size, icv_size=0)` -/
def Sock.dequeue (s : Sock) (budget : Int) : Sock × Option WPdu :=
  match s.cs with
  | .run =>
    match s.lq with
    | [] => let r := s.ep.deq budget; ({ s with ep := r.1 }, r.2.map s.wrap)
    | h :: t =>
      -- PDUs queued before ESTABLISHED are at the front of the send queue
      if s.ep.st = .established ∧ s.ep.busySent ≠ s.ep.busy then
        let r := s.ep.deq budget; ({ s with ep := r.1 }, r.2.map s.wrap)
      else if (h.infoSize : Int) > budget then
        let r := ({ s.ep with sq := [] }).deq budget
        ({ s with ep := { r.1 with sq := s.ep.sq } }, r.2.map s.wrap)
      else ({ s with lq := t }, some h)
  | _ =>
    match s.lq with
    | [] => (s, none)
    | h :: t => if (h.infoSize : Int) > budget then (s, none) else ({ s with lq := t }, some h)

/-- `DataLinkConnection.sendack()` -/
def Sock.sendack (s : Sock) : Sock × Option WPdu :=
  match s.cs with
  | .run => let r := s.ep.sendack; ({ s with ep := r.1 }, r.2.map s.wrap)
  | _ => (s, none)

/-! ## `ServiceAccessPoint` -/

structure Sap where
  addr : Nat
  socks : List Sock          -- sock_list, index 0 = leftmost
  sendList : List WPdu
  deriving DecidableEq, Repr, Inhabited

/-- `for socket in sock_list: if p(socket): f(socket); break` - `none` is the `else` of the loop -/
def updFirst (p : Sock → Bool) (f : Sock → Sock) : List Sock → Option (List Sock)
  | [] => none
  | s :: rest => if p s then some (f s :: rest) else (updFirst p f rest).map (s :: ·)

/-- the socket `ServiceAccessPoint.enqueue` hands a PDU that is not a CONNECT to -/
def matchPeer (ssap : Nat) (s : Sock) : Bool := s.peer == some ssap || s.peer == none

def isListen (s : Sock) : Bool := s.cs == .listen

/-- `ServiceAccessPoint.enqueue` -/
def Sap.enqueue (a : Sap) (w : WPdu) : Sap :=
  if w.isConn then
    match updFirst isListen (·.enqueue w) a.socks with
    | some l => { a with socks := l }
    | none => { a with sendList := a.sendList ++ [dmReply w 2] }
  else
    match updFirst (matchPeer w.ssap) (·.enqueue w) a.socks with
    | some l => { a with socks := l }
    | none => { a with sendList := a.sendList ++ [dmReply w 1] }

/-- `for socket in sock_list: pdu = socket.dequeue(..); if pdu: return pdu` -/
def deqFirst (budget : Int) : List Sock → List Sock × Option WPdu
  | [] => ([], none)
  | s :: rest =>
    let r := s.dequeue budget
    match r.2 with
    | some w => (r.1 :: rest, some w)
    | none => let r' := deqFirst budget rest; (r.1 :: r'.1, r'.2)

def ackFirst : List Sock → List Sock × Option WPdu
  | [] => ([], none)
  | s :: rest =>
    let r := s.sendack
    match r.2 with
    | some w => (r.1 :: rest, some w)
    | none => let r' := ackFirst rest; (r.1 :: r'.1, r'.2)

/-- `ServiceAccessPoint.dequeue(miu_size, icv_size)` -/
def Sap.dequeue (a : Sap) (budget : Int) : Sap × Option WPdu :=
  let r := deqFirst budget a.socks
  match r.2 with
  | some w => ({ a with socks := r.1 }, some w)
  | none =>
    match a.sendList with
    | [] => ({ a with socks := r.1 }, none)
    | w :: rest => ({ a with socks := r.1, sendList := rest }, some w)

/-- `ServiceAccessPoint.sendack()` -/
def Sap.sendack (a : Sap) : Sap × Option WPdu :=
  let r := ackFirst a.socks
  ({ a with socks := r.1 }, r.2)

/-- `sock_list.appendleft(socket)` -/
def Sap.insert (a : Sap) (s : Sock) : Sap := { a with socks := s :: a.socks }

/-! ## `LogicalLinkController` -/

structure Ctl where
  saps : List Sap               -- the non-empty entries 2..63 of `llc.sap`, ascending address
  free : List Sock              -- sockets that are in no sock_list (never bound, or closed)
  names : List (Nat × Nat)      -- llc.snl without "urn:nfc:sn:sdp": service name number -> address
  dmq : List WPdu               -- llc.sap[1].dmpdu
  nsock : Nat
  link : Nat                    -- cfg["send-miu"] = cfg["recv-miu"]
  agf : Bool
  ncid : Nat                    -- ghost: next connection attempt number
  seen : List WPdu              -- ghost: every PDU handed to `dispatch`
  out : List WPdu               -- ghost: every PDU dequeued for the link (logged by `sdeq` / `sack`)
  deriving DecidableEq, Repr, Inhabited

def Ctl.init (link : Nat) (agf : Bool) : Ctl :=
  { saps := [], free := [], names := [], dmq := [], nsock := 0, link, agf, ncid := 1, seen := [], out := [] }

def Ctl.sap? (c : Ctl) (addr : Nat) : Option Sap := c.saps.find? (·.addr == addr)

def findSock (sid : Nat) : List Sock → Option Sock
  | [] => none
  | s :: rest => if s.sid = sid then some s else findSock sid rest

def sapsFind (sid : Nat) : List Sap → Option Sock
  | [] => none
  | a :: rest => match findSock sid a.socks with
    | some s => some s
    | none => sapsFind sid rest

/-- the socket object with handle `sid` -/
def Ctl.sock? (c : Ctl) (sid : Nat) : Option Sock :=
  match sapsFind sid c.saps with
  | some s => some s
  | none => findSock sid c.free

/-- apply `f` to the first socket with handle `sid` -/
def updSid (sid : Nat) (f : Sock → Sock) : List Sock → List Sock
  | [] => []
  | s :: rest => if s.sid = sid then f s :: rest else s :: updSid sid f rest

def sapsUpd (sid : Nat) (f : Sock → Sock) : List Sap → List Sap
  | [] => []
  | a :: rest => match findSock sid a.socks with
    | some _ => { a with socks := updSid sid f a.socks } :: rest
    | none => a :: sapsUpd sid f rest

/-- update the socket object with handle `sid` (the one `Ctl.sock?` finds) -/
def Ctl.upd (c : Ctl) (sid : Nat) (f : Sock → Sock) : Ctl :=
  match sapsFind sid c.saps with
  | some _ => { c with saps := sapsUpd sid f c.saps }
  | none => { c with free := updSid sid f c.free }

/-- is the socket in the sock_list of a service access point -/
def Ctl.listed (c : Ctl) (sid : Nat) : Bool := (sapsFind sid c.saps).isSome

def insertSap (a : Sap) : List Sap → List Sap
  | [] => [a]
  | b :: rest => if a.addr < b.addr then a :: b :: rest else b :: insertSap a rest

/-- first address in `lo .. lo+n-1` without a service access point -/
def firstFree (c : Ctl) (lo : Nat) : Nat → Option Nat
  | 0 => none
  | n + 1 => if (c.sap? lo).isNone then some lo else firstFree c (lo + 1) n

inductive Dest | addr (a : Nat) | name (n : Nat)
  deriving DecidableEq, Repr, Inhabited

inductive NRes
  | r (x : Res)
  | sock (sid : Nat)
  | refused (reason : Nat)
  | na
  deriving DecidableEq, Repr, Inhabited

def err (n : Nat) : NRes := .r (.exc (.llcp n))

/-- `socket()`, `setsockopt(SO_RCVBUF)`, `setsockopt(SO_RCVMIU)`, `bind(addr | name)`; the socket exists
also when `bind` fails -/
def Ctl.newSock (c : Ctl) (rw miu : Nat) (to : Dest) : Ctl × NRes :=
  let s := Sock.new c.nsock rw (min miu c.link)     -- llc.setsockopt: min(value, cfg['recv-miu'])
  let c1 := { c with nsock := c.nsock + 1 }
  let unbound (e : Nat) : Ctl × NRes := ({ c1 with free := c1.free ++ [s] }, err e)
  match to with
  | .addr a =>
    if a > 63 then unbound 14
    else if a < 32 then unbound 13
    else if (c.sap? a).isSome then unbound 98
    else ({ c1 with saps := insertSap ⟨a, [{ s with addr := some a }], []⟩ c1.saps }, .sock s.sid)
  | .name n =>
    if (c.names.find? (·.1 == n)).isSome then unbound 98
    else match firstFree c 16 16 with
      | none => unbound 99
      | some a => ({ c1 with saps := insertSap ⟨a, [{ s with addr := some a }], []⟩ c1.saps,
                             names := c1.names ++ [(n, a)] }, .sock s.sid)

/-- `llc.listen(socket, backlog)` of a bound socket -/
def Ctl.listen (c : Ctl) (sid backlog : Nat) : Ctl × NRes :=
  match c.sock? sid with
  | none => (c, .na)
  | some s =>
    if s.cs = .run ∧ s.ep.st = .shutdown then (c, err 108)
    else if s.cs ≠ .closed then (c, err 95)
    else if c.listed sid = false then (c, .na)      -- (an unbound socket would be bound first: not modelled)
    else (c.upd sid fun s => { s with cs := .listen, buf := min backlog 16 }, .r .ok)

/-- `llc.connect(socket, dest)` of a bound socket up to the wait for the answer -/
def Ctl.connect (c : Ctl) (sid : Nat) (to : Dest) : Ctl × NRes :=
  match c.sock? sid with
  | none => (c, .na)
  | some s =>
    match s.cs with
    | .closed =>
      if s.addr.isNone then (c, .na) else     -- (an unbound socket would be bound first: not modelled)
      let w : WPdu := ⟨match to with | .addr a => a | .name _ => 1, s.addr.getD 0, c.ncid,
        .conn s.rmiu s.rwin (match to with | .addr _ => none | .name n => some n)⟩
      ({ c.upd sid (fun s => { s with cs := .connect, cid := c.ncid, lq := s.lq ++ [w] }) with ncid := c.ncid + 1 },
       .r .pending)
    | .connect => (c, err 114)
    | .listen => (c, err 32)
    | .run => (c, err (if s.ep.st = .established then 106 else 32))

/-- `connect()` after the wait on `recv_ready` returned -/
def Ctl.connFin (c : Ctl) (sid : Nat) : Ctl × NRes :=
  match c.sock? sid with
  | none => (c, .na)
  | some s =>
    if s.cs ≠ .connect then (c, .r .skip)
    else match s.ans with
      | none => (c, .na)
      | some w =>
        match w.body with
        | .cc miu rw =>
          (c.upd sid fun s => { s with cs := .run, peer := some w.ssap, buf := s.rwin, ans := none,
                                       ep := { Ep.init (min miu c.link) s.rmiu rw s.rwin with busy := s.ep.busy } },
           .r .ok)
        | .dlc (.dm reason) => (c.upd sid fun s => { s with cs := .closed, ans := none }, .refused reason)
        | _ => (c, .na)

def insertFront (addr : Nat) (s : Sock) (l : List Sap) : List Sap :=
  l.map fun a => if a.addr = addr then a.insert s else a

/-- `llc.accept(socket)` when a CONNECT waits in the backlog -/
def Ctl.accept (c : Ctl) (sid : Nat) : Ctl × NRes :=
  match c.sock? sid with
  | none => (c, .na)
  | some s =>
    if s.cs = .run ∧ s.ep.st = .shutdown then (c, err 108)
    else if s.cs ≠ .listen then (c, err 22)
    else if c.listed sid = false then (c, .na)      -- (a listening socket is always in its access point)
    else match s.cq with
      | [] => (c, .r .blocked)
      | w :: rest =>
        match w.body with
        | .conn miu rw _ =>
          let a := s.addr.getD 0
          let d : Sock :=
            { sid := c.nsock, cid := w.cid, acc := true, addr := s.addr, peer := some w.ssap, cs := .run, rmiu := s.rmiu,
              rwin := s.rwin, buf := s.rwin, cq := [], lq := [], ans := none,
              ep := Ep.init (min miu c.link) s.rmiu rw s.rwin }
          let ccPdu : WPdu := ⟨w.ssap, a, w.cid, .cc s.rmiu s.rwin⟩
          let c1 := c.upd sid fun s => { s with cq := rest, lq := s.lq ++ [ccPdu] }
          if (c1.sap? a).isSome then
            ({ c1 with saps := insertFront a d c1.saps, nsock := c.nsock + 1 }, .sock d.sid)
          else ({ c1 with free := c1.free ++ [d.dead], nsock := c.nsock + 1 }, err 32)
        | _ => (c, .r (.exc .runtime))

/-- `not (socket.addr and self.sap[socket.addr])` -/
def Ctl.badf (c : Ctl) (s : Sock) : Bool :=
  match s.addr with
  | none => true
  | some a => (c.sap? a).isNone

def removeSid (sid : Nat) (l : List Sock) : List Sock := l.filter (·.sid ≠ sid)

/-- `sock_list.remove(socket)`; an empty access point disappears together with its service names -/
def Ctl.unlist (c : Ctl) (sid : Nat) : Ctl :=
  match sapsFind sid c.saps with
  | none => c
  | some s =>
    let saps1 := c.saps.map fun a => { a with socks := removeSid sid a.socks }
    let gone := (saps1.filter (·.socks.isEmpty)).map (·.addr)
    { c with saps := saps1.filter (!·.socks.isEmpty), free := c.free ++ [s],
             names := c.names.filter fun na => !gone.contains na.2 }

/-- the application calls of `Model/Dlc.lean` on the connection of a socket -/
def Ctl.epOp (c : Ctl) (sid : Nat) (f : Ep → Ep × Res) (other : Sock → NRes) : Ctl × NRes :=
  match c.sock? sid with
  | none => (c, .na)
  | some s =>
    match s.cs with
    | .run => let r := f s.ep; (c.upd sid fun s => { s with ep := r.1 }, .r r.2)
    | _ => (c, other s)

def Ctl.send (c : Ctl) (sid : Nat) (m : Bytes) : Ctl × NRes :=
  c.epOp sid (·.send m) fun _ => err 107

/-- run an endpoint call whose EBADF test is the one of the controller -/
def withBound (e : Ep) (f : Ep → Ep × Res) : Ep × Res :=
  let r := f { e with bound := true }
  ({ r.1 with bound := e.bound }, r.2)

def Ctl.recv (c : Ctl) (sid : Nat) : Ctl × NRes :=
  match c.sock? sid with
  | none => (c, .na)
  | some s => if c.badf s then (c, err 9) else c.epOp sid (withBound · Ep.recv) fun _ => err 107

def Ctl.poll (c : Ctl) (sid : Nat) (k : PollKind) : Ctl × NRes :=
  match c.sock? sid with
  | none => (c, .na)
  | some s =>
    if c.badf s then (c, err 9)
    else c.epOp sid (withBound · (·.poll k)) fun _ =>
      match k with
      | .acks => .r (.bool false)
      | _ => .r .none

def Ctl.setBusy (c : Ctl) (sid : Nat) (b : Bool) : Ctl × NRes :=
  match c.sock? sid with
  | none => (c, .na)
  | some _ => (c.upd sid fun s => { s with ep := { s.ep with busy := b } }, .r .ok)

/-- `llc.close(socket)` up to the point where `close()` waits for the DM (an application closes a socket
once, and not while `connect()` waits) -/
def Ctl.close (c : Ctl) (sid : Nat) : Ctl × NRes :=
  match c.sock? sid with
  | none => (c, .na)
  | some s =>
    if c.listed sid = false then (c, .r .skip)
    else match s.cs with
      | .connect => (c, .r .skip)
      | .run =>
        let r := ({ s.ep with bound := true }).close
        let c1 := c.upd sid fun s => { s with ep := r.1 }
        (if r.2 = .done then c1.unlist sid else c1, .r r.2)
      | _ => ((c.unlist sid).upd sid Sock.dead, .r .done)

def Ctl.closeFin (c : Ctl) (sid : Nat) : Ctl × NRes :=
  match c.sock? sid with
  | none => (c, .na)
  | some s =>
    if s.cs ≠ .run ∨ s.ep.closing = false then (c, .r .skip)
    else
      let r := s.ep.closeFin
      ((c.upd sid fun s => { s with ep := r.1 }).unlist sid, .r r.2)

/-! ### link side -/

def updSap (addr : Nat) (f : Sap → Sap) (l : List Sap) : List Sap :=
  l.map fun a => if a.addr = addr then f a else a

/-- `self.sap[addr].dequeue(miu_size, icv_size)`; address 1 is the service discovery component, which
only has DM PDUs for failed connects by name -/
def Ctl.sdeq (c : Ctl) (addr : Nat) (budget : Int) : Ctl × Option WPdu :=
  if addr = 1 then
    match c.dmq with
    | [] => (c, none)
    | w :: rest => if budget > 0 then ({ c with dmq := rest, out := c.out ++ [w] }, some w) else (c, none)
  else match c.sap? addr with
    | none => (c, none)
    | some a =>
      let r := a.dequeue budget
      ({ c with saps := updSap addr (fun a => (a.dequeue budget).1) c.saps, out := c.out ++ r.2.toList }, r.2)

def Ctl.sack (c : Ctl) (addr : Nat) : Ctl × Option WPdu :=
  match c.sap? addr with
  | none => (c, none)
  | some a =>
    let r := a.sendack
    ({ c with saps := updSap addr (fun a => a.sendack.1) c.saps, out := c.out ++ r.2.toList }, r.2)

def firstDeq (budget : Int) : List Nat → Ctl → Ctl × Option WPdu
  | [], c => (c, none)
  | a :: rest, c =>
    let r := c.sdeq a budget
    match r.2 with
    | some w => (r.1, some w)
    | none => firstDeq budget rest r.1

def firstAck : List Nat → Ctl → Ctl × Option WPdu
  | [], c => (c, none)
  | a :: rest, c =>
    let r := c.sack a
    match r.2 with
    | some w => (r.1, some w)
    | none => firstAck rest r.1

structure Agg where
  c : Ctl
  frame : List WPdu
  budget : Int
  deqNone : Bool

/-- one pass `for sap in filter(None, self.sap)` of the aggregation loop -/
def aggPass (link : Nat) : List Nat → Agg → Agg
  | [], g => g
  | a :: rest, g =>
    let r := g.c.sdeq a g.budget
    match r.2 with
    | none => aggPass link rest { g with c := r.1 }
    | some w =>
      let frame := g.frame ++ [w]
      let budget : Int := (link : Int) - agfLenW frame - 3
      if budget < 0 then { c := r.1, frame, budget, deqNone := false }
      else aggPass link rest { c := r.1, frame, budget, deqNone := false }

/-- `while miu_size >= 0:` -/
def aggLoopW (link : Nat) (addrs : List Nat) : Nat → Agg → Agg
  | 0, g => g
  | fuel + 1, g =>
    if g.budget < 0 then g
    else
      let g1 := aggPass link addrs { g with deqNone := true }
      if g1.budget < 0 ∨ g1.deqNone then g1 else aggLoopW link addrs fuel g1

/-- the final `for sap ...: sap.sendack()` of an aggregated frame -/
def ackPass (link : Nat) : List Nat → Agg → Agg
  | [], g => g
  | a :: rest, g =>
    let r := g.c.sack a
    match r.2 with
    | none => ackPass link rest { g with c := r.1 }
    | some w =>
      let frame := g.frame ++ [w]
      let budget : Int := (link : Int) - agfLenW frame - 3
      if budget < 0 then { g with c := r.1, frame, budget } else ackPass link rest { g with c := r.1, frame, budget }

/-- the first part of `collect()`: a PDU from the first access point that has one (flag `true`), else a voluntary
acknowledgement (flag `false`) -/
def Ctl.collectFirst (c : Ctl) : Ctl × Option WPdu × Bool :=
  let addrs := c.saps.map (·.addr)
  let r1 := firstDeq c.link (1 :: addrs) c
  match r1.2 with
  | some w => (r1.1, some w, true)
  | none => let r2 := firstAck addrs r1.1; (r2.1, r2.2, false)

/-- the aggregation part of `collect()` after the first PDU `w` -/
def collectAgg (c : Ctl) (link : Nat) (addrs : List Nat) (w : WPdu) (fuel : Nat) : Ctl × List WPdu :=
  let g0 : Agg := { c := c, frame := [w], budget := (link : Int) - agfLenW [w] - 3, deqNone := false }
  let g1 := aggLoopW link (1 :: addrs) fuel g0
  let g2 := if g1.budget ≥ 0 then ackPass link addrs g1 else g1
  (g2.c, g2.frame)

/-- `LogicalLinkController.collect()`: the PDUs of the frame to send (`[]` = nothing) -/
def Ctl.collect (c : Ctl) (fuel : Nat) : Ctl × List WPdu :=
  let addrs := c.saps.map (·.addr)
  let first := c.collectFirst
  let res : Ctl × List WPdu :=
    match first.2.1 with
    | none => (first.1, [])
    | some w =>
      if first.2.2 = true ∧ w.infoSize ≥ c.link then (first.1, [w])
      else if c.agf = false then (first.1, [w])
      else collectAgg first.1 c.link addrs w fuel
  res

/-- `LogicalLinkController.dispatch()` of one PDU that is not an aggregate -/
def Ctl.dispatch (c : Ctl) (w : WPdu) : Ctl :=
  let c := { c with seen := c.seen ++ [w] }
  let routed : Option WPdu :=
    match w.body with
    | .conn miu rw sn =>
      if w.dsap = 1 then
        match sn with
        | none => none
        | some n => match c.names.find? (·.1 == n) with
          | none => none
          | some na => if (c.sap? na.2).isSome then some { w with dsap := na.2, body := .conn miu rw none } else none
      else some w
    | _ => some w
  match routed with
  | none =>
    let reason := match w.body with | .conn _ _ none => 0x10 | _ => 0x02
    { c with dmq := c.dmq ++ [⟨w.ssap, 1, w.cid, .dlc (.dm reason)⟩] }
  | some w =>
    match c.sap? w.dsap with
    | none => c
    | some _ => { c with saps := updSap w.dsap (fun a => a.enqueue w) c.saps }

def Ctl.dispatchAll (c : Ctl) : List WPdu → Ctl
  | [] => c
  | w :: rest => (c.dispatch w).dispatchAll rest

/-! ## operations of one controller, and two controllers joined by FIFO wires -/

inductive COp
  | sock (rw miu : Nat) (to : Dest)
  | listen (sid backlog : Nat)
  | connect (sid : Nat) (to : Dest)
  | connFin (sid : Nat)
  | accept (sid : Nat)
  | send (sid : Nat) (m : Bytes)
  | recv (sid : Nat)
  | busy (sid : Nat) (b : Bool)
  | poll (sid : Nat) (k : PollKind)
  | close (sid : Nat)
  | closeFin (sid : Nat)
  | sdeq (addr : Nat) (budget : Int)      -- one `ServiceAccessPoint.dequeue`, its PDU is a frame
  | sack (addr : Nat)
  | collect
  | dlv (frame : List WPdu)               -- `dispatch` of an inbound frame
  deriving DecidableEq, Repr

/-- one operation: new state, result, frame put on the wire (`[]` = none) -/
def Ctl.step (c : Ctl) : COp → Ctl × NRes × List WPdu
  | .sock rw miu to => let r := c.newSock rw miu to; (r.1, r.2, [])
  | .listen sid b => let r := c.listen sid b; (r.1, r.2, [])
  | .connect sid to => let r := c.connect sid to; (r.1, r.2, [])
  | .connFin sid => let r := c.connFin sid; (r.1, r.2, [])
  | .accept sid => let r := c.accept sid; (r.1, r.2, [])
  | .send sid m => let r := c.send sid m; (r.1, r.2, [])
  | .recv sid => let r := c.recv sid; (r.1, r.2, [])
  | .busy sid b => let r := c.setBusy sid b; (r.1, r.2, [])
  | .poll sid k => let r := c.poll sid k; (r.1, r.2, [])
  | .close sid => let r := c.close sid; (r.1, r.2, [])
  | .closeFin sid => let r := c.closeFin sid; (r.1, r.2, [])
  | .sdeq addr budget => let r := c.sdeq addr budget; (r.1, .r .ok, r.2.toList)
  | .sack addr => let r := c.sack addr; (r.1, .r .ok, r.2.toList)
  | .collect => let r := c.collect 600; (r.1, .r .ok, r.2)
  | .dlv frame => (c.dispatchAll frame, .r .ok, [])

def Ctl.run (c : Ctl) (ops : List COp) : Ctl := ops.foldl (fun c o => (c.step o).1) c

structure Net where
  a : Ctl
  b : Ctl
  wab : List (List WPdu)       -- frames in flight
  wba : List (List WPdu)
  deriving DecidableEq, Repr, Inhabited

/-- operations of the closed system: an application or link operation of one side (a `dlv` there is
ignored), or the delivery of the frame at the head of the wire to a side -/
inductive NOp
  | op (x : Side) (o : COp)
  | deliver (x : Side)
  deriving DecidableEq, Repr

def isDlv : COp → Bool
  | .dlv _ => true
  | _ => false

def Net.step (n : Net) : NOp → Net × NRes
  | .op x o =>
    if isDlv o then (n, .na)
    else match x with
      | .A => let r := n.a.step o
              ({ n with a := r.1, wab := if r.2.2.isEmpty then n.wab else n.wab ++ [r.2.2] }, r.2.1)
      | .B => let r := n.b.step o
              ({ n with b := r.1, wba := if r.2.2.isEmpty then n.wba else n.wba ++ [r.2.2] }, r.2.1)
  | .deliver .A =>
    match n.wba with
    | [] => (n, .r .blocked)
    | f :: rest => ({ n with a := (n.a.step (.dlv f)).1, wba := rest }, .r .ok)
  | .deliver .B =>
    match n.wab with
    | [] => (n, .r .blocked)
    | f :: rest => ({ n with b := (n.b.step (.dlv f)).1, wab := rest }, .r .ok)

def Net.run (n : Net) (ops : List NOp) : Net := ops.foldl (fun n o => (n.step o).1) n

/-- two controllers without sockets; the ghost numbers of connection attempts start at 1 on both sides (0 is the
number of a socket that never called `connect()`) -/
def Net.init (link : Nat) (agf : Bool) : Net :=
  { a := Ctl.init link agf, b := Ctl.init link agf, wab := [], wba := [] }

end NfcVerif.DlcSap
