import NfcVerif.Model.SnepChannel
/-!
# Arbitrary interleavings and a windowed link under the two programs (property C06)

`Model/SnepChannel.lean` delivers the queued messages in one fixed order (`step`:
client-to-server first).  The real stack has no such order: the two applications
and the two link threads run concurrently, the receiving application may be
arbitrarily slow, and the data link connection lets only `RW` unacknowledged
I PDUs travel at a time.  This file adds

* `runSched`: the same network driven by an arbitrary schedule (a list of
  `Who`: deliver the next message to the server / to the client; a choice that
  is not enabled is skipped), and
* `WNet`: the network over a *windowed link*.  Per direction there is the send
  queue of the sender (`out`), the receive queue of the receiver (`inq`, it
  holds at most `rw` messages - `TransmissionControlObject.enqueue` discards an
  I PDU that arrives when `len(recv_queue) == recv_buf`), the counters V(S),
  V(RA) and `recv_confs` of `tco.DataLinkConnection` (unbounded; the modulo-16
  arithmetic and the PDU formats are property C05) and the list of discarded
  messages.  A schedule is a list of `WStep`: the link transmits one I PDU, the
  receiver's link sends an acknowledgement, an application takes one message
  from its socket.

`AckMode.onConsume` is the code as it is: `recv_confs` counts the messages the
application has taken with `recv()`, an acknowledgement moves V(RA) forward by
`recv_confs`.  The two other modes are the defect classes that acknowledge
messages still sitting in the receive queue (`onReceipt`: `recv_confs` is
counted when the I PDU is enqueued; `allReceived`: the acknowledgement sets
V(RA) := V(R)).

An application that has handed a message to `send()` is modelled as continuing
at once (the message waits in `out`); in the code `send()` returns when the link
thread has taken the PDU.  The two programs only interact through the FIFO
queues, so this does not change what either of them receives.
-/
namespace NfcVerif.Chan

inductive Who | srv | cli
  deriving DecidableEq, Repr, Inhabited

variable {C S D : Type}

/-- the server side of `step`: the next client-to-server message is delivered (or dropped by a
server that has terminated) -/
def stepS (p : Proto C S D) (n : Net C S D) : Net C S D :=
  match n.c2s with
  | m :: q =>
    if p.swait n.sst then
      let r := p.srv n.sst m
      { n with sst := r.1, c2s := q, s2c := n.s2c ++ r.2.1, logS := n.logS ++ r.2.1, dl := n.dl ++ r.2.2 }
    else { n with c2s := q }
  | [] => n

/-- the client side of `step` -/
def stepC (p : Proto C S D) (n : Net C S D) : Net C S D :=
  match n.s2c with
  | m :: q =>
    if p.cwait n.cst then
      let r := p.cli n.cst m
      { n with cst := r.1, s2c := q, c2s := n.c2s ++ r.2, logC := n.logC ++ r.2 }
    else n
  | [] => n

def stepW (p : Proto C S D) : Who → Net C S D → Net C S D
  | .srv => stepS p
  | .cli => stepC p

/-- the scheduler's choice `w` can make a move -/
def En (p : Proto C S D) : Who → Net C S D → Prop
  | .srv, n => n.c2s ≠ []
  | .cli, n => n.s2c ≠ [] ∧ p.cwait n.cst = true

instance (p : Proto C S D) (w : Who) (n : Net C S D) : Decidable (En p w n) := by
  cases w <;> unfold En <;> infer_instance

/-- any interleaving: the schedule says who moves next; a choice that is not enabled is skipped -/
def runSched (p : Proto C S D) : List Who → Net C S D → Net C S D
  | [], n => n
  | w :: s, n => runSched p s (stepW p w n)

/-! ## The windowed link -/

inductive AckMode | onConsume | onReceipt | allReceived
  deriving DecidableEq, Repr, Inhabited

/-- one direction of a data link connection -/
structure Dir where
  /-- accepted by `send()`, not yet transmitted (`send_queue` of the sender) -/
  out : List Bytes := []
  /-- `recv_queue` of the receiver -/
  inq : List Bytes := []
  /-- I PDUs transmitted so far: V(S) of the sender = V(R) of the receiver -/
  vs : Nat := 0
  /-- acknowledged: V(RA) of the receiver = V(SA) of the sender -/
  acked : Nat := 0
  /-- `recv_confs` of the receiver -/
  confs : Nat := 0
  /-- discarded by `TransmissionControlObject.enqueue` (receive queue full) -/
  lost : List Bytes := []
  deriving DecidableEq, Repr, Inhabited

/-- the link thread of the sender takes the next I PDU if the send window is open
(`send_window_slots > 0`); the receiver's `enqueue` keeps it if `len(recv_queue) < recv_buf` -/
def Dir.xmit (mode : AckMode) (rw : Nat) (d : Dir) : Dir :=
  match d.out with
  | [] => d
  | m :: q =>
    if d.vs - d.acked < rw then
      let confs := if mode = .onReceipt then d.confs + 1 else d.confs
      if d.inq.length < rw then { d with out := q, inq := d.inq ++ [m], vs := d.vs + 1, confs := confs }
      else { d with out := q, lost := d.lost ++ [m], vs := d.vs + 1, confs := confs }
    else d

/-- the receiver acknowledges (`dequeue` "necessary ack" / piggyback / `sendack`) -/
def Dir.ack (mode : AckMode) (d : Dir) : Dir :=
  if d.confs = 0 then d
  else if mode = .allReceived then { d with acked := d.vs, confs := 0 }
  else { d with acked := d.acked + d.confs, confs := 0 }

/-- the receiving application's `recv()` -/
def Dir.take (mode : AckMode) (d : Dir) : Option (Bytes × Dir) :=
  match d.inq with
  | [] => none
  | m :: q => some (m, { d with inq := q, confs := if mode = .onReceipt then d.confs else d.confs + 1 })

structure WNet (C S D : Type) where
  cst : C
  sst : S
  c2s : Dir := {}
  s2c : Dir := {}
  logC : List Bytes := []
  logS : List Bytes := []
  dl : List D := []

inductive WStep
  /-- the link moves one I PDU towards the server / the client -/
  | xmit (to : Who)
  /-- the link of the server / the client acknowledges what it has to -/
  | ack (by_ : Who)
  /-- the application of the server / the client takes one message from its socket -/
  | app (w : Who)
  deriving DecidableEq, Repr, Inhabited

structure Win where
  /-- receive window of the server socket (`recv_buf` of SnepServer / HandoverServer) -/
  rwS : Nat
  /-- receive window of the client socket -/
  rwC : Nat
  mode : AckMode := .onConsume

def wstep (p : Proto C S D) (k : Win) : WStep → WNet C S D → WNet C S D
  | .xmit .srv, w => { w with c2s := w.c2s.xmit k.mode k.rwS }
  | .xmit .cli, w => { w with s2c := w.s2c.xmit k.mode k.rwC }
  | .ack .srv, w => { w with c2s := w.c2s.ack k.mode }
  | .ack .cli, w => { w with s2c := w.s2c.ack k.mode }
  | .app .srv, w =>
    match w.c2s.take k.mode with
    | none => w
    | some (m, d) =>
      if p.swait w.sst then
        let r := p.srv w.sst m
        { w with sst := r.1, c2s := d, s2c := { w.s2c with out := w.s2c.out ++ r.2.1 },
                 logS := w.logS ++ r.2.1, dl := w.dl ++ r.2.2 }
      else { w with c2s := d }
  | .app .cli, w =>
    if p.cwait w.cst then
      match w.s2c.take k.mode with
      | none => w
      | some (m, d) =>
        let r := p.cli w.cst m
        { w with cst := r.1, s2c := d, c2s := { w.c2s with out := w.c2s.out ++ r.2 }, logC := w.logC ++ r.2 }
    else w

def runW (p : Proto C S D) (k : Win) : List WStep → WNet C S D → WNet C S D
  | [], w => w
  | s :: ss, w => runW p k ss (wstep p k s w)

/-- what the applications see of a windowed network: the messages under way in each direction -/
def WNet.abs (w : WNet C S D) : Net C S D :=
  { cst := w.cst, sst := w.sst, c2s := w.c2s.inq ++ w.c2s.out, s2c := w.s2c.inq ++ w.s2c.out,
    logC := w.logC, logS := w.logS, dl := w.dl }

/-- a network put on a windowed link: everything queued waits in the send queues -/
def Net.onLink (n : Net C S D) : WNet C S D :=
  { cst := n.cst, sst := n.sst, c2s := { out := n.c2s }, s2c := { out := n.s2c },
    logC := n.logC, logS := n.logS, dl := n.dl }

/-- the application moves of a windowed schedule that took a message, as moves of the plain network -/
def appTrace (p : Proto C S D) (k : Win) : List WStep → WNet C S D → List Who
  | [], _ => []
  | .app .srv :: ss, w =>
    (if w.c2s.inq = [] then [] else [Who.srv]) ++ appTrace p k ss (wstep p k (.app .srv) w)
  | .app .cli :: ss, w =>
    (if w.s2c.inq = [] then [] else [Who.cli]) ++ appTrace p k ss (wstep p k (.app .cli) w)
  | s :: ss, w => appTrace p k ss (wstep p k s w)

end NfcVerif.Chan
