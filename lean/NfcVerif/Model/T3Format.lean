import NfcVerif.Model.T3
/-!
# Type 3 Tag `format()` (`Type3Tag._format`, `nfc/tag/tt3.py`)

The tag is the memory of the NDEF service (`N` blocks of 16 octets) and the numbers of blocks it
accepts in one read / write command (`limR`, `limW`).  `_format` probes the tag (block 0 readable,
binary search for the last readable block number, read of `k × [0]` for k = 1..15, write-back of
block 0 `k` times for k = 1..13), writes a fresh attribute block and, when asked, overwrites the
data blocks `Nmaxb .. 1` one by one.  State-changing commands are recorded with their explicit
block lists (the probe writes address block 0 several times in one command).

Modelled as in the repaired tree (`fixes/C03_t34`): `version=None` means mapping version 1.0.
`repaired = false` is the unchanged code, where packing `None` raises `struct.error` after the probing.
-/
namespace NfcVerif.T3
open NfcVerif.T34

/-- one Write Without Encryption with an explicit block list -/
structure GCmd where
  blocks : List Nat
  data : Bytes
  deriving DecidableEq, Repr

/-- the tag stores block after block (a later element for the same block wins) -/
def applyG (m : Bytes) (c : GCmd) : Bytes :=
  (c.blocks.zipIdx).foldl (fun m p => splice m (16 * p.1) (sliceN c.data (16 * p.2) (16 * (p.2 + 1)))) m

structure Phys where
  mem : Bytes
  limR : Nat
  limW : Nat

def blockOk (t : Phys) (b : Nat) : Bool := decide (16 * (b + 1) ≤ t.mem.length)
def readOk (t : Phys) (bl : List Nat) : Bool := !bl.isEmpty && decide (bl.length ≤ t.limR) && bl.all (blockOk t)
def writeOk (t : Phys) (bl : List Nat) : Bool := !bl.isEmpty && decide (bl.length ≤ t.limW) && bl.all (blockOk t)

/-- `while nmaxb[1] - nmaxb[0] > 1` (16 rounds for the interval [0, 10000h]) -/
def bsearch (t : Phys) : Nat → Nat → Nat → Nat
  | 0, lo, _ => lo
  | fuel + 1, lo, hi =>
    if hi - lo > 1 then
      let b := lo + (hi - lo) / 2
      if readOk t [b] then bsearch t fuel b hi else bsearch t fuel lo b
    else lo

/-- `for k in range(1, top+1): try: op(k) except: k -= 1; break` -/
def probeUp (ok : Nat → Bool) (top : Nat) : Nat → Nat → Nat
  | 0, k => k - 1
  | fuel + 1, k => if k > top then top else if ok k then probeUp ok top fuel (k + 1) else k - 1

structure FTrace where
  sent : List GCmd
  mem : Bytes
  res : Py Bool

def repeatBytes (k : Nat) (d : Bytes) : Bytes := (List.replicate k d).flatten

/-- the write probes that succeeded: `k × block 0` written to `k × [0]`, k = 1..nbw -/
def probeWrites (blk0 : Bytes) (nbw : Nat) : List GCmd :=
  (List.range nbw).map fun j => ⟨List.replicate (j + 1) 0, repeatBytes (j + 1) blk0⟩

/-- `while nmaxb > 0: write(data, nmaxb); nmaxb -= 1` -/
def wipeCmds (w : Nat) : Nat → List GCmd
  | 0 => []
  | n + 1 => ⟨[n + 1], List.replicate 16 w⟩ :: wipeCmds w n

def formatAttr (version nbr nbw nmaxb : Nat) : Bytes :=
  encodeAttr ⟨version, nbr, nbw, nmaxb, 0, if nbw > 0 then 1 else 0, 0⟩

/-- `Type3Tag._format(version, wipe)` on a tag with system code 12FCh -/
def format (repaired : Bool) (t : Phys) (version wipe : Option Nat) : FTrace :=
  let ver? : Option Nat := match version with
    | some v => some v
    | none => if repaired then some 0x10 else none
  let badVersion : Bool := match version with
    | some v => if repaired then decide (v / 16 ≠ 1) else decide (v ≠ 0 ∧ v / 16 ≠ 1)
    | none => false
  if badVersion then ⟨[], t.mem, .ok false⟩
  else if readOk t [0] = false then ⟨[], t.mem, .ok false⟩
  else
    let nmaxb := bsearch t 17 0 0x10000
    let nbr := probeUp (fun k => readOk t (List.replicate k 0)) 15 15 1
    let nbw0 := probeUp (fun k => writeOk t (List.replicate k 0)) 13 13 1
    let probes := probeWrites (t.mem.take 16) nbw0
    let m1 := probes.foldl applyG t.mem
    let nbw := if nbw0 = 13 ∧ nmaxb > 255 then 12 else nbw0
    match ver? with
    | none => ⟨probes, m1, .error .struct⟩                    -- pack(">BBBH", None, ...)
    | some v =>
      if v > 255 then ⟨probes, m1, .error .struct⟩
      else if writeOk t [0] = false then ⟨probes, m1, .error tagStatusErr⟩
      else
        let a : GCmd := ⟨[0], formatAttr v nbr nbw nmaxb⟩
        let m2 := applyG m1 a
        match wipe with
        | none => ⟨probes ++ [a], m2, .ok true⟩
        | some w =>
          if w > 255 then ⟨probes ++ [a], m2, .error .value⟩    -- bytearray([wipe])
          else ⟨probes ++ [a] ++ wipeCmds w nmaxb, (wipeCmds w nmaxb).foldl applyG m2, .ok true⟩

end NfcVerif.T3
