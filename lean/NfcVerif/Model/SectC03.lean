import NfcVerif.Py
/-!
# C03: Type 2 Tags with more than one 1 KiB sector - which sector does a page command reach?

`Type2Tag.sector_select / read / write / transceive` and `Type2TagMemoryReader._read_from_tag /
_write_to_tag / __getitem__ / __setitem__` of `nfc/tag/tt2.py`, run against a Type 2 Tag state machine
(`Tag`: memory, selected sector, "packet 1 acknowledged, waiting for packet 2") through an air interface
that can damage EVERY `clf.exchange()` call (`Air`, one script entry per call; an exhausted script means no
more faults).

State that decides WHERE a page command lands: the sector the tag really is in (`Tag.sector`) and the
sector the tag OBJECT believes is selected (`W.cur`, `Type2Tag._current_sector`).

The object's belief is `Option Nat`: `none` = unknown (`_current_sector = None` after a packet 2 that was
answered by anything but silence: "the tag may or may not have switched"); the next page access of the memory
reader then selects its sector again because `sector != None`.  After a NAK answer to READ the code senses the
tag again (the tag returns to sector 0) and sets the belief to `some 0`.

One kind of event cannot be handled by any reader and is recorded in `W.amb` (the belief may be wrong from
then on): the passive acknowledgement of SECTOR SELECT packet 2 was not faithful - the reader saw silence
although the tag did not switch, or a clean NAK although it did.
-/
namespace NfcVerif.SectC03
open NfcVerif

/-- what the reader sees instead of an answer (`nak`: a clean 4-bit NAK `01h`) -/
inductive RErr | timeout | transmission | protocol | nak
  deriving DecidableEq, Repr

/-- fault of one `exchange()` call: `drop` = the frame never reaches the tag (reader: timeout); `corrupt e`
= the tag receives a damaged frame, does not execute it, gives up a pending SECTOR SELECT (reader sees `e`);
`lost e` = the tag executes the command, the reader sees `e` instead of the answer -/
inductive Air | ok | drop | corrupt (e : RErr) | lost (e : RErr)
  deriving DecidableEq, Repr

structure Tag where
  mem : Bytes
  sector : Nat
  pend : Bool
  deriving DecidableEq, Repr

/-- command frames; `page` is the LINEAR page number the caller passed (the frame carries `page % 256`) -/
inductive Frame
  | ss1 | ss2 (s : Nat) | read (page : Nat) | write (page : Nat) (d : Bytes)
  deriving DecidableEq, Repr

inductive Kind | read | write | select
  deriving DecidableEq, Repr

/-- a command the tag EXECUTED: sector the tag was in, sector the object believed, linear page (select: the
new sector), data written, issued by the memory reader?, no ambiguous event so far? -/
structure Ev where
  kind : Kind
  real : Nat
  bel : Option Nat
  page : Nat
  data : Bytes
  mr : Bool
  clean : Bool
  deriving DecidableEq, Repr

structure W where
  tag : Tag
  cur : Option Nat
  script : List Air
  amb : Bool
  trace : List Ev          -- newest first
  deriving DecidableEq, Repr

def writeAt : Bytes → Nat → Bytes → Bytes
  | m, _, [] => m
  | m, a, d :: ds => writeAt (m.set a d) (a + 1) ds

/-- READ answer: 16 bytes from `a`, rolling over to byte 0 at the end of the memory -/
def read16 (m : Bytes) (a : Nat) : Bytes :=
  let d := sliceN m a (a + 16)
  d ++ m.take (16 - d.length)

/-- the tag executes one intact frame: new state, answer (`none` = silence), kind of executed command -/
def tagExec (t : Tag) (f : Frame) : Tag × Option Bytes × Option Kind :=
  if t.pend then
    match f with
    | .ss2 s => if s * 1024 < t.mem.length then ({ t with sector := s, pend := false }, none, some .select)
                else ({ t with pend := false }, some [0], none)
    | _ => ({ t with pend := false }, some [0], none)
  else
    match f with
    | .read p =>
      if t.sector * 1024 + (p % 256) * 4 ≥ t.mem.length then (t, some [0], none)
      else (t, some (read16 t.mem (t.sector * 1024 + (p % 256) * 4)), some .read)
    | .write p d =>
      if t.sector * 1024 + (p % 256) * 4 ≥ t.mem.length then (t, some [0], none)
      else ({ t with mem := writeAt t.mem (t.sector * 1024 + (p % 256) * 4) d }, some [0x0A], some .write)
    | .ss1 => if t.mem.length > 1024 then ({ t with pend := true }, some [0x0A], none) else (t, some [0], none)
    | .ss2 _ => (t, none, none)

def framePage : Frame → Nat
  | .ss1 => 0 | .ss2 s => s | .read p => p | .write p _ => p

def frameData : Frame → Bytes
  | .write _ d => d | _ => []

/-- the tag executes `f`; the executed command is appended to the trace -/
def execute (w : W) (mr : Bool) (f : Frame) (rest : List Air) : W × Option Bytes :=
  let r := tagExec w.tag f
  ({ w with tag := r.1, script := rest,
            trace := match r.2.2 with
              | some k => ⟨k, w.tag.sector, w.cur, framePage f, frameData f, mr, !w.amb⟩ :: w.trace
              | none => w.trace }, r.2.1)

/-- one `clf.exchange(frame, timeout)` -/
def exchange (w : W) (mr : Bool) (f : Frame) : W × Except RErr Bytes :=
  match w.script with
  | [] => let r := execute w mr f []
          (r.1, match r.2 with | some d => .ok d | none => .error .timeout)
  | .ok :: rest => let r := execute w mr f rest
                   (r.1, match r.2 with | some d => .ok d | none => .error .timeout)
  | .drop :: rest => ({ w with script := rest }, .error .timeout)
  | .corrupt e :: rest =>
    ({ w with tag := { w.tag with pend := false }, script := rest }, if e = .nak then .ok [1] else .error e)
  | .lost e :: rest => let r := execute w mr f rest
                       (r.1, if e = .nak then .ok [1] else .error e)

/-- the error `transceive` raises when all attempts failed -/
def errOf : RErr → Exc
  | .timeout => .tagCmd 0 | .transmission => .tagCmd (-1) | .protocol => .tagCmd (-2) | .nak => .runtime

/-- `Type2Tag.transceive(frame, timeout, retries)` with `n = 1 + retries` attempts left -/
def transceive : Nat → W → Bool → Frame → RErr → W × Py Bytes
  | 0, w, _, _, last => (w, .error (errOf last))
  | n + 1, w, mr, f, _ =>
    match exchange w mr f with
    | (w', .ok d) => (w', .ok d)
    | (w', .error e) => transceive n w' mr f e

/-- was the passive acknowledgement of packet 2 faithful?  (`valid`: the sector exists.)  Unfaithful: silence
without a switch (frame dropped, damaged frame unanswered, NAK of a non-existing sector lost) or a clean NAK seen
although the tag switched.  A damaged answer is NOT ambiguous: the code forgets the sector. -/
def ss2Faithful (valid : Bool) : Air → Bool
  | .ok => true
  | .drop => false
  | .corrupt e => e != .timeout
  | .lost e => if valid then e != .nak else e != .timeout

/-- second half of `sector_select`: packet 2 with `timeout=0.001, retries=0` (`transceive` with one attempt =
one `exchange`, a communication error mapped to its `Type2TagCommandError`) and the passive acknowledgement -/
def selectP2 (w1 : W) (mr : Bool) (s : Nat) : W × Py Nat :=
  let amb := w1.amb || !(ss2Faithful (decide (s * 1024 < w1.tag.mem.length)) (w1.script.headD .ok))
  match exchange w1 mr (.ss2 s) with
  | (w2, .error e) =>
    if e = .timeout then ({ w2 with cur := some s, amb := amb }, .ok s)   -- passive ack
    else ({ w2 with cur := none, amb := amb }, .error (errOf e))          -- may or may not have switched
  | (w2, .ok _) => ({ w2 with amb := amb }, .error (.tagCmd 1))          -- sector does not exist

/-- `Type2Tag.sector_select(sector)` -/
def sectorSelect (w : W) (mr : Bool) (s : Nat) : W × Py Nat :=
  if w.cur = some s then (w, .ok s) else
  match transceive 3 w mr .ss1 .timeout with
  | (w1, .error e) => (w1, .error e)
  | (w1, .ok rsp) => if rsp = [0x0A] then selectP2 w1 mr s else (w1, .error (.tagCmd 1))

/-- `Type2Tag.read(page)`; a NAK makes the code sense the tag again: the tag returns to sector 0 and
`_current_sector` is set to 0 -/
def read (w : W) (mr : Bool) (page : Nat) : W × Py Bytes :=
  match transceive 3 w mr (.read page) .timeout with
  | (w1, .error e) => (w1, .error e)
  | (w1, .ok d) =>
    if d.length = 1 ∧ (d.headD 0) &&& 0xFA = 0 then
      ({ w1 with tag := { w1.tag with sector := 0, pend := false }, cur := some 0 }, .error (.tagCmd 2))
    else if d.length ≠ 16 then (w1, .error (.tagCmd 3))
    else (w1, .ok d)

/-- `Type2Tag.write(page, data)` -/
def write (w : W) (mr : Bool) (page : Nat) (d : Bytes) : W × Py Unit :=
  if d.length ≠ 4 then (w, .error .value) else
  match transceive 3 w mr (.write page d) .timeout with
  | (w1, .error e) => (w1, .error e)
  | (w1, .ok rsp) =>
    if rsp.length ≠ 1 then (w1, .error (.tagCmd 3))
    else if rsp.headD 0 ≠ 0x0A then (w1, .error (.tagCmd 2))
    else (w1, .ok ())

/-! ## the memory reader -/

structure MR where
  fromTag : Bytes
  cache : Bytes
  unconf : List Nat
  deriving DecidableEq, Repr

/-- `_read_from_tag(stop)` from `index`; `fuel` bounds the number of 16 byte chunks -/
def readFrom : Nat → W → MR → Nat → Nat → (W × MR) × Py Unit
  | 0, w, m, _, _ => ((w, m), .ok ())
  | fuel + 1, w, m, index, stop =>
    if index < stop then
      match sectorSelect w true (index / 1024) with
      | (w1, .error e) => ((w1, m), .error e)
      | (w1, .ok _) =>
        match read w1 true (index / 4) with
        | (w2, .error e) => ((w2, m), .error e)
        | (w2, .ok d) =>
          readFrom fuel w2 { m with fromTag := m.fromTag.take index ++ d, cache := m.cache.take index ++ d }
            (index + 16) stop
    else ((w, m), .ok ())

def readFromTag (w : W) (m : MR) (stop : Nat) : (W × MR) × Py Unit :=
  readFrom (stop / 16 + 1) w m (m.fromTag.length / 16 * 16) stop

/-- `_write_to_tag(stop)` over the page indices `is` (byte addresses, ascending, step 4) -/
def writeUnits : List Nat → W → MR → (W × MR) × Py Unit
  | [], w, m => ((w, m), .ok ())
  | i :: is, w, m =>
    if sliceN m.cache i (i + 4) ≠ sliceN m.fromTag i (i + 4) ∨ i ∈ m.unconf then
      match sectorSelect w true (i / 1024) with
      | (w1, .error e) => ((w1, m), .error e)
      | (w1, .ok _) =>
        match write w1 true (i / 4) (sliceN m.cache i (i + 4)) with
        | (w2, .error e) => ((w2, { m with unconf := if i ∈ m.unconf then m.unconf else i :: m.unconf }), .error e)
        | (w2, .ok _) =>
          writeUnits is w2 { m with unconf := m.unconf.filter (· ≠ i),
                                     fromTag := writeAt m.fromTag i (sliceN m.cache i (i + 4)) }
    else writeUnits is w m

/-- `synchronize()` -/
def synchronize (w : W) (m : MR) : (W × MR) × Py Unit :=
  writeUnits ((List.range ((m.fromTag.length + 3) / 4)).map (· * 4)) w m

/-- `reader[a]` -/
def getItem (w : W) (m : MR) (a : Nat) : (W × MR) × Py Nat :=
  if a ≥ m.fromTag.length then
    match readFromTag w m (a + 1) with
    | (s, .error e) => (s, .error e)
    | ((w1, m1), .ok _) => ((w1, m1), idxN m1.cache a)
  else ((w, m), idxN m.cache a)

/-- `reader[a] = v` -/
def setItem (w : W) (m : MR) (a v : Nat) : (W × MR) × Py Unit :=
  match getItem w m a with
  | (s, .error e) => (s, .error e)
  | ((w1, m1), .ok _) => ((w1, { m1 with cache := (m1.cache.set a v).take m1.fromTag.length }), .ok ())

/-! ## histories: calls on ONE tag object and ONE memory reader; an exception reaches the application, which
goes on with the next call -/

inductive Op
  | get (a : Nat) | set (a v : Nat) | sync
  | sel (s : Nat) | rd (p : Nat) | wr (p : Nat) (d : Bytes)
  deriving DecidableEq, Repr

inductive Res | unit | nat (n : Nat) | bytes (b : Bytes) | exc (e : Exc)
  deriving DecidableEq, Repr

def step (s : W × MR) : Op → (W × MR) × Res
  | .get a => match getItem s.1 s.2 a with
    | (s', .ok v) => (s', .nat v) | (s', .error e) => (s', .exc e)
  | .set a v => match setItem s.1 s.2 a v with
    | (s', .ok _) => (s', .unit) | (s', .error e) => (s', .exc e)
  | .sync => match synchronize s.1 s.2 with
    | (s', .ok _) => (s', .unit) | (s', .error e) => (s', .exc e)
  | .sel n => match sectorSelect s.1 false n with
    | (w, .ok v) => ((w, s.2), .nat v) | (w, .error e) => ((w, s.2), .exc e)
  | .rd p => match read s.1 false p with
    | (w, .ok d) => ((w, s.2), .bytes d) | (w, .error e) => ((w, s.2), .exc e)
  | .wr p d => match write s.1 false p d with
    | (w, .ok _) => ((w, s.2), .unit) | (w, .error e) => ((w, s.2), .exc e)

def run : (W × MR) → List Op → (W × MR) × List Res
  | s, [] => (s, [])
  | s, o :: os =>
    let r := step s o
    let t := run r.1 os
    (t.1, r.2 :: t.2)

/-- a freshly activated object on a tag in sector 0, nothing read yet -/
def fresh (mem : Bytes) (script : List Air) : W × MR :=
  (⟨⟨mem, 0, false⟩, some 0, script, false, []⟩, ⟨[], [], []⟩)

/-- absolute byte address an executed page command touched -/
def Ev.addr (e : Ev) : Nat := e.real * 1024 + (e.page % 256) * 4

end NfcVerif.SectC03
