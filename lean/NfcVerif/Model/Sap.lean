import NfcVerif.Py
/-!
# LLCP address table of one link controller (property C17)

Transcription of `nfc/llcp/llc.py` (`LogicalLinkController.bind/_bind_by_*`,
`close`, `ServiceAccessPoint.insert_socket/remove_socket/enqueue/dequeue`,
`ServiceDiscovery.enqueue/dequeue`, `dispatch`, `collect` with `send-agf`
off) and of the parts of `nfc/llcp/tco.py` that decide where a PDU ends up
(`enqueue`/`dequeue` of the three socket classes, `listen`, `accept`,
`connect`, `sendto`, `recvfrom`, `close`).

The model is of the REPAIRED code (fix patches in `fixes/C17`):
* F8: `remove_socket` deletes the service names of a SAP that becomes empty;
* F9: binding a well-known service name to an occupied address is refused
  with `EADDRINUSE`.
F22 (`EADDRNOTAVAIL` when 16..31 are exhausted) is modelled as found.

Outside the modelled domain (the driver answers `exc OutOfFuel`, the harness
never generates it or stops the history there): I-PDU traffic on established
connections (property C05), a non-connection PDU routed to an *established*
data link connection (F39: the real dispatch blocks for ever), PDUs that do
not fit the link MIU.
-/
namespace NfcVerif.Sap

inductive Kind | raw | ldl | dlc
  deriving DecidableEq, Repr, Inhabited

inductive St | shutdown | closed | listen | connect | established | disconnect | closeWait
  deriving DecidableEq, Repr, Inhabited

/-- the PDUs that occur in the modelled histories -/
inductive Pdu
  | ui (dsap ssap : Nat) (data : Bytes)
  | conn (dsap ssap : Nat) (sn : Option Bytes)
  | cc (dsap ssap : Nat)
  | dm (dsap ssap reason : Nat)
  | disc (dsap ssap : Nat)
  | frmr (dsap ssap ptype : Nat)
  | snl (sdreq : List (Nat × Bytes)) (sdres : List (Nat × Nat))
  deriving DecidableEq, Repr, Inhabited

namespace Pdu
def dsap : Pdu → Nat
  | ui d _ _ | conn d _ _ | cc d _ | dm d _ _ | disc d _ | frmr d _ _ => d
  | snl _ _ => 1
def ssap : Pdu → Nat
  | ui _ s _ | conn _ s _ | cc _ s | dm _ s _ | disc _ s | frmr _ s _ => s
  | snl _ _ => 1
/-- `name in DataLinkConnection.DLC_PDU_NAMES` -/
def isDlc : Pdu → Bool
  | ui .. | snl .. => false
  | _ => true
def ptype : Pdu → Nat
  | ui .. => 3 | conn .. => 4 | disc .. => 5 | cc .. => 6 | dm .. => 7 | frmr .. => 8 | snl .. => 9
def isConn : Pdu → Bool
  | conn .. => true
  | _ => false
end Pdu

structure Sock where
  kind : Kind
  st : St
  addr : Option Nat := none
  peer : Option Nat := none
  recvq : List Pdu := []
  sendq : List Pdu := []
  recvBuf : Nat := 1
  deriving Repr, Inhabited

/-- `ServiceAccessPoint`: `sock_list` (front = most recently inserted), `send_list` -/
structure SapEntry where
  socks : List Nat
  sendl : List Pdu := []
  deriving Repr, Inhabited

/-- `ServiceDiscovery` -/
structure Sd where
  cache : List (Bytes × Nat) := []
  tids : List Nat := List.range 256
  sent : List (Nat × Bytes) := []
  sdreq : List (Nat × Bytes) := []
  sdres : List (Nat × Nat) := []
  dmpdu : List Pdu := []
  deriving Inhabited

structure Llc where
  n : Nat
  sock : Nat → Sock
  sap : Nat → Option SapEntry
  snl : List (Bytes × Nat)
  sd : Sd

/-- function update -/
def upd {β : Type} (f : Nat → β) (a : Nat) (v : β) : Nat → β := fun b => if b = a then v else f b

/-- `d[k] = v` on an association list with Python `dict` semantics -/
def dictSet {κ ν : Type} [BEq κ] (k : κ) (v : ν) : List (κ × ν) → List (κ × ν)
  | [] => [(k, v)]
  | (k', v') :: t => if k' == k then (k', v) :: t else (k', v') :: dictSet k v t

/-! ## service names -/

def pfxSn : Bytes := [117, 114, 110, 58, 110, 102, 99, 58, 115, 110, 58]          -- "urn:nfc:sn:"
def pfxXsn : Bytes := [117, 114, 110, 58, 110, 102, 99, 58, 120, 115, 110, 58]    -- "urn:nfc:xsn:"
def nameSdp : Bytes := pfxSn ++ [115, 100, 112]
def nameSnep : Bytes := pfxSn ++ [115, 110, 101, 112]

def isAlpha (b : Nat) : Bool := (65 ≤ b && b ≤ 90) || (97 ≤ b && b ≤ 122)
def isTail (b : Nat) : Bool :=
  isAlpha b || (48 ≤ b && b ≤ 57) || b == 45 || b == 95 || b == 58 || b == 46

def stripPrefix : Bytes → Bytes → Option Bytes
  | [], l => some l
  | _ :: _, [] => none
  | p :: ps, b :: bs => if p = b then stripPrefix ps bs else none

/-- `[a-zA-Z][a-zA-Z0-9-_:\.]*$` (Python's `$` also matches before one final newline) -/
def validBody : Bytes → Bool
  | [] => false
  | h :: t => isAlpha h && (if t.getLast? = some 10 then t.dropLast else t).all isTail

/-- `service_name_format.match(name)` -/
def validName (nm : Bytes) : Bool :=
  match stripPrefix pfxSn nm with
  | some b => validBody b
  | none => match stripPrefix pfxXsn nm with
    | some b => validBody b
    | none => false

/-- `wks_map.get(name)` -/
def wks (nm : Bytes) : Option Nat :=
  if nm = nameSdp then some 1 else if nm = nameSnep then some 4 else none

/-! ## initial state, sockets -/

def init : Llc :=
  { n := 0
    sock := fun _ => { kind := .raw, st := .shutdown }
    sap := fun a => if a = 0 ∨ a = 1 then some { socks := [] } else none
    snl := [(nameSdp, 1)]
    sd := {} }

def setSock (c : Llc) (id : Nat) (s : Sock) : Llc := { c with sock := upd c.sock id s }

/-- `llc.socket(type)` -/
def newSocket (c : Llc) (k : Kind) : Llc × Nat :=
  ({ c with n := c.n + 1,
            sock := upd c.sock c.n { kind := k, st := if k = .dlc then .closed else .established } }, c.n)

/-! ## bind -/

inductive BindArg
  | none
  | addr (a : Int)
  | name (nm : Bytes)
  deriving Repr

/-- `lo + self.sap[lo:lo+cnt].index(None)` -/
def freeIn (c : Llc) (lo cnt : Nat) : Option Nat :=
  (List.range' lo cnt).find? (fun a => (c.sap a).isNone)

/-- `socket.bind(addr); self.sap[addr] = ServiceAccessPoint(addr); insert_socket(socket)` -/
def bindAt (c : Llc) (id a : Nat) : Llc :=
  { c with sock := upd c.sock id { c.sock id with addr := some a }
           sap := upd c.sap a (some { socks := [id] }) }

def EINVAL := 22
def EAGAIN := 11
def EFAULT := 14
def EADDRINUSE := 98
def EACCES := 13
def EADDRNOTAVAIL := 99
def EPIPE := 32
def EBADF := 9
def ESHUTDOWN := 108
def ENOTCONN := 107
def EDESTADDRREQ := 89
def EMSGSIZE := 90
def EOPNOTSUPP := 95
def EALREADY := 114
def EISCONN := 106

/-- `LogicalLinkController.bind` (socket argument is a socket) -/
def bind (c : Llc) (id : Nat) (arg : BindArg) : Py Llc :=
  if (c.sock id).addr.isSome then throw (.llcp EINVAL) else
  match arg with
  | .none =>
    match freeIn c 32 32 with
    | none => throw (.llcp EAGAIN)
    | some a => pure (bindAt c id a)
  | .addr a =>
    if a < 0 ∨ a > 63 then throw (.llcp EFAULT) else
    if 32 ≤ a ∨ (c.sock id).kind = .raw then
      if (c.sap a.toNat).isNone then pure (bindAt c id a.toNat) else throw (.llcp EADDRINUSE)
    else throw (.llcp EACCES)
  | .name nm =>
    if validName nm = false then throw (.llcp EFAULT) else
    if (c.snl.lookup nm).isSome then throw (.llcp EADDRINUSE) else
    match wks nm with
    | some a =>
      if (c.sap a).isSome then throw (.llcp EADDRINUSE)    -- repaired F9
      else pure { bindAt c id a with snl := c.snl ++ [(nm, a)] }
    | none =>
      match freeIn c 16 16 with
      | none => throw (.llcp EADDRNOTAVAIL)                -- F22, as found
      | some a => pure { bindAt c id a with snl := c.snl ++ [(nm, a)] }

/-- implicit `if not socket.is_bound: self.bind(socket)` -/
def bindIfUnbound (c : Llc) (id : Nat) : Py Llc :=
  if (c.sock id).addr.isSome then pure c else bind c id .none

/-! ## close -/

/-- `TransmissionControlObject.close` -/
def baseClose (s : Sock) : Sock := { s with sendq := [], recvq := [], st := .shutdown }

/-- `ServiceAccessPoint.remove_socket` after `socket.close()` has run (the socket
record `s'` is the closed socket) -/
def removeSocket (c : Llc) (id a : Nat) (e : SapEntry) (s' : Sock) : Llc :=
  let rest := e.socks.erase id
  let c1 := setSock c id s'
  if rest = [] then
    { c1 with sap := upd c1.sap a none
              snl := c1.snl.filter (fun q => q.2 != a) }      -- repaired F8
  else { c1 with sap := upd c1.sap a (some { e with socks := rest }) }

/-! ## routing of a received PDU (run-loop side) -/

def appendRecv (s : Sock) (p : Pdu) : Sock :=
  if s.recvq.length < s.recvBuf then { s with recvq := s.recvq ++ [p] } else s

/-- `socket.enqueue(pdu)`; `none` = the real code would block for ever (F39) -/
def sockEnqueue (s : Sock) (p : Pdu) : Option Sock :=
  match s.kind with
  | .raw => some (appendRecv s p)
  | .ldl =>
    match p with
    | .ui _ _ data => if data.length > 248 then some s else some (appendRecv s p)
    | _ => some s
  | .dlc =>
    if p.isDlc = false then
      if s.st = .established ∧ s.addr.isSome then none
      else some { baseClose s with sendq := [.frmr p.ssap p.dsap p.ptype] }
    else
      match s.st with
      | .closed => some { s with sendq := s.sendq ++ [.dm p.ssap p.dsap 1] }
      | .listen =>
        if p.isConn then
          if s.recvq.length < s.recvBuf then some { s with recvq := s.recvq ++ [p] }
          else some { s with sendq := s.sendq ++ [.dm p.ssap p.dsap 0x20] }
        else some s
      | .connect =>
        match p with
        | .cc .. | .dm .. =>      -- only the first answer to the CONNECT counts
          if s.recvq.isEmpty then some { s with recvq := s.recvq ++ [p] } else some s
        | _ => some s
      | .disconnect =>
        match p with
        | .dm .. => some { s with recvq := s.recvq ++ [p] }
        | _ => some s
      | .established =>
        match p with
        | .frmr .. => some (baseClose s)
        | .disc .. =>
          match s.peer, s.addr with
          | some pr, some a => some { s with st := .closeWait, sendq := [.dm pr a 0] }
          | _, _ => none
        | _ => some s
      | _ => some s

def sapSend (c : Llc) (a : Nat) (e : SapEntry) (p : Pdu) : Llc :=
  { c with sap := upd c.sap a (some { e with sendl := e.sendl ++ [p] }) }

/-- the socket of a SAP that `ServiceAccessPoint.enqueue` selects -/
def target (c : Llc) (e : SapEntry) (p : Pdu) : Option Nat :=
  if p.isConn then e.socks.find? (fun id => (c.sock id).st = .listen)
  else e.socks.find? (fun id => (c.sock id).peer = some p.ssap ∨ (c.sock id).peer = none)

/-- `ServiceAccessPoint.enqueue` -/
def sapEnqueue (c : Llc) (a : Nat) (e : SapEntry) (p : Pdu) : Py Llc :=
  match target c e p with
  | some id =>
    match sockEnqueue (c.sock id) p with
    | some s' => pure (setSock c id s')
    | none => throw .outOfFuel
  | none =>
    if p.isConn then pure (sapSend c a e (.dm p.ssap p.dsap 2))
    else if p.isDlc then pure (sapSend c a e (.dm p.ssap p.dsap 1))
    else pure c

/-- `ServiceDiscovery.enqueue` of an SNL PDU: responses first, then requests -/
def sdResponses (sd : Sd) : List (Nat × Nat) → Sd
  | [] => sd
  | (tid, v) :: t =>
    match sd.sent.lookup tid with
    | none => sdResponses sd t
    | some nm =>
      let a := if (v / 64) % 2 = 1 then 1 else v % 64
      sdResponses { sd with cache := dictSet nm a sd.cache, tids := sd.tids ++ [tid] } t

def sdRequests (snl : List (Bytes × Nat)) (sd : Sd) : List (Nat × Bytes) → Sd
  | [] => sd
  | (tid, nm) :: t =>
    sdRequests snl { sd with sdres := sd.sdres ++ [(tid, (snl.lookup nm).getD 0)] } t

/-- `LogicalLinkController.dispatch` of one (non-aggregated, non-SYMM) PDU -/
def dispatch (c : Llc) (p : Pdu) : Py Llc :=
  match p with
  | .snl rq rs => pure { c with sd := sdRequests c.snl (sdResponses c.sd rs) rq }
  | .conn 1 ssap sn =>
    -- connect-by-name
    match sn.bind (fun nm => c.snl.lookup nm) with
    | none => pure { c with sd := { c.sd with dmpdu := c.sd.dmpdu ++ [.dm ssap 1 (if sn.isNone then 0x10 else 2)] } }
    | some addr =>
      match (if addr = 0 then none else c.sap addr) with
      | none => pure { c with sd := { c.sd with dmpdu := c.sd.dmpdu ++ [.dm ssap 1 (if sn.isNone then 0x10 else 2)] } }
      | some e => if addr = 1 then pure c else sapEnqueue c addr e (.conn addr ssap none)
  | _ =>
    if p.dsap = 1 then pure c else
    match c.sap p.dsap with
    | none => pure c
    | some e => sapEnqueue c p.dsap e p

/-! ## collecting the next PDU to send (`send-agf` off) -/

/-- `socket.dequeue` (all PDUs fit the MIU) -/
def sockDequeue (s : Sock) : Option (Pdu × Sock) :=
  match s.sendq with
  | [] => none
  | p :: rest =>
    let s1 := { s with sendq := rest }
    match s.kind, p with
    | .dlc, .frmr .. => some (p, baseClose s1)
    | .dlc, .dm .. =>
      if s.st = .closeWait then
        match s.peer, s.addr with
        | some pr, some a => some (p, { s1 with recvq := s1.recvq ++ [.disc pr a] })
        | _, _ => some (p, s1)
      else some (p, s1)
    | _, _ => some (p, s1)

/-- first socket of `sock_list` that has something to send -/
def socksDequeue (c : Llc) : List Nat → Option (Pdu × Llc)
  | [] => none
  | id :: t =>
    match sockDequeue (c.sock id) with
    | some (p, s') => some (p, setSock c id s')
    | none => socksDequeue c t

/-- `ServiceAccessPoint.dequeue` -/
def sapDequeue (c : Llc) (a : Nat) (e : SapEntry) : Option (Pdu × Llc) :=
  match socksDequeue c e.socks with
  | some r => some r
  | none =>
    match e.sendl with
    | [] => none
    | p :: rest => some (p, { c with sap := upd c.sap a (some { e with sendl := rest }) })

/-- the `for i in range(len(self.sdreq))` loop of `ServiceDiscovery.dequeue` -/
def sdTakeReq : Nat → Sd → Nat → List (Nat × Bytes) → Sd × List (Nat × Bytes)
  | 0, sd, _, acc => (sd, acc)
  | k + 1, sd, miu, acc =>
    match sd.sdreq with
    | [] => (sd, acc)
    | (tid, nm) :: rest =>
      if 3 + nm.length > miu then sdTakeReq k { sd with sdreq := rest ++ [(tid, nm)] } miu acc
      else sdTakeReq k { sd with sdreq := rest, sent := dictSet tid nm sd.sent } (miu - (3 + nm.length))
             (acc ++ [(tid, nm)])

/-- `ServiceDiscovery.dequeue(128, _)` -/
def sdDequeue (sd : Sd) : Option (Pdu × Sd) :=
  if sd.sdres ≠ [] ∨ sd.sdreq ≠ [] then
    let rs := sd.sdres.take 32
    let sd1 := { sd with sdres := sd.sdres.drop 32 }
    let (sd2, rq) := sdTakeReq sd1.sdreq.length sd1 (128 - 4 * rs.length) []
    some (.snl rq rs, sd2)
  else
    match sd.dmpdu with
    | [] => none
    | p :: rest => some (p, { sd with dmpdu := rest })

/-- `sap.mode == RAW_ACCESS_POINT` (an empty `sock_list` gives mode 0 = raw) -/
def rawMode (c : Llc) (a : Nat) : Bool :=
  a ≠ 1 && match c.sap a with
    | none => false
    | some e => match e.socks with
      | [] => true
      | id :: _ => (c.sock id).kind = .raw

def collectFrom (c : Llc) : List Nat → Option (Pdu × Llc)
  | [] => none
  | a :: t =>
    if a = 1 then
      match sdDequeue c.sd with
      | some (p, sd') => some (p, { c with sd := sd' })
      | none => collectFrom c t
    else
      match c.sap a with
      | none => collectFrom c t
      | some e =>
        match sapDequeue c a e with
        | some r => some r
        | none => collectFrom c t

/-- raw SAPs first, each group in address order (`sorted(..., reverse=True)` is stable) -/
def collectOrder (c : Llc) : List Nat :=
  (List.range 64).filter (rawMode c) ++ (List.range 64).filter (fun a => !rawMode c a)

/-- `LogicalLinkController.collect()` with aggregation off -/
def collect (c : Llc) : Option (Pdu × Llc) := collectFrom c (collectOrder c)

end NfcVerif.Sap
