import NfcVerif.Model.Sap
/-!
# Two link controllers and the socket API (property C17)

Two `Llc` states coupled by `collect → encode → decode → dispatch` (the
encode/decode round trip is property C11; here the wire carries `Pdu`
values).  A blocking call of the real API (`Condition.wait()` inside
`connect`, `accept`, `recvfrom`, `close`, `resolve`) is modelled as "run the
link until nothing moves" (`pump`), exactly what the single-threaded harness
does inside `wait()`, followed by the code after the wait.
-/
namespace NfcVerif.Sap

/-- `false` = controller A, `true` = controller B -/
abbrev Side := Bool

structure Pair where
  a : Llc
  b : Llc
  /-- PDUs moved by the pumps of the current operation, newest first (`true` = sent by B) -/
  wire : List (Side × Pdu) := []

def Pair.get (p : Pair) (x : Side) : Llc := if x then p.b else p.a
def Pair.set (p : Pair) (x : Side) (c : Llc) : Pair := if x then { p with b := c } else { p with a := c }

def Pair.init : Pair := { a := Sap.init, b := Sap.init }

/-- one `collect()` at `x`, one `dispatch()` at the other side -/
def xfer (p : Pair) (x : Side) : Py (Pair × Bool) :=
  match collect (p.get x) with
  | none => pure (p, false)
  | some (pdu, cx) =>
    dispatch ((p.set x cx).get (!x)) pdu >>= fun cy =>
    pure ({ (p.set x cx).set (!x) cy with wire := (x, pdu) :: p.wire }, true)

/-- rounds A→B, B→A until a round moves nothing (at most `k` rounds) -/
def pump : Nat → Pair → Py Pair
  | 0, p => pure p
  | k + 1, p =>
    xfer p false >>= fun r1 =>
    xfer r1.1 true >>= fun r2 =>
    if r1.2 = false ∧ r2.2 = false then pure r2.1 else pump k r2.1

def pumpRounds : Nat := 16

/-- `TransmissionControlObject.recv()`: pop, else wait (= pump) and pop; `none` = `IndexError` -/
def popOrPump (p : Pair) (x : Side) (id : Nat) : Py (Pair × Option Pdu) :=
  match ((p.get x).sock id).recvq with
  | h :: t => pure (p.set x (setSock (p.get x) id { (p.get x).sock id with recvq := t }), some h)
  | [] =>
    pump pumpRounds p >>= fun p1 =>
    match ((p1.get x).sock id).recvq with
    | h :: t => pure (p1.set x (setSock (p1.get x) id { (p1.get x).sock id with recvq := t }), some h)
    | [] => pure (p1, none)

/-- apply a single-controller step at side `x` -/
def Pair.on (p : Pair) (x : Side) (f : Llc → Py Llc) : Py Pair :=
  f (p.get x) >>= fun c => pure (p.set x c)

/-! ## API operations

A Python exception does not roll the state back, therefore every operation
returns the new state together with `Py Out` (what the application sees).
The outer `Py` fails only with `outOfFuel`: the history left the modelled
domain (see `Model/Sap.lean`). -/

inductive Dest
  | addr (a : Nat)
  | name (nm : Bytes)
  deriving Repr

inductive Out
  | unit
  | addr (a : Option Nat)
  | sock (id : Nat) (addr peer : Option Nat)
  | bool (b : Bool)
  | data (d : Option Bytes) (src : Option Nat)
  | pdu (q : Pdu)
  | num (n : Nat)
  | nums (l : List Nat)
  deriving Repr

abbrev Step := Py (Pair × Py Out)

def done (p : Pair) (o : Out) : Step := pure (p, .ok o)
def fail (p : Pair) (e : Exc) : Step := pure (p, .error e)

def apiSocket (p : Pair) (x : Side) (k : Kind) : Step :=
  let r := newSocket (p.get x) k
  done (p.set x r.1) (.num r.2)

/-- `bind` followed by `getsockname` -/
def apiBind (p : Pair) (x : Side) (id : Nat) (arg : BindArg) : Step :=
  match bind (p.get x) id arg with
  | .ok c => done (p.set x c) (.addr (c.sock id).addr)
  | .error e => fail p e

/-- implicit bind of `connect/listen/sendto`, then `k` -/
def withBound (p : Pair) (x : Side) (id : Nat) (k : Pair → Step) : Step :=
  match bindIfUnbound (p.get x) id with
  | .ok c => k (p.set x c)
  | .error e => fail p e

/-- `llc.listen(socket, backlog)` with an `int` backlog ≥ 0 -/
def apiListen (p : Pair) (x : Side) (id backlog : Nat) : Step :=
  if ((p.get x).sock id).kind ≠ .dlc then fail p (.llcp EOPNOTSUPP) else
  withBound p x id fun p1 =>
  let s := (p1.get x).sock id
  if s.st = .shutdown then fail p1 (.llcp ESHUTDOWN) else
  if s.st ≠ .closed then fail p1 (.llcp EOPNOTSUPP) else
  done (p1.set x (setSock (p1.get x) id { s with st := .listen, recvBuf := min backlog 16 })) .unit

def connectPdu (a : Nat) : Dest → Pdu
  | .addr d => .conn d a none
  | .name nm => .conn 1 a (if nm = [] then none else some nm)

/-- `llc.connect(socket, dest)` -/
def apiConnect (p : Pair) (x : Side) (id : Nat) (dest : Dest) : Step :=
  withBound p x id fun p1 =>
  let c1 := p1.get x
  let s := c1.sock id
  match s.kind with
  | .raw => fail p1 .attr
  | .ldl =>
    if s.st = .shutdown then fail p1 (.llcp ESHUTDOWN) else
    match dest with
    | .addr a => done (p1.set x (setSock c1 id { s with peer := some a })) .unit
    | .name _ => throw .outOfFuel      -- `bytes > 0` is a TypeError after `peer` was overwritten: not modelled
  | .dlc =>
    if s.st = .established then fail p1 (.llcp EISCONN) else
    if s.st = .connect then fail p1 (.llcp EALREADY) else
    if s.st ≠ .closed then fail p1 (.llcp EPIPE) else
    match s.addr with
    | none => throw .outOfFuel
    | some a =>
      let c2 := setSock c1 id { s with st := .connect, sendq := s.sendq ++ [connectPdu a dest] }
      popOrPump (p1.set x c2) x id >>= fun r =>
      let s3 := (r.1.get x).sock id
      match r.2 with
      | none => fail r.1 (.llcp EPIPE)
      | some (.dm ..) => fail (r.1.set x (setSock (r.1.get x) id { s3 with st := .closed })) .connectRefused
      | some (.cc _ ss) =>
        done (r.1.set x (setSock (r.1.get x) id { s3 with peer := some ss, recvBuf := 1, st := .established })) .unit
      | some _ => fail r.1 .runtime

/-- `llc.accept(socket)`; after `EPIPE` the `recv_buf` of the listener stays incremented -/
def apiAccept (p : Pair) (x : Side) (id : Nat) : Step :=
  let c := p.get x
  let s := c.sock id
  if s.kind ≠ .dlc then fail p (.llcp EOPNOTSUPP) else
  if s.st = .shutdown then fail p (.llcp ESHUTDOWN) else
  if s.st ≠ .listen then fail p (.llcp EINVAL) else
  let c1 := setSock c id { s with recvBuf := s.recvBuf + 1 }
  popOrPump (p.set x c1) x id >>= fun r =>
  let c2 := r.1.get x
  let s2 := c2.sock id
  match r.2 with
  | none => fail r.1 (.llcp EPIPE)
  | some (.conn _ ss _) =>
    match s2.addr with
    | none => throw .outOfFuel
    | some a =>
      let nid := c2.n
      let child : Sock := { kind := .dlc, st := .established, addr := some a, peer := some ss }
      let c3 : Llc := { c2 with n := c2.n + 1,
                                sock := upd (upd c2.sock id { s2 with recvBuf := s2.recvBuf - 1,
                                                                      sendq := s2.sendq ++ [.cc ss a] }) nid child }
      match c3.sap a with
      | none => fail (r.1.set x c3) .attr
      | some e =>
        done (r.1.set x { c3 with sap := upd c3.sap a (some { e with socks := nid :: e.socks }) })
             (.sock nid (some a) (some ss))
  | some _ => fail r.1 .runtime

/-- second half of `DataLinkConnection.connect`: the answer `q` to the CONNECT (or none) -/
def connectFinish (p : Pair) (x : Side) (id : Nat) (q : Option Pdu) : Pair × Py Out :=
  let s3 := (p.get x).sock id
  match q with
  | none => (p, .error (.llcp EPIPE))
  | some (.dm ..) => (p.set x (setSock (p.get x) id { s3 with st := .closed }), .error .connectRefused)
  | some (.cc _ ss) =>
    (p.set x (setSock (p.get x) id { s3 with peer := some ss, recvBuf := 1, st := .established }), .ok .unit)
  | some _ => (p, .error .runtime)

/-- `llc.connect(socket, dest)` on a data link connection socket while the application
at the other controller calls `accept` on its socket `lid`: inside the wait for the
answer the link runs, the peer accepts, the link runs again.  (Not an operation of the
history alphabet of the theorems; used by the driver so that a connect can complete in
the single-threaded correspondence runs.)  Third component: outcome of the peer's accept. -/
def apiConnectServed (p : Pair) (x : Side) (id : Nat) (dest : Dest) (lid : Nat) :
    Py (Pair × Py Out × Option (Py Out)) :=
  match bindIfUnbound (p.get x) id with
  | .error e => pure (p, .error e, none)
  | .ok cb =>
    let p1 := p.set x cb
    let s := cb.sock id
    if s.kind ≠ .dlc then throw .outOfFuel else
    if s.st = .established then pure (p1, .error (.llcp EISCONN), none) else
    if s.st = .connect then pure (p1, .error (.llcp EALREADY), none) else
    if s.st ≠ .closed then pure (p1, .error (.llcp EPIPE), none) else
    match s.addr with
    | none => throw .outOfFuel
    | some a =>
      let s2 : Sock := { s with st := .connect, sendq := s.sendq ++ [connectPdu a dest] }
      let p2 := p1.set x (setSock cb id s2)
      match s2.recvq with
      | h :: t =>
        let r := connectFinish (p2.set x (setSock (p2.get x) id { s2 with recvq := t })) x id (some h)
        pure (r.1, r.2, none)
      | [] =>
        pump pumpRounds p2 >>= fun p3 =>
        apiAccept p3 (!x) lid >>= fun ra =>
        pump pumpRounds ra.1 >>= fun p4 =>
        match ((p4.get x).sock id).recvq with
        | h :: t =>
          let r := connectFinish (p4.set x (setSock (p4.get x) id { (p4.get x).sock id with recvq := t })) x id (some h)
          pure (r.1, r.2, some ra.2)
        | [] =>
          let r := connectFinish p4 x id none
          pure (r.1, r.2, some ra.2)

/-- `self.peer and dest != self.peer` -/
def peerMismatch : Option Nat → Nat → Bool
  | some pr, dest => pr != 0 && dest != pr
  | none, _ => false

/-- `not (socket.addr and self.sap[socket.addr])` -/
def badFd (c : Llc) : Option Nat → Bool
  | some a => a == 0 || (c.sap a).isNone
  | none => true

/-- `llc.sendto(socket, bytes, dest, MSG_DONTWAIT)` -/
def apiSendto (p : Pair) (x : Side) (id : Nat) (msg : Bytes) (dest : Nat) : Step :=
  match ((p.get x).sock id).kind with
  | .raw => fail p .type_
  | .ldl =>
    withBound p x id fun p1 =>
    let s := (p1.get x).sock id
    if s.st = .shutdown then fail p1 (.llcp ESHUTDOWN) else
    if peerMismatch s.peer dest then fail p1 (.llcp EDESTADDRREQ) else
    if msg.length > 128 then fail p1 (.llcp EMSGSIZE) else
    match s.addr with
    | none => throw .outOfFuel
    | some a => done (p1.set x (setSock (p1.get x) id { s with sendq := s.sendq ++ [.ui dest a msg] })) (.bool true)
  | .dlc =>
    if ((p.get x).sock id).st = .established then throw .outOfFuel     -- I-PDU traffic: property C05
    else if ((p.get x).sock id).st = .closeWait then fail p (.llcp EPIPE)
    else fail p (.llcp ENOTCONN)

/-- a raw access point sends a PDU with arbitrary addresses -/
def apiSendPdu (p : Pair) (x : Side) (id : Nat) (q : Pdu) : Step :=
  if ((p.get x).sock id).kind ≠ .raw then throw .outOfFuel else
  withBound p x id fun p1 =>
  let s := (p1.get x).sock id
  if s.st = .shutdown then fail p1 (.llcp ESHUTDOWN) else
  done (p1.set x (setSock (p1.get x) id { s with sendq := s.sendq ++ [q] })) (.bool true)

/-- `llc.recvfrom(socket)` -/
def apiRecvfrom (p : Pair) (x : Side) (id : Nat) : Step :=
  let c := p.get x
  let s := c.sock id
  if badFd c s.addr then fail p (.llcp EBADF) else
  match s.kind with
  | .raw =>
    if s.st = .shutdown then fail p (.llcp ESHUTDOWN) else
    popOrPump p x id >>= fun r =>
    match r.2 with
    | none => fail r.1 (.llcp EPIPE)
    | some q => done r.1 (.pdu q)
  | .ldl =>
    if s.st = .shutdown then fail p (.llcp ESHUTDOWN) else
    popOrPump p x id >>= fun r =>
    match r.2 with
    | none => fail r.1 (.llcp EPIPE)
    | some (.ui _ ss d) => done r.1 (.data (some d) (some ss))
    | some _ => fail r.1 .attr
  | .dlc =>
    if s.st ≠ .established ∧ s.st ≠ .closeWait then fail p (.llcp ENOTCONN) else
    popOrPump p x id >>= fun r =>
    let s2 := (r.1.get x).sock id
    match r.2 with
    | none => done r.1 (.data none s2.peer)
    | some (.disc ..) => done (r.1.set x (setSock (r.1.get x) id (baseClose s2))) (.data none s2.peer)
    | some _ => fail r.1 .runtime

/-- `llc.resolve(name)` (transaction identifier = first free one) -/
def apiResolve (p : Pair) (x : Side) (nm : Bytes) : Step :=
  let c := p.get x
  match c.sd.cache.lookup nm with
  | some a => done p (.num a)
  | none =>
    match c.sd.tids with
    | [] => fail p .index
    | tid :: rest =>
      let c1 := { c with sd := { c.sd with tids := rest, sdreq := c.sd.sdreq ++ [(tid, nm)] } }
      pump pumpRounds (p.set x c1) >>= fun p1 =>
      match (p1.get x).sd.cache.lookup nm with
      | some a => done p1 (.num a)
      | none => throw .outOfFuel      -- the real `while name not in self.snl: wait()` would not return

/-! ### several `resolve()` calls at the same time

`k` application threads call `llc.resolve(name_i)` and all of them reach
`self.resp.wait()` before the run loop sends the next PDU: every call that does not
find its name in the cache draws a transaction identifier and queues its request
(`sdAsk`, in the order the threads arrived), then the link runs (all requests go out
in as few SNL PDUs as the MIU allows, the answers come back), then every call
returns `self.snl[name_i]`. -/

/-- `ServiceDiscovery.resolve` up to the wait; `none` = no transaction identifier left -/
def sdAsk (sd : Sd) (nm : Bytes) : Option Sd :=
  match sd.cache.lookup nm with
  | some _ => some sd
  | none =>
    match sd.tids with
    | [] => none
    | tid :: rest => some { sd with tids := rest, sdreq := sd.sdreq ++ [(tid, nm)] }

def sdAskAll : Sd → List Bytes → Option Sd
  | sd, [] => some sd
  | sd, nm :: t => (sdAsk sd nm).bind fun sd1 => sdAskAll sd1 t

/-- what a call returns: a call that found its name in the cache (`old`) returned that value at
once, the others return `self.snl[name]` after the wait (`new`); `none` when the answer is missing -/
def lookupOne (old new : List (Bytes × Nat)) (nm : Bytes) : Option Nat :=
  match old.lookup nm with
  | some a => some a
  | none => new.lookup nm

def lookupAll (old new : List (Bytes × Nat)) : List Bytes → Option (List Nat)
  | [] => some []
  | nm :: t => (lookupOne old new nm).bind fun a => (lookupAll old new t).map fun l => a :: l

/-- `k` concurrent `llc.resolve(name)` calls (results in the order of `nms`); a call whose
name is cached returns without waiting, so the link only runs when a request was queued -/
def apiResolveMany (p : Pair) (x : Side) (nms : List Bytes) : Step :=
  let c := p.get x
  match sdAskAll c.sd nms with
  | none => throw .outOfFuel
  | some sd1 =>
    (if sd1.sdreq.length = c.sd.sdreq.length then pure p
     else pump pumpRounds (p.set x { c with sd := sd1 })) >>= fun p1 =>
    match lookupAll c.sd.cache (p1.get x).sd.cache nms with
    | some l => done p1 (.nums l)
    | none => throw .outOfFuel        -- a `while name not in self.snl: wait()` would not return

/-- `socket.close()` of the three classes; an established data link connection
sends DISC and waits for the answer -/
def sockClose (p : Pair) (x : Side) (id : Nat) : Py Pair :=
  let c := p.get x
  let s := c.sock id
  if s.kind = .dlc ∧ s.st = .established ∧ s.addr.isSome then
    match s.peer, s.addr with
    | some pr, some a =>
      let c1 := setSock c id { s with st := .disconnect, sendq := s.sendq ++ [.disc pr a] }
      popOrPump (p.set x c1) x id >>= fun r =>
      pure (r.1.set x (setSock (r.1.get x) id (baseClose ((r.1.get x).sock id))))
    | _, _ => throw .outOfFuel
  else pure (p.set x (setSock c id (baseClose s)))

/-- `llc.close(socket)` (with the repair of the double close: a socket whose SAP has
gone is only closed) -/
def apiClose (p : Pair) (x : Side) (id : Nat) : Step :=
  match ((p.get x).sock id).addr with
  | none => sockClose p x id >>= fun p1 => done p1 .unit
  | some a =>
    match (p.get x).sap a with
    | none => sockClose p x id >>= fun p1 => done p1 .unit
    | some _ =>
      sockClose p x id >>= fun p1 =>
      let c1 := p1.get x
      match c1.sap a with
      | none => done p1 .unit      -- unreachable: the link never changes a table (`pump_same`)
      | some e1 => done (p1.set x (removeSocket c1 id a e1 (c1.sock id))) .unit

/-- one explicit `collect`/`dispatch` step -/
def apiXfer (p : Pair) (x : Side) : Step :=
  xfer p x >>= fun r => done r.1 (.bool r.2)

/-! ## histories -/

inductive Op
  | socket (x : Side) (k : Kind)
  | bind (x : Side) (id : Nat) (arg : BindArg)
  | listen (x : Side) (id backlog : Nat)
  | connect (x : Side) (id : Nat) (dest : Dest)
  | accept (x : Side) (id : Nat)
  | sendto (x : Side) (id : Nat) (msg : Bytes) (dest : Nat)
  | sendpdu (x : Side) (id : Nat) (dsap ssap : Nat) (data : Bytes)
  | recvfrom (x : Side) (id : Nat)
  | resolve (x : Side) (nm : Bytes)
  | close (x : Side) (id : Nat)
  | xfer (x : Side)
  /-- several `resolve()` calls waiting at the same time -/
  | resolveMany (x : Side) (nms : List Bytes)
  /-- a raw access point sends a service name lookup PDU with arbitrary content -/
  | sendsnl (x : Side) (id : Nat) (sdreq : List (Nat × Bytes)) (sdres : List (Nat × Nat))
  deriving Repr

def Op.side : Op → Side
  | .socket x _ | .bind x _ _ | .listen x _ _ | .connect x _ _ | .accept x _ | .sendto x _ _ _
  | .sendpdu x _ _ _ _ | .recvfrom x _ | .resolve x _ | .close x _ | .xfer x
  | .resolveMany x _ | .sendsnl x _ _ _ => x

/-- socket argument of an operation -/
def Op.sock? : Op → Option Nat
  | .socket .. | .resolve .. | .xfer .. | .resolveMany .. => none
  | .bind _ id _ | .listen _ id _ | .connect _ id _ | .accept _ id | .sendto _ id _ _
  | .sendpdu _ id _ _ _ | .recvfrom _ id | .close _ id | .sendsnl _ id _ _ => some id

/-- the socket argument is a socket created earlier at that controller -/
def Op.wf (p : Pair) (op : Op) : Bool :=
  match op.sock? with
  | some id => decide (id < (p.get op.side).n)
  | none => true

def applyOp (p : Pair) : Op → Step
  | .socket x k => apiSocket p x k
  | .bind x id arg => apiBind p x id arg
  | .listen x id bl => apiListen p x id bl
  | .connect x id d => apiConnect p x id d
  | .accept x id => apiAccept p x id
  | .sendto x id m d => apiSendto p x id m d
  | .sendpdu x id d s m => apiSendPdu p x id (.ui d s m)
  | .recvfrom x id => apiRecvfrom p x id
  | .resolve x nm => apiResolve p x nm
  | .close x id => apiClose p x id
  | .xfer x => apiXfer p x
  | .resolveMany x nms => apiResolveMany p x nms
  | .sendsnl x id rq rs => apiSendPdu p x id (.snl rq rs)

def apply (p : Pair) (op : Op) : Step :=
  if op.wf p then applyOp p op else throw .outOfFuel

/-- run a history; the state after an abort is the state before the aborting operation -/
def run (p : Pair) : List Op → Pair
  | [] => p
  | op :: t =>
    match apply p op with
    | .ok (p1, _) => run p1 t
    | .error _ => p

end NfcVerif.Sap
