import NfcVerif.Py
/-!
# Reference definitions for vendor specific tag arithmetic without a model counterpart

* Mifare Ultralight C (`tt2_nxp.py`): key selection and the AUTH0 / AUTH1 configuration pages (MF0ICU2
  data sheet: AUTH0 = first page that needs authentication, 30h = no protection; AUTH1 bit 0 = 1: only
  write access is restricted);
* FeliCa Lite `format()` (`tt3_sony.py`): the number of user blocks that the memory configuration
  block declares writeable (MC bytes 0..1, little-endian, bit `n` = block `n`).
-/
namespace NfcVerif.VendorRef

/-- "IEMKAERB!NACUOYF": the factory key `BREAKMEIFYOUCAN!` as the tag stores it (each half reversed) -/
def ulcDefaultKey : Bytes := [73, 69, 77, 75, 65, 69, 82, 66, 33, 78, 65, 67, 85, 79, 89, 70]

/-- key of `protect(password)`: the first 16 octets, the factory key for the empty password -/
def ulcKey (pw : Bytes) : Py Bytes :=
  if pw ≠ [] ∧ pw.length < 16 then .error .value else .ok (if pw = [] then ulcDefaultKey else pw.take 16)

theorem ulcKey_length (pw key : Bytes) (h : ulcKey pw = .ok key) : key.length = 16 := by
  unfold ulcKey at h
  split at h
  · cases h
  · rename_i hc
    cases h
    by_cases hp : pw = []
    · simp [hp, ulcDefaultKey]
    · have : ¬ pw.length < 16 := fun hl => hc ⟨hp, hl⟩
      simp [hp]; omega

/-- AUTH0 page: first protected page, clamped to 3..48 -/
def ulcAuth0 (protectFrom : Int) : Bytes := [(max 3 (min protectFrom 48)).toNat, 0, 0, 0]

theorem ulcAuth0_range (pf : Int) : ∃ p : Nat, 3 ≤ p ∧ p ≤ 48 ∧ ulcAuth0 pf = [p, 0, 0, 0] :=
  ⟨(max 3 (min pf 48)).toNat, by omega, by omega, rfl⟩

/-- AUTH1 page: 0 = read and write need authentication, 1 = write only -/
def ulcAuth1 (readProtect : Bool) : Bytes := if readProtect then [0, 0, 0, 0] else [1, 0, 0, 0]

/-- `for nmaxb in range(14): if rw_bits >> (nmaxb + 1) & 1 == 0: break` over the candidates `l`;
`last` is the value the loop variable holds when the list is exhausted -/
def firstClear (rw : Nat) : List Nat → Nat → Nat
  | [], last => last
  | n :: ns, _ => if (rw >>> (n + 1)) % 2 = 0 then n else firstClear rw ns n

/-- Nmaxb of a FeliCa Lite: user blocks 1.. that are writeable without a gap, at most 13 -/
def liteNmaxb (rw : Nat) : Nat := firstClear rw (List.range 14) 0

theorem firstClear_spec (rw : Nat) : ∀ (l : List Nat) (last : Nat),
    (firstClear rw l last = last ∧ (∀ n ∈ l, (rw >>> (n + 1)) % 2 = 1) ∧ l = []) ∨
    (firstClear rw l last ∈ l ∧ ((rw >>> (firstClear rw l last + 1)) % 2 = 0 ∨ l.getLast? = some (firstClear rw l last)))
  | [], last => Or.inl ⟨rfl, by simp, rfl⟩
  | n :: ns, last => by
    right
    unfold firstClear
    by_cases h : (rw >>> (n + 1)) % 2 = 0
    · simp [h]
    · simp only [h, if_false]
      rcases firstClear_spec rw ns n with ⟨h1, _, h3⟩ | ⟨h1, h2⟩
      · subst h3; simp [firstClear]
      · refine ⟨List.mem_cons_of_mem _ h1, ?_⟩
        rcases h2 with h2 | h2
        · exact Or.inl h2
        · right
          cases ns with
          | nil => simp at h1
          | cons a as => simpa [List.getLast?_cons_cons] using h2

/-- the declared number of blocks never exceeds the 13 user blocks behind the attribute block -/
theorem liteNmaxb_le (rw : Nat) : liteNmaxb rw ≤ 13 := by
  unfold liteNmaxb
  rcases firstClear_spec rw (List.range 14) 0 with ⟨_, _, h⟩ | ⟨h, _⟩
  · simp at h
  · have := List.mem_range.mp h; omega

/-- blocks 1 .. Nmaxb are all writeable according to the permission bits -/
theorem liteNmaxb_writeable (rw : Nat) : ∀ b, 1 ≤ b → b ≤ liteNmaxb rw → (rw >>> b) % 2 = 1 := by
  have key : ∀ (l : List Nat) (last : Nat) (k : Nat), l = List.range' k l.length →
      (∀ b, 1 ≤ b → b ≤ k → (rw >>> b) % 2 = 1) → last + 1 = k ∨ (k = 0 ∧ last = 0) →
      ∀ b, 1 ≤ b → b ≤ firstClear rw l last → (rw >>> b) % 2 = 1 := by
    intro l
    induction l with
    | nil =>
      intro last k _ hk hl b hb1 hb2
      simp only [firstClear] at hb2
      apply hk b hb1; omega
    | cons n ns ih =>
      intro last k hrange hk hl b hb1 hb2
      simp only [List.length_cons, List.range'_succ, List.cons.injEq] at hrange
      obtain ⟨hn, hns⟩ := hrange
      subst hn
      unfold firstClear at hb2
      by_cases h : (rw >>> (n + 1)) % 2 = 0
      · simp only [h, if_true] at hb2
        exact hk b hb1 hb2
      · simp only [h, if_false] at hb2
        have h1 : (rw >>> (n + 1)) % 2 = 1 := by omega
        apply ih n (n + 1) hns ?_ (Or.inl rfl) b hb1 hb2
        intro c hc1 hc2
        by_cases hcn : c = n + 1
        · subst hcn; exact h1
        · exact hk c hc1 (by omega)
  unfold liteNmaxb
  intro b hb1 hb2
  exact key (List.range 14) 0 0 (by simp [List.range_eq_range']) (by intro c h1 h2; omega) (Or.inr ⟨rfl, rfl⟩) b hb1 hb2

example : liteNmaxb 0x7FFF = 13 ∧ liteNmaxb 0x001F = 4 ∧ liteNmaxb 0x0001 = 0 ∧ liteNmaxb 0x7FEF = 3 := by decide

end NfcVerif.VendorRef
