import NfcVerif.Model.Tlv
/-!
# `format()` of the Broadcom Topaz and Topaz-512 (`nfc/tag/tt1_broadcom.py`)

`Topaz._format` / `Topaz512._format` with `version=None`: the capability container and the TLVs
up to an empty NDEF TLV are (re)written, optionally the data bytes are wiped, then
`synchronize()` (byte writes on the Topaz, 8-byte blocks on the Topaz-512).  A slice assignment
`tag_memory[a:b] = bytes` first reads the slice (fails when the tag memory ends before `b`).
-/
namespace NfcVerif.Tlv

/-- `tag_memory[a:a+len(v)] = v` -/
def setSlice (c : Cfg) (m : Bytes) (a : Nat) (v : Bytes) : Py Bytes :=
  if a + v.length ≤ m.length then .ok (writeAt m a v) else .error c.rdErr

def topazHdr : Bytes := [0xE1, 0x10, 0x0E, 0x00, 0x03, 0x00]
def topaz512Hdr : Bytes :=
  [0xE1, 0x10, 0x3F, 0x00, 0x01, 0x03, 0xF2, 0x30, 0x33, 0x02, 0x03, 0xF0, 0x02, 0x03, 0x03, 0x00]

/-- `Topaz._format(version=None, wipe)` -/
def formatTopaz (m : Bytes) (wipe : Option Nat) : Py Bytes :=
  setSlice (t1Cfg 1) m 8 topazHdr >>= fun x =>
  match wipe with
  | none => .ok x
  | some w => setSlice (t1Cfg 1) x 14 (List.replicate 90 (w % 256))

/-- `Topaz512._format(version=None, wipe)` -/
def formatTopaz512 (m : Bytes) (wipe : Option Nat) : Py Bytes :=
  setSlice (t1Cfg 8) m 8 topaz512Hdr >>= fun x =>
  match wipe with
  | none => .ok x
  | some w => setSlice (t1Cfg 8) x 24 (List.replicate 80 (w % 256)) >>= fun y =>
              setSlice (t1Cfg 8) y 128 (List.replicate 384 (w % 256))

/-- what the reader computes on a factory formatted Topaz: NDEF TLV at 12, static lock/reserved
bytes 104..119 (only `off`, `skip`, `areaEnd` matter for the area) -/
def topazLayout : Layout :=
  { off := 12, skip := [(104, 120)], areaEnd := 120, cap := 90, readable := true, writeable := true, ndef := [] }

/-- ... and on a factory formatted Topaz-512: lock control TLV (bytes 122..127), memory control
TLV (bytes 120..121), NDEF TLV at 22 -/
def topaz512Layout : Layout :=
  { off := 22, skip := [(104, 128), (122, 128), (120, 122)], areaEnd := 512, cap := 462, readable := true,
    writeable := true, ndef := [] }

end NfcVerif.Tlv
