import NfcVerif.Model.T34Base
/-!
# NFC Forum Type 4 Tag: NDEF discovery / read / write (`nfc/tag/tt4.py`, class `Type4Tag.NDEF`)

The card is an ISO 7816-4 file system with the NDEF application: a
capability container file `cc`, one NDEF file `file` with identifier `fid`,
and the limits `mle`/`mlc` the card enforces on Le/Lc (status 6700).
Commands are modelled at APDU level (SELECT, READ BINARY offset/Le, UPDATE
BINARY offset/data); ISO-DEP framing is the subject of C12.

Reader-side failures that are modelled: `struct.error` of `pack(">H", offset)`
for an offset above 65535, `ValueError` of `send_apdu` for Le > 256 or
Lc > 255 (no extended length support), the endless READ BINARY loop when the
card returns no data (`outOfFuel`).

`Variant.asFound` is the code of the unchanged tree, `Variant.repaired` the
code with the three repairs of `fixes/C01_t34`:
* the final NLEN update is looped like the data updates (F35),
* MLe / MLc taken from the capability container are limited to what short
  APDU fields can carry (Le ≤ 256, Lc ≤ 255), since `send_apdu` refuses more,
* the reported capacity is limited to the part of the file a 16 bit offset in
  P1-P2 can address (`min(mfs, 65536) - NLEN size`).
-/
namespace NfcVerif.T4
open NfcVerif.T34

/-- which of the two repairs the modelled tree contains -/
structure Variant where
  nlenLoop : Bool     -- final NLEN update looped (F35)
  shortApdu : Bool    -- MLe/MLc limited to 256/255
  offsetClamp : Bool  -- capacity limited to what a 16 bit P1-P2 offset addresses
  deriving DecidableEq, Repr

def Variant.asFound : Variant := ⟨false, false, false⟩
def Variant.repaired : Variant := ⟨true, true, true⟩

structure Card where
  cc : Bytes
  file : Bytes
  fid : Bytes
  mle : Nat
  mlc : Nat
  deriving DecidableEq, Repr

/-- card side of READ BINARY with an Le field (`le ≥ 1`) on file `f` -/
def cardRead (c : Card) (f : Bytes) (off le : Nat) : Py Bytes :=
  if le > c.mle then .error (.tagCmd 0x6700)
  else if off > f.length then .error (.tagCmd 0x6A86)
  else .ok (sliceN f off (off + le))

/-- `_read_binary(offset, size)` with `self._max_le = maxLe` -/
def readBinary (c : Card) (f : Bytes) (maxLe off : Nat) (size : Int) : Py Bytes :=
  if off > 65535 then .error .struct else
  let md : Int := min (maxLe : Int) size
  if md > 256 then .error .value
  else if md ≤ 0 then .ok []          -- no Le field: the card returns no data
  else cardRead c f off md.toNat

structure Info where
  maxLe : Nat
  maxLc : Nat
  capacity : Int
  readable : Bool
  writeable : Bool
  nlenSize : Nat
  fid : Bytes
  deriving DecidableEq, Repr

/-- `_discover_ndef` after the two SELECTs (NDEF application, CC file E103) -/
def discover (v : Variant) (c : Card) : Py (Option Info) :=
  readBinary c c.cc 15 0 2 >>= fun cclen =>
  if cclen.length ≠ 2 then .ok none else
  readBinary c c.cc 15 2 (min ((beNat cclen : Int) - 2) 15) >>= fun caps =>
  if caps.length < 13 then .ok none else
  match caps ++ zeros (15 - caps.length) with
  | [ver, e1, e0, c1, c0, tag, plen, v0, v1, v2, v3, v4, v5, v6, v7] =>
    let val := [v0, v1, v2, v3, v4, v5, v6, v7].take (min plen 8)   -- struct "9p"
    if ¬ (ver / 16 = 1 ∨ ver / 16 = 2 ∨ ver / 16 = 3) then .ok none
    else if ¬ ((tag = 4 ∧ val.length = 6) ∨ (tag = 6 ∧ val.length = 8)) then .ok none
    else
      let mfs : Nat := if tag = 4 then beNat [v2, v3] else beNat [v2, v3, v4, v5]
      let rf := if tag = 4 then v4 else v6
      let wf := if tag = 4 then v5 else v7
      let mle := e1 * 256 + e0
      let mlc := c1 * 256 + c0
      .ok (some { maxLe := if v.shortApdu then min mle 256 else mle,
                  maxLc := if v.shortApdu then min mlc 255 else mlc,
                  capacity := ((if v.offsetClamp then min mfs 65536 else mfs : Nat) : Int) - tag + 2,
                  readable := decide (rf = 0), writeable := decide (wf = 0),
                  nlenSize := tag - 2, fid := [v0, v1] })
  | _ => .error .struct

/-- `while len(data) < nlen: data += self._read_binary(...)` -/
def readLoop (c : Card) (i : Info) (nlen : Nat) : Nat → Bytes → Py Bytes
  | 0, _ => .error .outOfFuel
  | fuel + 1, acc =>
    if acc.length ≥ nlen then .ok acc else
    readBinary c c.file i.maxLe (i.nlenSize + acc.length) ((nlen : Int) - acc.length) >>= fun d =>
    if d.length = 0 then .error .outOfFuel   -- no progress: the Python loop never ends
    else readLoop c i nlen fuel (acc ++ d)

structure Ndef where
  info : Info
  seen : Seen

/-- `try: ... except Type4TagCommandError: return None` -/
def catchTag {α} (x : Py (Option α)) : Py (Option α) :=
  match x with
  | .error (.tagCmd _) => .ok none
  | r => r

/-- `Type4Tag.NDEF._read_ndef_data` on a fresh tag object (`tag.ndef`) -/
def readNdef (v : Variant) (c : Card) : Py (Option Ndef) :=
  catchTag (
    discover v c >>= fun oi =>
    match oi with
    | none => .ok none
    | some i =>
      if i.fid ≠ c.fid then .ok none else      -- SELECT fails: 6A82
      readBinary c c.file i.maxLe 0 i.nlenSize >>= fun nl =>
      if nl.length ≠ i.nlenSize then .ok none else
      let nlen := beNat nl
      readLoop c i nlen (nlen + 1) [] >>= fun d =>
      .ok (some { info := i, seen := { capacity := i.capacity, readable := i.readable,
                                        writeable := i.writeable, data := d } }))

def see (v : Variant) (c : Card) : Py (Option Seen) := readNdef v c >>= fun o => .ok (o.map (·.seen))

/-- one UPDATE BINARY on the NDEF file -/
structure UCmd where
  off : Nat
  data : Bytes
  deriving DecidableEq, Repr

structure Trace where
  sent : List UCmd
  file : Bytes
  res : Py Unit

/-- `send_apdu(0, 0xD6, p1, p2, data)` of `_update_binary`, `data` already cut to the chunk -/
def sendU (c : Card) (f : Bytes) (u : UCmd) : Py Bytes :=
  if u.off > 65535 then .error .struct
  else if u.data.length > 255 then .error .value
  else if u.data.length = 0 then .error (.tagCmd 0x6700)    -- D6 without a data field
  else if u.data.length > c.mlc then .error (.tagCmd 0x6700)
  else if u.off + u.data.length > f.length then .error (.tagCmd 0x6A87)
  else .ok (splice f u.off u.data)

def runU (c : Card) (f : Bytes) : List UCmd → Trace
  | [] => ⟨[], f, .ok ()⟩
  | u :: us =>
    match sendU c f u with
    | .error e => ⟨[], f, .error e⟩
    | .ok f' => let t := runU c f' us; ⟨u :: t.sent, t.file, t.res⟩

def applyU (f : Bytes) (cmds : List UCmd) : Bytes :=
  cmds.foldl (fun f u => splice f u.off u.data) f

/-- `while offset < len(buf): offset += self._update_binary(offset, buf[offset:])`
(fuel = `len(buf) + 1`) -/
def chunkCmds (lc : Nat) (buf : Bytes) : Nat → Nat → List UCmd
  | 0, _ => []
  | fuel + 1, off =>
    if off ≥ buf.length then [] else
    ⟨off, sliceN buf off (off + lc)⟩ :: chunkCmds lc buf fuel (off + min lc (buf.length - off))

/-- the UPDATE BINARY sequence of `_write_ndef_data` -/
def planWrite (v : Variant) (i : Info) (data : Bytes) : List UCmd :=
  let nlen := toBE i.nlenSize data.length
  let lc := i.maxLc
  if i.nlenSize + data.length ≤ i.maxLc then
    chunkCmds lc (nlen ++ data) (i.nlenSize + data.length + 1) 0
  else
    chunkCmds lc (zeros i.nlenSize ++ data) (i.nlenSize + data.length + 1) 0
      ++ (if v.nlenLoop then chunkCmds lc nlen (i.nlenSize + 1) 0
          else [⟨0, nlen.take i.maxLc⟩])

/-- `Type4Tag.NDEF._write_ndef_data`; `pack(lfmt, len(data))` raises
`struct.error` when the length does not fit the NLEN field -/
def writeNdef (v : Variant) (c : Card) (i : Info) (data : Bytes) : Trace :=
  if data.length ≥ 256 ^ i.nlenSize then ⟨[], c.file, .error .struct⟩
  else runU c c.file (planWrite v i data)

/-- `tag.ndef.octets = data` on a freshly activated tag -/
def setOctets (v : Variant) (c : Card) (data : Bytes) : Py (Option Trace) :=
  readNdef v c >>= fun o =>
  match o with
  | none => .ok none
  | some nd =>
    if nd.seen.writeable = false then .ok (some ⟨[], c.file, .error .attr⟩)
    else if (data.length : Int) > nd.seen.capacity then .ok (some ⟨[], c.file, .error .value⟩)
    else .ok (some (writeNdef v c nd.info data))

end NfcVerif.T4
