import NfcVerif.Py
import NfcVerif.Model.Collect
import NfcVerif.Model.Term
/-!
# Reference definitions for the loops of `nfc/llcp/llc.py` / `nfc/llcp/tco.py` (group LlcCore)

Spec-style readings of LLCP 1.3 (4.5.6 service discovery, 4.2.4 / 4.3.4 aggregation, 5.x link service
primitives) and of the property texts C09, C10, C17, C18 for the parts of the link controller that the
models `Model/Collect.lean` (C10), `Model/Sap.lean` (C17), `Model/Term.lean` (C09) take in a more abstract
shape (`Collect.takeSdreq` works on name LENGTHS and an octet count, `Collect.aggPass` on stateful table
entries).  The functions here keep the data the source handles (transaction identifiers, names, PDU tokens)
so that the regenerated definitions `Gen.Fn.lc_*` can be bridged to them for all inputs;
`Lemmas/FnBridgeLlcCore.lean` proves the property-relevant facts about them.
-/
namespace NfcVerif.FnLlcCoreRef
open NfcVerif

/-! ## service discovery: building one SNL PDU (`ServiceDiscovery.dequeue`) -/

/-- octets of an SDRES TLV: type, length, TID, SAP -/
def sdresSize : Int := 4
/-- octets of an SDREQ TLV for `name`: type, length, TID + the name -/
def sdreqSize (name : Bytes) : Int := 3 + name.length

/-- responses first: as many pending (tid, sap) answers as fit, in queue order;
`(budget left, responses of the PDU, still pending)` -/
def takeRes : List (Int × Int) → Int → List (Int × Int) → Int × List (Int × Int) × List (Int × Int)
  | [], m, out => (m, out, [])
  | x :: q, m, out => if m ≥ sdresSize then takeRes q (m - sdresSize) (out ++ [x]) else (m, out, x :: q)

/-- then the pending requests, each looked at once (`k` = number queued at the start): a request that does
not fit in what is left NOW goes to the end of the queue, one that fits is taken and PAID for -/
def takeReq : Nat → List (Int × Bytes) → Int → List (Int × Bytes) → Int × List (Int × Bytes) × List (Int × Bytes)
  | 0, q, m, out => (m, out, q)
  | _ + 1, [], m, out => (m, out, [])
  | k + 1, x :: q, m, out =>
    if sdreqSize x.2 > m then takeReq k (q ++ [x]) m out
    else takeReq k q (m - sdreqSize x.2) (out ++ [x])

/-- size of the information field of an SNL PDU with these parameters -/
def snlInfo (res : List (Int × Int)) (req : List (Int × Bytes)) : Int :=
  sdresSize * res.length + (req.map fun x => sdreqSize x.2).sum

/-- the SNL PDU `ServiceDiscovery.dequeue(miu_size, ..)` builds: (responses, requests) -/
def buildSnl (sdres : List (Int × Int)) (sdreq : List (Int × Bytes)) (miu : Int) :
    List (Int × Int) × List (Int × Bytes) :=
  let r := takeRes sdres miu []
  let q := takeReq sdreq.length sdreq r.1 []
  (r.2.1, q.2.1)

/-- the encoding that `Model/Collect.lean` uses for a pending request: (tid, length of the name) -/
def reqEnc (x : Int × Bytes) : Nat × Nat := (x.1.toNat, x.2.length)

/-! ## aggregation (`LogicalLinkController.collect`, the `while miu_size >= 0` loop)

PDUs are tokens; `deq m icv` stands for `sap.dequeue(m, icv)` (`none` / `some 0`: nothing), `agfLen` for
`len(agf_pdu)`, `enc` for the local `encrypt`. -/

structure AggEnv where
  sendMiu : Int
  icv : Int
  doEnc : Bool
  enc : Int → Int
  agfLen : List Int → Int
  deq : Int → Int → Option Int

/-- remaining room of the aggregate: link MIU minus the frame so far minus the length field and one more
PDU header (`self.cfg["send-miu"] - len(agf_pdu) - 3`) -/
def AggEnv.room (E : AggEnv) (agg : List Int) : Int := E.sendMiu - E.agfLen agg - 3

/-- one pass over the service access points; state = (nothing dequeued so far, room, aggregate).  The pass
ends at once when the room became negative -/
def aggPass (E : AggEnv) : List Int → Bool × Int × List Int → Bool × Int × List Int
  | [], st => st
  | _ :: rest, (dn, m, agg) =>
    match E.deq m E.icv with
    | none => aggPass E rest (dn, m, agg)
    | some p =>
      if p = 0 then aggPass E rest (dn, m, agg)
      else
        let agg' := agg ++ [if E.doEnc then E.enc p else p]
        if E.room agg' < 0 then (false, E.room agg', agg') else aggPass E rest (false, E.room agg', agg')

/-- passes are repeated while there is room and the last pass dequeued something -/
def aggLoop (E : AggEnv) (saps : List Int) : Nat → Int × List Int → Py (Int × List Int)
  | 0, _ => .error .outOfFuel
  | fuel + 1, (m, agg) =>
    if m ≥ 0 then
      let r := aggPass E saps (true, m, agg)
      if r.2.1 < 0 ∨ r.1 = true then .ok (r.2.1, r.2.2) else aggLoop E saps fuel (r.2.1, r.2.2)
    else .ok (m, agg)

/-! ## sockets -/

def ESHUTDOWN : Nat := 108
def EPIPE : Nat := 32
def EINVAL : Nat := 22
def EFAULT : Nat := 14
def EDESTADDRREQ : Nat := 89

/-- a blocking pop of the receive queue that was woken without data (`IndexError`) is a broken pipe -/
def pipeErr (e : Exc) : Exc := if e == Exc.index then .llcp EPIPE else e

/-- `LogicalDataLink.recvfrom()`: `got` = the pop of the receive queue (`none`: no PDU object), `dgram` the
payload and source address of the UI PDU obtained.  Payload and address are returned as they are - an EMPTY
payload too (a zero-length datagram is a datagram) -/
def recvfrom (shutdown : Bool) (got : Py (Option Unit)) (dgram : Bytes × Int) : Py (Option Bytes × Option Int) :=
  if shutdown then .error (.llcp ESHUTDOWN) else
  match got with
  | .error e => .error (pipeErr e)
  | .ok none => .ok (none, none)
  | .ok (some ()) => .ok (some dgram.1, some dgram.2)

/-- `RawAccessPoint.recv()` -/
def rawRecv (shutdown : Bool) (got : Py (Option Int)) : Py (Option Int) :=
  if shutdown then .error (.llcp ESHUTDOWN) else
  match got with
  | .error e => .error (pipeErr e)
  | .ok v => .ok v

/-- `poll(event)` of the connection-less sockets: only `recv` / `send` -/
def pollCheck (event : String) (shutdown : Bool) : Py Unit :=
  if shutdown then .error (.llcp ESHUTDOWN)
  else if event = "recv" ∨ event = "send" then .ok () else .error (.llcp EINVAL)

/-- `LogicalDataLink.connect(dest)`: the default destination is remembered; true for a real address -/
def ldlConnect (dest : Int) (shutdown : Bool) : Py Bool :=
  if shutdown then .error (.llcp ESHUTDOWN) else .ok (decide (dest > 0))

/-- the tail of `TransmissionControlObject.dequeue`: `none` = the PDU stays queued.  Only a given budget
(`some m`, also `some 0`) restricts the information field; `none` (raw access points) does not -/
def tcoFit (miu : Option Int) (icv : Int) (isData : Bool) (len hdr : Int) : Bool :=
  match miu with
  | none => true
  | some m => decide ((if isData then len + icv else len) - hdr ≤ m)

/-- the notifications of `DataLinkConnection.close()` behind the optional orderly disconnect, as a script
over the condition variables of `Model/Term.lean`: base class close (send_ready, recv_ready), then the
waiters for acknowledgements, then the waiters for the send token -/
def closeScript (n : Term.Cv → Py Unit) : Py Unit :=
  n .sendReady >>= fun _ => n .recvReady >>= fun _ => n .acksReady >>= fun _ => n .sendToken

/-- `DataLinkConnection._poll` with the state read once; `none` = the call returns None -/
def dlcPoll (event : String) (shutdown est cw isInfo : Bool) (acks : Int) (base : Py (Option Int)) : Py (Option Bool) :=
  if shutdown then .error (.llcp ESHUTDOWN)
  else if event = "recv" then
    (if est ∨ cw then base >>= fun _ => .ok (some isInfo) else .ok none)
  else if event = "send" then
    (if est then base >>= fun r => .ok (some (decide (r ≠ none ∧ r ≠ some 0) && est)) else .ok none)
  else if event = "acks" then .ok (some (decide (acks > 0)))
  else .error (.llcp EINVAL)

/-- `LogicalLinkController._bind`: which variant serves which kind of argument -/
inductive BindKind | byNone | byAddr | byName | fault deriving DecidableEq, Repr

def bindKind (isNone isInt isBytes isStr : Bool) : BindKind :=
  if isNone then .byNone else if isInt then .byAddr else if isBytes ∨ isStr then .byName else .fault

end NfcVerif.FnLlcCoreRef
