import NfcVerif.Py
/-!
# C16 - retry / exception structure of the tag commands

Three layers.

* **Primitives** (`prim`): `Type1Tag.transceive`, `Type2Tag.transceive`
  (tt1.py, tt2.py: `for retry in range(1 + retries)` around `clf.exchange`,
  `break` at the first answer, class -> errno mapping in the `else` branch; Type 2:
  the guard `if not self.target: raise TIMEOUT_ERROR` in front of the loop and the
  re-activation `self._target = clf.sense(...)` after a NAK answer to READ),
  `Type3Tag.send_cmd_recv_rsp` (tt3.py, same loop plus the response length checks),
  the ISO-DEP block exchange of `tt4.py` reduced to what decides retries (I-block,
  R(NAK) after timeout / transmission error with the budget `n_retry_nak`,
  retransmission after R(ACK), protocol error is final; the reason code of an
  unrecoverable error is remembered in `IsoDepInitiator.errno` and every later
  command is refused with it before a frame is sent) and a bare `clf.exchange`
  (`raw`: Type 4 presence check).  The air interface is a *fault script*: one
  letter per `exchange` call, and a *sense script*: one boolean per `clf.sense` call.

* **Command programs** (`Prog`): a tag operation is a tree of primitive calls;
  each call says what the tag answers when the command gets through (accepted /
  refused with a reason code / silence / NAK / accepted once), which exception class
  the enclosing `try` catches and how the operation continues in either case.
  `Ops.prog` gives the program of every public operation of every modelled tag class
  from the command sequence of the fault-free run (which commands are needed is data
  dependent and is the subject of C01-C03; here it is an arbitrary parameter).

* **Sessions** (`session`): several operations on the same tag object.  What the tag
  object carries from one operation to the next is part of the state: the cached NDEF
  object (`Tag._ndef`), `Type2Tag._target` (`World.gone`), `IsoDepInitiator.errno`
  (`World.sticky`) and whether the frontend still has a target (`World.lost`).

`Cfg` selects as-found / repaired behaviour of the defects that were repaired
(F17, F31 for Type 3, F32, sector select, ISO-DEP unknown error class); the defects
left open are modelled as found.
-/
namespace NfcVerif.Retry

/-- class of the exception raised by `clf.exchange` -/
inductive Fault | timeout | transmission | protocol | brokenLink | base
  deriving DecidableEq, Repr

/-- one call of `clf.exchange` -/
inductive Att
  | ans                                  -- command delivered, answer delivered
  | flt (f : Fault) (reached : Bool)     -- exchange raises `f`; `reached`: the tag executed the command
  | short (k : Nat)                      -- Type 3: answer cut to 0 / 1 / 10 / 11 octets
  deriving DecidableEq, Repr

def Fault.exc : Fault → Exc
  | .timeout => .timeout | .transmission => .transmission | .protocol => .protocol
  | .brokenLink => .brokenLink | .base => .commError

/-- reason code given to the three mapped classes; the others have none -/
def Fault.errno : Fault → Option Int
  | .timeout => some 0 | .transmission => some (-1) | .protocol => some (-2) | _ => none

/-- code handed to a `except CommunicationError` handler (only its sign / zero is used) -/
def Fault.code : Fault → Int
  | .timeout => 0 | .transmission => -1 | .protocol => -2 | _ => -3

structure Cmd where
  tok : String
  write : Bool := false
  deriving DecidableEq, Repr

/-- what the tag does with a command that reaches it (at one execution) -/
inductive Rsp
  | ok                    -- answers, the answer passes the response checks
  | refuse (errno : Int)  -- answers, the response check raises TagCommandError(errno)
  | mute                  -- stays silent (the reader reports a timeout)
  | nak                   -- Type 2 READ answered with NAK: the tag must be activated again (tt2.py `read`)
  deriving DecidableEq, Repr

/-- what the tag does with a command, as a function of whether it has executed the same frame before
(`once e`: a command that is not idempotent - FeliCa Lite-S write with MAC, the write counter is part
of the MAC - is accepted the first time and refused with `e` when the identical frame arrives again) -/
inductive Ans
  | ok | refuse (errno : Int) | mute | nak
  | once (errno : Int)
  deriving DecidableEq, Repr

/-- the answer at this execution; `again`: the tag has executed this frame before -/
def Ans.eff (a : Ans) (again : Bool) : Rsp :=
  match a with
  | .ok => .ok | .refuse e => .refuse e | .mute => .mute | .nak => .nak
  | .once e => if again then .refuse e else .ok

/-- one invocation of a primitive: command, attempts in order (`true` = the tag stayed mute on a delivered command) -/
structure Inv where
  cmd : Cmd
  atts : List (Att × Bool)
  deriving DecidableEq, Repr

structure World where
  script : List Att
  log : List Inv := []
  applied : List Cmd := []     -- commands executed by the tag, in order
  senses : List Bool := []     -- result of each `clf.sense` call in order (exhausted: the tag is found)
  gone : Bool := false         -- Type 2 tag object: `tag.target` is None (a re-activation failed)
  lost : Bool := false         -- the frontend has no target any more: `clf.exchange` returns None
  sticky : Option Int := none  -- ISO-DEP initiator: reason code of the unrecoverable error (`_dep.errno`)
  deriving Repr

structure Cfg where
  fixF17 : Bool    -- Type 3 write after a failed attribute read raises the command error
  fixF31t3 : Bool  -- Type 3: unknown CommunicationError -> TagCommandError(RECEIVE_ERROR)
  fixF32 : Bool    -- Type 3: short answers -> RSP_LENGTH_ERROR
  fixSect : Bool   -- Type 2 sector select: non-timeout error is re-raised instead of `assert`
  fixT4 : Bool     -- ISO-DEP: unknown CommunicationError -> TagCommandError(RECEIVE_ERROR)
  deriving DecidableEq, Repr

def Cfg.repaired : Cfg := ⟨true, true, true, true, true⟩
def Cfg.asFound : Cfg := ⟨false, false, false, false, false⟩

inductive PrimKind | t12 | t3 | t4 | raw
  deriving DecidableEq, Repr

/-- next letter of the script; an exhausted script answers -/
def nextAtt (w : World) : Att × World :=
  match w.script with
  | [] => (.ans, w)
  | a :: r => (a, { w with script := r })

def World.push (w : World) (c : Cmd) (atts : List (Att × Bool)) : World :=
  { w with log := w.log ++ [⟨c, atts⟩] }

def World.apply (w : World) (c : Cmd) : World := { w with applied := w.applied ++ [c] }

/-- the tag executes `c` if it accepts it -/
def World.exec (w : World) (c : Cmd) (a : Rsp) : World := if a = .ok then w.apply c else w

/-- `clf.sense(target)`: the frontend keeps or drops its target -/
def World.sense (w : World) : Bool × World :=
  match w.senses with
  | [] => (true, { w with lost := false })
  | b :: r => (b, { w with senses := r, lost := !b })

/-- `self._target = self.clf.sense(self.target)` (tt2.py `read`, tt2_nxp.py `_protect_with_password`) -/
def World.reactivate (w : World) : Bool × World :=
  let r := w.sense
  (r.1, { r.2 with gone := !r.1 })

/-- `IsoDepInitiator.exchange`: `except Type4TagCommandError as error: self.errno = error.errno` -/
def World.stick (w : World) : Exc → World
  | .tagCmd n => { w with sticky := some n }
  | _ => w

/-- result of the `else` branch of the retry loop -/
def exhausted (cfg : Cfg) (k : PrimKind) (last : Fault) : Exc :=
  match last.errno with
  | some n => .tagCmd n
  | none => match k with
    | .t3 => if cfg.fixF31t3 then .tagCmd (-1) else .unbound
    | _ => .runtime

/-- what a cut Type 3 answer does in `send_cmd_recv_rsp` (`idm`: the command carries the IDm) -/
def shortExc (cfg : Cfg) (idm : Bool) (k : Nat) : Exc :=
  if cfg.fixF32 then (if !idm && k ≥ 2 then .tagCmd 4 else .tagCmd 1)   -- polling: length byte is right, DATA_SIZE_ERROR
  else match k with
    | 0 => .index                              -- rsp[0]
    | 1 => .index                              -- rsp[1]
    | 2 => if idm then .index else .tagCmd 4   -- rsp[10]; polling: DATA_SIZE_ERROR
    | _ => if idm then .struct else .tagCmd 4  -- unpack(">H", rsp[10:12])

/-- the tag has executed the frame in an earlier attempt of this call (its answer was lost) -/
def executed (acc : List (Att × Bool)) : Bool :=
  acc.any fun x => match x.1 with | .flt _ r => r | _ => false

/-- the answer of the tag has arrived and is checked by the caller of `transceive` -/
def answered (c : Cmd) (a : Rsp) (x : Att × Bool) (acc : List (Att × Bool)) (w : World) : (Py Unit) × World :=
  match a with
  | .refuse e => (.error (.tagCmd e), w.push c (acc ++ [x]))
  | .nak =>   -- tt2.py read(): INVALID_PAGE_ERROR if the tag is found again else RECEIVE_ERROR
    let r := w.reactivate
    (.error (.tagCmd (if r.1 then 2 else -1)), r.2.push c (acc ++ [x]))
  | _ => (.ok (), w.push c (acc ++ [x]))

/-- `for retry in range(n): try: rsp = exchange(cmd); break; except CommunicationError ...`
(`n` attempts left, `last` the class of the previous failure). -/
def loop (cfg : Cfg) (k : PrimKind) (idm : Bool) (c : Cmd) (a0 : Ans) :
    Nat → Option Fault → List (Att × Bool) → World → (Py Unit) × World
  | 0, last, acc, w =>
    (.error (match last with | some f => exhausted cfg k f | none => .unbound), w.push c acc)
  | n+1, _, acc, w =>
    let a := a0.eff (executed acc)
    let (att, w) := nextAtt w
    match att with
    | .ans =>
      let w := w.exec c a
      match a with
      | .mute => loop cfg k idm c a0 n (some .timeout) (acc ++ [(att, true)]) w
      | a => answered c a (att, false) acc w
    | .flt f reached =>
      loop cfg k idm c a0 n (some f) (acc ++ [(att, false)]) (if reached then w.exec c a else w)
    | .short s =>
      let w := w.exec c a
      match a with
      | .mute => loop cfg k idm c a0 n (some .timeout) (acc ++ [(att, true)]) w
      | a => if k = .t3 then (.error (shortExc cfg idm s), w.push c (acc ++ [(att, false)]))
             else answered c a (att, false) acc w

/-- end of an ISO-DEP exchange whose answer arrived -/
def depDone (c : Cmd) (a : Rsp) (w : World) (acc : List (Att × Bool)) : (Py Unit) × World :=
  match a with
  | .refuse e => (.error (.tagCmd e), w.push c acc)
  | .nak => (.error (.tagCmd 2), w.push c acc)
  | _ => (.ok (), w.push c acc)

/-- the `except` clauses of the block loop for frame number `i`: `none` = send R(NAK) and go on -/
def depFail (cfg : Cfg) (budget i : Nat) (f : Fault) : Option Exc :=
  match f with
  | .protocol => some (.tagCmd (-2))
  | .timeout => if i ≤ budget then none else some (.tagCmd 0)
  | .transmission => if i ≤ budget then none else some (.tagCmd (-1))
  | f => some (if cfg.fixT4 then .tagCmd (-1) else f.exc)

/-- ISO-DEP exchange of one unchained command (tt4.py `IsoDepInitiator._exchange_command` inside
`exchange`).  `i` counts the frames of this exchange from 1, `nak`: the next frame is R(NAK) instead
of the I-block, `has`: the card has executed the command.  A Type4TagCommandError leaving the block
loop is remembered (`stick`).  Recursion on `fuel`; `fuel = budget + 3` is never used up (`dep_spec`). -/
def dep (cfg : Cfg) (budget : Nat) (c : Cmd) (a : Rsp) :
    Nat → Nat → Bool → Bool → List (Att × Bool) → World → (Py Unit) × World
  | 0, _, _, _, acc, w => (.error .outOfFuel, w.push c acc)
  | fuel+1, i, nak, has, acc, w =>
    match nextAtt w with
    | (.flt f reached, w) =>
      let exec := reached && !nak && !has
      let w := if exec then w.exec c a else w
      let acc := acc ++ [(.flt f reached, false)]
      match depFail cfg budget i f with
      | some e => (.error e, (w.push c acc).stick e)
      | none => dep cfg budget c a fuel (i+1) true (has || exec) acc w
    | (att, w) =>
      if a = .mute then
        match depFail cfg budget i .timeout with
        | some e => (.error e, (w.push c (acc ++ [(att, true)])).stick e)
        | none => dep cfg budget c a fuel (i+1) true has (acc ++ [(att, true)]) w
      else if nak then
        if has then depDone c a w (acc ++ [(att, false)])
        else dep cfg budget c a fuel (i+1) false has (acc ++ [(att, false)]) w
      else depDone c a (w.exec c a) (acc ++ [(att, false)])

/-- a bare `clf.exchange` (no retry, the CommunicationError is raised as it is) -/
def rawx (c : Cmd) (a : Rsp) (w : World) : (Py Unit) × World :=
  let (att, w) := nextAtt w
  match att with
  | .flt f reached => (.error f.exc, (if reached then w.exec c a else w).push c [(att, false)])
  | _ => match a with
    | .mute => (.error .timeout, w.push c [(att, true)])
    | .refuse e => (.error (.tagCmd e), w.push c [(att, false)])
    | .nak => (.error (.tagCmd 2), w.push c [(att, false)])
    | .ok => (.ok (), (w.apply c).push c [(att, false)])

structure Prim where
  kind : PrimKind
  budget : Nat          -- attempts (t12, t3) / n_retry (t4)
  idm : Bool := true    -- Type 3: command with IDm and status flags
  deriving DecidableEq, Repr

/-- one call of the retry primitive of the tag class.  Type 2 (`t12`; a Type 1 tag object never
loses its target, `gone` and `lost` stay false there): nothing is sent once the target is gone;
if the frontend has dropped its target without the tag object knowing, `clf.exchange` returns None
and the caller fails with TypeError (`len(None)`) - unreachable, see `Sound`.  ISO-DEP: nothing is
sent after an unrecoverable error. -/
def prim (cfg : Cfg) (p : Prim) (c : Cmd) (a : Ans) (w : World) : (Py Unit) × World :=
  match p.kind with
  | .t12 =>
    if w.gone then (.error (.tagCmd 0), w)
    else if w.lost then (.error .type_, w)
    else loop cfg .t12 p.idm c a p.budget none [] w
  | .t3 => loop cfg .t3 p.idm c a p.budget none [] w
  | .t4 =>
    match w.sticky with
    | some e => (.error (.tagCmd e), w)
    | none => dep cfg p.budget c (a.eff false) (p.budget + 3) 1 false false [] w
  | .raw => rawx c (a.eff false) w

/-! ## command programs -/

inductive Val | none | false_ | true_ | ndef | unit | list | data
  deriving DecidableEq, Repr

/-- which exceptions of the call the enclosing `try` catches -/
inductive Catch | nothing | tagErr | commErr
  deriving DecidableEq, Repr

def Catch.catches : Catch → Exc → Option Int
  | .tagErr, .tagCmd n => some n
  | .commErr, .timeout => some 0
  | .commErr, .transmission => some (-1)
  | .commErr, .protocol => some (-2)
  | .commErr, .brokenLink => some (-3)
  | .commErr, .commError => some (-3)
  | _, _ => Option.none

inductive Prog
  | ret (v : Val)
  | crash (e : Exc)                 -- `raise e` written in the code (failed assert, explicit raise)
  | reraise                         -- `raise` inside a handler
  | caseErr (zero neg pos : Unit → Prog)   -- handler branching on `error.errno`
  | call (p : Prim) (c : Cmd) (a : Ans) (catch_ : Catch) (ok err : Unit → Prog)
  | sense (found gone : Unit → Prog)       -- `self._target = clf.sense(...)`, `... if self.target else ...`

inductive Outcome | ok (v : Val) | exc (e : Exc)
  deriving DecidableEq, Repr

/-- run a program; `cur` is the errno of the exception being handled -/
def run (cfg : Cfg) : Prog → Int → World → Outcome × World
  | .ret v, _, w => (.ok v, w)
  | .crash e, _, w => (.exc e, w)
  | .reraise, cur, w => (.exc (.tagCmd cur), w)
  | .caseErr z n p, cur, w =>
    if cur = 0 then run cfg (z ()) cur w else if cur < 0 then run cfg (n ()) cur w else run cfg (p ()) cur w
  | .call p c a ct ok err, cur, w =>
    match prim cfg p c a w with
    | (.ok _, w') => run cfg (ok ()) cur w'
    | (.error e, w') =>
      match ct.catches e with
      | some n => run cfg (err ()) n w'
      | Option.none => (.exc e, w')
  | .sense f g, cur, w =>
    if w.reactivate.1 then run cfg (f ()) cur w.reactivate.2 else run cfg (g ()) cur w.reactivate.2

/-! ## operations -/

/-- how an operation continues when a step fails with a caught error -/
inductive Pol
  | raise                    -- not caught
  | ret (v : Val)            -- handler returns `v`
  | skip                     -- handler continues with the next step
  | goto (p : Unit → Prog)   -- handler continues with `p`

structure Step where
  cmd : Cmd
  ans : Ans

def t12 : Prim := ⟨.t12, 3, true⟩
def t3p (idm : Bool) : Prim := ⟨.t3, 3, idm⟩

/-- continuation of a handler under policy `pol` -/
def polProg (pol : Pol) (next : Unit → Prog) : Unit → Prog :=
  match pol with
  | .raise => fun _ => .reraise
  | .ret v => fun _ => .ret v
  | .skip => next
  | .goto p => p

/-- a straight sequence of commands under one error policy -/
def chain (cfg : Cfg) (p : Prim) (ct : Catch) (pol : Pol) : List Step → (Unit → Prog) → Prog
  | [], fin => fin ()
  | s :: ss, fin =>
    let next := fun _ => chain cfg p ct pol ss fin
    if s.cmd.tok = "s2" ∧ p.kind = .t12 then
      -- second part of the Type 2 SECTOR SELECT (tt2.py:546-553): one attempt, silence is the
      -- acknowledge, an answer means "no such sector", any other error trips the `assert`;
      -- what sector_select raises itself is subject to the enclosing policy
      let raised : Unit → Prog := match pol with
        | .raise => fun _ => .crash (.tagCmd 1)
        | _ => polProg pol next
      let other : Unit → Prog := fun _ => if cfg.fixSect then polProg pol next () else .crash .assertion
      .call ⟨.t12, 1, true⟩ s.cmd s.ans .tagErr raised (fun _ => .caseErr next other other)
    else
      .call p s.cmd s.ans (match pol with | .raise => .nothing | _ => ct) next (polProg pol next)

abbrev Phases := List (List Step)
def ph (l : Phases) (i : Nat) : List Step := l.getD i []

def fin (v : Val) : Unit → Prog := fun _ => .ret v

/-- Type 3 `_format` (tt3.py:366-431): the probing loops decide from errors, so
the program depends on the tag (`nmaxb`, `nbr`, `nbw`: what the tag really
supports) and not on a recorded command sequence. -/
structure T3Tag where
  nmaxb : Nat
  nbr : Nat
  nbw : Nat

def rdTok (b n : Nat) : Cmd := ⟨if n > 1 then s!"r{b}x{n}" else s!"r{b}", false⟩
def wrTok (b n : Nat) : Cmd := ⟨if n > 1 then s!"w{b}x{n}" else s!"w{b}", true⟩
def refuseT3 : Ans := .refuse 0x01A2

def t3Wipe (cfg : Cfg) (t : T3Tag) : Nat → Prog
  | 0 => .ret .true_
  | b+1 => .call (t3p true) (wrTok (b+1) 1) (if b+1 ≤ t.nmaxb then .ok else refuseT3) .nothing
             (fun _ => t3Wipe cfg t b) (fun _ => .reraise)

def t3Nbw (cfg : Cfg) (t : T3Tag) (wipe : Bool) (nmaxb : Nat) : Nat → Nat → Prog
  | 0, _ => .ret .true_   -- not reached (fuel)
  | fuel+1, nbw =>
    let attr : Unit → Prog := fun _ =>
      .call (t3p true) (wrTok 0 1) .ok .nothing
        (fun _ => if wipe then t3Wipe cfg t nmaxb else .ret .true_) (fun _ => .reraise)
    if nbw > 13 then attr ()
    else .call (t3p true) (wrTok 0 nbw) (if nbw ≤ t.nbw then .ok else refuseT3) .tagErr
           (fun _ => t3Nbw cfg t wipe nmaxb fuel (nbw+1)) attr

def t3Nbr (cfg : Cfg) (t : T3Tag) (wipe : Bool) (nmaxb : Nat) : Nat → Nat → Prog
  | 0, _ => .ret .true_
  | fuel+1, nbr =>
    let after : Unit → Prog := fun _ =>
      .call (t3p true) (rdTok 0 1) .ok .nothing (fun _ => t3Nbw cfg t wipe nmaxb 14 1) (fun _ => .reraise)
    if nbr > 15 then after ()
    else .call (t3p true) (rdTok 0 nbr) (if nbr ≤ t.nbr then .ok else refuseT3) .tagErr
           (fun _ => t3Nbr cfg t wipe nmaxb fuel (nbr+1)) after

def t3Search (cfg : Cfg) (t : T3Tag) (wipe : Bool) : Nat → Nat → Nat → Prog
  | 0, lo, _ => t3Nbr cfg t wipe lo 16 1
  | fuel+1, lo, hi =>
    if hi - lo > 1 then
      let b := lo + (hi - lo) / 2
      .call (t3p true) (rdTok b 1) (if b ≤ t.nmaxb then .ok else refuseT3) .tagErr
        (fun _ => t3Search cfg t wipe fuel b hi) (fun _ => t3Search cfg t wipe fuel lo b)
    else t3Nbr cfg t wipe lo 16 1

def t3Format (cfg : Cfg) (t : T3Tag) (wipe : Bool) : Prog :=
  .call (t3p true) (rdTok 0 1) .ok .tagErr (fun _ => t3Search cfg t wipe 17 0 0x10000) (fin .false_)

/-- program of operation `op` on tag family `fam` -/
def prog (cfg : Cfg) (tlv : Bool) (fam op : String) (l : Phases) (v : Val) (nret : Nat) : Option Prog :=
  -- `tlv`: tt1.read_tlv catches the command error for the whole TLV (repair of C08), not only for its first byte
  let tlvPol : Val → Pol := fun r => if tlv then .ret r else .raise
  let c12 := fun pol ss k => chain cfg t12 .tagErr pol ss k
  let c3 := fun pol ss k => chain cfg (t3p true) .tagErr pol ss k
  let c3p := fun pol ss k => chain cfg (t3p false) .tagErr pol ss k
  let c4 := fun pol ss k => chain cfg ⟨.t4, nret, true⟩ .tagErr pol ss k
  match fam, op with
  -- Type 2 (generic and NXP)
  | "t2", "ndef" => some (c12 (.ret .none) (ph l 0) (fin .ndef))
  | "t2", "write" => some (c12 .raise (ph l 0) (fin .unit))
  | "t2", "present" => some (c12 (.ret .false_) (ph l 0) (fin v))
  | "t2", "format" => some (c12 (.ret .false_) (ph l 0) fun _ => c12 .raise (ph l 1) (fin .true_))
  | "t2nxp", "format" =>   -- NTAG203/21x: no NDEF -> write factory defaults, then the generic format reads again
    some (c12 (.goto fun _ => c12 .raise (ph l 2) fun _ => c12 (.ret .false_) (ph l 3) fun _ => c12 .raise (ph l 4) (fin .true_))
            (ph l 0) fun _ => c12 .raise (ph l 1) (fin .true_))
  | "t2", "protect" => some (c12 (.ret .false_) (ph l 0) fun _ => c12 .raise (ph l 1) (fin .true_))
  | "t2nxp", "protect" => some (c12 (.ret .false_) (ph l 0) (fin .true_))
  | "t2", "protectpw" => some (.ret .false_)
  -- Ultralight C / NTAG21x protect with password: writes, re-activation, authenticate with the new key
  | "t2ulc", "protectpw" =>
    some (c12 .raise (ph l 0) fun _ =>
            .sense (fun _ => c12 .raise (ph l 1) fun _ => c12 (.ret .false_) (ph l 2) (fin v)) (fin .false_))
  | "t2ntag", "protectpw" =>
    some (c12 .raise (ph l 0) fun _ => .sense (fun _ => c12 (.ret .false_) (ph l 1) (fin v)) (fin .false_))
  | "t2ulc", "auth" => some (c12 .raise (ph l 0) fun _ => c12 (.ret .false_) (ph l 1) (fin v))
  | "t2ntag", "auth" => some (c12 (.ret .false_) (ph l 0) (fin v))
  | "t2ntag", "sig" => some (c12 (.ret .data) (ph l 0) (fin .data))   -- NTAG21x.signature: zeros on error
  | "t2", "dump" =>   -- header pages one by one, body until the first error, vendor footer one by one
    some (c12 .skip (ph l 0) fun _ =>
            c12 (.goto fun _ => c12 .skip (ph l 2) (fin .list)) (ph l 1) fun _ => c12 .skip (ph l 2) (fin .list))
  | "t2i2c", "dump" =>   -- NTAG I2C: generic dump up to `stop`, then lock page, configuration and session registers unguarded
    some (c12 .skip (ph l 0) fun _ =>
            c12 (.goto fun _ => c12 .raise (ph l 2) (fin .list)) (ph l 1) fun _ => c12 .raise (ph l 2) (fin .list))
  | "t2", "seq" => some (c12 .raise (ph l 0) (fin v))     -- read / write / sector_select / transceive
  -- Type 1
  | "t1", "ndef" => some (c12 (.ret .none) (ph l 0) fun _ => c12 (tlvPol .none) (ph l 1) (fin .ndef))
  | "t1", "write" => some (c12 .raise (ph l 0) (fin .unit))
  | "t1", "present" => some (c12 (.ret .false_) (ph l 0) (fin v))
  | "t1", "format" => some (c12 .raise (ph l 0) (fin .true_))
  | "t1", "protect" =>
    some (c12 (.ret .false_) (ph l 0) fun _ => c12 (tlvPol .false_) (ph l 1) fun _ => c12 .raise (ph l 2) (fin .true_))
  | "t1", "dump" =>
    some (c12 .raise (ph l 0) fun _ => c12 (.ret .list) (ph l 1) fun _ => c12 (.goto (fin .list)) (ph l 2) (fin .list))
  | "t1", "seq" => some (c12 .raise (ph l 0) (fin v))     -- read_id / read_all / read_byte / read_block / read_segment / write_byte / write_block
  -- Type 3
  | "t3", "ndef" => some (c3p (.ret .none) (ph l 0) fun _ => c3 (.ret .none) (ph l 1) (fin .ndef))
  | "t3", "write" =>
    some (c3 (if cfg.fixF17 then .raise else .goto fun _ => .crash .type_) (ph l 0) fun _ => c3 .raise (ph l 1) (fin .unit))
  | "t3", "present" => some (c3p (.ret .false_) (ph l 0) (fin v))
  | "t3std", "present" =>
    some (chain cfg ⟨.t3, 3, true⟩ .tagErr (.goto fun _ => c3p (.ret .false_) (ph l 1) (fin v)) (ph l 0) (fin v))
  | "t3", "dump" => some (c3 (.goto (fin .list)) (ph l 0) (fin .list))
  | "t3std", "dump" =>
    some (c3 (.goto fun _ => c3 (.goto (fin .list)) (ph l 3) (fin .list)) (ph l 0) fun _ =>
            c3p .raise (ph l 1) fun _ => c3 .raise (ph l 2) fun _ => c3 (.goto (fin .list)) (ph l 3) (fin .list))
  | "lite", "format" => some (c3 .raise (ph l 0) (fin .true_))
  | "lite", "protect" =>
    some (c3 .raise (ph l 0) fun _ =>
            c3p (.goto fun _ => c3 .raise (ph l 4) (fin .true_)) (ph l 1) fun _ =>
            c3 (.goto fun _ => c3 .raise (ph l 4) (fin .true_)) (ph l 2) fun _ =>
            c3 .raise (ph l 3) fun _ => c3 .raise (ph l 4) (fin .true_))
  | "lites", "protect" =>   -- Lite-S after the mutual authentication: the NDEF read looks at the memory configuration block, unguarded
    some (c3 .raise (ph l 0) fun _ =>
            c3p (.goto fun _ => c3 .raise (ph l 4) (fin .true_)) (ph l 1) fun _ =>
            c3 (.goto fun _ => c3 .raise (ph l 4) (fin .true_)) (ph l 2) fun _ =>
            c3 .raise (ph l 5) fun _ =>
            c3 (.goto fun _ => c3 .raise (ph l 4) (fin .true_)) (ph l 6) fun _ =>
            c3 .raise (ph l 3) fun _ => c3 .raise (ph l 4) (fin .true_))
  | "lite", "auth" => some (c3 .raise (ph l 0) (fin v))
  | "lite", "dump" => some (c3 .skip (ph l 0) fun _ => c3 .raise (ph l 1) fun _ => c3 .skip (ph l 2) (fin .list))
  | "t3", "seq" => some (c3 .raise (ph l 0) (fin v))      -- read / write without encryption, with and without MAC, request service ...
  | "t3p", "seq" => some (c3p .raise (ph l 0) (fin v))    -- polling
  -- Type 4
  | "t4", "ndef" => some (c4 (.ret .none) (ph l 0) (fin .ndef))
  | "t4", "write" => some (c4 .raise (ph l 0) (fin .unit))
  | "t4", "present" => some (chain cfg ⟨.raw, 1, true⟩ .commErr (.ret .false_) (ph l 0) (fin .true_))
  | "t4", "format" => some (c4 (.ret .false_) (ph l 0) fun _ => c4 (.ret .false_) (ph l 1) (fin .true_))
  | "t4", "dump" => some (c4 (.ret .list) (ph l 0) fun _ => c4 (.goto (fin .list)) (ph l 1) (fin .list))
  | "t4", "seq" => some (c4 .raise (ph l 0) (fin v))      -- send_apdu / transceive
  | _, "noop" => some (.ret v)
  | _, _ => Option.none

/-! ## sessions: several operations on one tag object -/

/-- one operation of a session.  `usesNdef`: the operation starts by evaluating `tag.ndef`, which
reads the NDEF data unless a `Tag.NDEF` object is cached from an earlier operation (`ndef`, `write`,
Type 4 `dump` / `format`, generic Type 2 `format` / `protect`); when that read gives None the
operation ends with `noneVal`.  `fresh` / `cached`: the rest of the operation when no NDEF object
is / one is cached.  `clears`: the result True resets the cache (`format`, `protect`, `authenticate`). -/
structure SOp where
  usesNdef : Bool
  noneVal : Val
  clears : Bool
  fresh : Prog
  cached : Prog

/-- one operation; `read` is the NDEF read of the tag class, `cached` whether `tag._ndef` is set -/
def stepOp (cfg : Cfg) (read : Prog) (o : SOp) (cached : Bool) (w : World) : Outcome × Bool × World :=
  if o.usesNdef && !cached then
    match run cfg read 0 w with
    | (.ok .ndef, w1) =>
      let r := run cfg o.cached 0 w1
      (r.1, !(o.clears && r.1 == .ok .true_), r.2)
    | (.ok _, w1) => (.ok o.noneVal, false, w1)
    | (.exc e, w1) => (.exc e, false, w1)
  else
    let r := run cfg (if cached then o.cached else o.fresh) 0 w
    (r.1, cached && !(o.clears && r.1 == .ok .true_), r.2)

def session (cfg : Cfg) (read : Prog) : List SOp → Bool → World → List Outcome × World
  | [], _, w => ([], w)
  | o :: os, cached, w =>
    let r := stepOp cfg read o cached w
    let rest := session cfg read os r.2.1 r.2.2
    (r.1 :: rest.1, rest.2)

end NfcVerif.Retry
