import NfcVerif.Py
/-!
# C16 - retry / exception structure of the tag commands

Two layers.

* **Primitives** (`prim`): `Type1Tag.transceive`, `Type2Tag.transceive`
  (tt1.py:453, tt2.py:565: `for retry in range(1 + retries)` around
  `clf.exchange`, `break` at the first answer, class -> errno mapping in the
  `else` branch), `Type3Tag.send_cmd_recv_rsp` (tt3.py:678, same loop plus the
  response length checks), the ISO-DEP block exchange of `tt4.py` reduced to
  what decides retries (I-block, R(NAK) after timeout / transmission error with
  the budget `n_retry_nak`, retransmission after R(ACK), protocol error is
  final) and a bare `clf.exchange` (`raw`: Type 4 presence check).  The air
  interface is a *fault script*: one letter per `exchange` call.

* **Command programs** (`Prog`): a tag operation is a tree of primitive calls;
  each call says what the tag answers when the command gets through (accepted /
  refused with a reason code / silence), which exception class the enclosing
  `try` catches and how the operation continues in either case.  `Ops.prog`
  gives the program of every public operation of every modelled tag class from
  the command sequence of the fault-free run (which commands are needed is data
  dependent and is the subject of C01-C03; here it is an arbitrary parameter).

`Cfg` selects as-found / repaired behaviour of the three defects that were
repaired (F17, F31 for Type 3, F32); the defects left open are modelled as found.
-/
namespace NfcVerif.Retry

/-- class of the exception raised by `clf.exchange` -/
inductive Fault | timeout | transmission | protocol | brokenLink | base
  deriving DecidableEq, Repr

/-- one call of `clf.exchange` -/
inductive Att
  | ans                                  -- command delivered, answer delivered
  | flt (f : Fault) (reached : Bool)     -- exchange raises `f`; `reached`: the tag executed the command
  | short (k : Nat)                      -- Type 3: answer cut to 0 / 1 / 10 / 11 octets
  deriving DecidableEq, Repr

def Fault.exc : Fault → Exc
  | .timeout => .timeout | .transmission => .transmission | .protocol => .protocol
  | .brokenLink => .brokenLink | .base => .commError

/-- reason code given to the three mapped classes; the others have none -/
def Fault.errno : Fault → Option Int
  | .timeout => some 0 | .transmission => some (-1) | .protocol => some (-2) | _ => none

/-- code handed to a `except CommunicationError` handler (only its sign / zero is used) -/
def Fault.code : Fault → Int
  | .timeout => 0 | .transmission => -1 | .protocol => -2 | _ => -3

structure Cmd where
  tok : String
  write : Bool := false
  deriving DecidableEq, Repr

/-- what the tag does with a command that reaches it -/
inductive Ans
  | ok                    -- answers, the answer passes the response checks
  | refuse (errno : Int)  -- answers, the response check raises TagCommandError(errno)
  | mute                  -- stays silent (the reader reports a timeout)
  deriving DecidableEq, Repr

/-- one invocation of a primitive: command, attempts in order (`true` = the tag stayed mute on a delivered command) -/
structure Inv where
  cmd : Cmd
  atts : List (Att × Bool)
  deriving DecidableEq, Repr

structure World where
  script : List Att
  log : List Inv := []
  applied : List Cmd := []     -- commands executed by the tag, in order
  deriving Repr

structure Cfg where
  fixF17 : Bool    -- Type 3 write after a failed attribute read raises the command error
  fixF31t3 : Bool  -- Type 3: unknown CommunicationError -> TagCommandError(RECEIVE_ERROR)
  fixF32 : Bool    -- Type 3: short answers -> RSP_LENGTH_ERROR
  fixSect : Bool   -- Type 2 sector select: non-timeout error is re-raised instead of `assert`
  fixT4 : Bool     -- ISO-DEP: unknown CommunicationError -> TagCommandError(RECEIVE_ERROR)
  deriving DecidableEq, Repr

def Cfg.repaired : Cfg := ⟨true, true, true, true, true⟩
def Cfg.asFound : Cfg := ⟨false, false, false, false, false⟩

inductive PrimKind | t12 | t3 | t4 | raw
  deriving DecidableEq, Repr

/-- next letter of the script; an exhausted script answers -/
def nextAtt (w : World) : Att × World :=
  match w.script with
  | [] => (.ans, w)
  | a :: r => (a, { w with script := r })

def World.push (w : World) (c : Cmd) (atts : List (Att × Bool)) : World :=
  { w with log := w.log ++ [⟨c, atts⟩] }

def World.apply (w : World) (c : Cmd) : World := { w with applied := w.applied ++ [c] }

/-- the tag executes `c` if it accepts it -/
def World.exec (w : World) (c : Cmd) (a : Ans) : World := if a = .ok then w.apply c else w

/-- result of the `else` branch of the retry loop -/
def exhausted (cfg : Cfg) (k : PrimKind) (last : Fault) : Exc :=
  match last.errno with
  | some n => .tagCmd n
  | none => match k with
    | .t3 => if cfg.fixF31t3 then .tagCmd (-1) else .unbound
    | _ => .runtime

/-- what a cut Type 3 answer does in `send_cmd_recv_rsp` (`idm`: the command carries the IDm) -/
def shortExc (cfg : Cfg) (idm : Bool) (k : Nat) : Exc :=
  if cfg.fixF32 then (if !idm && k ≥ 2 then .tagCmd 4 else .tagCmd 1)   -- polling: length byte is right, DATA_SIZE_ERROR
  else match k with
    | 0 => .index                              -- rsp[0]
    | 1 => .index                              -- rsp[1]
    | 2 => if idm then .index else .tagCmd 4   -- rsp[10]; polling: DATA_SIZE_ERROR
    | _ => if idm then .struct else .tagCmd 4  -- unpack(">H", rsp[10:12])

/-- `for retry in range(n): try: rsp = exchange(cmd); break; except CommunicationError ...`
(`n` attempts left, `last` the class of the previous failure). -/
def loop (cfg : Cfg) (k : PrimKind) (idm : Bool) (c : Cmd) (a : Ans) :
    Nat → Option Fault → List (Att × Bool) → World → (Py Unit) × World
  | 0, last, acc, w =>
    (.error (match last with | some f => exhausted cfg k f | none => .unbound), w.push c acc)
  | n+1, _, acc, w =>
    let (att, w) := nextAtt w
    match att with
    | .ans =>
      let w := w.exec c a
      match a with
      | .ok => (.ok (), w.push c (acc ++ [(att, false)]))
      | .refuse e => (.error (.tagCmd e), w.push c (acc ++ [(att, false)]))
      | .mute => loop cfg k idm c a n (some .timeout) (acc ++ [(att, true)]) w
    | .flt f reached =>
      loop cfg k idm c a n (some f) (acc ++ [(att, false)]) (if reached then w.exec c a else w)
    | .short s =>
      let w := w.exec c a
      match a with
      | .mute => loop cfg k idm c a n (some .timeout) (acc ++ [(att, true)]) w
      | _ => if k = .t3 then (.error (shortExc cfg idm s), w.push c (acc ++ [(att, false)]))
             else match a with
               | .refuse e => (.error (.tagCmd e), w.push c (acc ++ [(att, false)]))
               | _ => (.ok (), w.push c (acc ++ [(att, false)]))

/-- end of an ISO-DEP exchange whose answer arrived -/
def depDone (c : Cmd) (a : Ans) (w : World) (acc : List (Att × Bool)) : (Py Unit) × World :=
  match a with
  | .refuse e => (.error (.tagCmd e), w.push c acc)
  | _ => (.ok (), w.push c acc)

/-- the `except` clauses of the block loop for frame number `i`: `none` = send R(NAK) and go on -/
def depFail (cfg : Cfg) (budget i : Nat) (f : Fault) : Option Exc :=
  match f with
  | .protocol => some (.tagCmd (-2))
  | .timeout => if i ≤ budget then none else some (.tagCmd 0)
  | .transmission => if i ≤ budget then none else some (.tagCmd (-1))
  | f => some (if cfg.fixT4 then .tagCmd (-1) else f.exc)

/-- ISO-DEP exchange of one unchained command (tt4.py `IsoDepInitiator.exchange`).  `i` counts
the frames of this exchange from 1, `nak`: the next frame is R(NAK) instead of the I-block,
`has`: the card has executed the command.  Recursion on `fuel`; `fuel = budget + 3` is never
used up (`dep_spec`). -/
def dep (cfg : Cfg) (budget : Nat) (c : Cmd) (a : Ans) :
    Nat → Nat → Bool → Bool → List (Att × Bool) → World → (Py Unit) × World
  | 0, _, _, _, acc, w => (.error .outOfFuel, w.push c acc)
  | fuel+1, i, nak, has, acc, w =>
    match nextAtt w with
    | (.flt f reached, w) =>
      let exec := reached && !nak && !has
      let w := if exec then w.exec c a else w
      let acc := acc ++ [(.flt f reached, false)]
      match depFail cfg budget i f with
      | some e => (.error e, w.push c acc)
      | none => dep cfg budget c a fuel (i+1) true (has || exec) acc w
    | (att, w) =>
      if a = .mute then
        match depFail cfg budget i .timeout with
        | some e => (.error e, w.push c (acc ++ [(att, true)]))
        | none => dep cfg budget c a fuel (i+1) true has (acc ++ [(att, true)]) w
      else if nak then
        if has then depDone c a w (acc ++ [(att, false)])
        else dep cfg budget c a fuel (i+1) false has (acc ++ [(att, false)]) w
      else depDone c a (w.exec c a) (acc ++ [(att, false)])

/-- a bare `clf.exchange` (no retry, the CommunicationError is raised as it is) -/
def rawx (c : Cmd) (a : Ans) (w : World) : (Py Unit) × World :=
  let (att, w) := nextAtt w
  match att with
  | .flt f reached => (.error f.exc, (if reached then w.exec c a else w).push c [(att, false)])
  | _ => match a with
    | .mute => (.error .timeout, w.push c [(att, true)])
    | .refuse e => (.error (.tagCmd e), w.push c [(att, false)])
    | .ok => (.ok (), (w.apply c).push c [(att, false)])

structure Prim where
  kind : PrimKind
  budget : Nat          -- attempts (t12, t3) / n_retry (t4)
  idm : Bool := true    -- Type 3: command with IDm and status flags
  deriving DecidableEq, Repr

def prim (cfg : Cfg) (p : Prim) (c : Cmd) (a : Ans) (w : World) : (Py Unit) × World :=
  match p.kind with
  | .t12 => loop cfg .t12 p.idm c a p.budget none [] w
  | .t3 => loop cfg .t3 p.idm c a p.budget none [] w
  | .t4 => dep cfg p.budget c a (p.budget + 3) 1 false false [] w
  | .raw => rawx c a w

/-! ## command programs -/

inductive Val | none | false_ | true_ | ndef | unit | list
  deriving DecidableEq, Repr

/-- which exceptions of the call the enclosing `try` catches -/
inductive Catch | nothing | tagErr | commErr
  deriving DecidableEq, Repr

def Catch.catches : Catch → Exc → Option Int
  | .tagErr, .tagCmd n => some n
  | .commErr, .timeout => some 0
  | .commErr, .transmission => some (-1)
  | .commErr, .protocol => some (-2)
  | .commErr, .brokenLink => some (-3)
  | .commErr, .commError => some (-3)
  | _, _ => Option.none

inductive Prog
  | ret (v : Val)
  | crash (e : Exc)                 -- `raise e` written in the code (failed assert, explicit raise)
  | reraise                         -- `raise` inside a handler
  | caseErr (zero neg pos : Unit → Prog)   -- handler branching on `error.errno`
  | call (p : Prim) (c : Cmd) (a : Ans) (catch_ : Catch) (ok err : Unit → Prog)

inductive Outcome | ok (v : Val) | exc (e : Exc)
  deriving DecidableEq, Repr

/-- run a program; `cur` is the errno of the exception being handled -/
def run (cfg : Cfg) : Prog → Int → World → Outcome × World
  | .ret v, _, w => (.ok v, w)
  | .crash e, _, w => (.exc e, w)
  | .reraise, cur, w => (.exc (.tagCmd cur), w)
  | .caseErr z n p, cur, w =>
    if cur = 0 then run cfg (z ()) cur w else if cur < 0 then run cfg (n ()) cur w else run cfg (p ()) cur w
  | .call p c a ct ok err, cur, w =>
    match prim cfg p c a w with
    | (.ok _, w') => run cfg (ok ()) cur w'
    | (.error e, w') =>
      match ct.catches e with
      | some n => run cfg (err ()) n w'
      | Option.none => (.exc e, w')

/-! ## operations -/

/-- how an operation continues when a step fails with a caught error -/
inductive Pol
  | raise                    -- not caught
  | ret (v : Val)            -- handler returns `v`
  | skip                     -- handler continues with the next step
  | goto (p : Unit → Prog)   -- handler continues with `p`

structure Step where
  cmd : Cmd
  ans : Ans

def t12 : Prim := ⟨.t12, 3, true⟩
def t3p (idm : Bool) : Prim := ⟨.t3, 3, idm⟩

/-- continuation of a handler under policy `pol` -/
def polProg (pol : Pol) (next : Unit → Prog) : Unit → Prog :=
  match pol with
  | .raise => fun _ => .reraise
  | .ret v => fun _ => .ret v
  | .skip => next
  | .goto p => p

/-- a straight sequence of commands under one error policy -/
def chain (cfg : Cfg) (p : Prim) (ct : Catch) (pol : Pol) : List Step → (Unit → Prog) → Prog
  | [], fin => fin ()
  | s :: ss, fin =>
    let next := fun _ => chain cfg p ct pol ss fin
    if s.cmd.tok = "s2" ∧ p.kind = .t12 then
      -- second part of the Type 2 SECTOR SELECT (tt2.py:546-553): one attempt, silence is the
      -- acknowledge, an answer means "no such sector", any other error trips the `assert`;
      -- what sector_select raises itself is subject to the enclosing policy
      let raised : Unit → Prog := match pol with
        | .raise => fun _ => .crash (.tagCmd 1)
        | _ => polProg pol next
      let other : Unit → Prog := fun _ => if cfg.fixSect then polProg pol next () else .crash .assertion
      .call ⟨.t12, 1, true⟩ s.cmd s.ans .tagErr raised (fun _ => .caseErr next other other)
    else
      .call p s.cmd s.ans (match pol with | .raise => .nothing | _ => ct) next (polProg pol next)

abbrev Phases := List (List Step)
def ph (l : Phases) (i : Nat) : List Step := l.getD i []

def fin (v : Val) : Unit → Prog := fun _ => .ret v

/-- Type 3 `_format` (tt3.py:366-431): the probing loops decide from errors, so
the program depends on the tag (`nmaxb`, `nbr`, `nbw`: what the tag really
supports) and not on a recorded command sequence. -/
structure T3Tag where
  nmaxb : Nat
  nbr : Nat
  nbw : Nat

def rdTok (b n : Nat) : Cmd := ⟨if n > 1 then s!"r{b}x{n}" else s!"r{b}", false⟩
def wrTok (b n : Nat) : Cmd := ⟨if n > 1 then s!"w{b}x{n}" else s!"w{b}", true⟩
def refuseT3 : Ans := .refuse 0x01A2

def t3Wipe (cfg : Cfg) (t : T3Tag) : Nat → Prog
  | 0 => .ret .true_
  | b+1 => .call (t3p true) (wrTok (b+1) 1) (if b+1 ≤ t.nmaxb then .ok else refuseT3) .nothing
             (fun _ => t3Wipe cfg t b) (fun _ => .reraise)

def t3Nbw (cfg : Cfg) (t : T3Tag) (wipe : Bool) (nmaxb : Nat) : Nat → Nat → Prog
  | 0, _ => .ret .true_   -- not reached (fuel)
  | fuel+1, nbw =>
    let attr : Unit → Prog := fun _ =>
      .call (t3p true) (wrTok 0 1) .ok .nothing
        (fun _ => if wipe then t3Wipe cfg t nmaxb else .ret .true_) (fun _ => .reraise)
    if nbw > 13 then attr ()
    else .call (t3p true) (wrTok 0 nbw) (if nbw ≤ t.nbw then .ok else refuseT3) .tagErr
           (fun _ => t3Nbw cfg t wipe nmaxb fuel (nbw+1)) attr

def t3Nbr (cfg : Cfg) (t : T3Tag) (wipe : Bool) (nmaxb : Nat) : Nat → Nat → Prog
  | 0, _ => .ret .true_
  | fuel+1, nbr =>
    let after : Unit → Prog := fun _ =>
      .call (t3p true) (rdTok 0 1) .ok .nothing (fun _ => t3Nbw cfg t wipe nmaxb 14 1) (fun _ => .reraise)
    if nbr > 15 then after ()
    else .call (t3p true) (rdTok 0 nbr) (if nbr ≤ t.nbr then .ok else refuseT3) .tagErr
           (fun _ => t3Nbr cfg t wipe nmaxb fuel (nbr+1)) after

def t3Search (cfg : Cfg) (t : T3Tag) (wipe : Bool) : Nat → Nat → Nat → Prog
  | 0, lo, _ => t3Nbr cfg t wipe lo 16 1
  | fuel+1, lo, hi =>
    if hi - lo > 1 then
      let b := lo + (hi - lo) / 2
      .call (t3p true) (rdTok b 1) (if b ≤ t.nmaxb then .ok else refuseT3) .tagErr
        (fun _ => t3Search cfg t wipe fuel b hi) (fun _ => t3Search cfg t wipe fuel lo b)
    else t3Nbr cfg t wipe lo 16 1

def t3Format (cfg : Cfg) (t : T3Tag) (wipe : Bool) : Prog :=
  .call (t3p true) (rdTok 0 1) .ok .tagErr (fun _ => t3Search cfg t wipe 17 0 0x10000) (fin .false_)

/-- program of operation `op` on tag family `fam` -/
def prog (cfg : Cfg) (tlv : Bool) (fam op : String) (l : Phases) (v : Val) (nret : Nat) : Option Prog :=
  -- `tlv`: tt1.read_tlv catches the command error for the whole TLV (repair of C08), not only for its first byte
  let tlvPol : Val → Pol := fun r => if tlv then .ret r else .raise
  let c12 := fun pol ss k => chain cfg t12 .tagErr pol ss k
  let c3 := fun pol ss k => chain cfg (t3p true) .tagErr pol ss k
  let c3p := fun pol ss k => chain cfg (t3p false) .tagErr pol ss k
  let c4 := fun pol ss k => chain cfg ⟨.t4, nret, true⟩ .tagErr pol ss k
  match fam, op with
  -- Type 2 (generic and NXP)
  | "t2", "ndef" => some (c12 (.ret .none) (ph l 0) (fin .ndef))
  | "t2", "write" => some (c12 .raise (ph l 0) (fin .unit))
  | "t2", "present" => some (c12 (.ret .false_) (ph l 0) (fin v))
  | "t2", "format" => some (c12 (.ret .false_) (ph l 0) fun _ => c12 .raise (ph l 1) (fin .true_))
  | "t2nxp", "format" =>   -- NTAG203/21x: no NDEF -> write factory defaults, then the generic format reads again
    some (c12 (.goto fun _ => c12 .raise (ph l 2) fun _ => c12 (.ret .false_) (ph l 3) fun _ => c12 .raise (ph l 4) (fin .true_))
            (ph l 0) fun _ => c12 .raise (ph l 1) (fin .true_))
  | "t2", "protect" => some (c12 (.ret .false_) (ph l 0) fun _ => c12 .raise (ph l 1) (fin .true_))
  | "t2nxp", "protect" => some (c12 (.ret .false_) (ph l 0) (fin .true_))
  | "t2", "protectpw" => some (.ret .false_)
  | "t2ulc", "protectpw" => some (c12 .raise (ph l 0) fun _ => c12 .raise (ph l 1) fun _ => c12 (.ret .false_) (ph l 2) (fin v))
  | "t2ntag", "protectpw" => some (c12 .raise (ph l 0) fun _ => c12 (.ret .false_) (ph l 1) (fin v))
  | "t2ulc", "auth" => some (c12 .raise (ph l 0) fun _ => c12 (.ret .false_) (ph l 1) (fin v))
  | "t2ntag", "auth" => some (c12 (.ret .false_) (ph l 0) (fin v))
  | "t2", "dump" =>   -- header pages one by one, body until the first error, vendor footer one by one
    some (c12 .skip (ph l 0) fun _ =>
            c12 (.goto fun _ => c12 .skip (ph l 2) (fin .list)) (ph l 1) fun _ => c12 .skip (ph l 2) (fin .list))
  -- Type 1
  | "t1", "ndef" => some (c12 (.ret .none) (ph l 0) fun _ => c12 (tlvPol .none) (ph l 1) (fin .ndef))
  | "t1", "write" => some (c12 .raise (ph l 0) (fin .unit))
  | "t1", "present" => some (c12 (.ret .false_) (ph l 0) (fin v))
  | "t1", "format" => some (c12 .raise (ph l 0) (fin .true_))
  | "t1", "protect" =>
    some (c12 (.ret .false_) (ph l 0) fun _ => c12 (tlvPol .false_) (ph l 1) fun _ => c12 .raise (ph l 2) (fin .true_))
  | "t1", "dump" =>
    some (c12 .raise (ph l 0) fun _ => c12 (.ret .list) (ph l 1) fun _ => c12 (.goto (fin .list)) (ph l 2) (fin .list))
  -- Type 3
  | "t3", "ndef" => some (c3p (.ret .none) (ph l 0) fun _ => c3 (.ret .none) (ph l 1) (fin .ndef))
  | "t3", "write" =>
    some (c3 (if cfg.fixF17 then .raise else .goto fun _ => .crash .type_) (ph l 0) fun _ => c3 .raise (ph l 1) (fin .unit))
  | "t3", "present" => some (c3p (.ret .false_) (ph l 0) (fin v))
  | "t3std", "present" =>
    some (chain cfg ⟨.t3, 3, true⟩ .tagErr (.goto fun _ => c3p (.ret .false_) (ph l 1) (fin v)) (ph l 0) (fin v))
  | "t3", "dump" => some (c3 (.goto (fin .list)) (ph l 0) (fin .list))
  | "t3std", "dump" =>
    some (c3 (.goto fun _ => c3 (.goto (fin .list)) (ph l 3) (fin .list)) (ph l 0) fun _ =>
            c3p .raise (ph l 1) fun _ => c3 .raise (ph l 2) fun _ => c3 (.goto (fin .list)) (ph l 3) (fin .list))
  | "lite", "format" => some (c3 .raise (ph l 0) (fin .true_))
  | "lite", "protect" =>
    some (c3 .raise (ph l 0) fun _ =>
            c3p (.goto fun _ => c3 .raise (ph l 4) (fin .true_)) (ph l 1) fun _ =>
            c3 (.goto fun _ => c3 .raise (ph l 4) (fin .true_)) (ph l 2) fun _ =>
            c3 .raise (ph l 3) fun _ => c3 .raise (ph l 4) (fin .true_))
  | "lite", "auth" => some (c3 .raise (ph l 0) (fin v))
  | "lite", "dump" => some (c3 .skip (ph l 0) fun _ => c3 .raise (ph l 1) fun _ => c3 .skip (ph l 2) (fin .list))
  -- Type 4
  | "t4", "ndef" => some (c4 (.ret .none) (ph l 0) (fin .ndef))
  | "t4", "write" => some (c4 .raise (ph l 0) (fin .unit))
  | "t4", "present" => some (chain cfg ⟨.raw, 1, true⟩ .commErr (.ret .false_) (ph l 0) (fin .true_))
  | "t4", "format" => some (c4 (.ret .false_) (ph l 0) fun _ => c4 (.ret .false_) (ph l 1) (fin .true_))
  | "t4", "dump" => some (c4 (.ret .list) (ph l 0) fun _ => c4 (.goto (fin .list)) (ph l 1) (fin .list))
  | _, "noop" => some (.ret v)
  | _, _ => Option.none

end NfcVerif.Retry
