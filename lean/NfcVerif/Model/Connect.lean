import NfcVerif.Model.Sense
/-!
# Model of `ContactlessFrontend.connect` (src/nfc/clf/__init__.py:495-663)

`connect o env ts`: option record `o`, environment script `env` (see
`Model/Sense.lean`), terminate predicate as the list `ts` of its successive
answers (an exhausted list answers `true`: the predicate eventually stays true).
Output: the event log (callbacks with their results, terminate answers, driver
and collaborator calls) and the outcome.
-/
namespace NfcVerif.Clf

/-- values a callback may return: None False True 0 1 [] "x" (codes 0..6) -/
inductive Val | none | false_ | true_ | zero | one | emptyList | str
  deriving DecidableEq, Repr, Inhabited

def Val.truthy : Val → Bool
  | .true_ | .one | .str => true
  | _ => false

def Val.code : Val → Nat
  | .none => 0 | .false_ => 1 | .true_ => 2 | .zero => 3 | .one => 4 | .emptyList => 5 | .str => 6

def Val.ofCode : Nat → Option Val
  | 0 => some .none | 1 => some .false_ | 2 => some .true_ | 3 => some .zero
  | 4 => some .one | 5 => some .emptyList | 6 => some .str | _ => Option.none

/-- a callback option: absent (the default lambda is used) or returning a fixed value -/
inductive Cb | absent | ret (v : Val)
  deriving DecidableEq, Repr, Inhabited

/-- run a callback: the value and the event -/
def Cb.run (c : Cb) (dflt : Val) (r : Role) (k : CbKind) (s : St) : Val × St :=
  match c with
  | .absent => (dflt, s.emit (.cb r k dflt.code true))
  | .ret v => (v, s.emit (.cb r k v.code false))

/-- what `on-startup` gives back -/
inductive StartRes
  | proper        -- the documented object (list of RemoteTarget / the llc / a LocalTarget)
  | falsy         -- None, [] ...
  | wrongType     -- a true value of the wrong type (option is removed)
  | nonIterable   -- rdwr only: a true value that is not iterable (`all([.. for o in 1])` raises TypeError)
  deriving DecidableEq, Repr, Inhabited

structure RdwrOpts where
  startup : Option (StartRes × Nat)    -- none: absent; the Nat is the code echoed in the log
  targets : List TgtSpec
  discover : Cb
  connect : Cb
  release : Cb
  iters : Int
  beep : Bool
  deriving Repr, Inhabited

inductive RoleOpt | both | target | initiator | invalid
  deriving DecidableEq, Repr, Inhabited

structure LlcpOpts where
  startup : Option (StartRes × Nat)
  connect : Cb
  release : Cb
  role : RoleOpt
  deriving Repr, Inhabited

structure CardOpts where
  startup : Option (StartRes × Nat)
  target : LtSpec
  discover : Cb
  connect : Cb
  release : Cb
  deriving Repr, Inhabited

structure Opts where
  rdwr : Option RdwrOpts
  llcp : Option LlcpOpts
  card : Option CardOpts
  deriving Repr, Inhabited

/-- what a `_xxx_connect` step returns -/
inductive RetVal
  | none
  | obj (r : Role)         -- the Tag / LogicalLinkController / TagEmulation object
  | val (r : Role) (v : Val)   -- whatever on-release of role r returned
  deriving DecidableEq, Repr, Inhabited

/-- `bool(result) is True` -/
def RetVal.truthy : RetVal → Bool
  | .none => false
  | .obj _ => true
  | .val _ v => v.truthy

/-- a step: outcome, state, remaining terminate answers -/
abbrev StepOut := Py RetVal × St × List Bool

/-- ask the terminate predicate: answer and remaining stream (exhausted = true) -/
def askTerm (ts : List Bool) (s : St) : Bool × St × List Bool :=
  match ts with
  | [] => (true, s.emit (.term true), [])
  | b :: r => (b, s.emit (.term b), r)

/-- `while not terminate() and tag.is_present: time.sleep(0.1)`;
`tag.is_present` is one `exchange()`; CommunicationError means "gone" -/
def presenceLoop : List Bool → St → Py Unit × St × List Bool
  | [], s => (.ok (), s.emit (.term true), [])
  | true :: r, s => (.ok (), s.emit (.term true), r)
  | false :: r, s =>
    match exchange (s.emit (.term false)) with
    | (.ok (some _), s1) => presenceLoop r (s1.emit .sleep)
    | (.ok none, s1) => (.ok (), s1, r)
    | (.error e, s1) => if isCommErr e then (.ok (), s1, r) else (.error e, s1, r)

/-! ## `nfc.tag.activate(clf, target)` (src/nfc/tag/__init__.py:425-441) and the type specific
activation code it dispatches to (tt1.py / tt1_broadcom.py, tt2.py / tt2_nxp.py, tt3.py /
tt3_sony.py, tt4.py): which commands are sent through `clf.exchange`, which nested `clf.sense`
calls are made, and what happens to every exception. -/

/-- SEL_RES of the target a `sense_tta` answer describes -/
def Found.selRes (f : Found) : Nat := (if f.p2p then 64 else 0) + (if f.var % 2 = 1 then 32 else 0)
/-- first byte of SDD_RES (manufacturer code of a 7 byte NFCID1; 04h = NXP) -/
def Found.sdd0 (f : Found) : Nat := if f.var / 2 % 2 = 1 then 8 else 4

inductive TagType | tt1 | tt2 | tt3 | tt4a | tt4b
  deriving DecidableEq, Repr, Inhabited

/-- the keys of `nfc.tag.tt2_nxp.VERSION_MAP` (GET_VERSION responses of known products) -/
def versionMap : List Bytes := [
  [0x00, 0x04, 0x03, 0x01, 0x01, 0x00, 0x0B, 0x03], [0x00, 0x04, 0x03, 0x02, 0x01, 0x00, 0x0B, 0x03],
  [0x00, 0x04, 0x03, 0x01, 0x01, 0x00, 0x0E, 0x03], [0x00, 0x04, 0x03, 0x02, 0x01, 0x00, 0x0E, 0x03],
  [0x00, 0x04, 0x04, 0x01, 0x01, 0x00, 0x0B, 0x03], [0x00, 0x04, 0x04, 0x01, 0x01, 0x00, 0x0E, 0x03],
  [0x00, 0x04, 0x04, 0x02, 0x01, 0x00, 0x0F, 0x03], [0x00, 0x04, 0x04, 0x02, 0x01, 0x00, 0x11, 0x03],
  [0x00, 0x04, 0x04, 0x02, 0x01, 0x00, 0x13, 0x03], [0x00, 0x04, 0x04, 0x05, 0x02, 0x01, 0x13, 0x03],
  [0x00, 0x04, 0x04, 0x05, 0x02, 0x01, 0x15, 0x03]]

/-- `clf.sense(target)` with the one target whose `sel_req` is the 7 byte NFCID1 just seen
(tt2.py:716): is the tag still there?  `self.target` becomes the target found (or None). -/
def reSense (s : St) : R Bool :=
  match sense [.a 7] 1 s with
  | (.ok (some _), s1) => (.ok true, s1)
  | (.ok none, s1) => (.ok false, s1)
  | (.error e, s1) => (.error e, s1)

/-- after a command the tag did not understand: `if clf.sense(target) is None: return`, else `k` -/
def stillThere (s : St) (k : St → R Bool) : R Bool :=
  match reSense s with
  | (.error e, s1) => (.error e, s1)
  | (.ok false, s1) => (.ok false, s1)
  | (.ok true, s1) => k s1

/-- second half of `nfc.tag.tt2_nxp.activate`: GET_VERSION (60h); `true` = a tag object was made -/
def nxpVersion (s : St) : R Bool :=
  match exchange s with
  | (.ok none, s1) => (.error .type_, s1)             -- bytes(None)
  | (.ok (some d), s1) =>
    if d ∈ versionMap then (.ok true, s1)
    else if d = [0] then stillThere s1 (fun s2 => (.ok true, s2))      -- NTAG203
    else (.ok false, s1)
  | (.error e, s1) =>
    if e = .timeout then stillThere s1 (fun s2 => (.ok true, s2))      -- MifareUltralight
    else if isCommErr e then (.ok false, s1)
    else (.error e, s1)

/-- `nfc.tag.tt2_nxp.activate`: AUTHENTICATE (1A 00), then GET_VERSION -/
def nxpActivate (s : St) : R Bool :=
  match exchange s with
  | (.ok d, s1) =>
    stillThere s1 (fun s2 =>
      match d with
      | none => (.error .attr, s2)                      -- None.startswith
      | some d => if d.head? = some 0xAF then (.ok true, s2) else nxpVersion s2)
  | (.error e, s1) =>
    if e = .timeout then stillThere s1 nxpVersion
    else if isCommErr e then (.ok false, s1)
    else (.error e, s1)

/-- `nfc.tag.tt2.activate` -/
def tt2Activate (f : Found) (s : St) : R (Option TagType) :=
  if f.sdd0 = 4 then
    match nxpActivate s with
    | (.error e, s1) => (.error e, s1)
    | (.ok true, s1) => (.ok (some .tt2), s1)
    | (.ok false, s1) =>
      -- "make sure the tag is still alive"
      (match reSense s1 with
       | (.error e, s2) => (.error e, s2)
       | (.ok true, s2) => (.ok (some .tt2), s2)
       | (.ok false, s2) => (.ok none, s2))
  else (.ok (some .tt2), s)

/-- `Type4ATag.__init__` / `Type4BTag.__init__`: one command (RATS / ATTRIB); every answer with
data is accepted -/
def tt4Activate (t : TagType) (s : St) : R (Option TagType) :=
  match exchange s with
  | (.ok (some _), s1) => (.ok (some t), s1)
  | (.ok none, s1) => (.error .type_, s1)              -- hexlify(None)
  | (.error e, s1) => (.error e, s1)

/-- the body of the `try:` in `nfc.tag.activate`: dispatch on technology, SENS_RES, SEL_RES -/
def activateBody (f : Found) (s : St) : R (Option TagType) :=
  if f.tech = 1 then
    if f.sens.getD 1 0 % 16 = 12 then
      -- repaired (fixes/C18/0004): tt1.activate returns None without a RID response (sense() asks for
      -- the RID response only when SENS_RES byte 0 says Type 1 platform); otherwise Topaz / Topaz512 /
      -- Type1Tag, no command
      (if f.rid.isEmpty then (.ok none, s) else (.ok (some .tt1), s))
    else if f.selRes / 32 % 4 = 0 then tt2Activate f s
    else if f.selRes / 32 % 2 = 1 then tt4Activate .tt4a s
    else (.ok none, s)
  else if f.tech = 2 then tt4Activate .tt4b s
  else if f.tech = 3 then (if f.p2p then (.ok none, s) else (.ok (some .tt3), s))   -- no command
  else (.ok none, s)          -- repaired (fixes/C18/0003): found by sense_dep, no sens_res: not a tag

/-- `nfc.tag.activate`: `except nfc.clf.CommunicationError: return None`.  The call itself is an
event of the history (`act`, with the target as its "answer"; it consumes nothing of the script). -/
def tagActivate (f : Found) (s : St) : R (Option TagType) :=
  match activateBody f (s.emit (.call .activate (.found f))) with
  | (.error e, s1) => if isCommErr e then (.ok none, s1) else (.error e, s1)
  | r => r

/-- default `on-discover` of the rdwr option: refuse peer-to-peer capable targets -/
def defaultDiscover (f : Found) : Val := if f.p2p then .false_ else .true_

def rdwrStep (o : RdwrOpts) (ts : List Bool) (s : St) : StepOut :=
  match sense o.targets o.iters s with
  | (.error e, s1) => (.error e, s1, ts)
  | (.ok none, s1) => (.ok .none, s1, ts)
  | (.ok (some (_, f)), s1) =>
    let (dv, s2) := o.discover.run (defaultDiscover f) .rdwr .discover s1
    if !dv.truthy then (.ok .none, s2, ts) else
    match tagActivate f s2 with
    | (.error e, s3) => (.error e, s3, ts)
    | (.ok none, s3) => (.ok .none, s3, ts)
    | (.ok (some _), s3) =>
      let (cv, s4) := o.connect.run .true_ .rdwr .connect s3
      if !cv.truthy then (.ok (.obj .rdwr), s4, ts) else
      (match (if o.beep then simpleCall .ledOn s4 else (.ok (), s4)) with
       | (.error e, s5) => (.error e, s5, ts)
       | (.ok _, s5) =>
         match presenceLoop ts s5 with
         | (.error e, s6, ts1) => (.error e, s6, ts1)
         | (.ok _, s6, ts1) =>
           match simpleCall .ledOff s6 with
           | (.error e, s7) => (.error e, s7, ts1)
           | (.ok _, s7) =>
             let (rv, s8) := o.release.run .true_ .rdwr .release s7
             (.ok (.val .rdwr rv), s8, ts1))

/-- the scripted `llc.run(terminate)`: up to `n` polls of terminate, then the peer releases -/
def runPolls : Nat → List Bool → St → St × List Bool
  | 0, ts, s => (s, ts)
  | _ + 1, [], s => (s.emit (.term true), [])
  | _ + 1, true :: r, s => (s.emit (.term true), r)
  | k + 1, false :: r, s => runPolls k r (s.emit (.term false))

/-- the loop of `LogicalLinkController.run_as_initiator` / `run_as_target` (src/nfc/llcp/llc.py):
`while not terminate(): <one exchange with the peer>` - `terminate()` is asked at the head of EVERY
turn, whether or not the local link layer has a PDU to send (`busy`) or received one; the turn's
exchange then finds the peer gone when the traffic list is used up ("link disruption").
`runLoop l` IS the scripted `llc.run` answer `polls (l.length + 1)` of `llcpRole` (theorem
`runLoop_eq`); the driver turns a traffic answer `r<bits>` into exactly that. -/
def runLoop : List Bool → List Bool → St → St × List Bool
  | _, [], s => (s.emit (.term true), [])
  | _, true :: r, s => (s.emit (.term true), r)
  | [], false :: r, s => (s.emit (.term false), r)
  | _busy :: tr, false :: r, s => runLoop tr r (s.emit (.term false))

/-- one role of `_llcp_connect`: `none` = not activated, go on with the next role -/
def llcpRole (o : LlcpOpts) (initiator : Bool) (ts : List Bool) (s : St) : Option (Py RetVal) × St × List Bool :=
  let (a, s1) := s.ask (.llcActivate initiator)
  match a with
  | .ioError => (some (.error (.io 5)), s1, ts)
  | .kbd => (some (.error .keyboardInterrupt), s1, ts)
  | .found _ =>
    let (cv, s2) := o.connect.run .true_ .llcp .connect s1
    if !cv.truthy then (some (.ok (.obj .llcp)), s2, ts) else
    let (a2, s3) := s2.ask .llcRun
    (match a2 with
     | .ioError => (some (.error (.io 5)), s3, ts)
     | .kbd => (some (.error .keyboardInterrupt), s3, ts)
     | .sysExit => (some (.error .systemExit), s3, ts)
     | _ =>
       let (s4, ts1) := runPolls (match a2 with | .polls n => n | _ => 0) ts s3
       let (rv, s5) := o.release.run .true_ .llcp .release s4
       (some (.ok (.val .llcp rv)), s5, ts1))
  | _ => (none, s1, ts)

def llcpStep (o : LlcpOpts) (ts : List Bool) (s : St) : StepOut :=
  match (if o.role = .both ∨ o.role = .target then llcpRole o false ts s else (none, s, ts)) with
  | (some r, s1, ts1) => (r, s1, ts1)
  | (none, s1, ts1) =>
    match (if o.role = .both ∨ o.role = .initiator then llcpRole o true ts1 s1 else (none, s1, ts1)) with
    | (some r, s2, ts2) => (r, s2, ts2)
    | (none, s2, ts2) => (.ok .none, s2, ts2)

/-- the command/response loop of `_card_connect`; `send_response` is one `exchange()` -/
def cardLoop : List Bool → St → Py Unit × St × List Bool
  | [], s => (.ok (), s.emit (.term true), [])
  | true :: r, s => (.ok (), s.emit (.term true), r)
  | false :: r, s =>
    match exchange (s.emit (.term false)) with
    | (.ok _, s1) => cardLoop r s1
    | (.error e, s1) =>
      if e = .brokenLink then (.ok (), s1, r)
      else if isCommErr e then cardLoop r s1
      else (.error e, s1, r)

/-- `nfc.tag.emulate(clf, target)` (src/nfc/tag/__init__.py:470-478): a `Type3TagEmulation` when the
target the driver returned carries a Type 3 Tag command (`tt3_cmd`: a `listen_ttf` activation; the
`p2p` flag of the answer stands for "no command captured"), otherwise None - no device call -/
def emulates (t : LtSpec) (f : Found) : Bool := t == .f && !f.p2p

def cardStep (o : CardOpts) (ts : List Bool) (s : St) : StepOut :=
  match listen o.target s with
  | (.error e, s1) =>
    -- repaired (F30): a CommunicationError raised inside listen() means "no target this round"
    if isCommErr e then (.ok .none, s1, ts) else (.error e, s1, ts)
  | (.ok none, s1) => (.ok .none, s1, ts)
  | (.ok (some (_, f)), s1) =>
    let (dv, s2) := o.discover.run .true_ .card .discover s1
    if !dv.truthy then (.ok .none, s2, ts) else
    -- the call of nfc.tag.emulate is an event of the history (`emu`); it consumes nothing
    let s3 := s2.emit (.call .emulate (.found f))
    if !emulates o.target f then (.ok .none, s3, ts) else
    let (cv, s4) := o.connect.run .true_ .card .connect s3
    if !cv.truthy then (.ok (.obj .card), s4, ts) else
    (match cardLoop ts s4 with
     | (.error e, s5, ts1) => (.error e, s5, ts1)
     | (.ok _, s5, ts1) =>
       let (rv, s6) := o.release.run .true_ .card .release s5
       (.ok (.val .card rv), s6, ts1))

/-- options that survived on-startup -/
structure Live where
  rdwr : Option RdwrOpts
  llcp : Option LlcpOpts
  card : Option CardOpts

/-- run an optional step; `none` = go on with the next step -/
def tryStep (f : Option (List Bool → St → StepOut)) (ts : List Bool) (s : St) :
    Option (Py RetVal × St) × St × List Bool :=
  match f with
  | none => (none, s, ts)
  | some g =>
    match g ts s with
    | (.error e, s1, ts1) => (some (.error e, s1), s1, ts1)
    | (.ok v, s1, ts1) => if v.truthy then (some (.ok v, s1), s1, ts1) else (none, s1, ts1)

/-- `while not terminate(): ...` of connect(); fuel bounds the number of rounds
(`none`: fuel exhausted - never happens with fuel > ts.length, theorem `connect_total`) -/
def mainLoop (l : Live) : Nat → List Bool → St → Option (Py RetVal × St)
  | 0, _, _ => none
  | k + 1, ts, s =>
    match askTerm ts s with
    | (true, s0, _) => some (.ok .none, s0)
    | (false, s0, ts0) =>
      match tryStep (l.rdwr.map rdwrStep) ts0 s0 with
      | (some r, _, _) => some r
      | (none, s1, ts1) =>
        match tryStep (l.llcp.map llcpStep) ts1 s1 with
        | (some r, _, _) => some r
        | (none, s2, ts2) =>
          match tryStep (l.card.map cardStep) ts2 s2 with
          | (some r, _, _) => some r
          | (none, s3, ts3) => mainLoop l k ts3 s3

/-- how connect() ended -/
inductive Outcome
  | ret (v : RetVal)        -- returned None / the object / on-release's value
  | caught (e : Exc)        -- returned False because of this exception
  | raised (e : Exc)        -- the exception left connect()
  deriving DecidableEq, Repr, Inhabited

/-- the `except` clauses around the main loop -/
def isCaught : Exc → Bool
  | .io _ | .unsupportedTarget | .keyboardInterrupt => true
  | _ => false

def startupEvent (r : Role) (su : Option (StartRes × Nat)) (s : St) : St :=
  match su with
  | Option.none => s.emit (.cb r .startup 0 true)
  | some (_, code) => s.emit (.cb r .startup code false)

/-- does the option survive its on-startup? (defaults: llcp/rdwr keep, card removes) -/
def keeps (r : Role) (su : Option (StartRes × Nat)) : Bool :=
  match su with
  | Option.none => r != .card
  | some (res, _) => res == .proper

/-- option preparation of rdwr and card (lines 527-567), after llcp -/
def startupRest (o : Opts) (ll : Option LlcpOpts) (s1 : St) : Py Live × St :=
  match o.rdwr with
  | some r =>
    let s2 := startupEvent .rdwr r.startup s1
    if (match r.startup with | some (.nonIterable, _) => true | _ => false) then (.error .type_, s2)
    else
      let rr := if keeps .rdwr r.startup && !r.targets.isEmpty then some r else Option.none
      (match o.card with
       | Option.none => (.ok ⟨rr, ll, Option.none⟩, s2)
       | some c => (.ok ⟨rr, ll, if keeps .card c.startup then some c else Option.none⟩, startupEvent .card c.startup s2))
  | Option.none =>
    (match o.card with
     | Option.none => (.ok ⟨Option.none, ll, Option.none⟩, s1)
     | some c => (.ok ⟨Option.none, ll, if keeps .card c.startup then some c else Option.none⟩, startupEvent .card c.startup s1))

/-- the option preparation phase (lines 513-571): events, surviving options -/
def startupPhase (o : Opts) (s : St) : Py Live × St :=
  match o.llcp with
  | Option.none => startupRest o Option.none s
  | some l => startupRest o (if keeps .llcp l.startup then some l else Option.none) (startupEvent .llcp l.startup s)

def Live.isEmpty (l : Live) : Bool := l.rdwr.isNone && l.llcp.isNone && l.card.isNone

/-- `ContactlessFrontend.connect(**options)` on an open device -/
def connect (o : Opts) (env : List Ans) (ts : List Bool) : Outcome × St :=
  match startupPhase o (St.init env) with
  | (.error e, s) => (.raised e, s)
  | (.ok l, s) =>
    if l.isEmpty then (.ret .none, s)
    else
      match mainLoop l (ts.length + 1) ts s with
      | some (.ok v, s1) => (.ret v, s1)
      | some (.error e, s1) => if isCaught e then (.caught e, s1) else (.raised e, s1)
      | none => (.raised .outOfFuel, s)

end NfcVerif.Clf
