import NfcVerif.Model.Term
/-!
# C09 - several threads on one socket / one controller when the link ends

`Model/Term` runs ONE thread through the scheduling points of a socket call.  Here any number
of threads share the world of one socket (and the service discovery access point of its
controller).  A thread that reaches a wait parks; the condition variables keep their waiters in
arrival order; a notification is `notify()` (wakes the longest waiting thread of that variable)
or `notify_all()` - exactly what `threading.Condition` does and what the scheduler double of
harness/sims/term_sched.py does.  The link thread executes a script of link events; a schedule is
the list of decisions "which thread makes its next step" (an index beyond the threads: the link
thread).

The steps of a thread are `start` / `exec` of `Model/Term`; the only thread-local datum of that
model (`viaSap` of `close`) is kept per thread.
-/
namespace NfcVerif.TermMulti
open NfcVerif NfcVerif.Term

/-- `Condition.notify()` / `Condition.notify_all()` -/
inductive Nk | one | all deriving DecidableEq, Repr

/-- LogicalLinkController.terminate: `ServiceAccessPoint.shutdown` closes every socket
    (tco.py close(): `notify_all` on each of its condition variables) and
    `ServiceDiscovery.shutdown` does `resp.notify_all()` -/
def terminateN (w : World) : World × List (Cv × Nk) :=
  ((terminate w).1, (terminate w).2.map (fun cv => (cv, Nk.all)))

/-- link events with the kind of notification the code uses.  A PDU, an acknowledgement and a
    dequeue reach a socket only through its service access point (dispatch / collect walk
    `sap.sock_list`): nothing happens to a socket that is not registered.
    enqueue: `recv_ready.notify()`; acknowledgement: `acks_ready.notify_all()`,
    `send_token.notify()`; dequeue: `send_ready.notify()`; SDRES: `resp.notify_all()` -/
def applyActN (a : Act) (w : World) : World × List (Cv × Nk) :=
  match a with
  | .none => (w, [])
  | .term => terminateN w
  | .spurious => ((applyAct .spurious w).1, (applyAct .spurious w).2.map (fun cv => (cv, Nk.all)))
  | .queue k => if w.registered then ((applyAct (.queue k) w).1, [(.recvReady, .one)]) else (w, [])
  | .ack => if w.registered then ((applyAct .ack w).1, [(.acksReady, .all), (.sendToken, .one)]) else (w, [])
  | .dequeue => if w.registered then ((applyAct .dequeue w).1, [(.sendReady, .one)]) else (w, [])
  | .resolved => ((applyAct .resolved w).1, (applyAct .resolved w).2.map (fun cv => (cv, Nk.all)))

/-- the same with `ServiceDiscovery.shutdown` calling `resp.notify()` (for the counter-example) -/
def applyActNotifyOne (a : Act) (w : World) : World × List (Cv × Nk) :=
  match a with
  | .term => ((terminate w).1, (terminate w).2.map (fun cv => (cv, if cv = .resp then Nk.one else Nk.all)))
  | a => applyActN a w

inductive TStat
  | fresh                                   -- the call has not started
  | ready (p : Pt)                          -- stands at a lock acquisition
  | parked (p : Pt) (notified : Bool)       -- inside Condition.wait()
  | done (r : Py Val)
  deriving Repr

structure Thread where
  call : Call
  stat : TStat
  viaSap : Bool := false
  deriving Repr

structure MState where
  w : World
  ths : List Thread
  /-- indices of the parked threads that have not been notified, longest waiting first (the
      waiter lists of all condition variables merged; a notification only looks at its own) -/
  order : List Nat
  /-- link events still to come -/
  script : List Act
  deriving Repr

/-- the condition variable a thread is a waiter of -/
def waitsOn (t : Thread) : Option Cv :=
  match t.stat with
  | .parked p false => some p.cv
  | _ => none

def wake (t : Thread) : Thread :=
  match t.stat with
  | .parked p _ => { t with stat := .parked p true }
  | _ => t

def isWaiter (ths : List Thread) (cv : Cv) (i : Nat) : Bool :=
  match ths[i]? with
  | some t => waitsOn t == some cv
  | none => false

/-- `notify()`: the longest waiting thread of `cv` -/
def notifyOne (cv : Cv) (ths : List Thread) : List Nat → List Thread × List Nat
  | [] => (ths, [])
  | i :: rest =>
    if isWaiter ths cv i then
      (match ths[i]? with
       | some t => (ths.set i (wake t), rest)
       | none => (ths, rest))
    else
      let r := notifyOne cv ths rest
      (r.1, i :: r.2)

/-- `notify_all()` -/
def notifyAll (cv : Cv) (ths : List Thread) (order : List Nat) : List Thread × List Nat :=
  (ths.map (fun t => if waitsOn t == some cv then wake t else t), order.filter (fun i => !isWaiter ths cv i))

def applyNotes : List (Cv × Nk) → List Thread × List Nat → List Thread × List Nat
  | [], s => s
  | (cv, .one) :: rest, s => applyNotes rest (notifyOne cv s.1 s.2)
  | (cv, .all) :: rest, s => applyNotes rest (notifyAll cv s.1 s.2)

/-- the next piece of the call of thread `t` (none: the thread cannot run) -/
def stepOf (t : Thread) (w : World) : Option Step :=
  let w0 := { w with viaSap := t.viaSap }
  match t.stat with
  | .fresh => some (start t.call w0)
  | .ready p => some (exec t.call p w0)
  | .parked p n => if n || callTimeout t.call then some (exec t.call p w0) else none
  | .done _ => none

def settle : Step → TStat × World
  | .done r w => (.done r, w)
  | .at p w => (if p.isWait then .parked p false else .ready p, w)

/-- `close()` of the socket notifies every waiter of each of its condition variables -/
def closeNotes (k : Kind) : List (Cv × Nk) := (closeNotifies k).map (fun cv => (cv, Nk.all))

/-- notifications made by a thread's own step: the step runs `close()` of the socket
    (`Socket.close()`, or `recv()` taking the locally queued DISC of a connection in CLOSE_WAIT);
    `DataLinkConnection.close()` of an established, bound connection first notifies
    send_token / acks_ready and then waits for the DM -/
def threadNotes (t : Thread) (w : World) : List (Cv × Nk) :=
  match t.call, t.stat with
  | .close, .ready .sockAcq =>
    if w.s.kind = .dlc ∧ w.s.isEst ∧ w.s.bound then
      [(.sendToken, .all), (.acksReady, .all)] ++
        (if w.closeClearsRecv ∨ w.s.recvQ = [] then [] else closeNotes w.s.kind)
    else closeNotes w.s.kind
  | .close, .parked .wTcoRecv _ => closeNotes w.s.kind
  | .recv, .ready .sockAcq =>
    if w.s.kind = .dlc ∧ w.s.estOrCw ∧ w.s.recvQ.head? = some .disc ∧ ¬ (w.s.isEst ∧ w.s.bound) then closeNotes .dlc else []
  | .recv, .parked .wTcoRecv _ =>
    if w.s.kind = .dlc ∧ w.s.recvQ.head? = some .disc ∧ ¬ (w.s.isEst ∧ w.s.bound) then closeNotes .dlc else []
  | _, _ => []

/-- thread `i` runs to its next scheduling point -/
def stepThread (m : MState) (i : Nat) : MState :=
  match m.ths[i]? with
  | none => m
  | some t =>
    match stepOf t m.w with
    | none => m
    | some s =>
      let r := settle s
      let order0 := m.order.filter (fun j => j != i)      -- a waiter that timed out leaves the list
      let n := applyNotes (threadNotes t m.w) (m.ths, order0)
      let order1 := match r.1 with
        | .parked _ false => n.2 ++ [i]
        | _ => n.2
      { m with w := r.2, ths := n.1.set i { t with stat := r.1, viaSap := r.2.viaSap }, order := order1 }

/-- the link thread executes its next event (parameter: the notifications of the events) -/
def linkStepG (app : Act → World → World × List (Cv × Nk)) (m : MState) : MState :=
  match m.script with
  | [] => m
  | a :: rest =>
    let r := app a m.w
    let s := applyNotes r.2 (m.ths, m.order)
    { w := r.1, ths := s.1, order := s.2, script := rest }

def linkStep (m : MState) : MState := linkStepG applyActN m

/-- a decision of the scheduler: an index of a thread, anything else is the link thread -/
def decide1 (m : MState) (d : Nat) : MState :=
  if d < m.ths.length then stepThread m d else linkStep m

def runM (m : MState) : List Nat → MState
  | [] => m
  | d :: ds => runM (decide1 m d) ds

/-- threads only (after the link has ended the link thread does nothing any more) -/
def runThreads (m : MState) : List Nat → MState
  | [] => m
  | d :: ds => runThreads (stepThread m d) ds

def mkState (w : World) (calls : List Call) (script : List Act) : MState :=
  { w := w, ths := calls.map (fun c => { call := c, stat := .fresh }), order := [], script := script }

end NfcVerif.TermMulti
