import NfcVerif.Py
/-!
# Reference definitions for the function-translator group DepMore (`nfc/dep.py`)

Spec-style definitions of what the statements of `Initiator.activate` / `exchange`, `Target.activate` / `exchange` /
`send_dep_res_recv_dep_req` / `_deactivate` that group DepMore regenerates SHOULD compute according to NFC-DEP
(ISO/IEC 18092, NFC Forum Digital) and the property texts C04 / C07 / C09 / C19, each with the property-relevant fact.
`Props/FnBridgeDepMore.lean` proves the regenerated definitions equal to them for all inputs.

* send limits: each side computes its maximum information unit from the length reduction value the PEER announced
  (`iniMiu`: LRt of the ATR_RES; `tgtMiu`: LRi of the ATR_REQ) - the function signatures have no place for the own value or
  for the FSL of a PSL_REQ - and a full information PDU fits the peer's frame size (`iniMiu_fits`, `tgtMiu_fits`);
* `rtoxTurn`: a timeout extension PDU is validated (one octet present, value 1..59) BEFORE any of its octets is used;
  for every validator the turn raises only what the validator raises (`rtoxTurn_only_validator_errors`);
* `firstRequest`: the injected first command passes the filtering receive function (`firstRequest_filtered`);
* `isRepeated`: a request with the packet number of the last one is a retransmission whatever its PDU type
  (`isRepeated_any_type`);
* `deactDeadline` / `deactRunning` / `deactTurn`: the deactivation dialogue ends one second after its start, no turn of the
  loop moves the deadline (`deactTurn_deadline`, `deact_bounded`).
-/
set_option linter.unusedVariables false
namespace NfcVerif.DepMoreRef
open NfcVerif

/-! ## payload limits (C04, C19) -/

def bit (b : Bool) : Int := if b then 1 else 0

/-- the Initiator's information unit size: the Target's frame size `lrT` minus the DEP header (command octets + PFB = 3)
minus the optional DID and NAD octets the Initiator itself puts into every DEP_REQ -/
def iniMiu (lrT : Int) (did nad : Option Int) : Int := lrT - 3 - bit did.isSome - bit nad.isSome

/-- transport data length of an information DEP_REQ of the Initiator with `n` payload octets -/
def iniFrameLen (did nad : Option Int) (n : Int) : Int := 3 + bit did.isSome + bit nad.isSome + n

/-- a payload chunk within `iniMiu` gives a frame the Target announced it can take -/
theorem iniMiu_fits (lrT : Int) (did nad : Option Int) (n : Int) (h : n ≤ iniMiu lrT did nad) :
    iniFrameLen did nad n ≤ lrT := by
  unfold iniMiu at h; unfold iniFrameLen; omega

/-- and the limit is exact: the full chunk fills the frame -/
theorem iniMiu_exact (lrT : Int) (did nad : Option Int) : iniFrameLen did nad (iniMiu lrT did nad) = lrT := by
  unfold iniMiu iniFrameLen; omega

/-- the Target's information unit size from the Initiator's frame size `lrI` and the DID octet of the ATR_REQ (the
Target answers with a DID octet exactly when the Initiator announced a DID > 0; it never sends a NAD) -/
def tgtMiu (lrI : Int) (didReq : Int) : Int := lrI - 3 - bit (decide (didReq > 0))

def tgtDid (didReq : Int) : Option Int := if didReq > 0 then some didReq else none

def tgtFrameLen (didReq : Int) (n : Int) : Int := 3 + bit (tgtDid didReq).isSome + n

theorem tgtMiu_fits (lrI didReq n : Int) (h : n ≤ tgtMiu lrI didReq) : tgtFrameLen didReq n ≤ lrI := by
  unfold tgtMiu at h; unfold tgtFrameLen tgtDid
  by_cases hd : didReq > 0 <;> simp [hd, bit] at h ⊢ <;> omega

/-- what the Target holds after `clf.listen`: (lrt, gbt, gbi, miu, did) -/
def tgtHeld (lrt : Int) (gbt gbReq : Bytes) (lrI didReq : Int) : Int × Bytes × Bytes × Int × Option Int :=
  (lrt, gbt, gbReq, tgtMiu lrI didReq, tgtDid didReq)

/-- constructor arguments of the ATR_REQ: NFCID3 = 10 random octets, DID, BS = BR = 0, PP, general bytes -/
def atrReqArgs (rnd10 : Bytes) (did ppi : Int) (gbi : Bytes) : Bytes × Int × Int × Int × Int × Bytes :=
  (rnd10, did, 0, 0, ppi, gbi)

/-- constructor arguments of the ATR_RES: DID = 0 (as found: the Target builds it before it knows the ATR_REQ),
BS = BR = 0, TO = the waiting time exponent, PP, general bytes -/
def atrResArgs (nfcid3t : Bytes) (rwt pp : Int) (gbt : Bytes) : Bytes × Int × Int × Int × Int × Int × Bytes :=
  (nfcid3t, 0, 0, 0, rwt, pp, gbt)

/-- SENS_RES, SDD_RES, SEL_RES of the listen target: SEL_RES announces NFC-DEP (bit 0x40) -/
def listenConsts (rnd3 : Bytes) : Bytes × Bytes × Bytes := ([0x01, 0x01], [0x08] ++ rnd3, [0x40])

/-! ## timeout extension turn (C07) -/

/-- one turn of the Initiator's timeout extension loop up to the blocking call: the request is built by the validating
function `validate` FIRST (it raises when the PDU has no RTOX octet or a value outside 1..59), only then the octet is
read for the extended waiting time -/
def rtoxTurn {α} (validate : Bytes → Py α) (data : Bytes) (srwt : Int) : Py (α × Int) :=
  match validate data with
  | .error e => .error e
  | .ok req =>
    match data with
    | [] => .error .index
    | v :: _ => .ok (req, (v : Int) * srwt)

/-- the RTOX range check of NFC-DEP -/
def rtoxValid (data : Bytes) : Prop := ∃ v t, data = v :: t ∧ 0 < v ∧ v < 60

/-- with a validator that accepts only PDUs carrying an RTOX octet, the turn raises nothing but what the validator
raises: no IndexError from an empty timeout extension PDU -/
theorem rtoxTurn_only_validator_errors {α} (validate : Bytes → Py α) (hv : ∀ d r, validate d = .ok r → d ≠ [])
    (data : Bytes) (srwt : Int) (e : Exc) (h : rtoxTurn validate data srwt = .error e) : validate data = .error e := by
  unfold rtoxTurn at h
  cases hval : validate data with
  | error e' => rw [hval] at h; simp only at h; cases h; rfl
  | ok r =>
    rw [hval] at h
    cases data with
    | nil => exact absurd rfl (hv [] r hval)
    | cons v t => simp at h

/-- an accepted turn used the validated octet -/
theorem rtoxTurn_ok {α} (validate : Bytes → Py α) (data : Bytes) (srwt : Int) (r : α) (w : Int)
    (h : rtoxTurn validate data srwt = .ok (r, w)) : validate data = .ok r ∧ ∃ v t, data = v :: t ∧ w = (v : Int) * srwt := by
  unfold rtoxTurn at h
  cases hval : validate data with
  | error e' => rw [hval] at h; simp at h
  | ok r' =>
    rw [hval] at h
    cases data with
    | nil => simp at h
    | cons v t =>
      simp only [Except.ok.injEq, Prod.mk.injEq] at h
      exact ⟨by rw [h.1], v, t, rfl, h.2.symm⟩

/-! ## first request of the Target, retransmission detection (C04) -/

/-- the first `exchange()` of the Target fetches the command that `activate` kept through the FILTERING receive
function `filtered` (attention, NAK, repeated and foreign PDUs are answered / dropped there), never through the raw one -/
def firstRequest (filtered raw : Option Int → Int → Option Int) (deadline : Int) : Option Int := filtered none deadline

theorem firstRequest_filtered (filtered raw raw' : Option Int → Int → Option Int) (d : Int) :
    firstRequest filtered raw d = firstRequest filtered raw' d := rfl

/-- the whole first-call block: `send_data` must be None, no request -> None, else (request, packet number 0) -/
def firstBlock (sendData : Option Bytes) (filtered raw : Option Int → Int → Option Int) (deadline : Int) :
    Py (Option (Int × Int)) :=
  if sendData ≠ none then .error .assertion else
  .ok ((firstRequest filtered raw deadline).map (fun r => (r, 0)))

/-- a request that carries the packet number of the last accepted request is a repetition - of whatever PDU type
(`fmt`: INF, I++, ACK ..): the saved response is sent again -/
def isRepeated (rpni pni : Int) (fmt : Int) : Bool := decide (rpni = pni)

theorem isRepeated_any_type (rpni pni fmt fmt' : Int) : isRepeated rpni pni fmt = isRepeated rpni pni fmt' := rfl

theorem isRepeated_ack (pni : Int) : isRepeated pni pni 4 = true := by simp [isRepeated]

/-! ## packet number bookkeeping behind the blocking calls (C04) -/

/-- Initiator, send loop: an ACK is only acceptable while data remains, the response carries the CURRENT number, then
the number is incremented -/
def iniSendTail (rest : Bytes) (fmt rpni pni : Int) (next : Int) : Py Int :=
  if fmt = 4 ∧ rest = [] then .error .protocol else
  if rpni ≠ pni then .error .protocol else .ok next

/-- Initiator, receive loop: chaining continues with INF / I++, current number, append, increment -/
def iniRecvTail (acc : Bytes) (fmt rpni pni : Int) (data : Bytes) (next : Int) : Py (Bytes × Int) :=
  if fmt ≠ 0 ∧ fmt ≠ 1 then .error .protocol else
  if rpni ≠ pni then .error .protocol else .ok (acc ++ data, next)

/-- Initiator, behind the send loop: the last response is an information PDU, its payload starts the received data -/
def iniSendFinal (fmt : Int) (data : Bytes) : Py Bytes :=
  if fmt ≠ 0 ∧ fmt ≠ 1 then .error .protocol else .ok data

/-- Target, send loop: while chaining the request must be an ACK; the number is incremented FIRST, the request carries
the NEW number; then the chunk is removed -/
def tgtSendTail (more : Bool) (fmt rpni : Int) (next : Int) (rest : Bytes) : Py (Int × Bytes) :=
  if more = true ∧ fmt ≠ 4 then .error .protocol else
  if rpni ≠ next then .error .protocol else .ok (next, rest)

/-! ## deactivation deadline of the Target (C09) -/

/-- `tplus1` = the clock at the start of `_deactivate` plus one second -/
def deactDeadline (tplus1 : Int) : Int := tplus1

def deactRunning (deadline now : Int) : Bool := decide (now < deadline)

/-- a turn of the loop that stays in the loop: the next response, the deadline as it was -/
def deactTurn {ρ} (res : ρ) (deadline : Int) : ρ × Int := (res, deadline)

theorem deactTurn_deadline {ρ} (res : ρ) (deadline : Int) : (deactTurn res deadline).2 = deadline := rfl

/-- whatever the turns answer, the loop is not entered again once the clock reached start + 1 s -/
theorem deact_bounded {ρ} (tplus1 now : Int) (turns : List ρ) (h : tplus1 ≤ now) :
    deactRunning (turns.foldl (fun d r => (deactTurn r d).2) (deactDeadline tplus1)) now = false := by
  have e : ∀ (l : List ρ) (d : Int), l.foldl (fun d r => (deactTurn r d).2) d = d := by
    intro l; induction l with
    | nil => intro d; rfl
    | cons a t ih => intro d; simp only [List.foldl_cons, deactTurn_deadline]; exact ih d
  rw [e]; unfold deactRunning deactDeadline; simp; omega

/-! ## packet counters -/

def total (l : List Int) : Int := l.foldl (· + ·) 0

end NfcVerif.DepMoreRef
