import NfcVerif.Model.Auth
import NfcVerif.Model.FnVendorRef
import NfcVerif.PyFn
/-!
# Reference semantics of the NXP Type 2 Tag vendor methods (`nfc/tag/tt2_nxp.py`) over uninterpreted tag commands

`Model/Auth.lean` has `NTAG21x._authenticate` / `_protect_with_password` as functions of the answers that
arrived; `Model/CtlC03.lean` has the protect / format methods over a page memory.  Here the SAME decisions are
written with everything below the method as a parameter - the tag commands (`tx`, `rd`, `wr`: what
`transceive`, `read`, `write` return or raise), `authenticate` where `protect` calls it, and the cipher
(`D key iv data`, `E key iv data`: what `triple_des(key, CBC, iv).decrypt/encrypt(data)` of pyDes return) - so that
the regenerated definitions of group Nxp (`Gen/FnNxp.lean`) can be compared with them for ALL behaviours of tag,
channel and cipher, and the property-relevant facts can be stated with DES uninterpreted:

* NTAG21x `authenticate` returns True iff the tag answered PWD_AUTH(key[0:4]) with exactly key[4:6] (PACK)
  (`ntagAuthenticate_true_iff`);
* Ultralight C `authenticate` returns True iff the tag's second answer decrypts (key, start value = second
  ciphertext block sent) to RndA rotated left by one octet, RndA being the random number of THIS call
  (`ulcAuthenticate_true_iff`);
* `protect(p)` sends WRITE commands only for the key / configuration pages of the product (Ultralight C: 42..47,
  NTAG21x: cfgpage..cfgpage+3) and, when the tag is NDEF formatted and protection starts at page 3, for the
  capability container page 3 - never for a user data page (`ulcProtectWrites_pages`, `ntagCfgWrites_pages`);
  the data written to the key pages is the key derived from `p` (`ulcKeyWrites_data`, `ntagCfg_key`).

The WRITE commands of a method are a LIST of (page, data) run in order (`runWrites`): what is written where is a
statement about that list.
-/
namespace NfcVerif.NxpRef
open NfcVerif NfcVerif.PyFn NfcVerif.VendorRef

abbrev Tx := Bytes → Py Bytes
abbrev Rd := Int → Py Bytes
abbrev Wr := Int → Bytes → Py Int
/-- pyDes `triple_des(key, CBC, iv).decrypt(data)` / `.encrypt(data)`: key, start value, data -/
abbrev Cipher := Bytes → Bytes → Bytes → Bytes

/-- WRITE commands in order; the first failure ends the method -/
def runWrites (wr : Wr) : List (Int × Bytes) → Py Unit
  | [] => .ok ()
  | (p, d) :: l => wr p d >>= fun _ => runWrites wr l

/-- `except tt2.Type2TagCommandError: return v` -/
def catchTagCmd {α} (r : Py α) (v : α) : Py α :=
  match r with
  | .error (.tagCmd _) => .ok v
  | r => r

/-! ## NTAG21x `_authenticate` -/

/-- body of the `try`: PWD_AUTH with PWD = key[0:4]; the answer must be PACK = key[4:6] -/
def ntagAuthTry (key : Bytes) (tx : Tx) : Py Bool :=
  tx ([0x1B] ++ slice key 0 4) >>= fun rsp => .ok (decide (rsp = slice key 4 6))

def ntagAuthenticate (pw : Bytes) (tx : Tx) : Py Bool :=
  Auth.ntagKey pw >>= fun key => catchTagCmd (ntagAuthTry key tx) false

/-- True iff the tag's answer to PWD_AUTH(key[0:4]) is exactly key[4:6] -/
theorem ntagAuthenticate_true_iff (pw : Bytes) (tx : Tx) :
    ntagAuthenticate pw tx = .ok true ↔
      ∃ key, Auth.ntagKey pw = .ok key ∧ tx ([0x1B] ++ slice key 0 4) = .ok (slice key 4 6) := by
  unfold ntagAuthenticate ntagAuthTry catchTagCmd
  constructor
  · intro h
    cases hk : Auth.ntagKey pw with
    | error e => rw [hk] at h; cases h
    | ok key =>
      rw [hk] at h
      simp only [Py.bind_ok] at h
      cases ht : tx ([0x1B] ++ slice key 0 4) with
      | error e => rw [ht] at h; cases e <;> cases h
      | ok rsp =>
        rw [ht] at h
        simp only [Py.bind_ok] at h
        have : rsp = slice key 4 6 := of_decide_eq_true (Except.ok.inj h)
        exact ⟨key, rfl, by rw [ht, this]⟩
  · rintro ⟨key, hk, ht⟩
    rw [hk]
    simp only [Py.bind_ok]
    rw [ht]
    simp

/-- a tag command error (no answer, NAK) is False, never an exception -/
theorem ntagAuthenticate_tagCmd (pw key : Bytes) (tx : Tx) (n : Nat) (hk : Auth.ntagKey pw = .ok key)
    (ht : tx ([0x1B] ++ slice key 0 4) = .error (.tagCmd n)) : ntagAuthenticate pw tx = .ok false := by
  unfold ntagAuthenticate ntagAuthTry catchTagCmd
  rw [hk]; simp only [Py.bind_ok]; rw [ht]; rfl

/-! ## Mifare Ultralight C `_authenticate` -/

/-- `struct.pack("B", x[0])`: the first octet as a byte string -/
def firstOctet (x : Bytes) : Py Bytes := getB x 0 >>= fun b => pack [.B] [b]

def zeros8 : Bytes := [0, 0, 0, 0, 0, 0, 0, 0]

/-- the second command: AF | E_key,iv=ek(RndB) (RndA | RndB rotated left) -/
def ulcM2 (E : Cipher) (key ra ekRndB rndB b0 : Bytes) : Bytes := E key ekRndB (ra ++ slice rndB 1 8 ++ b0)

def ulcAuthenticate (D E : Cipher) (pw ra : Bytes) (tx : Tx) : Py Bool :=
  ulcKey pw >>= fun key =>
  tx [0x1A, 0] >>= fun r1 =>
  firstOctet (D key zeros8 (slice r1 1 9)) >>= fun b0 =>
  match tx ([0xAF] ++ ulcM2 E key ra (slice r1 1 9) (D key zeros8 (slice r1 1 9)) b0) with
  | .error (.tagCmd _) => .ok false
  | .error e => .error e
  | .ok r2 =>
    firstOctet ra >>= fun a0 =>
    .ok (decide (D key (slice (ulcM2 E key ra (slice r1 1 9) (D key zeros8 (slice r1 1 9)) b0) 8 16) (slice r2 1 9)
                  = slice ra 1 9 ++ a0))

/-- True iff the tag's second answer decrypts - under the key derived from the password and the start value that
is the second ciphertext block of THIS call - to this call's RndA rotated left by one octet -/
theorem ulcAuthenticate_true_iff (D E : Cipher) (pw ra : Bytes) (tx : Tx) :
    ulcAuthenticate D E pw ra tx = .ok true ↔
      ∃ key r1 b0 r2 a0, ulcKey pw = .ok key ∧ tx [0x1A, 0] = .ok r1
        ∧ firstOctet (D key zeros8 (slice r1 1 9)) = .ok b0
        ∧ tx ([0xAF] ++ ulcM2 E key ra (slice r1 1 9) (D key zeros8 (slice r1 1 9)) b0) = .ok r2
        ∧ firstOctet ra = .ok a0
        ∧ D key (slice (ulcM2 E key ra (slice r1 1 9) (D key zeros8 (slice r1 1 9)) b0) 8 16) (slice r2 1 9)
            = slice ra 1 9 ++ a0 := by
  unfold ulcAuthenticate
  constructor
  · intro h
    cases hk : ulcKey pw with
    | error e => rw [hk] at h; cases h
    | ok key =>
    rw [hk] at h; simp only [Py.bind_ok] at h
    cases h1 : tx [0x1A, 0] with
    | error e => rw [h1] at h; cases h
    | ok r1 =>
    rw [h1] at h; simp only [Py.bind_ok] at h
    cases hb : firstOctet (D key zeros8 (slice r1 1 9)) with
    | error e => rw [hb] at h; cases h
    | ok b0 =>
    rw [hb] at h; simp only [Py.bind_ok] at h
    cases h2 : tx ([0xAF] ++ ulcM2 E key ra (slice r1 1 9) (D key zeros8 (slice r1 1 9)) b0) with
    | error e => rw [h2] at h; cases e <;> cases h
    | ok r2 =>
    rw [h2] at h; simp only at h
    cases ha : firstOctet ra with
    | error e => rw [ha] at h; cases h
    | ok a0 =>
    rw [ha] at h; simp only [Py.bind_ok] at h
    refine ⟨key, r1, b0, r2, a0, rfl, rfl, hb, h2, rfl, ?_⟩
    exact of_decide_eq_true (Except.ok.inj h)
  · rintro ⟨key, r1, b0, r2, a0, hk, h1, hb, h2, ha, hd⟩
    rw [hk]; simp only [Py.bind_ok]
    rw [h1]; simp only [Py.bind_ok]
    rw [hb]; simp only [Py.bind_ok]
    rw [h2]; simp only
    rw [ha]; simp only [Py.bind_ok]
    rw [hd]; simp

/-- the second command failing with a tag command error is False; every failure of the first command is raised -/
theorem ulcAuthenticate_first_fails (D E : Cipher) (pw ra key : Bytes) (tx : Tx) (e : Exc) (hk : ulcKey pw = .ok key)
    (h1 : tx [0x1A, 0] = .error e) : ulcAuthenticate D E pw ra tx = .error e := by
  unfold ulcAuthenticate; rw [hk]; simp only [Py.bind_ok]; rw [h1]; rfl

/-! ## `_protect_with_password` -/

/-- capability container test of the password protection: magic E1, major version 1 -/
def ccValidPw (cc : Bytes) : Py Bool :=
  getB cc 0 >>= fun a => if a = 225 then getB cc 1 >>= fun b => .ok (decide (band b 240 = 16)) else .ok false

/-- protection from page 3 (or below) on an NDEF formatted tag: proprietary access (8) into the write nibble, with
read protection also into the read nibble, of CC byte 3; the ONLY page written is page 3 -/
def ccAccess (rd : Rd) (wr : Wr) (rp : Bool) (pf : Int) : Py Unit :=
  if pf ≤ 3 then
    rd 3 >>= fun t =>
    ccValidPw (slice t 0 4) >>= fun v =>
    if v = true then
      getB (slice t 0 4) 3 >>= fun c =>
      setB (slice t 0 4) 3 (bor c (if rp = true then 136 else 8)) >>= fun cc' =>
      runWrites wr [(3, cc')]
    else .ok ()
  else .ok ()

/-- `return self.authenticate(key) if self.target else False` after the re-activation -/
def reauth (target : Option Int) (auth : Bytes → Py Bool) (key : Bytes) : Py Bool :=
  match target with
  | none => .ok false
  | some t => if t ≠ 0 then auth key else .ok false

/-- Ultralight C: the key as the tag stores it (each half reversed) in pages 44..47 -/
def ulcKeyWrites (key : Bytes) : List (Int × Bytes) :=
  [(44, slice (sliceRev key (some 7) none) 0 4), (45, slice (sliceRev key (some 7) none) 4 8),
   (46, slice (sliceRev key (some 15) (some 7)) 0 4), (47, slice (sliceRev key (some 15) (some 7)) 4 8)]

/-- all WRITE commands of the Ultralight C password protection in front of the capability container update -/
def ulcProtectWrites (key : Bytes) (rp : Bool) (pf : Int) : List (Int × Bytes) :=
  ulcKeyWrites key ++ [(42, ulcAuth0 pf), (43, ulcAuth1 rp)]

def ulcProtectPw (pw : Bytes) (rp : Bool) (pf : Int) (target : Option Int) (auth : Bytes → Py Bool) (rd : Rd) (wr : Wr) :
    Py Bool :=
  ulcKey pw >>= fun key =>
  runWrites wr (ulcProtectWrites key rp pf) >>= fun _ =>
  ccAccess rd wr rp pf >>= fun _ =>
  reauth target auth key

/-- key pages 44..47, AUTH0 42, AUTH1 43: all behind the user memory (pages 4..39) and the lock / counter pages -/
theorem ulcProtectWrites_pages (key : Bytes) (rp : Bool) (pf : Int) :
    ∀ w ∈ ulcProtectWrites key rp pf, 42 ≤ w.1 ∧ w.1 ≤ 47 := by
  intro w hw
  simp only [ulcProtectWrites, ulcKeyWrites, List.cons_append, List.nil_append, List.mem_cons, List.not_mem_nil, or_false] at hw
  rcases hw with h | h | h | h | h | h <;> subst h <;> refine ⟨?_, ?_⟩ <;> simp

/-- the octets sent to pages 44..47 are, in order, the two key halves each reversed - the key derived from the
password and nothing else -/
theorem ulcKeyWrites_data (key : Bytes) :
    (ulcKeyWrites key).map (·.2) =
      [slice (sliceRev key (some 7) none) 0 4, slice (sliceRev key (some 7) none) 4 8,
       slice (sliceRev key (some 15) (some 7)) 0 4, slice (sliceRev key (some 15) (some 7)) 4 8] := rfl

/-- NTAG21x: PWD / PACK, AUTH0 and PROT put into the 16 octets read at the configuration page -/
def ntagCfg (cfg key : Bytes) (rp : Bool) (pf : Int) : Py Bytes :=
  setB (setSlice cfg 8 14 key) 3 (imax 3 (imin pf 255)) >>= fun c =>
  (if rp = true then getB c 4 >>= fun a => .ok (bor a 128) else getB c 4 >>= fun a => .ok (band a 127)) >>= fun v =>
  setB c 4 v

/-- the four configuration pages, written back in order -/
def ntagCfgWrites (cfgpage : Int) (c : Bytes) : List (Int × Bytes) :=
  [(cfgpage + 0, slice c (0 * 4) ((0 + 1) * 4)), (cfgpage + 1, slice c (1 * 4) ((1 + 1) * 4)),
   (cfgpage + 2, slice c (2 * 4) ((2 + 1) * 4)), (cfgpage + 3, slice c (3 * 4) ((3 + 1) * 4))]

def ntagProtectPw (pw : Bytes) (rp : Bool) (pf cfgpage : Int) (target : Option Int) (auth : Bytes → Py Bool)
    (rd : Rd) (wr : Wr) : Py Bool :=
  Auth.ntagKey pw >>= fun key =>
  rd cfgpage >>= fun cfg =>
  ntagCfg cfg key rp pf >>= fun c =>
  runWrites wr (ntagCfgWrites cfgpage c) >>= fun _ =>
  ccAccess rd wr rp pf >>= fun _ =>
  reauth target auth key

/-- only the four configuration pages of the product -/
theorem ntagCfgWrites_pages (cfgpage : Int) (c : Bytes) :
    ∀ w ∈ ntagCfgWrites cfgpage c, cfgpage ≤ w.1 ∧ w.1 ≤ cfgpage + 3 := by
  intro w hw
  simp only [ntagCfgWrites, List.mem_cons, List.not_mem_nil, or_false] at hw
  rcases hw with h | h | h | h <;> subst h <;> constructor <;> simp <;> omega

/-- the capability container update writes page 3 and nothing else (when it writes at all) -/
theorem ccAccess_no_write (rd : Rd) (rp : Bool) (pf : Int) (wr wr' : Wr) (h : ∀ d, wr 3 d = wr' 3 d) :
    ccAccess rd wr rp pf = ccAccess rd wr' rp pf := by
  unfold ccAccess runWrites runWrites
  simp only [h]

/-! ## lock bit protection -/

/-- capability container test of the lock bit protection -/
def ccValid (cc : Bytes) : Py Bool :=
  getB cc 0 >>= fun a => if a = 225 then getB cc 1 >>= fun b => .ok (decide (shr b 4 = 1)) else .ok false

/-- NDEF formatted: CC byte 3 := 0F (no write access), written to page 3 -/
def ccReadOnly (rd : Rd) (wr : Wr) : Py Unit :=
  rd 3 >>= fun t =>
  ccValid (slice t 0 4) >>= fun v =>
  if v = true then setB (slice t 0 4) 3 15 >>= fun cc' => runWrites wr [(3, cc')] else .ok ()

/-- Ultralight C / NTAG203: CC read-only, static lock bytes (page 2), dynamic lock bytes (page 40) -/
def lockbits40 (dyn : Bytes) (rd : Rd) (wr : Wr) : Py Bool :=
  ccReadOnly rd wr >>= fun _ => runWrites wr [(2, [0, 0, 255, 255]), (40, dyn)] >>= fun _ => .ok true

/-- NTAG21x: CC read-only, static lock bytes, dynamic lock bytes in front of the configuration pages (products with
more than 16 pages), CFGLCK (ACCESS bit 6) unless it is set -/
def ntagLockbits (cfgpage : Int) (rd : Rd) (wr : Wr) : Py Bool :=
  ccReadOnly rd wr >>= fun _ =>
  runWrites wr ([(2, [0, 0, 255, 255])] ++ (if cfgpage > 16 then [(cfgpage - 1, [255, 255, 255, 0])] else [])) >>= fun _ =>
  rd cfgpage >>= fun cfg =>
  getB cfg 4 >>= fun a =>
  if band a 64 = 0 then
    setB cfg 4 (bor a 64) >>= fun cfg' => runWrites wr [(cfgpage + 1, slice cfg' 4 8)] >>= fun _ => .ok true
  else .ok true

/-! ## NDEF capability data -/

/-- the override on top of the generic Type 2 Tag capability read: after a successful authentication the
proprietary access nibbles (8) count as readable / writeable (writeable only without lock bits set) -/
def capFlags (mem : Bytes) (readable writeable auth : Bool) : Py (Bool × Bool) :=
  if auth = true then
    (if ¬ readable = true then getB mem 15 >>= fun b => .ok (decide (shr b 4 = 8)) else .ok false) >>= fun r =>
    (if ¬ writeable = true then getB mem 15 >>= fun b => .ok (decide (band b 15 = 8)) else .ok false) >>= fun w =>
    .ok (if r = true then true else readable, if w = true then decide (slice mem 10 12 = [0, 0]) else writeable)
  else .ok (readable, writeable)

/-- without authentication the flags are what the generic code derived -/
theorem capFlags_unauthenticated (mem : Bytes) (r w : Bool) : capFlags mem r w false = .ok (r, w) := rfl

/-- a flag that is set stays set -/
theorem capFlags_monotone (mem : Bytes) (r w a r' w' : Bool) (h : capFlags mem r w a = .ok (r', w')) :
    (r = true → r' = true) ∧ (w = true → w' = true) := by
  unfold capFlags at h
  cases a
  · simp at h; rcases h with ⟨rfl, rfl⟩; exact ⟨id, id⟩
  · cases r <;> cases w <;> simp at h
    all_goals (first
      | (rcases h with ⟨rfl, rfl⟩; simp)
      | (cases hg : getB mem 15 with
         | error e => rw [hg] at h; simp at h
         | ok b => rw [hg] at h; simp at h; rcases h with ⟨h1, h2⟩; subst h1; subst h2; simp))

/-! ## `_format`: factory content of pages 4, 5 when no NDEF management data was found -/

def formatNxp (p4 p5 : Bytes) (version : Int) (wipe : Option Int) (ndef : Option Bytes) (wr : Wr)
    (base : Int → Option Int → Py Bool) : Py Bool :=
  (match ndef with
   | none => runWrites wr [(4, p4), (5, p5)]
   | some _ => .ok ()) >>= fun _ => base version wipe

/-- a tag with NDEF management data is handed to the generic format untouched -/
theorem formatNxp_some (p4 p5 : Bytes) (version : Int) (wipe : Option Int) (n : Bytes) (wr : Wr)
    (base : Int → Option Int → Py Bool) : formatNxp p4 p5 version wipe (some n) wr base = base version wipe := rfl

/-! ## `activate`: behind the GET_VERSION exchange -/

def activateVersion (clf target : Int) (rsp : Bytes) (known : Bool) (sense : Int → Py (Option Int))
    (mkv mk203 : Int → Int → Int) : Py (Option Int) :=
  if known = true then .ok (some (mkv clf target))
  else if rsp = [0] then
    sense target >>= fun t => match t with
      | none => .ok none
      | some _ => .ok (some (mk203 clf target))
  else .ok none

end NfcVerif.NxpRef
