import NfcVerif.Model.Auth
/-!
# A stateful FeliCa Lite / Lite-S card

The card of the user manuals as a state machine `Card.command : Card → command frame → (response
frame?, Card)`; mirror of `harness/sims/auth_felica.py:LiteTag.command` (compared with it on every
command of every history the C20 check runs).  State that a SEQUENCE of authentications depends on:

* RC (block 80h): every write starts a new session and clears the external authentication status;
* WCNT (block 90h, Lite-S): incremented by every accepted write command of any block, with or
  without MAC, saturating at FFFFFFh; a write with MAC_A is accepted only when MAC_A was computed
  over the current counter and under the session key of the current challenge;
* STATE (92h, Lite-S): EXT_AUTH set by a MAC'ed write of 01h;
* MC (88h): MC_SP_REG_ALL_RW, MC_ALL, MC_CKCKV_W_MAC_A, MC_SP_REG_R_RESTR, MC_SP_REG_W_RESTR,
  MC_SP_REG_W_MAC_A.

The MAC computations are `Auth.LiteTag.mac` / `Auth.LiteTag.macA` (words, little endian, written
from the manual; tied to `sims/auth_des.py`).  Polling is not mirrored (the modelled reader methods
never poll; `Model/AuthNdef.lean` does).
-/
namespace NfcVerif.AuthCard
open NfcVerif NfcVerif.Mac NfcVerif.Auth

structure Card where
  liteS : Bool
  idm : Bytes
  /-- block number ↦ the 16 stored octets; `none`: no such block -/
  mem : Nat → Option Bytes
  rcWritten : Bool
  extAuth : Bool

namespace Card

def blk (c : Card) (n : Nat) : Bytes :=
  match c.mem n with
  | some b => b
  | none => []

def present (c : Card) (n : Nat) : Bool := (c.mem n).isSome

def set (c : Card) (n : Nat) (v : Bytes) : Card :=
  { c with mem := fun k => if k = n then some v else c.mem k }

/-- 16-bit little-endian field of the MC block starting at `octet` -/
def mcField (c : Card) (octet : Nat) : Nat :=
  match (c.blk 0x88).drop octet with
  | a :: b :: _ => a + 256 * b
  | _ => 0

/-- bit `n` (block number 0..14) of an MC field -/
def mcBit (c : Card) (octet n : Nat) : Bool := (c.mcField octet >>> n) % 2 = 1

def systemLocked (c : Card) : Bool :=
  match (c.blk 0x88).drop 2 with
  | a :: _ => a ≠ 0xFF
  | _ => true

/-- MC octet 5 bit 0: CK and CKV take writes with MAC_A although the system blocks are locked -/
def ckWritable (c : Card) : Bool :=
  match (c.blk 0x88).drop 5 with
  | a :: _ => a % 2 = 1
  | _ => false

def wcnt (c : Card) : Bytes := (c.blk 0x90).take 3

def wcntVal (c : Card) : Nat :=
  match c.wcnt with
  | [a, b, d] => a + 256 * b + 65536 * d
  | _ => 0

/-- every accepted write command advances the write counter of a Lite-S -/
def bump (c : Card) : Card :=
  if c.liteS then
    let w := min (c.wcntVal + 1) 0xFFFFFF
    c.set 0x90 ([w % 256, w / 256 % 256, w / 65536 % 256] ++ (c.blk 0x90).drop 3)
  else c

def tag (c : Card) : LiteTag := ⟨c.blk 0x87, c.blk 0x80, c.blk 0x90⟩

def err (c : Card) (code s1 s2 : Nat) : Bytes := [12, code + 1] ++ c.idm ++ [s1, s2]

def okRsp (c : Card) (code : Nat) : Bytes := [12, code + 1] ++ c.idm ++ [0, 0]

def readable (c : Card) (n : Nat) : Bool := c.present n || n == 0x81 || (c.liteS && n == 0x91)

/-- the 16 octets a read delivers for block `n`; `sofar`: the block data before it in this command -/
def readBlock (C : Cipher) (c : Card) (n : Nat) (sofar : Bytes) : Bytes :=
  if n = 0x81 then LiteTag.mac C c.tag (chunks8 sofar) ++ zeros 8
  else if n = 0x87 then zeros 16
  else if n = 0x92 then [if c.extAuth then 1 else 0] ++ zeros 15
  else c.blk n

/-- block by block; `.error (s1, s2)`: the status flags of the refusal -/
def readLoop (C : Cipher) (c : Card) (nblk : Nat) : Nat → List Nat → Bytes → Except (Nat × Nat) Bytes
  | _, [], data => .ok data
  | i, n :: ns, data =>
    if !c.readable n then .error (2 ^ i, 0xA8)
    else if (n = 0x81 ∨ n = 0x91) ∧ i + 1 ≠ nblk then .error (2 ^ i, 0xA8)
    else if n = 0x91 then .error (2 ^ i, 0xA8)
    else if c.liteS ∧ n < 15 ∧ c.mcBit 6 n ∧ ¬ c.extAuth then .error (2 ^ i, 0xB1)
    else readLoop C c nblk (i + 1) ns (data ++ c.readBlock C n data)

def read (C : Cipher) (c : Card) (svc : Bytes) (numbers : List Nat) (rest : Bytes) : Bytes :=
  if (svc ≠ [0x0B, 0] ∧ svc ≠ [0x09, 0]) ∨ numbers.length < 1 ∨ numbers.length > 4 ∨ rest ≠ [] then c.err 6 0xFF 0xA2 else
  match c.readLoop C numbers.length 0 numbers [] with
  | .error (s1, s2) => c.err 6 s1 s2
  | .ok data => [13 + data.length, 7] ++ c.idm ++ [0, 0, numbers.length] ++ data

/-- a write command of one block (no MAC) -/
def writePlain (c : Card) (n : Nat) (data : Bytes) : Option Bytes × Card :=
  if !c.present n ∨ n = 0x90 ∨ n = 0x92 then (some (c.err 8 1 0xA8), c)
  else if n ≥ 0x82 ∧ c.systemLocked then (some (c.err 8 1 0xA8), c)
  else if n < 15 ∧ !c.mcBit 0 n then (some (c.err 8 1 0xA8), c)
  else if c.liteS ∧ n < 15 ∧ c.mcBit 10 n then (some (c.err 8 1 0xB2), c)
  else if c.liteS ∧ n < 15 ∧ c.mcBit 8 n ∧ ¬ c.extAuth then (some (c.err 8 1 0xB1), c)
  else
    let c1 := c.set n data
    let c2 := if n = 0x80 then { c1 with rcWritten := true, extAuth := false } else c1
    (some (c.okRsp 8), c2.bump)

/-- a write command of block `n` together with the MAC_A block (Lite-S) -/
def writeMac (C : Cipher) (c : Card) (n : Nat) (data : Bytes) : Option Bytes × Card :=
  let d16 := data.take 16
  let maca := (data.drop 16).take 16
  if !c.rcWritten ∨ !c.present n ∨ n = 0x80 ∨ n = 0x90 then (some (c.err 8 1 0xA8), c)
  else if 0x82 ≤ n ∧ n ≤ 0x88 ∧ c.systemLocked ∧ ¬ ((n = 0x86 ∨ n = 0x87) ∧ c.ckWritable) then (some (c.err 8 1 0xA8), c)
  else if n < 15 ∧ !c.mcBit 0 n then (some (c.err 8 1 0xA8), c)
  else if n < 15 ∧ c.mcBit 8 n ∧ ¬ c.extAuth then (some (c.err 8 1 0xB1), c)
  else if (maca.drop 8).take 3 ≠ c.wcnt ∨ maca.take 8 ≠ LiteTag.macA C c.tag n d16 then (some (c.err 8 2 0xB2), c)
  else
    let c1 := if n = 0x92 then { c with extAuth := decide (d16.take 1 = [1]) } else c.set n d16
    (some (c.okRsp 8), c1.bump)

def write (C : Cipher) (c : Card) (svc : Bytes) (numbers : List Nat) (data : Bytes) : Option Bytes × Card :=
  if svc ≠ [0x09, 0] ∨ data.length ≠ 16 * numbers.length then (some (c.err 8 0xFF 0xA2), c) else
  match numbers with
  | [n] => c.writePlain n data
  | [n, m] => if c.liteS ∧ m = 0x91 then c.writeMac C n data else (some (c.err 8 0xFF 0xA2), c)
  | _ => (some (c.err 8 0xFF 0xA2), c)

/-- block list of `k` two-octet elements `80 nn`; the remaining octets -/
def parseBlocks : Nat → Bytes → Option (List Nat × Bytes)
  | 0, rest => some ([], rest)
  | k + 1, a :: n :: rest =>
    if a ≠ 0x80 then none else
    match parseBlocks k rest with
    | some (ns, r) => some (n :: ns, r)
    | none => none
  | _ + 1, _ => none

def pmm (c : Card) : Bytes := [0x00, if c.liteS then 0xF1 else 0xF0, 0x00, 0x00, 0x02, 0x06, 0x03, 0x00]

/-- SYS_OP of MC: the card answers to the NDEF system code 12FCh -/
def ndefFlag (c : Card) : Bool :=
  match (c.blk 0x88).drop 3 with
  | a :: _ => a = 1
  | _ => false

/-- Polling (six octets: length, 00, system code, request code, time slots) -/
def polling (c : Card) (cmd : Bytes) : Option Bytes :=
  match cmd with
  | [_, _, s0, s1, rc, _] =>
    if (s0 = 0xFF ∧ s1 = 0xFF) ∨ (s0 = 0x88 ∧ s1 = 0xB4) ∨ (s0 = 0x12 ∧ s1 = 0xFC ∧ c.ndefFlag) then
      let rsp := c.idm ++ c.pmm ++
        (if rc = 1 then (if c.ndefFlag ∧ ¬ (s0 = 0x88 ∧ s1 = 0xB4) then [0x12, 0xFC] else [0x88, 0xB4]) else [])
      some ([2 + rsp.length, 1] ++ rsp)
    else none
  | _ => none

/-- one command frame as it arrives at the card: the response frame (if any) and the new state -/
def command (C : Cipher) (c : Card) (cmd : Bytes) : Option Bytes × Card :=
  match cmd with
  | l :: code :: _ =>
    if l ≠ cmd.length then (none, c)
    else if code = 0 then (c.polling cmd, c)
    else if cmd.length < 14 ∨ (cmd.drop 2).take 8 ≠ c.idm then (none, c)
    else if code ≠ 6 ∧ code ≠ 8 then (none, c)
    else
      match cmd.drop 10 with
      | nsvc :: s0 :: s1 :: nblk :: body =>
        if nsvc ≠ 1 then (some (c.err code 0xFF 0xA1), c) else
        match parseBlocks nblk body with
        | none => (some (c.err code 0xFF 0xA8), c)
        | some (numbers, rest) =>
          if code = 6 then (some (c.read C [s0, s1] numbers rest), c) else c.write C [s0, s1] numbers rest
      | _ => (none, c)
  | _ => (none, c)

/-- a card as the harness describes it: user blocks 0..14, the system blocks, WCNT -/
def ofBlocks (liteS : Bool) (idm : Bytes) (blocks : List (Nat × Bytes)) (rcWritten extAuth : Bool) : Card :=
  ⟨liteS, idm, fun n => (blocks.find? (fun p => p.1 = n)).map (·.2), rcWritten, extAuth⟩

end Card
end NfcVerif.AuthCard
