import NfcVerif.Model.Tlv
import NfcVerif.Model.T1Format
/-!
# C03: control TLV field space, vendor `format()` and `protect()` of Type 1 / Type 2 Tags

Additions to `Model/Tlv.lean` / `Model/T1Format.lean` (those files are shared with C01/C02 and stay
untouched):

* the SPECIFICATION of the Lock Control / Memory Control TLV value field (`specFirst`, `specBits`,
  `specCount`, NFC Forum T1T/T2T) next to the transcription `ctlRange` of
  `get_lock_byte_range` / `get_rsvd_byte_range`, and a specification-level parse of the TLVs in
  front of the NDEF TLV (`chainParse`: control TLVs and NULL TLVs, no skip handling);
* `Type2Tag._read_ndef_data` with the "message inside the data area" test (`readNdefT2`), as needed
  to decide `self.ndef is None` in `_format` / `_protect`;
* `Type2Tag._format` as a whole (`formatT2Out`), the `_format` of the NTAG classes of
  `tt2_nxp.py` that first restore two factory pages (`formatNxp`);
* `Topaz._format` / `Topaz512._format` with the `version` argument (`formatTopazV`, `formatTopaz512V`);
* `protect()` without password: `Type2Tag._protect` (`protectT2`), `_protect_with_lockbits` of
  Ultralight C / NTAG203 / NTAG21x (`protectNxp`), `Type1Tag._protect` and the Topaz additions
  (`protectT1`).
-/
namespace NfcVerif.Tlv

/-! ## control TLV value field: specification -/

/-- first byte: `PageAddr * 2^BytesPerPage + ByteOffset` -/
def specFirst (d0 d2 : Nat) : Nat := (d0 / 16) * 2 ^ (d2 % 16) + d0 % 16
/-- the size field counts lock bits resp. reserved bytes; `00h` means 256 -/
def specBits (d1 : Nat) : Nat := if d1 = 0 then 256 else d1
/-- number of bytes declared: lock bits rounded up to whole bytes -/
def specCount (lock : Bool) (d1 : Nat) : Nat := if lock then (specBits d1 + 7) / 8 else specBits d1

/-- a control TLV: (Lock Control?, d0, d1, d2) -/
abbrev Ctl := Bool × Nat × Nat × Nat

/-- the range the reader has to put into the skip set (clipped like `slice.indices(limit)`) -/
def Ctl.range (limit : Nat) (t : Ctl) : Nat × Nat :=
  (min (specFirst t.2.1 t.2.2.2) limit, min (specFirst t.2.1 t.2.2.2 + specCount t.1 t.2.2.1) limit)

/-- specification-level parse of the TLV area from `o`: Lock/Memory Control TLVs (length 3) and NULL
TLVs up to the NDEF TLV's tag byte; `none` for anything else.  No skip handling: in a well-formed
layout no reserved byte lies on this structure. -/
def chainParse (m : Bytes) : Nat → Nat → Option (List Ctl × Nat)
  | 0, _ => none
  | fuel+1, o =>
    match m[o]? with
    | none => none
    | some t =>
      if t = 3 then some ([], o)
      else if t = 0 then chainParse m fuel (o + 1)
      else if t = 1 ∨ t = 2 then
        match m[o+1]?, m[o+2]?, m[o+3]?, m[o+4]? with
        | some l, some d0, some d1, some d2 =>
          if l = 3 then
            match chainParse m fuel (o + 5) with
            | some (cs, off) => some ((decide (t = 1), d0, d1, d2) :: cs, off)
            | none => none
          else none
        | _, _, _, _ => none
      else none

/-- hypothesis of the control TLV theorems, evaluated by the driver on the generated layouts: the TLV
area parses as a chain, the NDEF TLV's tag and length byte lie inside the data area, and no declared
range falls on the structure up to the length byte -/
def chainOk (c : Cfg) (m : Bytes) (e : Nat) : Bool :=
  match chainParse m (e + 1) c.dataStart with
  | none => false
  | some (cs, off) =>
    decide (off + 1 < e) &&
    (List.range (off + 2 - c.dataStart)).all fun i =>
      !inSkip (c.initSkip e ++ cs.map (Ctl.range c.limit)) (c.dataStart + i)

/-! ## reader with the data-area test -/

/-- `Type2Tag.NDEF._read_ndef_data`: an NDEF TLV whose length field or value does not fit into the
data area gives `None` -/
def readNdefT2 (m : Bytes) : Py (Option Layout) :=
  match readNdef t2Cfg m with
  | .ok (some L) =>
    let head := L.off + (if m[L.off + 1]? = some 0xFF then 4 else 2)
    if head > L.areaEnd ∨ L.ndef.length > countFree L.skip head L.areaEnd then .ok none else .ok (some L)
  | x => x

/-! ## format -/

/-- commands that reached the tag and what the call returned / raised -/
structure OpOut where
  cmds : List Cmd
  res : Py Bool
  deriving Repr, DecidableEq

/-- `Type2Tag._format(version, wipe)` -/
def formatT2Out (m : Bytes) (wipe : Option Nat) : OpOut :=
  match readNdefT2 m with
  | .error e => ⟨[], .error e⟩
  | .ok none => ⟨[], .ok false⟩
  | .ok (some L) =>
    if ¬ L.writeable then ⟨[], .ok false⟩ else
    match formatT2 m L wipe with
    | .error e => ⟨[], .error e⟩
    | .ok m' => ⟨diffUnits 4 m m', .ok true⟩

/-- `self.write(page, data)`: NAK for a page beyond the memory -/
def writePage (m : Bytes) (page : Nat) (d : Bytes) : Py Bytes :=
  if page * 4 < m.length then .ok (writeAt m (page * 4) d) else .error (.tagCmd 2)

/-- `_format` of NTAG203 / NTAG210 / 212 / 213 / 215 / 216: without NDEF the factory content of pages
4 and 5 (`f`, 8 bytes) is written by two WRITE commands, then `Type2Tag._format` runs on the result -/
def formatNxp (f : Bytes) (m : Bytes) (wipe : Option Nat) : OpOut :=
  match readNdefT2 m with
  | .error e => ⟨[], .error e⟩
  | .ok (some _) => formatT2Out m wipe
  | .ok none =>
    match writePage m 4 (f.take 4) with
    | .error e => ⟨[], .error e⟩
    | .ok m4 =>
      match writePage m4 5 ((f.drop 4).take 4) with
      | .error e => ⟨[(16, f.take 4)], .error e⟩
      | .ok m5 =>
        let o := formatT2Out m5 wipe
        ⟨[(16, f.take 4), (20, (f.drop 4).take 4)] ++ o.cmds, o.res⟩

/-- `Topaz._format(version, wipe)`: the image that `synchronize()` writes back, `none` when the
version is refused (`return False` before `synchronize()`) -/
def formatTopazV (m : Bytes) (version wipe : Option Nat) : Py (Option Bytes) :=
  setSlice (t1Cfg 1) m 8 topazHdr >>= fun x =>
  match version with
  | some v =>
    if v / 16 = 1 then
      wr (t1Cfg 1) x 9 v >>= fun y =>
      match wipe with
      | none => .ok (some y)
      | some w => setSlice (t1Cfg 1) y 14 (List.replicate 90 (w % 256)) >>= fun z => .ok (some z)
    else .ok none
  | none =>
    match wipe with
    | none => .ok (some x)
    | some w => setSlice (t1Cfg 1) x 14 (List.replicate 90 (w % 256)) >>= fun z => .ok (some z)

/-- `Topaz512._format(version, wipe)` -/
def formatTopaz512V (m : Bytes) (version wipe : Option Nat) : Py (Option Bytes) :=
  setSlice (t1Cfg 8) m 8 topaz512Hdr >>= fun x =>
  (match version with
   | some v => if v / 16 = 1 then wr (t1Cfg 8) x 9 v >>= fun y => .ok (some y) else .ok none
   | none => .ok (some x)) >>= fun oy =>
  match oy with
  | none => .ok none
  | some y =>
    match wipe with
    | none => .ok (some y)
    | some w => setSlice (t1Cfg 8) y 24 (List.replicate 80 (w % 256)) >>= fun z =>
                setSlice (t1Cfg 8) z 128 (List.replicate 384 (w % 256)) >>= fun z' => .ok (some z')

/-! ## protect() without password -/

/-- value of lock byte number `j` after `bits` lock bits were set from bit 0 upwards -/
def lockByteVal (bits j : Nat) : Nat := if 8 * j + 8 ≤ bits then 255 else 2 ^ (bits - 8 * j) - 1

/-- `for i in range(bytes): mem[a+i] = 0` / `for i in range(bits): mem[a+(i>>3)] |= 1 << (i&7)` -/
def setLocks (m : Bytes) (addr bits : Nat) : Nat → Nat → Py Bytes
  | 0, _ => .ok m
  | n+1, j => wr t2Cfg m (addr + j) (lockByteVal bits j) >>= fun m' => setLocks m' addr bits n (j + 1)

def setAllLocks (m : Bytes) : List (Nat × Nat) → Py Bytes
  | [] => .ok m
  | (a, b) :: rest => setLocks m a b ((b + 7) / 8) 0 >>= fun m' => setAllLocks m' rest

/-- the `read_tlv(tag_memory, offset, set())` loop of `Type2Tag._protect`: (first lock byte, lock bits)
of every Lock Control TLV in front of the NDEF / Terminator TLV; the value field is used without a
length test (`tlv_v[0]` ... -> IndexError) -/
def protWalk (r : Rd) (e : Nat) : Nat → Nat → List (Nat × Nat) → Py (List (Nat × Nat))
  | 0, _, _ => .error .outOfFuel
  | fuel+1, off, acc =>
    if e ≤ off then .ok acc else
    r off >>= fun t =>
    if t = 0 then protWalk r e fuel (off + 1) acc
    else if t = 0xFE then .ok acc
    else
      readLen r (off + 1) >>= fun lv =>
      fetch r [] lv.1 lv.2 >>= fun v =>
      if t = 3 then .ok acc
      else
        let next := off + lv.1 + 1 + (if lv.1 < 255 then 1 else 3)
        if t = 1 then
          idxN v 0 >>= fun d0 => idxN v 2 >>= fun d2 => idxN v 1 >>= fun d1 =>
          protWalk r e fuel next (acc ++ [(specFirst d0 d2, specBits d1)])
        else protWalk r e fuel next acc

/-- default dynamic lock bits of a tag without Lock Control TLV: right behind the data area -/
def defaultLocks (sz : Nat) (found : List (Nat × Nat)) : List (Nat × Nat) :=
  if sz > 6 ∧ found = [] then [(16 + sz * 8, (sz * 8 - 48 + 7) / 8)] else found

/-- what the memory reader raises for a byte behind the end of a memory of `len` bytes (a multiple of
16): the READ is refused (`INVALID_PAGE_ERROR`), unless the byte would be the first one of a new
1 KiB sector - then the SECTOR SELECT is refused first (`INVALID_SECTOR_ERROR`) -/
def beyondErr (len : Nat) (e : Exc) : Exc :=
  if e = .tagCmd 2 ∧ len % 1024 = 0 then .tagCmd 1 else e

/-- `Type2Tag._protect(password=None, ...)` -/
def protectT2 (m : Bytes) : OpOut :=
  match readNdefT2 m with
  | .error e => ⟨[], .error e⟩
  | .ok none => ⟨[], .ok false⟩
  | .ok (some _) =>
    match rd t2Cfg m 15 >>= fun acc => wr t2Cfg m 15 (acc ||| 0x0F) with
    | .error e => ⟨[], .error e⟩
    | .ok m1 =>
      let c1 := diffUnits 4 m m1
      match (wr t2Cfg m1 10 0xFF >>= fun a => wr t2Cfg a 11 0xFF >>= fun b =>
             rd t2Cfg b 14 >>= fun sz =>
             protWalk (rd t2Cfg b) (sz * 8 + 16) (sz * 8 + 17) 16 [] >>= fun locks =>
             setAllLocks b (defaultLocks sz locks)) with
      | .error e => ⟨c1, .error (beyondErr m.length e)⟩
      | .ok m2 => ⟨c1 ++ diffUnits 4 m1 m2, .ok true⟩

inductive NxpKind
  | ulc | n203 | n21x (cfgpage : Nat)
  deriving Repr, DecidableEq

/-- `m'` with byte `a` put back to its value in `m` -/
def keepByte (m m' : Bytes) (a : Nat) : Bytes :=
  match m[a]? with
  | some v => m'.set a v
  | none => m'

/-- a WRITE as stored by the NXP products: BCC1 / INTERNAL (bytes 8, 9) are read-only -/
def nxpStore (m : Bytes) (c : Cmd) : Bytes :=
  if c.1 = 8 then keepByte m (keepByte m (writeAt m c.1 c.2) 8) 9 else writeAt m c.1 c.2

def nxpApply (m : Bytes) (cmds : List Cmd) : Bytes := cmds.foldl nxpStore m

/-- WRITE commands in order; a page beyond the memory answers NAK: the commands before it reached the
tag, `false` = `except Type2TagCommandError: return False` -/
def sendPages (m : Bytes) (cmds : List Cmd) : List Cmd × Bool :=
  let ok := cmds.takeWhile fun c => decide (c.1 < m.length)
  (ok, decide (ok.length = cmds.length))

/-- `_protect_with_lockbits` of Ultralight C / NTAG203 / NTAG21x: `read(3)`, WRITE page 3 with the
access byte `0F` when the capability container is valid, WRITE page 2 `00 00 FF FF`, then the dynamic
lock bytes (page 40 resp. `cfgpage - 1`) and, NTAG21x, the CFGLCK bit in the ACCESS byte -/
def protectNxp (k : NxpKind) (m : Bytes) : OpOut :=
  match m[12]?, m[13]?, m[14]?, m[15]? with
  | some c0, some c1, some c2, some _ =>
    let cc : List Cmd := if c0 = 0xE1 ∧ c1 / 16 = 1 then [(12, [c0, c1, c2, 0x0F])] else []
    let st : List Cmd := cc ++ [(8, [0, 0, 0xFF, 0xFF])]
    match k with
    | .ulc => let r := sendPages m (st ++ [(160, [0xFF, 0xFF, 0, 0])]); ⟨r.1, .ok r.2⟩
    | .n203 => let r := sendPages m (st ++ [(160, [0xFF, 0x01, 0, 0])]); ⟨r.1, .ok r.2⟩
    | .n21x p =>
      let dl : List Cmd := if p > 16 then [((p - 1) * 4, [0xFF, 0xFF, 0xFF, 0])] else []
      let r := sendPages m (st ++ dl)
      if ¬ r.2 then ⟨r.1, .ok false⟩ else
      -- cfgdata = self.read(cfgpage)
      match m[p * 4]?, m[p * 4 + 4]?, m[p * 4 + 5]?, m[p * 4 + 6]?, m[p * 4 + 7]? with
      | some _, some a, some b5, some b6, some b7 =>
        if a / 64 % 2 = 0 then ⟨r.1 ++ [((p + 1) * 4, [a ||| 0x40, b5, b6, b7])], .ok true⟩
        else ⟨r.1, .ok true⟩
      | _, _, _, _, _ => ⟨r.1, .ok false⟩
  | _, _, _, _ => ⟨[], .ok false⟩

inductive T1Kind
  | generic | topaz | topaz512
  deriving Repr, DecidableEq

/-- WRITE-NE commands (`write_byte(addr, data, erase=False)`): the tag ORs the data into the byte; the
command list holds the stored value.  A byte beyond the memory is not answered (`TIMEOUT_ERROR`). -/
def neCmds (m : Bytes) : List (Nat × Nat) → List Cmd × Py Unit
  | [] => ([], .ok ())
  | (a, v) :: rest =>
    match m[a]? with
    | none => ([], .error (.tagCmd 0))
    | some b => let r := neCmds m rest; ((a, [b ||| v]) :: r.1, r.2)

/-- `Type1Tag._protect` plus the lock byte writes of `Topaz._protect` / `Topaz512._protect` -/
def protectT1 (k : T1Kind) (unit : Nat) (m : Bytes) : OpOut :=
  match readNdef (t1Cfg unit) m with
  | .error e => ⟨[], .error e⟩
  | .ok none => ⟨[], .ok false⟩
  | .ok (some _) =>
    let addrs : List (Nat × Nat) := match k with
      | .generic => [(11, 0x0F)]
      | .topaz => [(11, 0x0F), (112, 0xFF), (113, 0xFF)]
      | .topaz512 => [(11, 0x0F), (112, 0xFF), (113, 0xFF), (120, 0xFF), (121, 0xFF)]
    let r := neCmds m addrs
    match r.2 with
    | .ok _ => ⟨r.1, .ok true⟩
    | .error e => ⟨r.1, .error e⟩

end NfcVerif.Tlv
