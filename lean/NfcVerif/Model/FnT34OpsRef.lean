import NfcVerif.Py
import NfcVerif.Model.IsoDep
/-!
# Reference definitions for group T34Ops (`nfc/tag/tt3.py`, `nfc/tag/tt4.py`)

Spec-style definitions of the operations whose regenerated text group T34Ops bridges, where the existing models
(`Model/T3.lean`, `Model/T4.lean`, `Model/IsoDep.lean`) have no separate function.  A tag command is an uninterpreted
function (`xchg`, `trx`, `apdu`, `upd`): the definitions say how often and with which arguments it is called and what is
done with its answer.  The property-relevant facts are proved in `Lemmas/FnBridgeT34Ops.lean`.
-/
namespace NfcVerif.T34OpsRef
open NfcVerif

/-- `nfc.tag.tt3.DATA_SIZE_ERROR` -/
def DATA_SIZE_ERROR : Int := 4

/-! ## Type 3 Tag, reader side -/

/-- data octets of the polling response for a request code: IDm + PMm, plus two octets of request data when the
request code is not 0 -/
def pollingLen (rc : Int) : Nat := if rc = 0 then 16 else 18

/-- `Type3Tag.polling` refuses the response -/
def pollingRefused (rc : Int) (n : Nat) : Bool := decide (n ≠ pollingLen rc)

/-- `Type3Tag.read_without_encryption` from the tag command on: ONE Read Without Encryption command (code 6) with the
encoded service / block list; the answer is accepted only when it is the block count octet and 16 octets for every
requested block -/
def readCmd (xchg : Int → Bytes → Int → Py Bytes) (nblocks : Nat) (data : Bytes) (timeout : Int) : Py Bytes :=
  match xchg 6 data timeout with
  | .error e => .error e
  | .ok r => if r.length = 1 + 16 * nblocks then .ok (r.drop 1) else .error (.tagCmd DATA_SIZE_ERROR)

/-- `Type3Tag.write_without_encryption` from the tag command on: ONE command with code 8, the answer is not used -/
def writeCmd (xchg : Int → Bytes → Int → Py Bytes) (data : Bytes) (timeout : Int) : Py (Option Int) :=
  match xchg 8 data timeout with
  | .error e => .error e
  | .ok _ => .ok none

/-- number of 16 octet blocks that hold `n` octets -/
def blocksFor (n : Nat) : Nat := (n + 15) / 16

/-- the message with zeros up to the end of its last block -/
def padded (d : Bytes) : Bytes := d ++ List.replicate (16 * blocksFor d.length - d.length) 0

/-- `_write_ndef_data`: (number of the block behind the data, padded data); block 0 is the attribute block -/
def writePlan (d : Bytes) : Nat × Bytes := (1 + blocksFor d.length, padded d)

/-- first block number of every command of a block loop `for i in range(1, last, step)` -/
def starts (last step : Nat) : List Nat := (List.range ((last + step - 2) / step)).map (fun i => 1 + i * step)

/-- `range(1, last, step)` as Python evaluates it (`ValueError` for step 0) -/
def startsPy (last step : Nat) : Py (List Int) :=
  if step = 0 then .error .value else .ok ((starts last step).map (fun (s : Nat) => (s : Int)))

/-! ## Type 3 Tag emulation -/

/-- a Read Without Encryption command is refused for its number of blocks -/
def emuRefuses (nblocks : Nat) : Bool := decide (nblocks > 15)

/-- status flag 1 of an error response: bit (position of the offending block list element mod 8) -/
def statusFlag (i : Nat) : Nat := 2 ^ (i % 8)

/-! ## Type 4 Tag -/

/-- `Type4Tag.send_apdu` around `self.transceive`: the command APDU of `IsoDep.encodeApdu`, ONE exchange, status word
handling of `IsoDep.checkStatus` -/
def sendApduVia (trx : Bytes → Py Bytes) (ext : Bool) (cla ins p1 p2 : Nat) (data : Bytes) (mrl : Nat) (check : Bool) :
    Py Bytes :=
  match IsoDep.encodeApdu ext cla ins p1 p2 data mrl with
  | .error e => .error e
  | .ok cmd =>
    match trx cmd with
    | .error e => .error e
    | .ok rsp => IsoDep.checkStatus check rsp

/-- `_read_binary(offset, size)` around `send_apdu`: ONE READ BINARY (B0h) with the offset in P1-P2 and
Le = min(MLe, size); an answer longer than requested is a protocol error -/
def readBinaryVia (apdu : Int → Int → Int → Int → Int → Py Bytes) (maxLe : Int) (off : Nat) (size : Int) : Py Bytes :=
  if off > 65535 then .error .struct else
  let le : Int := if size < maxLe then size else maxLe
  match apdu 0 0xB0 ((off / 256 : Nat) : Int) ((off % 256 : Nat) : Int) le with
  | .error e => .error e
  | .ok d => if (d.length : Int) > max le 0 then .error (.tagCmd IsoDep.PROTOCOL_ERROR) else .ok d

/-- `_update_binary(offset, data)` around `send_apdu`: ONE UPDATE BINARY (D6h) with the first min(MLc, len) octets;
the result is that number -/
def updateBinaryVia (apdu : Int → Int → Int → Int → Bytes → Py Bytes) (maxLc : Nat) (off : Nat) (data : Bytes) : Py Int :=
  if off > 65535 then .error .struct else
  let n := min maxLc data.length
  match apdu 0 0xD6 ((off / 256 : Nat) : Int) ((off % 256 : Nat) : Int) (data.take n) with
  | .error e => .error e
  | .ok _ => .ok (n : Int)

/-- `while offset < len(buf): offset += self._update_binary(offset, buf[offset:])` -/
def updLoop (upd : Int → Bytes → Py Int) (buf : Bytes) : Nat → Int → Py Int
  | 0, _ => .error .outOfFuel
  | fuel + 1, off =>
    if off < (buf.length : Int) then
      match upd off (buf.drop (clampBound buf.length off)) with
      | .error e => .error e
      | .ok n => updLoop upd buf fuel (off + n)
    else .ok off

/-- NLEN and the message fit one UPDATE BINARY command -/
def singleUpdate (nlenSize len maxLc : Nat) : Bool := decide (nlenSize + len ≤ maxLc)

/-- the octets written by the first loop of `_write_ndef_data`: the final length field in front of the message only
when everything fits one command, a zero length field otherwise -/
def firstBuf (nlen : Bytes) (data : Bytes) (maxLc : Nat) : Bytes :=
  if singleUpdate nlen.length data.length maxLc then nlen ++ data else List.replicate nlen.length 0 ++ data

/-- `_write_ndef_data` over `_update_binary`: `nlen` is the packed length field -/
def writeNdefVia (upd : Int → Bytes → Py Int) (fuel : Nat) (nlen data : Bytes) (maxLc : Nat) : Py Bool :=
  match updLoop upd (firstBuf nlen data maxLc) fuel 0 with
  | .error e => .error e
  | .ok _ =>
    if singleUpdate nlen.length data.length maxLc ∨ nlen = [] then .ok true
    else match updLoop upd nlen fuel 0 with
      | .error e => .error e
      | .ok _ => .ok true

/-- capacity stored by `_discover_ndef`: the file size limited to what a 16 bit offset addresses, less the length field
(control TLV tag 4: NLEN of 2 octets, tag 6: ENLEN of 4 octets) -/
def nlenSize (tag : Int) : Int := tag - 2
def capacity (mfs tag : Int) : Int := (if mfs < 65536 then mfs else 65536) - nlenSize tag

/-- RATS: FSDI 8 (256 octets) when the device receives that much, FSDI 7 (128) otherwise; CID 0 -/
def ratsCmd (maxRecv : Int) : Bytes := [0xE0, if maxRecv < 256 then 0x70 else 0x80]

/-- the ATS is evaluated when it has the format byte T0 (TL and T0: two octets suffice) -/
def hasT0 (n : Nat) : Bool := decide (n ≥ 2)

/-- FSCI and FWI of an ATS in front of the RFU clamps: defaults 2 / 4; T0 (second octet) has FSCI, TB(1) - behind TA(1)
when T0 announces that - has FWI in the upper half -/
def atsFsciFwi (ats : Bytes) : Nat × Nat :=
  match ats with
  | _ :: t0 :: rest =>
    let tbIndex := if t0 &&& 0x10 ≠ 0 then 1 else 0
    (t0 % 16, if t0 &&& 0x20 ≠ 0 then (match rest[tbIndex]? with | some tb => tb / 16 | none => 4) else 4)
  | _ => (2, 4)

/-- ATTRIB: NFCID0, Param 1 = 0, Param 2 = maximum frame size code 8 (256) or 7 (128), Param 3 = 1 (ISO-DEP), CID 0 -/
def attribCmd (maxRecv : Int) (nfcid : Bytes) : Bytes :=
  [0x1D] ++ nfcid ++ [0x00, if maxRecv < 256 then 0x07 else 0x08, 0x01, 0x00]

/-- NFCID0: octets 1..4 of SENSB_RES -/
def nfcid0 (sensb : Bytes) : Bytes := (sensb.drop 1).take 4

/-- no more commands after an unrecoverable error (any error number, TIMEOUT_ERROR = 0 included); the presence check
(`command is None`) is not latched -/
def latched (command : Option Bytes) (errno : Option Int) : Bool := command.isSome && errno.isSome

/-- INF field of the I-block at `offset` -/
def infField (command : Bytes) (offset miu : Nat) : Bytes := (command.drop offset).take miu

end NfcVerif.T34OpsRef
