import NfcVerif.Py
/-!
# DES and two-key triple DES (FIPS PUB 46-3), executable

Blocks are bit vectors `Vector Bool n`, bit 1 of the standard is index 0.  The
cipher is written as a generic Feistel network (`feistel`, any round function,
any "xor") between the initial and the final permutation.  `Lemmas/Des.lean`
proves that it is a bijection without enumerating blocks.  The byte-level
entry points (`desBytes`, `tdesBytes`) are what the MAC model and the driver use;
`pyDes` (used by nfcpy) is compared with them by the C20 check.
-/
namespace NfcVerif.Des

abbrev Bits (n : Nat) := Vector Bool n

/-- output bit `i` is input bit `tbl[i]` -/
def perm {n m : Nat} (tbl : Vector (Fin n) m) (x : Bits n) : Bits m := Vector.ofFn fun i => x[tbl[i]]

def xorV {n : Nat} (a b : Bits n) : Bits n := Vector.ofFn fun i => (a[i] ^^ b[i])

/-! ## generic Feistel network -/
section Feistel
variable {α κ : Type} (x : α → α → α) (f : α → κ → α)

/-- one round: `(L, R) ↦ (R, L ⊕ f(R, k))` -/
def fround (k : κ) (s : α × α) : α × α := (s.2, x s.1 (f s.2 k))
def fswap (s : α × α) : α × α := (s.2, s.1)
def frounds (ks : List κ) (s : α × α) : α × α := ks.foldl (fun s k => fround x f k s) s
/-- all rounds, then the halves are exchanged (the "pre-output" of FIPS 46-3) -/
def feistel (ks : List κ) (s : α × α) : α × α := fswap (frounds x f ks s)
end Feistel

/-! ## tables -/
/-- initial permutation IP (FIPS 46-3), zero-based source bit of every output bit -/
def ipTbl : Vector (Fin 64) 64 := #v[
  57, 49, 41, 33, 25, 17, 9, 1, 59, 51, 43, 35, 27, 19, 11, 3,
  61, 53, 45, 37, 29, 21, 13, 5, 63, 55, 47, 39, 31, 23, 15, 7,
  56, 48, 40, 32, 24, 16, 8, 0, 58, 50, 42, 34, 26, 18, 10, 2,
  60, 52, 44, 36, 28, 20, 12, 4, 62, 54, 46, 38, 30, 22, 14, 6]

/-- final permutation IP^-1 -/
def fpTbl : Vector (Fin 64) 64 := #v[
  39, 7, 47, 15, 55, 23, 63, 31, 38, 6, 46, 14, 54, 22, 62, 30,
  37, 5, 45, 13, 53, 21, 61, 29, 36, 4, 44, 12, 52, 20, 60, 28,
  35, 3, 43, 11, 51, 19, 59, 27, 34, 2, 42, 10, 50, 18, 58, 26,
  33, 1, 41, 9, 49, 17, 57, 25, 32, 0, 40, 8, 48, 16, 56, 24]

/-- expansion E -/
def eTbl : Vector (Fin 32) 48 := #v[
  31, 0, 1, 2, 3, 4, 3, 4, 5, 6, 7, 8, 7, 8, 9, 10,
  11, 12, 11, 12, 13, 14, 15, 16, 15, 16, 17, 18, 19, 20, 19, 20,
  21, 22, 23, 24, 23, 24, 25, 26, 27, 28, 27, 28, 29, 30, 31, 0]

/-- permutation P -/
def pTbl : Vector (Fin 32) 32 := #v[
  15, 6, 19, 20, 28, 11, 27, 16, 0, 14, 22, 25, 4, 17, 30, 9,
  1, 7, 23, 13, 31, 26, 2, 8, 18, 12, 29, 5, 21, 10, 3, 24]

/-- permuted choice 1 -/
def pc1Tbl : Vector (Fin 64) 56 := #v[
  56, 48, 40, 32, 24, 16, 8, 0, 57, 49, 41, 33, 25, 17, 9, 1,
  58, 50, 42, 34, 26, 18, 10, 2, 59, 51, 43, 35, 62, 54, 46, 38,
  30, 22, 14, 6, 61, 53, 45, 37, 29, 21, 13, 5, 60, 52, 44, 36,
  28, 20, 12, 4, 27, 19, 11, 3]

/-- permuted choice 2 -/
def pc2Tbl : Vector (Fin 56) 48 := #v[
  13, 16, 10, 23, 0, 4, 2, 27, 14, 5, 20, 9, 22, 18, 11, 3,
  25, 7, 15, 6, 26, 19, 12, 1, 40, 51, 30, 36, 46, 54, 29, 39,
  50, 44, 32, 47, 43, 48, 38, 55, 33, 52, 45, 41, 49, 35, 28, 31]

/-- both 28-bit halves rotated left by one -/
def rot1Tbl : Vector (Fin 56) 56 := #v[
  1, 2, 3, 4, 5, 6, 7, 8, 9, 10, 11, 12, 13, 14, 15, 16,
  17, 18, 19, 20, 21, 22, 23, 24, 25, 26, 27, 0, 29, 30, 31, 32,
  33, 34, 35, 36, 37, 38, 39, 40, 41, 42, 43, 44, 45, 46, 47, 48,
  49, 50, 51, 52, 53, 54, 55, 28]

/-- both 28-bit halves rotated left by two -/
def rot2Tbl : Vector (Fin 56) 56 := #v[
  2, 3, 4, 5, 6, 7, 8, 9, 10, 11, 12, 13, 14, 15, 16, 17,
  18, 19, 20, 21, 22, 23, 24, 25, 26, 27, 0, 1, 30, 31, 32, 33,
  34, 35, 36, 37, 38, 39, 40, 41, 42, 43, 44, 45, 46, 47, 48, 49,
  50, 51, 52, 53, 54, 55, 28, 29]

/-- S-boxes S1..S8, row-major (row = outer bits b1 b6, column = b2..b5) -/
def sboxTbl : Vector (Vector Nat 64) 8 := #v[
  #v[14, 4, 13, 1, 2, 15, 11, 8, 3, 10, 6, 12, 5, 9, 0, 7, 0, 15, 7, 4, 14, 2, 13, 1, 10, 6, 12, 11, 9, 5, 3, 8, 4, 1, 14, 8, 13, 6, 2, 11, 15, 12, 9, 7, 3, 10, 5, 0, 15, 12, 8, 2, 4, 9, 1, 7, 5, 11, 3, 14, 10, 0, 6, 13],
  #v[15, 1, 8, 14, 6, 11, 3, 4, 9, 7, 2, 13, 12, 0, 5, 10, 3, 13, 4, 7, 15, 2, 8, 14, 12, 0, 1, 10, 6, 9, 11, 5, 0, 14, 7, 11, 10, 4, 13, 1, 5, 8, 12, 6, 9, 3, 2, 15, 13, 8, 10, 1, 3, 15, 4, 2, 11, 6, 7, 12, 0, 5, 14, 9],
  #v[10, 0, 9, 14, 6, 3, 15, 5, 1, 13, 12, 7, 11, 4, 2, 8, 13, 7, 0, 9, 3, 4, 6, 10, 2, 8, 5, 14, 12, 11, 15, 1, 13, 6, 4, 9, 8, 15, 3, 0, 11, 1, 2, 12, 5, 10, 14, 7, 1, 10, 13, 0, 6, 9, 8, 7, 4, 15, 14, 3, 11, 5, 2, 12],
  #v[7, 13, 14, 3, 0, 6, 9, 10, 1, 2, 8, 5, 11, 12, 4, 15, 13, 8, 11, 5, 6, 15, 0, 3, 4, 7, 2, 12, 1, 10, 14, 9, 10, 6, 9, 0, 12, 11, 7, 13, 15, 1, 3, 14, 5, 2, 8, 4, 3, 15, 0, 6, 10, 1, 13, 8, 9, 4, 5, 11, 12, 7, 2, 14],
  #v[2, 12, 4, 1, 7, 10, 11, 6, 8, 5, 3, 15, 13, 0, 14, 9, 14, 11, 2, 12, 4, 7, 13, 1, 5, 0, 15, 10, 3, 9, 8, 6, 4, 2, 1, 11, 10, 13, 7, 8, 15, 9, 12, 5, 6, 3, 0, 14, 11, 8, 12, 7, 1, 14, 2, 13, 6, 15, 0, 9, 10, 4, 5, 3],
  #v[12, 1, 10, 15, 9, 2, 6, 8, 0, 13, 3, 4, 14, 7, 5, 11, 10, 15, 4, 2, 7, 12, 9, 5, 6, 1, 13, 14, 0, 11, 3, 8, 9, 14, 15, 5, 2, 8, 12, 3, 7, 0, 4, 10, 1, 13, 11, 6, 4, 3, 2, 12, 9, 5, 15, 10, 11, 14, 1, 7, 6, 0, 8, 13],
  #v[4, 11, 2, 14, 15, 0, 8, 13, 3, 12, 9, 7, 5, 10, 6, 1, 13, 0, 11, 7, 4, 9, 1, 10, 14, 3, 5, 12, 2, 15, 8, 6, 1, 4, 11, 13, 12, 3, 7, 14, 10, 15, 6, 8, 0, 5, 9, 2, 6, 11, 13, 8, 1, 4, 10, 7, 9, 5, 0, 15, 14, 2, 3, 12],
  #v[13, 2, 8, 4, 6, 15, 11, 1, 10, 9, 3, 14, 5, 0, 12, 7, 1, 15, 13, 8, 10, 3, 7, 4, 12, 5, 6, 11, 0, 14, 9, 2, 7, 11, 4, 1, 9, 12, 14, 2, 0, 6, 10, 13, 15, 3, 5, 8, 2, 1, 14, 7, 4, 10, 8, 13, 15, 12, 9, 0, 3, 5, 6, 11]]

/-- left shifts of the key schedule: `true` = two positions -/
def shiftTwo : List Bool := [false, false, true, true, true, true, true, true, false, true, true, true, true, true, true, false]

/-! ## the cipher -/

def split (x : Bits 64) : Bits 32 × Bits 32 :=
  (Vector.ofFn fun i : Fin 32 => x[i.val]'(by omega), Vector.ofFn fun i : Fin 32 => x[32 + i.val]'(by omega))

def join (s : Bits 32 × Bits 32) : Bits 64 :=
  Vector.ofFn fun i : Fin 64 =>
    if h : i.val < 32 then s.1[i.val]'h else s.2[i.val - 32]'(by omega)

/-- the six input bits of S-box `box` as row*16 + column -/
def sboxIndex (x : Bits 48) (box : Fin 8) : Nat :=
  let b := fun (j : Fin 6) => (x[6 * box.val + j.val]'(by omega)).toNat
  (2 * b 0 + b 5) * 16 + (8 * b 1 + 4 * b 2 + 2 * b 3 + b 4)

def sboxes (x : Bits 48) : Bits 32 :=
  Vector.ofFn fun i : Fin 32 =>
    let box : Fin 8 := ⟨i.val / 4, by omega⟩
    (sboxTbl[box][sboxIndex x box % 64]'(Nat.mod_lt _ (by decide))).testBit (3 - i.val % 4)

/-- the cipher function f(R, K) -/
def fFun (r : Bits 32) (k : Bits 48) : Bits 32 := perm pTbl (sboxes (xorV (perm eTbl r) k))

def schedule : List Bool → Bits 56 → List (Bits 48)
  | [], _ => []
  | two :: rest, cd =>
    let cd' := perm (if two then rot2Tbl else rot1Tbl) cd
    perm pc2Tbl cd' :: schedule rest cd'

/-- K1 .. K16 -/
def subkeys (key : Bits 64) : List (Bits 48) := schedule shiftTwo (perm pc1Tbl key)

def desCore (ks : List (Bits 48)) (b : Bits 64) : Bits 64 :=
  perm fpTbl (join (feistel xorV fFun ks (split (perm ipTbl b))))

def desEnc (key b : Bits 64) : Bits 64 := desCore (subkeys key) b
def desDec (key b : Bits 64) : Bits 64 := desCore (subkeys key).reverse b

/-- two-key triple DES, encrypt-decrypt-encrypt (K3 = K1) -/
def tdesEnc (k1 k2 b : Bits 64) : Bits 64 := desEnc k1 (desDec k2 (desEnc k1 b))
def tdesDec (k1 k2 b : Bits 64) : Bits 64 := desDec k1 (desEnc k2 (desDec k1 b))

/-! ## bytes -/

/-- most significant bit first -/
def byteBits (n : Nat) : Bits 8 :=
  #v[n.testBit 7, n.testBit 6, n.testBit 5, n.testBit 4, n.testBit 3, n.testBit 2, n.testBit 1, n.testBit 0]

def bitsByte (v : Bits 8) : Nat :=
  128 * v[0].toNat + 64 * v[1].toNat + 32 * v[2].toNat + 16 * v[3].toNat
    + 8 * v[4].toNat + 4 * v[5].toNat + 2 * v[6].toNat + v[7].toNat

/-- eight octets (missing ones read as 0; callers pass exactly eight) -/
def bytesToBits (b : Bytes) : Bits 64 :=
  Vector.ofFn fun i : Fin 64 => (byteBits (b.getD (i.val / 8) 0))[i.val % 8]'(Nat.mod_lt _ (by decide))

def bitsToBytes (v : Bits 64) : Bytes :=
  List.ofFn fun j : Fin 8 => bitsByte (Vector.ofFn fun t : Fin 8 => v[8 * j.val + t.val]'(by omega))

def desBytes (key blk : Bytes) : Bytes := bitsToBytes (desEnc (bytesToBits key) (bytesToBits blk))
def desDecBytes (key blk : Bytes) : Bytes := bitsToBytes (desDec (bytesToBits key) (bytesToBits blk))

/-- `pyDes.triple_des(key16, ECB).encrypt(blk)` for one block: K1 = key[0:8], K2 = key[8:16], K3 = K1 -/
def tdesBytes (key16 blk : Bytes) : Bytes :=
  bitsToBytes (tdesEnc (bytesToBits (key16.take 8)) (bytesToBits (key16.drop 8)) (bytesToBits blk))
def tdesDecBytes (key16 blk : Bytes) : Bytes :=
  bitsToBytes (tdesDec (bytesToBits (key16.take 8)) (bytesToBits (key16.drop 8)) (bytesToBits blk))

end NfcVerif.Des
