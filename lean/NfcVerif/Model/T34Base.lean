import NfcVerif.Py
/-!
# Shared pieces of the Type 3 / Type 4 tag models (C01, C02, C03 parts `t34`)

A tag memory (Type 3: blocks of 16 octets laid out one after the other,
Type 4: one file) is a `Bytes`; a state-changing command overwrites a
contiguous range: `splice m off d` is Python's `m[off:off+len(d)] = d`
for `off + len(d) <= len(m)`.
-/
namespace NfcVerif.T34

def zeros (n : Nat) : Bytes := List.replicate n 0

/-- `m[off:off+len(d)] = d` (callers check `off + d.length ≤ m.length`) -/
def splice (m : Bytes) (off : Nat) (d : Bytes) : Bytes :=
  m.take off ++ d ++ m.drop (off + d.length)

/-- what a fresh reader of the tag reports -/
structure Seen where
  capacity : Int
  readable : Bool
  writeable : Bool
  data : Bytes
  deriving DecidableEq, Repr

/-- C02: acceptable views after an interrupted write (`none` = no NDEF found) -/
def Outcome (old new : Bytes) (r : Option Seen) : Prop :=
  match r with
  | none => True
  | some s => s.data = old ∨ s.data = [] ∨ s.readable = false ∨ s.data = new

instance (old new : Bytes) (r : Option Seen) : Decidable (Outcome old new r) := by
  unfold Outcome; cases r <;> infer_instance

def showSeen : Option Seen → String
  | none => "none"
  | some s => s!"cap={s.capacity} r={if s.readable then 1 else 0} w={if s.writeable then 1 else 0} data={toHex s.data}"

end NfcVerif.T34
