import NfcVerif.Model.Snep
/-!
# Property C07: the SNEP server and client on the octets of the remote peer

`Model/Snep.lean` (property C06) describes the SNEP state machines with total arithmetic on the
header fields.  For the robustness property the header handling is transcribed here at the `Py`
level, with everything that can raise:

* `unpackL`          `struct.unpack(">L", request_data[6:10])` - `struct.error` unless the slice has 4 octets
* `unpackFromBxL`    `struct.unpack_from(">BxL", data)`         - `struct.error` below 6 octets
* `unpackBBL`        `struct.unpack(">BBL", snep_response[:6])`
* `packBBL`          `struct.pack(">BBL", 0x10, code, len)`     - `struct.error` outside the field ranges
* `processRequest`   `SnepServer.process_snep_request`: the `try` body, the two `except` clauses
                     (`ndef.DecodeError`/`ValueError` -> Bad Request, `ndef.EncodeError` -> Not Found),
                     the response header
* `serve`            `SnepServer._serve` on a scripted connection (the peer's fragments in order, then
                     closed): first fragment checks, version / length answers, reassembly (a closed
                     connection ends it with the PARTIAL message being processed), response fragmentation
* `recvResponse`, `getOctets`, `putOctets`   the response path of `nfc/snep/client.py`

The NDEF decoder/encoder (third party) and the application callbacks are the parameter `App`:
what `ndef.message_decoder` + `process_get_request`/`process_put_request` + `ndef.message_encoder`
do with the information field, including the exceptions the code handles.
`send()` is assumed not to raise `EMSGSIZE` (LLCP guarantees MIU >= 128 > 6); a peer that is gone makes
`send()`/`poll()` raise `nfc.llcp.Error`, which `_serve` catches - here the script just ends.
-/
namespace NfcVerif.PeerSnep
open NfcVerif
open NfcVerif.Snep (contRsp contReq rejectRsp unsupRsp)

/-! ## struct -/

def unpackL (d : Bytes) : Py Nat := if d.length = 4 then .ok (beNat d) else .error .struct

def unpackFromBxL (d : Bytes) : Py (Nat × Nat) :=
  if d.length < 6 then .error .struct
  else idxN d 0 >>= fun v => .ok (v, beNat (sliceN d 2 6))

def unpackBBL (d : Bytes) : Py (Nat × Nat × Nat) :=
  if d.length ≠ 6 then .error .struct
  else idxN d 0 >>= fun v => idxN d 1 >>= fun c => .ok (v, c, beNat (sliceN d 2 6))

def packBBL (a b l : Nat) : Py Bytes :=
  if a ≥ 256 ∨ b ≥ 256 ∨ l ≥ 2 ^ 32 then .error .struct else .ok ([a, b] ++ toBE 4 l)

/-! ## server -/

/-- exceptions inside the `try` of `process_snep_request` -/
inductive SExc
  | py (e : Exc)
  | ndefDecode
  | ndefEncode
  deriving DecidableEq, Repr

/-- decoder + application + encoder on the information field of a request -/
structure App where
  /-- GET: `process_get_request` returned an `int` (`inl`) or records, encoded to octets (`inr`) -/
  get : Bytes → Except SExc (Nat ⊕ Bytes)
  /-- PUT: the response code returned by `process_put_request` -/
  put : Bytes → Except SExc Nat

/-- the `try` body: response code and response data -/
def requestBody (app : App) (data : Bytes) : Except SExc (Nat × Bytes) :=
  match idxN data 1 with
  | .error e => .error (.py e)
  | .ok code =>
    if code = 1 ∧ data.length ≥ 10 then
      match unpackL (sliceN data 6 10) with
      | .error e => .error (.py e)
      | .ok acc =>
        match app.get (data.drop 10) with
        | .error x => .error x
        | .ok (.inl c) => .ok (if 0 > acc then (0xC1, []) else (c, []))
        | .ok (.inr d) => .ok (if d.length > acc then (0xC1, []) else (0x81, d))
    else if code = 2 then
      match app.put (data.drop 6) with
      | .error x => .error x
      | .ok c => .ok (c, [])
    else .ok (0xC2, [])

/-- `struct.pack(">BBL", 0x10, response_code, len(response_data)) + response_data` -/
def packResponse (code : Nat) (d : Bytes) : Py Bytes :=
  packBBL 0x10 code d.length >>= fun h => .ok (h ++ d)

/-- `process_snep_request(request_data)` -/
def processRequest (app : App) (data : Bytes) : Py Bytes :=
  match requestBody app data with
  | .ok (c, d) => packResponse c d
  | .error .ndefDecode => packResponse 0xC2 []
  | .error (.py .value) => packResponse 0xC2 []
  | .error .ndefEncode => packResponse 0xC0 []
  | .error (.py e) => .error e

structure Cfg where
  /-- `min(max_acceptable_length, 0xFFFFFFFF)` -/
  maxAcc : Nat
  /-- `client_socket.getsockopt(SO_SNDMIU)` -/
  miu : Nat
  app : App

/-- `while len(data) - 6 < length: data += client_socket.recv()` with `except TypeError: break` -/
def reasm (length : Nat) : Bytes → List Bytes → Bytes × List Bytes
  | data, [] => (data, [])
  | data, m :: rest => if data.length - 6 < length then reasm length (data ++ m) rest else (data, m :: rest)

/-- `data[offset:offset+miu]` for `offset in range(miu, len(data), miu)`; nothing for `miu = 0`
(`range()` with step 0 raises `ValueError`, excluded by `miu >= 1`) -/
def tailChunks (miu : Nat) (resp : Bytes) : List Bytes := Chan.chunks miu (resp.drop miu)

/-- `_serve(client_socket)`: the messages sent, in order; an exception = the serving thread dies.
`fuel` bounds the `while client_socket.poll('recv')` loop (one turn takes at least one fragment). -/
def serve (cfg : Cfg) : Nat → List Bytes → List Bytes → Py (List Bytes)
  | 0, _, _ => .error .outOfFuel
  | _ + 1, [], sent => .ok sent
  | fuel + 1, m :: rest, sent =>
    if m.length < 6 then .ok sent                 -- `not data` / initial fragment too short: break
    else
      unpackFromBxL m >>= fun vl =>
      if vl.1 / 16 > 1 then serve cfg fuel rest (sent ++ [unsupRsp])
      else if vl.2 > cfg.maxAcc then serve cfg fuel rest (sent ++ [rejectRsp])
      else
        let more := decide (m.length - 6 < vl.2)
        let dr := if more then reasm vl.2 m rest else (m, rest)
        let sent1 := if more then sent ++ [contRsp] else sent
        processRequest cfg.app dr.1 >>= fun resp =>
        if resp.length ≤ cfg.miu then serve cfg fuel dr.2 (sent1 ++ [resp])
        else
          match dr.2 with
          | [] => serve cfg fuel [] (sent1 ++ [resp.take cfg.miu])
          | c :: rest2 =>
            if c = contReq then serve cfg fuel rest2 (sent1 ++ [resp.take cfg.miu] ++ tailChunks cfg.miu resp)
            else serve cfg fuel rest2 (sent1 ++ [resp.take cfg.miu])

/-! ## client -/

/-- outcome of `get_octets` / `put_octets` -/
inductive CRes
  | none_ | true_ | false_
  | data (d : Bytes)
  | snepError (code : Nat)
  deriving DecidableEq, Repr

/-- the `while len(snep_response) - 6 < length` loop: `poll` false -> `None` -/
def cliReasm (length : Nat) : Bytes → List Bytes → Option Bytes
  | data, [] => if data.length - 6 < length then none else some data
  | data, m :: rest => if data.length - 6 < length then cliReasm length (data ++ m) rest else some data

/-- `recv_response(socket, acceptable_length, timeout)` on the peer's fragments:
(the response or `None`, did the client send Continue) -/
def recvResponse (acc : Nat) : List Bytes → Py (Option Bytes × Bool)
  | [] => .ok (none, false)
  | m :: rest =>
    if m.length < 6 then .ok (none, false)
    else
      unpackBBL (m.take 6) >>= fun h =>
      if h.2.2 > acc then .ok (none, false)
      else if m.length - 6 < h.2.2 then .ok (cliReasm h.2.2 m rest, true)
      else .ok (some m, false)

/-- tail of `get_octets`: `response[1] != 0x81 -> raise SnepError(response[1])`, else `response[6:]` -/
def getOctets (acc : Nat) (inbox : List Bytes) : Py CRes :=
  recvResponse acc inbox >>= fun r =>
  match r.1 with
  | none => .ok .none_
  | some resp => idxN resp 1 >>= fun st => if st ≠ 0x81 then .ok (.snepError st) else .ok (.data (resp.drop 6))

/-- tail of `put_octets` (`recv_response(socket, 0, timeout)`) -/
def putOctets (inbox : List Bytes) : Py CRes :=
  recvResponse 0 inbox >>= fun r =>
  match r.1 with
  | none => .ok .true_
  | some resp => idxN resp 1 >>= fun st => if st ≠ 0x81 then .ok (.snepError st) else .ok .true_

end NfcVerif.PeerSnep
