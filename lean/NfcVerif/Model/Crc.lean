import NfcVerif.Py
/-!
# CRC_A / CRC_B (property C14)

`nfc.clf.device.calculate_crc` and the four static helpers of `Device`,
plus the byte-wise `UpdateCrc` of ISO/IEC 14443-3 Annex B as the
independent definition.
-/
namespace NfcVerif.Crc

/-- one iteration of the inner `for pos in range(8)` loop -/
def bitStep (reg : BitVec 16) (b : Bool) : BitVec 16 :=
  let bit := (reg.getLsbD 0) != b
  let r := reg >>> 1
  if bit then r ^^^ 0x8408#16 else r

/-- the inner loop for one octet -/
def byteStep (reg : BitVec 16) (o : BitVec 8) : BitVec 16 :=
  bitStep (bitStep (bitStep (bitStep (bitStep (bitStep (bitStep (bitStep reg
    (o.getLsbD 0)) (o.getLsbD 1)) (o.getLsbD 2)) (o.getLsbD 3))
    (o.getLsbD 4)) (o.getLsbD 5)) (o.getLsbD 6)) (o.getLsbD 7)

/-- `calculate_crc(data, len(data), reg)` -/
def crcOf (reg : BitVec 16) (data : List (BitVec 8)) : BitVec 16 := data.foldl byteStep reg

/-- ISO/IEC 14443-3 Annex B, `UpdateCrc(ch, &crc)` -/
def isoUpdate (crc : BitVec 16) (ch : BitVec 8) : BitVec 16 :=
  let ch1 := ch ^^^ (crc.setWidth 8)
  let ch2 := ch1 ^^^ (ch1 <<< 4)
  let c : BitVec 16 := ch2.setWidth 16
  (crc >>> 8) ^^^ (c <<< 8) ^^^ (c <<< 3) ^^^ (c >>> 4)

def isoCrcOf (init : BitVec 16) (data : List (BitVec 8)) : BitVec 16 := data.foldl isoUpdate init

/-- Annex B `ComputeCrc`: CRC_A init 0x6363, CRC_B init 0xFFFF and inverted; result low byte first -/
def isoCrcA (data : List (BitVec 8)) : BitVec 16 := isoCrcOf (0x6363#16) data
def isoCrcB (data : List (BitVec 8)) : BitVec 16 := ~~~ isoCrcOf (0xFFFF#16) data

def lo (c : BitVec 16) : BitVec 8 := c.setWidth 8
def hi (c : BitVec 16) : BitVec 8 := (c >>> 8).setWidth 8

def addCrcA (d : List (BitVec 8)) : List (BitVec 8) :=
  let c := crcOf (0x6363#16) d
  d ++ [lo c, hi c]
def addCrcB (d : List (BitVec 8)) : List (BitVec 8) :=
  let c := ~~~ crcOf (0xFFFF#16) d
  d ++ [lo c, hi c]

/-- `check_crc_a(data)`; `data[-2]` raises IndexError for fewer than two octets -/
def checkCrcA (d : List (BitVec 8)) : Py Bool :=
  if d.length < 2 then throw .index
  else
    let c := crcOf (0x6363#16) (d.take (d.length - 2))
    pure (d.drop (d.length - 2) == [lo c, hi c])

def checkCrcB (d : List (BitVec 8)) : Py Bool :=
  if d.length < 2 then throw .index
  else
    let c := ~~~ crcOf (0xFFFF#16) (d.take (d.length - 2))
    pure (d.drop (d.length - 2) == [lo c, hi c])

end NfcVerif.Crc
