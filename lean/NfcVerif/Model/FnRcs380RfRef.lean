import NfcVerif.Py
import NfcVerif.Model.FnPn53xRfRef
import NfcVerif.Model.Crc
/-!
# Reference definitions for target discovery, listening and data exchange of the RC-S380 driver (C13, C14, C18, C19)

`Model/Sense.lean` / `Model/Connect.lean` / `Model/Activate.lean` treat `device.sense_*` / `device.listen_*` as answers of
a scripted world, `Model/ErrMap.lean` / `Model/HostFrame.lean` have the status words and the host-link frame of
`nfc/clf/rcs380.py`.  What the driver makes of the chip's answers between two chipset commands had no model.  This file
says what those slices should compute, following the NFC Port-100 command set as used by the driver (InCommRF timeout in
units of 100 us, TgCommRF answer `brty-code .. mdaa-status .. status(4) frame`), NFC Forum Digital (SENS_RES, cascade
levels CL1..CL3 with cascade tag 88h and the cascade bit 04h of SEL_RES, SENSB_RES code 50h, SENSF_RES code 01, ATR_REQ
16..64 octets, DID rules of PSL / DEP / DSL / RLS) and ISO/IEC 14443-4 (RATS E0h, DID in PCB bit 3, S(DESELECT) C2h / CAh).

Where the RC-S380 driver and the PN53x drivers must agree - what a discovered or activated target carries - the
definitions of `Model/FnPn53xRfRef.lean` are reused and the agreement is proved in `Props/FnBridgeRcs380Rf.lean`.

Octets are `Nat`s (`Bytes`); bit tests are written with `&&&` on naturals, the bit numbers are in the comments.
-/
namespace NfcVerif.FnRcs380RfRef
open NfcVerif NfcVerif.FnPn53xRfRef

/-! ## Chipset: InCommRF, InSetProtocol / TgSetProtocol, TgCommRF -/

/-- 16 bit little endian -/
def le16 (n : Nat) : Bytes := [n % 256, n / 256 % 256]

/-- InCommRF timeout in units of 100 us for a timeout in ms: 0 = no response expected, else one ms more than asked
for, at most FFFFh -/
def inCommTimeout (ms : Nat) : Nat := if ms = 0 then 0 else min ((ms + 1) * 10) 65535

/-- InCommRF command data: timeout + frame; the timeout must fit 16 bits (`struct.error` otherwise) -/
def inCommCmd (data : Bytes) (t : Nat) : Py Bytes := if t < 65536 then .ok (le16 t ++ data) else .error .struct

/-- the settings list a `*_set_protocol` call starts from -/
def settingsOf (data : Option Bytes) : Bytes := data.getD []

/-- one setting: number of the setting, value; both must be octets -/
def settingItem (k v : Int) : Py Bytes :=
  if 0 ≤ k ∧ k ≤ 255 then (if 0 ≤ v ∧ v ≤ 255 then .ok [k.toNat, v.toNat] else .error .value) else .error .value

/-- TgCommRF: the packed parameters followed by the data to transmit, if any -/
def tgCommData (params : Bytes) (tx : Option Bytes) : Bytes := params ++ tx.getD []

/-- RC-S380 frame size limit of both directions -/
def maxData : Int := 290

/-! ## sense: Type A -/

def brtyA (b : String) : Prop := b = "106A" ∨ b = "212A" ∨ b = "424A"
def brtyB (b : String) : Prop := b = "106B" ∨ b = "212B" ∨ b = "424B"
def brtyF (b : String) : Prop := b = "212F" ∨ b = "424F"
instance (b : String) : Decidable (brtyA b) := by unfold brtyA; infer_instance
instance (b : String) : Decidable (brtyB b) := by unfold brtyB; infer_instance
instance (b : String) : Decidable (brtyF b) := by unfold brtyF; infer_instance

/-- a request given by the caller, or the default -/
def orDefault (req : Option Bytes) (dflt : Bytes) : Bytes :=
  match req with
  | some (a :: l) => a :: l
  | _ => dflt

/-- SENS_REQ 26h, SENSB_REQ `05 AFI=00 PARAM=10`; SENSF_REQ: `FnPn53xRfRef.defaultSensfReq` -/
def defaultSensReq : Bytes := [0x26]
def defaultSensbReq : Bytes := [0x05, 0x00, 0x10]

/-- SENS_RES must be two octets -/
def sensResBad (sens : Bytes) : Bool := decide (sens.length ≠ 2)

/-- SENS_RES octet 1 bits 0..4 (bit frame SDD) all clear: Type 1 Tag platform -/
def sensIsTt1 (sens : Bytes) : Py Bool := idxN sens 0 >>= fun b => .ok (decide (b % 32 = 0))

/-- SENS_RES octet 2 bits 0..3 = 1100b: Type 1 Tag that answers RID -/
def sensTt1Rid (sens : Bytes) : Py Bool := idxN sens 1 >>= fun b => .ok (decide (b % 16 = 12))

/-- SEL_REQ of one cascade level: SEL_CMD, SEL_PAR 70h, four octets of the (tagged) UID, BCC -/
def selReq (uid : Bytes) (i selCmd bcc : Nat) : Py Bytes :=
  if selCmd < 256 then (if bcc < 256 then .ok (selCmd :: 0x70 :: ((uid.drop i).take 4 ++ [bcc])) else .error .value)
  else .error .value

/-- SDD_REQ of one cascade level: SEL_CMD, SEL_PAR 20h -/
def sddReq (selCmd : Nat) : Py Bytes := if selCmd < 256 then .ok [selCmd, 0x20] else .error .value

/-- SEL_REQ from SDD_RES (four octets + BCC) -/
def sddSelReq (selCmd : Nat) (sdd : Bytes) : Py Bytes :=
  if selCmd < 256 then .ok (selCmd :: 0x70 :: sdd) else .error .value

/-- SEL_RES bit 2 (04h): cascade bit, UID not complete -/
def selCascade (sel : Bytes) : Py Bool := idxN sel 0 >>= fun b => .ok (decide (b &&& 4 ≠ 0))
def selComplete (sel : Bytes) : Py Bool := idxN sel 0 >>= fun b => .ok (decide (b &&& 4 = 0))

/-- NFCID1 collected over the cascade levels: a level that is not the last starts with the cascade tag, which is
not part of the NFCID1 -/
def uidPart (uid sdd : Bytes) : Bytes := uid ++ (sdd.drop 1).take 3
def uidLast (uid sdd : Bytes) : Bytes := uid ++ sdd.take 4

/-! ## sense: Type B, Type F, DEP -/

/-- SENSB_RES: at least 12 octets, response code 50h -/
def sensbResOk (r : Bytes) : Py Bool :=
  if 12 ≤ r.length then idxN r 0 >>= fun c => .ok (decide (c = 0x50)) else .ok false

/-- polling frame: length octet + SENSF_REQ -/
def lenFrame (p : Bytes) : Py Bytes := FnPn53xRfRef.lenFrame p

/-- the complete test on the polling answer: at least 18 octets, length octet = number of octets, response code 01
(the source writes it as the chained comparison `18 <= len(frame) == frame[0] and frame[1] == 1`) -/
def ttfResOk (f : Bytes) : Py Bool :=
  if 18 ≤ f.length then
    idxN f 0 >>= fun l => if f.length = l then idxN f 1 >>= fun c => .ok (decide (c = 1)) else .ok false
  else .ok false
/-- its last operand -/
def ttfResCode (f : Bytes) : Py Bool := idxN f 1 >>= fun c => .ok (decide (c = 1))

/-! ## listen as Type A target -/

/-- argument checks of `listen_tta` and the Type A activation parameters of TgCommRF -/
def ltaChecks (brty : String) (rid sens sdd sel : Option Bytes) : Py Bytes :=
  if brty ≠ "106A" then .error .unsupportedTarget
  else if rid.getD [] ≠ [] then .error .unsupportedTarget
  else match sens, sdd, sel with
    | some sens, some sdd, some sel =>
      if sens.length = 2 ∧ sdd.length = 4 ∧ sel.length = 1 ∧ sdd.head? = some 8 then .ok (nfcaParams sens sdd sel)
      else .error .value
    | _, _, _ => .error .value

/-- receive timeout of TgCommRF in ms: at most FFFFh -/
def clamp16 (ms : Int) : Int := if ms > 65535 then 65535 else ms

/-- SEL_RES bit 5 (20h): ISO/IEC 14443-4 -/
def selIsTt4 (sel : Bytes) : Py Bool := idxN sel 0 >>= fun b => .ok (decide (b &&& 0x20 = 0x20))

/-- first octet of the TgCommRF answer: 11 = 106A, 12 = 212F, 13 = 424F -/
def brtyIndex (data : Bytes) : Py Int := idxN data 0 >>= fun b => .ok ((b : Int) - 11)

/-- TgCommRF answer octet 2: both activation status bits set (SENS_RES and SEL_RES sent) -/
def activated (data : Bytes) : Py Bool := idxN data 2 >>= fun b => .ok (decide (b % 4 = 3))

/-- first Type 2 Tag command: received at 106A from an initiator that completed the activation -/
def lta2Accept (brty : String) (data : Bytes) : Py Bool :=
  if brty = "106A" then activated data else .ok false

/-- the frame behind the 7 status octets -/
def rxFrame (data : Bytes) : Bytes := data.drop 7

/-- RATS: 106A, activation status exactly 3, command code E0h -/
def lta4IsRats (brty : String) (data : Bytes) : Py Bool :=
  if brty = "106A" then
    idxN data 2 >>= fun s => if s = 3 then idxN data 7 >>= fun c => .ok (decide (c = 0xE0)) else .ok false
  else .ok false

/-- RATS command and the ATS to send -/
def lta4Rats (data : Bytes) (r : Option Bytes) : Bytes × Bytes := (rxFrame data, r.getD defaultRatsRes)

/-- a block behind RATS: 106A, not the NFC-DEP start byte F0h, RATS was answered -/
def lta4IsCmd (brty : String) (data : Bytes) (rats : Option Bytes) : Py Bool :=
  if brty = "106A" then idxN data 7 >>= fun c => .ok (decide (c ≠ 0xF0 ∧ rats.getD [] ≠ [])) else .ok false

/-- DID assigned by RATS: parameter octet bits 0..3 -/
def ratsDid (rats : Bytes) : Py Nat := idxN rats 1 >>= fun p => .ok (p % 16)
/-- DID supported: no TC(1) or TC(1) bit 1 (02h) -/
def didSupported (tc : Option Nat) : Bool := match tc with | none => true | some t => decide (t &&& 2 ≠ 0)
/-- PCB bit 3 (08h): DID follows -/
def withDid (cmd : Bytes) : Py Bool := idxN cmd 0 >>= fun p => .ok (decide (p &&& 8 ≠ 0))
/-- the block is for us: it names our DID (if we support DIDs), or it has none and our DID is 0 -/
def forUs (cmdWithDid didSupp : Bool) (cmd : Bytes) (did : Int) : Py Bool :=
  if cmdWithDid ∧ didSupp then idxN cmd 1 >>= fun d => .ok (decide ((d : Int) = did ∨ (did = 0 ∧ cmdWithDid = false)))
  else .ok (decide (did = 0 ∧ cmdWithDid = false))
/-- S(DESELECT) without / with DID -/
def isDeselect (cmd : Bytes) : Py Bool := idxN cmd 0 >>= fun p => .ok (decide (p = 0xC2 ∨ p = 0xCA))

/-! ## listen as Type F target -/

def ltfChecks (brty : String) (sensf : Option Bytes) : Py Unit :=
  if ¬ brtyF brty then .error .unsupportedTarget
  else match sensf with
    | some s => if s.length = 19 then .ok () else .error .value
    | none => .error .value

/-- one FeliCa frame behind the status octets: length octet = number of octets -/
def ltfLenOk (data : Bytes) : Py Bool :=
  if 7 < data.length then idxN data 7 >>= fun l => .ok (decide (data.length = l + 7)) else .ok false
/-- a polling command was answered before and the command carries our IDm (SENSF_RES octets 1..8) -/
def ltfForUs (sensfReq : Option Bytes) (data sensfRes : Bytes) : Bool :=
  decide (sensfReq.getD [] ≠ [] ∧ (data.drop 9).take 8 = (sensfRes.drop 1).take 8)
def tt3Cmd (data : Bytes) : Bytes := data.drop 8
/-- SENSF_REQ: `06 00 SC(2) RC TSN` -/
def ltfIsPolling (data : Bytes) : Py Bool :=
  if data.length = 13 then
    idxN data 7 >>= fun l => if l = 6 then idxN data 8 >>= fun c => .ok (decide (c = 0)) else .ok false
  else .ok false
/-- system code match, FFh is a wildcard for each octet -/
def scMatch (req res : Bytes) : Py Bool :=
  idxN req 1 >>= fun a =>
  (if a = 255 then .ok true else idxN res 17 >>= fun x => .ok (decide (a = x))) >>= fun m1 =>
  if m1 then
    idxN req 2 >>= fun b =>
    if b = 255 then .ok true else idxN res 18 >>= fun y => .ok (decide (b = y))
  else .ok false
/-- SENSF_RES frame: `LEN 01 IDm PMm [RD]`; RD = system code for RC 1, `00 <bit rate capability>` for RC 2
(capability 1 at 212F, 2 at 424F) -/
def sensfResFrame (req res : Bytes) (brty : String) : Py Bytes :=
  idxN req 3 >>= fun rc =>
  let body := res.take 17 ++ (if rc = 1 then (res.drop 17).take 2 else []) ++
    (if rc = 2 then [0, if brty = "424F" then 2 else 1] else [])
  FnPn53xRfRef.lenFrame body

/-! ## listen as DEP target -/

/-- argument checks of `listen_dep` and the activation parameters of TgCommRF (Type A: SENS_RES + NFCID1 octets 1..3 +
SEL_RES, Type F: SENSF_RES octets 1..18) -/
def ldepParams (sens sel sdd sensf atr : Bytes) : Py (Bytes × Bytes) :=
  if sens.length = 2 ∧ sel.length = 1 ∧ sdd.length = 4 ∧ 19 ≤ sensf.length ∧ 17 ≤ atr.length then
    .ok (nfcaParams sens sdd sel, (sensf.drop 1).take 18)
  else .error .value

/-- a Type A card command instead of NFC-DEP: 106A, more than one octet, no start byte F0h -/
def isTagCmd (brty : String) (data : Bytes) : Py Bool :=
  if brty = "106A" ∧ 1 < data.length then idxN data 0 >>= fun s => .ok (decide (s ≠ 0xF0)) else .ok false

/-- 106A frames have the start byte F0h in front of the length octet -/
def depOffset (brty : String) : Nat := if brty = "106A" then 1 else 0

/-- NFC-DEP frame check `[F0] LEN D4 CMD ..`: the frame behind the length octet when the start byte (106A), the
length octet, the command octet D4h and the command code (in `cmds`) are right, else nothing; a frame too short for
the checks reached is an IndexError that the driver turns into nothing -/
def verifyFrame (brty : String) (data : Bytes) (cmds : List Int) (off : Nat) : Py (Option Bytes) :=
  (if brty = "106A" then idxN data 0 >>= fun s => .ok (decide (s ≠ 0xF0)) else .ok false) >>= fun bad =>
  if bad then .ok none else
  idxN data off >>= fun l =>
  if l + off ≠ data.length then .ok none else
  idxN data (off + 1) >>= fun c =>
  if c ≠ 0xD4 then .ok none else
  idxN data (off + 2) >>= fun k =>
  .ok (if (k : Int) ∈ cmds then some (data.drop (off + 1)) else none)

/-- the frame to transmit: `[F0] LEN data` -/
def txFrame (brty : String) (data : Bytes) : Py Bytes :=
  FnPn53xRfRef.lenFrame data >>= fun f => .ok ((if brty = "106A" then [0xF0] else []) ++ f)

/-- ATR_REQ length 16..64 -/
def atrLenOk (atr : Bytes) : Bool := decide (16 ≤ atr.length ∧ atr.length ≤ 64)

/-- command code of a verified frame `D4 CMD ..` -/
def isAtrReq (f : Bytes) : Py Bool := if f = [] then .ok false else idxN f 1 >>= fun c => .ok (decide (c = 0))
def isDepCmd (f : Bytes) : Py Bool :=
  if f = [] then .ok false else idxN f 1 >>= fun c => .ok (decide (c = 4 ∨ c = 6 ∨ c = 8 ∨ c = 10))

/-- an octet that means `no DID` when 0 -/
def didOf (f : Bytes) (i : Nat) : Py (Option Int) :=
  idxN f i >>= fun d => .ok (if d > 0 then some (d : Int) else none)
/-- DID of a DEP_REQ `D4 06 PFB [DID] ..`: present when PFB bit 2 (04h) is set -/
def depDid (f : Bytes) : Py (Option Int) :=
  idxN f 2 >>= fun p => if p / 4 % 2 ≠ 0 then idxN f 3 >>= fun d => .ok (some (d : Int)) else .ok none
/-- DID of DSL_REQ / RLS_REQ `D4 08 [DID]` -/
def dslDid (f : Bytes) : Py (Option Int) :=
  if 2 < f.length then idxN f 2 >>= fun d => .ok (some (d : Int)) else .ok none

/-- PSL_REQ `D4 04 DID BRS FSL`: DSI (BRS bits 3..5) must equal DRI (bits 0..2); the new bit rate index -/
def pslDsi (f : Bytes) : Py Int :=
  idxN f 3 >>= fun b => if b / 8 % 8 ≠ b % 8 then .error .rcsComm else .ok ((b / 8 % 8 : Nat) : Int)
def dslRes (f : Bytes) : Bytes := 0xD5 :: 0x09 :: (f.drop 2).take 1
def rlsRes (f : Bytes) : Bytes := 0xD5 :: 0x0B :: (f.drop 2).take 1
def ldepSensfRes (nfcf : Bytes) : Bytes := 1 :: nfcf

/-! ## data exchange -/

/-- timeout of `send_cmd_recv_rsp` in ms: 0 for no / zero timeout, else 1..FFFFh -/
def timeoutMsec (given : Bool) (ms : Int) : Nat :=
  if given then (if ms < 1 then 1 else if ms > 65535 then 65535 else ms.toNat) else 0

/-- Type 2 Tag answers have their CRC checked by the driver: 106A and SEL_RES bits 5, 6 clear -/
def routeTt2 (brty : String) (sel : Bytes) : Py Bool :=
  if brty = "106A" ∧ sel ≠ [] then selIsTt2 sel else .ok false

/-- `_tt2_send_cmd_recv_rsp`: an answer of more than two octets must end in its CRC_A (`Model/Crc.lean`), which is
removed; a wrong CRC is a TransmissionError; one or two octets (ACK / NAK nibble) are returned as they are -/
def tt2Crc (d : List (BitVec 8)) : Py (List (BitVec 8)) :=
  if 2 < d.length then
    Crc.checkCrcA d >>= fun ok => if ok then .ok (d.take (d.length - 2)) else .error .transmission
  else .ok d

/-- receive timeout of `send_rsp_recv_cmd`: FFFFh (forever) for None, else the ms asked for -/
def tgtRecvTimeout (t : Option Int) (ms : Int) : Int := match t with | none => 65535 | some _ => ms

end NfcVerif.FnRcs380RfRef
