import NfcVerif.Py
import NfcVerif.Model.ErrMap
import NfcVerif.Model.FnPn53xRfRef
/-!
# Reference definitions for the UDP driver `nfc/clf/udp.py` (C13, C18, C19)

The UDP driver stands for a contactless chipset in the driver lists of C13 / C18: "the air" is a datagram
`<brty> <hex octets>` (or the bare `RFOFF`).  `Model/ErrMap.lean` has the exchange side (`udpParse`, `udpRecv`,
`udpExchange`); what `sense_*` / `listen_*` make of the datagrams had no model.  This file says what they should
compute, following the NFC Forum Digital wording (SENS_REQ `26`, SDD_REQ `9x 20`, SEL_REQ `9x 70`, cascade tag `88`,
cascade bit 04h of SEL_RES, SENSB_REQ `05 AFI PARAM`, SENSF_REQ `LEN 00 SC RC TSN`, ATR_REQ `D4 00`, the `F0` start
octet of NFC-DEP frames at 106 kbps, length octet = number of octets it counts including itself).

Where the PN53x drivers must agree with the UDP driver on what a discovered target carries, the definitions of
`Model/FnPn53xRfRef.lean` are reused (`ttaUid`, `ridCmd`, `ttfRes`, `defaultSensfReq`).

Octets are `Nat`s (`Bytes`); bit tests are written with `&&&` / `%` on naturals.
-/
namespace NfcVerif.FnUdpRef
open NfcVerif NfcVerif.ErrMap NfcVerif.HostFrame

/-! ## one datagram of `_recv_data` -/

/-- `data.split()` unpacked into two names: `ValueError` unless exactly two fields -/
def split2 (dg : Bytes) : Py (Bytes × Bytes) :=
  match splitWs dg with
  | [b, hex] => .ok (b, hex)
  | _ => .error .value

/-- the type token of a datagram (first field) -/
def tokOf (dg : Bytes) : Bytes := (splitWs dg).headD []

/-- a token as `str` -/
def strOf (b : Bytes) : String := String.ofList (b.map Char.ofNat)

/-- `brty.decode("ascii")` of the first field: `UnicodeDecodeError` (a `ValueError`) for an octet >= 80h -/
def decTok (dg : Bytes) : Py String :=
  if (tokOf dg).any (fun x => decide (x ≥ 128)) then .error .value else .ok (strOf (tokOf dg))

/-- `binascii.unhexlify`: `binascii.Error` (a `ValueError`) for an odd length / a non-hex digit -/
def unhexPy (h : Bytes) : Py Bytes :=
  match unhex h with
  | some d => .ok d
  | none => .error .value

/-- What one datagram becomes, over ANY behaviour of the three library calls (`split` = the two fields, `dec` = the
decoded type token, `unhex`): the field-off notification is recognised FIRST, whatever else the datagram holds;
every `ValueError` of the parsing is a `TransmissionError`; the octet counter grows by the payload length. -/
def datagramG (dg : Bytes) (rcvd : Int) (split : Py (Bytes × Bytes)) (dec : Py String) (unhex : Bytes → Py Bytes) :
    Py (String × Bytes × Int) :=
  if startsWith dg rfoff then .error .brokenLink else
  match (split >>= fun bh => dec >>= fun s => unhex bh.2 >>= fun d => (.ok (s, d) : Py (String × Bytes))) with
  | .error .value => .error .transmission
  | .error e => .error e
  | .ok (s, d) => .ok (s, d, rcvd + (d.length : Int))

/-- deadline of `_recv_data` (`None`: wait for ever) and the `select` timeout -/
def deadline (timeout : Option Int) (now : Int) : Option Int := timeout.map (now + ·)
def selectWait (timeout : Option Int) (ttr now : Int) : Option Int := timeout.map (fun _ => ttr - now)

/-! ## `_send_data` behind the formatting -/

/-- `sendto` accepted exactly the datagram: count it; anything else is a `TransmissionError` -/
def sendIo (d : Bytes) (sent : Int) (ret : Py Int) : Py Int :=
  ret >>= fun r => if r = (d.length : Int) then .ok (sent + (d.length : Int)) else .error .transmission

/-- what `socket.sendto` does, as `Wr` of `Model/ErrMap.lean` (`ok`: the length of the datagram) -/
def wrOut (d : Bytes) : Wr → Py Int
  | .ok => .ok (d.length : Int)
  | .raise e => .error (.io e)
  | .short => .ok ((d.length : Int) - 1)

/-- `_send_data` as a whole, for the exchange functions: the result of `sendto` judged by `sendIo` -/
def sendOut (w : Wr) : Py Int :=
  match w with
  | .ok => .ok 0
  | .raise e => .error (.io e)
  | .short => .error .transmission

/-- `bind` failed: address in use (EADDRINUSE = 98) -> `False` (give up listening), any other error is re-raised -/
def bindError (errno : Nat) : Py Bool := if errno = 98 then .ok false else .error (.io errno)

/-- `mute`: RFOFF is sent only from an initiator socket (port differs from the listen port) that received something -/
def muteSendsRfoff (port lport rcvd : Int) : Bool := decide (port ≠ lport ∧ rcvd ≠ 0)

/-! ## exchange -/

/-- `send_cmd_recv_rsp` / `send_rsp_recv_cmd`: send when there is data, receive when `wantRecv` -/
def exchangeG {α} (data : Option Bytes) (wantRecv : Bool) (send : Bytes → Py Int) (recv : Py (α × Bytes × α)) :
    Py (Option Bytes) :=
  (match data with | none => .ok () | some d => send d >>= fun _ => .ok ()) >>= fun _ =>
  if wantRecv then recv >>= fun r => .ok (some r.2.1) else .ok none

def maxData : Int := 290

/-! ## sense -/
def brtyOk (allowed : List String) (brty : String) : Py Unit :=
  if brty ∈ allowed then .ok () else .error .unsupportedTarget

/-- the request sent: the caller's, or the default -/
def reqOr (dflt : Bytes) (o : Option Bytes) : Bytes :=
  match o with
  | some (a :: l) => a :: l
  | _ => dflt

def sensReqDefault : Bytes := [0x26]
def sensbReqDefault : Bytes := [0x05, 0x00, 0x10]

/-- SENS_RES bits 0..4 (bit frame SDD) all zero: Type 1 Tag platform -/
def isTt1 (sens : Bytes) : Py Bool := idxN sens 0 >>= fun b => .ok (decide (b % 32 = 0))
/-- SENS_RES octet 2, low nibble 1100b: the Type 1 Tag answers RID -/
def hasRid (sens : Bytes) : Py Bool := idxN sens 1 >>= fun b => .ok (decide (b % 16 = 12))

/-- SEL_REQ for cascade level `cmd` from a given UID (with cascade tags): `cmd 70 uid[i..i+4] BCC` -/
def selReq (i cmd : Nat) (uid : Bytes) (bcc : Nat) : Py Bytes :=
  if cmd < 256 ∧ bcc < 256 then .ok ([cmd, 0x70] ++ sliceN uid i (i + 4) ++ [bcc]) else .error .value
def sddReq (cmd : Nat) : Py Bytes := if cmd < 256 then .ok [cmd, 0x20] else .error .value
/-- SEL_REQ echoing a received SDD_RES (4 UID octets + BCC) -/
def selReqEcho (cmd : Nat) (sdd : Bytes) : Py Bytes := if cmd < 256 then .ok (cmd :: 0x70 :: sdd) else .error .value

/-- cascade bit (04h) of SEL_RES -/
def cascadeBit (sel : Bytes) : Py Bool := idxN sel 0 >>= fun b => .ok (decide (b / 4 % 2 = 1))
def uidComplete (sel : Bytes) : Py Bool := idxN sel 0 >>= fun b => .ok (decide (b / 4 % 2 = 0))
/-- UID part of an SDD_RES: behind the cascade tag when more follows, else the four octets -/
def uidPart (uid sdd : Bytes) : Bytes := uid ++ (sdd.drop 1).take 3
def uidLast (uid sdd : Bytes) : Bytes := uid ++ sdd.take 4

/-- SENSB_RES: at least 12 octets, first 50h -/
def sensbResOk (r : Bytes) : Bool := decide (12 ≤ r.length ∧ r.head? = some 0x50)

/-- SENSF_REQ frame: length octet + the caller's request, default `06 00 FFFF 01 00` -/
def sensfReqFrame (r : Bytes) : Py Bytes :=
  if r = [] then .ok (6 :: FnPn53xRfRef.defaultSensfReq)
  else if r.length + 1 < 256 then .ok ((r.length + 1) :: r) else .error .value

/-- SENSF_RES frame: at least 18 octets, length octet right, response code 01 -/
def sensfResOk (d : Bytes) : Bool := decide (18 ≤ d.length ∧ d[0]? = some d.length ∧ d[1]? = some 1)

/-! ## listen as Type A target -/
/-- SEL_RES with the cascade bit cleared -/
def selRes0 (t : Bytes) : Py Bytes := idxN t 0 >>= fun b => .ok [b &&& 0xFB]
/-- SEL_RES sent for a cascade level: cascade bit set iff more UID octets follow (`sdd` = SDD_RES of all levels, 5
octets each) -/
def selResFor (sel sdd : Bytes) (n : Nat) : Py Nat :=
  idxN sel 0 >>= fun b => .ok ((b &&& 0xFB) ||| (if sdd.length > n then 4 else 0))

/-- first frame after selection is a well formed ATR_REQ: `F0 LEN D4 00 ..`, at least 16 octets -/
def isAtrA (d : Bytes) : Bool :=
  decide (d[0]? = some 0xF0 ∧ 18 ≤ d.length ∧ d[1]? = some (d.length - 1) ∧ (d.drop 2).take 2 = [0xD4, 0])
def firstIs (d : Bytes) (v : Nat) : Py Bool :=
  match d with
  | [] => .error .index
  | a :: _ => .ok (decide (a = v))

/-! ## listen as Type B / Type F target -/
def ltbCheck (r : Bytes) : Py Unit := if 12 ≤ r.length then .ok () else .error .assertion
def isSensbReq (d : Bytes) : Bool := decide (d.length = 3 ∧ d.head? = some 5)

/-- a Type F frame: the length octet counts the whole frame -/
def frameOk (d : Bytes) : Bool := decide (d.head? = some d.length)

/-- system code of the polling request matches ours (`FF` is a wildcard, per octet); `res` = SENSF_RES with
the system code in octets 17, 18 -/
def scMatch (req res : Bytes) : Py Bool :=
  idxN req 1 >>= fun a =>
  (if a = 255 then .ok true else idxN res 17 >>= fun x => .ok (decide (a = x))) >>= fun m1 =>
  if m1 = true then
    idxN req 2 >>= fun b => (if b = 255 then .ok true else idxN res 18 >>= fun y => .ok (decide (b = y)))
  else .ok false

/-- the SENSF_RES frame sent: 17 octets, + system code (RC 1) or + communication performance (RC 2) -/
def sensfResFrame (req res : Bytes) (is424 : Bool) : Py Bytes :=
  idxN req 3 >>= fun rc =>
  let body := res.take 17 ++ (if rc = 1 then (res.drop 17).take 2 else []) ++ (if rc = 2 then [0, if is424 then 2 else 1] else [])
  .ok ((body.length + 1) :: body)

def armed (req res : Option Bytes) : Bool := decide (req.getD [] ≠ [] ∧ res.getD [] ≠ [])
/-- a command addressed to our IDm (`res` octets 1..8) -/
def forUs (d res : Bytes) : Bool := decide ((d.drop 2).take 8 = (res.drop 1).take 8)
def atrForUs (d res : Bytes) : Bool := decide ((d.drop 1).take 10 = 0xD4 :: 0 :: (res.drop 1).take 8)

/-! ## listen as NFC-DEP target -/
def ldepChecks (sensf sens sdd sel atr : Bytes) : Py Unit :=
  if sensf.length = 19 ∧ sens.length = 2 ∧ sdd.length = 4 ∧ sel.length = 1 ∧ 17 ≤ atr.length ∧ atr.length ≤ 64
  then .ok () else .error .assertion

def ldepDeadline (timeout now : Int) : Int := now + timeout
def ldepMore (ttr now : Int) : Bool := decide (now < ttr)
def ldepWait (ttr now : Int) : Int := if ttr - now > 0 then ttr - now else 0

def isAtrF (d : Bytes) : Bool := decide (17 ≤ d.length ∧ (d.drop 1).take 2 = [0xD4, 0])
def isFFrame (f : Bool) (d : Bytes) : Py Bool := if f then firstIs d d.length else .ok false

/-- length octet in front (counts itself) -/
def lenFrame (x : Bytes) : Py Bytes := if x.length + 1 < 256 then .ok ((x.length + 1) :: x) else .error .value

/-- a received NFC-DEP frame without `F0` (106A only) and length octet; anything malformed is an AssertionError
(`return None` in the source), an empty frame an IndexError -/
def unframe (a106 : Bool) (d : Bytes) : Py Bytes :=
  (if a106 then
    match d with
    | [] => .error .index
    | x :: r => if x = 0xF0 then .ok r else .error .assertion
   else .ok d) >>= fun d2 =>
  match d2 with
  | [] => .error .index
  | n :: r => if d2.length = n then .ok r else .error .assertion

def hasCode (d : Bytes) (c : Nat) : Bool := List.isPrefixOf [0xD4, c] d
/-- response `D5 code DID?` to a request `D4 .. DID?` -/
def resOf (code : Nat) (req : Bytes) : Bytes := [0xD5, code] ++ (req.drop 2).take 1
/-- DSI of PSL_REQ: index into (106A, 212F, 424F) -/
def pslBrty (req : Bytes) : Py Nat := idxN req 3 >>= fun b => .ok (b / 8 % 8)

end NfcVerif.FnUdpRef
