import NfcVerif.Py
/-!
# TLV machinery of the Type 1 / Type 2 Tag NDEF reader and writer

Executable transcription of `nfc/tag/tt2.py` (`read_tlv`, `get_lock_byte_range`,
`get_rsvd_byte_range`, `get_capacity`, `Type2Tag.NDEF._read_ndef_data`,
`_write_ndef_data`, `Type2TagMemoryReader._write_to_tag`, `Type2Tag._format`) and of the
same functions of `nfc/tag/tt1.py`, parametrised by `Cfg`.  The generic setter
`Tag.NDEF.octets` of `nfc/tag/__init__.py` is `setOctets`.

The tag is plain memory: an image `m : Bytes` (the whole physical memory).  The memory
reader cache of nfcpy holds a prefix of that image; every byte the code modifies has been
read before, so the units that `synchronize()` finds different are the units in which the
whole images differ (`diffUnits`).

Modelling notes
* `skip_bytes` (a Python `set` of addresses) is a list of half-open ranges; membership is
  `inSkip`.
* `read_tlv` reads T, L and V at once and the caller dispatches on T afterwards.  Reads have
  no effect other than a possible failure that is propagated unchanged (Type 2: every failure
  ends in `return None`), so the model inspects T first and reads L/V of the NDEF TLV after the
  walk has stopped at it (`walkPre` then `readNdef`).
* F1 (empty message -> `UnboundLocalError`) and F3 (`_format` terminator) are modelled
  and F2 (torn 3-byte length field, `phase3a`) are modelled as REPAIRED (fixes/C01, fixes/C03,
  fixes/C02); `writeCmdsAsFound` keeps the as-found length write for documentation.
-/
namespace NfcVerif.Tlv

structure Cfg where
  /-- Type 1 reader/writer (true) or Type 2 (false) -/
  t1 : Bool
  /-- address of the capability container -/
  ccBase : Nat
  /-- first byte of the TLV area -/
  dataStart : Nat
  /-- write unit of `synchronize()`: 4 (Type 2 page), 8 (Type 1 block), 1 (Type 1 byte) -/
  unit : Nat
  deriving Repr, DecidableEq

def t2Cfg : Cfg := ⟨false, 12, 16, 4⟩
/-- Type 1: static memory is written byte-wise (`hr0 & 15 = 1`), dynamic in 8-byte blocks -/
def t1Cfg (unit : Nat) : Cfg := ⟨true, 8, 12, unit⟩

/-- what a failed tag read raises: `Type2TagCommandError(INVALID_PAGE_ERROR)` after a NAK,
`Type1TagCommandError(TIMEOUT_ERROR)` when a Type 1 Tag stays mute -/
def Cfg.rdErr (c : Cfg) : Exc := if c.t1 then .tagCmd 0 else .tagCmd 2
/-- `slice.indices(n)` bound used for the reserved ranges -/
def Cfg.limit (c : Cfg) : Nat := if c.t1 then 0x800 else 0x100000
/-- `tag_memory[14] * 8 + 16` / `(tag_memory[10] + 1) * 8` -/
def Cfg.areaEnd (c : Cfg) (sz : Nat) : Nat := if c.t1 then (sz + 1) * 8 else sz * 8 + 16

/-! ## skip set -/
abbrev Skip := List (Nat × Nat)

def inSkip (s : Skip) (a : Nat) : Bool := s.any fun r => decide (r.1 ≤ a) && decide (a < r.2)

def skipMax : Skip → Nat
  | [] => 0
  | r :: rs => max r.2 (skipMax rs)

/-- `while a in skip_bytes: a += 1` with fuel -/
def nf (s : Skip) : Nat → Nat → Nat
  | 0, a => a
  | fuel+1, a => if inSkip s a then nf s fuel (a+1) else a

/-- first address `≥ a` that is not in the skip set -/
def nextFree (s : Skip) (a : Nat) : Nat := nf s (skipMax s - a) a

def Cfg.initSkip (c : Cfg) (areaEnd : Nat) : Skip :=
  if c.t1 then [(104, if areaEnd = 120 then 120 else 128)] else []

/-- number of addresses in `[a, a+n)` outside the skip set -/
def cfree (s : Skip) : Nat → Nat → Nat
  | _, 0 => 0
  | a, n+1 => (if inSkip s a then 0 else 1) + cfree s (a+1) n

/-- `len(set(range(a, b)) - skip_bytes)` -/
def countFree (s : Skip) (a b : Nat) : Nat := cfree s a (b - a)

/-- `get_capacity` -/
def capacity (s : Skip) (off areaEnd : Nat) : Int :=
  let n := countFree s off areaEnd
  if n > 256 then (n : Int) - 4 else (n : Int) - 2

/-! ## memory access -/
abbrev Rd := Nat → Py Nat

def rd (c : Cfg) (m : Bytes) : Rd := fun a =>
  match m[a]? with
  | some b => .ok b
  | none => .error c.rdErr

/-- reads restricted to addresses below `B` (used to state that the TLV structure in front of
the NDEF TLV does not depend on bytes a write may change) -/
def rdB (c : Cfg) (B : Nat) (m : Bytes) : Rd := fun a =>
  if a < B then rd c m a else .error c.rdErr

/-- `tag_memory[a] = v`: the item is fetched first (may hit the end of memory) -/
def wr (c : Cfg) (m : Bytes) (a v : Nat) : Py Bytes :=
  if a < m.length then .ok (m.set a v) else .error c.rdErr

/-! ## reader -/

/-- length field at `a`: value and the address that follows the field -/
def readLen (r : Rd) (a : Nat) : Py (Nat × Nat) :=
  r a >>= fun l =>
  if l = 255 then r (a+1) >>= fun hi => r (a+2) >>= fun lo => .ok (hi * 256 + lo, a + 3)
  else .ok (l, a + 1)

/-- value bytes: `for i in range(n): while offset+i in skip: offset += 1; v[i] = mem[offset+i]` -/
def fetch (r : Rd) (s : Skip) : Nat → Nat → Py Bytes
  | 0, _ => .ok []
  | n+1, a => r (nextFree s a) >>= fun x => fetch r s n (nextFree s a + 1) >>= fun xs => .ok (x :: xs)

/-- `get_lock_byte_range` / `get_rsvd_byte_range` followed by `range(*x.indices(limit))` -/
def ctlRange (lock : Bool) (limit : Nat) (v : Bytes) : Py (Nat × Nat) :=
  idxN v 0 >>= fun d0 => idxN v 1 >>= fun d1 => idxN v 2 >>= fun d2 =>
  let n := if d1 > 0 then d1 else 256
  let size := if lock then (n + 7) / 8 else n
  let start := (d0 / 16) * 2 ^ (d2 % 16) + d0 % 16
  .ok (min start limit, min (start + size) limit)

inductive Pre
  /-- NDEF TLV found at `off` -/
  | found (off : Nat) (skip : Skip)
  /-- terminator TLV, end of the data area or (Type 1) unreadable memory reached -/
  | absent (off : Nat) (skip : Skip)
  deriving Repr, DecidableEq

/-- the `while offset < end` loop up to the NDEF TLV -/
def walkPre (c : Cfg) (r : Rd) (areaEnd : Nat) : Nat → Nat → Skip → Py Pre
  | 0, _, _ => .error .outOfFuel
  | fuel+1, off, skip =>
    if areaEnd ≤ off then .ok (.absent off skip)
    else if c.t1 && inSkip skip off then walkPre c r areaEnd fuel (off + 1) skip
    else
      let o := if c.t1 then off else nextFree skip off
      match r o with
      | .error e => if c.t1 then .ok (.absent o skip) else .error e
      | .ok t =>
        if t = 0 then walkPre c r areaEnd fuel (o + 1) skip
        else if t = 0xFE then .ok (.absent o skip)
        else if t = 3 then .ok (.found o skip)
        else
          readLen r (o + 1) >>= fun lv =>
          fetch r skip lv.1 lv.2 >>= fun v =>
          let next := o + lv.1 + 1 + (if lv.1 < 255 then 1 else 3)
          if t = 1 ∨ t = 2 then
            if c.t1 ∨ lv.1 = 3 then
              ctlRange (t = 1) c.limit v >>= fun rg => walkPre c r areaEnd fuel next (skip ++ [rg])
            else walkPre c r areaEnd fuel next skip
          else walkPre c r areaEnd fuel next skip

structure Layout where
  off : Nat
  skip : Skip
  areaEnd : Nat
  cap : Int
  readable : Bool
  writeable : Bool
  ndef : Bytes
  deriving Repr, DecidableEq

/-- `_read_ndef_data` without the Type 2 catch-all -/
def readNdefRaw (c : Cfg) (m : Bytes) : Py (Option Layout) :=
  rd c m c.ccBase >>= fun magic =>
  if magic ≠ 0xE1 then .ok none else
  rd c m (c.ccBase + 1) >>= fun ver =>
  if ver / 16 ≠ 1 then .ok none else
  rd c m (c.ccBase + 3) >>= fun acc =>
  rd c m (c.ccBase + 2) >>= fun sz =>
  let e := c.areaEnd sz
  walkPre c (rd c m) e (e + 1) c.dataStart (c.initSkip e) >>= fun p =>
  match p with
  | .absent _ _ => .ok none
  | .found off skip =>
    readLen (rd c m) (off + 1) >>= fun lv =>
    fetch (rd c m) skip lv.1 lv.2 >>= fun v =>
    .ok (some { off := off, skip := skip, areaEnd := e, cap := capacity skip off e,
                readable := acc / 16 = 0, writeable := acc % 16 = 0, ndef := v })

/-- Type 2: `except Type2TagCommandError: return None` around every read -/
def readNdef (c : Cfg) (m : Bytes) : Py (Option Layout) :=
  match readNdefRaw c m with
  | .error (.tagCmd n) => if c.t1 then .error (.tagCmd n) else .ok none
  | x => x

/-! ## well-formed images (hypothesis of the theorems; decidable, evaluated by the driver) -/

/-- `m` is a well-formed tag image whose NDEF TLV is described by `L`:
* the capability container lies in front of the TLV area, the write unit is not 0;
* the data area lies inside the physical memory;
* the walk over the TLVs in front of the NDEF TLV reaches it reading only addresses up to
  the NDEF TLV's tag byte (no reserved range displaces a control TLV's bytes behind it);
* the byte after the tag byte (the length byte) is not reserved. -/
def WF (c : Cfg) (m : Bytes) (L : Layout) : Prop :=
  c.ccBase + 4 ≤ c.dataStart ∧ 0 < c.unit ∧ c.dataStart ≤ L.off ∧ L.areaEnd ≤ m.length ∧
  walkPre c (rdB c (L.off + 1) m) L.areaEnd (L.areaEnd + 1) c.dataStart (c.initSkip L.areaEnd)
    = .ok (.found L.off L.skip) ∧
  inSkip L.skip (L.off + 1) = false

instance (c : Cfg) (m : Bytes) (L : Layout) : Decidable (WF c m L) := by unfold WF; infer_instance

/-- a message of `n ≥ 255` bytes needs the 3-byte length field: its two extra bytes must not be reserved -/
def Hdr3 (L : Layout) (n : Nat) : Prop :=
  255 ≤ n → inSkip L.skip (L.off + 2) = false ∧ inSkip L.skip (L.off + 3) = false

instance (L : Layout) (n : Nat) : Decidable (Hdr3 L n) := by unfold Hdr3; infer_instance

/-! ## writer -/

/-- the data copy loop; returns the image and the address after the last byte -/
def place (c : Cfg) (s : Skip) : Bytes → Nat → Bytes → Py (Bytes × Nat)
  | m, a, [] => .ok (m, a)
  | m, a, d :: ds => wr c m (nextFree s a) d >>= fun m' => place c s m' (nextFree s a + 1) ds

def hdrLen (n : Nat) : Nat := if n < 255 then 2 else 4

/-- phase 1: `tag_memory[offset+1] = 0` -/
def phase1 (c : Cfg) (m : Bytes) (off : Nat) : Py Bytes := wr c m (off + 1) 0

/-- phase 2: message bytes, then a terminator TLV at the next free byte if inside the area -/
def phase2 (c : Cfg) (m1 : Bytes) (off : Nat) (skip : Skip) (areaEnd : Nat) (data : Bytes) : Py Bytes :=
  place c skip m1 (off + hdrLen data.length) data >>= fun pe =>
  if nextFree skip pe.2 < areaEnd then wr c pe.1 (nextFree skip pe.2) 0xFE else .ok pe.1

/-- phase 3, preparation (repair of F2): when the 3-byte length field `FF hi lo` spans more than
one write unit, the bytes `hi`/`lo` that lie in a later unit than `FF` are written first, while
the first length byte is still `00`:
* `FF | hi lo` (hi and lo together in the next unit): both are set to `00`, so that the field
  reads as length 0 when `FF` arrives (the unit with `hi lo` follows it - this keeps the
  command order of the as-found code);
* otherwise (`FF hi | lo`, or three units when bytes are written one by one): they get their
  final value, and the unit with `FF` completes the field in one command.
Nothing changes when the field lies inside one unit or the 1-byte format is used. -/
def phase3a (c : Cfg) (m2 : Bytes) (off : Nat) (n : Nat) : Py Bytes :=
  if n < 255 then .ok m2
  else if (off + 1) / c.unit ≠ (off + 2) / c.unit ∧ (off + 2) / c.unit = (off + 3) / c.unit then
    wr c m2 (off + 2) 0 >>= fun x => wr c x (off + 3) 0
  else
    (if (off + 2) / c.unit ≠ (off + 1) / c.unit then wr c m2 (off + 2) (n / 256) else .ok m2) >>= fun x =>
    (if (off + 3) / c.unit ≠ (off + 1) / c.unit then wr c x (off + 3) (n % 256) else .ok x)

/-- phase 3: the length field (`FF hi lo` for 255 and more) -/
def phase3 (c : Cfg) (m3a : Bytes) (off : Nat) (n : Nat) : Py Bytes :=
  if n < 255 then wr c m3a (off + 1) n
  else wr c m3a (off + 1) 0xFF >>= fun x => wr c x (off + 2) (n / 256) >>= fun y => wr c y (off + 3) (n % 256)

structure Phases where
  m1 : Bytes
  m2 : Bytes
  m3a : Bytes
  m3 : Bytes
  deriving Repr, DecidableEq

/-- the successive memory images of `_write_ndef_data` (one per `synchronize()`) -/
def writeNdef (c : Cfg) (m : Bytes) (L : Layout) (data : Bytes) : Py Phases :=
  phase1 c m L.off >>= fun m1 =>
  phase2 c m1 L.off L.skip L.areaEnd data >>= fun m2 =>
  phase3a c m2 L.off data.length >>= fun m3a =>
  phase3 c m3a L.off data.length >>= fun m3 =>
  .ok ⟨m1, m2, m3a, m3⟩

/-! ## write-back -/

/-- a write command: byte address of the unit and the unit's new content -/
abbrev Cmd := Nat × Bytes

/-- `_write_to_tag`: units whose cached content differs, in ascending order -/
def diffUnits (u : Nat) (old new : Bytes) : List Cmd :=
  (List.range ((old.length + u - 1) / u)).filterMap fun i =>
    if sliceN old (i * u) (i * u + u) ≠ sliceN new (i * u) (i * u + u)
    then some (i * u, sliceN new (i * u) (i * u + u)) else none

/-- the tag stores the bytes of a command at consecutive addresses -/
def writeAt : Bytes → Nat → Bytes → Bytes
  | m, _, [] => m
  | m, a, d :: ds => writeAt (m.set a d) (a + 1) ds

def apply (m : Bytes) (cmds : List Cmd) : Bytes := cmds.foldl (fun img c => writeAt img c.1 c.2) m

/-- result of `tag.ndef.octets = data`: the commands that reached the tag and the outcome -/
structure WriteOut where
  cmds : List Cmd
  res : Py Unit
  deriving Repr, DecidableEq

/-- `_write_ndef_data` with its `synchronize()` calls -/
def writeCmds (c : Cfg) (m : Bytes) (L : Layout) (data : Bytes) : WriteOut :=
  match phase1 c m L.off with
  | .error e => ⟨[], .error e⟩
  | .ok m1 =>
    let c1 := diffUnits c.unit m m1
    match phase2 c m1 L.off L.skip L.areaEnd data with
    | .error e => ⟨c1, .error e⟩
    | .ok m2 =>
      let c2 := diffUnits c.unit m1 m2
      match phase3a c m2 L.off data.length with
      | .error e => ⟨c1 ++ c2, .error e⟩
      | .ok m3a =>
        let c3a := diffUnits c.unit m2 m3a
        match phase3 c m3a L.off data.length with
        | .error e => ⟨c1 ++ c2 ++ c3a, .error e⟩
        | .ok m3 => ⟨c1 ++ c2 ++ c3a ++ diffUnits c.unit m3a m3, .ok ()⟩

/-- the code AS FOUND before the repair of F2: the length field `FF hi lo` written in one
`synchronize()` without preparation (kept to document the torn state, `Props/C02`) -/
def writeCmdsAsFound (c : Cfg) (m : Bytes) (L : Layout) (data : Bytes) : WriteOut :=
  match phase1 c m L.off with
  | .error e => ⟨[], .error e⟩
  | .ok m1 =>
    match phase2 c m1 L.off L.skip L.areaEnd data with
    | .error e => ⟨diffUnits c.unit m m1, .error e⟩
    | .ok m2 =>
      match phase3 c m2 L.off data.length with
      | .error e => ⟨diffUnits c.unit m m1 ++ diffUnits c.unit m1 m2, .error e⟩
      | .ok m3 => ⟨diffUnits c.unit m m1 ++ diffUnits c.unit m1 m2 ++ diffUnits c.unit m2 m3, .ok ()⟩

/-- `Tag.NDEF.octets` setter on an NDEF object whose state is `L` -/
def setOctets (c : Cfg) (m : Bytes) (L : Layout) (data : Bytes) : WriteOut :=
  if ¬ L.writeable then ⟨[], .error .attr⟩
  else if (data.length : Int) > L.cap then ⟨[], .error .value⟩
  else writeCmds c m L data

/-! ## the write-back cache after a failed write, and a retry on the same NDEF object

The memory reader holds two images: `_data_in_cache` (what the code wants on the tag) and
`_data_from_tag` (what it believes to be on the tag).  `_write_to_tag` sends a unit and only
THEN copies it into `_data_from_tag`, so when a command is lost (exception) the belief is the
image of the commands that were acknowledged - the real tag content (`syncLost_coherent`).  A
later `_write_ndef_data` on the same object therefore runs with tag image `T` and cache `C`. -/

/-- `_write_to_tag` over the units `is` when the command with number `j` (0-based) is lost:
returns (belief `_data_from_tag`, real tag content) -/
def syncLost (u : Nat) (cache : Bytes) : List Nat → Nat → Bytes × Bytes → Bytes × Bytes
  | [], _, st => st
  | i :: is, j, (belief, tag) =>
    if sliceN cache (i * u) (i * u + u) ≠ sliceN belief (i * u) (i * u + u) then
      match j with
      | 0 => (belief, tag)      -- the command is lost: exception, nothing is recorded
      | j + 1 => syncLost u cache is j
          (writeAt belief (i * u) (sliceN cache (i * u) (i * u + u)), writeAt tag (i * u) (sliceN cache (i * u) (i * u + u)))
    else syncLost u cache is j (belief, tag)

/-- `_write_ndef_data` on an NDEF object whose memory reader believes the tag holds `T` and whose
cache holds `C` (a fresh object: `T = C = m`) -/
def writeCmdsFrom (c : Cfg) (T C : Bytes) (L : Layout) (data : Bytes) : WriteOut :=
  match phase1 c C L.off with
  | .error e => ⟨[], .error e⟩
  | .ok m1 =>
    let c1 := diffUnits c.unit T m1
    match phase2 c m1 L.off L.skip L.areaEnd data with
    | .error e => ⟨c1, .error e⟩
    | .ok m2 =>
      let c2 := diffUnits c.unit m1 m2
      match phase3a c m2 L.off data.length with
      | .error e => ⟨c1 ++ c2, .error e⟩
      | .ok m3a =>
        let c3a := diffUnits c.unit m2 m3a
        match phase3 c m3a L.off data.length with
        | .error e => ⟨c1 ++ c2 ++ c3a, .error e⟩
        | .ok m3 => ⟨c1 ++ c2 ++ c3a ++ diffUnits c.unit m3a m3, .ok ()⟩

/-- tag content and cache content after command number `k` (0-based) of the write of `data`
was lost; `none` when the write has no such command (or fails otherwise) -/
def failedWrite (c : Cfg) (m : Bytes) (L : Layout) (data : Bytes) (k : Nat) : Option (Bytes × Bytes) :=
  match writeNdef c m L data with
  | .error _ => none
  | .ok ph =>
    let c1 := diffUnits c.unit m ph.m1
    let c2 := diffUnits c.unit ph.m1 ph.m2
    let c3a := diffUnits c.unit ph.m2 ph.m3a
    let c3 := diffUnits c.unit ph.m3a ph.m3
    let all := c1 ++ c2 ++ c3a ++ c3
    if k < c1.length then some (apply m (all.take k), ph.m1)
    else if k < c1.length + c2.length then some (apply m (all.take k), ph.m2)
    else if k < c1.length + c2.length + c3a.length then some (apply m (all.take k), ph.m3a)
    else if k < all.length then some (apply m (all.take k), ph.m3)
    else none

/-! ## Type 2 `_format` (repaired: terminator placed like the writer does) -/

/-- `for offset in range(a, end): if offset not in skip: memory[offset] = wipe & 0xFF` -/
def wipeLoop (c : Cfg) (s : Skip) (v : Nat) : Nat → Nat → Bytes → Py Bytes
  | 0, _, m => .ok m
  | n+1, a, m => if inSkip s a then wipeLoop c s v n (a + 1) m
                 else wr c m a v >>= fun m' => wipeLoop c s v n (a + 1) m'

def formatT2 (m : Bytes) (L : Layout) (wipe : Option Nat) : Py Bytes :=
  wr t2Cfg m (L.off + 1) 0 >>= fun m1 =>
  let t := nextFree L.skip (L.off + 2)
  (if t < L.areaEnd then wr t2Cfg m1 t 0xFE else .ok m1) >>= fun m2 =>
  match wipe with
  | none => .ok m2
  | some w => wipeLoop t2Cfg L.skip (w % 256) (L.areaEnd - (t + 1)) (t + 1) m2

end NfcVerif.Tlv
