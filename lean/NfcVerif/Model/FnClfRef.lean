import NfcVerif.Model.Connect
/-!
# Reference definitions for `nfc/clf/__init__.py` decisions without a model counterpart (group Clf)

`Model/Sense.lean` / `Model/Connect.lean` take ABSTRACT descriptions of what `sense()` / `listen()` are asked for
(`TgtSpec`, `LtSpec`), run on an open device and take the NFC-DEP options of the peer-to-peer activation as given
(`Model/Activate.lean`: `DepOpts`).  Here is what the frontend computes in front of that, spec-style, from the
documentation of `ContactlessFrontend` (docstrings of `connect`, `sense`, `listen`) and the properties C18 / C19:

* the abstraction of a `RemoteTarget` / `LocalTarget` argument to `TgtSpec` / `LtSpec`;
* "IOError(ENODEV) when a local contactless communication device has not been opened";
* the default 'on-discover' of the rdwr option: "returns True only if the target does not indicate peer to peer
  protocol support" (SEL_RES bit 6, NFCID2 starting with 01FEh);
* the pass-through of the NFC-DEP options (`brs`, `acm`, `rwt`, `lrt`, `lri`) of the llcp option dictionary to
  `llc.activate` - what C19 quantifies over ("option pass-through from connect()");
* the roles `_llcp_connect` tries for a 'role' option.
-/
namespace NfcVerif.FnClfRef
open NfcVerif NfcVerif.Clf

/-! ## arguments of `sense()` / `listen()` -/

/-- `s.endswith(t)` on `str` -/
def endsWith (s t : String) : Bool := t.toList.isSuffixOf s.toList

/-- what the inner loop of `sense()` reads of a `RemoteTarget`: `atr_req` (None or octets), `sel_req` (None = empty)
and `brty` (e.g. "106A": the last letter is the technology) -/
structure RT where
  atr : Option Bytes
  sel : Bytes
  brty : String
  deriving DecidableEq, Repr, Inhabited

/-- the model's description of a target: an `atr_req` wins over the technology letter, then A, B, F in this order -/
def RT.spec (t : RT) : TgtSpec :=
  match t.atr with
  | some a => .dep a.length
  | none =>
    if endsWith t.brty "A" then .a t.sel.length
    else if endsWith t.brty "B" then .b
    else if endsWith t.brty "F" then .f
    else .unknown

/-- `LocalTarget.brty`: one bitrate/type string, or "send/recv" when the two directions differ -/
def localBrty (send recv : String) : String := if send = recv then send else send ++ "/" ++ recv

/-- an argument of `sense()`: `none` = not a `RemoteTarget` at all -/
def argSpec : Option RT → TgtSpec
  | some t => t.spec
  | none => .notTarget

/-- the model's description of the `LocalTarget` given to `listen()`: `atr_res` set -> DEP, else by `brty` -/
def ltOf (atrRes : Option Bytes) (brty : String) : LtSpec :=
  match atrRes with
  | some _ => .dep
  | none =>
    if brty = "106A" ∨ brty = "212A" ∨ brty = "424A" then .a
    else if brty = "106B" ∨ brty = "212B" ∨ brty = "424B" ∨ brty = "848B" then .b
    else if brty = "212F" ∨ brty = "424F" then .f
    else .other

/-! ## the device must be open -/

def ENODEV : Nat := 19

/-- `if self.device is None: raise IOError(errno.ENODEV, ..)` at the head of connect / sense / listen / exchange -/
def requireDevice (device : Option Int) : Py Unit :=
  match device with
  | none => .error (.io ENODEV)
  | some _ => .ok ()

/-! ## default on-discover of the rdwr option -/

/-- the target indicates peer-to-peer protocol support: bit 6 of SEL_RES, or an NFCID2 (octets 1-2 of SENSF_RES)
that starts with 01FEh -/
def p2pCapable (selRes sensfRes : Bytes) : Bool :=
  (match selRes with | [] => false | b :: _ => decide (b / 64 % 2 = 1)) || decide ((sensfRes.drop 1).take 2 = [1, 254])

/-- with an llcp option beside it the reader/writer must leave peer-to-peer capable targets alone -/
def defaultDiscoverRef (selRes sensfRes : Bytes) : Bool := !p2pCapable selRes sensfRes

/-! ## NFC-DEP options of the llcp option dictionary (C19) -/

/-- the keys of the llcp option dictionary that configure NFC-DEP (documented under "Peer To Peer Options") -/
def depKeys : List String := ["brs", "acm", "rwt", "lrt", "lri"]

/-- `dep_cfg = {k: options[k] for k in dep_cfg if k in options}`: every NFC-DEP option that is PRESENT is
forwarded with its value - in particular `brs = 0`, `lri = 0`, `acm = False` (values that are false in Python) -/
def depCfg (options : String → Option Int) : List (String × Int) :=
  depKeys.filterMap (fun k => (options k).map (fun v => (k, v)))

/-! ## roles of `_llcp_connect` -/

/-- the roles tried for a 'role' option, as `initiator` flags in the order they are tried: both (Target first),
only the named one, none for an unknown name -/
def rolesTried : RoleOpt → List Bool
  | .both => [false, true]
  | .target => [false]
  | .initiator => [true]
  | .invalid => []

/-- the 'role' option as `_llcp_connect` reads it: is it None, and its value -/
def roleNone : RoleOpt → Bool
  | .both => true
  | _ => false

def roleName : RoleOpt → String
  | .both => ""
  | .target => "target"
  | .initiator => "initiator"
  | .invalid => "reader"

end NfcVerif.FnClfRef
