import NfcVerif.Py
/-!
# Reference definitions for the Type 1 / Type 2 Tag operations (group T12Ops)

Spec-style definitions of what `Type2Tag.sector_select`, the page write path of the Type 2 memory reader and the
write-back step of both memory readers have to do, written from the NFC Forum Type 2 Tag Operation
specification (SECTOR SELECT is acknowledged *passively*: the tag answers packet 1 with ACK, and after packet 2
it switches the sector and stays silent for 1 ms - any answer means the sector does not exist) and from the
property texts (C03: a write reaches the page it was meant for; C16: a persisting communication error ends in an
exception, never in a silently wrong state).

`Props/FnBridgeT12Ops.lean` proves the regenerated source slices equal to these definitions and connects them
with the models (the bridge to `Model/SectC03.lean` is suspended while that model moves to an optional belief).
-/
namespace NfcVerif.T12OpsRef

/-! ## SECTOR SELECT -/

/-- `Type2Tag.sector_select(sector)` on a tag object whose `_current_sector` is `cur`: `some c` = sector `c` is
believed selected, `none` = unknown (Python `None`, fixes/C16/0007).
`p1` is the outcome of `transceive(C2 FF)` (three attempts), `p2` the outcome of
`transceive(sector 00 00 00, timeout=0.001, retries=0)`; `p2` is only looked at when packet 1 was acknowledged.
Result: the value returned (`self._current_sector`) / exception raised, and `_current_sector` afterwards.

* nothing is sent when the sector is the believed one (never when the belief is `none`);
* an error of packet 1 - also a timeout - is raised, the belief is unchanged;
* packet 1 not answered by the ACK `0A`: INVALID_SECTOR_ERROR (1), unchanged;
* packet 2 timed out (`TIMEOUT_ERROR`, 0): that IS the acknowledgement, the new sector is recorded;
* packet 2 ended with another `Type2TagCommandError` (garbled acknowledge): raised, the belief becomes `none` -
  the tag may or may not have switched;
* packet 2 answered: INVALID_SECTOR_ERROR, unchanged; any other exception passes the handler, unchanged. -/
def sectorSelect (cur : Option Int) (sector : Int) (p1 p2 : Py Bytes) : Py (Option Int) × Option Int :=
  if cur = some sector then (.ok cur, cur) else
  match p1 with
  | .error e => (.error e, cur)
  | .ok rsp =>
    if rsp = [0x0A] then
      match p2 with
      | .error (.tagCmd code) =>
        if code = 0 then (.ok (some sector), some sector) else (.error (.tagCmd code), none)
      | .error e => (.error e, cur)
      | .ok _ => (.error (.tagCmd 1), cur)
    else (.error (.tagCmd 1), cur)

/-- the tag side, as far as the reader can know it: the tag leaves its sector exactly when packet 1 was
acknowledged and packet 2 was followed by silence (a faithful passive acknowledgement) -/
def tagSectorAfter (real : Int) (cur : Option Int) (sector : Int) (p1 p2 : Py Bytes) : Int :=
  if cur ≠ some sector ∧ p1 = .ok [0x0A] ∧ p2 = .error (.tagCmd 0) then sector else real

/-- the invariant of C03 / C16: the tag object either does not claim to know the sector, or it knows the right one -/
def BeliefOk (belief : Option Int) (real : Int) : Prop := belief = none ∨ belief = some real

/-- **after every return or raise of `sector_select` the belief is `none` or the sector the tag is in**, given
that held before and the passive acknowledgement is faithful -/
theorem sectorSelect_belief (cur : Option Int) (sector real : Int) (p1 p2 : Py Bytes) (h0 : BeliefOk cur real) :
    BeliefOk (sectorSelect cur sector p1 p2).2 (tagSectorAfter real cur sector p1 p2) := by
  unfold sectorSelect tagSectorAfter BeliefOk at *
  by_cases hs : cur = some sector
  · rcases h0 with h0 | h0
    · rw [h0] at hs; cases hs
    · simp [hs]; rw [h0] at hs; cases hs; rfl
  · simp only [hs, if_false, ne_eq, not_false_eq_true, true_and]
    match p1 with
    | .error e => simpa using h0
    | .ok rsp =>
      by_cases hr : rsp = [0x0A]
      · subst hr
        match p2 with
        | .ok _ => simpa using h0
        | .error e =>
          cases e with
          | tagCmd code =>
            by_cases hc : code = 0
            · simp [hc]
            · simp [hc]
          | _ => simpa using h0
      · have : ¬ (Except.ok rsp : Py Bytes) = Except.ok [0x0A] := by
          intro h; cases h; exact hr rfl
        simpa [hr, this] using h0

/-- a call that returns normally returns the belief, and that is the requested sector -/
theorem sectorSelect_ok (cur : Option Int) (sector : Int) (v : Option Int) (p1 p2 : Py Bytes)
    (h : (sectorSelect cur sector p1 p2).1 = .ok v) :
    v = some sector ∧ (sectorSelect cur sector p1 p2).2 = some sector := by
  unfold sectorSelect at h ⊢
  by_cases hs : cur = some sector
  · simp [hs] at h ⊢; exact h.symm
  · simp only [hs, if_false] at h ⊢
    match p1 with
    | .error e => simp at h
    | .ok rsp =>
      by_cases hr : rsp = [0x0A]
      · simp only [hr, if_true] at h ⊢
        match p2 with
        | .ok _ => simp at h
        | .error e =>
          cases e with
          | tagCmd code =>
            by_cases hc : code = 0
            · simp [hc] at h ⊢; exact h.symm
            · simp [hc] at h
          | _ => simp at h
      · simp [hr] at h

/-- a timeout of packet 1 is never taken for the passive acknowledgement (seeded regression C16-r5m3) -/
theorem sectorSelect_p1_timeout (cur : Option Int) (sector : Int) (p2 : Py Bytes) (h : cur ≠ some sector) :
    sectorSelect cur sector (.error (.tagCmd 0)) p2 = (.error (.tagCmd 0), cur) := by
  simp [sectorSelect, h]

/-- a garbled acknowledge (non-timeout error at packet 2) is raised and leaves the belief `none`
(fixes/C16/0007; seeded regression C03-r5m1 recorded the new sector here) -/
theorem sectorSelect_p2_garbled (cur : Option Int) (sector code : Int) (h : cur ≠ some sector) (hc : code ≠ 0) :
    sectorSelect cur sector (.ok [0x0A]) (.error (.tagCmd code)) = (.error (.tagCmd code), none) := by
  simp [sectorSelect, h, hc]

/-- with an unknown sector the next call always sends packet 1 (its error is what the caller sees) -/
theorem sectorSelect_unknown_sends (sector : Int) (e : Exc) (p2 : Py Bytes) :
    sectorSelect none sector (.error e) p2 = (.error e, none) := by
  simp [sectorSelect]

/-! ## READ answered by a NAK: the tag is activated again -/

/-- the sector a Type 2 Tag has selected after it was activated again (`clf.sense`): sector 0 -/
def reactivatedSector : Int := 0

/-- NAK branch of `Type2Tag.read`: after the re-activation the tag object records sector 0, then raises
INVALID_PAGE_ERROR (2) when the tag answered the activation, RECEIVE_ERROR (-1) when it is gone.
Result: the exception and `_current_sector` afterwards. -/
def readNak (alive : Bool) : Py Unit × Int :=
  (.error (.tagCmd (if alive then 2 else -1)), 0)

/-- **after the NAK branch the believed sector is the sector a re-activated tag is in**, whatever was believed
before (repair of finding `t2-sector-stale-after-reactivation`, fixes/C03/0003) -/
theorem reactivation_resets_belief (alive : Bool) : (readNak alive).2 = reactivatedSector := rfl

/-- the branch always ends in a `Type2TagCommandError` -/
theorem readNak_raises (alive : Bool) : ∃ c, (readNak alive).1 = .error (.tagCmd c) := ⟨_, rfl⟩

/-- the next `sector_select(s)` for a sector other than 0 therefore sends packet 1 again -/
theorem readNak_then_select (alive : Bool) (s : Int) (hs : s ≠ 0) (e : Exc) (p2 : Py Bytes) :
    sectorSelect (some (readNak alive).2) s (.error e) p2 = (.error e, some 0) := by
  have : ¬ ((0 : Int) = s) := fun h => hs h.symm
  simp [sectorSelect, readNak, this]

/-! ## page addressing: a linear page number lands in sector `page / 256` at page `page % 256` -/

/-- byte address of the first octet of linear page `page` -/
def pageAddr (page : Nat) : Nat := (page / 256) * 1024 + (page % 256) * 4

theorem pageAddr_eq (page : Nat) : pageAddr page = page * 4 := by unfold pageAddr; omega

/-- the memory reader selects `index >> 10` and addresses `index >> 2`; the frame carries `% 256` -/
theorem index_page_sector (index : Nat) :
    (index / 4) / 256 = index / 1024 ∧ pageAddr (index / 4) = index / 4 * 4 := by
  refine ⟨by omega, pageAddr_eq _⟩

/-! ## one write-back step of a memory reader -/

/-- `sel; unconfirmed.add(i); write; unconfirmed.discard(i)`: the unit is marked before the write command and
released only after the command succeeded - a write command that raised leaves the mark (the page is written
again by the next `synchronize()`, C01 / C03 retry). `marks` is the mark set; result: outcome and the marks. -/
def writeStep (i : Int) (marks : List Int) (sel : Py Unit) (wr : Py Unit) : Py Unit × List Int :=
  match sel with
  | .error e => (.error e, marks)
  | .ok _ =>
    match wr with
    | .error e => (.error e, if i ∈ marks then marks else i :: marks)
    | .ok _ => (.ok (), marks.filter (· ≠ i))

theorem writeStep_failed_marked (i : Int) (marks : List Int) (wr : Py Unit) (e : Exc) (h : wr = .error e) :
    i ∈ (writeStep i marks (.ok ()) wr).2 := by
  subst h; unfold writeStep; by_cases hm : i ∈ marks <;> simp [hm]

theorem writeStep_ok_released (i : Int) (marks : List Int) :
    i ∉ (writeStep i marks (.ok ()) (.ok ())).2 := by
  simp [writeStep]

/-- lock bytes for `bits` lock bits: `ceil(bits / 8)`, `0` meaning 256 bits -/
def lockBytes (bitsOctet : Nat) : Nat := ((if bitsOctet > 0 then bitsOctet else 256) + 7) / 8

theorem lockBytes_covers (b : Nat) : (if b > 0 then b else 256) ≤ 8 * lockBytes b ∧ lockBytes b ≤ 32 ∨ b > 255 := by
  unfold lockBytes
  by_cases h : b > 255
  · exact Or.inr h
  · left; split <;> omega

end NfcVerif.T12OpsRef
