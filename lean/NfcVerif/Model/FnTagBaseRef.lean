import NfcVerif.Py
/-!
# Reference semantics of the tag base classes (`nfc/tag/__init__.py`), group TagBase of the function translator

What `nfc.tag.Tag` and `nfc.tag.Tag.NDEF` should do according to their documentation and to the properties
C01 (a write is rejected BEFORE any command when it can not succeed, otherwise it is always performed),
C03 / C20 (after a successful `format()` / `protect()` / `authenticate()` the next `tag.ndef` reads the tag
again), C08 / C16 (`tag.ndef`, `has_changed`, `is_present` as operations of a session).

The state of a tag object, as far as these methods are concerned, is its NDEF cache `Tag._ndef`: `none`, or
`some x` where `x` is what the cached `Tag.NDEF` object holds (`α`: the message octets for `Model/AuthNdef.lean`
`TagCache`, the message with the file attributes for `Model/AdvOps.lean`).  Everything tag type specific is a
parameter: what `_read_ndef_data()` gives should it be called (`read`), what `_write_ndef_data(data)` does
(`write`), the outcome of `_format` / `_protect` / `_authenticate` (`priv`).  The existing models of the same
code are `TagCache.cstep` (Model/AuthNdef.lean), `Adv.step` / `Adv.readStep` (Model/AdvOps.lean),
`Retry.stepOp` (Model/Retry.lean), `Tlv.setOctets` / `T3.setOctets` / `T4.setOctets`;
`Lemmas/FnBridgeTagBase.lean` proves that they agree with this file.
-/
namespace NfcVerif.TagBaseRef
open NfcVerif

/-! ## `Tag.NDEF` -/

/-- `Tag.NDEF.length`: number of octets of the message read or written last, 0 before anything was read -/
def length : Option Bytes → Int
  | none => 0
  | some d => d.length

/-- `ndef.octets = data`: `AttributeError` when the NDEF area is not writeable, `ValueError` when the data do not
fit - both before anything is sent - otherwise the type specific write, whose failure is the failure of the
assignment; the result is the new `_data` -/
def setOctets (writeable : Bool) (capacity : Int) (data : Bytes) (write : Bytes → Py Unit) : Py Bytes :=
  if writeable = false then .error .attr
  else if (data.length : Int) > capacity then .error .value
  else write data >>= fun _ => .ok data

/-- `ndef.has_changed` on an NDEF object that holds `old`: the tag is read; the answer is whether the data
differ; the second component is the NDEF cache of the tag afterwards (the object with the new data, or nothing
when no NDEF data were found) -/
def hasChanged {α} [DecidableEq α] (old : Option α) (read : Py (Option α)) : Py (Bool × Option α) :=
  read >>= fun nd => .ok (decide (old ≠ nd), nd)

/-! ## `Tag`: the NDEF cache -/

/-- `tag.ndef`: the cached object, or - when nothing is cached - a new `NDEF` object that is kept iff its first
`has_changed` (a read of the tag) found data.  Result: the value handed out (= the cache afterwards) and whether
the tag was read. -/
def ndefAccess {α} (cache : Option α) (read : Py (Option α)) : Py (Option α) × Bool :=
  match cache with
  | some x => (.ok (some x), false)
  | none => (read, true)

/-- the cache after `tag.ndef` (an exception of the read leaves it empty) -/
def ndefCache {α} (cache : Option α) (read : Py (Option α)) : Option α :=
  match cache with
  | some x => some x
  | none => match read with | .ok r => r | .error _ => none

/-- `Tag.format` / `Tag.protect` / `Tag.authenticate`: the value of the private method is handed on; the NDEF
cache is dropped when (and only when) that value is `True` -/
def wrapper {α} (cache : Option α) (priv : Py (Option Bool)) : Py (Option Bool) × Option α :=
  (priv, if priv = .ok (some true) then none else cache)

/-- `Tag.is_present` -/
def isPresent (present : Py Bool) : Py Bool := present

/-- the operations of a session on one tag object; every operation carries what the tag type specific code
does should it be called now -/
inductive Op (α : Type) where
  | ndef (read : Py (Option α))
  | changed (read : Py (Option α))
  | format (priv : Py (Option Bool))
  | protect (priv : Py (Option Bool))
  | authenticate (priv : Py (Option Bool))

/-- the NDEF cache after one operation -/
def step {α} [DecidableEq α] (cache : Option α) : Op α → Option α
  | .ndef read => ndefCache cache read
  | .changed read =>
    match cache with
    | none => none
    | some x => match hasChanged (some x) read with | .ok r => r.2 | .error _ => some x
  | .format priv | .protect priv | .authenticate priv => (wrapper cache priv).2

/-- does the operation read the tag? -/
def reads {α} (cache : Option α) : Op α → Bool
  | .ndef _ => cache.isNone
  | .changed _ => cache.isSome
  | _ => false

/-! ## `nfc.tag.activate`: which tag type is tried -/

/-- the technology letter of `target.brty` and the discovery responses the dispatch looks at -/
structure Target where
  /-- last character of `brty` ("106A" -> 'A') -/
  tech : Char
  sensRes : Option Bytes
  selRes : Bytes
  sensbRes : Option Bytes
  sensfRes : Option Bytes

/-- NFC Forum Digital: SENS_RES byte 2 (index 1) low nibble 1100b = Type 1 Tag platform; SEL_RES bits 6..7
(b7 b6 of the octet, `>> 5 & 3`) 00b = Type 2 Tag platform, bit 6 (`>> 5 & 1`) = ISO-DEP (Type 4A); NFC-B: Type 4B;
NFC-F: Type 3.  `none`: not a tag.  An `IndexError` on a truncated response is propagated. -/
def tagType (t : Target) : Py (Option Nat) :=
  if t.tech = 'A' then
    match t.sensRes with
    | none => .ok none
    | some sens =>
      idxN sens 1 >>= fun s1 =>
      if s1 % 16 = 12 then .ok (some 1) else
      idxN t.selRes 0 >>= fun sel =>
      if sel / 32 % 4 = 0 then .ok (some 2)
      else if sel / 32 % 2 = 1 then .ok (some 4)
      else .ok none
  else if t.tech = 'B' then .ok (t.sensbRes.map fun _ => 4)
  else if t.tech = 'F' then .ok (t.sensfRes.map fun _ => 3)
  else .ok none

end NfcVerif.TagBaseRef
