import NfcVerif.Py
/-!
# Reference definitions for the command framing of Type 1 / Type 2 / Type 3 tags

Spec-style definitions of what the command builders and response checks of `nfc/tag/tt1.py`,
`nfc/tag/tt2.py`, `nfc/tag/tt3.py` have to compute, written from the tag specifications (NFC Forum
Type 1/2/3 Tag Operation, Topaz / NTAG / FeliCa manuals), where the property models inline the
octets (`Model/AdvT12.lean`: `stageA`, `stageB`, `segLoop`, `read2`, `sectorSelect`) or are abstract
(`Model/Retry.lean`: command tokens).  `Props/FnBridgeTagCmd.lean` proves the regenerated source
functions equal to these and `Lemmas/FnBridgeTagCmd.lean` connects them with the model functions.

Facts proved here are the property-relevant ones: command lengths, address octets inside the
addressable range (C16: a command that is retried is the same frame; C01-C03: the address octet of a
write names the unit the model writes), response data of the exact size.
-/
namespace NfcVerif.TagCmdRef

def zeros8 : Bytes := [0, 0, 0, 0, 0, 0, 0, 0]

/-! ## Type 1 Tag (`opcode ADD DAT UID-echo`, static commands 7 octets, dynamic ones 14) -/

/-- RID -/
def t1Rid : Bytes := [0x78, 0, 0, 0, 0, 0, 0]

/-- RALL -/
def t1Rall (uid : Bytes) : Bytes := [0x00, 0, 0] ++ uid

/-- READ: byte address `block << 3 | byte` of the static memory, 0..127 -/
def t1Read (addr : Int) (uid : Bytes) : Py Bytes :=
  if addr < 0 ∨ addr > 127 then .error .value else .ok ([0x01, addr.toNat, 0] ++ uid)

/-- WRITE-E (53h, erase first) / WRITE-NE (1Ah) -/
def t1Write (addr data : Int) (erase : Bool) (uid : Bytes) : Py Bytes :=
  if addr < 0 ∨ addr ≥ 128 then .error .value
  else if data < 0 ∨ data > 255 then .error .value
  else .ok ([if erase then 0x53 else 0x1A, addr.toNat, data.toNat] ++ uid)

/-- READ8: block number 0..255 -/
def t1Read8 (block : Int) (uid : Bytes) : Py Bytes :=
  if block < 0 ∨ block > 255 then .error .value else .ok ([0x02, block.toNat] ++ zeros8 ++ uid)

/-- RSEG: segment 0..15 in the upper nibble of ADDS -/
def t1Rseg (segment : Int) (uid : Bytes) : Py Bytes :=
  if segment < 0 ∨ segment > 15 then .error .value else .ok ([0x10, segment.toNat * 16] ++ zeros8 ++ uid)

/-- WRITE-E8 (54h) / WRITE-NE8 (1Bh) -/
def t1Write8 (block : Int) (data : Bytes) (erase : Bool) (uid : Bytes) : Py Bytes :=
  if block < 0 ∨ block > 255 then .error .value
  else .ok ([if erase then 0x54 else 0x1B, block.toNat] ++ data ++ uid)

/-- READ8 answer `ADD8 D0..D7`: the eight data octets, RESPONSE_ERROR (2) when the answer is short -/
def t1Read8Rsp (rsp : Bytes) : Py Bytes :=
  if rsp.length < 9 then .error (.tagCmd 2) else .ok ((rsp.drop 1).take 8)

/-- RSEG answer `ADDS D0..D127` -/
def t1RsegRsp (rsp : Bytes) : Py Bytes :=
  if rsp.length < 129 then .error (.tagCmd 2) else .ok ((rsp.drop 1).take 128)

/-- WRITE-E8 answer: the tag echoes the block content; WRITE_ERROR (3) when it differs after an erasing write -/
def t1Write8Rsp (rsp data : Bytes) (erase : Bool) : Py Unit :=
  if rsp.length < 9 then .error (.tagCmd 2)
  else if erase ∧ (rsp.drop 1).take 8 ≠ data then .error (.tagCmd 3)
  else .ok ()

theorem t1Rall_length (uid : Bytes) : (t1Rall uid).length = 3 + uid.length := by
  simp [t1Rall]; omega

theorem t1Read_spec (addr : Int) (uid cmd : Bytes) (h : t1Read addr uid = .ok cmd) :
    cmd.length = 3 + uid.length ∧ ∃ a : Nat, a < 128 ∧ (a : Int) = addr ∧ cmd = [0x01, a, 0] ++ uid := by
  unfold t1Read at h
  split at h
  · cases h
  · cases h
    refine ⟨by simp; omega, addr.toNat, by omega, by omega, rfl⟩

theorem t1Write_spec (addr data : Int) (erase : Bool) (uid cmd : Bytes) (h : t1Write addr data erase uid = .ok cmd) :
    cmd.length = 3 + uid.length ∧ ∃ a d : Nat, a < 128 ∧ d < 256 ∧ (a : Int) = addr ∧ (d : Int) = data ∧
      cmd = [if erase then 0x53 else 0x1A, a, d] ++ uid := by
  unfold t1Write at h
  split at h
  · cases h
  · split at h
    · cases h
    · cases h
      refine ⟨by simp; omega, addr.toNat, data.toNat, by omega, by omega, by omega, by omega, rfl⟩

theorem t1Read8_spec (block : Int) (uid cmd : Bytes) (h : t1Read8 block uid = .ok cmd) :
    cmd.length = 10 + uid.length ∧ ∃ b : Nat, b < 256 ∧ (b : Int) = block ∧ cmd = [0x02, b] ++ zeros8 ++ uid := by
  unfold t1Read8 at h
  split at h
  · cases h
  · cases h
    refine ⟨by simp [zeros8]; omega, block.toNat, by omega, by omega, rfl⟩

/-- the ADDS octet of RSEG is a valid octet whose lower nibble is zero -/
theorem t1Rseg_spec (segment : Int) (uid cmd : Bytes) (h : t1Rseg segment uid = .ok cmd) :
    cmd.length = 10 + uid.length ∧ ∃ s : Nat, s < 16 ∧ (s : Int) = segment ∧ cmd = [0x10, s * 16] ++ zeros8 ++ uid
      ∧ s * 16 < 256 := by
  unfold t1Rseg at h
  split at h
  · cases h
  · cases h
    refine ⟨by simp [zeros8]; omega, segment.toNat, by omega, by omega, rfl, by omega⟩

theorem t1Write8_spec (block : Int) (data : Bytes) (erase : Bool) (uid cmd : Bytes)
    (h : t1Write8 block data erase uid = .ok cmd) :
    cmd.length = 2 + data.length + uid.length ∧ ∃ b : Nat, b < 256 ∧ (b : Int) = block ∧
      cmd = [if erase then 0x54 else 0x1B, b] ++ data ++ uid := by
  unfold t1Write8 at h
  split at h
  · cases h
  · cases h
    refine ⟨by simp; omega, block.toNat, by omega, by omega, rfl⟩

theorem t1Read8Rsp_length (rsp d : Bytes) (h : t1Read8Rsp rsp = .ok d) : d.length = 8 := by
  unfold t1Read8Rsp at h
  split at h
  · cases h
  · cases h; simp; omega

theorem t1RsegRsp_length (rsp d : Bytes) (h : t1RsegRsp rsp = .ok d) : d.length = 128 := by
  unfold t1RsegRsp at h
  split at h
  · cases h
  · cases h; simp; omega

/-! ## Type 2 Tag -/

/-- READ (30h): page number modulo 256 inside the selected sector -/
def t2ReadCmd (page : Int) : Bytes := [0x30, (page % 256).toNat]

/-- a 4 bit NAK answer to READ: one octet with only bits 0 and 2 possibly set besides ... `rsp & FAh = 0` -/
def t2IsNak (rsp : Bytes) : Bool :=
  match rsp with
  | [b] => b &&& 0xFA == 0
  | _ => false

/-- READ answer: sixteen octets (four pages), INVALID_RESPONSE_ERROR (3) otherwise -/
def t2ReadRsp (data : Bytes) : Py Bytes := if data.length ≠ 16 then .error (.tagCmd 3) else .ok data

/-- WRITE (A2h): exactly one page of four octets -/
def t2WriteCmd (page : Int) (data : Bytes) : Py Bytes :=
  if data.length ≠ 4 then .error .value else .ok ([0xA2, (page % 256).toNat] ++ data)

/-- WRITE answer: the 4 bit ACK `Ah`; another single octet is a NAK (INVALID_PAGE_ERROR, 2), anything else
INVALID_RESPONSE_ERROR (3) -/
def t2WriteRsp (rsp : Bytes) : Py Bool :=
  match rsp with
  | [b] => if b ≠ 0x0A then .error (.tagCmd 2) else .ok true
  | _ => .error (.tagCmd 3)

/-- SECTOR SELECT packet 2: sector number and three RFU octets -/
def t2SectorSelect2 (sector : Int) : Py Bytes :=
  if sector < 0 ∨ sector > 255 then .error .struct else .ok [sector.toNat, 0, 0, 0]

/-- byte address -> sector (1 kB) and page (4 octets) -/
def t2Sector (index : Nat) : Nat := index / 1024
def t2Page (index : Nat) : Nat := index / 4

theorem t2ReadCmd_spec (page : Int) : ∃ p : Nat, p < 256 ∧ t2ReadCmd page = [0x30, p] :=
  ⟨(page % 256).toNat, by omega, rfl⟩

theorem t2ReadRsp_length (d r : Bytes) (h : t2ReadRsp d = .ok r) : r.length = 16 ∧ r = d := by
  unfold t2ReadRsp at h
  split at h
  · cases h
  · cases h; exact ⟨by omega, rfl⟩

theorem t2WriteCmd_spec (page : Int) (data cmd : Bytes) (h : t2WriteCmd page data = .ok cmd) :
    cmd.length = 6 ∧ ∃ p : Nat, p < 256 ∧ cmd = [0xA2, p] ++ data := by
  unfold t2WriteCmd at h
  split at h
  · cases h
  · cases h
    refine ⟨by simp; omega, (page % 256).toNat, by omega, rfl⟩

/-- the page octet of READ/WRITE addresses the same page inside the sector as the byte address:
`(index >> 2) % 256 = (index % 1024) / 4` -/
theorem t2_page_in_sector (index : Nat) : t2Page index % 256 = (index % 1024) / 4 := by
  unfold t2Page; omega

theorem t2WriteRsp_ok (rsp : Bytes) : t2WriteRsp rsp = .ok true ↔ rsp = [0x0A] := by
  unfold t2WriteRsp
  constructor
  · intro h
    split at h
    · rename_i b
      split at h
      · cases h
      · rename_i hb; simp at hb; rw [hb]
    · cases h
  · intro h; subst h; simp

/-! ## Type 3 Tag -/

/-- little-endian service code: 10 bit service number, 6 bit attribute -/
def t3ServiceCode (number attr : Nat) : Bytes :=
  let v := (number % 1024) * 64 + attr % 64
  [v % 256, v / 256]

theorem t3ServiceCode_isBytes (n a : Nat) : IsBytes (t3ServiceCode n a) := by
  unfold t3ServiceCode IsBytes
  intro b hb
  simp at hb
  rcases hb with h | h <;> omega

/-- block list element: 2 octets (`80h | access << 4 | service`, number) for a block number below 256,
else 3 octets (number little-endian) -/
def t3BlockCode (number access service : Nat) : Py Bytes :=
  let b0 := (access % 8) * 16 + service % 16
  if number < 256 then .ok [0x80 + b0, number]
  else if number < 65536 then .ok [b0, number % 256, number / 256]
  else .error .struct

theorem t3BlockCode_length (n a s : Nat) (b : Bytes) (h : t3BlockCode n a s = .ok b) :
    b.length = (if n < 256 then 2 else 3) ∧ IsBytes b := by
  unfold t3BlockCode at h
  by_cases h1 : n < 256
  · simp [h1] at h; subst h; simp [h1, IsBytes]; omega
  · by_cases h2 : n < 65536
    · simp [h1, h2] at h; subst h; simp [h1, IsBytes]; omega
    · simp [h1, h2] at h

/-- polling command data: system code, request code 0..2, time slot number 0/1/3/7/15 -/
def t3PollingCmd (sys rc tsn : Int) : Py Bytes :=
  if ¬ (tsn = 0 ∨ tsn = 1 ∨ tsn = 3 ∨ tsn = 7 ∨ tsn = 15) then .error .value
  else if ¬ (rc = 0 ∨ rc = 1 ∨ rc = 2) then .error .value
  else if sys < 0 ∨ sys > 65535 then .error .struct
  else .ok [sys.toNat / 256, sys.toNat % 256, rc.toNat, tsn.toNat]

/-- polling answer after the frame checks: IDm + PMm, plus two octets of request data when asked for;
DATA_SIZE_ERROR (4) otherwise -/
def t3PollingLen (rc : Int) (d : Bytes) : Py Unit :=
  if (d.length : Int) ≠ (if rc = 0 then 16 else 18) then .error (.tagCmd 4) else .ok ()

theorem t3PollingCmd_spec (sys rc tsn : Int) (d : Bytes) (h : t3PollingCmd sys rc tsn = .ok d) :
    d.length = 4 ∧ IsBytes d := by
  unfold t3PollingCmd at h
  split at h
  · cases h
  · split at h
    · cases h
    · split at h
      · cases h
      · cases h
        refine ⟨rfl, ?_⟩
        intro b hb
        simp at hb
        omega


/-! ## second batch: write units, header flags, Type 3 response checks -/

/-- HR0 = 1xh and not 11h: a dynamic memory tag, written in 8-byte blocks (WRITE-E8); otherwise byte-wise -/
def t1Dynamic (hr0 : Nat) : Bool := hr0 / 16 = 1 ∧ hr0 % 16 ≠ 1
def t1Unit (hr0 : Nat) : Nat := if t1Dynamic hr0 then 8 else 1

theorem t1Unit_pos (hr0 : Nat) : 0 < t1Unit hr0 := by unfold t1Unit; split <;> omega
theorem t1Unit_topaz : t1Unit 0x11 = 1 ∧ t1Unit 0x12 = 8 := by decide

/-- the ACK of SECTOR SELECT packet 1 -/
def t2SectorAck (rsp : Bytes) : Bool := rsp = [0x0A]

/-- first byte address that `_read_from_tag` fetches: the cache is filled in units of 16 octets (one READ) -/
def t2ReadStart (n : Nat) : Nat := n / 16 * 16

theorem t2ReadStart_spec (n : Nat) : t2ReadStart n ≤ n ∧ n < t2ReadStart n + 16 ∧ t2ReadStart n % 16 = 0 := by
  unfold t2ReadStart; omega

/-- the checks of `Type3Tag.send_cmd_recv_rsp` on the frame that arrived:
`LEN code+1 [IDm(8) [S1 S2]] data`; RSP_LENGTH_ERROR (1), RSP_CODE_ERROR (2), TAG_IDM_ERROR (3), status flags
S1 S2 as error number when S1 is not zero -/
def t3CheckRsp (code : Nat) (sendIdm checkStatus : Bool) (idm rsp : Bytes) : Py Bytes :=
  let minLen := if ¬ sendIdm then 2 else if checkStatus then 12 else 10
  if rsp.length < minLen ∨ (rsp[0]?).getD 0 ≠ rsp.length then .error (.tagCmd 1)
  else if (rsp[1]?).getD 0 ≠ code + 1 then .error (.tagCmd 2)
  else if sendIdm ∧ (rsp.drop 2).take 8 ≠ idm then .error (.tagCmd 3)
  else if ¬ sendIdm then .ok (rsp.drop 2)
  else if checkStatus ∧ (rsp[10]?).getD 0 ≠ 0 then
    .error (.tagCmd (((rsp[10]?).getD 0 * 256 + (rsp[11]?).getD 0 : Nat) : Int))
  else if ¬ checkStatus then .ok (rsp.drop 10)
  else .ok (rsp.drop 12)

/-- whatever arrives, the reader answers with a command error or hands out a suffix of the frame -/
theorem t3CheckRsp_spec (code : Nat) (sendIdm checkStatus : Bool) (idm rsp : Bytes) :
    (∀ e, t3CheckRsp code sendIdm checkStatus idm rsp = .error e → ∃ n, e = .tagCmd n) ∧
    (∀ d, t3CheckRsp code sendIdm checkStatus idm rsp = .ok d → ∃ k, d = rsp.drop k) := by
  unfold t3CheckRsp
  simp only
  repeat' split
  all_goals first
    | exact ⟨fun e h => (by cases h; exact ⟨_, rfl⟩), fun d h => (by cases h)⟩
    | exact ⟨fun e h => (by cases h), fun d h => (by cases h; exact ⟨_, rfl⟩)⟩

/-- `read_without_encryption` after the frame checks: one octet (number of blocks) and 16 octets per block -/
def t3ReadRsp (nblocks : Nat) (d : Bytes) : Py Bytes :=
  if d.length ≠ 1 + nblocks * 16 then .error (.tagCmd 4) else .ok (d.drop 1)

theorem t3ReadRsp_length (n : Nat) (d r : Bytes) (h : t3ReadRsp n d = .ok r) : r.length = n * 16 := by
  unfold t3ReadRsp at h
  split at h
  · cases h
  · cases h; simp; omega

/-- a count octet of the service / block list: at most 255 entries -/
def t3Count (n : Nat) : Py Bytes := if n > 255 then .error .value else .ok [n]

/-- the parts of a polling answer: IDm, PMm and, for an 18 octet answer, the request data -/
def t3PollingParts (d : Bytes) : List Bytes :=
  if d.length = 16 then [d.take 8, (d.drop 8).take 8] else [d.take 8, (d.drop 8).take 8, (d.drop 16).take 2]


end NfcVerif.TagCmdRef
