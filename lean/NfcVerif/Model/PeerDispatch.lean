import NfcVerif.Model.Pdu
/-!
# Property C07, part 3: what the link loop does with a received PDU

Transcription of `LogicalLinkController.dispatch` (`llcp/llc.py`),
`ServiceAccessPoint.enqueue`, `ServiceDiscovery.enqueue` and the `enqueue`
methods of `RawAccessPoint`, `LogicalDataLink`, `DataLinkConnection`
(`llcp/tco.py`) for every socket kind in every state: the *reaction* to a PDU
(queued for the application, answered with DM or FRMR, state change, discarded)
and, explicitly, whether the calling thread - the link loop - would wait on a
condition variable.  `DataLinkConnection.close()` in state ESTABLISHED queues a
DISC and waits for the DM that only the link loop itself could deliver: a
function that reaches it on the link loop returns `none` (= blocked for ever).

Flags: `f39` repaired = fixes/C09/0001 (non connection-mode PDU on an established data link
connection: shut down without the DISC handshake), `cc` repaired = fixes/C07/0008 (only the first
CC/DM is queued for a connecting socket).
-/
namespace NfcVerif.Peer
open NfcVerif.Pdu

inductive Kind | raw | ldl | dlc deriving DecidableEq, Repr
inductive St | shutdown | closed | listen | connect | established | disconnect | closeWait
  deriving DecidableEq, Repr

structure Sock where
  kind : Kind
  st : St
  addr : Nat
  peer : Option Nat
  bound : Bool           -- `is_bound` (false after `sap.shutdown()`)
  rq : Nat               -- len(recv_queue)
  rbuf : Nat             -- recv_buf
  rmiu : Nat             -- recv_miu
  vs : Nat
  vsa : Nat
  vr : Nat
  vra : Nat
  sq : List SPdu         -- send_queue
  deriving DecidableEq, Repr

structure Fix where
  f39 : Bool
  cc : Bool
  deriving DecidableEq, Repr

def Fix.repaired : Fix := ⟨true, true⟩
def Fix.asFound : Fix := ⟨false, false⟩

/-- `rcvd_pdu.name in DataLinkConnection.DLC_PDU_NAMES` -/
def isDlcPdu : SPdu → Bool
  | .connect .. | .disc .. | .cc .. | .dm .. | .frmr .. | .info .. | .rr .. | .rnr .. => true
  | _ => false

/-- `FrameReject.from_pdu(pdu, flags, dlc)`; flags W=8 I=4 R=2 S=1 -/
def frmrOf (p : SPdu) (flags : Nat) (s : Sock) : SPdu :=
  let (ns, nr) := match p with
    | .info _ _ ns nr _ => (ns, nr)
    | .rr _ _ nr => (0, nr)
    | .rnr _ _ nr => (0, nr)
    | _ => (0, 0)
  .frmr p.ssap p.dsap flags p.ptype ns nr s.vs s.vr s.vsa s.vra

/-- `TransmissionControlObject.enqueue`: room in the receive queue? -/
def baseEnqueue (s : Sock) : Sock := if s.rq < s.rbuf then { s with rq := s.rq + 1 } else s

/-- `TransmissionControlObject.close()` -/
def baseClose (s : Sock) : Sock := { s with sq := [], rq := 0, st := .shutdown }

/-- `DataLinkConnection.close()` called on the link loop; `none` = waits for ever -/
def dlcClose (s : Sock) : Option Sock :=
  if s.st = .established ∧ s.bound then none       -- DISC queued, `recv()` waits for a DM
  else some (baseClose s)

/-- `DataLinkConnection._enqueue_state_established` -/
def enqueueEstablished (s : Sock) (p : SPdu) : Option Sock :=
  match p with
  | .info _ _ ns nr data =>
    if data.length > s.rmiu then some { s with sq := [frmrOf p 4 s] }
    else if ns ≠ s.vr then some { s with sq := [frmrOf p 1 s] }
    else
      let s1 := { s with vsa := if (nr + 16 - s.vsa) % 16 ≠ 0 then nr else s.vsa, vr := (s.vr + 1) % 16 }
      some (baseEnqueue s1)
  | .frmr .. => dlcClose { s with st := .shutdown }
  | .disc .. => some { s with st := .closeWait, sq := [.dm (s.peer.getD 0) s.addr 0] }
  | .rr _ _ nr => some { s with vsa := if (nr + 16 - s.vsa) % 16 ≠ 0 then nr else s.vsa }
  | .rnr _ _ nr => some { s with vsa := if (nr + 16 - s.vsa) % 16 ≠ 0 then nr else s.vsa }
  | _ => some s

/-- `DataLinkConnection.enqueue` -/
def dlcEnqueue (f : Fix) (s : Sock) (p : SPdu) : Option Sock :=
  if ¬ isDlcPdu p then
    let fr := frmrOf p 8 s
    (if f.f39 then dlcClose { s with st := .shutdown } else dlcClose s).map fun s' => { s' with sq := s'.sq ++ [fr] }
  else
    match s.st with
    | .closed => some { s with sq := s.sq ++ [.dm p.ssap p.dsap 1] }
    | .listen =>
      match p with
      | .connect .. => if s.rq < s.rbuf then some { s with rq := s.rq + 1 }
                       else some { s with sq := s.sq ++ [.dm p.ssap p.dsap 0x20] }
      | _ => some s
    | .connect =>
      match p with
      | .cc .. | .dm .. => if f.cc ∧ s.rq ≠ 0 then some s else some { s with rq := s.rq + 1 }
      | _ => some s
    | .disconnect =>
      match p with
      | .dm .. => some { s with rq := s.rq + 1 }
      | _ => some s
    | .established => enqueueEstablished s p
    | _ => some s

/-- `socket.enqueue(rcvd_pdu)` by socket class -/
def sockEnqueue (f : Fix) (s : Sock) (p : SPdu) : Option Sock :=
  match s.kind with
  | .raw => some (baseEnqueue s)
  | .ldl =>
    match p with
    | .ui _ _ data => if data.length > s.rmiu then some s else some (baseEnqueue s)
    | _ => some s
  | .dlc => dlcEnqueue f s p

structure Sap where
  socks : List Sock
  sendList : List SPdu
  deriving DecidableEq, Repr

/-- the `for socket in self.sock_list: if <sel>: socket.enqueue(); break  else: <other>` loops -/
def firstMatch (f : Fix) (sel : Sock → Bool) (p : SPdu) : List Sock → Option (Option (List Sock))
  | [] => some none                                    -- no socket selected
  | s :: rest =>
    if sel s then (sockEnqueue f s p).map fun s' => some (s' :: rest)
    else (firstMatch f sel p rest).map fun r => r.map fun l => s :: l

/-- `ServiceAccessPoint.enqueue`; `none` = the link loop is blocked -/
def sapEnqueue (f : Fix) (sap : Sap) (p : SPdu) : Option Sap :=
  match p with
  | .connect .. =>
    (firstMatch f (fun s => s.st = .listen) p sap.socks).map fun r =>
      match r with
      | some l => { sap with socks := l }
      | none => { sap with sendList := sap.sendList ++ [.dm p.ssap p.dsap 2] }
  | _ =>
    (firstMatch f (fun s => s.peer = some p.ssap ∨ s.peer = none) p sap.socks).map fun r =>
      match r with
      | some l => { sap with socks := l }
      | none => if isDlcPdu p then { sap with sendList := sap.sendList ++ [.dm p.ssap p.dsap 1] } else sap

/-- entry of `llc.sap[..]` -/
inductive Entry
  | empty                                   -- `None`
  | sdp (dmpdu : List SPdu) (nres : Nat)    -- ServiceDiscovery: queued DM PDUs, number of queued SDRES
  | sap (s : Sap)
  deriving DecidableEq, Repr

structure Llc where
  tab : List Entry                          -- `self.sap`, 64 entries
  snl : List (Bytes × Nat)                  -- `self.snl`
  deriving DecidableEq, Repr

def lookupName (snl : List (Bytes × Nat)) (sn : Option Bytes) : Option Nat :=
  match sn with
  | none => none
  | some n => (snl.find? (fun e => e.1 = n)).map (·.2)

def setEntry (tab : List Entry) (i : Nat) (e : Entry) : List Entry := tab.set i e

/-- `dispatch` of one non-aggregated PDU after the connect-by-name rewrite -/
def deliver (f : Fix) (w : Llc) (p : SPdu) : Py (Option Llc) :=
  idxN w.tab p.dsap >>= fun e =>                            -- `self.sap[rcvd_pdu.dsap]`
  match e with
  | .empty => .ok (some w)
  | .sdp dm nres =>
    match p with
    | .snl _ _ sdreq _ => .ok (some { w with tab := setEntry w.tab p.dsap (.sdp dm (nres + sdreq.length)) })
    | _ => .ok (some w)
  | .sap s => .ok ((sapEnqueue f s p).map fun s' => { w with tab := setEntry w.tab p.dsap (.sap s') })

/-- connect-by-name without a service: `self.sap[1].dmpdu.append(DM(ssap, 1, reason))` -/
def rejectByName (w : Llc) (ssap : Nat) (sn : Option Bytes) : Py (Option Llc) :=
  idxN w.tab 1 >>= fun e1 =>
  match e1 with
  | .sdp dm nres =>
    .ok (some { w with tab := setEntry w.tab 1 (.sdp (dm ++ [.dm ssap 1 (if sn.isNone then 0x10 else 0x02)]) nres) })
  | _ => .error .attr                                       -- `self.sap[1].dmpdu`

/-- `dispatch(rcvd_pdu)` for a PDU that is not an aggregate -/
def dispatchS (f : Fix) (w : Llc) (p : SPdu) : Py (Option Llc) :=
  match p with
  | .symm .. => .ok (some w)
  | .connect 1 ssap miu rw sn =>
    match lookupName w.snl sn with
    | none => rejectByName w ssap sn
    | some 0 => rejectByName w ssap sn
    | some a =>
      idxN w.tab a >>= fun ea =>
      match ea with
      | .empty => rejectByName w ssap sn
      | _ => deliver f w (.connect a ssap miu rw none)
  | _ => deliver f w p

/-- the `for p in rcvd_pdu: self.dispatch(p)` loop; stops when the loop thread is blocked -/
def dispatchAll (f : Fix) : Llc → List SPdu → Py (Option Llc)
  | w, [] => .ok (some w)
  | w, p :: ps =>
    dispatchS f w p >>= fun r =>
    match r with
    | none => .ok none
    | some w' => dispatchAll f w' ps

/-- `LogicalLinkController.dispatch`; `.ok none` = the link-loop thread waits for ever -/
def dispatch (f : Fix) (w : Llc) (p : Pdu) : Py (Option Llc) :=
  match p with
  | .simple q => dispatchS f w q
  | .agf d s items => if d = 0 ∧ s = 0 then dispatchAll f w items else .ok (some w)

/-- every address field of the PDU is a SAP number -/
def SPduOk (p : SPdu) : Prop := p.dsap < 64

def PduOk : Pdu → Prop
  | .simple q => SPduOk q
  | .agf _ _ items => ∀ q ∈ items, SPduOk q

/-- the shape `LogicalLinkController.__init__` / `bind` maintain while the link is up -/
structure LlcOk (w : Llc) : Prop where
  len : w.tab.length = 64
  sdp : ∃ dm n, w.tab[1]? = some (.sdp dm n)
  names : ∀ e ∈ w.snl, e.2 < 64

end NfcVerif.Peer
