import NfcVerif.Model.Pdu
/-!
# LLCP PDU *objects*: attribute assignment, the PAX properties, repeated observation (property C11)

The PDU classes of `nfc/llcp/pdu.py` are mutable: `nfc.llcp.tco` assigns `pdu.ns` in `send()` and `pdu.nr`
when the PDU is dequeued, `nfc.llcp.llc` fills a `ParameterExchange` through its properties
(`version`, `miu`, `wks`, `lto`, `lsc`, `dpc`) and appends to `snl.sdreq` / `snl.sdres`, `AggregatedFrame.append`
adds PDUs, and `==` compares the *encodings* of the two objects.  Property C11 ("decoding its encoding yields
the same field values, the reported length is the length of the encoding") therefore has to hold for the field
values an object has *at the time it is observed*, after any history of assignments and observations.

This module adds that object level on top of `Model/Pdu.lean` (which is shared with other properties and left
untouched):

* `Asg`, `assignS`        - `pdu.<attr> = value` for every attribute the encoders read, the five private PAX
                            attributes, and the PAX property setters (transcribed with `%`, `/` for the masks)
* `paxGet`                - the PAX property getters `version`, `miu`, `wks`, `lto`, `lsc`, `dpc`
* `Op`, `apply`, `reply`  - one operation on an object: a mutation (`set`, `append`, `setItem`) or an observation
                            (`encode`, `len`, `encode_header`, `==`, property read, field read, `str`)
* `run`, `final`          - a whole history

The code has no hidden state: an observation is a function of the current field values (`reply`) and leaves the
fields alone (`apply` is the identity on observers).  That is exactly what the correspondence run compares with the
real objects, so a cached encoding, a cached length or an observer with a side effect shows up as a disagreement.

Outside the model: assigning `ns` of an RR/RNR PDU (a hidden attribute that `encode_header` reads but `decode`
resets; the reserved N(S) bits), `ptype` of the 14 fixed classes, `None`/negative numbers in integer attributes.
-/
namespace NfcVerif.Pdu
namespace Obj

/-- attributes holding a number (plain attributes, and the PAX properties `miu wks lto lsc dpc`) -/
inductive NAttr
  | dsap | ssap | ns | nr | miu | rw | reason | rejFlags | rejPtype | vs | vr | vsa | vra
  | wks | lto | lsc | dpc | ptype
  deriving DecidableEq, Repr

/-- the private attributes of `ParameterExchange` (`None` = parameter absent) -/
inductive OAttr
  | version | miux | wks | lto | opt
  deriving DecidableEq, Repr

/-- octet string attributes -/
inductive BAttr
  | data | payload
  deriving DecidableEq, Repr

/-- optional octet string attributes -/
inductive OBAttr
  | sn | ecpk | rn
  deriving DecidableEq, Repr

/-- one assignment `pdu.<attr> = value` (or, for the SNL lists, `pdu.sdreq.append(value)`) -/
inductive Asg
  | n (a : NAttr) (v : Nat)
  | o (a : OAttr) (v : Option Nat)
  | b (a : BAttr) (v : Bytes)
  | ob (a : OBAttr) (v : Option Bytes)
  | version (major minor : Nat)                 -- `pax.version = (major, minor)`
  | sdreq (l : List (Nat × Bytes)) | sdres (l : List (Nat × Nat))
  | sdreqAppend (x : Nat × Bytes) | sdresAppend (x : Nat × Nat)
  deriving DecidableEq, Repr

def setDsap (v : Nat) : SPdu → SPdu
  | .symm _ s => .symm v s
  | .pax _ s a b c e f => .pax v s a b c e f
  | .ui _ s x => .ui v s x
  | .connect _ s m r n => .connect v s m r n
  | .disc _ s => .disc v s
  | .cc _ s m r => .cc v s m r
  | .dm _ s r => .dm v s r
  | .frmr _ s a b c e f g h i => .frmr v s a b c e f g h i
  | .snl _ s q r => .snl v s q r
  | .dps _ s e r => .dps v s e r
  | .info _ s a b x => .info v s a b x
  | .rr _ s r => .rr v s r
  | .rnr _ s r => .rnr v s r
  | .unknown t _ s x => .unknown t v s x

def setSsap (v : Nat) : SPdu → SPdu
  | .symm d _ => .symm d v
  | .pax d _ a b c e f => .pax d v a b c e f
  | .ui d _ x => .ui d v x
  | .connect d _ m r n => .connect d v m r n
  | .disc d _ => .disc d v
  | .cc d _ m r => .cc d v m r
  | .dm d _ r => .dm d v r
  | .frmr d _ a b c e f g h i => .frmr d v a b c e f g h i
  | .snl d _ q r => .snl d v q r
  | .dps d _ e r => .dps d v e r
  | .info d _ a b x => .info d v a b x
  | .rr d _ r => .rr d v r
  | .rnr d _ r => .rnr d v r
  | .unknown t d _ x => .unknown t d v x

/-- `pdu.<attr> = v` for a number.  An attribute the class does not read leaves the fields as they are
(Python stores a stray attribute).  `miu wks lto lsc dpc` of a PAX PDU are the property setters:
`_miux = max(v - 128, 0)`, `_wks = v & 0xFFFF`, `_lto = (v // 10) & 0xFF`,
`_opt = ((_opt or 0) & 0b11111100) | (v & 0b11)`, `_opt = ((_opt or 0) & 0b11111011) | (bool(v) << 2)`. -/
def assignN : NAttr → Nat → SPdu → SPdu
  | .dsap, v, p => setDsap v p
  | .ssap, v, p => setSsap v p
  | .ns, v, .info d s _ nr x => .info d s v nr x
  | .ns, v, .frmr d s a b _ nr f g h i => .frmr d s a b v nr f g h i
  | .nr, v, .info d s ns _ x => .info d s ns v x
  | .nr, v, .rr d s _ => .rr d s v
  | .nr, v, .rnr d s _ => .rnr d s v
  | .nr, v, .frmr d s a b ns _ f g h i => .frmr d s a b ns v f g h i
  | .miu, v, .connect d s _ r n => .connect d s v r n
  | .miu, v, .cc d s _ r => .cc d s v r
  | .miu, v, .pax d s a _ c e f => .pax d s a (some (v - 128)) c e f
  | .rw, v, .connect d s m _ n => .connect d s m v n
  | .rw, v, .cc d s m _ => .cc d s m v
  | .reason, v, .dm d s _ => .dm d s v
  | .rejFlags, v, .frmr d s _ b c e f g h i => .frmr d s v b c e f g h i
  | .rejPtype, v, .frmr d s a _ c e f g h i => .frmr d s a v c e f g h i
  | .vs, v, .frmr d s a b c e _ g h i => .frmr d s a b c e v g h i
  | .vr, v, .frmr d s a b c e f _ h i => .frmr d s a b c e f v h i
  | .vsa, v, .frmr d s a b c e f g _ i => .frmr d s a b c e f g v i
  | .vra, v, .frmr d s a b c e f g h _ => .frmr d s a b c e f g h v
  | .wks, v, .pax d s a b _ e f => .pax d s a b (some (v % 65536)) e f
  | .lto, v, .pax d s a b c _ f => .pax d s a b c (some (v / 10 % 256)) f
  | .lsc, v, .pax d s a b c e f => .pax d s a b c e (some ((f.getD 0) % 256 / 4 * 4 + v % 4))
  | .dpc, v, .pax d s a b c e f =>
    .pax d s a b c e (some ((f.getD 0) % 256 / 8 * 8 + (f.getD 0) % 4 + (if v ≠ 0 then 4 else 0)))
  | .ptype, v, .unknown _ d s x => .unknown v d s x
  | _, _, p => p

def assignO : OAttr → Option Nat → SPdu → SPdu
  | .version, v, .pax d s _ b c e f => .pax d s v b c e f
  | .miux, v, .pax d s a _ c e f => .pax d s a v c e f
  | .wks, v, .pax d s a b _ e f => .pax d s a b v e f
  | .lto, v, .pax d s a b c _ f => .pax d s a b c v f
  | .opt, v, .pax d s a b c e _ => .pax d s a b c e v
  | _, _, p => p

def assignB : BAttr → Bytes → SPdu → SPdu
  | .data, v, .ui d s _ => .ui d s v
  | .data, v, .info d s a b _ => .info d s a b v
  | .payload, v, .unknown t d s _ => .unknown t d s v
  | _, _, p => p

def assignOB : OBAttr → Option Bytes → SPdu → SPdu
  | .sn, v, .connect d s m r _ => .connect d s m r v
  | .ecpk, v, .dps d s _ r => .dps d s v r
  | .rn, v, .dps d s e _ => .dps d s e v
  | _, _, p => p

/-- one assignment on a PDU that is not an aggregate -/
def assignS : Asg → SPdu → SPdu
  | .n a v, p => assignN a v p
  | .o a v, p => assignO a v p
  | .b a v, p => assignB a v p
  | .ob a v, p => assignOB a v p
  | .version a b, .pax d s _ m w l o => .pax d s (some (a * 16 % 256 + b % 16)) m w l o
  | .sdreq l, .snl d s _ r => .snl d s l r
  | .sdres l, .snl d s q _ => .snl d s q l
  | .sdreqAppend x, .snl d s q r => .snl d s (q ++ [x]) r
  | .sdresAppend x, .snl d s q r => .snl d s q (r ++ [x])
  | _, p => p

/-- the readable properties of `ParameterExchange` -/
inductive PaxProp
  | version | miu | wks | lto | lsc | dpc
  deriving DecidableEq, Repr

/-- `pax.version` -> `(major, minor)`, the others -> a number; `none` for a PDU that is not a PAX PDU
(AttributeError in Python, never requested by the harness) -/
def paxGet : PaxProp → SPdu → Option (Nat × Nat)
  | .version, .pax _ _ ver _ _ _ _ => some (match ver with | some v => (v / 16, v % 16) | none => (0, 0))
  | .miu, .pax _ _ _ miux _ _ _ => some ((match miux with | some v => v + 128 | none => 128), 0)
  | .wks, .pax _ _ _ _ wks _ _ => some (wks.getD 0, 0)
  | .lto, .pax _ _ _ _ _ lto _ => some ((lto.getD 10) * 10, 0)
  | .lsc, .pax _ _ _ _ _ _ opt => some ((match opt with | some o => o % 4 | none => 0), 0)
  | .dpc, .pax _ _ _ _ _ _ opt => some ((match opt with | some o => o / 4 % 2 | none => 0), 0)
  | _, _ => none

/-! ## operations on an object -/

inductive Op
  | set (a : Asg)                      -- attribute of a simple PDU; on an aggregate only `dsap` / `ssap`
  | append (q : SPdu)                  -- `agf.append(q)`
  | setItem (i : Nat) (a : Asg)        -- `agf._aggregate[i].<attr> = v` (the aggregate holds references)
  | enc                                -- `pdu.encode()` / `nfc.llcp.pdu.encode(pdu)`
  | len                                -- `len(pdu)`
  | hdr                                -- `pdu.encode_header()`
  | eq (q : Pdu)                       -- `pdu == q`
  | get (g : PaxProp)                  -- PAX property read
  | state                              -- read all fields
  | str                                -- `str(pdu)`: not modelled beyond "changes nothing"
  deriving Repr

def Op.mutates : Op → Bool
  | .set _ | .append _ | .setItem _ _ => true
  | _ => false

def setAt (i : Nat) (a : Asg) : List SPdu → List SPdu
  | [] => []
  | q :: qs => match i with
    | 0 => assignS a q :: qs
    | i + 1 => q :: setAt i a qs

/-- the field values after the operation -/
def apply (p : Pdu) : Op → Pdu
  | .set a => match p with
    | .simple q => .simple (assignS a q)
    | .agf d s items => match a with
      | .n .dsap v => .agf v s items
      | .n .ssap v => .agf d v items
      | _ => .agf d s items
  | .append q => match p with
    | .agf d s items => .agf d s (items ++ [q])
    | p => p
  | .setItem i a => match p with
    | .agf d s items => .agf d s (setAt i a items)
    | p => p
  | _ => p

inductive Reply
  | none
  | bytes (r : Py Bytes)
  | nat (n : Nat)
  | bool (r : Py Bool)
  | pair (r : Option (Nat × Nat))
  | pdu (p : Pdu)
  deriving DecidableEq, Repr

/-- `pdu.encode_header()`: the numbered classes add the sequence octet -/
def encodeHdr : Pdu → Py Bytes
  | .simple (.info d s ns nr _) => Impl.encodeHeaderN 12 d s ns nr
  | .simple (.rr d s nr) => Impl.encodeHeaderN 13 d s 0 nr
  | .simple (.rnr d s nr) => Impl.encodeHeaderN 14 d s 0 nr
  | .simple p => Impl.encodeHeader p.ptype p.dsap p.ssap
  | .agf d s _ => Impl.encodeHeader 2 d s

/-- `self.encode() == other.encode()` -/
def pduEq (p q : Pdu) : Py Bool :=
  Impl.encode p >>= fun a => Impl.encode q >>= fun b => pure (a == b)

/-- what the operation returns, as a function of the current field values -/
def reply (p : Pdu) : Op → Reply
  | .enc => .bytes (Impl.encode p)
  | .len => .nat (Impl.len p)
  | .hdr => .bytes (encodeHdr p)
  | .eq q => .bool (pduEq p q)
  | .get g => match p with
    | .simple q => .pair (paxGet g q)
    | _ => .pair .none
  | .state => .pdu p
  | _ => .none

def run : Pdu → List Op → List Reply
  | _, [] => []
  | p, o :: os => reply p o :: run (apply p o) os

def final (p : Pdu) (ops : List Op) : Pdu := ops.foldl apply p

/-! ## text form for the line protocol of `drv_c11`:  `seq <pdu> ;; <op> ;; <op> ...` -/

def Reply.text : Reply → String
  | .none => "-"
  | .bytes r => showPy toHex r
  | .nat n => s!"ok {n}"
  | .bool r => showPy (fun b => if b then "T" else "F") r
  | .pair (some (a, b)) => s!"ok {a}:{b}"
  | .pair .none => "exc AttributeError"
  | .pdu p => "ok " ++ p.text

def parseNAttr : String → Option NAttr
  | "dsap" => some .dsap | "ssap" => some .ssap | "ns" => some .ns | "nr" => some .nr | "miu" => some .miu
  | "rw" => some .rw | "reason" => some .reason | "rej_flags" => some .rejFlags | "rej_ptype" => some .rejPtype
  | "vs" => some .vs | "vr" => some .vr | "vsa" => some .vsa | "vra" => some .vra | "wks" => some .wks
  | "lto" => some .lto | "lsc" => some .lsc | "dpc" => some .dpc | "ptype" => some .ptype | _ => .none

def parseOAttr : String → Option OAttr
  | "_version" => some .version | "_miux" => some .miux | "_wks" => some .wks | "_lto" => some .lto
  | "_opt" => some .opt | _ => .none

def parseAsg (attr val : String) : Option Asg :=
  match parseNAttr attr, parseOAttr attr with
  | some a, _ => val.toNat?.map (.n a)
  | _, some a => (parseOptNat val).map (.o a)
  | _, _ =>
    match attr with
    | "data" => (parseHex val).map (.b .data)
    | "payload" => (parseHex val).map (.b .payload)
    | "sn" => (parseOptBytes val).map (.ob .sn)
    | "ecpk" => (parseOptBytes val).map (.ob .ecpk)
    | "rn" => (parseOptBytes val).map (.ob .rn)
    | "version" => (parsePair (·.toNat?) (·.toNat?) val).map fun (a, b) => .version a b
    | "sdreq" => (parseListWith (parsePair (·.toNat?) parseHex) val).map .sdreq
    | "sdres" => (parseListWith (parsePair (·.toNat?) (·.toNat?)) val).map .sdres
    | "sdreq+" => (parsePair (·.toNat?) parseHex val).map .sdreqAppend
    | "sdres+" => (parsePair (·.toNat?) (·.toNat?) val).map .sdresAppend
    | _ => .none

def parseProp : String → Option PaxProp
  | "version" => some .version | "miu" => some .miu | "wks" => some .wks | "lto" => some .lto
  | "lsc" => some .lsc | "dpc" => some .dpc | _ => .none

def Op.parse (s : String) : Option Op :=
  match s.splitOn " " with
  | ["enc"] => some .enc
  | ["len"] => some .len
  | ["hdr"] => some .hdr
  | ["state"] => some .state
  | ["str"] => some .str
  | ["get", g] => (parseProp g).map .get
  | ["set", attr, val] => (parseAsg attr val).map .set
  | ["seti", i, attr, val] => match i.toNat?, parseAsg attr val with
    | some i, some a => some (.setItem i a)
    | _, _ => .none
  | "app" :: rest => (SPdu.parse (" ".intercalate rest)).map .append
  | "eq" :: rest => (Pdu.parse (" ".intercalate rest)).map .eq
  | _ => .none

/-- `seq <pdu> ;; <op> ;; ...` -> the replies joined by ` | ` -/
def handleSeq (s : String) : String :=
  match s.splitOn " ;; " with
  | [] => "bad-op"
  | h :: ops =>
    match Pdu.parse h, ops.mapM Op.parse with
    | some p, some os => " | ".intercalate ((run p os).map Reply.text)
    | _, _ => "bad-op"

/-! ## `FrameReject.from_pdu` -/

/-- `FrameReject.from_pdu(pdu, flags, dlc)`: the FRMR PDU `tco` answers a rejected PDU with.  `flags` is a string
over "SRIW", given here as the list of letter positions (`"SRIW".index(f)`); `rej_flags = sum(1 << index)`;
the SAPs are swapped, N(S)/N(R) are taken from an I PDU, N(R) from RR/RNR, the four counters from the connection. -/
def frmrFromPdu (p : SPdu) (flags : List Nat) (vs vsa vr vra : Nat) : SPdu :=
  let f := flags.foldl (fun acc i => acc + 2 ^ i) 0
  match p with
  | .info _ _ ns nr _ => .frmr p.ssap p.dsap f p.ptype ns nr vs vr vsa vra
  | .rr _ _ nr => .frmr p.ssap p.dsap f p.ptype 0 nr vs vr vsa vra
  | .rnr _ _ nr => .frmr p.ssap p.dsap f p.ptype 0 nr vs vr vsa vra
  | _ => .frmr p.ssap p.dsap f p.ptype 0 0 vs vr vsa vra

def parseFlags (s : String) : Option (List Nat) :=
  if s = "-" then some [] else
  s.toList.mapM fun c => if c = 'S' then some 0 else if c = 'R' then some 1 else if c = 'I' then some 2
    else if c = 'W' then some 3 else .none

/-- `frmr <flags> <vs> <vsa> <vr> <vra> <pdu>` -/
def handleFrmr (s : String) : String :=
  match s.splitOn " " with
  | fl :: a :: b :: c :: d :: rest =>
    match parseFlags fl, nats [a, b, c, d], SPdu.parse (" ".intercalate rest) with
    | some fl, some [vs, vsa, vr, vra], some p => "ok " ++ (frmrFromPdu p fl vs vsa vr vra).text
    | _, _, _ => "bad-op"
  | _ => "bad-op"

end Obj
end NfcVerif.Pdu
