import NfcVerif.Py
/-!
# Reference definitions for target discovery and listening of the PN53x driver family (C18, C19, C13, C14)

`Model/Sense.lean` / `Model/Connect.lean` treat `device.sense_*` / `device.listen_*` as answers of a scripted
world; what the PN53x drivers (`nfc/clf/pn53x.py` and the overrides in pn531 / pn532 / pn533 / rcs956) make of
the chip's answers had no model.  This file says what they should compute, following the PN53x user manuals
(InListPassiveTarget, InJumpForPSL / InJumpForDEP, TgInitAsTarget parameter and answer layouts) and the NFC Forum
Digital / Activity wording used in the property texts:

* a discovered target carries exactly the response fields the chip reported (SENS_RES 2 octets, SEL_RES 1 octet,
  SDD_RES = NFCID1 of 4 / 7 / 10 octets, SENSF_RES, ATR_RES = `D5 01` + what InJumpForPSL returned), else None;
* listen returns a target only for a well formed activation request addressed to it (mode octet of
  TgInitAsTarget, first command: any for a Type 2 Tag, RATS `E0` for Type 4A, `F0 LEN D4 00 ..` for NFC-DEP);
* ATR_REQ / ATR_RES lengths stay within 16..64 (17..65 with the length octet).

Octets are `Nat`s (`Bytes`); bit tests are written with `&&&` on naturals, the bit numbers are in the comments.
-/
namespace NfcVerif.FnPn53xRfRef
open NfcVerif

/-! ## InListPassiveTarget -/

/-- parameters of InListPassiveTarget: MaxTg = 1, BrTy, initiator data -/
def inListParams (brty : Nat) (ini : Bytes) : Bytes := 1 :: brty :: ini

/-- answer of InListPassiveTarget (`NbTg Tg TargetData`): the target data when a target was found -/
def inListResult (d : Bytes) : Option Bytes :=
  match d with
  | [] => none
  | nb :: _ => if nb > 0 then some (d.drop 2) else none

/-- NFCID1 given as initiator data: the chip wants the cascade tag 88h in front of every complete group of
three octets that is followed by more (single 4: as is; double 7: `88 u0 u1 u2 u3..u6`; triple 10:
`88 u0 u1 u2 88 u3 u4 u5 u6..u9`) -/
def ttaUid (uid : Bytes) : Bytes :=
  if uid.length ≤ 4 then uid
  else if uid.length ≤ 7 then 0x88 :: uid
  else 0x88 :: uid.take 3 ++ 0x88 :: uid.drop 3

/-- Type A target data `SENS_RES(2, low octet first on PN532/533) SEL_RES NFCIDLength NFCID1`:
(SENS_RES in transmission order, SEL_RES, SDD_RES) -/
def ttaFields (rsp : Bytes) : Bytes × Bytes × Bytes :=
  ((rsp.take 2).reverse, (rsp.drop 2).take 1, rsp.drop 4)

/-- a well formed Type A target data block -/
def ttaTargetData (s0 s1 sel : Nat) (uid : Bytes) : Bytes := s0 :: s1 :: sel :: uid.length :: uid

/-- SEL_RES bits 6 and 7 (20h, 40h) clear: Type 2 Tag platform -/
def selIsTt2 (sel : Bytes) : Py Bool := idxN sel 0 >>= fun b => .ok (decide (b &&& 0x60 = 0))

/-- SENS_REQ (26h) still in the CIU FIFO: nothing answered -/
def noSensRes (fifo : Int) : Bool := decide (fifo = 0x26)

/-- Type 1 Tag target data (BrTy 4): SENS_RES swapped back -/
def tt1Sens (rsp : Bytes) : Bytes := (rsp.take 2).reverse

/-- RID command: code 78h, six zero octets (CRC_B appended by the chip) -/
def ridCmd : Bytes := 0x78 :: List.replicate 6 0

/-! ## Type B -/
def ttbAfi (sensb_req : Option Bytes) : Bytes :=
  match sensb_req with
  | some (a :: _) => [a]
  | _ => [0]

/-- SENSB_RES protocol type (target data octet 10): bit 0 set (ISO/IEC 14443-4), bit 3 clear -/
def ttbIsIso (rsp : Bytes) : Py Bool :=
  if rsp = [] then .ok false else idxN rsp 10 >>= fun b => .ok (decide (b &&& 9 = 1))

/-- S(DESELECT) (C2, with DID: CA did) and WUPB (05 AFI 08) -/
def ttbCmds (did : Option Bytes) (afi : Bytes) : Bytes × Bytes :=
  ((match did with | some (d :: ds) => 0xCA :: d :: ds | _ => [0xC2]), 5 :: afi ++ [8])

/-! ## Type F -/
def fieldOff (txc : Nat) : Bool := decide (txc % 4 = 0)
/-- default polling frame: SENSF_REQ code 00, system code FFFF, request code 01, time slot 00 -/
def defaultSensfReq : Bytes := [0x00, 0xFF, 0xFF, 0x01, 0x00]
def ttfReq (sensf_req : Option Bytes) : Bytes :=
  match sensf_req with
  | some (a :: l) => a :: l
  | _ => defaultSensfReq
/-- FeliCa target data `LEN SENSF_RES`: SENSF_RES -/
def ttfRes (rsp : Bytes) : Bytes := rsp.drop 1

/-! ## DEP (active mode, InJumpForPSL / InJumpForDEP) -/
/-- preconditions of `sense_dep`: ATR_REQ of 16..64 octets, equal send / receive bit rate -/
def depChecks (atr_req : Bytes) (same : Bool) : Py Unit :=
  if 16 ≤ atr_req.length ∧ atr_req.length ≤ 64 ∧ same = true then .ok () else .error .assertion
/-- NFCID3i (ATR_REQ octets 2..11) and Gi (octets 16..) -/
def depArgs (atr_req : Bytes) : Bytes × Bytes := ((atr_req.drop 2).take 10, atr_req.drop 16)
def depAtrRes (data : Bytes) : Bytes := 0xD5 :: 0x01 :: data

/-- index of the bit rate in (106, 212, 424) -/
def brIndex (br : Int) : Option Nat :=
  if br = 106 then some 0 else if br = 212 then some 1 else if br = 424 then some 2 else none

def flag (b : Bytes) : Nat := if b = [] then 0 else 1

/-- InJumpForPSL / InJumpForDEP parameters `ActPass BR Next [PassiveInitiatorData] [NFCID3i] [Gi]`;
Next: bit 0 passive data present, bit 1 NFCID3i present, bit 2 Gi present -/
def jumpParams (act : Bool) (br : Int) (pd nfcid3 gi : Bytes) : Py Bytes :=
  match brIndex br with
  | none => .error .assertion
  | some b =>
    if (pd.length = 0 ∨ pd.length = 4 ∨ pd.length = 5) ∧ (nfcid3.length = 0 ∨ nfcid3.length = 10) ∧ gi.length ≤ 48 then
      .ok ((if act then 1 else 0) :: b :: (flag pd + 2 * flag nfcid3 + 4 * flag gi) :: (pd ++ nfcid3 ++ gi))
    else .error .assertion

/-- answer `Status Tg ATR_RES..`: status 0 -> the ATR_RES octets behind the target number; a non-zero status
is `Chipset.Error(status)`, an empty answer `Chipset.Error(FFh)` -/
def jumpResult (d : Bytes) : Py Bytes :=
  match d with
  | [] => .error .index
  | s :: _ => if s = 0 then .ok (d.drop 2) else .error (.chipsetError s)

/-! ## frame size limits -/
def maxSend (fmax : Int) : Int := fmax - 2
def maxRecv (fmax : Int) : Int := fmax - 3

/-! ## `_send_cmd_recv_rsp` -/
/-- the InCommunicateThru timeout index: the first n in 1..16 with `t >> (n-1) <= 100`, else 16 -/
def timeoutIndex (t : Int) : Nat :=
  match (List.range 16).find? (fun i => decide (t >>> i ≤ 100)) with
  | some i => i + 1
  | none => 16

/-- new CIU_TxMode / RxMode / TxAuto: speed in bits 4..6, framing in bits 0..1 (01 = active mode), Force100ASK
(bit 6 of TxAuto) for 106A -/
def modes (txm rxm txa : Nat) (acm : Bool) (brS brR frS frR : Nat) (sendA : Bool) : Nat × Nat × Nat :=
  ((((txm &&& 0x8F) ||| (brS * 16)) &&& 0xFC) ||| (if acm then 1 else frS),
   (((rxm &&& 0x8F) ||| (brR * 16)) &&& 0xFC) ||| (if acm then 1 else frR),
   (txa &&& 0xBF) ||| ((if sendA then 1 else 0) * 64))

/-! ## listen as Type A target -/
def ltaChecks (sens sdd sel : Bytes) : Py Unit :=
  if sens.length = 2 ∧ sdd.length = 4 ∧ sel.length = 1 ∧ sdd.head? = some 8 then .ok () else .error .assertion
/-- Mifare parameters of TgInitAsTarget: SENS_RES, NFCID1 octets 1..3, SEL_RES -/
def nfcaParams (sens sdd sel : Bytes) : Bytes := sens ++ (sdd.drop 1).take 3 ++ sel
def dummyFelica : Bytes := List.range 18
/-- mode octet of the TgInitAsTarget answer: bits 4..6 bit rate index, bit 0 active mode -/
def modeBrty (data : Bytes) : Py Nat := idxN data 0 >>= fun m => .ok ((m &&& 0x70) / 16)
def modeActive (data : Bytes) : Py Nat := idxN data 0 >>= fun m => .ok (m % 2)
/-- RATS: SEL_RES bit 6 (20h) and command code E0 -/
def isRats (data sel : Bytes) : Py Bool :=
  idxN sel 0 >>= fun s => if s &&& 0x20 = 0x20 then idxN data 1 >>= fun c => .ok (decide (c = 0xE0)) else .ok false
/-- ATR_REQ at 106A: SEL_RES bit 7 (40h), start byte F0, LEN = octets behind the start byte, `D4 00`, at least
16 octets of ATR_REQ -/
def isAtrA (data sel : Bytes) : Py Bool :=
  idxN sel 0 >>= fun s =>
  if s &&& 0x40 ≠ 0 then
    idxN data 1 >>= fun c =>
    if c = 0xF0 ∧ 19 ≤ data.length then
      idxN data 2 >>= fun l => .ok (decide (l + 2 = data.length ∧ (data.drop 3).take 2 = [0xD4, 0x00]))
    else .ok false
  else .ok false
def defaultRatsRes : Bytes := [0x05, 0x78, 0x80, 0x70, 0x02]
def ratsRes (data : Bytes) (r : Option Bytes) : Bytes × Option Bytes :=
  (data.drop 1, match r with | some (a :: l) => some (a :: l) | _ => some defaultRatsRes)
/-- S(DESELECT): PCB `1100 xxxx` -/
def isDeselect (data : Bytes) : Py Bool :=
  match data with | [] => .ok false | b :: _ => .ok (decide (b &&& 0xF0 = 0xC0))
/-- the Type A fields of the returned LocalTarget, from the Mifare parameters -/
def ltaSens (p : Bytes) : Bytes := p.take 2
def ltaSdd (p : Bytes) : Bytes := 8 :: (p.drop 2).take 3
def ltaSel (p : Bytes) : Bytes := (p.drop 5).take 1

/-! ## listen as Type F target -/
def ltfChecks (sensf : Bytes) : Py Unit := if sensf.length = 19 then .ok () else .error .assertion
def ltfParams (sensf : Bytes) : Bytes × Bytes := (List.replicate 6 0, sensf.drop 1)
/-- CIU_TxMode: TxCRCEn (80h), speed (kbps / 212) in bits 4.., FeliCa framing (02h) -/
def ltfTxMode (kbps : Nat) : Nat := 0x82 ||| (kbps / 212 * 16)
def ltfIrq (commirq : Nat) : Bool := decide (commirq &&& 0x30 = 0x30)
def ltfLenOk (fifo : Bytes) : Py Bool :=
  match fifo with | [] => .ok false | l :: _ => .ok (decide (fifo.length = l))
def ltfForUs (fifo nfcf : Bytes) : Bool := decide ((fifo.drop 2).take 8 = nfcf.take 8)

/-! ## listen as DEP target -/
def ldepParams (sens sdd sel sensf : Bytes) : Py (Bytes × Bytes) :=
  if (nfcaParams sens sdd sel).length = 6 ∧ ((sensf.drop 1).take 18).length = 18 then
    .ok (nfcaParams sens sdd sel, (sensf.drop 1).take 18)
  else .error .assertion
/-- TgInitAsTarget answer `Mode LEN D4 00 ..` is an ATR_REQ (negated in the source) -/
def notAtr (data : Bytes) : Py Bool :=
  idxN data 1 >>= fun l => .ok (decide (¬ (l + 1 = data.length ∧ (data.drop 2).take 2 = [0xD4, 0x00])))
def isPslReq (data : Bytes) : Bool := decide (data ≠ [] ∧ [0x06, 0xD4, 0x04].isPrefixOf data = true)
/-- PSL_REQ `D4 04 DID BRS FSL` behind the length octet, DID equal to the one of ATR_REQ (octet 12) -/
def pslReq (data atr_req : Bytes) : Py Bytes :=
  if (data.drop 1).length = 5 then
    idxN (data.drop 1) 2 >>= fun d => idxN atr_req 12 >>= fun d' =>
    if d = d' then .ok (data.drop 1) else .error .assertion
  else .error .assertion
def pslRes (psl_req : Bytes) : Bytes := 0xD5 :: 0x05 :: (psl_req.drop 2).take 1
/-- DEP_REQ `LEN D4 06 ..` -/
def isDepReq (data : Bytes) : Py Bool :=
  match data with
  | [] => .ok false
  | l :: _ => .ok (decide (l = data.length ∧ (data.drop 1).take 2 = [0xD4, 0x06]))
/-- length octet + payload (ATR_RES, PSL_RES) for TgResponseToInitiator -/
def lenFrame (p : Bytes) : Py Bytes := if p.length + 1 < 256 then .ok ((p.length + 1) :: p) else .error .value

/-- PSL: DSI = BRS bits 3..5, DRI = BRS bits 0..2; new CIU_RxMode -/
def speedMode (m s : Nat) : Nat :=
  let m1 := (m &&& 0x8F) ||| (s * 16)
  if m1 % 4 ≠ 1 then (m1 &&& 0xFC) ||| (if s > 0 then 2 else 0) else m1
def pslRx (psl_req : Bytes) (rx : Nat) : Py (Nat × Nat × Nat) :=
  idxN psl_req 3 >>= fun b => .ok (b / 8 % 8, b % 8, speedMode rx (b / 8 % 8))

/-! ## TgInitAsTarget and friends -/
def nfcid3t (ttf : Bytes) : Bytes := ttf.take 8 ++ [0, 0]
def tgInitChecks (mifare felica nfcid3t : Bytes) : Prop := mifare.length = 6 ∧ felica.length = 18 ∧ nfcid3t.length = 10
instance (a b c : Bytes) : Decidable (tgInitChecks a b c) := by unfold tgInitChecks; infer_instance
/-- PN531 TgInitTAMATarget / RC-S956 TgInitTarget: `Mode Mifare(6) FeliCa(18) NFCID3t(10) Gt` -/
def tgInitShort (mode : Int) (mifare felica n3 gt : Bytes) : Py Bytes :=
  if tgInitChecks mifare felica n3 then
    (if 0 ≤ mode ∧ mode ≤ 255 then .ok (mode.toNat :: (mifare ++ felica ++ n3 ++ gt)) else .error .value)
  else .error .assertion
/-- PN532 / PN533 TgInitAsTarget: `Mode Mifare FeliCa NFCID3t LEN(Gt) Gt LEN(Tk) Tk` -/
def tgInitLong (mode : Int) (mifare felica n3 gt tk : Bytes) : Py Bytes :=
  if tgInitChecks mifare felica n3 then
    (if 0 ≤ mode ∧ mode ≤ 255 then
      (if gt.length < 256 then
        (if tk.length < 256 then
          .ok (mode.toNat :: (mifare ++ felica ++ n3 ++ gt.length :: gt ++ tk.length :: tk))
        else .error .value)
      else .error .value)
    else .error .value)
  else .error .assertion

/-! ## PN531 / RC-S956 specials -/
/-- PN531: SDD_RES comes with the cascade tag(s): 8 -> 7 octets, 12 -> 10 octets -/
def sddFix (sdd : Bytes) : Bytes :=
  if sdd.length = 8 then sdd.drop 1
  else if sdd.length = 12 then (sdd.drop 1).take 3 ++ sdd.drop 5
  else sdd
/-- LR bits (4, 5) of PPi / PPt both set: 254 octet payload -/
def lrIs254 (pp : Nat) : Bool := decide (pp &&& 0x30 = 0x30)
/-- lowered to LR = 10b (192 octets) -/
def lrLower (pp : Nat) : Nat := (pp &&& 0xCF) ||| 0x20
/-- RID_RES HR0: upper nibble 1 = Type 1 Tag, lower nibble 1 = static memory -/
def tt1Dynamic (rid : Bytes) : Py Bool := idxN rid 0 >>= fun h => .ok (decide (h / 16 = 1 ∧ h % 16 ≠ 1))
def selIsTt4 (sel : Bytes) : Py Bool :=
  match sel with | [] => .ok false | s :: _ => .ok (decide (s &&& 0x20 ≠ 0))

/-! ## Type 1 Tag commands -/
/-- commands the chip firmware implements: RALL 00, READ 01, WRITE-NE 1A, WRITE-E 53, RID 72 -/
def tt1Native (data : Bytes) : Py Bool := idxN data 0 >>= fun c => .ok (decide (c ∈ [0x00, 0x01, 0x1A, 0x53, 0x72]))

end NfcVerif.FnPn53xRfRef
