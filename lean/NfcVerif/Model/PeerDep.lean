import NfcVerif.Model.NfcDep
/-!
# Property C07, part 1: every NFC-DEP frame the peer can send (`/repo/src/nfc/dep.py`)

`decodeFrameV fix b106 req frame` is `Initiator.decode_frame` (`req = false`) /
`Target.decode_frame` (`req = true`) followed by the `decode` class method of
the recognised PDU, for both framings (`b106`: leading `F0`), written out
statement by statement.  `fix = false` is the code as found (finding F11:
`frame.pop(0)` on a frame without start/length byte -> `IndexError`, the tuple
unpacking of a short `ATR_REQ`/`ATR_RES` -> `ValueError`), `fix = true` the
repaired code (fixes/C07/0001, 0002: `TransmissionError` for a frame that has
no start or length byte, `ProtocolError` for a short ATR).  For `fix = false` it
is the function `NfcDep.decodeFrame` of property C04 (theorem
`decodeFrameV_asFound`, `Lemmas/PeerDep`).

Further peer-controlled values that the callers index into:

* `rtoxOf`       `RTOX(res.data[0], ..)` / `res.data[0] * self.rwt` in `Initiator.exchange`
                 (as found: `IndexError` for a timeout extension PDU without data byte)
* `tRtoxOf`      `req.data[0] & 0x3F` in `Target.send_timeout_extension`
* `atrFields`    what `Initiator.activate` / `Target.activate` read from the ATR
                 (`wt`, `lr`, `did`, general bytes)
* `afterDeselect` the PDU that `send_dep_res_recv_dep_req` hands to `Target.exchange`
                 after a DSL/RLS request (as found: whatever frame came next, and
                 `Target.exchange` then reads `.pfb` of an ATR/PSL/DSL/RLS object ->
                 `AttributeError`)
-/
namespace NfcVerif.Peer
open NfcVerif.NfcDep

/-- `frame.pop(0) != 0xF0` at 106 kbps -/
def stripStart (b106 : Bool) (frame : Bytes) : Py Bytes :=
  if b106 then
    match frame with
    | [] => .error .index                         -- `frame.pop(0)` on an empty bytearray
    | sb :: r => if sb ≠ 0xF0 then .error .protocol else .ok r
  else .ok frame

/-- `decode_frame` after the start byte and the length byte were taken off, and `XXX.decode` -/
def frameBody (fix : Bool) (req : Bool) (f2 : Bytes) : Py Pdu :=
  if f2.length < 2 then .error .transmission else
  match f2 with
  | c0 :: c1 :: d =>
    if c0 ≠ (if req then 0xD4 else 0xD5) then .error .protocol else
    let k := if req then c1 else c1 - 1
    if ¬ req ∧ c1 = 0 then .error .protocol else
    if k = 6 then decodeDep d
    else if k = 8 then decodeDsl .dsl d
    else if k = 10 then decodeDsl .rls d
    else if k = 0 then
      if d.length < (if req then 14 else 15) then (if fix then .error .protocol else .error .value)
      else .ok (.atr d)
    else if k = 4 then
      if d.length ≠ (if req then 3 else 1) then .error .protocol else .ok (.psl d)
    else .error .protocol
  | _ => .error .transmission

/-- `decode_frame` + `XXX.decode` -/
def decodeFrameV (fix : Bool) (b106 : Bool) (req : Bool) (frame : Bytes) : Py Pdu :=
  if fix ∧ frame.length < (if b106 then 2 else 1) then .error .transmission else
  stripStart b106 frame >>= fun f1 =>
  match f1 with
  | [] => .error .index                           -- `len(frame) != frame.pop(0)`
  | len :: f2 =>
    if f1.length ≠ len then .error .protocol else frameBody fix req f2

/-- the exceptions a frame may cause: `nfc.clf.ProtocolError` / `TransmissionError` -/
def FrameErr (e : Exc) : Prop := e = .protocol ∨ e = .transmission

/-- `res.data[0]` and the range check of the local function `RTOX` in `Initiator.exchange` -/
def rtoxOf (fix : Bool) (data : Bytes) : Py Nat :=
  if fix then
    match data with
    | [] => .error .protocol
    | v :: _ => if 0 < v ∧ v < 60 then .ok v else .error .protocol
  else
    idxN data 0 >>= fun v => if 0 < v ∧ v < 60 then .ok v else .error .protocol

/-- `Target.send_timeout_extension`: `req.data[0] & 0x3F` (repaired: `None` without data byte) -/
def tRtoxOf (fix : Bool) (data : Bytes) : Py (Option Nat) :=
  if fix then
    match data with
    | [] => .ok none
    | v :: _ => .ok (some (v % 64))
  else idxN data 0 >>= fun v => .ok (some (v % 64))

/-- `(wt, lr, did, gb)` as read by `activate()` from a decoded ATR body (`req`: ATR_REQ) -/
def atrFields (req : Bool) (body : Bytes) : Py (Nat × Nat × Nat × Bytes) :=
  let n := if req then 13 else 14
  idxN body 10 >>= fun did =>
  idxN body n >>= fun pp =>
  (if req then .ok 0 else idxN body 13) >>= fun to =>
  .ok (to % 16, lrTable (pp / 16), did, if (pp / 2) % 2 = 1 then body.drop (n + 1) else [])

/-- what `Target.exchange` does with the object handed back after DSL_REQ / RLS_REQ was
answered: as found the next decoded PDU `nxt` is used as a DEP_REQ (`req.pfb`), repaired `None` -/
def afterDeselect (fix : Bool) (nxt : Option Pdu) : Py (Option Pdu) :=
  if fix then .ok none else
  match nxt with
  | none => .ok none
  | some (.dep f p d n x) => .ok (some (.dep f p d n x))
  | some _ => .error .attr

end NfcVerif.Peer
