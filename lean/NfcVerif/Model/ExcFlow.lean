/-!
# Exception flow of Python functions (T-tie for "only documented exceptions escape")

`harness/translate_exc.py` translates a fixed list of nfcpy functions into the statement
language `Stmt` below (`Gen/ExcFlow.lean`) and the exception classes of nfcpy into a class
tree (`Gen/ClassTree.lean`).  This file defines

* the class tree, the reflexive-transitive subclass relation `Below` (specification) and the
  computable test `sub` (`Lemmas/ExcFlow.lean`: they agree on an `ordered` tree);
* `Runs`: an outcome semantics of statements that follows Python for everything that concerns
  exceptions: handlers tried in order, tuples of classes, subclass matching, bare `raise`,
  an exception raised in a handler replaces the handled one, `else` clauses of `try` and of
  loops, `finally` on every exit with override by its own `return`/`raise`/`break`;
  *data* is abstracted: `if`/loop conditions are non-deterministic, and an exception can only
  come from a `raise` statement, from a call site (as far as the oracle `raises` allows) or
  from an untranslatable statement `other` (anything);
* `outs`: the computable set of all outcomes of a statement when every call site may raise
  exactly the classes of an assumption table.  `Lemmas/ExcFlow.lean` proves that `outs` is an
  upper bound for every oracle within the table (soundness) and that every element is reached
  by a derivation (exactness), once and for all programs;
* `link`/`summ`: calls of translated functions are executions of the callee's body
  (`link`), and their assumption is the callee's computed outcome set (`summ`).

Classes and call sites are numbers; the generated files carry the names.
-/
namespace NfcVerif.ExcFlow

abbrev Cls := Nat
abbrev Site := Nat

/-- `(class, direct bases)`, most derived classes first (every base is listed after its subclasses) -/
abbrev Tree := List (Cls × List Cls)

/-- the class tree and the two classes the semantics itself refers to -/
structure World where
  tree : Tree
  /-- `BaseException`: what an untranslatable statement may raise -/
  top : Cls
  /-- `RuntimeError`: raised by a bare `raise` when no exception is being handled -/
  rte : Cls

/-- reflexive-transitive subclass relation of the tree: `issubclass(c, d)` -/
inductive Below (T : Tree) : Cls → Cls → Prop
  | refl (c : Cls) : Below T c c
  | step {c b d : Cls} {bases : List Cls} : (c, bases) ∈ T → b ∈ bases → Below T b d → Below T c d

/-- computable subclass test (structural in the tree, exact on an `ordered` tree) -/
def sub : Tree → Cls → Cls → Bool
  | [], c, d => c == d
  | (k, bs) :: rest, c, d => c == d || (if c == k then bs.any (fun b => sub rest b d) else sub rest c d)

/-- every class is listed once, before all of its (transitive) bases -/
def ordered : Tree → Bool
  | [] => true
  | (k, bs) :: rest => !(bs.contains k) && rest.all (fun e => e.1 != k && !(e.2.contains k)) && ordered rest

/-- all classes of the (closed) world that are below `X`, `X` itself first -/
def expand (T : Tree) (X : Cls) : List Cls :=
  X :: (T.map (·.1)).filter (fun c => c != X && sub T c X)

inductive Outcome
  | normal | returned | broke | continued
  | raised (c : Cls)
  deriving DecidableEq, Repr

mutual
inductive Stmt
  | skip | ret | brk | cont
  | call (site : Site)                 -- a call site / operation of the assumption table
  | raise (c : Cls)                    -- `raise C(...)`
  | reraise                            -- bare `raise`, or `raise e` with `e` the name bound by the handler
  | seq (a b : Stmt)
  | branch (a b : Stmt)                -- `if`, conditional expression, short circuit: either side
  | loop (body orelse : Stmt)          -- `while`/`for` with `else` clause: any number of iterations
  | tryExcept (body : Stmt) (hs : Handlers) (orelse : Stmt)
  | tryFinally (body fin : Stmt)
  | other (src : String)               -- not translated: may do anything
inductive Handlers
  | nil
  | cons (classes : List Cls) (h : Stmt) (rest : Handlers)   -- `except (classes): h`
end

/-- which handler of an `except` chain takes an exception of class `c` (the first whose tuple
contains a base class of `c`); `none`: the exception is not caught -/
inductive Selects (T : Tree) (c : Cls) : Handlers → Option Stmt → Prop
  | nil : Selects T c .nil none
  | hit {cs h rest} : (∃ A, A ∈ cs ∧ Below T c A) → Selects T c (.cons cs h rest) (some h)
  | miss {cs h rest r} : (¬ ∃ A, A ∈ cs ∧ Below T c A) → Selects T c rest r → Selects T c (.cons cs h rest) r

/-- the exception that a bare `raise` in the `finally` block refers to -/
def curAfter (cur : Option Cls) : Outcome → Option Cls
  | .raised c => some c
  | _ => cur

/-- `finally` overrides the pending outcome unless it completes normally -/
def finOut (o1 o2 : Outcome) : Outcome := if o2 = .normal then o1 else o2

/-- `Runs W raises cur s o`: statement `s`, executed while exception `cur` is being handled
(`none`: no active exception), can end with outcome `o`, when call site `k` can raise class `c`
only if `raises k c`. -/
inductive Runs (W : World) (raises : Site → Cls → Prop) : Option Cls → Stmt → Outcome → Prop
  | skip {cur} : Runs W raises cur .skip .normal
  | ret {cur} : Runs W raises cur .ret .returned
  | brk {cur} : Runs W raises cur .brk .broke
  | cont {cur} : Runs W raises cur .cont .continued
  | callOk {cur k} : Runs W raises cur (.call k) .normal
  | callRaise {cur k c} : raises k c → Runs W raises cur (.call k) (.raised c)
  | raise {cur c} : Runs W raises cur (.raise c) (.raised c)
  | reraise {k} : Runs W raises (some k) .reraise (.raised k)
  | reraiseNone : Runs W raises none .reraise (.raised W.rte)
  | seqStop {cur a b o} : Runs W raises cur a o → o ≠ .normal → Runs W raises cur (.seq a b) o
  | seqGo {cur a b o} : Runs W raises cur a .normal → Runs W raises cur b o → Runs W raises cur (.seq a b) o
  | brL {cur a b o} : Runs W raises cur a o → Runs W raises cur (.branch a b) o
  | brR {cur a b o} : Runs W raises cur b o → Runs W raises cur (.branch a b) o
  -- the loop ends (condition false / iterator exhausted): the `else` clause runs
  | loopEnd {cur b e o} : Runs W raises cur e o → Runs W raises cur (.loop b e) o
  | loopNext {cur b e o1 o} : Runs W raises cur b o1 → (o1 = .normal ∨ o1 = .continued) →
      Runs W raises cur (.loop b e) o → Runs W raises cur (.loop b e) o
  | loopBreak {cur b e} : Runs W raises cur b .broke → Runs W raises cur (.loop b e) .normal
  | loopExit {cur b e o} : Runs W raises cur b o → (o = .returned ∨ ∃ c, o = .raised c) →
      Runs W raises cur (.loop b e) o
  | tryNormal {cur body hs e o} : Runs W raises cur body .normal → Runs W raises cur e o →
      Runs W raises cur (.tryExcept body hs e) o
  | tryJump {cur body hs e o} : Runs W raises cur body o → (o = .returned ∨ o = .broke ∨ o = .continued) →
      Runs W raises cur (.tryExcept body hs e) o
  | tryCaught {cur body hs e c h o} : Runs W raises cur body (.raised c) → Selects W.tree c hs (some h) →
      Runs W raises (some c) h o → Runs W raises cur (.tryExcept body hs e) o
  | tryUncaught {cur body hs e c} : Runs W raises cur body (.raised c) → Selects W.tree c hs none →
      Runs W raises cur (.tryExcept body hs e) (.raised c)
  | tryFinally {cur body fin o1 o2} : Runs W raises cur body o1 → Runs W raises (curAfter cur o1) fin o2 →
      Runs W raises cur (.tryFinally body fin) (finOut o1 o2)
  | otherNormal {cur src} : Runs W raises cur (.other src) .normal
  | otherReturned {cur src} : Runs W raises cur (.other src) .returned
  | otherBroke {cur src} : Runs W raises cur (.other src) .broke
  | otherContinued {cur src} : Runs W raises cur (.other src) .continued
  | otherRaised {cur src c} : Below W.tree c W.top → Runs W raises cur (.other src) (.raised c)

/-! ## the computable outcome set -/

/-- union without duplicates (keeps the lists small) -/
def uni (a b : List Outcome) : List Outcome := a ++ b.filter (fun o => !a.contains o)

def isJump : Outcome → Bool
  | .returned | .broke | .continued => true
  | _ => false

def seqO (oa ob : List Outcome) : List Outcome :=
  uni (oa.filter (fun o => o != .normal)) (if oa.contains .normal then ob else [])

def loopO (ob : List Outcome) : List Outcome :=
  ob.filterMap (fun o => match o with
    | .returned => some .returned
    | .raised c => some (.raised c)
    | .broke => some .normal
    | _ => none)

def allOutcomes (W : World) : List Outcome :=
  [.normal, .returned, .broke, .continued] ++ (expand W.tree W.top).map .raised

/-- remove duplicates -/
def dedup : List Outcome → List Outcome
  | [] => []
  | o :: l => let r := dedup l; if r.contains o then r else o :: r

mutual
/-- all outcomes of `s` when call site `k` may raise exactly the classes `asm k` -/
def outs (W : World) (asm : Site → List Cls) : Option Cls → Stmt → List Outcome
  | _, .skip => [.normal]
  | _, .ret => [.returned]
  | _, .brk => [.broke]
  | _, .cont => [.continued]
  | _, .call k => .normal :: (asm k).map .raised
  | _, .raise c => [.raised c]
  | cur, .reraise => match cur with
    | some k => [.raised k]
    | none => [.raised W.rte]
  | cur, .seq a b => seqO (outs W asm cur a) (outs W asm cur b)
  | cur, .branch a b => uni (outs W asm cur a) (outs W asm cur b)
  | cur, .loop b e => uni (outs W asm cur e) (loopO (outs W asm cur b))
  | cur, .tryExcept body hs e =>
    let ob := outs W asm cur body
    uni (uni (if ob.contains .normal then outs W asm cur e else []) (ob.filter isJump))
      (dedup (ob.flatMap (fun o => match o with
        | .raised c => outsH W asm c hs
        | _ => [])))
  | cur, .tryFinally body fin =>
    dedup ((outs W asm cur body).flatMap (fun o1 => (outs W asm (curAfter cur o1) fin).map (finOut o1)))
  | _, .other _ => allOutcomes W
/-- outcomes of an `except` chain for an exception of class `c` -/
def outsH (W : World) (asm : Site → List Cls) : Cls → Handlers → List Outcome
  | c, .nil => [.raised c]
  | c, .cons cs h rest => if cs.any (fun A => sub W.tree c A) then outs W asm (some c) h else outsH W asm c rest
end

/-- the classes among a set of outcomes -/
def raisedOf (l : List Outcome) : List Cls :=
  l.filterMap (fun o => match o with | .raised c => some c | _ => none)

/-- the classes that can leave `s` as an exception, given the classes *and subclasses* `abs k`
that each site may raise (this is the analysis the generated theorems evaluate) -/
def escapes (W : World) (asm : Site → List Cls) (s : Stmt) : List Cls :=
  raisedOf (outs W asm none s)

/-! ## assumption tables and linking of translated functions -/

/-- an assumption table names, per site, classes that stand for themselves and all their subclasses;
sites that are not listed may raise anything -/
def lookupAbs (W : World) (tbl : List (Site × List Cls)) (k : Site) : List Cls :=
  match tbl.lookup k with
  | some l => l
  | none => [W.top]

def expandAll (T : Tree) (l : List Cls) : List Cls := l.flatMap (expand T)

/-- the oracle respects the table: whatever site `k` raises is below a class listed for `k` -/
def Respects (W : World) (raises : Site → Cls → Prop) (abs : Site → List Cls) : Prop :=
  ∀ k c, raises k c → ∃ X, X ∈ abs k ∧ Below W.tree c X

/-- the most permissive oracle of a table of concrete classes -/
def lit (asm : Site → List Cls) : Site → Cls → Prop := fun k c => c ∈ asm k

/-- A program: translated functions, callers before callees; a function is called through the site
with its own number. -/
abbrev Prog := List (Site × Stmt)

/-- semantics of all sites: primitive sites follow `prim`, the site of a translated function raises
what an execution of its body (with the functions listed after it linked in) raises -/
def link (W : World) (prim : Site → Cls → Prop) : Prog → Site → Cls → Prop
  | [] => prim
  | (f, body) :: rest => fun k c =>
      if k = f then Runs W (link W prim rest) none body (.raised c) else link W prim rest k c

/-- concrete assumption for every site: primitive sites from the (expanded) table, function sites
the computed escape set of the body -/
def summ (W : World) (base : Site → List Cls) : Prog → Site → List Cls
  | [] => base
  | (f, body) :: rest => fun k =>
      if k = f then escapes W (summ W base rest) body else summ W base rest k

def lookupT (tbl : List (Site × List Cls)) (base : Site → List Cls) (k : Site) : List Cls :=
  match tbl.lookup k with
  | some l => l
  | none => base k

/-- `summ` for all functions at once, each body analysed once (callees first): the table the instance
theorems evaluate -/
def summTable (W : World) (base : Site → List Cls) : Prog → List (Site × List Cls)
  | [] => []
  | (f, body) :: rest =>
      let tbl := summTable W base rest
      (f, escapes W (lookupT tbl base) body) :: tbl

/-- the functions a program defines after (and including) `f` -/
def progFrom (f : Site) : Prog → Prog
  | [] => []
  | (g, body) :: rest => if g = f then (g, body) :: rest else progFrom f rest

/-- the check the instance theorems evaluate: every class that can leave function `f` is below one
of `allowed` -/
def escapesWithin (W : World) (tbl : List (Site × List Cls)) (P : Prog) (f : Site) (allowed : List Cls) : Bool :=
  (summ W (fun k => expandAll W.tree (lookupAbs W tbl k)) P f).all (fun c => allowed.any (fun A => sub W.tree c A))

/-- many `escapesWithin` checks with one evaluation of the table -/
def checkOnly (W : World) (tbl : List (Site × List Cls)) (P : Prog) (specs : List (Site × List Cls)) : Bool :=
  let base := fun k => expandAll W.tree (lookupAbs W tbl k)
  let t := summTable W base P
  specs.all (fun fa => (lookupT t base fa.1).all (fun c => fa.2.any (fun A => sub W.tree c A)))

/-- many `canEscape` checks with one evaluation of the table -/
def checkCan (W : World) (tbl : List (Site × List Cls)) (P : Prog) (specs : List (Site × Cls)) : Bool :=
  let base := fun k => expandAll W.tree (lookupAbs W tbl k)
  let t := summTable W base P
  specs.all (fun fc => (lookupT t base fc.1).contains fc.2)

/-- many "no class below one of `banned` leaves `f`" checks with one evaluation of the table -/
def checkNever (W : World) (tbl : List (Site × List Cls)) (P : Prog) (specs : List (Site × List Cls)) : Bool :=
  let base := fun k => expandAll W.tree (lookupAbs W tbl k)
  let t := summTable W base P
  specs.all (fun fb => (lookupT t base fb.1).all (fun c => !(fb.2.any (fun A => sub W.tree c A))))

/-- `checkOnly`, `checkNever` and `checkCan` with ONE evaluation of the table (the instance modules evaluate this) -/
def checkAll (W : World) (tbl : List (Site × List Cls)) (P : Prog) (only never : List (Site × List Cls))
    (can : List (Site × Cls)) : Bool :=
  let base := fun k => expandAll W.tree (lookupAbs W tbl k)
  let t := summTable W base P
  only.all (fun fa => (lookupT t base fa.1).all (fun c => fa.2.any (fun A => sub W.tree c A))) &&
  never.all (fun fb => (lookupT t base fb.1).all (fun c => !(fb.2.any (fun A => sub W.tree c A)))) &&
  can.all (fun fc => (lookupT t base fc.1).contains fc.2)

/-- membership check for the witness theorems -/
def canEscape (W : World) (tbl : List (Site × List Cls)) (P : Prog) (f : Site) (c : Cls) : Bool :=
  (summ W (fun k => expandAll W.tree (lookupAbs W tbl k)) P f).contains c

end NfcVerif.ExcFlow
