import NfcVerif.Model.IsoDep
/-!
# ISO-DEP initiator with the termination repairs (`fixes/C08/0010 - 0012`): the model C12 works with

`Model/IsoDep.lean` transcribes `nfc.tag.tt4.IsoDepInitiator` as it was before the three repairs (its loop
functions `xchgW`, `blockLoop`, `recvChain`, `exchange` are kept there unchanged: the as-found tree, the switch-off
case of `Model/IsoDepC08.lean` and the function bridge of group IsoSm refer to them).  This file transcribes the
REPAIRED functions; the card (`Card`, `CardCfg`, `isoPeer`), the air interface (`World`, `Fault`, `Rx`,
`World.xchg`), `chunks`, `encodeApdu`, `checkStatus` and the FSC / FWI tables are those of `Model/IsoDep.lean`.

* `xchgW`  = `IsoDepInitiator._exchange`: the multiplier `data[1] & 0x3F` of an S(WTX) request must be 1..59
  (else `nfc.clf.ProtocolError`), the multipliers granted while ONE block is outstanding are summed up
  and the exchange ends with `Type4TagCommandError(TIMEOUT_ERROR)` when the sum exceeds
  `max_wtxm_sum = int(MAX_WTX_TIME / fwt) = 59 * 2^(14 - FWI)` (`Pcd.wlim`, `wtxLimit`);
* `blockLoop`: a retransmission after R(ACK) with the other block number is only made while
  `i <= resendMax n_retry_nak` (= `n_retry_nak + 1`), then `PROTOCOL_ERROR`;
* `recvChain`: a block that announces chaining but carries no INF, or a response that is already longer than
  65538 octets, is `PROTOCOL_ERROR`.

The loops still take fuel `F` (structural recursion); `Lemmas/IsoDepV2.lean` proves that against EVERY card no
fuel is used up once `F` exceeds `fuelNeed pcd` and bounds the number of frames (`exchFrames`).

Only core Lean is used so that `Drv/C12.lean` links.
-/
namespace NfcVerif.IsoDep2
open NfcVerif NfcVerif.IsoDep

/-- result of the repaired `_exchange`: as `IsoDep.Rx`, plus "too much waiting time asked for" -/
inductive RxW
  | data (b : Bytes) | timeout | transmission | protocol | fuel | waited
  deriving DecidableEq, Repr

/-- `len(data) > 1 and data[0] & 0xFE == 0xF2`: the multiplier `data[1] & 0x3F` of an S(WTX) request -/
def wtxmOf : Bytes → Option Nat
  | a :: b :: _ => if a &&& 0xFE = 0xF2 then some (b &&& 0x3F) else none
  | _ => none

/-- `int(MAX_WTX_TIME / fwt)` for `MAX_WTX_TIME = 59 * 4096 * 2**14 / 13.56E6` and
`fwt = 4096 / 13.56E6 * 2**fwi`, FWI 15 read as 4 -/
def wtxLimit (fwi : Nat) : Nat := 59 * 2 ^ (14 - deriveFwi fwi)

/-- `IsoDepInitiator._exchange(data, timeout)`: send a block, grant S(WTX) requests by echoing them;
`L` = `max_wtxm_sum`, `sum` = `wtxm_sum` -/
def xchgW {σ} (P : Peer σ) (L : Nat) : Nat → Nat → World σ → Bytes → World σ × RxW
  | 0, _, w, _ => (w, .fuel)
  | f+1, sum, w, out =>
    let r := w.xchg P out
    match r.2 with
    | .data d =>
      match wtxmOf d with
      | none => (r.1, .data d)
      | some m =>
        if m = 0 ∨ m > 59 then (r.1, .protocol)
        else if sum + m > L then (r.1, .waited)
        else xchgW P L f (sum + m) r.1 d
    | .timeout => (r.1, .timeout)
    | .transmission => (r.1, .transmission)
    | .protocol => (r.1, .protocol)
    | .fuel => (r.1, .fuel)

/-- the retransmission after R(ACK) with the other block number is made while `i ≤ resendMax n_retry_nak`
(`fixes/C08/0010`: `if i > self.n_retry_nak + 1: raise Type4TagCommandError(PROTOCOL_ERROR)`): an R(NAK) is only sent
while `i ≤ n`, so the retransmission that answers the card's R(ACK) to it comes at `n + 1` at the latest and is always
made; only an R(ACK) that answers the I-block itself again and again is cut off.  The proofs use nothing but
`resendMax n ≤ n + 1`. -/
def resendMax (n : Nat) : Nat := n + 1

/-- rounds (blocks that are not S(WTX) responses) of one retry loop at most: a round is started while `i ≤ n` after a
timeout / transmission error and while `i ≤ resendMax n` after R(ACK) -/
def roundsMax (n : Nat) : Nat := max n (resendMax n) + 1

/-- the `for i in itertools.count(start=1)` retry loops (command and response phase), see `IsoDep.blockLoop`;
`resend = some pcb`: an answer starting with that octet (R(ACK) with the other block number) makes the loop send
`req` again while `i ≤ resendMax n`; `rty` is sent after a timeout / transmission error / empty frame while `i ≤ n` -/
def blockLoop {σ} (P : Peer σ) (F L n : Nat) (resend : Option Nat) (req rty : Bytes) :
    Nat → Nat → Bytes → World σ → World σ × Py Bytes
  | 0, _, _, w => (w, .error .outOfFuel)
  | f+1, i, out, w =>
    let r := xchgW P L F 0 w out
    match r.2 with
    | .data [] =>
      if i ≤ n then blockLoop P F L n resend req rty f (i+1) rty r.1 else (r.1, .error (.tagCmd RECEIVE_ERROR))
    | .data (a :: t) =>
      if resend = some a then
        if i > resendMax n then (r.1, .error (.tagCmd PROTOCOL_ERROR))
        else blockLoop P F L n resend req rty f (i+1) req r.1
      else (r.1, .ok (a :: t))
    | .timeout =>
      if i ≤ n then blockLoop P F L n resend req rty f (i+1) rty r.1 else (r.1, .error (.tagCmd TIMEOUT_ERROR))
    | .transmission =>
      if i ≤ n then blockLoop P F L n resend req rty f (i+1) rty r.1 else (r.1, .error (.tagCmd RECEIVE_ERROR))
    | .protocol => (r.1, .error (.tagCmd PROTOCOL_ERROR))
    | .waited => (r.1, .error (.tagCmd TIMEOUT_ERROR))
    | .fuel => (r.1, .error .outOfFuel)

/-- the reader side of an activated Type 4 Tag: `IsoDepInitiator` attributes -/
structure Pcd where
  pni : Nat
  miu : Int
  nNak : Nat
  nAck : Nat
  /-- `max_wtxm_sum` -/
  wlim : Nat
  /-- `self.errno`: errno of the unrecoverable error that ended the session -/
  failed : Option Int := none
  deriving DecidableEq, Repr

/-- the loop over the command blocks; returns the first response block -/
def sendChunks {σ} (P : Peer σ) (F L nNak : Nat) : List Bytes → Nat → World σ → World σ × Nat × Py Bytes
  | [], pni, w => (w, pni, .error .unbound)
  | c :: rest, pni, w =>
    let more := !rest.isEmpty
    let iblk := ((if more then 0x12 else 0x02) ||| pni) :: c
    let r := blockLoop P F L nNak (some (0xA2 ||| ((pni + 1) % 2))) iblk [0xB2 ||| pni] F 1 iblk w
    match r.2 with
    | .error e => (r.1, pni, .error e)
    | .ok [] => (r.1, pni, .error .index)
    | .ok (a :: t) =>
      if a &&& 0x01 ≠ pni then (r.1, pni, .error (.tagCmd PROTOCOL_ERROR))
      else if more then
        if a &&& 0xFE = 0xA2 then sendChunks P F L nNak rest ((pni + 1) % 2) r.1
        else (r.1, pni, .error (.tagCmd PROTOCOL_ERROR))
      else
        if a &&& 0xEE = 0x02 then (r.1, (pni + 1) % 2, .ok (a :: t))
        else (r.1, pni, .error (.tagCmd PROTOCOL_ERROR))

/-- `while data[0] & 0x10`, with the guard `len(data) == 1 or len(response) > 65538` at the loop head -/
def recvChain {σ} (P : Peer σ) (F L nAck : Nat) : Nat → Nat → Bytes → Bytes → World σ → World σ × Nat × Py Bytes
  | 0, pni, _, _, w => (w, pni, .error .outOfFuel)
  | f+1, pni, data, resp, w =>
    match data with
    | [] => (w, pni, .error .index)
    | a :: inf =>
      if a &&& 0x10 = 0 then (w, pni, .ok resp)
      else if inf = [] ∨ resp.length > 65538 then (w, pni, .error (.tagCmd PROTOCOL_ERROR))
      else
        let ack := [0xA2 ||| pni]
        let r := blockLoop P F L nAck none ack ack F 1 ack w
        match r.2 with
        | .error e => (r.1, pni, .error e)
        | .ok [] => (r.1, pni, .error .index)
        | .ok (b :: t) =>
          if b &&& 0x01 ≠ pni then (r.1, pni, .error (.tagCmd PROTOCOL_ERROR))
          else recvChain P F L nAck f ((pni + 1) % 2) (b :: t) (resp ++ t) r.1

/-- `IsoDepInitiator._exchange_command(command)` for `command is not None` -/
def exchangeCmd {σ} (P : Peer σ) (F : Nat) (pcd : Pcd) (cmd : Bytes) (w : World σ) : World σ × Pcd × Py Bytes :=
  if pcd.miu = 0 then (w, pcd, .error .value)                      -- range() arg 3 must not be zero
  else if pcd.miu < 0 ∨ cmd = [] then (w, pcd, .error .unbound)    -- no iteration: `data` unbound
  else
    let r := sendChunks P F pcd.wlim pcd.nNak (chunks pcd.miu.toNat cmd) pcd.pni w
    match r.2.2 with
    | .error e => (r.1, { pcd with pni := r.2.1 }, .error e)
    | .ok d =>
      let q := recvChain P F pcd.wlim pcd.nAck F r.2.1 d (d.drop 1) r.1
      (q.1, { pcd with pni := q.2.1 }, q.2.2)

/-- `IsoDepInitiator.exchange(command)` for `command is not None`: after an unrecoverable error no
further command is exchanged, the error is raised again -/
def exchange {σ} (P : Peer σ) (F : Nat) (pcd : Pcd) (cmd : Bytes) (w : World σ) : World σ × Pcd × Py Bytes :=
  match pcd.failed with
  | some e => (w, pcd, .error (.tagCmd e))
  | none =>
    let r := exchangeCmd P F pcd cmd w
    match r.2.2 with
    | .error (.tagCmd e) => (r.1, { r.2.1 with failed := some e }, .error (.tagCmd e))
    | _ => r

/-- `exchange(None)`: presence check with R(NAK); errors of the reader are not translated, the error latch
is neither looked at nor changed -/
def presence {σ} (P : Peer σ) (pcd : Pcd) (w : World σ) : World σ × Py Unit :=
  let r := w.xchg P [0xB2 ||| pcd.pni]
  match r.2 with
  | .data _ => (r.1, .ok ())
  | .timeout => (r.1, .error .timeout)
  | .transmission => (r.1, .error .transmission)
  | .protocol => (r.1, .error .protocol)
  | .fuel => (r.1, .error .outOfFuel)

/-- `Type4Tag.send_apdu` -/
def sendApdu {σ} (P : Peer σ) (F : Nat) (pcd : Pcd) (ext : Bool) (cla ins p1 p2 : Nat) (data : Bytes)
    (mrl : Nat) (check : Bool) (w : World σ) : World σ × Pcd × Py Bytes :=
  match encodeApdu ext cla ins p1 p2 data mrl with
  | .error e => (w, pcd, .error e)
  | .ok apdu =>
    let r := exchange P F pcd apdu w
    match r.2.2 with
    | .error e => (r.1, r.2.1, .error e)
    | .ok rsp => (r.1, r.2.1, checkStatus check rsp)

/-! ## activation parameters -/

def mkPcd (fsci fwi maxSend : Nat) : Pcd :=
  let n := deriveRetry fwi
  { pni := 0, miu := (deriveFsc fsci maxSend : Int) - 3, nNak := n, nAck := n, wlim := wtxLimit fwi, failed := none }

/-- Type 4A (`Type4ATag.__init__`), see `IsoDep.activateA` -/
def activateA (rats : Bytes) (maxSend : Nat) : Py Pcd :=
  match rats[1]? with
  | none => .ok (mkPcd 2 4 maxSend)
  | some t0 =>
    let tbIndex := if t0 &&& 0x10 ≠ 0 then 3 else 2
    let fwi := if t0 &&& 0x20 ≠ 0 then (match rats[tbIndex]? with | some tb => tb >>> 4 | none => 4) else 4
    .ok (mkPcd (t0 &&& 0x0F) fwi maxSend)

/-- Type 4B: FSCI and FWI from SENSB_RES bytes 10 and 11 -/
def activateB (sensb : Bytes) (maxSend : Nat) : Py Pcd :=
  idxN sensb 10 >>= fun a =>
  idxN sensb 11 >>= fun b =>
  .ok (mkPcd (a >>> 4) (b >>> 4) maxSend)

/-! ## sessions: commands and presence checks on one activation -/

/-- what an application does with an activated tag -/
inductive Op
  | cmd (c : Bytes)     -- `tag.transceive(c)`
  | present             -- `tag.is_present` (`exchange(None)`)
  deriving DecidableEq, Repr

/-- result of one operation -/
inductive OpRes
  | rsp (r : Py Bytes) | pres (r : Py Unit)
  deriving DecidableEq, Repr

/-- one operation -/
def step {σ} (P : Peer σ) (F : Nat) (pcd : Pcd) (w : World σ) : Op → World σ × Pcd × OpRes
  | .cmd c => let r := exchange P F pcd c w; (r.1, r.2.1, .rsp r.2.2)
  | .present => let r := presence P pcd w; (r.1, pcd, .pres r.2)

/-- a sequence of operations on one activation; results in order -/
def runOps {σ} (P : Peer σ) (F : Nat) : List Op → Pcd → World σ → World σ × Pcd × List OpRes
  | [], pcd, w => (w, pcd, [])
  | o :: os, pcd, w =>
    let r := step P F pcd w o
    let q := runOps P F os r.2.1 r.1
    (q.1, q.2.1, r.2.2 :: q.2.2)

/-! ## bounds -/

/-- fuel that is enough for every loop of the repaired initiator, whatever the card does -/
def fuelNeed (pcd : Pcd) : Nat := max (max (pcd.wlim + 1) (max (roundsMax pcd.nNak + 1) (roundsMax pcd.nAck + 1))) 65540

/-- frames needed at most by one retry loop: `roundsMax n` rounds of at most `1 + max_wtxm_sum` frames -/
def loopFrames (L n : Nat) : Nat := roundsMax n * (L + 1)

/-- frames needed at most by one `exchange` for a command of `len` octets: one retry loop per command block
(at most `len` blocks) and at most 65539 retry loops in the response phase -/
def exchFrames (pcd : Pcd) (len : Nat) : Nat :=
  len * loopFrames pcd.wlim pcd.nNak + 65539 * loopFrames pcd.wlim pcd.nAck

end NfcVerif.IsoDep2
