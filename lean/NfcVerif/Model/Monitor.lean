/-!
# Monitor discipline of the LLCP sockets (`tco.py`, `llc.py`) - "no lost wake-up"

`harness/translate_mon.py` translates every method of the socket classes into a term of `Stmt`
(`Gen/Monitor.lean`).  This file has

* the statement language (`Stmt`) and what one thread can do (`Runs`: event traces with early
  exits, `call` by reference into the method table),
* the syntactic discipline checker `chk` / `disciplineOk` (configuration `Cfg`: the lock, the
  conditions, the guard table and three explicit exemption tables),
* the per-thread monitor `mstep` the checker is sound for,
* the global semantics: `n` threads over ONE object with one (reentrant) lock, condition queues,
  spurious wake-ups, attributes abstracted to version counters (`gstep`), and the invariant the
  discipline buys (`Good`, `runGood`).

`Lemmas/Monitor.lean` proves soundness once for all programs, `Props/Monitor.lean` instantiates it
for the regenerated programs.  See `docs/monitor.md`.
-/
namespace NfcVerif.Monitor

abbrev Attr := Nat
abbrev Cv := Nat
abbrev Meth := Nat
abbrev LockId := Nat

/-- how a `wait` is guarded in the source -/
inductive GKind
  | whileG    -- `while <test>: ... cv.wait()`  (the test is re-evaluated after every wake-up)
  | ifG       -- `if <test>: cv.wait()`         (evaluated once)
  | exceptG   -- `try: <op on attr> except E: cv.wait()`  (evaluated once, by the failing operation)
  | noG       -- no enclosing test at all
  deriving DecidableEq, Repr

inductive Stmt
  | withLock (l : LockId) (s : Stmt)      -- `with self.lock:` / `with self.<condition>:`
  | wait (m : Meth) (cv : Cv) (g : GKind) (reads : List Attr) (timeout : Bool)
  | notify (m : Meth) (cv : Cv)
  | notifyAll (m : Meth) (cv : Cv)
  | write (m : Meth) (a : Attr)           -- assignment / mutating call on `self.<a>` in method `m`
  | call (m : Meth)                       -- call of another translated method (by reference)
  | reenter (m : Meth)                    -- recursive call of an entry point (accepted only outside the lock)
  | seq (a b : Stmt)
  | branch (a b : Stmt)
  | loop (s : Stmt)
  | tryc (a b : Stmt)                     -- `a`, possibly aborted, then optionally `b`
  | exit                                  -- raise / return / break / continue: aborts up to the next `tryc`
  | skip
  | other (src : String)                  -- untranslatable source: rejected by the checker
  deriving Repr

/-- observable events of one thread -/
inductive Ev
  | acq | rel
  | waitB (m : Meth) (cv : Cv) (reads : List Attr)   -- release the lock and block on `cv`
  | wake                                             -- re-acquire after notification, timeout or spuriously
  | ntf (m : Meth) (cv : Cv)
  | ntfAll (cv : Cv)
  | wr (m : Meth) (a : Attr)
  deriving DecidableEq, Repr

/-- `Runs P s tr c`: statement `s` can produce the event sequence `tr`, completing normally
(`c = true`) or aborting by an exception / early exit (`c = false`).  Exceptions come from `exit`
only: the translator puts `branch (write ..) exit` where a mutating operation can raise instead of
mutating.  `other` has no behaviour (the checker rejects it). -/
inductive Runs (P : List Stmt) : Stmt → List Ev → Bool → Prop
  | withLock {l s tr c} : Runs P s tr c → Runs P (.withLock l s) (.acq :: tr ++ [.rel]) c
  | wait {m cv g reads t} : Runs P (.wait m cv g reads t) [.waitB m cv reads, .wake] true
  | notify {m cv} : Runs P (.notify m cv) [.ntf m cv] true
  | notifyAll {m cv} : Runs P (.notifyAll m cv) [.ntfAll cv] true
  | write {m a} : Runs P (.write m a) [.wr m a] true
  | call {m s tr c} : P[m]? = some s → Runs P s tr c → Runs P (.call m) tr c
  | reenter {m s tr c} : P[m]? = some s → Runs P s tr c → Runs P (.reenter m) tr c
  | seqAbort {a b ta} : Runs P a ta false → Runs P (.seq a b) ta false
  | seq {a b ta tb c} : Runs P a ta true → Runs P b tb c → Runs P (.seq a b) (ta ++ tb) c
  | brL {a b t c} : Runs P a t c → Runs P (.branch a b) t c
  | brR {a b t c} : Runs P b t c → Runs P (.branch a b) t c
  | loop0 {s} : Runs P (.loop s) [] true
  | loopAbort {s t} : Runs P s t false → Runs P (.loop s) t false
  | loopS {s t u c} : Runs P s t true → Runs P (.loop s) u c → Runs P (.loop s) (t ++ u) c
  | tryOk {a b t} : Runs P a t true → Runs P (.tryc a b) t true
  | tryUncaught {a b t} : Runs P a t false → Runs P (.tryc a b) t false
  | tryCaught {a b t u c} : Runs P a t false → Runs P b u c → Runs P (.tryc a b) (t ++ u) c
  | exit : Runs P .exit [] false
  | skip : Runs P .skip [] true

/-- what one thread does in its life: any sequence of entry points from `E` (each may end by an
exception) -/
inductive ThreadRuns (P : List Stmt) (E : List Meth) : List Ev → Prop
  | nil : ThreadRuns P E []
  | cons {m t c u} : m ∈ E → Runs P (.call m) t c → ThreadRuns P E u → ThreadRuns P E (t ++ u)

/-! ## configuration: lock, conditions, guard table, exemption tables -/

structure Cfg where
  lock : LockId                            -- the one lock of the object
  reentrant : Bool                         -- `threading.RLock()`
  cvs : List (Cv × LockId)                 -- `threading.Condition(<lock>)`
  guards : List (Cv × List Attr)           -- for each condition: attributes read by guards of its waits
  writeExempt : List (Meth × Attr × Cv)    -- writes of `a` in `m` that need not notify `cv`
  waitExempt : List (Meth × Cv × GKind)    -- wait sites allowed to be not `while`-guarded
  notifyExempt : List (Meth × Cv)          -- plain `notify` accepted under the single-waiter assumption
  deriving Repr

/-- does some guard of condition `cv` read attribute `a`? -/
def Cfg.reads (cfg : Cfg) (a : Attr) (cv : Cv) : Bool :=
  cfg.guards.any (fun g => g.1 == cv && g.2.contains a)

def Cfg.wExempt (cfg : Cfg) (m : Meth) (a : Attr) (cv : Cv) : Bool :=
  cfg.writeExempt.any (fun x => x.1 == m && x.2.1 == a && x.2.2 == cv)

/-- the conditions that are owed a `notify_all` after method `m` writes `a` -/
def Cfg.owed (cfg : Cfg) (m : Meth) (a : Attr) : List Cv :=
  (cfg.cvs.map (·.1)).filter (fun cv => cfg.reads a cv && !cfg.wExempt m a cv)

def Cfg.nExempt (cfg : Cfg) (m : Meth) (cv : Cv) : Bool :=
  cfg.notifyExempt.any (fun x => x.1 == m && x.2 == cv)

def Cfg.wtExempt (cfg : Cfg) (m : Meth) (cv : Cv) (g : GKind) : Bool :=
  cfg.waitExempt.any (fun x => x.1 == m && x.2.1 == cv && decide (x.2.2 = g))

/-- the condition exists and is built on the object's lock -/
def Cfg.cvOk (cfg : Cfg) (cv : Cv) : Bool :=
  cfg.cvs.any (fun x => x.1 == cv && x.2 == cfg.lock)

/-- rule 1 for one wait site -/
def Cfg.waitOk (cfg : Cfg) (m : Meth) (cv : Cv) (g : GKind) (reads : List Attr) : Bool :=
  cfg.cvOk cv && reads.all (fun a => cfg.reads a cv) && (decide (g = .whileG) || cfg.wtExempt m cv g)

/-! ## the syntactic checker -/

/-- abstract state inside a locked region: `need` = conditions still owed a `notify_all` (a relevant
attribute was written and the condition has not been notified in this region), `ntf` = conditions
notified in this region (a later write does not owe them again: nobody can start waiting while the
lock is held) -/
structure A where
  need : List Cv
  ntf : List Cv
  deriving Repr, DecidableEq

def A.empty : A := ⟨[], []⟩
def A.discharged (x : A) : Bool := x.need.isEmpty
/-- `x` is at least as precise as `y` -/
def A.le (x y : A) : Bool := x.need.all (fun cv => y.need.contains cv) && y.ntf.all (fun cv => x.ntf.contains cv)
def A.join (x y : A) : A := ⟨x.need ++ y.need, x.ntf.filter (fun cv => y.ntf.contains cv)⟩

/-- `none` = unreachable -/
def joinO : Option A → Option A → Option A
  | none, y => y
  | x, none => x
  | some x, some y => some (x.join y)

def okO : Option A → Bool
  | none => true
  | some x => x.discharged

/-- the state after the loop body is covered by the state before it -/
def stable : Option A → A → Bool
  | none, _ => true
  | some x, st => x.le st

def widen (st : A) : Option A → A
  | none => st
  | some x => st.join x

/-- result: (state after normal completion, state at an abort), `none` = that exit is unreachable -/
abbrev R := Option A × Option A

/-- `chk cfg P fuel d st s = some (nrm, abt)`: `s` obeys the discipline when started at lock depth
`d` in abstract state `st`.  `fuel` bounds statement nesting plus call depth. -/
def chk (cfg : Cfg) (P : List Stmt) (E : List Meth) : Nat → Nat → A → Stmt → Option R
  | 0, _, _, _ => none
  | f + 1, d, st, s =>
    match s with
    | .skip => some (some st, none)
    | .exit => some (none, some st)
    | .other _ => none
    | .write m a =>
      let o := cfg.owed m a
      if o.isEmpty then some (some st, none)
      else if d = 0 then none                                       -- rule 2
      else some (some ⟨o.filter (fun cv => !st.ntf.contains cv) ++ st.need, st.ntf⟩, none)
    | .notifyAll _ cv => if d = 0 then none else some (some ⟨st.need.filter (fun c => c != cv), cv :: st.ntf⟩, none)
    | .notify m cv =>
      if d = 0 then none
      else if cfg.nExempt m cv then some (some ⟨st.need.filter (fun c => c != cv), cv :: st.ntf⟩, none)
      else some (some st, none)
    | .wait m cv g reads _ =>
      if d = 0 then none                                            -- rule 1: inside the lock
      else if !cfg.waitOk m cv g reads then none                    -- rule 1: guarded / exempt, lock of cv
      else if !st.discharged then none                              -- rule 3: waiting releases the lock
      else some (some A.empty, none)
    | .withLock l s =>
      if l != cfg.lock then none
      else if d != 0 && !cfg.reentrant then none
      else match chk cfg P E f (d + 1) (if d = 0 then A.empty else st) s with
        | none => none
        | some (n, a) =>
          if d = 0 then (if okO n && okO a then some (n.map (fun _ => A.empty), a.map (fun _ => A.empty)) else none)
          else some (n, a)
    | .seq a b =>
      match chk cfg P E f d st a with
      | none => none
      | some (none, aa) => some (none, aa)
      | some (some sa, aa) =>
        match chk cfg P E f d sa b with
        | none => none
        | some (nb, ab) => some (nb, joinO aa ab)
    | .branch a b =>
      match chk cfg P E f d st a, chk cfg P E f d st b with
      | some (na, aa), some (nb, ab) => some (joinO na nb, joinO aa ab)
      | _, _ => none
    | .tryc a b =>
      match chk cfg P E f d st a with
      | none => none
      | some (na, none) => some (na, none)
      | some (na, some sa) =>
        match chk cfg P E f d sa b with
        | none => none
        | some (nb, ab) => some (joinO na nb, joinO (some sa) ab)
    | .loop s =>
      match chk cfg P E f d st s with
      | none => none
      | some (n1, a1) =>
        if stable n1 st then some (some st, a1)          -- `st` is a loop invariant
        else
          let inv := widen st n1                          -- one widening step, then it must be stable
          match chk cfg P E f d inv s with
          | none => none
          | some (n2, a2) => if stable n2 inv then some (some inv, a2) else none
    | .call m =>
      match P[m]? with
      | none => none
      | some body => chk cfg P E f d st body
    | .reenter m =>
      -- a recursive call is not inlined: outside the lock it is one more run of a checked entry point
      if d = 0 && st.need.isEmpty && E.contains m then some (some A.empty, some A.empty) else none

def fuel0 : Nat := 400

/-- an entry point obeys the discipline when it checks from the unlocked state -/
def entryOk (cfg : Cfg) (P : List Stmt) (E : List Meth) (m : Meth) : Bool :=
  (chk cfg P E fuel0 0 A.empty (.call m)).isSome

/-- **the discipline**: every entry point of `E` passes -/
def disciplineOk (cfg : Cfg) (P : List Stmt) (E : List Meth) : Bool := E.all (entryOk cfg P E)

/-! ## per-thread monitor -/

structure Mon where
  depth : Nat
  waiting : Bool
  need : List Cv
  ntf : List Cv
  deriving Repr, DecidableEq

def Mon.init : Mon := ⟨0, false, [], []⟩

def mstep (cfg : Cfg) (m : Mon) : Ev → Option Mon
  | .acq => if m.waiting then none
            else if m.depth = 0 then some ⟨1, false, [], []⟩ else some { m with depth := m.depth + 1 }
  | .rel => if m.waiting || m.depth == 0 then none
            else if m.depth = 1 then (if m.need.isEmpty then some ⟨0, false, [], []⟩ else none)
            else some { m with depth := m.depth - 1 }
  | .waitB _ cv reads =>
      if !m.waiting && m.depth != 0 && m.need.isEmpty && cfg.cvOk cv && reads.all (fun a => cfg.reads a cv)
      then some ⟨m.depth, true, [], []⟩ else none
  | .wake => if m.waiting then some ⟨m.depth, false, [], []⟩ else none
  | .ntfAll cv => if !m.waiting && m.depth != 0
                  then some { m with need := m.need.filter (fun c => c != cv), ntf := cv :: m.ntf } else none
  | .ntf mt cv => if !m.waiting && m.depth != 0
                  then some (if cfg.nExempt mt cv
                             then { m with need := m.need.filter (fun c => c != cv), ntf := cv :: m.ntf } else m)
                  else none
  | .wr mt a => if m.waiting then none
                else if (cfg.owed mt a).isEmpty then some m
                else if m.depth = 0 then none
                else some { m with need := (cfg.owed mt a).filter (fun cv => !m.ntf.contains cv) ++ m.need }

def mrun (cfg : Cfg) : Mon → List Ev → Option Mon
  | m, [] => some m
  | m, e :: es => match mstep cfg m e with
    | some m' => mrun cfg m' es
    | none => none

/-! ## global semantics -/

/-- scheduling state of a thread -/
inductive TS
  | run
  | blocked (cv : Cv) (reads : List Attr) (snap : List Nat) (depth : Nat)  -- in `cv.wait()`, not notified
  | notified (depth : Nat)                                                  -- notified, must re-acquire the lock
  deriving DecidableEq, Repr

structure G (n : Nat) where
  holder : Option (Fin n)
  depth : Nat                      -- recursion level of the holder (RLock)
  ver : Attr → Cv → Nat            -- number of non-exempt writes of `a` relevant for `cv`
  ts : Fin n → TS

def G.init (n : Nat) : G n := ⟨none, 0, fun _ _ => 0, fun _ => .run⟩

def blockedOn (x : TS) (cv : Cv) : Bool :=
  match x with
  | .blocked c _ _ _ => c == cv
  | _ => false

/-- a notification moves a thread blocked on `cv` to the `notified` state -/
def wakeAll (cv : Cv) : TS → TS
  | .blocked c r s d => if c = cv then .notified d else .blocked c r s d
  | x => x

def anyBlocked {n} (g : G n) (cv : Cv) : Bool := (List.finRange n).any (fun i => blockedOn (g.ts i) cv)

/-- One step of thread `t`; `w` is the waiter a plain `notify` picks.  `none`: not enabled. -/
def gstep {n} (cfg : Cfg) (g : G n) (t : Fin n) (e : Ev) (w : Fin n) : Option (G n) :=
  match e with
  | .acq =>
    if g.ts t ≠ .run then none
    else if g.holder = none then some { g with holder := some t, depth := 1 }
    else if g.holder = some t then some { g with depth := g.depth + 1 }
    else none
  | .rel =>
    if g.holder ≠ some t then none
    else if g.depth ≤ 1 then some { g with holder := none, depth := 0 }
    else some { g with depth := g.depth - 1 }
  | .waitB _ cv reads =>
    if g.holder ≠ some t then none     -- CPython: RuntimeError("cannot wait on un-acquired lock")
    else some { g with holder := none, depth := 0,
                       ts := fun i => if i = t then .blocked cv reads (reads.map (fun a => g.ver a cv)) g.depth else g.ts i }
  | .wake =>
    if g.holder ≠ none then none
    else match g.ts t with
      | .blocked _ _ _ d => some { g with holder := some t, depth := d, ts := fun i => if i = t then .run else g.ts i }
      | .notified d => some { g with holder := some t, depth := d, ts := fun i => if i = t then .run else g.ts i }
      | .run => none
  | .ntfAll cv =>
    if g.holder ≠ some t then none
    else some { g with ts := fun i => wakeAll cv (g.ts i) }
  | .ntf _ cv =>
    if g.holder ≠ some t then none
    else if blockedOn (g.ts w) cv then some { g with ts := fun i => if i = w then wakeAll cv (g.ts i) else g.ts i }
    else if anyBlocked g cv then none     -- a waiter exists: `notify` must pick one
    else some g
  | .wr m a =>
    if g.ts t ≠ .run then none
    else some { g with ver := fun a' cv => if a' = a ∧ cfg.wExempt m a cv = false then g.ver a' cv + 1 else g.ver a' cv }

/-- **No lost wake-up**: whenever the lock is free, every thread blocked in `cv.wait()` (not
notified) still sees the values its guard read: no relevant write happened since it started to wait. -/
def Good {n} (g : G n) : Prop :=
  g.holder = none → ∀ t cv reads snap d, g.ts t = .blocked cv reads snap d → reads.map (fun a => g.ver a cv) = snap

/-- the single-waiter assumption behind `notifyExempt` -/
def Single {n} (cfg : Cfg) (g : G n) : Prop :=
  ∀ m cv, cfg.nExempt m cv = true → ∀ i j, blockedOn (g.ts i) cv = true → blockedOn (g.ts j) cv = true → i = j

abbrev Sched (n : Nat) := List (Fin n × Ev × Fin n)

/-- operations CPython refuses with `RuntimeError` unless the calling thread holds the lock -/
def needsLock : Ev → Bool
  | .waitB .. | .ntf .. | .ntfAll _ | .rel => true
  | _ => false

/-- along the schedule: condition operations happen with the lock held, and `Good` holds in every
state (steps that are not enabled end the run; so does a violation of the single-waiter assumption) -/
def runGood {n} (cfg : Cfg) : G n → Sched n → Prop
  | _, [] => True
  | g, (t, e, w) :: rest =>
    (needsLock e = true → g.holder = some t) ∧
    match gstep cfg g t e w with
    | none => True
    | some g' => Single cfg g → (Good g' ∧ runGood cfg g' rest)

/-- executable run of a schedule (for concrete traces) -/
def grun {n} (cfg : Cfg) : G n → Sched n → Option (G n)
  | g, [] => some g
  | g, (t, e, w) :: rest => match gstep cfg g t e w with
    | none => none
    | some g' => grun cfg g' rest

/-- executable negation of `Good`: the lock is free and some blocked thread's guard reads changed -/
def lostB {n} (g : G n) : Bool :=
  g.holder.isNone && (List.finRange n).any (fun t =>
    match g.ts t with
    | .blocked cv reads snap _ => reads.map (fun a => g.ver a cv) != snap
    | _ => false)

/-- number of threads blocked (not notified) on `cv` -/
def nBlocked {n} (g : G n) (cv : Cv) : Nat := ((List.finRange n).filter (fun i => blockedOn (g.ts i) cv)).length

def proj {n} (σ : Sched n) (i : Fin n) : List Ev :=
  σ.filterMap (fun x => if x.1 = i then some x.2.1 else none)

/-! ## tables for the documentation / instance theorems -/

/-- all wait sites of a statement: (method, condition, guard kind, reads, timeout) -/
def waitSites : Stmt → List (Meth × Cv × GKind × List Attr × Bool)
  | .wait m cv g r t => [(m, cv, g, r, t)]
  | .withLock _ s | .loop s => waitSites s
  | .seq a b | .branch a b | .tryc a b => waitSites a ++ waitSites b
  | _ => []

/-- the guard table of a program: per wait site its condition and reads -/
def guardsOf (P : List Stmt) : List (Cv × List Attr) :=
  (P.flatMap waitSites).map (fun x => (x.2.1, x.2.2.2.1))

/-- plain `notify` sites: (method, condition) -/
def notifySites : Stmt → List (Meth × Cv)
  | .notify m cv => [(m, cv)]
  | .withLock _ s | .loop s => notifySites s
  | .seq a b | .branch a b | .tryc a b => notifySites a ++ notifySites b
  | _ => []

/-- write sites: (method, attribute) -/
def writeSites : Stmt → List (Meth × Attr)
  | .write m a => [(m, a)]
  | .withLock _ s | .loop s => writeSites s
  | .seq a b | .branch a b | .tryc a b => writeSites a ++ writeSites b
  | _ => []

/-- methods called (by reference) in a statement -/
def callees : Stmt → List Meth
  | .call m | .reenter m => [m]
  | .withLock _ s | .loop s => callees s
  | .seq a b | .branch a b | .tryc a b => callees a ++ callees b
  | _ => []

/-- methods reachable from `todo` through calls (breadth first, `fuel` bounds the number of steps) -/
def reachFrom (P : List Stmt) : Nat → List Meth → List Meth → List Meth
  | 0, _, seen => seen
  | _, [], seen => seen
  | f + 1, m :: todo, seen =>
    if seen.contains m then reachFrom P f todo seen
    else reachFrom P f (todo ++ (match P[m]? with | some s => callees s | none => [])) (seen ++ [m])

def stmtsOf (P : List Stmt) (ms : List Meth) : List Stmt := ms.filterMap (fun m => P[m]?)

/-- guard table of the methods `ms` -/
def guardsFor (P : List Stmt) (ms : List Meth) : List (Cv × List Attr) := guardsOf (stmtsOf P ms)

/-- wait sites a call of `m` can reach -/
def waitSitesFrom (P : List Stmt) (m : Meth) : List (Meth × Cv × GKind × List Attr × Bool) :=
  (stmtsOf P (reachFrom P 200 [m] [])).flatMap waitSites

def sameSet (x y : List Meth) : Bool := x.all (fun m => y.contains m) && y.all (fun m => x.contains m)

end NfcVerif.Monitor
